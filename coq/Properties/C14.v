(* C14 — reading over HTTP gives the same bytes as reading the files locally.
   Statements only; proofs live in theories/Store/StHttpProofs.v.

   [serve sc t] is the static server of docs/serving-data.rst over the file
   system t (flat -> deep rewrite block iff [s_rewrite], gzip_static, Range);
   a server in general is any function  request number -> request -> response
   (the transport is an oracle).  [Inv ... t m] says that t is a dataset
   written by the FileAccessor model under configuration c whose abstract
   content is m (C12_reachable_inv: every guarded history reaches such a
   state). *)
From Coq Require Import NArith ZArith List Bool Lia.
From NGS Require Import Val Ints StFS StFSProofs StFileAccessor StFileAccessorProofs
                        StRefineProofs StSharded StHttp StHttpProofs.
Import ListNotations.
Open Scope N_scope.

(* Plain datasets, chunks: for a dataset written by the file accessor in ANY
   configuration (flat/deep, gzip on/off, any level), served as documented
   (rewrite block configured iff the dataset is deep), the chunk fetched by
   HttpAccessor at its flat URL equals what the local FileAccessor returns:
   the stored bytes, or a data-access error when absent.  Guards: the name
   universe of C12; a one-component scale key (as generated); non-negative
   chunk coordinates (the documented rewrite rule matches [0-9]+ only). *)
Theorem C14_http_eq_local_plain :
  forall (B : Type) (plain : list N -> B) (gz : N -> list N -> B) (gunzip : B -> gzres),
  (forall l b, gunzip (gz l b) = GzOk b) ->
  forall (slice : B -> N -> N -> option B) c fm U X,
  cleanb (base c) = true ->
  (forall n, In n U -> n <> [] /\ cleanb n = true /\ gzfree n = true) ->
  (forall n m, In n U -> In m U -> prefix n m -> n = m) ->
  (forall o, In o X -> ~ In o U /\ o <> [] /\ cleanb o = true /\ gzfree o = true) ->
  forall sc dpath,
  base c = s_root sc ++ ne_parts dpath -> s_rewrite sc = negb (flat c) -> s_gzip_static sc = true ->
  forall t m key co,
  Inv B plain gz c U fm t m -> simple_comp key = true ->
  op_ok c U X (OFetchChunk key co) -> nonneg co ->
  fst (hrun B (serve B (plain []) slice sc t) 0
            (http_fetch_chunk B plain gunzip (base_url sc dpath) key co))
  = out_data B (fst (run_op B plain gz gunzip c t (OFetchChunk key co))).
Proof. exact http_eq_local_chunk. Qed.
Print Assumptions C14_http_eq_local_plain.

(* ... and files (info, meshes, transform.json): URL-safe relative names
   whose last component does not look like a flat chunk name when the rewrite
   block is configured *)
Theorem C14_http_eq_local_file :
  forall (B : Type) (plain : list N -> B) (gz : N -> list N -> B) (gunzip : B -> gzres),
  (forall l b, gunzip (gz l b) = GzOk b) ->
  forall (slice : B -> N -> N -> option B) c fm U X,
  cleanb (base c) = true ->
  (forall n, In n U -> n <> [] /\ cleanb n = true /\ gzfree n = true) ->
  (forall n m, In n U -> In m U -> prefix n m -> n = m) ->
  (forall o, In o X -> ~ In o U /\ o <> [] /\ cleanb o = true /\ gzfree o = true) ->
  forall sc dpath,
  base c = s_root sc ++ ne_parts dpath -> s_rewrite sc = negb (flat c) -> s_gzip_static sc = true ->
  forall t m name n,
  Inv B plain gz c U fm t m -> is_absolute name = false -> spec_norm name = Some n ->
  ne_parts name = n -> In n U ->
  (s_rewrite sc = false \/ flat_axes (last n []) = None) ->
  fst (hrun B (serve B (plain []) slice sc t) 0
            (http_fetch_file B plain gunzip (base_url sc dpath) name))
  = out_data B (fst (run_op B plain gz gunzip c t (OFetchFile name))).
Proof. exact http_eq_local_file. Qed.
Print Assumptions C14_http_eq_local_file.

(* the rewrite rule recognises every flat chunk name with non-negative
   coordinates (non-vacuity of the deep case) *)
Theorem C14_rewrite_matches : forall c, nonneg c ->
  flat_axes (spec_flat_name c)
  = Some (spec_axis (cx0 c) (cx1 c), spec_axis (cy0 c) (cy1 c), spec_axis (cz0 c) (cz1 c)).
Proof. exact flat_axes_ok. Qed.
Print Assumptions C14_rewrite_matches.

(* Dispatch: an http(s) URL is given to the sharded reader exactly when the
   "sharding" option key is present or the fetched info is a JSON object that
   declares sharding (type neuroglancer_uint64_sharded_v1) for at least one
   and for all scales.  For ANY server. *)
Theorem C14_dispatch_iff :
  forall (B : Type) (plain : list N -> B) (gunzip : B -> gzres) (parse_info : B -> pinfo),
  forall (srv : server B) url o bu s,
  http_init url = Ok bu ->
  fst (hrun B srv 0 (dispatch_http B plain gunzip parse_info url o)) = DOk s ->
  (sel_sharded s = true <->
   o_shard_present o = true \/
   exists d l, info_reply B plain gunzip (srv 0%nat {| r_meth := GET; r_url := bu ++ s_info; r_range := None |}) = Ok d
               /\ parse_info d = PScales l /\ spec_declares l).
Proof. exact dispatch_iff. Qed.
Print Assumptions C14_dispatch_iff.

(* Status handling of HttpAccessor, for ANY server behaviour: a dropped
   connection or a 4xx/5xx status is a data-access error; data is returned
   only for a non-error status; HEAD 404 means "absent". *)
Theorem C14_http_status_to_error :
  forall (B : Type) (plain : list N -> B) (gunzip : B -> gzres),
  forall (srv : server B) n bu rel,
  failing B (srv n {| r_meth := GET; r_url := bu ++ rel; r_range := None |}) ->
  fst (hrun B srv n (http_fetch_file B plain gunzip bu rel)) = AccessErr.
Proof. exact fetch_status_to_error. Qed.
Print Assumptions C14_http_status_to_error.

Theorem C14_http_data_only_on_success :
  forall (B : Type) (plain : list N -> B) (gunzip : B -> gzres),
  forall (srv : server B) n bu rel d,
  fst (hrun B srv n (http_fetch_file B plain gunzip bu rel)) = Ok d ->
  exists st e body, srv n {| r_meth := GET; r_url := bu ++ rel; r_range := None |} = Resp st e body
                    /\ is_error_status st = false /\ content B plain gunzip e body = Some d.
Proof. exact fetch_ok_inv. Qed.
Print Assumptions C14_http_data_only_on_success.

Theorem C14_http_exists_status :
  forall (B : Type) (srv : server B) n bu rel,
  fst (hrun B srv n (http_file_exists B bu rel)) =
  match srv n {| r_meth := HEAD; r_url := bu ++ rel; r_range := None |} with
  | ConnErr => AccessErr
  | Resp st _ _ => if st =? 404 then Ok false else if is_error_status st then AccessErr else Ok true
  end.
Proof. exact exists_status. Qed.
Print Assumptions C14_http_exists_status.

(* Sharded datasets (single .shard files as well as legacy .index/.data
   pairs), for ANY tree: for a scale directory served as documented for
   sharded data (no rewriting, no Content-Encoding: no pre-compressed twin of
   a shard file, Range support), the sharded HTTP reader's result for an
   identifier - HEAD probes, Range reads of the shard index and of the
   minishard indices, the lookup, the Range read of the chunk - equals what the
   shard-reading algorithm that the local and the HTTP reader share returns on
   the local files, reading with the length check.  Which minishard holds an
   identifier and where the chunk lies in it ([locate]), and the index / data
   decoders, are taken as given (cluster B's models). *)
Theorem C14_http_eq_local_sharded :
  forall (B : Type) (plain : list N -> B) (gunzip : B -> gzres) (unplain : B -> option (list N))
         (slice : B -> N -> N -> option B),
  (forall x, unplain (plain x) = Some x) ->
  (forall d x a b, unplain d = Some x ->
     slice d a b = if lenN x <=? a then None
                   else Some (plain (firstn (N.to_nat (b + 1 - a)) (skipn (N.to_nat a) x)))) ->
  forall sc (t : fs B) upath name,
  s_rewrite sc = false -> tree_closed B t -> cleanb (sdir sc upath) = true ->
  no_slash name /\ name <> [] ->
  (forall suffix, In suffix [s_shard; s_index; s_data] ->
     file_at B t (with_gz (shard_file (sdir sc upath) name suffix)) = None) ->
  (forall suffix d, In suffix [s_shard; s_index; s_data] ->
     lookup B t (shard_file (sdir sc upath) name suffix) = Some (File d) -> exists x, unplain d = Some x) ->
  forall idx_decode locate data_decode hl cmc n,
  fst (hrun B (serve B (plain []) slice sc t) n
         (hs_fetch B plain gunzip unplain idx_decode locate data_decode (scale_url sc upath) name hl cmc))
  = omap B plain
      (shard_fetch_pure idx_decode locate data_decode
         (local_ex B t (sdir sc upath) name) (local_rd B unplain true t (sdir sc upath) name hl) IOErr hl cmc).
Proof. exact http_eq_local_sharded. Qed.
Print Assumptions C14_http_eq_local_sharded.

(* the length check only turns data into an error: whenever that checked
   reader returns bytes, the local reader as coded (plain seek + read; a
   missing shard fails its assertion) returns the same bytes; so data fetched
   over HTTP is always the local reader's data *)
Theorem C14_sharded_checked_is_local :
  forall (B : Type) (unplain : B -> option (list N)) idx_decode locate data_decode
         (t : fs B) dir name hl cmc d,
  shard_fetch_pure idx_decode locate data_decode
    (local_ex B t dir name) (local_rd B unplain true t dir name hl) IOErr hl cmc = Ok d ->
  shard_fetch_pure idx_decode locate data_decode
    (local_ex B t dir name) (local_rd B unplain false t dir name hl) (Crash AssertionError) hl cmc = Ok d.
Proof. exact sharded_checked_is_local. Qed.
Print Assumptions C14_sharded_checked_is_local.

(* reads that lie within the file are not affected by the check (so on
   well-formed shards the two readers coincide) *)
Theorem C14_local_read_in_bounds :
  forall (B : Type) (unplain : B -> option (list N)) (t : fs B) dir name hl lg off len f y,
  lookup B t (shard_file dir name (fst (pick lg hl off))) = Some (File f) -> unplain f = Some y ->
  snd (pick lg hl off) + len <= lenN y ->
  local_rd B unplain true t dir name hl lg off len = local_rd B unplain false t dir name hl lg off len.
Proof. exact local_rd_in_bounds. Qed.
Print Assumptions C14_local_read_in_bounds.

(* for any stateless server at all, the sharded HTTP fetch is that algorithm
   over the server's answers (used for the fault statements of C18) *)
Theorem C14_hs_fetch_is_algo :
  forall (B : Type) (plain : list N -> B) (gunzip : B -> gzres) (unplain : B -> option (list N))
         idx_decode locate data_decode (srv : server B),
  (forall n m r, srv n r = srv m r) ->
  forall scale_url shard_name hl cmc n,
  fst (hrun B srv n (hs_fetch B plain gunzip unplain idx_decode locate data_decode scale_url shard_name hl cmc))
  = omap B plain (shard_fetch_pure idx_decode locate data_decode
            (fun suffix => http_ex B srv ((scale_url ++ shard_name) ++ suffix))
            (http_rd B plain gunzip unplain srv (scale_url ++ shard_name) hl) IOErr hl cmc).
Proof. exact hs_fetch_is_algo. Qed.
Print Assumptions C14_hs_fetch_is_algo.

(* non-vacuity: a well-formed one-chunk shard, served: HTTP, checked and
   unchecked local readers all return the chunk's byte; a server answering
   404 to everything gives an I/O error *)
Theorem C14_http_sharded_example :
  w_fetch = Ok (BPlain [65]) /\ w_local true = Ok [65] /\ w_local false = Ok [65].
Proof. exact http_sharded_witness. Qed.
Print Assumptions C14_http_sharded_example.

Theorem C14_missing_shard_is_io_error :
  fst (hrun blob w_all_404 0
         (hs_fetch blob BPlain (blob_gunzip []) w_unplain (fun b => Some b) w_locate (fun b => Ok b)
                   [104;47;107;47] [48] 16 0)) = IOErr.
Proof. exact missing_shard_io_error. Qed.
Print Assumptions C14_missing_shard_is_io_error.

(* base URL normalisation never fails; an empty path becomes "/" *)
Theorem C14_http_init_total : forall url, exists bu, http_init url = Ok bu.
Proof. exact http_init_total. Qed.
Print Assumptions C14_http_init_total.

Theorem C14_http_init_empty_path_example :
  u_path (urlsplit [104;116;116;112;58;47;47;104;58;56;48]) = [] /\
  http_init [104;116;116;112;58;47;47;104;58;56;48]
  = Ok [104;116;116;112;58;47;47;104;58;56;48;47].
Proof. exact http_init_empty_path_example. Qed.
Print Assumptions C14_http_init_empty_path_example.

(* ====================================================================== *)
(* Link C14 <-> C05 (theories/Link/LinkHttpShard.v, LinkHttpShardProofs.v).

   Above, the sharded HTTP reader was related to the source-generic shard
   algorithm with [locate] and the decoders TAKEN AS GIVEN.  Here they are
   instantiated by the package reader of C05 (Shard/ShardReader.v):
     [link_locate sp]    populate_minishard_dict (skip of empty slots, filing
                         under the minishard number of the FIRST identifier),
                         ReadableMiniShardCMC's flat index walk and uint64
                         offset sums, as a C14 [locate];
     [idx_o idx_decode]  C14's index decoder (None = zlib.error) in the
                         outcome form C05 takes;
     [http_shard_fetch]  ShardedScaleBase.fetch_cmc_chunk over HTTP: shard
                         name from the identifier, HttpShard(...), fetch;
   and the writer is the sharded writer model of C05 ([session_files]).
   Files: C14 keeps a tree [fs B], C05 a directory listing name -> bytes;
   [dir_holds B plain t dir files] says that directory [dir] of the tree [t]
   holds exactly the files of the listing, as plain files; [tree_of] builds the
   smallest such tree, so the hypothesis is satisfiable for every listing. *)
From NGS Require Import Morton ShardBytes MiniShard ShardFile ShardReader ShardCanon ShardFileProofs
                        ShardTopProofs ShardImplProofs LinkHttpShard LinkHttpShardProofs.

(* returns_stored over HTTP, single .shard files: for every parameter triple
   (minishard_bits < 59), every set of chunks with distinct identifiers, every
   store order, encoders with left-inverse decoders, shard files below 2^63
   bytes (exactly the hypotheses of C05_impl_reads_canonical): the directory
   written by the sharded writer, placed as plain files into any tree and
   served as documented for sharded data (static files, Range support
   [Hslice], no URL rewriting, hence no Content-Encoding), gives back over the
   sharded HTTP accessor exactly the stored bytes of every stored chunk. *)
Theorem C14_http_sharded_returns_stored :
  forall (B : Type) (plain : list N -> B) (gunzip : B -> gzres) (unplain : B -> option (list N))
         (slice : B -> N -> N -> option B),
  (forall x, unplain (plain x) = Some x) ->
  (forall d x a b, unplain d = Some x ->
     slice d a b = if lenN x <=? a then None
                   else Some (plain (firstn (N.to_nat (b + 1 - a)) (skipn (N.to_nat a) x)))) ->
  forall (sp : sparams) (enc ienc : bytes -> bytes) (idx_decode : bytes -> option bytes)
         (data_o : bytes -> outcome bytes),
  cbits sp < 2 ^ 64 ->
  (forall b, idx_decode (ienc b) = Some b) -> (forall b, data_o (enc b) = Ok b) ->
  (forall b, b <> [] -> ienc b <> []) -> sp_m sp < 59 ->
  forall ops id b,
  ops_valid sp ops -> sizes_ok63 sp enc ienc ops -> In (id, b) ops ->
  forall sc (t : fs B) upath,
  s_rewrite sc = false -> tree_closed B t -> cleanb (sdir sc upath) = true ->
  dir_holds B plain t (sdir sc upath) (session_files sp enc ienc ops) ->
  forall n,
  fst (hrun B (serve B (plain []) slice sc t) n
         (http_shard_fetch B plain gunzip unplain sp idx_decode data_o (scale_url sc upath) id))
  = Ok (plain b).
Proof. exact http_sharded_returns_stored. Qed.
Print Assumptions C14_http_sharded_returns_stored.

(* ... and the legacy layout of the same shard file [fl] (the writer never
   produces it, the readers accept it): its first header_len bytes as
   <name>.index, the rest as <name>.data, no <name>.shard, in any listing
   [files'] held by the served tree *)
Theorem C14_http_sharded_returns_stored_legacy :
  forall (B : Type) (plain : list N -> B) (gunzip : B -> gzres) (unplain : B -> option (list N))
         (slice : B -> N -> N -> option B),
  (forall x, unplain (plain x) = Some x) ->
  (forall d x a b, unplain d = Some x ->
     slice d a b = if lenN x <=? a then None
                   else Some (plain (firstn (N.to_nat (b + 1 - a)) (skipn (N.to_nat a) x)))) ->
  forall (sp : sparams) (enc ienc : bytes -> bytes) (idx_decode : bytes -> option bytes)
         (data_o : bytes -> outcome bytes),
  cbits sp < 2 ^ 64 ->
  (forall b, idx_decode (ienc b) = Some b) -> (forall b, data_o (enc b) = Ok b) ->
  (forall b, b <> [] -> ienc b <> []) -> sp_m sp < 59 ->
  forall ops id b,
  ops_valid sp ops -> sizes_ok63 sp enc ienc ops -> In (id, b) ops ->
  forall sc (t : fs B) upath,
  s_rewrite sc = false -> tree_closed B t -> cleanb (sdir sc upath) = true ->
  forall (files' : list (bytes * bytes)) (fl : bytes),
  dir_holds B plain t (sdir sc upath) files' ->
  blookup (shard_name_of sp id ++ ext_shard) (session_files sp enc ienc ops) = Some fl ->
  blookup (shard_name_of sp id ++ ext_shard) files' = None ->
  blookup (shard_name_of sp id ++ ext_index) files' = Some (firstn (N.to_nat (hl sp)) fl) ->
  blookup (shard_name_of sp id ++ ext_data) files' = Some (skipn (N.to_nat (hl sp)) fl) ->
  (forall suffix, In suffix [s_shard; s_index; s_data] ->
     blookup ((shard_name_of sp id ++ suffix) ++ gz_suffix) files' = None) ->
  forall n,
  fst (hrun B (serve B (plain []) slice sc t) n
         (http_shard_fetch B plain gunzip unplain sp idx_decode data_o (scale_url sc upath) id))
  = Ok (plain b).
Proof. exact http_sharded_legacy_returns_stored. Qed.
Print Assumptions C14_http_sharded_returns_stored_legacy.

(* HTTP = local, for ANY served tree and ANY files (damaged or foreign ones
   included): the sharded HTTP fetch of an identifier equals C05's
   [scale_fetch] on the files that the scale directory of the tree holds,
   whenever
     - a shard source exists (<name>.shard, or <name>.index and <name>.data);
       otherwise see C14_http_sharded_missing: the two readers then fail
       differently;
     - [fetch_inb] = true: every read the package reader issues for the
       identifier - the shard index (0, header_len), the range of every
       NON-EMPTY slot (start, end) of the shard index, at start + header_len
       with length end - start mod 2^64, and the chunk range computed from the
       minishard index, if the reader gets that far - lies inside the file it
       addresses with offset < 2^63 and length < 2^63 - 1 (a zero-length read
       only needs offset < 2^63), start + header_len < 2^64 without wrapping,
       and the shard-index words are below 2^64 (i.e. the file consists of
       bytes).  Outside this region the readers really differ: the local
       reader returns a clamped, short slice or raises ValueError /
       OverflowError from seek / read, the HTTP reader raises ShardedIOError;
     - no pre-compressed "<file>.gz" twin is present (sharded data must be
       served without Content-Encoding);
     - the data decoder returns bytes, raises an OSError or crashes ([tame]).
   The guard is an executable boolean function of the files. *)
Theorem C14_http_sharded_eq_local_reader :
  forall (B : Type) (plain : list N -> B) (gunzip : B -> gzres) (unplain : B -> option (list N))
         (slice : B -> N -> N -> option B),
  (forall x, unplain (plain x) = Some x) ->
  (forall d x a b, unplain d = Some x ->
     slice d a b = if lenN x <=? a then None
                   else Some (plain (firstn (N.to_nat (b + 1 - a)) (skipn (N.to_nat a) x)))) ->
  forall sc (t : fs B) upath,
  s_rewrite sc = false -> tree_closed B t -> cleanb (sdir sc upath) = true ->
  forall (sp : sparams) (idx_decode : bytes -> option bytes) (data_o : bytes -> outcome bytes)
         (files : list (bytes * bytes)),
  dir_holds B plain t (sdir sc upath) files ->
  forall cmc n,
  (forall b, tame (data_o b)) ->
  (forall suffix, In suffix [s_shard; s_index; s_data] ->
     blookup ((shard_name_of sp cmc ++ suffix) ++ gz_suffix) files = None) ->
  dir_of (sp_s sp) files (shard_key_model (sp_p sp) (sp_m sp) (sp_s sp) cmc) <> SrcNone ->
  fetch_inb sp idx_decode (dir_of (sp_s sp) files (shard_key_model (sp_p sp) (sp_m sp) (sp_s sp) cmc)) cmc = true ->
  fst (hrun B (serve B (plain []) slice sc t) n
         (http_shard_fetch B plain gunzip unplain sp idx_decode data_o (scale_url sc upath) cmc))
  = omap B plain (scale_fetch sp (idx_o idx_decode) data_o (dir_of (sp_s sp) files) cmc).
Proof. exact http_sharded_eq_local_reader. Qed.
Print Assumptions C14_http_sharded_eq_local_reader.

(* the same for any tree and any shard name, without a listing *)
Theorem C14_http_sharded_eq_local_reader_tree :
  forall (B : Type) (plain : list N -> B) (gunzip : B -> gzres) (unplain : B -> option (list N))
         (slice : B -> N -> N -> option B),
  (forall x, unplain (plain x) = Some x) ->
  (forall d x a b, unplain d = Some x ->
     slice d a b = if lenN x <=? a then None
                   else Some (plain (firstn (N.to_nat (b + 1 - a)) (skipn (N.to_nat a) x)))) ->
  forall sc (t : fs B) upath,
  s_rewrite sc = false -> tree_closed B t -> cleanb (sdir sc upath) = true ->
  forall (sp : sparams) (idx_decode : bytes -> option bytes) (data_o : bytes -> outcome bytes) name,
  no_slash name /\ name <> [] ->
  (forall suffix, In suffix [s_shard; s_index; s_data] ->
     file_at B t (with_gz (shard_file (sdir sc upath) name suffix)) = None) ->
  (forall suffix d, In suffix [s_shard; s_index; s_data] ->
     lookup B t (shard_file (sdir sc upath) name suffix) = Some (File d) -> exists x, unplain d = Some x) ->
  forall cmc n,
  (forall b, tame (data_o b)) ->
  tree_src B unplain t (sdir sc upath) name <> SrcNone ->
  fetch_inb sp idx_decode (tree_src B unplain t (sdir sc upath) name) cmc = true ->
  fst (hrun B (serve B (plain []) slice sc t) n
         (http_shard_fetch_named B plain gunzip unplain sp idx_decode data_o (scale_url sc upath) name cmc))
  = omap B plain (shard_fetch sp (idx_o idx_decode) data_o (tree_src B unplain t (sdir sc upath) name) cmc).
Proof. exact http_eq_reader_tree. Qed.
Print Assumptions C14_http_sharded_eq_local_reader_tree.

(* no shard source at all: ShardedIOError over HTTP, AssertionError locally *)
Theorem C14_http_sharded_missing :
  forall (B : Type) (plain : list N -> B) (gunzip : B -> gzres) (unplain : B -> option (list N))
         (slice : B -> N -> N -> option B),
  (forall x, unplain (plain x) = Some x) ->
  (forall d x a b, unplain d = Some x ->
     slice d a b = if lenN x <=? a then None
                   else Some (plain (firstn (N.to_nat (b + 1 - a)) (skipn (N.to_nat a) x)))) ->
  forall sc (t : fs B) upath,
  s_rewrite sc = false -> tree_closed B t -> cleanb (sdir sc upath) = true ->
  forall (sp : sparams) (idx_decode : bytes -> option bytes) (data_o : bytes -> outcome bytes)
         (files : list (bytes * bytes)),
  dir_holds B plain t (sdir sc upath) files ->
  forall cmc n,
  (forall suffix, In suffix [s_shard; s_index; s_data] ->
     blookup ((shard_name_of sp cmc ++ suffix) ++ gz_suffix) files = None) ->
  dir_of (sp_s sp) files (shard_key_model (sp_p sp) (sp_m sp) (sp_s sp) cmc) = SrcNone ->
  fst (hrun B (serve B (plain []) slice sc t) n
         (http_shard_fetch B plain gunzip unplain sp idx_decode data_o (scale_url sc upath) cmc))
  = IOErr /\
  scale_fetch sp (idx_o idx_decode) data_o (dir_of (sp_s sp) files) cmc = Crash AssertionError.
Proof. exact http_sharded_missing. Qed.
Print Assumptions C14_http_sharded_missing.

(* the instantiation itself, source-generic: C14's shard algorithm with
   [locate := link_locate sp], run over ANY byte source (ex, rd) that routes
   to a reading mode and answers the reads that the package reader issues on
   [s] the way [s] does ([agree_on]: the shard index, the non-empty slots, the
   chunk range), computes C05's [shard_fetch_raw] on [s], then the data
   decoder with C14's error normalisation *)
Theorem C14_algo_is_package_reader :
  forall (sp : sparams) (idx_decode : bytes -> option bytes) (data_o : bytes -> outcome bytes) (s : src)
         (rd : bool -> N -> N -> outcome (list N)) (lg : bool) (ex : list N -> outcome bool)
         (missing : outcome (list N)) (cmc : N),
  s <> SrcNone -> routes lg ex -> agree_on sp idx_decode s rd lg cmc ->
  shard_fetch_pure idx_decode (link_locate sp) data_o ex rd missing (hl sp) cmc
  = bind (shard_fetch_raw sp (idx_o idx_decode) s cmc) (fun raw => dec_norm (data_o raw)).
Proof. exact algo_is_reader. Qed.
Print Assumptions C14_algo_is_package_reader.

(* every listing can be served: the tree made of the ancestors of the scale
   directory and the listed files is closed and holds the listing *)
Theorem C14_listing_tree_exists : forall (B : Type) (plain : list N -> B) dir files,
  tree_closed B (tree_of B plain dir files) /\ dir_holds B plain (tree_of B plain dir files) dir files.
Proof. exact listing_tree_exists. Qed.
Print Assumptions C14_listing_tree_exists.

(* non-vacuity, evaluated in the kernel: the four-chunk dataset of
   C05_reader_hypotheses_inhabited (2 minishard bits, 2 shard bits; one empty
   chunk; minishards 0 and 2 of shard 2), written by the writer model, served
   from /k at origin "h": all hypotheses above hold, every stored chunk comes
   back over HTTP, also from the legacy split of the shard file (64-byte
   .index, 127-byte .data); the guard of eq_local_reader holds for stored and
   non-stored identifiers in both layouts and the two readers agree (gap: empty
   bytes; unknown minishard: AssertionError); a shard that was never written
   is an I/O error over HTTP and an AssertionError locally. *)
Example C14_http_sharded_hypotheses_inhabited :
  cbits ex_sp < 2 ^ 64 /\ sp_m ex_sp < 59 /\ ops_valid ex_sp ex_ops /\ sizes_ok63 ex_sp ex_raw ex_raw ex_ops /\
  (forall b, ex_dec (ex_raw b) = Some b) /\ (forall b, ex_data (ex_raw b) = Ok b) /\
  (forall b : bytes, b <> [] -> ex_raw b <> []) /\
  s_rewrite w_site = false /\ tree_closed blob ex_tree /\ cleanb (sdir w_site ex_upath) = true /\
  dir_holds blob BPlain ex_tree (sdir w_site ex_upath) ex_files /\
  map (ex_fetch ex_tree) [10; 8; 26; 40]
    = [Ok (BPlain [9; 9; 9]); Ok (BPlain [2; 2; 2]); Ok (BPlain []); Ok (BPlain [7])] /\
  (exists fl, blookup (shard_name_of ex_sp 10 ++ ext_shard) ex_files = Some fl /\
     blookup (shard_name_of ex_sp 10 ++ ext_shard) ex_legacy_files = None /\
     blookup (shard_name_of ex_sp 10 ++ ext_index) ex_legacy_files = Some (firstn (N.to_nat (hl ex_sp)) fl) /\
     blookup (shard_name_of ex_sp 10 ++ ext_data) ex_legacy_files = Some (skipn (N.to_nat (hl ex_sp)) fl) /\
     lenN (firstn (N.to_nat (hl ex_sp)) fl) = 64 /\ lenN (skipn (N.to_nat (hl ex_sp)) fl) = 127) /\
  tree_closed blob ex_legacy_tree /\
  dir_holds blob BPlain ex_legacy_tree (sdir w_site ex_upath) ex_legacy_files /\
  map (ex_fetch ex_legacy_tree) [10; 8; 26; 40]
    = [Ok (BPlain [9; 9; 9]); Ok (BPlain [2; 2; 2]); Ok (BPlain []); Ok (BPlain [7])] /\
  forallb (fun id => fetch_inb ex_sp ex_dec (dir_of 2 ex_files 2) id) [10; 8; 26; 40; 24; 9] = true /\
  forallb (fun id => fetch_inb ex_sp ex_dec (dir_of 2 ex_legacy_files 2) id) [10; 8; 26; 40; 24; 9] = true /\
  ex_fetch ex_tree 24 = Ok (BPlain []) /\
  scale_fetch ex_sp (idx_o ex_dec) ex_data (dir_of 2 ex_files) 24 = Ok [] /\
  ex_fetch ex_tree 9 = Crash AssertionError /\
  scale_fetch ex_sp (idx_o ex_dec) ex_data (dir_of 2 ex_files) 9 = Crash AssertionError /\
  ex_fetch ex_legacy_tree 24 = Ok (BPlain []) /\
  dir_of 2 ex_files (shard_key_model 0 2 2 1) = SrcNone /\
  ex_fetch ex_tree 1 = IOErr /\
  scale_fetch ex_sp (idx_o ex_dec) ex_data (dir_of 2 ex_files) 1 = Crash AssertionError.
Proof. exact http_sharded_example. Qed.
Print Assumptions C14_http_sharded_hypotheses_inhabited.
