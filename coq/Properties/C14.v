(* C14 — reading over HTTP gives the same bytes as reading the files locally.
   Statements only; proofs live in theories/Store/StHttpProofs.v.

   [serve sc t] is the static server of docs/serving-data.rst over the file
   system t (flat -> deep rewrite block iff [s_rewrite], gzip_static, Range);
   a server in general is any function  request number -> request -> response
   (the transport is an oracle).  [Inv ... t m] says that t is a dataset
   written by the FileAccessor model under configuration c whose abstract
   content is m (C12_reachable_inv: every guarded history reaches such a
   state). *)
From Coq Require Import NArith ZArith List Bool Lia.
From NGS Require Import Val Ints StFS StFSProofs StFileAccessor StFileAccessorProofs
                        StRefineProofs StSharded StHttp StHttpProofs.
Import ListNotations.
Open Scope N_scope.

(* Plain datasets, chunks: for a dataset written by the file accessor in ANY
   configuration (flat/deep, gzip on/off, any level), served as documented
   (rewrite block configured iff the dataset is deep), the chunk fetched by
   HttpAccessor at its flat URL equals what the local FileAccessor returns:
   the stored bytes, or a data-access error when absent.  Guards: the name
   universe of C12; non-negative chunk coordinates (the documented rewrite
   rule matches [0-9]+ only). *)
Theorem C14_http_eq_local_plain :
  forall (B : Type) (plain : list N -> B) (gz : N -> list N -> B) (gunzip : B -> gzres),
  (forall l b, gunzip (gz l b) = GzOk b) ->
  forall (slice : B -> N -> N -> option B) c ex U X,
  cleanb (base c) = true ->
  (forall n, In n U -> n <> [] /\ cleanb n = true /\ gzfree n = true) ->
  (forall n m, In n U -> In m U -> prefix n m -> n = m) ->
  (forall o, In o X -> ~ In o U /\ o <> [] /\ cleanb o = true /\ gzfree o = true) ->
  forall sc dpath,
  base c = s_root sc ++ ne_parts dpath -> s_rewrite sc = negb (flat c) -> s_gzip_static sc = true ->
  forall t m key co,
  Inv B plain gz c ex U t m -> op_ok c ex U X (OFetchChunk key co) -> nonneg co ->
  fst (hrun B (serve B (plain []) slice sc t) 0
            (http_fetch_chunk B plain gunzip (base_url sc dpath) key co))
  = out_data B (fst (run_op B plain gz gunzip c t (OFetchChunk key co))).
Proof. exact http_eq_local_chunk. Qed.
Print Assumptions C14_http_eq_local_plain.

(* ... and files (info, meshes, transform.json): URL-safe relative names
   whose last component does not look like a flat chunk name when the rewrite
   block is configured *)
Theorem C14_http_eq_local_file :
  forall (B : Type) (plain : list N -> B) (gz : N -> list N -> B) (gunzip : B -> gzres),
  (forall l b, gunzip (gz l b) = GzOk b) ->
  forall (slice : B -> N -> N -> option B) c ex U X,
  cleanb (base c) = true ->
  (forall n, In n U -> n <> [] /\ cleanb n = true /\ gzfree n = true) ->
  (forall n m, In n U -> In m U -> prefix n m -> n = m) ->
  (forall o, In o X -> ~ In o U /\ o <> [] /\ cleanb o = true /\ gzfree o = true) ->
  forall sc dpath,
  base c = s_root sc ++ ne_parts dpath -> s_rewrite sc = negb (flat c) -> s_gzip_static sc = true ->
  forall t m name n,
  Inv B plain gz c ex U t m -> is_absolute name = false -> spec_norm name = Some n ->
  ne_parts name = n -> In n U ->
  (s_rewrite sc = false \/ flat_axes (last n []) = None) ->
  fst (hrun B (serve B (plain []) slice sc t) 0
            (http_fetch_file B plain gunzip (base_url sc dpath) name))
  = out_data B (fst (run_op B plain gz gunzip c t (OFetchFile name))).
Proof. exact http_eq_local_file. Qed.
Print Assumptions C14_http_eq_local_file.

(* the rewrite rule recognises every flat chunk name with non-negative
   coordinates (non-vacuity of the deep case) *)
Theorem C14_rewrite_matches : forall c, nonneg c ->
  flat_axes (spec_flat_name c)
  = Some (spec_axis (cx0 c) (cx1 c), spec_axis (cy0 c) (cy1 c), spec_axis (cz0 c) (cz1 c)).
Proof. exact flat_axes_ok. Qed.
Print Assumptions C14_rewrite_matches.

(* Dispatch: an http(s) URL is given to the sharded reader exactly when the
   "sharding" option key is present or the fetched info is a JSON object that
   declares sharding (type neuroglancer_uint64_sharded_v1) for at least one
   and for all scales.  For ANY server. *)
Theorem C14_dispatch_iff :
  forall (B : Type) (plain : list N -> B) (gunzip : B -> gzres) (parse_info : B -> pinfo),
  forall (srv : server B) url o bu s,
  http_init url = Ok bu ->
  fst (hrun B srv 0 (dispatch_http B plain gunzip parse_info url o)) = DOk s ->
  (sel_sharded s = true <->
   o_shard_present o = true \/
   exists d l, info_reply B plain gunzip (srv 0%nat {| r_meth := GET; r_url := bu ++ s_info; r_range := None |}) = Ok d
               /\ parse_info d = PScales l /\ spec_declares l).
Proof. exact dispatch_iff. Qed.
Print Assumptions C14_dispatch_iff.

(* Status handling of HttpAccessor, for ANY server behaviour: a dropped
   connection or a 4xx/5xx status is a data-access error; data is returned
   only for a non-error status; HEAD 404 means "absent". *)
Theorem C14_http_status_to_error :
  forall (B : Type) (plain : list N -> B) (gunzip : B -> gzres),
  forall (srv : server B) n bu rel,
  failing B (srv n {| r_meth := GET; r_url := bu ++ rel; r_range := None |}) ->
  fst (hrun B srv n (http_fetch_file B plain gunzip bu rel)) = AccessErr.
Proof. exact fetch_status_to_error. Qed.
Print Assumptions C14_http_status_to_error.

Theorem C14_http_data_only_on_success :
  forall (B : Type) (plain : list N -> B) (gunzip : B -> gzres),
  forall (srv : server B) n bu rel d,
  fst (hrun B srv n (http_fetch_file B plain gunzip bu rel)) = Ok d ->
  exists st e body, srv n {| r_meth := GET; r_url := bu ++ rel; r_range := None |} = Resp st e body
                    /\ is_error_status st = false /\ content B plain gunzip e body = Some d.
Proof. exact fetch_ok_inv. Qed.
Print Assumptions C14_http_data_only_on_success.

Theorem C14_http_exists_status :
  forall (B : Type) (srv : server B) n bu rel,
  fst (hrun B srv n (http_file_exists B bu rel)) =
  match srv n {| r_meth := HEAD; r_url := bu ++ rel; r_range := None |} with
  | ConnErr => AccessErr
  | Resp st _ _ => if st =? 404 then Ok false else if is_error_status st then AccessErr else Ok true
  end.
Proof. exact exists_status. Qed.
Print Assumptions C14_http_exists_status.

(* finding sharded-http-minishard-dict.  The sharded HTTP reader as coded
   (fetch_cmc_chunk consults minishard_dict, never filled) returns an error
   or crashes for EVERY server, shard, index content and identifier: it never
   returns data ... *)
Theorem C14_http_sharded_refuted :
  forall (B : Type) (plain : list N -> B) (gunzip : B -> gzres) (unplain : B -> option (list N))
         (idx_decode : list N -> option (list N)) (locate : list (list N) -> N -> outcome (N * N))
         (data_decode : list N -> outcome (list N)),
  forall scale_url shard_name hl cmc (srv : server B) n,
  exists e, fst (hrun B srv n (hs_fetch B plain gunzip unplain idx_decode locate data_decode false
                                       scale_url shard_name hl cmc)) = e
            /\ match e with Ok _ => False | _ => True end.
Proof.
  intros. apply http_sharded_never_data.
Qed.
Print Assumptions C14_http_sharded_refuted.

(* ... e.g. on a well-formed one-chunk shard served with Range support the
   fetch ends in AssertionError, while with the proposed one-word repair
   (ro_minishard_dict) it returns the chunk's byte *)
Theorem C14_http_sharded_refuted_witness :
  w_fetch false = Crash AssertionError /\ w_fetch true = Ok (BPlain [65]).
Proof. exact http_sharded_refuted_witness. Qed.
Print Assumptions C14_http_sharded_refuted_witness.

(* finding http-empty-path: base URL normalisation succeeds iff the URL has a
   non-empty path; "http://h:80" raises IndexError *)
Theorem C14_http_init_on_guard : forall url,
  u_path (urlsplit url) <> [] -> exists bu, http_init url = Ok bu.
Proof. exact http_init_on_guard. Qed.
Print Assumptions C14_http_init_on_guard.

Theorem C14_empty_path_refuted :
  exists url, u_path (urlsplit url) = [] /\ http_init url = Crash IndexError.
Proof. exact empty_path_refuted. Qed.
Print Assumptions C14_empty_path_refuted.
