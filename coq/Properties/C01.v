(* C01 — volume conversion preserves every voxel of the input image.
   Statements only; proofs in theories/Vol/VolProofs.v.  The element-wise
   value mapping f is the data-type transformer of C11; the codec round-trip
   hypothesis is what C02 proves for raw and compressed_segmentation; the
   store is the abstract one of C03 (file and sharded accessors: C12, C05). *)
From Coq Require Import NArith ZArith List Lia.
From NGS Require Import Val Ints PioModel VolModel VolProofs.
Import ListNotations.
Open Scope Z_scope.

(* every chunk written by the conversion loop is on the dataset's chunk grid *)
Theorem C01_all_writes_valid : forall size cs c,
  pos_triple size -> pos_triple cs -> In c (vgrid size cs) ->
  valid_for c size cs = Ok true.
Proof. exact vgrid_valid. Qed.
Print Assumptions C01_all_writes_valid.

(* the loop writes exactly one chunk per grid cell *)
Theorem C01_grid_count : forall sx sy sz cx cy cz,
  pos_triple (sx, sy, sz) -> pos_triple (cx, cy, cz) ->
  Z.of_nat (length (vgrid (sx, sy, sz) (cx, cy, cz)))
  = ((sx - 1) / cx + 1) * ((sy - 1) / cy + 1) * ((sz - 1) / cz + 1).
Proof. exact vgrid_count. Qed.
Print Assumptions C01_grid_count.

(* after the conversion, for EVERY voxel position and channel, reading the
   chunk that holds it and indexing it in (C,Z,Y,X) order gives the converted
   input value at that same position — for all volume sizes, chunk sizes
   (dividing the size or not, larger than the volume or 1), channel counts *)
Theorem C01_convert_pointwise :
  forall (V : Type) (f : V -> V) (vol : Z -> Z -> Z -> Z -> V) (nch : Z) (bytes : Type)
         (encode : list N -> vchunk V -> outcome bytes)
         (decode : list N -> bytes -> triple -> outcome (vchunk V)),
  (forall k ch b, encode k ch = Ok b -> decode k b (vshape V ch) = Ok ch) ->
  (forall k ch, exists b, encode k ch = Ok b) ->
  forall key size cs,
  0 < nch -> pos_triple size -> pos_triple cs ->
  let s := {| sc_key := key; sc_size := size; sc_chunk_sizes := [cs];
              sc_voxel_offset := Some (0, 0, 0) |} in
  let st := fst (run (vchunk V) bytes encode decode [s] []
                     (convert_ops V f vol nch key size cs)) in
  forall x y z ch,
  let '(sx, sy, sz) := size in
  0 <= x < sx -> 0 <= y < sy -> 0 <= z < sz -> 0 <= ch < nch ->
  let c := chunk_of size cs x y z in
  exists data,
    read_chunk (vchunk V) bytes decode [s] st key c = Ok (extents c, data) /\
    voxel_in V c data x y z ch = Some (f (vol x y z ch)).
Proof. exact convert_pointwise. Qed.
Print Assumptions C01_convert_pointwise.

(* ---- closed instances: raw codec, integer data types (proofs in
   theories/Link/LinkVolumeProofs.v) ----
   The abstract parameters of C01_convert_pointwise are instantiated: the
   voxel type is the element type [num] of the data-type transformer, f is
   the transformer [convert_scalar i o] of C11 itself, the codec is the
   modelled RawChunkEncoder for the output type (item size [dt_isz o],
   num_channels = nch) acting on chunks through the glue of LinkVolume.v.
   The round-trip hypothesis is discharged by raw_roundtrip (C10), and
   "encode always succeeds" is not assumed: the loop only encodes the chunks
   it builds, whose length is right by construction and whose values are in
   the output range because the transformer saturates (C11_int_to_int_exact). *)
From NGS Require Import DType Convert LinkVolume LinkVolumeProofs.

(* C01_convert_pointwise with "encode always succeeds" weakened to "encode
   succeeds on the chunks the loop builds" (real encoders reject arrays of the
   wrong shape or type); the raw instance below discharges that hypothesis *)
Theorem C01_convert_pointwise_enc_on_grid :
  forall (V : Type) (f : V -> V) (vol : Z -> Z -> Z -> Z -> V) (nch : Z) (bytes : Type)
         (encode : list N -> vchunk V -> outcome bytes)
         (decode : list N -> bytes -> triple -> outcome (vchunk V)),
  (forall k ch b, encode k ch = Ok b -> decode k b (vshape V ch) = Ok ch) ->
  forall key size cs,
  (forall c, In c (vgrid size cs) -> exists b, encode key (mk_chunk V f vol nch c) = Ok b) ->
  0 < nch -> pos_triple size -> pos_triple cs ->
  let s := {| sc_key := key; sc_size := size; sc_chunk_sizes := [cs];
              sc_voxel_offset := Some (0, 0, 0) |} in
  let st := fst (run (vchunk V) bytes encode decode [s] []
                     (convert_ops V f vol nch key size cs)) in
  forall x y z ch,
  let '(sx, sy, sz) := size in
  0 <= x < sx -> 0 <= y < sy -> 0 <= z < sz -> 0 <= ch < nch ->
  let c := chunk_of size cs x y z in
  exists data,
    read_chunk (vchunk V) bytes decode [s] st key c = Ok (extents c, data) /\
    voxel_in V c data x y z ch = Some (f (vol x y z ch)).
Proof. exact convert_pointwise_enc_on_grid. Qed.
Print Assumptions C01_convert_pointwise_enc_on_grid.

(* for EVERY integer input type i (signed or not), unsigned output type o,
   volume size, chunk size, channel count and integer volume with values in
   the range of i: every voxel, read back through read_chunk + voxel_in from
   the raw-encoded chunk that holds it, is the input value saturated into the
   range of o *)
Theorem C01_convert_pointwise_raw_int :
  forall (i o : dtype) (vol : Z -> Z -> Z -> Z -> Z) (nch : Z) (key : list N) (size cs : triple),
  is_int i = true -> uint_dt o = true ->
  0 < nch -> pos_triple size -> pos_triple cs ->
  (forall x y z ch, let '(sx, sy, sz) := size in
     0 <= x < sx -> 0 <= y < sy -> 0 <= z < sz -> 0 <= ch < nch -> in_range i (vol x y z ch)) ->
  let enc := vraw_enc (dt_isz o) (Z.to_N nch) in
  let dec := vraw_dec (dt_isz o) (Z.to_N nch) in
  let s := {| sc_key := key; sc_size := size; sc_chunk_sizes := [cs];
              sc_voxel_offset := Some (0, 0, 0) |} in
  let st := fst (run (vchunk num) (list N) enc dec [s] []
                     (convert_ops num (convert_scalar i o) (zvol vol) nch key size cs)) in
  forall x y z ch,
  let '(sx, sy, sz) := size in
  0 <= x < sx -> 0 <= y < sy -> 0 <= z < sz -> 0 <= ch < nch ->
  let c := chunk_of size cs x y z in
  exists data,
    read_chunk (vchunk num) (list N) dec [s] st key c = Ok (extents c, data) /\
    voxel_in num c data x y z ch = Some (NI (clamp o (vol x y z ch))).
Proof. exact convert_pointwise_raw_int. Qed.
Print Assumptions C01_convert_pointwise_raw_int.

(* and the object stored for EVERY grid chunk is the Neuroglancer raw chunk:
   the little-endian items, [dt_isz o] bytes each, of the saturated input
   values in (C,Z,Y,X) order *)
Theorem C01_convert_stored_raw_int :
  forall (i o : dtype) (vol : Z -> Z -> Z -> Z -> Z) (nch : Z) (key : list N) (size cs : triple),
  is_int i = true -> uint_dt o = true ->
  0 < nch -> pos_triple size -> pos_triple cs ->
  (forall x y z ch, let '(sx, sy, sz) := size in
     0 <= x < sx -> 0 <= y < sy -> 0 <= z < sz -> 0 <= ch < nch -> in_range i (vol x y z ch)) ->
  let enc := vraw_enc (dt_isz o) (Z.to_N nch) in
  let dec := vraw_dec (dt_isz o) (Z.to_N nch) in
  let s := {| sc_key := key; sc_size := size; sc_chunk_sizes := [cs];
              sc_voxel_offset := Some (0, 0, 0) |} in
  let st := fst (run (vchunk num) (list N) enc dec [s] []
                     (convert_ops num (convert_scalar i o) (zvol vol) nch key size cs)) in
  forall c, In c (vgrid size cs) ->
  lookup (list N) st key c
  = Some (flat_map (Words.le_bytes (N.to_nat (dt_isz o)))
                   (map Z.to_N (extract Z (clamp o) vol nch c))).
Proof. exact convert_stored_raw_int. Qed.
Print Assumptions C01_convert_stored_raw_int.

(* non-vacuity: a 3x2x2 int16 volume with 2 channels and values from -150 to
   1261 written as uint8 in 2x2x4 chunks meets the hypotheses; its chunks read
   back saturated at both ends, and the stored bytes are those values *)
Example C01_raw_int_example :
  is_int I16 = true /\ uint_dt U8 = true /\ 0 < 2 /\ pos_triple (3, 2, 2) /\ pos_triple (2, 2, 4) /\
  (forall x y z ch, 0 <= x < 3 -> 0 <= y < 2 -> 0 <= z < 2 -> 0 <= ch < 2 ->
                    in_range I16 (lv_vol x y z ch)) /\
  let enc := vraw_enc (dt_isz U8) (Z.to_N 2) in
  let dec := vraw_dec (dt_isz U8) (Z.to_N 2) in
  let st := fst (run (vchunk num) (list N) enc dec [lv_scale] []
                     (convert_ops num (convert_scalar I16 U8) (zvol lv_vol) 2 [7%N] (3, 2, 2) (2, 2, 4))) in
  chunk_of (3, 2, 2) (2, 2, 4) 1 0 1 = (0, 2, 0, 2, 0, 2) /\
  read_chunk (vchunk num) (list N) dec [lv_scale] st [7%N] (0, 2, 0, 2, 0, 2)
  = Ok ((2, 2, 2), map NI [0; 50; 0; 60; 0; 51; 0; 61; 255; 255; 255; 255; 255; 255; 255; 255]) /\
  lookup (list N) st [7%N] (2, 3, 0, 2, 0, 2) = Some [250; 255; 251; 255; 255; 255; 255; 255]%N.
Proof. exact convert_pointwise_raw_int_nonvacuous. Qed.
Print Assumptions C01_raw_int_example.

(* ---- conversion into a destination that is NOT empty ----
   whatever chunks the destination held before (an older generation of the
   dataset, another volume converted earlier), after the conversion loop every
   voxel reads as the converted input value *)
From NGS Require Import VolAnyStore.
Theorem C01_convert_into_populated :
  forall (V : Type) (f : V -> V) (vol : Z -> Z -> Z -> Z -> V) (nch : Z) (bytes : Type)
         (encode : list N -> vchunk V -> outcome bytes)
         (decode : list N -> bytes -> triple -> outcome (vchunk V)),
  (forall k ch b, encode k ch = Ok b -> decode k b (vshape V ch) = Ok ch) ->
  (forall k ch, exists b, encode k ch = Ok b) ->
  forall (st0 : store bytes) key sx sy sz cx cy cz,
  0 < nch -> pos_triple (sx, sy, sz) -> pos_triple (cx, cy, cz) ->
  let s := {| sc_key := key; sc_size := (sx, sy, sz); sc_chunk_sizes := [(cx, cy, cz)];
              sc_voxel_offset := Some (0, 0, 0) |} in
  let st := fst (run (vchunk V) bytes encode decode [s] st0
                     (convert_ops V f vol nch key (sx, sy, sz) (cx, cy, cz))) in
  forall x y z ch,
  0 <= x < sx -> 0 <= y < sy -> 0 <= z < sz -> 0 <= ch < nch ->
  let c := chunk_of (sx, sy, sz) (cx, cy, cz) x y z in
  exists data,
    read_chunk (vchunk V) bytes decode [s] st key c = Ok (extents c, data) /\
    voxel_in V c data x y z ch = Some (f (vol x y z ch)).
Proof. exact convert_into_populated. Qed.
Print Assumptions C01_convert_into_populated.
