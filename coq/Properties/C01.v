(* C01 — volume conversion preserves every voxel of the input image.
   Statements only; proofs in theories/Vol/VolProofs.v.  The element-wise
   value mapping f is the data-type transformer of C11; the codec round-trip
   hypothesis is what C02 proves for raw and compressed_segmentation; the
   store is the abstract one of C03 (file and sharded accessors: C12, C05). *)
From Coq Require Import NArith ZArith List Lia.
From NGS Require Import Val Ints PioModel VolModel VolProofs.
Import ListNotations.
Open Scope Z_scope.

(* every chunk written by the conversion loop is on the dataset's chunk grid *)
Theorem C01_all_writes_valid : forall size cs c,
  pos_triple size -> pos_triple cs -> In c (vgrid size cs) ->
  valid_for c size cs = Ok true.
Proof. exact vgrid_valid. Qed.
Print Assumptions C01_all_writes_valid.

(* the loop writes exactly one chunk per grid cell *)
Theorem C01_grid_count : forall sx sy sz cx cy cz,
  pos_triple (sx, sy, sz) -> pos_triple (cx, cy, cz) ->
  Z.of_nat (length (vgrid (sx, sy, sz) (cx, cy, cz)))
  = ((sx - 1) / cx + 1) * ((sy - 1) / cy + 1) * ((sz - 1) / cz + 1).
Proof. exact vgrid_count. Qed.
Print Assumptions C01_grid_count.

(* after the conversion, for EVERY voxel position and channel, reading the
   chunk that holds it and indexing it in (C,Z,Y,X) order gives the converted
   input value at that same position — for all volume sizes, chunk sizes
   (dividing the size or not, larger than the volume or 1), channel counts *)
Theorem C01_convert_pointwise :
  forall (V : Type) (f : V -> V) (vol : Z -> Z -> Z -> Z -> V) (nch : Z) (bytes : Type)
         (encode : list N -> vchunk V -> outcome bytes)
         (decode : list N -> bytes -> triple -> outcome (vchunk V)),
  (forall k ch b, encode k ch = Ok b -> decode k b (vshape V ch) = Ok ch) ->
  (forall k ch, exists b, encode k ch = Ok b) ->
  forall key size cs,
  0 < nch -> pos_triple size -> pos_triple cs ->
  let s := {| sc_key := key; sc_size := size; sc_chunk_sizes := [cs];
              sc_voxel_offset := Some (0, 0, 0) |} in
  let st := fst (run (vchunk V) bytes encode decode [s] []
                     (convert_ops V f vol nch key size cs)) in
  forall x y z ch,
  let '(sx, sy, sz) := size in
  0 <= x < sx -> 0 <= y < sy -> 0 <= z < sz -> 0 <= ch < nch ->
  let c := chunk_of size cs x y z in
  exists data,
    read_chunk (vchunk V) bytes decode [s] st key c = Ok (extents c, data) /\
    voxel_in V c data x y z ch = Some (f (vol x y z ch)).
Proof. exact convert_pointwise. Qed.
Print Assumptions C01_convert_pointwise.
