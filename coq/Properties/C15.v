(* C15 — slice stacks are assembled with the requested anatomical orientation.
   Statements only; proofs live in theories/Pipe/SlProofs.v, the model in
   theories/Pipe/SlSlices.v, the orientation tables in generated/Tables.v
   (regenerated from the live package on every check run). *)
From Coq Require Import NArith ZArith List Bool Lia.
From NGS Require Import Val Ints SlSlices SlProofs.
From NGSGen Require Import Tables.
Import ListNotations.
Open Scope Z_scope.

(* Each code of the (regenerated) table denotes a signed permutation of the
   axes: three letters, a permutation of (0, 1, 2), inversions +-1.  The
   table has 48 pairwise distinct codes and every letter has the meaning the
   specification gives it (checked by computation in tables_check). *)
Theorem C15_tables_signed_perm : forall code, In code possible_axis_orientations ->
  exists l0 l1 l2 p inv, code = [l0; l1; l2] /\ code_params code = Some (p, inv) /\
    In p six_perms /\ length inv = 3%nat /\ (forall v, In v inv -> v = 1 \/ v = -1).
Proof. exact tables_signed_perm_lemma. Qed.
Print Assumptions C15_tables_signed_perm.

Theorem C15_tables_complete :
  forallb code_ok possible_axis_orientations = true /\
  length possible_axis_orientations = 48%nat /\ nodup_codes possible_axis_orientations = true.
Proof. exact tables_check. Qed.
Print Assumptions C15_tables_complete.

(* utils.invert_permutation / utils.permute on those permutations *)
Theorem C15_invert_permutation : forall p, In p six_perms ->
  exists q, invert_permutation p = Ok q /\
    forall k, (k < 3)%nat -> nth (Z.to_nat (nth k p 0)) q (-1) = Z.of_nat k.
Proof. exact invert_permutation_six. Qed.
Print Assumptions C15_invert_permutation.

(* On the guard (code in the table, slice axis NOT reversed, the input really
   is a stack of the announced size -- any sizes, any chunk sizes, any number
   of directories and channels): the run completes; every voxel of the output
   equals the pixel the code designates (letters read as directions, channels
   in order); every voxel lies in a written chunk; and exactly one chunk per
   cell of the chunk grid was written. *)
Theorem C15_orientation_pointwise_on_guard : forall j, c15_guard j = true ->
  exists ds sx sy sz cx cy cz,
    j_size j = [sx; sy; sz] /\ j_chunk j = [cx; cy; cz] /\ run j = (ds, Ok tt) /\
    (forall x y z c, 0 <= x < sx -> 0 <= y < sy -> 0 <= z < sz -> 0 <= c ->
       read_back ds x y z c = designated (j_code j) (sx, sy, sz) (j_dirs j) x y z c) /\
    (forall x y z, 0 <= x < sx -> 0 <= y < sy -> 0 <= z < sz ->
       exists ck, In ck ds /\ in_chunk ck x y z = true) /\
    length ds = (Z.to_nat (n_chunks sx cx) * Z.to_nat (n_chunks sy cy) * Z.to_nat (n_chunks sz cz))%nat.
Proof. exact orientation_on_guard_lemma. Qed.
Print Assumptions C15_orientation_pointwise_on_guard.

(* the part of the statement above about groups, on its own *)
Theorem C15_all_groups_written : forall j, c15_guard j = true ->
  exists ds sx sy sz, j_size j = [sx; sy; sz] /\ fst (run j) = ds /\ snd (run j) = Ok tt /\
    forall x y z, 0 <= x < sx -> 0 <= y < sy -> 0 <= z < sz ->
      exists ck, In ck ds /\ in_chunk ck x y z = true.
Proof.
  intros j Hg. destruct (orientation_on_guard_lemma j Hg)
    as (ds & sx & sy & sz & cx & cy & cz & Hs & _ & Hr & _ & Hcov & _).
  exists ds, sx, sy, sz. rewrite Hr. repeat split; assumption.
Qed.
Print Assumptions C15_all_groups_written.

(* non-vacuity: code ASR, 2 x 3 x 4 volume, chunks 2 x 2 x 3, an RGB directory
   and a grey-level directory (4 channels) *)
Example C15_guard_nonvacuous : c15_guard ras_example = true /\ snd (run ras_example) = Ok tt /\
  read_back (fst (run ras_example)) 1 2 3 3 =
    Some {| s_dir := 1; s_file := 1; s_row := 3; s_col := 2; s_ch := 0 |}.
Proof. exact guard_nonvacuous. Qed.

(* Outside the guard.  The arithmetic fact, for every slice count and chunk
   depth: the last group of a reversed slice axis selects nothing, because
   its stop index -1 means "the last element" to Python. *)
Theorem C15_reversed_last_group_empty : forall n d, 0 < n -> 0 < d ->
  group_sel n n d (-1) ((n - 1) / d) = [].
Proof. exact reversed_last_group_empty_lemma. Qed.
Print Assumptions C15_reversed_last_group_empty.

(* hence NO conversion with a reversed slice axis (third letter L, P or I)
   ever completes, whatever the sizes *)
Theorem C15_reversed_never_completes : forall j,
  existsb (code_eqb (j_code j)) possible_axis_orientations = true ->
  slice_axis_forward (j_code j) = false -> job_wf j = true ->
  snd (run j) <> Ok tt.
Proof. exact reversed_never_completes_lemma. Qed.
Print Assumptions C15_reversed_never_completes.

(* the exact witness: code RAI, one 1 x 1 slice *)
Theorem C15_reversed_last_group_refuted :
  c15_guard rai_witness = false /\ job_wf rai_witness = true /\
  run rai_witness = ([], Crash ValueError).
Proof. exact reversed_last_group_refuted_lemma. Qed.
Print Assumptions C15_reversed_last_group_refuted.

(* code LPI, three slices, depth 2: the first group is written correctly, the
   second aborts the run and its voxels are absent *)
Theorem C15_reversed_partial_output :
  map ck_coords (fst (run lpi_witness)) = [(0, 2, 0, 2, 0, 2)] /\ snd (run lpi_witness) = Crash ValueError /\
  read_back (fst (run lpi_witness)) 0 0 0 0 = designated [76; 80; 73]%N (2, 2, 3) (j_dirs lpi_witness) 0 0 0 0 /\
  read_back (fst (run lpi_witness)) 0 0 2 0 = None.
Proof. exact reversed_partial_output_lemma. Qed.
Print Assumptions C15_reversed_partial_output.

(* the groups before the last one ARE read in reversed order, as intended *)
Theorem C15_reversed_inner_groups : forall n d g, 0 < d -> 0 <= g -> d * (g + 1) < n ->
  group_sel n n d (-1) g = map (fun i => n - 1 - d * g - i) (zrange 0 d).
Proof. exact reversed_inner_group_lemma. Qed.
Print Assumptions C15_reversed_inner_groups.
