(* C15 — slice stacks are assembled with the requested anatomical orientation.
   Statements only; proofs live in theories/Pipe/SlProofs.v, the model in
   theories/Pipe/SlSlices.v, the orientation tables in generated/Tables.v
   (regenerated from the live package on every check run). *)
From Coq Require Import NArith ZArith List Bool Lia Sorted Permutation.
From NGS Require Import Val Ints SlSlices SlProofs.
From NGSGen Require Import Tables.
Import ListNotations.
Open Scope Z_scope.

(* Each code of the (regenerated) table denotes a signed permutation of the
   axes: three letters, a permutation of (0, 1, 2), inversions +-1.  The
   table has 48 pairwise distinct codes and every letter has the meaning the
   specification gives it (checked by computation in tables_check). *)
Theorem C15_tables_signed_perm : forall code, In code possible_axis_orientations ->
  exists l0 l1 l2 p inv, code = [l0; l1; l2] /\ code_params code = Some (p, inv) /\
    In p six_perms /\ length inv = 3%nat /\ (forall v, In v inv -> v = 1 \/ v = -1).
Proof. exact tables_signed_perm_lemma. Qed.
Print Assumptions C15_tables_signed_perm.

Theorem C15_tables_complete :
  forallb code_ok possible_axis_orientations = true /\
  length possible_axis_orientations = 48%nat /\ nodup_codes possible_axis_orientations = true.
Proof. exact tables_check. Qed.
Print Assumptions C15_tables_complete.

(* utils.invert_permutation / utils.permute on those permutations *)
Theorem C15_invert_permutation : forall p, In p six_perms ->
  exists q, invert_permutation p = Ok q /\
    forall k, (k < 3)%nat -> nth (Z.to_nat (nth k p 0)) q (-1) = Z.of_nat k.
Proof. exact invert_permutation_six. Qed.
Print Assumptions C15_invert_permutation.

(* For every code of the table (all 48, forward and reversed slice axes) and
   every input that really is a stack of the announced size -- any sizes, any
   chunk sizes, any number of directories and channels: the run completes;
   every voxel of the output equals the pixel the code designates (letters
   read as directions, channels in order); every voxel lies in a written
   chunk; and exactly one chunk per cell of the chunk grid was written.
   [c15_wf] is only the well-formedness of the input (code in the table,
   positive sizes, as many files of the right dimensions as the info says). *)
Theorem C15_orientation_pointwise : forall j, c15_wf j = true ->
  exists ds sx sy sz cx cy cz,
    j_size j = [sx; sy; sz] /\ j_chunk j = [cx; cy; cz] /\ run j = (ds, Ok tt) /\
    (forall x y z c, 0 <= x < sx -> 0 <= y < sy -> 0 <= z < sz -> 0 <= c ->
       read_back ds x y z c = designated (j_code j) (sx, sy, sz) (j_dirs j) x y z c) /\
    (forall x y z, 0 <= x < sx -> 0 <= y < sy -> 0 <= z < sz ->
       exists ck, In ck ds /\ in_chunk ck x y z = true) /\
    length ds = (Z.to_nat (n_chunks sx cx) * Z.to_nat (n_chunks sy cy) * Z.to_nat (n_chunks sz cz))%nat.
Proof. exact orientation_pointwise_lemma. Qed.
Print Assumptions C15_orientation_pointwise.

(* the part of the statement above about groups, on its own *)
Theorem C15_all_groups_written : forall j, c15_wf j = true ->
  exists ds sx sy sz, j_size j = [sx; sy; sz] /\ fst (run j) = ds /\ snd (run j) = Ok tt /\
    forall x y z, 0 <= x < sx -> 0 <= y < sy -> 0 <= z < sz ->
      exists ck, In ck ds /\ in_chunk ck x y z = true.
Proof.
  intros j Hg. destruct (orientation_pointwise_lemma j Hg)
    as (ds & sx & sy & sz & cx & cy & cz & Hs & _ & Hr & _ & Hcov & _).
  exists ds, sx, sy, sz. rewrite Hr. repeat split; assumption.
Qed.
Print Assumptions C15_all_groups_written.

(* Which files each slice group reads, with Python's slice semantics, for
   both directions and EVERY group including the last one (whose stop is the
   omitted bound): exactly its slices, in the order of the oriented stack. *)
Theorem C15_group_selection : forall n d i2 g, i2 = 1 \/ i2 = -1 -> 0 < d -> 0 <= g -> d * g < n ->
  group_sel n n d i2 g =
  map (fun i => flip_index n i2 (d * g + i)) (zrange 0 (Z.min (d * (g + 1)) n - d * g)).
Proof. exact group_sel_spec. Qed.
Print Assumptions C15_group_selection.

(* non-vacuity: code ASR, 2 x 3 x 4 volume, chunks 2 x 2 x 3, an RGB directory
   and a grey-level directory (4 channels) *)
Example C15_wf_nonvacuous : c15_wf ras_example = true /\ snd (run ras_example) = Ok tt /\
  read_back (fst (run ras_example)) 1 2 3 3 =
    Some {| s_dir := 1; s_file := 1; s_row := 3; s_col := 2; s_ch := 0 |}.
Proof. exact wf_nonvacuous. Qed.

(* reversed slice axis (third letter I): code LPI, three slices, depth 2 *)
Example C15_reversed_example : c15_wf lpi_example = true /\
  map ck_coords (fst (run lpi_example)) = [(0, 2, 0, 2, 0, 2); (0, 2, 0, 2, 2, 3)] /\
  snd (run lpi_example) = Ok tt /\
  read_back (fst (run lpi_example)) 0 0 0 0 = Some {| s_dir := 0; s_file := 2; s_row := 1; s_col := 1; s_ch := 0 |} /\
  read_back (fst (run lpi_example)) 1 1 2 0 = Some {| s_dir := 0; s_file := 0; s_row := 0; s_col := 0; s_ch := 0 |}.
Proof. exact reversed_example. Qed.

Example C15_rai_single_slice :
  map ck_coords (fst (run rai_example)) = [(0, 1, 0, 1, 0, 1)] /\ snd (run rai_example) = Ok tt.
Proof. exact rai_example_ok. Qed.

(* ---------- order of the slices of one directory ---------- *)

(* The stack order of a directory is sorted(d.iterdir()): [slice_order names]
   is a permutation of the names, sorted for the lexicographic order on the
   bytes of the names, and it is THE sorted permutation: any list with the
   same names that is sorted equals it.  (All names, any number, duplicates
   included.) *)
Theorem C15_slice_order_sorted_permutation : forall names,
  Permutation names (slice_order names) /\ Sorted lex_le (slice_order names) /\
  forall l, Permutation names l -> Sorted lex_le l -> l = slice_order names.
Proof. exact slice_order_spec. Qed.
Print Assumptions C15_slice_order_sorted_permutation.

(* the lexicographic order on names is a total order: reflexive, transitive,
   total, and antisymmetric (two names each before the other are equal, so
   distinct names are strictly ordered) *)
Theorem C15_lex_order_total : 
  (forall a, lex_le a a) /\ (forall a b c, lex_le a b -> lex_le b c -> lex_le a c) /\
  (forall a b, lex_le a b \/ lex_le b a) /\ (forall a b, lex_le a b -> lex_le b a -> a = b).
Proof.
  split; [exact lex_le_refl|]. split; [exact lex_le_trans|]. split; [exact lex_le_total | exact lex_le_antisym].
Qed.
Print Assumptions C15_lex_order_total.

(* numeric and lexicographic order differ: files s1 s2 s9 s10 are stacked as
   s1 s10 s2 s9 *)
Example C15_slice_order_example :
  slice_order [[115; 49]; [115; 50]; [115; 57]; [115; 49; 48]]%N
  = [[115; 49]; [115; 49; 48]; [115; 50]; [115; 57]]%N.
Proof. exact slice_order_example. Qed.
