(* C02 — compressed_segmentation output conforms to the Neuroglancer format.
   Statements only; proofs live in theories/Codec/*Proofs.v.
   Model: Codec/CSegEncode.v (encoder), Codec/CSegDecode.v (package decoder).
   Specification, written from the format document only: Codec/CSegSpec.v. *)
From Coq Require Import NArith ZArith List Lia.
From NGS Require Import Val Ints Words Arr4 CSegEncode CSegSpec CSegDecode
     CSegPackProofs CSegEncodeProofs CSegSpecProofs CSegEncodeOkProofs CSegImplProofs.
Import ListNotations.
Open Scope N_scope.

(* Bit packing: unpacking the packed table indices gives them back, for every
   bit width of the format (1,2,4,8,16,32) and ANY number of indices. *)
Theorem C02_unpack_pack : forall b idx,
  pos_bits b -> Forall (fun v => v < 2 ^ b) idx ->
  unpack_values (pack_values b idx) b (lenN idx) = idx.
Proof. exact unpack_pack. Qed.
Print Assumptions C02_unpack_pack.

(* The packed indices of a block always occupy WHOLE 32-bit words: exactly
   ceil(n / (32 / b)) of them for n indices of b bits (a block whose voxel
   count does not fill the last word is padded, never cut short), and every
   word is below 2^32; with 0 bits nothing is stored. *)
Theorem C02_pack_whole_words : forall b idx,
  pos_bits b -> Forall (fun v => v < 2 ^ b) idx ->
  lenN (pack_values b idx) = cdiv (lenN idx) (32 / b) /\
  Forall (fun w => w < two32) (pack_values b idx) /\
  pack_values 0 idx = [].
Proof.
  intros b idx Hb Hidx.
  exact (conj (pack_values_length b idx Hb)
              (conj (pack_values_bound b idx Hidx) (pack_values_0 idx))).
Qed.
Print Assumptions C02_pack_whole_words.

(* e.g. 343 indices of 16 bits (a 7x7x7 block with more than 256 labels) take
   172 words, the last one half used *)
Example C02_example_odd_block :
  lenN (pack_values 16 (repeat 1 343)) = 172 /\ cdiv 343 (32 / 16) = 172.
Proof. split; vm_compute; reflexivity. Qed.

(* Conformance: whenever the encoder returns bytes, the decoder written from
   the format document recovers EVERY voxel — for all chunk shapes, all block
   sizes (non-cubic, larger than the chunk, not dividing it), both label
   types, any number of channels, any labels below 2^32 resp. 2^64. *)
Theorem C02_encode_spec_roundtrip : forall dt nc g a buf,
  wf_arr (dt_bound dt) a -> cseg_encode dt nc g a = Ok buf ->
  forall c z y x, in4 a c z y x ->
    spec_value dt buf (a_y a) (a_x a) (g_bx g) (g_by g) (g_bz g) c z y x = Some (get4 a c z y x).
Proof. exact encode_spec_roundtrip. Qed.
Print Assumptions C02_encode_spec_roundtrip.

(* ... and the bytes pass the structural validator. *)
Theorem C02_encode_wellformed : forall dt nc g a buf,
  wf_arr (dt_bound dt) a -> cseg_encode dt nc g a = Ok buf ->
  well_formed dt buf (a_c a) (a_z a) (a_y a) (a_x a) (g_bx g) (g_by g) (g_bz g) = true.
Proof. exact encode_wellformed. Qed.
Print Assumptions C02_encode_wellformed.

(* The package's own decoder (faithful model, with all its guards and failure
   points) recovers the chunk as well: all its checks pass on the encoder's
   output and the block-wise reassembly equals the input array. *)
Theorem C02_encode_impl_roundtrip : forall dt nc g a buf,
  wf_arr (dt_bound dt) a -> cseg_encode dt nc g a = Ok buf ->
  cseg_decode dt nc g (a_x a) (a_y a) (a_z a) buf = Ok a.
Proof. exact encode_impl_roundtrip. Qed.
Print Assumptions C02_encode_impl_roundtrip.

(* The package decoder is SOUND w.r.t. the specification on arbitrary bytes (no
   well-formedness hypothesis, bytes need not even be below 256): whenever it
   accepts a byte string, every voxel of the array it returns is exactly the
   value the specification decoder reads from those bytes.  So a file decodes
   the same way here as in any reader following the format document. *)
Theorem C02_decoder_agrees_with_spec : forall dt nc g cx cy cz buf a,
  cseg_decode dt nc g cx cy cz buf = Ok a ->
  forall c z y x, c < nc -> z < cz -> y < cy -> x < cx ->
    spec_value dt buf cy cx (g_bx g) (g_by g) (g_bz g) c z y x = Some (get4 a c z y x).
Proof. exact cseg_decode_sound. Qed.
Print Assumptions C02_decoder_agrees_with_spec.

(* Non-vacuity: below the format's own 24-bit offset limit (stated as a bound
   computed from the shapes alone) the encoder does return bytes: no other
   failure exists (pad_block's argmax on an empty block, the 2^32-label
   assertion and both struct.pack_into range errors are unreachable). *)
Theorem C02_encode_ok : forall dt nc g a,
  wf_arr (dt_bound dt) a -> a_c a = nc ->
  g_bx g <> 0 -> g_by g <> 0 -> g_bz g <> 0 ->
  enc_size_bound dt a g < two24 ->
  exists buf, cseg_encode dt nc g a = Ok buf.
Proof. exact encode_ok. Qed.
Print Assumptions C02_encode_ok.

(* the hypotheses are met by a concrete non-trivial input: the 1x1x2x1 chunk
   with block (4,2,2) of the design document (non-cubic block, larger than the
   chunk), and the decoded voxels are the labels 1 and 2 *)
Example C02_example :
  let a := {| a_c := 1; a_z := 1; a_y := 2; a_x := 1; a_data := [1; 2] |} in
  let g := {| g_bx := 4; g_by := 2; g_bz := 2 |} in
  wf_arr (dt_bound U32) a /\ enc_size_bound U32 a g < two24 /\
  exists buf, cseg_encode U32 1 g a = Ok buf /\
              spec_value U32 buf 2 1 4 2 2 0 0 1 0 = Some 2.
Proof.
  cbv zeta. split; [split; [reflexivity|repeat constructor]|].
  split; [reflexivity|]. eexists. split; vm_compute; reflexivity.
Qed.
