(* C07 -- downscalers compute the documented block statistic exactly.
   Statements only; proofs live in theories/Num/DownscaleProofs.v (striding,
   majority), theories/Num/AverageProofs.v (float64 exactness, shapes) and
   theories/Num/AverageBlock.v (block-mean identity, bounds, witnesses).
   Model and specification: theories/Num/Downscale.v. *)
From Coq Require Import ZArith QArith List.
From Coq Require Import SpecFloat.
From NGS Require Import Val DType FloatModel Convert ConvertFloatProofs Downscale DownscaleProofs
     AverageProofs AverageBlock.
Import ListNotations.
Close Scope Q_scope.
Close Scope Z_scope.

(* (1) striding: any factors >= 1, any shape: shape ceil(size/factor), every
   voxel is the first voxel of its block; the result is the specification array *)
Theorem C07_stride_spec : forall A (d : A) fs nc nz ny nx (a : arr4 A),
  check_factors_base fs = true -> rect4 nc nz ny nx a ->
  exists out, stride_model fs a = Ok out /\
    rect4 nc (cdiv nz (fac fs 2)) (cdiv ny (fac fs 1)) (cdiv nx (fac fs 0)) out /\
    (forall c z y x, get4 d out c z y x = get4 d a c (z * fac fs 2) (y * fac fs 1) (x * fac fs 0)) /\
    out = stride_spec d (fac fs 0) (fac fs 1) (fac fs 2) nc nz ny nx a.
Proof. exact stride_spec_full. Qed.
Print Assumptions C07_stride_spec.

Theorem C07_stride_rejects : forall A fs (a : arr4 A),
  check_factors_base fs = false -> stride_model fs a = Crash NotImplementedError.
Proof. exact stride_rejects. Qed.
Print Assumptions C07_stride_rejects.

(* (1) majority: any factors >= 1, any shape: never an error, shape
   ceil(size/factor), every voxel the most frequent label of its clamped block,
   the smallest label on ties *)
Theorem C07_majority_spec : forall fs nc nz ny nx (a : arr4 Z),
  check_factors_base fs = true -> rect4 nc nz ny nx a ->
  exists out, majority_model fs nz ny nx a = Ok out /\
    rect4 nc (cdiv nz (fac fs 2)) (cdiv ny (fac fs 1)) (cdiv nx (fac fs 0)) out /\
    forall c z y x, c < nc -> z < cdiv nz (fac fs 2) -> y < cdiv ny (fac fs 1) ->
      x < cdiv nx (fac fs 0) ->
      is_majority (majority_block_at (fac fs 0) (fac fs 1) (fac fs 2) a c z y x)
                  (get4 0%Z out c z y x).
Proof. exact majority_spec_full. Qed.
Print Assumptions C07_majority_spec.

Theorem C07_majority_unique : forall b v w, is_majority b v -> is_majority b w -> v = w.
Proof. exact is_majority_unique. Qed.
Print Assumptions C07_majority_unique.

(* the extracted oracle majority_ref computes that statistic *)
Theorem C07_majority_oracle : forall b, b <> [] ->
  exists v, majority_ref b = Some v /\ is_majority b v.
Proof. exact majority_ref_spec. Qed.
Print Assumptions C07_majority_oracle.

Theorem C07_majority_rejects : forall fs nz ny nx (a : arr4 Z),
  check_factors_base fs = false -> majority_model fs nz ny nx a = Crash NotImplementedError.
Proof. exact majority_rejects. Qed.
Print Assumptions C07_majority_rejects.

(* (2) averaging: supported factors give shape ceil(size/factor), for every
   dtype and outside value; unsupported ones NotImplementedError *)
Theorem C07_avg_shape : forall dt o fs nc nz ny nx (a : arr4 num),
  check_factors_avg fs = true -> rect4 nc nz ny nx a ->
  exists out, avg_model dt o fs a = Ok out /\
    rect4 nc (cdiv nz (fac fs 2)) (cdiv ny (fac fs 1)) (cdiv nx (fac fs 0)) out.
Proof. exact avg_shape. Qed.
Print Assumptions C07_avg_shape.

Theorem C07_avg_rejects : forall dt o fs a,
  check_factors_avg fs = false -> avg_model dt o fs a = Crash NotImplementedError.
Proof. exact avg_rejects. Qed.
Print Assumptions C07_avg_rejects.

(* (3) averaging on uint8/uint16/uint32 is exact for ALL values: the whole
   result is the specification array -- in every voxel the exact mean of the
   padded block (edge value, or an outside value on the grid of multiples of
   2^(3-k), 3 <= k <= 20, e.g. 0, 1.5, 255, -3 with k = 4), rounded half to
   even, saturated. *)
Theorem C07_avg_exact : forall dt k (oc : option Z) fs nc nz ny nx (V : arr4 Z),
  small_uint dt = true -> check_factors_avg fs = true -> (3 <= k <= 20)%Z ->
  optP (Pu 3) oc -> rect4 nc nz ny nx V -> Forall4 (in_range dt) V ->
  avg_model dt (option_map (fl k) oc) fs (map4 NI V) =
    Ok (avg_spec dt (option_map (gridQ k) oc) (fac fs 0) (fac fs 1) (fac fs 2) nc nz ny nx
                 (map4 inject_Z V)).
Proof. exact avg_exact_small_uint. Qed.
Print Assumptions C07_avg_exact.

(* ... and on any unsigned type, uint64 included, when the voxels are small
   enough for the grid: |v| * 2^k < 2^52 (uint64 below 2^49 with k = 3) *)
Theorem C07_avg_exact_on_guard : forall dt k (oc : option Z) fs nc nz ny nx (V : arr4 Z),
  is_uint dt = true -> check_factors_avg fs = true -> (3 <= k <= 20)%Z ->
  optP (Pu 3) oc -> rect4 nc nz ny nx V -> Forall4 (small_val k) V ->
  avg_model dt (option_map (fl k) oc) fs (map4 NI V) =
    Ok (avg_spec dt (option_map (gridQ k) oc) (fac fs 0) (fac fs 1) (fac fs 2) nc nz ny nx
                 (map4 inject_Z V)).
Proof. exact avg_exact. Qed.
Print Assumptions C07_avg_exact_on_guard.

Theorem C07_avg_uint64_guard_small : forall V, avg_uint64_guard U64 V = true ->
  (forall v, In v (flatten V) -> (0 <= v)%Z) -> forall v, In v (flatten V) -> small_val 3 v.
Proof. exact avg_uint64_guard_small. Qed.
Print Assumptions C07_avg_uint64_guard_small.

(* the float64 stage alone: exact on the fixed-point grid (no rounding before
   the final rint) *)
Theorem C07_avg_f64_exact_on_grid : forall k (o : option Z) fx fy fz (M : arr4 Z),
  (0 <= k <= 1000)%Z -> optP (Pu 3) o -> Forall4 (Pu 3) M ->
  avg_f64 (option_map (fl k) o) fx fy fz (map4 (fl k) M)
  = map4 (fl k) (avg_gen zavg o fx fy fz M)
  /\ Forall4 (Pu 0) (avg_gen zavg o fx fy fz M).
Proof. exact avg_f64_units. Qed.
Print Assumptions C07_avg_f64_exact_on_grid.

(* (4) bounds and no wrap-around on the exact region *)
Theorem C07_avg_bounds : forall dt k (oc : option Z) fs nc nz ny nx (V : arr4 Z) out,
  is_uint dt = true -> check_factors_avg fs = true -> (3 <= k <= 20)%Z ->
  optP (Pu 3) oc -> rect4 nc nz ny nx V -> Forall4 (small_val k) V ->
  avg_model dt (option_map (fl k) oc) fs (map4 NI V) = Ok out ->
  forall c z y x, c < nc -> z < cdiv nz (fac fs 2) -> y < cdiv ny (fac fs 1) ->
    x < cdiv nx (fac fs 0) ->
    exists r, get4 (NI 0%Z) out c z y x = NI r /\ in_range dt r /\
      forall lo hi, (lo <= imax dt)%Z -> (imin dt <= hi)%Z ->
        (forall q, In q (block_values (option_map (gridQ k) oc) (fac fs 0) (fac fs 1) (fac fs 2)
                           nz ny nx (map4 inject_Z V) c z y x) ->
                   (inject_Z lo <= q /\ q <= inject_Z hi)%Q) ->
        (lo <= r <= hi)%Z.
Proof. exact avg_bounds. Qed.
Print Assumptions C07_avg_bounds.

(* (5) uint64 voxels at or above 2^49 lose precision in float64 (the top of the
   range saturates since the C11 repair, but stays imprecise); float32: double
   rounding *)
Theorem C07_avg_uint64_refuted :
  exists V fs,
    avg_uint64_guard U64 V = false /\ check_factors_avg fs = true /\ Forall4 (in_range U64) V /\
    ~ Forall4 (small_val 3) V /\
    avg_model U64 None fs (map4 NI V) = Ok [[[[NI (2 ^ 64 - 1)%Z; NI (2 ^ 53)%Z]]]] /\
    avg_spec U64 None (fac fs 0) (fac fs 1) (fac fs 2) 1 1 1 4 (map4 inject_Z V)
      = [[[[NI (2 ^ 64 - 512)%Z; NI (2 ^ 53 + 1)%Z]]]].
Proof. exact avg_uint64_refuted. Qed.
Print Assumptions C07_avg_uint64_refuted.

(* the former wrap-around witness now saturates, as the specification demands *)
Theorem C07_avg_uint64_top_saturates :
  avg_model U64 None [2; 1; 1]%Z [[[[NI (2 ^ 64 - 1)%Z; NI (2 ^ 64 - 1)%Z]]]]
    = Ok [[[[NI (2 ^ 64 - 1)%Z]]]] /\
  avg_spec U64 None 2 1 1 1 1 1 2 (map4 inject_Z [[[[2 ^ 64 - 1; 2 ^ 64 - 1]]]]%Z)
    = [[[[NI (2 ^ 64 - 1)%Z]]]].
Proof. exact avg_uint64_top_saturates. Qed.
Print Assumptions C07_avg_uint64_top_saturates.

Theorem C07_avg_float32_refuted :
  let a := [[[[NF (of_bits b32 1065353217); NF (of_bits b32 0)];
              [NF (of_bits b32 1065353216); NF (of_bits b32 226492416)]]]] in
  avg_model F32 None [2; 2; 1]%Z a = Ok [[[[NF (of_bits b32 1056964608)]]]] /\
  avg_spec F32 None 2 2 1 1 1 2 2 (map4 num2Q a) = [[[[NF (of_bits b32 1056964609)]]]].
Proof. exact avg_float32_refuted. Qed.
Print Assumptions C07_avg_float32_refuted.

(* (6) non-finite voxels on the float32 path (float32 -> float64, pairwise
   averaging z, y, x with padding, float64 -> float32).  The contributors of an
   output voxel are the padded reads of the chunk converted to float64 over its
   block (one of the 2^k pairings, k = number of halved axes).  If all of them
   are the same infinity the voxel is that infinity; if one of them is NaN the
   voxel is NaN.  An outside value c must satisfy half*(c+c) = c (every finite
   float64 that does not overflow when doubled, and the infinities). *)
Theorem C07_average_nonfinite : forall o fs nc nz ny nx (a : arr4 num) c z y x,
  check_factors_avg fs = true -> rect4 nc nz ny nx a ->
  (forall c0, o = Some c0 -> favg c0 c0 = c0) ->
  c < nc -> z < cdiv nz (fac fs 2) -> y < cdiv ny (fac fs 1) -> x < cdiv nx (fac fs 0) ->
  exists out, avg_model F32 o fs a = Ok out /\
    (forall s,
       (forall dz dy dx, dz < fac fs 2 -> dy < fac fs 1 -> dx < fac fs 0 ->
          contributor o nz ny nx a c (z * fac fs 2 + dz) (y * fac fs 1 + dy) (x * fac fs 0 + dx)
          = S754_infinity s) ->
       get4 (NI 0%Z) out c z y x = NF (S754_infinity s)) /\
    ((exists dz dy dx, dz < fac fs 2 /\ dy < fac fs 1 /\ dx < fac fs 0 /\
          contributor o nz ny nx a c (z * fac fs 2 + dz) (y * fac fs 1 + dy) (x * fac fs 0 + dx)
          = S754_nan) ->
       get4 (NI 0%Z) out c z y x = NF S754_nan).
Proof. exact average_nonfinite. Qed.
Print Assumptions C07_average_nonfinite.

(* one averaging step: both infinities give NaN; reading a float32 infinity or
   NaN gives the same float64 value *)
Theorem C07_average_opposite_infinities : forall s,
  favg (S754_infinity s) (S754_infinity (negb s)) = S754_nan.
Proof. exact favg_inf_opposite. Qed.
Print Assumptions C07_average_opposite_infinities.

Theorem C07_read_nonfinite : forall x, FloatModel.is_finite x = false -> to_f64 (NF x) = x.
Proof. exact to_f64_nonfinite. Qed.
Print Assumptions C07_read_nonfinite.

Example C07_average_nonfinite_example :
  avg_model F32 None [2; 2; 1]%Z
    [[[[NF (S754_infinity false); NF (S754_infinity false); NF (S754_infinity true)];
       [NF (S754_infinity false); NF (S754_infinity false); NF (S754_infinity false)]]]]
  = Ok [[[[NF (S754_infinity false); NF S754_nan]]]]
  /\ avg_model F32 (Some (of_Z b64 255)) [2; 1; 1]%Z [[[[NF (S754_infinity true)]]]]
     = Ok [[[[NF (S754_infinity true)]]]]
  /\ favg (of_Z b64 255) (of_Z b64 255) = of_Z b64 255.
Proof. exact average_nonfinite_example. Qed.

(* non-vacuity *)
Example C07_examples :
  stride_model [2; 1; 1]%Z [[[[1; 2; 3]]]]%Z = Ok [[[[1; 3]]]]%Z /\
  majority_model [3; 1; 1]%Z 1 1 3 [[[[5; 2; 2]]]]%Z = Ok [[[[2]]]]%Z /\
  majority_model [2; 1; 1]%Z 1 1 2 [[[[5; 2]]]]%Z = Ok [[[[2]]]]%Z /\
  avg_model U8 (Some (fl 4 24)) [2; 1; 1]%Z [[[[NI 1; NI 2; NI 4]]]]%Z = Ok [[[[NI 2; NI 3]]]]%Z /\
  small_uint U8 = true /\ optP (Pu 3) (Some 24%Z) /\ Forall4 (in_range U8) [[[[1; 2; 4]]]]%Z.
Proof.
  repeat split; try (vm_compute; reflexivity).
  exists 3%Z. reflexivity. repeat constructor; vm_compute; discriminate.
Qed.
