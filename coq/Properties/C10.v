(* C10 — decoders on malformed chunk data.  Statements only; proofs live in
   theories/Codec/CSegDecodeProofs.v (and CSegImplProofs.v for the round trip).
   "Never hangs" is by construction: every model function is a structural
   recursion (Coq accepts no other kind without fuel, and none is used). *)
From Coq Require Import NArith ZArith List Lia.
From NGS Require Import Val Ints Words Arr4 CSegEncode CSegDecode RawCodec JpegGlue
     CSegDecodeProofs CSegImplProofs.
Import ListNotations.
Open Scope N_scope.

(* --- raw: for EVERY byte string the outcome is an array of exactly the
   requested shape, or the format error; Ok iff the length is right. *)
Theorem C10_raw_decode_total : forall isz nc cx cy cz buf,
  isz <> 0 ->
  (exists a, raw_decode isz nc cx cy cz buf = Ok a /\ same_shape a nc cz cy cx /\
             lenN (a_data a) = nc * cz * cy * cx /\
             lenN buf = nc * cz * cy * cx * isz)
  \/ (raw_decode isz nc cx cy cz buf = FormatErr /\ lenN buf <> nc * cz * cy * cx * isz).
Proof. exact raw_decode_total. Qed.
Print Assumptions C10_raw_decode_total.

(* valid raw data is never rejected and decodes to the encoded array *)
Theorem C10_raw_valid_never_rejected : forall isz nc a buf,
  isz <> 0 -> wf_arr (two8 ^ isz) a ->
  raw_encode isz nc a = Ok buf ->
  raw_decode isz nc (a_x a) (a_y a) (a_z a) buf = Ok a.
Proof. exact raw_roundtrip. Qed.
Print Assumptions C10_raw_valid_never_rejected.

(* --- compressed_segmentation: whatever the bytes, a result has exactly the
   requested shape and that many entries *)
Theorem C10_cseg_decode_shape : forall dt nc g cx cy cz buf a,
  cseg_decode dt nc g cx cy cz buf = Ok a ->
  same_shape a nc cz cy cx /\ lenN (a_data a) = nc * cz * cy * cx.
Proof. exact cseg_decode_shape. Qed.
Print Assumptions C10_cseg_decode_shape.

(* on the guard (no channel buffer cut short by the next channel's offset) no
   exception other than InvalidFormatError escapes, for every byte string *)
Theorem C10_cseg_decode_no_crash_on_guard : forall dt nc g cx cy cz buf,
  cseg_decode_guard nc g cx cy cz buf = true ->
  forall k, cseg_decode dt nc g cx cy cz buf <> Crash k.
Proof. exact cseg_decode_no_crash_on_guard. Qed.
Print Assumptions C10_cseg_decode_no_crash_on_guard.

(* outside the guard the faithful model does escape: struct.error *)
Theorem C10_cseg_decode_refuted :
  exists dt nc g cx cy cz buf,
    cseg_decode_guard nc g cx cy cz buf = false /\
    cseg_decode dt nc g cx cy cz buf = Crash StructError.
Proof. exact cseg_decode_refuted. Qed.
Print Assumptions C10_cseg_decode_refuted.

(* and struct.error is the ONLY other exception, on all inputs (np.frombuffer
   is never reached with a misaligned length, the table extent formula never
   produces a negative slice bound that wraps around, ...) *)
Theorem C10_cseg_decode_crash_is_struct_error : forall dt nc g cx cy cz buf k,
  g_bx g <> 0 /\ g_by g <> 0 /\ g_bz g <> 0 ->
  cseg_decode dt nc g cx cy cz buf = Crash k -> k = StructError.
Proof. exact cseg_decode_crash_is_struct_error. Qed.
Print Assumptions C10_cseg_decode_crash_is_struct_error.

(* valid compressed_segmentation data (anything the encoder produces) is never
   rejected and decodes to the encoded chunk *)
Theorem C10_cseg_valid_never_rejected : forall dt nc g a buf,
  wf_arr (dt_bound dt) a -> cseg_encode dt nc g a = Ok buf ->
  cseg_decode dt nc g (a_x a) (a_y a) (a_z a) buf = Ok a.
Proof. exact encode_impl_roundtrip. Qed.
Print Assumptions C10_cseg_valid_never_rejected.

(* --- JPEG glue, relative to what Pillow does (oracle argument): partial,
   libjpeg itself is not modelled *)
Theorem C10_jpeg_glue_on_guard_partial : forall nc cx cy cz r,
  jpeg_guard nc r = true ->
  jpeg_decode nc cx cy cz r = FormatErr \/
  exists a, jpeg_decode nc cx cy cz r = Ok a /\ same_shape a nc cz cy cx.
Proof. exact jpeg_glue_on_guard. Qed.
Print Assumptions C10_jpeg_glue_on_guard_partial.

(* Pillow opens the file with the expected mode but the pixel load fails:
   the OSError escapes *)
Theorem C10_jpeg_glue_refuted :
  exists nc cx cy cz r, jpeg_guard nc r = false /\ jpeg_decode nc cx cy cz r = IOErr.
Proof. exact jpeg_glue_refuted. Qed.
Print Assumptions C10_jpeg_glue_refuted.

(* non-vacuity of the guard: a valid two-channel file satisfies it *)
Example C10_guard_example :
  cseg_decode_guard 2 {| g_bx := 1; g_by := 1; g_bz := 1 |} 1 1 1
    [2; 0; 0; 0;  5; 0; 0; 0;  2; 0; 0; 0;  3; 0; 0; 0;  7; 0; 0; 0;
     2; 0; 0; 0;  3; 0; 0; 0;  9; 0; 0; 0] = true /\
  exists a, cseg_decode U32 2 {| g_bx := 1; g_by := 1; g_bz := 1 |} 1 1 1
    [2; 0; 0; 0;  5; 0; 0; 0;  2; 0; 0; 0;  3; 0; 0; 0;  7; 0; 0; 0;
     2; 0; 0; 0;  3; 0; 0; 0;  9; 0; 0; 0] = Ok a /\ a_data a = [7; 9].
Proof. split; [vm_compute; reflexivity|]. eexists. split; vm_compute; reflexivity. Qed.
