(* C10 — decoders on malformed chunk data.  Statements only; proofs live in
   theories/Codec/CSegDecodeProofs.v (and CSegImplProofs.v for the round trip
   and the soundness theorem).
   "Never hangs" is by construction: every model function is a structural
   recursion (Coq accepts no other kind without fuel, and none is used). *)
From Coq Require Import NArith ZArith List Lia.
From NGS Require Import Val Ints Words Arr4 CSegEncode CSegSpec CSegDecode RawCodec JpegGlue
     CSegDecodeProofs CSegImplProofs.
Import ListNotations.
Open Scope N_scope.

(* --- raw: for EVERY byte string the outcome is an array of exactly the
   requested shape, or the format error; Ok iff the length is right. *)
Theorem C10_raw_decode_total : forall isz nc cx cy cz buf,
  isz <> 0 ->
  (exists a, raw_decode isz nc cx cy cz buf = Ok a /\ same_shape a nc cz cy cx /\
             lenN (a_data a) = nc * cz * cy * cx /\
             lenN buf = nc * cz * cy * cx * isz)
  \/ (raw_decode isz nc cx cy cz buf = FormatErr /\ lenN buf <> nc * cz * cy * cx * isz).
Proof. exact raw_decode_total. Qed.
Print Assumptions C10_raw_decode_total.

(* valid raw data is never rejected and decodes to the encoded array *)
Theorem C10_raw_valid_never_rejected : forall isz nc a buf,
  isz <> 0 -> wf_arr (two8 ^ isz) a ->
  raw_encode isz nc a = Ok buf ->
  raw_decode isz nc (a_x a) (a_y a) (a_z a) buf = Ok a.
Proof. exact raw_roundtrip. Qed.
Print Assumptions C10_raw_valid_never_rejected.

(* --- compressed_segmentation: whatever the bytes, a result has exactly the
   requested shape and that many entries *)
Theorem C10_cseg_decode_shape : forall dt nc g cx cy cz buf a,
  cseg_decode dt nc g cx cy cz buf = Ok a ->
  same_shape a nc cz cy cx /\ lenN (a_data a) = nc * cz * cy * cx.
Proof. exact cseg_decode_shape. Qed.
Print Assumptions C10_cseg_decode_shape.

(* For EVERY byte string, chunk size, non-zero block size, channel count and
   label type: the decoder returns an array of exactly the requested shape (and
   that many entries) or the documented format error.  No guard: struct.error,
   np.frombuffer's ValueError, IndexError ... cannot escape (the block-size-0
   ZeroDivisionError is outside the format: block sizes are positive). *)
Theorem C10_cseg_decode_total : forall dt nc g cx cy cz buf,
  g_bx g <> 0 /\ g_by g <> 0 /\ g_bz g <> 0 ->
  cseg_decode dt nc g cx cy cz buf = FormatErr \/
  exists a, cseg_decode dt nc g cx cy cz buf = Ok a /\
            same_shape a nc cz cy cx /\ lenN (a_data a) = nc * cz * cy * cx.
Proof. exact cseg_decode_total. Qed.
Print Assumptions C10_cseg_decode_total.

(* ... and an accepted byte string is never decoded to anything but what the
   format says: every returned voxel equals the specification decoder's value *)
Theorem C10_cseg_decode_sound : forall dt nc g cx cy cz buf a,
  cseg_decode dt nc g cx cy cz buf = Ok a ->
  forall c z y x, c < nc -> z < cz -> y < cy -> x < cx ->
    spec_value dt buf cy cx (g_bx g) (g_by g) (g_bz g) c z y x = Some (get4 a c z y x).
Proof. exact cseg_decode_sound. Qed.
Print Assumptions C10_cseg_decode_sound.

(* consequence: a byte string in which the format cannot read SOME voxel of
   the chunk (table offset or values offset outside the file, an index word -
   whatever its magnitude, 2^32-1 included - at or beyond the entries that
   remain before the end of the file, ...) is never accepted, whatever the
   other voxels look like *)
Theorem C10_cseg_unreadable_voxel_rejected : forall dt nc g cx cy cz buf c z y x,
  c < nc -> z < cz -> y < cy -> x < cx ->
  spec_value dt buf cy cx (g_bx g) (g_by g) (g_bz g) c z y x = None ->
  forall a, cseg_decode dt nc g cx cy cz buf <> Ok a.
Proof.
  intros dt nc g cx cy cz buf c z y x Hc Hz Hy Hx Hnone a Hok.
  pose proof (cseg_decode_sound dt nc g cx cy cz buf a Hok c z y x Hc Hz Hy Hx) as E.
  rewrite Hnone in E. discriminate E.
Qed.
Print Assumptions C10_cseg_unreadable_voxel_rejected.

(* valid compressed_segmentation data (anything the encoder produces) is never
   rejected and decodes to the encoded chunk *)
Theorem C10_cseg_valid_never_rejected : forall dt nc g a buf,
  wf_arr (dt_bound dt) a -> cseg_encode dt nc g a = Ok buf ->
  cseg_decode dt nc g (a_x a) (a_y a) (a_z a) buf = Ok a.
Proof. exact encode_impl_roundtrip. Qed.
Print Assumptions C10_cseg_valid_never_rejected.

(* --- JPEG glue, relative to what Pillow does (oracle argument: open fails /
   opens with a mode and size, then the pixel load fails / yields h*w*bands
   samples): array of the requested shape or the format error.  Partial only
   because Pillow/libjpeg themselves are not modelled. *)
Theorem C10_jpeg_glue_total_partial : forall nc cx cy cz r,
  pil_wf r ->
  jpeg_decode nc cx cy cz r = FormatErr \/
  exists a, jpeg_decode nc cx cy cz r = Ok a /\ same_shape a nc cz cy cx /\
            lenN (a_data a) = nc * cz * cy * cx.
Proof. exact jpeg_glue_total. Qed.
Print Assumptions C10_jpeg_glue_total_partial.

(* both branches of the totality statement occur: a valid two-channel file
   decodes, its truncation is the format error *)
Example C10_total_example :
  cseg_decode U32 2 {| g_bx := 1; g_by := 1; g_bz := 1 |} 1 1 1
    [2; 0; 0; 0;  5; 0; 0; 0;  2; 0; 0; 0;  3; 0; 0; 0;  7; 0; 0; 0;
     2; 0; 0; 0;  3; 0; 0; 0] = FormatErr /\
  exists a, cseg_decode U32 2 {| g_bx := 1; g_by := 1; g_bz := 1 |} 1 1 1
    [2; 0; 0; 0;  5; 0; 0; 0;  2; 0; 0; 0;  3; 0; 0; 0;  7; 0; 0; 0;
     2; 0; 0; 0;  3; 0; 0; 0;  9; 0; 0; 0] = Ok a /\ a_data a = [7; 9].
Proof. split; [vm_compute; reflexivity|]. eexists. split; vm_compute; reflexivity. Qed.

(* non-vacuity of C10_cseg_unreadable_voxel_rejected: a one-block file with a
   32-bit block whose index words are 2^32-1 and 2^32-2 (a signed intermediate
   would read them as -1 and -2 and index the three-entry table from its end):
   the format reads no label there, and the package decoder refuses the file *)
Example C10_example_wide_index :
  let buf := bytes_of_words [1; 32 * 2 ^ 24 + 4; 2; 2 ^ 32 - 1; 2 ^ 32 - 2; 111; 222; 333] in
  let g := {| g_bx := 2; g_by := 1; g_bz := 1 |} in
  spec_value U32 buf 1 2 2 1 1 0 0 0 0 = None /\
  cseg_decode U32 1 g 2 1 1 buf = FormatErr /\
  (* the same file with indices 2 and 0 is accepted and reads 333, 111 *)
  let ok := bytes_of_words [1; 32 * 2 ^ 24 + 4; 2; 2; 0; 111; 222; 333] in
  spec_value U32 ok 1 2 2 1 1 0 0 0 0 = Some 333 /\
  spec_value U32 ok 1 2 2 1 1 0 0 0 1 = Some 111.
Proof. cbv zeta. repeat split; vm_compute; reflexivity. Qed.
