(* C17 — mesh formats.  Statements only; proofs live in
   theories/Mesh/MeProofs.v.  Models: MePrecomputed.v (writer / reader as
   coded + format reader), MeAffine.v, MeVtk.v, MeLinks.v. *)
From Coq Require Import NArith ZArith List Bool Lia.
From NGS Require Import Val Ints MePrecomputed MeAffine MeVtk MeLinks MeProofs.
Import ListNotations.
Open Scope N_scope.

(* ---------- precomputed format ---------- *)

(* Reading back what was written returns the same vertices and triangles, for
   every well-formed mesh (any sizes, including the empty mesh), and the
   format reader agrees. *)
Theorem C17_mesh_roundtrip : forall v t, mesh_wf v t = true ->
  read_mesh (write_bytes v t) = Ok (v, t) /\ spec_parse (write_bytes v t) = Some (v, t).
Proof. exact mesh_roundtrip_lemma. Qed.
Print Assumptions C17_mesh_roundtrip.

Theorem C17_write_mesh_roundtrip : forall d v t b,
  write_mesh d v t = Ok b -> mesh_wf v t = true -> read_mesh b = Ok (v, t).
Proof. exact write_mesh_roundtrip_lemma. Qed.
Print Assumptions C17_write_mesh_roundtrip.

(* the writer fails only on 2^32 or more vertices (struct.pack) and on index
   arrays that do not cast safely to uint32 *)
Theorem C17_write_mesh_total : forall d v t,
  lenN v < two32 -> safe_to_u32 d = true -> write_mesh d v t = Ok (write_bytes v t).
Proof. exact write_mesh_total_lemma. Qed.
Print Assumptions C17_write_mesh_total.

Example C17_roundtrip_nonvacuous :
  mesh_wf [] [] = true /\ mesh_wf [(0, 1065353216, 1073741824); (1, 2, 3); (4, 5, 6)] [(0, 1, 2); (2, 1, 0)] = true.
Proof. split; reflexivity. Qed.

(* Layout: the file has 4 + 12 nv + 12 nt bytes and is THE byte string that
   the format reader maps to (v, t): count, vertices, triangles in that
   order, little endian, nothing else. *)
Theorem C17_layout_spec : forall v t,
  lenN (write_bytes v t) = 4 + 12 * lenN v + 12 * lenN t /\
  forall okf b, bytes_ok b = true -> spec_parse_with okf b = Some (v, t) -> b = write_bytes v t.
Proof.
  intros v t. split; [apply write_bytes_length|].
  intros okf b. apply layout_unique_lemma.
Qed.
Print Assumptions C17_layout_spec.

(* Every byte string offered to the reader: it returns exactly the mesh the
   format describes, or raises the mesh-data error -- nothing else, for every
   input (truncated data, indices at or beyond the vertex count, garbage). *)
Theorem C17_reader_total : forall b, reader_conforms b.
Proof. exact reader_total_lemma. Qed.
Print Assumptions C17_reader_total.

Theorem C17_reader_never_crashes : forall b k, read_mesh b <> Crash k.
Proof. exact reader_never_crashes_lemma. Qed.
Print Assumptions C17_reader_never_crashes.

Theorem C17_short_header_rejected : forall b, lenN b < 4 -> read_mesh b = FormatErr.
Proof. exact short_header_rejected_lemma. Qed.
Print Assumptions C17_short_header_rejected.

(* a written mesh one of whose triangles references a vertex it does not have
   (index >= count, in particular index = count) is refused on reading *)
Theorem C17_bad_index_rejected : forall v t,
  lenN v < two32 -> forallb (tri_all word_ok) v = true -> forallb (tri_all word_ok) t = true ->
  forallb (tri_all (fun i => i <? lenN v)) t = false ->
  read_mesh (write_bytes v t) = FormatErr.
Proof. exact bad_index_rejected_lemma. Qed.
Print Assumptions C17_bad_index_rejected.

Example C17_index_equal_count_rejected : read_mesh eq_count_witness = FormatErr.
Proof. exact index_bound_rejected_lemma. Qed.

(* ---------- affine transform (any commutative ring) ---------- *)

Theorem C17_orientation :
  forall (R : Type) (rO rI : R) (radd rmul rsub : R -> R -> R) (ropp : R -> R),
  ring_theory rO rI radd rmul rsub ropp eq ->
  forall (m : affine R) a b c,
    det3 R radd rmul rsub (lin R radd rmul m a) (lin R radd rmul m b) (lin R radd rmul m c)
    = rmul (detM R radd rmul rsub m) (det3 R radd rmul rsub a b c).
Proof. exact det3_lin. Qed.
Print Assumptions C17_orientation.

(* with the translation: signed volume of (p, a, b, c), p any reference point *)
Theorem C17_orientation_affine :
  forall (R : Type) (rO rI : R) (radd rmul rsub : R -> R -> R) (ropp : R -> R),
  ring_theory rO rI radd rmul rsub ropp eq ->
  forall (m : affine R) p a b c,
    vol R radd rmul rsub (app R radd rmul m p) (app R radd rmul m a) (app R radd rmul m b) (app R radd rmul m c)
    = rmul (detM R radd rmul rsub m) (vol R radd rmul rsub p a b c).
Proof. exact vol_app. Qed.
Print Assumptions C17_orientation_affine.

Theorem C17_flip_negates :
  forall (R : Type) (rO rI : R) (radd rmul rsub : R -> R -> R) (ropp : R -> R),
  ring_theory rO rI radd rmul rsub ropp eq ->
  forall a b c, det3 R radd rmul rsub c b a = ropp (det3 R radd rmul rsub a b c).
Proof. exact det3_flip. Qed.
Print Assumptions C17_flip_negates.

Theorem C17_scale_cubes :
  forall (R : Type) (rO rI : R) (radd rmul rsub : R -> R -> R) (ropp : R -> R),
  ring_theory rO rI radd rmul rsub ropp eq ->
  forall k p a b c,
    vol R radd rmul rsub (vscale R rmul k p) (vscale R rmul k a) (vscale R rmul k b) (vscale R rmul k c)
    = rmul (rmul (rmul k k) k) (vol R radd rmul rsub p a b c).
Proof. exact vol_scale. Qed.
Print Assumptions C17_scale_cubes.

(* The rule as coded (reverse the columns iff det < 0), over Z: every output
   triangle is the image of the input triangle at the same position and faces
   the same way, for every invertible matrix; mm -> nm keeps orientation. *)
Theorem C17_winding_rule : forall rows last m vs ts vs' ts',
  affine_transform_mesh rows last m vs ts = Ok (vs', ts') -> zdetM m <> 0%Z ->
  vs' = map (zapp m) vs /\ length ts' = length ts /\
  forall n t a b c p, nth_error ts n = Some t -> corners vs t = Some (a, b, c) ->
    exists t' a' b' c', nth_error ts' n = Some t' /\ corners vs' t' = Some (a', b', c') /\
      (a', b', c') = coded_triangle m a b c /\
      Z.sgn (zvol (zapp m p) a' b' c') = Z.sgn (zvol p a b c).
Proof. exact affine_mesh_orientation_lemma. Qed.
Print Assumptions C17_winding_rule.

Theorem C17_mirror_needs_flip : forall m p a b c, (zdetM m < 0)%Z ->
  Z.sgn (zvol (zapp m p) (zapp m a) (zapp m b) (zapp m c)) = (- Z.sgn (zvol p a b c))%Z.
Proof. exact mirror_reverses_lemma. Qed.
Print Assumptions C17_mirror_needs_flip.

Theorem C17_mm_to_nm_orientation : forall p a b c,
  Z.sgn (zvol (zscale 1000000 p) (zscale 1000000 a) (zscale 1000000 b) (zscale 1000000 c))
  = Z.sgn (zvol p a b c).
Proof. exact mm_to_nm_orientation_lemma. Qed.
Print Assumptions C17_mm_to_nm_orientation.

Example C17_winding_nonvacuous :
  let m := Build_affine (-1, 0, 0)%Z (0, 1, 0)%Z (0, 0, 1)%Z (5, 0, 0)%Z in
  zdetM m = (-1)%Z /\
  affine_transform_mesh 3 [] m [(1, 0, 0); (0, 1, 0); (0, 0, 1)]%Z [(0, 1, 2)%Z]
  = Ok ([(4, 0, 0); (5, 1, 0); (5, 0, 1)]%Z, [(2, 1, 0)%Z]).
Proof. split; reflexivity. Qed.

Theorem C17_affine_rejects_bad_last_row : forall last m vs ts,
  last <> [0; 0; 0; 1]%Z -> affine_transform_mesh 4 last m vs ts = Crash AssertionError.
Proof. exact affine_rejects_bad_last_row_lemma. Qed.
Print Assumptions C17_affine_rejects_bad_last_row.

(* ---------- VTK export ---------- *)

(* Every export of a well-formed input (no line break in the title line,
   non-negative triangle indices, attribute names that pass the writer's
   assertion, attribute tables of the announced shape with >= 1 component)
   is written without error and accepted by the grammar, which returns
   exactly the exported points, triangles and attributes.  The length of the
   header window of Neuroglancer's parser is not modelled (see MeVtk.v). *)
Theorem C17_vtk_parses_on_guard : forall title version vs ts attrs,
  vtk_guard title version vs ts attrs = true ->
  exists ls, vtk_write title version vs ts attrs = Ok ls /\
             vtk_grammar ls = Some (expected_mesh vs ts attrs).
Proof. exact vtk_parses_on_guard_lemma. Qed.
Print Assumptions C17_vtk_parses_on_guard.

(* non-vacuity, by computation: a concrete export with a two-component attribute *)
Theorem C17_vtk_parses_example :
  vtk_guard [116] vtk_version vtk_demo_vs vtk_demo_ts [vtk_demo_attr [99; 117; 114; 118]] = true /\
  exists ls, vtk_write [116] vtk_version vtk_demo_vs vtk_demo_ts [vtk_demo_attr [99; 117; 114; 118]] = Ok ls /\
             vtk_grammar ls = Some (expected_mesh vtk_demo_vs vtk_demo_ts [vtk_demo_attr [99; 117; 114; 118]]).
Proof. exact vtk_demo_parses. Qed.
Print Assumptions C17_vtk_parses_example.

(* attribute names that are empty or contain white space anywhere are
   refused by the writer with an AssertionError *)
Theorem C17_vtk_bad_name_rejected : forall title version vs ts a rest,
  existsb (N.eqb 10) title = false -> name_ok (at_name a) = false ->
  vtk_write title version vs ts (a :: rest) = Crash AssertionError.
Proof. exact vtk_bad_name_rejected_lemma. Qed.
Print Assumptions C17_vtk_bad_name_rejected.

Example C17_vtk_name_whitespace_example :
  vtk_write [] vtk_version vtk_demo_vs vtk_demo_ts [vtk_demo_attr [97; 32; 98]] = Crash AssertionError /\
  vtk_write [] vtk_version vtk_demo_vs vtk_demo_ts [vtk_demo_attr []] = Crash AssertionError.
Proof. exact vtk_name_whitespace_example. Qed.

Example C17_vtk_long_title_in_guard :
  vtk_guard (repeat 120 400) vtk_version vtk_demo_vs vtk_demo_ts [] = true.
Proof. exact vtk_long_title_example. Qed.

(* ---------- fragment links ---------- *)

(* the JSON text written for a label lists exactly the given fragments *)
Theorem C17_links_exact : forall frags, forallb ascii_cell frags = true ->
  spec_read_links (links_json frags) = Some frags.
Proof. exact links_exact_lemma. Qed.
Print Assumptions C17_links_exact.

(* a successful run stores one file per row, named after the row's label,
   with that row's fragments, and nothing else; names are pairwise distinct
   and none existed before *)
Theorem C17_links_files : forall mesh_dir no_colon existing rows files,
  make_links mesh_dir no_colon existing rows [] = (files, Ok tt) ->
  map Some files = map (row_file mesh_dir no_colon) rows /\
  NoDup (map fst files) /\ forall n, In n (map fst files) -> ~ In n existing.
Proof.
  intros md nc ex rows files H. split.
  - exact (make_links_files_lemma md nc ex rows [] files H).
  - apply (make_links_fresh_lemma md nc ex rows [] files H); [constructor | intros n [] | exact bytes_eq_iff].
Qed.
Print Assumptions C17_links_files.

Example C17_links_nonvacuous :
  make_links [109] false [] [[[53]; [97]; [98; 34]]; [[49; 50]]] [] =
  ([([109; 47; 53; 58; 48], links_json [[97]; [98; 34]]); ([109; 47; 49; 50; 58; 48], links_json [])], Ok tt).
Proof. vm_compute. reflexivity. Qed.
