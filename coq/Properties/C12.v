(* C12 — file storage returns the latest stored bytes under every layout
   option.  Statements only; proofs live in theories/Store/St*Proofs.v.

   Reading guide.  [B] is the type of file contents, [plain : bytes -> B];
   gzip is the oracle pair [gz]/[gunzip] with the single assumption
   gunzip (gz l b) = GzOk b.  [run_ops c t ops] runs a sequence of
   FileAccessor operations (model of file_accessor.py as coded) on the file
   system t; [spec_ops] runs the same sequence on the abstract map
   name -> bytes; [to_model] only rewrites the abstract outcome into the
   model's vocabulary (bytes b become [plain b]).

   Outcome [Refused] stands for the ValueError that the accessor raises, before
   calling any file-system primitive, from relative_to() or from its explicit
   ".." check: a refusal without touching the file system. *)
From Coq Require Import NArith ZArith List Bool Lia.
From NGS Require Import Val Ints StFS StFSProofs StFileAccessor StFileAccessorProofs
                        StRefineProofs StSharded StC12Proofs.
Import ListNotations.
Open Scope N_scope.

(* (1) Within one configuration, for EVERY sequence of store / fetch / exists
   operations on files and chunks whose names satisfy [hist_guard] (relative
   file names, relative non-empty scale keys - possibly nested -, no accepted
   name with a component ending in ".gz", accepted names pairwise prefix-free,
   other-layout chunk paths unused; the MIME type is arbitrary in every
   operation (one name may be stored under several MIME classes); empty names,
   and names or keys mentioning "..", may occur and are refused on both sides),
   started on a fresh dataset location, every returned value / outcome is the
   one of the abstract map: fetch returns the bytes most recently stored,
   store without overwrite on an existing name fails. *)
Theorem C12_last_write_wins :
  forall (B : Type) (plain : list N -> B) (gz : N -> list N -> B) (gunzip : B -> gzres),
  (forall l b, gunzip (gz l b) = GzOk b) ->
  forall c ops t0,
  hist_guard c ops = true -> fresh B c t0 ->
  fst (run_ops B plain gz gunzip c t0 ops)
  = map (to_model B plain) (fst (spec_ops (flat c) [] ops)).
Proof. exact last_write_wins. Qed.
Print Assumptions C12_last_write_wins.

(* non-vacuity: a history with files, chunks, overwrites, refused names and
   several spellings meets the guard under all four layout/gzip settings *)
Theorem C12_guard_example : forall f g,
  hist_guard (w_cfg f g) ex_history = true /\ fresh blob (w_cfg f g) [([[119]], Dir)].
Proof. intros f g. split; [apply guard_example | apply fresh_example]. Qed.
Print Assumptions C12_guard_example.

(* the simulation invariant holds in every state reached by a guarded history,
   for some assignment [fm] of a form (plain / .gz) to the names: a stored name
   exists in exactly that form (Inv's i_phys + i_files: no other file below
   the base) *)
Theorem C12_reachable_inv :
  forall (B : Type) (plain : list N -> B) (gz : N -> list N -> B) (gunzip : B -> gzres),
  (forall l b, gunzip (gz l b) = GzOk b) ->
  forall c ops t0,
  hist_guard c ops = true -> fresh B c t0 ->
  exists fm, Inv B plain gz c (names_of (flat c) ops) fm
      (snd (run_ops B plain gz gunzip c t0 ops)) (snd (spec_ops (flat c) [] ops)).
Proof. exact reachable_inv. Qed.
Print Assumptions C12_reachable_inv.

(* (2) storing an existing name without permission to overwrite, under ANY
   MIME type (also one of the other class), fails with a data-access error and
   the stored content is untouched *)
Theorem C12_no_overwrite_preserves :
  forall (B : Type) (plain : list N -> B) (gz : N -> list N -> B),
  forall c U X fm t m n buf mime old,
  cleanb (base c) = true -> universe_okb U X = true ->
  Inv B plain gz c U fm t m -> In n U -> aget m n = Some old ->
  exists t' fm', run B (plain []) t (store_at B plain gz c (base c ++ n) buf mime false) = (AccessErr, t')
          /\ Inv B plain gz c U fm' t' m
          /\ lookup B t' (phys c fm' n) = Some (File (enc B plain gz c fm' n old)).
Proof. exact no_overwrite_preserves. Qed.
Print Assumptions C12_no_overwrite_preserves.

(* (3) documented locations: key components, then the flat name or the three
   axis directories; keys mentioning ".." are refused *)
Theorem C12_path_spec : forall c is_flat key co,
  key <> [] -> is_absolute key = false ->
  chunk_path c is_flat key co = option_map (app (base c)) (spec_chunk_name is_flat key co).
Proof. exact chunk_path_spec. Qed.
Print Assumptions C12_path_spec.

(* a successful store leaves the name at the documented path, compressed iff
   gzip is on and the MIME type of this store is not exempt, and the other
   form of the name does not exist (never both forms) *)
Theorem C12_store_lands :
  forall (B : Type) (plain : list N -> B) (gz : N -> list N -> B),
  forall c U X fm t m n buf mime ow t' r,
  cleanb (base c) = true -> universe_okb U X = true ->
  Inv B plain gz c U fm t m -> In n U ->
  run B (plain []) t (store_at B plain gz c (base c ++ n) buf mime ow) = (Ok r, t') ->
  lookup B t' (base c ++ (if gzip c && negb (exempt mime) then with_gz n else n))
  = Some (File (if gzip c && negb (exempt mime) then gz (level c) buf else plain buf)) /\
  lookup B t' (base c ++ (if gzip c && negb (exempt mime) then n else with_gz n)) = None.
Proof. exact store_lands. Qed.
Print Assumptions C12_store_lands.

Theorem C12_decimal_injective : forall a b : Z, dec_Z a = dec_Z b -> a = b.
Proof. exact dec_Z_inj. Qed.
Print Assumptions C12_decimal_injective.

(* different (key components, coordinates) give different paths *)
Theorem C12_chunk_path_inj : forall c is_flat k co k' co' p,
  k <> [] -> is_absolute k = false -> k' <> [] -> is_absolute k' = false ->
  chunk_path c is_flat k co = Some p -> chunk_path c is_flat k' co' = Some p ->
  spec_key k = spec_key k' /\ co = co'.
Proof. exact chunk_path_inj. Qed.
Print Assumptions C12_chunk_path_inj.

(* (4) reading never depends on the reader's flat / gzip / level options *)
Theorem C12_cross_config_read :
  forall (B : Type) (plain : list N -> B) (gz : N -> list N -> B) (gunzip : B -> gzres),
  forall c1 c2 t o,
  base c1 = base c2 -> is_read o = true ->
  run_op B plain gz gunzip c2 t o = run_op B plain gz gunzip c1 t o.
Proof. exact cross_config_read. Qed.
Print Assumptions C12_cross_config_read.

(* ... so a dataset written by one (guarded) writer configuration is read
   correctly under any other configuration *)
Theorem C12_cross_config_on_guard :
  forall (B : Type) (plain : list N -> B) (gz : N -> list N -> B) (gunzip : B -> gzres),
  (forall l b, gunzip (gz l b) = GzOk b) ->
  forall c1 c2 ops reads t0,
  base c1 = base c2 -> forallb is_read reads = true ->
  hist_guard c1 (ops ++ reads) = true -> fresh B c1 t0 ->
  fst (run_ops B plain gz gunzip c2 (snd (run_ops B plain gz gunzip c1 t0 ops)) reads)
  = map (to_model B plain)
        (fst (spec_ops (flat c1) (snd (spec_ops (flat c1) [] ops)) reads)).
Proof. exact cross_config_correct. Qed.
Print Assumptions C12_cross_config_on_guard.

(* writers with gzip on and off may be mixed: the later writer removes the
   other form, every reader sees the latest bytes *)
Theorem C12_cross_config_mixed_gzip :
  exists name old new,
    let t1 := snd (w_run (w_cfg false false) [OStoreFile name old [] true]) in
    let '(_, t2) := run_ops blob BPlain BGz (blob_gunzip []) (w_cfg false true) t1
                            [OStoreFile name new [] true] in
    old <> new /\
    forall f g, fst (run_ops blob BPlain BGz (blob_gunzip []) (w_cfg f g) t2 [OFetchFile name])
                = [Ok (VData (BPlain new))].
Proof. exact mixed_gzip_latest_wins. Qed.
Print Assumptions C12_cross_config_mixed_gzip.

(* the guard "single writer LAYOUT" is needed: in a tree written under flat
   and deep layouts the copy that is found is fixed by the probe order (deep
   after flat), not by recency.  (The property speaks of datasets written
   under one configuration, so this is not a finding.) *)
Theorem C12_cross_config_mixed_layout_refuted :
  exists key co old new,
    let t1 := snd (w_run (w_cfg false false) [OStoreChunk key co old [] true]) in
    let '(_, t2) := run_ops blob BPlain BGz (blob_gunzip []) (w_cfg true false) t1
                            [OStoreChunk key co new [] true] in
    old <> new /\
    forall f g, fst (run_ops blob BPlain BGz (blob_gunzip []) (w_cfg f g) t2 [OFetchChunk key co])
                = [Ok (VData (BPlain old))].
Proof. exact mixed_layout_refuted. Qed.
Print Assumptions C12_cross_config_mixed_layout_refuted.

(* (5) Confinement, BOTH accessors, file methods and chunk methods, for every
   tree and every name / key.
   [op_target c o] is the path an operation is about, None when the name or
   key is refused (ValueError before any primitive). *)

(* a refused operation does not touch the file system *)
Theorem C12_confined_refused :
  forall (B : Type) (plain : list N -> B) (gz : N -> list N -> B) (gunzip : B -> gzres),
  forall c t o, op_target c o = None -> run_op B plain gz gunzip c t o = (Refused, t).
Proof. exact refused_untouched. Qed.
Print Assumptions C12_confined_refused.

(* which names are refused: relative names that are empty or mention "..";
   absolute names not below the base; scale keys mentioning ".."; for the
   sharded accessor relative names mentioning ".." and absolute names not
   below the base *)
Theorem C12_escaping_refused : forall c,
  (forall n, is_absolute n = false -> spec_norm n = None -> checked_path (base c) n = None) /\
  (forall nn n, is_absolute n = true -> is_prefix (base c) (parse_parts n) = false ->
                checked_path_gen nn (base c) n = None) /\
  (forall k co f, k <> [] -> is_absolute k = false -> spec_key k = None -> chunk_path c f k co = None) /\
  (forall n, is_absolute n = false -> existsb is_dotdot (parse_parts n) = true -> sh_path (base c) n = None).
Proof. exact escaping_refused. Qed.
Print Assumptions C12_escaping_refused.

(* an accepted name / key denotes a path at or below the base without ".." ... *)
Theorem C12_confined_target : forall c o p, op_target c o = Some p ->
  exists rest, p = base c ++ rest /\ existsb is_dotdot rest = false.
Proof. exact accepted_confined. Qed.
Print Assumptions C12_confined_target.

(* ... strictly below it for the file methods and for non-empty relative keys *)
Theorem C12_confined_strict : forall c o p, strict_op o = true -> op_target c o = Some p ->
  exists rest, p = base c ++ rest /\ existsb is_dotdot rest = false /\ rest <> [].
Proof. exact accepted_strict. Qed.
Print Assumptions C12_confined_strict.

(* and EVERY path the operation hands to a file-system primitive (is_file,
   makedirs, open, write, read, close), on every execution path, lies at or
   below the base and is free of "..": FileAccessor ... *)
Theorem C12_confined :
  forall (B : Type) (plain : list N -> B) (gz : N -> list N -> B) (gunzip : B -> gzres),
  forall c o, strict_op o = true ->
  calls_in B (below (base c)) (op_prog B plain gz gunzip c o).
Proof. exact touches_only_below. Qed.
Print Assumptions C12_confined.

Theorem C12_confined_trace :
  forall (B : Type) (plain : list N -> B) (A : Type) (P : path -> Prop) (p : prog B A),
  calls_in B P p -> forall t, Forall (fun cl => P (call_path B cl)) (trace B (plain []) t p).
Proof. exact calls_in_trace. Qed.
Print Assumptions C12_confined_trace.

(* ... and ShardedFileAccessor (kind 0 store_file, 1 fetch_file, 2 file_exists) *)
Theorem C12_confined_sharded :
  forall (B : Type) (plain : list N -> B),
  forall b n buf mime ow kind,
  calls_in B (below b) (sh_op_prog B plain b (file_op_of kind n buf mime ow)).
Proof. exact sh_touches_only_below. Qed.
Print Assumptions C12_confined_sharded.

Theorem C12_confined_sharded_refused :
  forall (B : Type) (plain : list N -> B),
  forall b t n buf mime ow kind,
  sh_path b n = None ->
  run B (plain []) t (sh_op_prog B plain b (file_op_of kind n buf mime ow)) = (Refused, t).
Proof. exact sh_refused_untouched. Qed.
Print Assumptions C12_confined_sharded_refused.

(* ---------------------------------------------------------------------- *)
(* (6) Link to C03: PrecomputedIO on the file accessor.

   [fa_write_chunk] / [fa_read_chunk] / [fa_run] (theories/Link/LinkStore.v)
   are PrecomputedIO.write_chunk / read_chunk / a history of them, with the
   FileAccessor model above as the store: validate, encode, store_chunk
   (overwrite=True, MIME type [mime_of key] of the scale's encoder), resp.
   validate, fetch_chunk, decode.  [raw] turns a file content into the byte
   string fetch_chunk hands back (only fact used: raw (plain b) = b).
   Guard: every scale key of the dataset is one directory name that does not
   end in ".gz" ([scales_ok], executable; [plain_key] - non-empty over
   [A-Za-z0-9_-] - is a lexical sufficient condition); the dataset directory is
   fresh and its path has no "..".  No condition on the history. *)
From NGS Require Import PioModel PioProofs LinkStore LinkStoreProofs.

(* the file accessor implements the abstract chunk store: under every
   configuration (flat / deep, gzip on / off, any level) every operation of
   every history has the outcome PioModel.run computes over the abstract store *)
Theorem C12_chunk_store_simulation :
  forall (chunk : Type) (encode : list N -> chunk -> outcome (list N))
         (decode : list N -> list N -> triple -> outcome chunk)
         (B : Type) (plain : list N -> B) (gz : N -> list N -> B) (gunzip : B -> gzres)
         (raw : B -> list N) (mime_of : list N -> list N),
  (forall l b, gunzip (gz l b) = GzOk b) -> (forall b, raw (plain b) = b) ->
  forall cf scales ops t0,
  cleanb (base cf) = true -> scales_ok scales = true -> fresh B cf t0 ->
  snd (fa_run chunk encode decode B plain gz gunzip raw mime_of cf scales t0 ops)
  = snd (PioModel.run chunk (list N) encode decode scales [] ops).
Proof. exact fa_simulation. Qed.
Print Assumptions C12_chunk_store_simulation.

(* end to end: C03_io_refinement verbatim, with the file accessor model as the
   store - after EVERY history of writes and reads, a read of a valid position
   returns the chunk of the last successful write to that (scale, position),
   and a data-access error if there is none; for all four layouts *)
Theorem C12_chunk_io_refinement :
  forall (chunk : Type) (encode : list N -> chunk -> outcome (list N))
         (decode : list N -> list N -> triple -> outcome chunk)
         (B : Type) (plain : list N -> B) (gz : N -> list N -> B) (gunzip : B -> gzres)
         (raw : B -> list N) (mime_of : list N -> list N),
  (forall l b, gunzip (gz l b) = GzOk b) -> (forall b, raw (plain b) = b) ->
  forall (shape_of : chunk -> triple),
  (forall k ch b, encode k ch = Ok b -> decode k b (shape_of ch) = Ok ch) ->
  forall cf scales ops t0 k c,
  cleanb (base cf) = true -> scales_ok scales = true -> fresh B cf t0 ->
  Forall (well_shaped chunk shape_of) ops ->
  check_valid scales k c = Ok tt ->
  fst (fa_read_chunk chunk decode B plain gz gunzip raw cf scales
         (fst (fa_run chunk encode decode B plain gz gunzip raw mime_of cf scales t0 ops)) k c)
  = match last_written chunk (list N) encode scales ops k c None with
    | Some ch => Ok ch
    | None => AccessErr
    end.
Proof. exact fa_io_refinement. Qed.
Print Assumptions C12_chunk_io_refinement.

(* the TypeError branch that keeps [fetched_bytes] total is unreachable: for
   EVERY file system fetch_chunk returns data or a (non-crash) error *)
Theorem C12_fetch_chunk_bytes :
  forall (B : Type) (plain : list N -> B) (gz : N -> list N -> B) (gunzip : B -> gzres)
         (raw : B -> list N) cf t k co,
  bind (fst (run_op B plain gz gunzip cf t (OFetchChunk k co))) (fetched_bytes B raw)
  <> Crash TypeError.
Proof. exact fetched_bytes_no_type_error. Qed.
Print Assumptions C12_fetch_chunk_bytes.

(* the lexical predicate implies the guard *)
Theorem C12_plain_key_ok : forall k, plain_key k = true -> key_ok k = true.
Proof. exact plain_key_ok. Qed.
Print Assumptions C12_plain_key_ok.

(* non-vacuity: on the executable instance (tagged file contents, octet-stream
   encoder) every hypothesis holds for a dataset with scale key "10um", and the
   history  write A at p0; write B at p1; write C at p0; read p0; read p1;
   read p2  run through the accessor model under all four layouts returns C,
   B and a data-access error *)
Example C12_chunk_io_example : forall f g,
  (forall l b, blob_gunzip [] (BGz l b) = GzOk b) /\
  (forall b, blob_raw (BPlain b) = b) /\
  (forall k ch b, ex_encode k ch = Ok b -> ex_decode k b (fst ch) = Ok ch) /\
  cleanb (base (w_cfg f g)) = true /\ scales_ok ex_scales = true /\ plain_key ex_key = true /\
  fresh blob (w_cfg f g) [([[119%N]], Dir)] /\
  Forall (well_shaped ex_chunk fst) ex_ops /\
  check_valid ex_scales ex_key ex_c0 = Ok tt /\
  snd (fa_run ex_chunk ex_encode ex_decode blob BPlain BGz (blob_gunzip []) blob_raw octet_mime
         (w_cfg f g) ex_scales [([[119%N]], Dir)] ex_ops)
  = [Ok None; Ok None; Ok None;
     Ok (Some ((64, 64, 64)%Z, [7]%N)); Ok (Some ((36, 64, 64)%Z, [4; 5]%N)); AccessErr].
Proof. exact link_example. Qed.
Print Assumptions C12_chunk_io_example.
