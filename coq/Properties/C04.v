(* C04 — sharded output is readable by a reader that follows the sharded
   format.  Statements only; proofs live in theories/Shard/*Proofs.v.

   The specification reader [spec_fetch], the layout predicate [wf_file] and
   the guard [used_minishards_prefix] are in theories/Shard/ShardSpecReader.v
   and were written from the format document only. *)
From Coq Require Import NArith ZArith List Bool Lia Permutation.
From NGS Require Import Val Ints Morton ShardBytes MiniShard ShardFile ShardReader ShardSpecReader
  ShardCanon MiniShardProofs ShardFileProofs ShardCloseProofs ShardSpecProofs ShardTopProofs
  ShardWfProofs ShardWitness ShardWitnessProofs ShardSession ShardSessionProofs.
Import ListNotations.
Open Scope N_scope.

(* nth_id: the value of next_cmc after n appends is the n-th identifier of
   the class in increasing order; every identifier is reached exactly once *)
Theorem C04_nth_id : forall sp K n,
  K < 2 ^ (sp_s sp + sp_m sp) -> cbits sp < 2 ^ 64 -> mk sp (K * 2 ^ sp_p sp) n < 2 ^ 64 ->
  next_cmc sp (K * 2 ^ sp_p sp) n = mk sp (K * 2 ^ sp_p sp) n /\
  rank sp (mk sp (K * 2 ^ sp_p sp) n) = n /\
  (forall n', n < n' -> mk sp (K * 2 ^ sp_p sp) n < mk sp (K * 2 ^ sp_p sp) n').
Proof.
  intros sp K n HK HB Hlt. split; [exact (next_cmc_is_mk sp K n HK HB Hlt)|].
  split; [exact (rank_mk sp K n HK)|]. intros n' Hn. exact (mk_mono sp K n n' HK Hn).
Qed.
Print Assumptions C04_nth_id.

Theorem C04_every_id_has_a_rank : forall sp id, mk sp (mbits sp id) (rank sp id) = id.
Proof. exact mk_rank. Qed.
Print Assumptions C04_every_id_has_a_rank.

(* close_canonical, per minishard: for every store sequence of distinct
   identifiers of a class the closed minishard (data bytes and the flat
   (delta id, delta offset, size) triples) is the canonical one of the stored
   set: ids strictly increasing from the first identifier of the class,
   payloads concatenated in identifier order, empty entries for gaps.
   The file level is C04_close_canonical / C04_files_function_of_set below. *)
Theorem C04_minishard_close_canonical : forall sp enc K ops,
  K < 2 ^ (sp_s sp + sp_m sp) -> cbits sp < 2 ^ 64 ->
  ops <> [] -> NoDup (map fst ops) ->
  (forall id, In id (map fst ops) -> in_class sp K id) ->
  exists st,
    ms_run sp enc ms_init ops = (st, map (fun _ => Ok tt) ops) /\
    ms_close sp st = (closed_mini sp enc (K * 2 ^ sp_p sp) ops, Ok tt).
Proof. exact mini_close_canonical. Qed.
Print Assumptions C04_minishard_close_canonical.

(* close_canonical, file level: the files after close are a function of the
   SET of stored (identifier, payload) pairs — any two enumerations of the set
   give the same result of ShardedScale.close, for all grids, parameters,
   subsets and orders (proved by induction over the store list with the
   reorder-buffer invariant, then glued through both dictionaries and
   Shard.close's sorting). *)
Theorem C04_files_function_of_set : forall sp enc ienc, cbits sp < 2 ^ 64 ->
  forall ops1 ops2, ops_valid sp ops1 -> Permutation ops1 ops2 ->
  snd (run_cmc_stores sp enc [] ops1) = map (fun _ => Ok tt) ops1 /\
  snd (run_cmc_stores sp enc [] ops2) = map (fun _ => Ok tt) ops2 /\
  scale_close sp ienc (fst (run_cmc_stores sp enc [] ops1)) =
  scale_close sp ienc (fst (run_cmc_stores sp enc [] ops2)).
Proof. exact order_independent. Qed.
Print Assumptions C04_files_function_of_set.

(* spec_reads_canonical (no guard any more): for EVERY parameter triple with
   p + s + m < 2^64 and minishard_bits < 60, every set of chunks with distinct
   identifiers (< 2^64, rank + 1 < 2^64), every store order, every pair of
   encoders with left-inverse decoders (raw, or gzip as an oracle; the index
   encoder maps non-empty input to non-empty output), and shard files below
   2^64 bytes: the reader written from the format document, applied to the
   files written by close(), returns exactly the stored bytes of every stored
   chunk — right file name, minishard index at the minishard's own slot,
   delta-decoded identifiers and offsets.
   [session_files] = the directory written by ShardedScale.close after the
   stores [ops]; [sizes_ok] = no shard exceeds 2^64 bytes of data + indices. *)
Theorem C04_spec_reads_canonical : forall sp enc ienc,
  cbits sp < 2 ^ 64 -> forall idec ddec,
  (forall b, idec (ienc b) = Some b) -> (forall b, ddec (enc b) = Some b) ->
  (forall b, b <> [] -> ienc b <> []) ->
  forall ops id b,
  sp_m sp < 60 -> ops_valid sp ops -> sizes_ok sp enc ienc ops -> In (id, b) ops ->
  spec_fetch (sp_m sp) (sp_s sp) (sp_p sp) idec ddec (session_files sp enc ienc ops) id = SFound b.
Proof. exact spec_reads_canonical. Qed.
Print Assumptions C04_spec_reads_canonical.

(* close_canonical, closed form: ShardedScale.close writes, for every shard
   number k that received a chunk, the file
     shard_bytes (desc_of ops k)  =  le64 words of the 2^m (start, end) pairs
        (minishard number j at slot j, empty ranges elsewhere)
        ++ data of the minishards in increasing number
        ++ their encoded [3, n] indices,
   where desc_of ops k lists, per used minishard, the stored set routed to it
   (canonical entries: identifiers mk 0 .. mk max_rank, gaps empty). *)
Theorem C04_close_canonical : forall sp enc ienc, cbits sp < 2 ^ 64 -> forall ops,
  sp_m sp < 60 -> ops_valid sp ops -> sizes_ok sp enc ienc ops ->
  let st := fst (run_cmc_stores sp enc [] ops) in
  scale_close sp ienc st =
  map (fun kv => (shard_file_name sp (fst kv), Ok (Some (shard_bytes sp enc ienc (desc_of sp ops (fst kv))))))
      (sort_by_key st).
Proof. exact scale_close_explicit. Qed.
Print Assumptions C04_close_canonical.

(* Shard.close returns normally for every shard of every valid session: the
   struct.pack overflow and the "too many minishards" ShardedIOError are
   unreachable; the file is  shard index ++ data ++ encoded minishard indices
   (shard_bytes, see ShardCloseProofs.shard_close_explicit) *)
Theorem C04_close_all_ok : forall sp enc ienc ops, cbits sp < 2 ^ 64 ->
  sp_m sp < 60 -> ops_valid sp ops -> sizes_ok sp enc ienc ops ->
  forall name r, In (name, r) (scale_close sp ienc (fst (run_cmc_stores sp enc [] ops))) ->
  exists b, r = Ok (Some b).
Proof. exact close_all_ok. Qed.
Print Assumptions C04_close_all_ok.

(* canonical_wf: every file written by a valid session satisfies the whole
   layout predicate of the property statement:
   - (parse) the file name parses back to a shard number below 2^shard_bits,
     every slot of the shard index parses, the identifiers of every minishard
     index are strictly increasing and < 2^64, every index and every chunk
     range lies inside the file;
   - (slot) every identifier listed at slot k of shard file sh has minishard
     number k and shard number sh;
   - (disjoint) the shard index, the minishard indices and the non-empty chunk
     ranges are pairwise disjoint. *)
Theorem C04_canonical_wf : forall sp enc ienc idec,
  cbits sp < 2 ^ 64 -> (forall b, idec (ienc b) = Some b) -> (forall b, b <> [] -> ienc b <> []) ->
  forall ops name f,
  sp_m sp < 60 -> ops_valid sp ops -> sizes_ok sp enc ienc ops ->
  In (name, f) (session_files sp enc ienc ops) ->
  wf_all (wf_file (sp_m sp) (sp_s sp) (sp_p sp) idec name f) = true.
Proof. exact canonical_wf. Qed.
Print Assumptions C04_canonical_wf.

Example C04_spec_reads_hypotheses_inhabited :
  let sp := {| sp_m := 2; sp_s := 2; sp_p := 0 |} in
  let ops := [(10, [9; 9; 9]); (8, [2; 2; 2]); (26, [])] in
  cbits sp < 2 ^ 64 /\ sp_m sp < 60 /\ ops_valid sp ops /\
  sizes_ok sp (fun b => b) (fun b => b) ops /\
  spec_fetch 2 2 0 (fun b => Some b) (fun b => Some b) (session_files sp (fun b => b) (fun b => b) ops) 10
    = SFound [9; 9; 9].
Proof. exact top_hyps_example. Qed.

(* The dataset that refuted the property before /repo commit 49f2991 (3x4x2
   grid, sizes 24x32x16, chunk 8, minishard_bits 2, shard_bits 2, preshift 0,
   all 24 chunks; shards 2 and 3 use minishards {0,2}) now reads correctly:
   chunk 10 is found at slot 2 by the specification reader, all files are WF,
   both readers return all 24 payloads.  The former guard is false here. *)
Example C04_old_witness_reads :
  used_minishards_prefix 2 2 0 wit_ids = false /\
  all_ok (fst wit_session) = true /\
  length wit_ids = 24%nat /\
  wit_payload 10 = Some [9; 9; 9] /\
  spec_fetch 2 2 0 raw_sdec raw_sdec wit_files 10 = SFound [9; 9; 9] /\
  forallb (fun nf => wf_all (wf_file 2 2 0 raw_sdec (fst nf) (snd nf))) wit_files = true /\
  forallb (fun id => spec_result_eqb (spec_fetch 2 2 0 raw_sdec raw_sdec wit_files id) (wit_payload id))
          wit_ids = true /\
  forallb (fun id => outcome_eqb (scale_fetch wit_sp raw_dec raw_dec (dir_of 2 wit_files) id) (wit_payload id))
          wit_ids = true.
Proof. exact old_witness_reads. Qed.

(* spec_reads_canonical_on_guard / canonical_wf — instance evaluated in the
   kernel: 2x3x2 grid, m = s = p = 1, stored in reverse order; the guard holds,
   the specification reader returns exactly the stored bytes for all 12
   chunks and every file satisfies WF.
   (the general statements are C04_spec_reads_canonical and C04_canonical_wf
   above; this instance also exercises the accessor-level routing from chunk
   origins) *)
Theorem C04_reads_instance_2x3x2 :
  used_minishards_prefix 1 1 1 ok_ids = true /\
  all_ok (fst ok_session) = true /\ length ok_ids = 12%nat /\
  forallb (fun id => spec_result_eqb (spec_fetch 1 1 1 raw_sdec raw_sdec ok_files id) (ok_payload id)) ok_ids = true /\
  forallb (fun id => outcome_eqb (scale_fetch ok_sp raw_dec raw_dec (dir_of 1 ok_files) id) (ok_payload id)) ok_ids = true /\
  forallb (fun nf => wf_all (wf_file 1 1 1 raw_sdec (fst nf) (snd nf))) ok_files = true.
Proof. exact guard_example. Qed.
Print Assumptions C04_reads_instance_2x3x2.

(* ---------- the info file replaced during a writing session ----------
   ShardedFileAccessor reads the sharding parameters of a scale from the info
   when the scale is first written.  Model: ShardSession.isess_run, where an
   [IInfo cfg'] step replaces the info.  Scale k1 is written and closed under
   cfg, the info is replaced, scale k2 (never written before) is written and
   closed: nothing raises and the files of k2 are those of the single-scale
   model under the parameters of the NEW info — so C04_spec_reads_canonical and
   C04_canonical_wf hold for a reader that takes its parameters from the info
   file on disk; k1 keeps the files written under the old info. *)
Theorem C04_info_replaced_between_scales : forall enc ienc cfg cfg' k1 k2 v1 sp1 v2 sp2 ops1 cms1 ops2 cms2,
  k1 <> k2 ->
  cbits sp1 < 2 ^ 64 -> sp_m sp1 < 60 -> cfg k1 = Some (v1, sp1) ->
  Forall2 (resolves v1) ops1 cms1 -> ops1 <> [] -> ops_valid sp1 cms1 -> sizes_ok sp1 enc ienc cms1 ->
  cbits sp2 < 2 ^ 64 -> sp_m sp2 < 60 -> cfg' k2 = Some (v2, sp2) ->
  Forall2 (resolves v2) ops2 cms2 -> ops2 <> [] -> ops_valid sp2 cms2 -> sizes_ok sp2 enc ienc cms2 ->
  exists st2,
    isess_run enc ienc cfg sess_init
      (map IOp (phase_ops k1 ops1) ++ IInfo cfg' :: map IOp (phase_ops k2 ops2)) =
      (st2, all_sok (phase_ops k1 ops1 ++ phase_ops k2 ops2)) /\
    (forall name, blookup name (sdir st2 k2) = blookup name (session_files sp2 enc ienc cms2)) /\
    (forall name, blookup name (sdir st2 k1) = blookup name (session_files sp1 enc ienc cms1)).
Proof. exact info_replaced_between_scales. Qed.
Print Assumptions C04_info_replaced_between_scales.

Example C04_info_replaced_instance :
  let run := isess_run ex_id ex_id ex_cfg sess_init
               (map IOp (phase_ops 0 ex_ops) ++ IInfo ex_cfg' :: map IOp (phase_ops 1 ex_ops)) in
  snd run = all_sok (phase_ops 0 ex_ops ++ phase_ops 1 ex_ops) /\
  sdir (fst run) 1 = sdir (fst (sess_run ex_cfg' ex_id ex_id sess_init (phase_ops 1 ex_ops))) 1 /\
  sdir (fst run) 1 <> sdir (fst run) 0.
Proof. exact info_replaced_example. Qed.
