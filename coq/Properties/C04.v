(* C04 — sharded output is readable by a reader that follows the sharded
   format.  Statements only; proofs live in theories/Shard/*Proofs.v.

   The specification reader [spec_fetch], the layout predicate [wf_file] and
   the guard [used_minishards_prefix] are in theories/Shard/ShardSpecReader.v
   and were written from the format document only. *)
From Coq Require Import NArith ZArith List Bool Lia Permutation.
From NGS Require Import Val Ints Morton ShardBytes MiniShard ShardFile ShardReader ShardSpecReader
  ShardCanon MiniShardProofs ShardFileProofs ShardWitness ShardWitnessProofs.
Import ListNotations.
Open Scope N_scope.

(* nth_id: the value of next_cmc after n appends is the n-th identifier of
   the class in increasing order; every identifier is reached exactly once *)
Theorem C04_nth_id : forall sp K n,
  K < 2 ^ (sp_s sp + sp_m sp) -> cbits sp < 2 ^ 64 -> mk sp (K * 2 ^ sp_p sp) n < 2 ^ 64 ->
  next_cmc sp (K * 2 ^ sp_p sp) n = mk sp (K * 2 ^ sp_p sp) n /\
  rank sp (mk sp (K * 2 ^ sp_p sp) n) = n /\
  (forall n', n < n' -> mk sp (K * 2 ^ sp_p sp) n < mk sp (K * 2 ^ sp_p sp) n').
Proof.
  intros sp K n HK HB Hlt. split; [exact (next_cmc_is_mk sp K n HK HB Hlt)|].
  split; [exact (rank_mk sp K n HK)|]. intros n' Hn. exact (mk_mono sp K n n' HK Hn).
Qed.
Print Assumptions C04_nth_id.

Theorem C04_every_id_has_a_rank : forall sp id, mk sp (mbits sp id) (rank sp id) = id.
Proof. exact mk_rank. Qed.
Print Assumptions C04_every_id_has_a_rank.

(* close_canonical, per minishard: for every store sequence of distinct
   identifiers of a class the closed minishard (data bytes and the flat
   (delta id, delta offset, size) triples) is the canonical one of the stored
   set: ids strictly increasing from the first identifier of the class,
   payloads concatenated in identifier order, empty entries for gaps.
   The file level is C04_files_function_of_set below. *)
Theorem C04_close_canonical_partial : forall sp enc K ops,
  K < 2 ^ (sp_s sp + sp_m sp) -> cbits sp < 2 ^ 64 ->
  ops <> [] -> NoDup (map fst ops) ->
  (forall id, In id (map fst ops) -> in_class sp K id) ->
  exists st,
    ms_run sp enc ms_init ops = (st, map (fun _ => Ok tt) ops) /\
    ms_close sp st = (closed_mini sp enc (K * 2 ^ sp_p sp) ops, Ok tt).
Proof. exact mini_close_canonical. Qed.
Print Assumptions C04_close_canonical_partial.

(* close_canonical, file level: the files after close are a function of the
   SET of stored (identifier, payload) pairs — any two enumerations of the set
   give the same result of ShardedScale.close, for all grids, parameters,
   subsets and orders (proved by induction over the store list with the
   reorder-buffer invariant, then glued through both dictionaries and
   Shard.close's sorting).  What is NOT proved is the closed form of that
   function at byte level (header ++ data ++ transposed indices). *)
Theorem C04_files_function_of_set : forall sp enc ienc, cbits sp < 2 ^ 64 ->
  forall ops1 ops2, ops_valid sp ops1 -> Permutation ops1 ops2 ->
  snd (run_cmc_stores sp enc [] ops1) = map (fun _ => Ok tt) ops1 /\
  snd (run_cmc_stores sp enc [] ops2) = map (fun _ => Ok tt) ops2 /\
  scale_close sp ienc (fst (run_cmc_stores sp enc [] ops1)) =
  scale_close sp ienc (fst (run_cmc_stores sp enc [] ops2)).
Proof. exact order_independent. Qed.
Print Assumptions C04_files_function_of_set.

(* The dataset that refuted the property before /repo commit 49f2991 (3x4x2
   grid, sizes 24x32x16, chunk 8, minishard_bits 2, shard_bits 2, preshift 0,
   all 24 chunks; shards 2 and 3 use minishards {0,2}) now reads correctly:
   chunk 10 is found at slot 2 by the specification reader, all files are WF,
   both readers return all 24 payloads.  The former guard is false here. *)
Example C04_old_witness_reads :
  used_minishards_prefix 2 2 0 wit_ids = false /\
  all_ok (fst wit_session) = true /\
  length wit_ids = 24%nat /\
  wit_payload 10 = Some [9; 9; 9] /\
  spec_fetch 2 2 0 raw_sdec raw_sdec wit_files 10 = SFound [9; 9; 9] /\
  forallb (fun nf => wf_all (wf_file 2 2 0 raw_sdec (fst nf) (snd nf))) wit_files = true /\
  forallb (fun id => spec_result_eqb (spec_fetch 2 2 0 raw_sdec raw_sdec wit_files id) (wit_payload id))
          wit_ids = true /\
  forallb (fun id => outcome_eqb (scale_fetch wit_sp raw_dec raw_dec (dir_of 2 wit_files) id) (wit_payload id))
          wit_ids = true.
Proof. exact old_witness_reads. Qed.

(* spec_reads_canonical_on_guard / canonical_wf — instance evaluated in the
   kernel: 2x3x2 grid, m = s = p = 1, stored in reverse order; the guard holds,
   the specification reader returns exactly the stored bytes for all 12
   chunks and every file satisfies WF.
   FULL statements (not proved: they need the byte-level parse lemmas for the
   file assembled by Shard.close):
     spec_reads_canonical_on_guard : used_minishards_prefix (ids ops) = true ->
        S id = Some b -> spec_fetch (files (close (run ops))) id = SFound b
     canonical_wf : used_minishards_prefix (ids ops) = true ->
        every file of  files (close (run ops))  satisfies wf_all. *)
Theorem C04_spec_reads_on_guard_instance :
  used_minishards_prefix 1 1 1 ok_ids = true /\
  all_ok (fst ok_session) = true /\ length ok_ids = 12%nat /\
  forallb (fun id => spec_result_eqb (spec_fetch 1 1 1 raw_sdec raw_sdec ok_files id) (ok_payload id)) ok_ids = true /\
  forallb (fun id => outcome_eqb (scale_fetch ok_sp raw_dec raw_dec (dir_of 1 ok_files) id) (ok_payload id)) ok_ids = true /\
  forallb (fun nf => wf_all (wf_file 1 1 1 raw_sdec (fst nf) (snd nf))) ok_files = true.
Proof. exact guard_example. Qed.
Print Assumptions C04_spec_reads_on_guard_instance.
