(* C18 — I/O failures and interrupted writes never yield silently wrong data.
   Statements only; proofs in theories/Store/{StFaultsProofs,StCrashProofs,
   StHttpProofs}.v.

   An accessor operation is a program over primitive calls (is_file, exists,
   makedirs, open, write, read, close); its trace is the list of calls it
   makes.  [run_fault k e t p]: call number k of p fails with an OSError
   carrying errno e (a failing write leaves [trunc data], an arbitrary prefix);
   [run_cut k t p]: the process stops at call k (an interrupted write leaves
   [trunc data]).  A store is: makedirs, is_file(other form), [unlink(other
   form)], open, write, close - for ANY MIME type of the store.  Both are defined for every k; when k is beyond the trace
   nothing happens. *)
From Coq Require Import NArith ZArith List Bool Lia.
From NGS Require Import Val Ints StFS StFSProofs StFileAccessor StFileAccessorProofs
                        StRefineProofs StSharded StFaults StFaultsProofs StCrashProofs
                        StHttp StHttpProofs.
Import ListNotations.
Open Scope N_scope.

(* FileAccessor, every operation, every call index, every errno: the operation
   ends in DataAccessError (or the index lies beyond the trace and the run is
   the fault-free one).  No guard: any tree, any names. *)
Theorem C18_fault_to_error_file :
  forall (B : Type) (plain : list N -> B) (gz : N -> list N -> B) (gunzip : B -> gzres) (trunc : B -> B),
  forall c o k e t,
  fst (run_fault B (plain []) trunc k e t (op_prog B plain gz gunzip c o)) = AccessErr \/
  run_fault B (plain []) trunc k e t (op_prog B plain gz gunzip c o)
  = run B (plain []) t (op_prog B plain gz gunzip c o).
Proof. exact fa_fault_to_error. Qed.
Print Assumptions C18_fault_to_error_file.

(* ShardedFileAccessor file methods: a plain OSError (outcome IOErr), which
   the property text admits ("a data-access or I/O error") *)
Theorem C18_fault_to_error_sharded_file :
  forall (B : Type) (plain : list N -> B) (trunc : B -> B),
  forall b o k e t,
  fst (run_fault B (plain []) trunc k e t (sh_op_prog B plain b o)) = IOErr \/
  run_fault B (plain []) trunc k e t (sh_op_prog B plain b o)
  = run B (plain []) t (sh_op_prog B plain b o).
Proof. exact sh_fault_to_error. Qed.
Print Assumptions C18_fault_to_error_sharded_file.

(* a failing fetch / exists changes nothing at all *)
Theorem C18_read_fault_leaves_tree :
  forall (B : Type) (plain : list N -> B) (gz : N -> list N -> B) (gunzip : B -> gzres) (trunc : B -> B),
  forall c o k e t, is_read_op o = true ->
  snd (run_fault B (plain []) trunc k e t (op_prog B plain gz gunzip c o)) = t.
Proof. exact fa_read_fault_tree. Qed.
Print Assumptions C18_read_fault_leaves_tree.

(* a failing store on a dataset written by a guarded history leaves every
   OTHER name's file exactly as it was *)
Theorem C18_store_fault_others_unchanged :
  forall (B : Type) (plain : list N -> B) (gz : N -> list N -> B) (trunc : B -> B),
  forall c U,
  cleanb (base c) = true ->
  (forall n, In n U -> n <> [] /\ cleanb n = true /\ gzfree n = true) ->
  (forall n m, In n U -> In m U -> prefix n m -> n = m) ->
  forall n buf mime ow, In n U ->
  forall fm t m k e, Inv B plain gz c U fm t m ->
  forall s, In s U -> s <> n ->
  lookup B (snd (run_fault B (plain []) trunc k e t (store_prog B plain gz c n buf mime ow))) (phys c fm s)
  = lookup B t (phys c fm s).
Proof. exact store_fault_others. Qed.
Print Assumptions C18_store_fault_others_unchanged.

(* interruption at ANY call of a store: the other names' files are untouched *)
Theorem C18_crash_others_unchanged :
  forall (B : Type) (plain : list N -> B) (gz : N -> list N -> B) (trunc : B -> B),
  forall c U,
  cleanb (base c) = true ->
  (forall n, In n U -> n <> [] /\ cleanb n = true /\ gzfree n = true) ->
  (forall n m, In n U -> In m U -> prefix n m -> n = m) ->
  forall n buf mime ow, In n U ->
  forall fm t m k, Inv B plain gz c U fm t m ->
  forall s, In s U -> s <> n ->
  lookup B (run_cut B (plain []) trunc k t (store_prog B plain gz c n buf mime ow)) (phys c fm s)
  = lookup B t (phys c fm s).
Proof. exact store_cut_others. Qed.
Print Assumptions C18_crash_others_unchanged.

(* ... and a reader of the interrupted name finds: the previous state (old
   bytes, or absent); nothing (a data-access error: the name is absent after
   an interruption between the unlink of its other form and the write); or a PREFIX of the new bytes (the whole of them when the
   write completed) - for uncompressed files a truncated file is returned
   as-is and detecting it is the decoder's job (length check); or a
   data-access error (a truncated or corrupt .gz is reported as
   DataAccessError).  Hypotheses on the oracles: gunzip inverts gz; an
   interrupted plain write leaves a prefix; a truncated gzip stream does not
   gunzip to anything but the full payload or (zero-length file) the empty
   string; an empty file reads as empty data. *)
Theorem C18_crash_safe :
  forall (B : Type) (plain : list N -> B) (gz : N -> list N -> B) (gunzip : B -> gzres) (trunc : B -> B),
  (forall l b, gunzip (gz l b) = GzOk b) ->
  forall c U,
  cleanb (base c) = true ->
  (forall n, In n U -> n <> [] /\ cleanb n = true /\ gzfree n = true) ->
  (forall n m, In n U -> In m U -> prefix n m -> n = m) ->
  forall n buf mime ow, In n U ->
  (forall b, exists pre suf, trunc (plain b) = plain pre /\ b = pre ++ suf) ->
  (forall l b x, gunzip (trunc (gz l b)) = GzOk x -> x = b \/ x = []) ->
  gunzip (plain []) = GzOk [] ->
  forall fm t m k, Inv B plain gz c U fm t m ->
  crash_ok B plain buf (to_model B plain (spec_fetch m n))
           (fst (run B (plain []) (run_cut B (plain []) trunc k t (store_prog B plain gz c n buf mime ow))
                     (fetch_prog B plain gunzip c n))).
Proof. exact crash_safe. Qed.
Print Assumptions C18_crash_safe.

(* the same for the state left behind by a store that FAILED at call k *)
Theorem C18_failed_store_reader :
  forall (B : Type) (plain : list N -> B) (gz : N -> list N -> B) (gunzip : B -> gzres) (trunc : B -> B),
  (forall l b, gunzip (gz l b) = GzOk b) ->
  forall c U,
  cleanb (base c) = true ->
  (forall n, In n U -> n <> [] /\ cleanb n = true /\ gzfree n = true) ->
  (forall n m, In n U -> In m U -> prefix n m -> n = m) ->
  forall n buf mime ow, In n U ->
  (forall b, exists pre suf, trunc (plain b) = plain pre /\ b = pre ++ suf) ->
  (forall l b x, gunzip (trunc (gz l b)) = GzOk x -> x = b \/ x = []) ->
  gunzip (plain []) = GzOk [] ->
  forall fm t m k e, Inv B plain gz c U fm t m ->
  crash_ok B plain buf (to_model B plain (spec_fetch m n))
           (fst (run B (plain []) (snd (run_fault B (plain []) trunc k e t (store_prog B plain gz c n buf mime ow)))
                     (fetch_prog B plain gunzip c n))).
Proof. exact failed_store_reader. Qed.
Print Assumptions C18_failed_store_reader.

(* HTTP: any failing reply makes HttpAccessor.fetch_file fail with a
   data-access error (any server); the sharded HTTP reader never returns data
   under any server behaviour (its outcome is an error or a crash) *)
Theorem C18_http_fault_to_error :
  forall (B : Type) (plain : list N -> B) (gunzip : B -> gzres),
  forall (srv : server B) n bu rel,
  failing B (srv n {| r_meth := GET; r_url := bu ++ rel; r_range := None |}) ->
  fst (hrun B srv n (http_fetch_file B plain gunzip bu rel)) = AccessErr.
Proof. exact fetch_status_to_error. Qed.
Print Assumptions C18_http_fault_to_error.

(* ---------- gaps the proofs expose (findings) ---------- *)

(* finding overwrite-not-atomic *)
Theorem C18_overwrite_not_atomic_refuted :
  let t1 := snd (run blob (BPlain []) g_tree (g_store false [1] false)) in
  g_fetch false t1 = Ok (VData (BPlain [1])) /\
  let '(r, t2) := run_fault blob (BPlain []) (BCut 0) 3 ENOSPC t1 (g_store false [2; 3] true) in
  r = AccessErr /\ g_fetch false t2 = Ok (VData (BCut 0 (BPlain [2; 3]))).
Proof. exact overwrite_not_atomic_refuted. Qed.
Print Assumptions C18_overwrite_not_atomic_refuted.

(* a .gz left truncated by a failed write: the next fetch reports a
   data-access error *)
Theorem C18_truncated_gz_detected :
  let '(r, t2) := run_fault blob (BPlain []) (BCut 2) 3 ENOSPC g_tree (g_store true [2; 3] false) in
  r = AccessErr /\ g_fetch true t2 = AccessErr.
Proof. exact truncated_gz_detected. Qed.
Print Assumptions C18_truncated_gz_detected.

(* an interruption between the unlink of the other form and the open leaves
   the name absent (and the completed store reads back the new bytes) *)
Theorem C18_unlink_then_cut_absent :
  let t1 := snd (run blob (BPlain []) g_tree (fa_store_file blob BPlain BGz (g_cfg true) g_name [1] mime_jpeg false)) in
  g_fetch true t1 = Ok (VData (BPlain [1])) /\
  g_fetch true (run_cut blob (BPlain []) (BCut 0) 3 t1 (g_store true [2; 3] true)) = AccessErr /\
  g_fetch true (snd (run blob (BPlain []) t1 (g_store true [2; 3] true))) = Ok (VData (BPlain [2; 3])).
Proof. exact unlink_then_cut_absent. Qed.
Print Assumptions C18_unlink_then_cut_absent.

(* a zero-length .gz reads back as empty data (covered by crash_ok's prefix
   clause; detection is the decoder's length check) *)
Theorem C18_empty_gz_reads_empty :
  g_fetch true (run_cut blob (BPlain []) (BCut 0) 3 g_tree (g_store true [2; 3] false))
  = Ok (VData (BPlain [])).
Proof. exact empty_gz_refuted. Qed.
Print Assumptions C18_empty_gz_reads_empty.

(* sharded HTTP reader under ANY stateless server behaviour (scripted
   statuses, dropped connections, short / over-long / ignored ranges): its
   result is the shard algorithm over the server's answers, in which a
   failing probe or read is an I/O error - so the outcome is data computed
   from replies of the right length, or an error of the algorithm; a missing
   shard is an I/O error *)
Theorem C18_sharded_http_faults :
  forall (B : Type) (plain : list N -> B) (gunzip : B -> gzres) (unplain : B -> option (list N))
         idx_decode locate data_decode (srv : server B),
  (forall n m r, srv n r = srv m r) ->
  forall scale_url shard_name hl cmc n,
  fst (hrun B srv n (hs_fetch B plain gunzip unplain idx_decode locate data_decode scale_url shard_name hl cmc))
  = omap B plain (shard_fetch_pure idx_decode locate data_decode
            (fun suffix => http_ex B srv ((scale_url ++ shard_name) ++ suffix))
            (http_rd B plain gunzip unplain srv (scale_url ++ shard_name) hl) IOErr hl cmc).
Proof. exact hs_fetch_is_algo. Qed.
Print Assumptions C18_sharded_http_faults.

Theorem C18_missing_shard_is_io_error :
  fst (hrun blob w_all_404 0
         (hs_fetch blob BPlain (blob_gunzip []) w_unplain (fun b => Some b) w_locate (fun b => Ok b)
                   [104;47;107;47] [48] 16 0)) = IOErr.
Proof. exact missing_shard_io_error. Qed.
Print Assumptions C18_missing_shard_is_io_error.

(* non-vacuity of the oracle hypotheses of C18_crash_safe *)
Example C18_crash_hyps_example :
  (forall l b, toy_gunzip (toy_gz l b) = GzOk b) /\
  (forall b : list N, exists pre suf, (fun _ : list N => @nil N) ((fun x => x) b) = (fun x => x) pre /\ b = pre ++ suf) /\
  (forall l b x, toy_gunzip ((fun _ : list N => @nil N) (toy_gz l b)) = GzOk x -> x = b \/ x = []) /\
  toy_gunzip ((fun x => x) []) = GzOk [].
Proof. exact crash_hyps_example. Qed.
