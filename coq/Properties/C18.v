(* C18 — I/O failures and interrupted writes never yield silently wrong data.
   Statements only; proofs in theories/Store/{StFaultsProofs,StCrashProofs,
   StHttpProofs}.v.

   An accessor operation is a program over primitive calls (is_file, exists,
   makedirs, open, write, read, close); its trace is the list of calls it
   makes.  [run_fault k e t p]: call number k of p fails with an OSError
   carrying errno e (a failing write leaves [trunc data], an arbitrary prefix);
   [run_cut k t p]: the process stops at call k (an interrupted write leaves
   [trunc data]).  A store is: makedirs, is_file(other form), [unlink(other
   form)], open, write, close - for ANY MIME type of the store.  Both are defined for every k; when k is beyond the trace
   nothing happens. *)
From Coq Require Import NArith ZArith List Bool Lia.
From NGS Require Import Val Ints StFS StFSProofs StFileAccessor StFileAccessorProofs
                        StRefineProofs StSharded StFaults StFaultsProofs StCrashProofs
                        StHttp StHttpProofs.
Import ListNotations.
Open Scope N_scope.

(* FileAccessor, every operation, every call index, every errno: the operation
   ends in DataAccessError (or the index lies beyond the trace and the run is
   the fault-free one).  No guard: any tree, any names. *)
Theorem C18_fault_to_error_file :
  forall (B : Type) (plain : list N -> B) (gz : N -> list N -> B) (gunzip : B -> gzres) (trunc : B -> B),
  forall c o k e t,
  fst (run_fault B (plain []) trunc k e t (op_prog B plain gz gunzip c o)) = AccessErr \/
  run_fault B (plain []) trunc k e t (op_prog B plain gz gunzip c o)
  = run B (plain []) t (op_prog B plain gz gunzip c o).
Proof. exact fa_fault_to_error. Qed.
Print Assumptions C18_fault_to_error_file.

(* ShardedFileAccessor file methods: a plain OSError (outcome IOErr), which
   the property text admits ("a data-access or I/O error") *)
Theorem C18_fault_to_error_sharded_file :
  forall (B : Type) (plain : list N -> B) (trunc : B -> B),
  forall b o k e t,
  fst (run_fault B (plain []) trunc k e t (sh_op_prog B plain b o)) = IOErr \/
  run_fault B (plain []) trunc k e t (sh_op_prog B plain b o)
  = run B (plain []) t (sh_op_prog B plain b o).
Proof. exact sh_fault_to_error. Qed.
Print Assumptions C18_fault_to_error_sharded_file.

(* a failing fetch / exists changes nothing at all *)
Theorem C18_read_fault_leaves_tree :
  forall (B : Type) (plain : list N -> B) (gz : N -> list N -> B) (gunzip : B -> gzres) (trunc : B -> B),
  forall c o k e t, is_read_op o = true ->
  snd (run_fault B (plain []) trunc k e t (op_prog B plain gz gunzip c o)) = t.
Proof. exact fa_read_fault_tree. Qed.
Print Assumptions C18_read_fault_leaves_tree.

(* a failing store on a dataset written by a guarded history leaves every
   OTHER name's file exactly as it was *)
Theorem C18_store_fault_others_unchanged :
  forall (B : Type) (plain : list N -> B) (gz : N -> list N -> B) (trunc : B -> B),
  forall c U,
  cleanb (base c) = true ->
  (forall n, In n U -> n <> [] /\ cleanb n = true /\ gzfree n = true) ->
  (forall n m, In n U -> In m U -> prefix n m -> n = m) ->
  forall n buf mime ow, In n U ->
  forall fm t m k e, Inv B plain gz c U fm t m ->
  forall s, In s U -> s <> n ->
  lookup B (snd (run_fault B (plain []) trunc k e t (store_prog B plain gz c n buf mime ow))) (phys c fm s)
  = lookup B t (phys c fm s).
Proof. exact store_fault_others. Qed.
Print Assumptions C18_store_fault_others_unchanged.

(* interruption at ANY call of a store: the other names' files are untouched *)
Theorem C18_crash_others_unchanged :
  forall (B : Type) (plain : list N -> B) (gz : N -> list N -> B) (trunc : B -> B),
  forall c U,
  cleanb (base c) = true ->
  (forall n, In n U -> n <> [] /\ cleanb n = true /\ gzfree n = true) ->
  (forall n m, In n U -> In m U -> prefix n m -> n = m) ->
  forall n buf mime ow, In n U ->
  forall fm t m k, Inv B plain gz c U fm t m ->
  forall s, In s U -> s <> n ->
  lookup B (run_cut B (plain []) trunc k t (store_prog B plain gz c n buf mime ow)) (phys c fm s)
  = lookup B t (phys c fm s).
Proof. exact store_cut_others. Qed.
Print Assumptions C18_crash_others_unchanged.

(* ... and a reader of the interrupted name finds: the previous state (old
   bytes, or absent); nothing (a data-access error: the name is absent after
   an interruption between the unlink of its other form and the write); or a PREFIX of the new bytes (the whole of them when the
   write completed) - for uncompressed files a truncated file is returned
   as-is and detecting it is the decoder's job (length check); or a
   data-access error (a truncated or corrupt .gz is reported as
   DataAccessError).  Hypotheses on the oracles: gunzip inverts gz; an
   interrupted plain write leaves a prefix; a truncated gzip stream does not
   gunzip to anything but the full payload or (zero-length file) the empty
   string; an empty file reads as empty data. *)
Theorem C18_crash_safe :
  forall (B : Type) (plain : list N -> B) (gz : N -> list N -> B) (gunzip : B -> gzres) (trunc : B -> B),
  (forall l b, gunzip (gz l b) = GzOk b) ->
  forall c U,
  cleanb (base c) = true ->
  (forall n, In n U -> n <> [] /\ cleanb n = true /\ gzfree n = true) ->
  (forall n m, In n U -> In m U -> prefix n m -> n = m) ->
  forall n buf mime ow, In n U ->
  (forall b, exists pre suf, trunc (plain b) = plain pre /\ b = pre ++ suf) ->
  (forall l b x, gunzip (trunc (gz l b)) = GzOk x -> x = b \/ x = []) ->
  gunzip (plain []) = GzOk [] ->
  forall fm t m k, Inv B plain gz c U fm t m ->
  crash_ok B plain buf (to_model B plain (spec_fetch m n))
           (fst (run B (plain []) (run_cut B (plain []) trunc k t (store_prog B plain gz c n buf mime ow))
                     (fetch_prog B plain gunzip c n))).
Proof. exact crash_safe. Qed.
Print Assumptions C18_crash_safe.

(* the same for the state left behind by a store that FAILED at call k *)
Theorem C18_failed_store_reader :
  forall (B : Type) (plain : list N -> B) (gz : N -> list N -> B) (gunzip : B -> gzres) (trunc : B -> B),
  (forall l b, gunzip (gz l b) = GzOk b) ->
  forall c U,
  cleanb (base c) = true ->
  (forall n, In n U -> n <> [] /\ cleanb n = true /\ gzfree n = true) ->
  (forall n m, In n U -> In m U -> prefix n m -> n = m) ->
  forall n buf mime ow, In n U ->
  (forall b, exists pre suf, trunc (plain b) = plain pre /\ b = pre ++ suf) ->
  (forall l b x, gunzip (trunc (gz l b)) = GzOk x -> x = b \/ x = []) ->
  gunzip (plain []) = GzOk [] ->
  forall fm t m k e, Inv B plain gz c U fm t m ->
  crash_ok B plain buf (to_model B plain (spec_fetch m n))
           (fst (run B (plain []) (snd (run_fault B (plain []) trunc k e t (store_prog B plain gz c n buf mime ow)))
                     (fetch_prog B plain gunzip c n))).
Proof. exact failed_store_reader. Qed.
Print Assumptions C18_failed_store_reader.

(* HTTP: any failing reply makes HttpAccessor.fetch_file fail with a
   data-access error (any server); the sharded HTTP reader never returns data
   under any server behaviour (its outcome is an error or a crash) *)
Theorem C18_http_fault_to_error :
  forall (B : Type) (plain : list N -> B) (gunzip : B -> gzres),
  forall (srv : server B) n bu rel,
  failing B (srv n {| r_meth := GET; r_url := bu ++ rel; r_range := None |}) ->
  fst (hrun B srv n (http_fetch_file B plain gunzip bu rel)) = AccessErr.
Proof. exact fetch_status_to_error. Qed.
Print Assumptions C18_http_fault_to_error.

(* ---------- gaps the proofs expose (findings) ---------- *)

(* finding overwrite-not-atomic *)
Theorem C18_overwrite_not_atomic_refuted :
  let t1 := snd (run blob (BPlain []) g_tree (g_store false [1] false)) in
  g_fetch false t1 = Ok (VData (BPlain [1])) /\
  let '(r, t2) := run_fault blob (BPlain []) (BCut 0) 3 ENOSPC t1 (g_store false [2; 3] true) in
  r = AccessErr /\ g_fetch false t2 = Ok (VData (BCut 0 (BPlain [2; 3]))).
Proof. exact overwrite_not_atomic_refuted. Qed.
Print Assumptions C18_overwrite_not_atomic_refuted.

(* a .gz left truncated by a failed write: the next fetch reports a
   data-access error *)
Theorem C18_truncated_gz_detected :
  let '(r, t2) := run_fault blob (BPlain []) (BCut 2) 3 ENOSPC g_tree (g_store true [2; 3] false) in
  r = AccessErr /\ g_fetch true t2 = AccessErr.
Proof. exact truncated_gz_detected. Qed.
Print Assumptions C18_truncated_gz_detected.

(* an interruption between the unlink of the other form and the open leaves
   the name absent (and the completed store reads back the new bytes) *)
Theorem C18_unlink_then_cut_absent :
  let t1 := snd (run blob (BPlain []) g_tree (fa_store_file blob BPlain BGz (g_cfg true) g_name [1] mime_jpeg false)) in
  g_fetch true t1 = Ok (VData (BPlain [1])) /\
  g_fetch true (run_cut blob (BPlain []) (BCut 0) 3 t1 (g_store true [2; 3] true)) = AccessErr /\
  g_fetch true (snd (run blob (BPlain []) t1 (g_store true [2; 3] true))) = Ok (VData (BPlain [2; 3])).
Proof. exact unlink_then_cut_absent. Qed.
Print Assumptions C18_unlink_then_cut_absent.

(* a zero-length .gz reads back as empty data (covered by crash_ok's prefix
   clause; detection is the decoder's length check) *)
Theorem C18_empty_gz_reads_empty :
  g_fetch true (run_cut blob (BPlain []) (BCut 0) 3 g_tree (g_store true [2; 3] false))
  = Ok (VData (BPlain [])).
Proof. exact empty_gz_refuted. Qed.
Print Assumptions C18_empty_gz_reads_empty.

(* sharded HTTP reader under ANY stateless server behaviour (scripted
   statuses, dropped connections, short / over-long / ignored ranges): its
   result is the shard algorithm over the server's answers, in which a
   failing probe or read is an I/O error - so the outcome is data computed
   from replies of the right length, or an error of the algorithm; a missing
   shard is an I/O error *)
Theorem C18_sharded_http_faults :
  forall (B : Type) (plain : list N -> B) (gunzip : B -> gzres) (unplain : B -> option (list N))
         idx_decode locate data_decode (srv : server B),
  (forall n m r, srv n r = srv m r) ->
  forall scale_url shard_name hl cmc n,
  fst (hrun B srv n (hs_fetch B plain gunzip unplain idx_decode locate data_decode scale_url shard_name hl cmc))
  = omap B plain (shard_fetch_pure idx_decode locate data_decode
            (fun suffix => http_ex B srv ((scale_url ++ shard_name) ++ suffix))
            (http_rd B plain gunzip unplain srv (scale_url ++ shard_name) hl) IOErr hl cmc).
Proof. exact hs_fetch_is_algo. Qed.
Print Assumptions C18_sharded_http_faults.

Theorem C18_missing_shard_is_io_error :
  fst (hrun blob w_all_404 0
         (hs_fetch blob BPlain (blob_gunzip []) w_unplain (fun b => Some b) w_locate (fun b => Ok b)
                   [104;47;107;47] [48] 16 0)) = IOErr.
Proof. exact missing_shard_io_error. Qed.
Print Assumptions C18_missing_shard_is_io_error.

(* non-vacuity of the oracle hypotheses of C18_crash_safe *)
Example C18_crash_hyps_example :
  (forall l b, toy_gunzip (toy_gz l b) = GzOk b) /\
  (forall b : list N, exists pre suf, (fun _ : list N => @nil N) ((fun x => x) b) = (fun x => x) pre /\ b = pre ++ suf) /\
  (forall l b x, toy_gunzip ((fun _ : list N => @nil N) (toy_gz l b)) = GzOk x -> x = b \/ x = []) /\
  toy_gunzip ((fun x => x) []) = GzOk [].
Proof. exact crash_hyps_example. Qed.

(* ---------------------------------------------------------------------- *)
(* ShardedFileAccessor.close() (StFaults.close_prog): per dirty shard, in
   insertion order: mkdir, open "wb", one write per block (zero header, the
   data of each minishard, the minishard indices, the shard index over the zero
   header), close; dirty is reset, and the write buffers are released, only
   after that.  The payload bytes are given ([shard_desc]); the writer state
   is, per shard, the dirty flag.
   [reach p cs a]: some sequence of replies of the primitives drives p through
   the calls cs to the result a - every run, faulted or not, on any tree, ends
   in a reachable result, so the statements on [reach] hold for every fault
   position, errno and tree.
   [treach p t a t']: the same with the trees: every call is executed on the
   tree, or fails (any errno; a failing write leaves [trunc data]) - any
   number of failures. *)

Theorem C18_close_runs_are_reachable :
  forall (B : Type) (plain : list N -> B) (trunc : B -> B) A (p : prog B A) k e t,
  (exists cs, reach B p cs (fst (run_fault B (plain []) trunc k e t p))) /\
  treach B plain trunc p t (fst (run_fault B (plain []) trunc k e t p))
                           (snd (run_fault B (plain []) trunc k e t p)) /\
  treach B plain trunc p t (fst (run B (plain []) t p)) (snd (run B (plain []) t p)).
Proof. exact runs_are_reachable. Qed.
Print Assumptions C18_close_runs_are_reachable.

(* (a) a fault in ANY primitive of close (mkdir, open, any of the writes, the
   close of the file) makes close() fail with an I/O error - or the index lies
   beyond the trace and nothing happened *)
Theorem C18_close_fault_to_error :
  forall (B : Type) (plain : list N -> B) (trunc : B -> B),
  forall l k e t,
  fst (fst (run_fault B (plain []) trunc k e t (close_prog B plain l))) = CIOErr \/
  run_fault B (plain []) trunc k e t (close_prog B plain l) = run B (plain []) t (close_prog B plain l).
Proof. exact close_fault_to_error. Qed.
Print Assumptions C18_close_fault_to_error.

(* (b) every way a close can end.  Either it returns normally: then every
   shard was handled ([segs]: shard after shard, each Shard.close returning
   normally) and is clean.  Or it raises an I/O error at some dirty shard x:
   the shards before x were handled completely and are clean, x stays dirty,
   the shards after x keep their flag - and no primitive was called for them
   (the calls are those of l1 and of x). *)
Theorem C18_close_reach :
  forall (B : Type) (plain : list N -> B),
  forall l done cs r S',
  reach B (close_shards B plain l done) cs (r, S') ->
  (r = COk /\ S' = rev done ++ clean l /\ segs B plain l cs) \/
  (r = CIOErr /\ exists l1 x l2 ca cb,
     l = l1 ++ x :: l2 /\ cs = ca ++ cb /\ segs B plain l1 ca /\ snd x = true /\
     reach B (shard_close_prog B plain (fst x) (snd x)) cb CIOErr /\
     S' = rev done ++ clean l1 ++ true :: map snd l2).
Proof. exact close_reach. Qed.
Print Assumptions C18_close_reach.

(* what one Shard.close can do: calls only on its directory and file; normal
   return: it was clean (no call at all) or the last thing written to its file
   is the complete shard; an I/O error only for a dirty shard *)
Theorem C18_shard_close_reach :
  forall (B : Type) (plain : list N -> B),
  forall d dirty cs r,
  reach B (shard_close_prog B plain d dirty) cs r ->
  on_shard B d cs /\
  match r with
  | COk => dirty = false /\ cs = [] \/
           dirty = true /\ last_written B (sd_file d) cs = Some (plain (complete d))
  | CIOErr => dirty = true
  end.
Proof. exact shard_reach. Qed.
Print Assumptions C18_shard_close_reach.

(* shards handled before the failing one are complete: with pairwise different
   shard files (none of them a scale directory) the last content written to the
   file of every dirty shard of the handled prefix is the complete shard *)
Theorem C18_closed_shards_complete :
  forall (B : Type) (plain : list N -> B),
  forall l1 cs, segs B plain l1 cs -> files_apart l1 ->
  forall x, In x l1 -> snd x = true ->
  last_written B (sd_file (fst x)) cs = Some (plain (complete (fst x))).
Proof. exact segs_complete. Qed.
Print Assumptions C18_closed_shards_complete.

(* (b) and (c) on the trees.  Hypotheses, all about the shard list l and the
   tree t before the first close:
     [apart (map fst l)]: every shard file is <its directory>/<name> without
        ".." components, and no shard file is equal to or above a shard
        directory;
     [NoDup (map fname l)]: the shard files are pairwise different;
     [good (map fst l) t]: t is a tree (every entry has a directory as parent),
        no file stands where a shard directory or one of its ancestors is
        needed, no directory where a shard file goes.
   [whole t x]: the file of shard x holds the complete shard in t;
   [off l q]: q is neither the file of a dirty shard of l nor a directory on
   the way to one. *)

(* any run of close, with any failures: the tree stays good; nothing but the
   files of dirty shards and the directories leading to them changes (so the
   shards closed earlier, and everything else stored, is unchanged); a shard
   that was dirty and is now clean has its complete file *)
Theorem C18_close_on_trees :
  forall (B : Type) (plain : list N -> B) (trunc : B -> B),
  forall ds, apart ds ->
  forall l done t r S t',
  incl (map fst l) ds -> NoDup (map fname l) -> good B ds t ->
  treach B plain trunc (close_shards B plain l done) t (r, S) t' ->
  good B ds t' /\
  (forall q, off l q -> lookup B t' q = lookup B t q) /\
  exists S0, S = rev done ++ S0 /\
    Forall2 (fun x s => s = false -> snd x = true -> whole B plain t' x) l S0.
Proof. exact T_close. Qed.
Print Assumptions C18_close_on_trees.

(* (c) the retry: after a close with ANY failures, a second close in which no
   primitive fails (the explicit retry, or the accessor's atexit hook) returns
   normally, every shard is clean, the file of EVERY shard that was dirty
   holds the complete shard, and nothing else has changed since before the
   first close *)
Theorem C18_close_retry :
  forall (B : Type) (plain : list N -> B) (trunc : B -> B),
  forall l t r1 S1 t1,
  apart (map fst l) -> NoDup (map fname l) -> good B (map fst l) t ->
  treach B plain trunc (close_prog B plain l) t (r1, S1) t1 ->
  exists t2, run B (plain []) t1 (close_prog B plain (retry_descs l S1)) = ((COk, clean l), t2) /\
    good B (map fst l) t2 /\
    (forall x, In x l -> snd x = true -> whole B plain t2 x) /\
    (forall q, (forall x, In x l -> q <> fname x /\ ~ prefix q (sd_dir (fst x))) ->
               lookup B t2 q = lookup B t q).
Proof. exact close_retry. Qed.
Print Assumptions C18_close_retry.

(* ... in the form the harness executes: one failing call k, errno e *)
Theorem C18_close_retry_after_fault :
  forall (B : Type) (plain : list N -> B) (trunc : B -> B),
  forall l k e t,
  apart (map fst l) -> NoDup (map fname l) -> good B (map fst l) t ->
  let '((r1, S1), t1) := run_fault B (plain []) trunc k e t (close_prog B plain l) in
  exists t2, run B (plain []) t1 (close_prog B plain (retry_descs l S1)) = ((COk, clean l), t2) /\
    forall x, In x l -> snd x = true -> whole B plain t2 x.
Proof. exact close_retry_fault. Qed.
Print Assumptions C18_close_retry_after_fault.

(* the hypotheses are decidable ([close_hyps], evaluated by the harness on every
   case it generates: model op sh_close) and the checker is sound *)
Theorem C18_close_hyps_sound :
  forall (B : Type) l t, close_hyps B l t = true ->
  apart (map fst l) /\ NoDup (map fname l) /\ good B (map fst l) t.
Proof. exact close_hyps_sound. Qed.
Print Assumptions C18_close_hyps_sound.

Theorem C18_close_retry_checked :
  forall (B : Type) (plain : list N -> B) (trunc : B -> B) l k e t,
  close_hyps B l t = true ->
  let '((r1, S1), t1) := run_fault B (plain []) trunc k e t (close_prog B plain l) in
  exists t2, run B (plain []) t1 (close_prog B plain (retry_descs l S1)) = ((COk, clean l), t2) /\
    forall x, In x l -> snd x = true -> whole B plain t2 x.
Proof. exact close_retry_checked. Qed.
Print Assumptions C18_close_retry_checked.
