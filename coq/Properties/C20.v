(* C20 — reported statistics match the dataset that is actually produced.
   Statements only; proofs live in theories/Stats/ReadableProofs.v. *)
From Coq Require Import NArith ZArith List Lia.
From NGS Require Import Val Ints Readable ReadableProofs ReadableBeyond TotalsProofs.
Import ListNotations.
Open Scope N_scope.

(* ---- human-readable quantities ---- *)

(* never longer than six characters below 2^60 *)
Theorem C20_readable_len : forall c,
  c < 2 ^ 60 -> (length (readable_count c) <= 6)%nat.
Proof. exact readable_len. Qed.
Print Assumptions C20_readable_len.

(* counts below 1000 are printed exactly *)
Theorem C20_readable_small_exact : forall c,
  c < 1000 ->
  readable_count c = decimal c ++ [32] /\
  parse_readable (readable_count c) = Some (c, 1, 0).
Proof. exact readable_small_exact. Qed.
Print Assumptions C20_readable_small_exact.

(* from 1000 up to 2^60: the text parses back to num/den * 2^e with at least
   two significant digits (num >= 10, den = 1 or 10) and lies within half a
   unit of the last displayed digit of the value of float(count) *)
Theorem C20_readable_two_digits_and_close : forall c,
  1000 <= c -> c < 2 ^ 60 ->
  exists num den e,
    parse_readable (readable_count c) = Some (num, den, e) /\
    10 <= num /\ (den = 1 \/ den = 10) /\
    close_to (rn53 c) num den e.
Proof. exact readable_two_digits_and_close. Qed.
Print Assumptions C20_readable_two_digits_and_close.

(* ---- at and beyond 2^60 (the property quantifies "to beyond 2^60") ---- *)

(* the six-character bound holds further than the docstring promises: up to
   999 * 2^60 *)
Theorem C20_readable_len_to_999Ei : forall c,
  c <= 999 * 2 ^ 60 -> (length (readable_count c) <= 6)%nat.
Proof. exact readable_len_ext. Qed.
Print Assumptions C20_readable_len_to_999Ei.

(* ... and so do the two significant digits and the rounding distance *)
Theorem C20_readable_two_digits_and_close_to_999Ei : forall c,
  1000 <= c -> c <= 999 * 2 ^ 60 ->
  exists num den e,
    parse_readable (readable_count c) = Some (num, den, e) /\
    10 <= num /\ (den = 1 \/ den = 10) /\
    close_to (rn53 c) num den e.
Proof. exact readable_two_digits_and_close_ext. Qed.
Print Assumptions C20_readable_two_digits_and_close_to_999Ei.

(* once float(count) / 2^60 rounds to 1000 or more, the text is the
   thousands-separated integer number of Ei (four or more significant digits)
   within half a unit of float(count) / 2^60 *)
Theorem C20_readable_beyond : forall c,
  1000 <= rhe (rn53 c) (2 ^ 60) ->
  readable_count c = commas (decimal (rhe (rn53 c) (2 ^ 60))) ++ [32; 69; 105] /\
  (2 * Z.abs (Z.of_N (rhe (rn53 c) (2 ^ 60) * 2 ^ 60) - Z.of_N (rn53 c)) <= Z.of_N (2 ^ 60))%Z.
Proof. exact readable_beyond. Qed.
Print Assumptions C20_readable_beyond.

(* every count from 1000 * 2^60 on is in that regime (no bound above) *)
Theorem C20_readable_beyond_from : forall c,
  1000 * 2 ^ 60 <= c -> 1000 <= rhe (rn53 c) (2 ^ 60).
Proof. exact readable_beyond_from. Qed.
Print Assumptions C20_readable_beyond_from.

(* the boundary itself: 999.5 Ei is the first count shown with eight
   characters; 999 Ei and 2^60 still fit in six *)
Example C20_example_first_long :
  readable_count (1999 * 2 ^ 59) = [49; 44; 48; 48; 48; 32; 69; 105] /\
  readable_count (999 * 2 ^ 60) = [57; 57; 57; 32; 69; 105] /\
  readable_count (2 ^ 60) = [49; 46; 48; 32; 69; 105] /\
  1000 <= rhe (rn53 (1999 * 2 ^ 59)) (2 ^ 60).
Proof. exact readable_first_long. Qed.

(* float(count) is exact below 2^53 and has relative error <= 2^-53 above *)
Theorem C20_float_of_count : forall c,
  (c < 2 ^ 53 -> rn53 c = c) /\
  (2 ^ 53 <= c ->
   (Z.abs (Z.of_N (rn53 c) - Z.of_N c) * 2 ^ 53 <= Z.of_N c)%Z).
Proof. exact rn53_error. Qed.
Print Assumptions C20_float_of_count.

(* ---- chunk counts and sizes ---- *)

(* the chunk grid a conversion walks has exactly the reported number of chunks *)
Theorem C20_chunk_count : forall sx sy sz cx cy cz,
  0 < sx -> 0 < sy -> 0 < sz -> 0 < cx -> 0 < cy -> 0 < cz ->
  ((sx - 1) / cx + 1) * ((sy - 1) / cy + 1) * ((sz - 1) / cz + 1) < 2 ^ 63 ->
  stats_num_chunks (sx, sy, sz) (cx, cy, cz)
  = Z.of_nat (length (grid_chunks (sx, sy, sz) (cx, cy, cz))).
Proof. exact chunk_count. Qed.
Print Assumptions C20_chunk_count.

(* the chunks partition the volume: their voxel counts add up to the volume *)
Theorem C20_chunk_voxels_total : forall sx sy sz cx cy cz,
  0 < cx -> 0 < cy -> 0 < cz ->
  fold_right N.add 0 (map chunk_voxels (grid_chunks (sx, sy, sz) (cx, cy, cz)))
  = sx * sy * sz.
Proof. exact chunk_voxels_total. Qed.
Print Assumptions C20_chunk_voxels_total.

(* every voxel lies in exactly one chunk of the grid *)
Theorem C20_chunk_cover_unique : forall sx sy sz cx cy cz x y z,
  0 < cx -> 0 < cy -> 0 < cz -> x < sx -> y < sy -> z < sz ->
  exists! c, In c (grid_chunks (sx, sy, sz) (cx, cy, cz)) /\
    let '((x0, x1), (y0, y1), (z0, z1)) := c in
    x0 <= x < x1 /\ y0 <= y < y1 /\ z0 <= z < z1.
Proof. exact chunk_cover_unique. Qed.
Print Assumptions C20_chunk_cover_unique.

(* the reported raw size is the decoded byte size: voxels * itemsize * channels *)
Theorem C20_size_bytes : forall sx sy sz it ch,
  sx * sy * sz * it * ch < 2 ^ 63 -> 0 < it -> 0 < ch ->
  stats_size_bytes (sx, sy, sz) it ch = Z.of_N (sx * sy * sz * it * ch).
Proof. exact size_bytes. Qed.
Print Assumptions C20_size_bytes.

(* ---- "per scale and in total" ---- *)

(* the Total line: as long as the true sums fit numpy's int64, the totals the
   command accumulates are the sums of the rows it printed *)
Theorem C20_totals_exact : forall rows,
  Forall nonneg_row rows ->
  (sumZ (map fst rows) < 2 ^ 63)%Z -> (sumZ (map snd rows) < 2 ^ 63)%Z ->
  stats_totals rows = (sumZ (map fst rows), sumZ (map snd rows)).
Proof. exact totals_exact. Qed.
Print Assumptions C20_totals_exact.

(* ... and for a whole info (any number of scales, any number of chunk layouts
   per scale): the totals are the number of chunks of ALL the grids the
   converters walk and the decoded byte size of all of them together *)
Theorem C20_totals_of_info : forall scales it ch,
  0 < it -> 0 < ch -> scales_ok it ch scales ->
  (sumZ (map fst (true_rows scales it ch)) < 2 ^ 63)%Z ->
  (sumZ (map snd (true_rows scales it ch)) < 2 ^ 63)%Z ->
  stats_totals (info_rows scales it ch)
  = (sumZ (map fst (true_rows scales it ch)), sumZ (map snd (true_rows scales it ch))).
Proof. exact totals_of_info. Qed.
Print Assumptions C20_totals_of_info.

(* non-vacuity (two scales, one of them with two chunk layouts), and the reason
   for the guard: int64 totals wrap *)
Example C20_example_totals :
  (let scales := [((5, 4, 3), [(2, 2, 2); (4, 4, 4)]); ((3, 2, 2), [(2, 2, 2)])] in
   scales_ok 2 3 scales /\
   stats_totals (info_rows scales 2 3) = (12 + 2 + 2, 360 + 360 + 72)%Z) /\
  stats_totals [(2 ^ 62, 1); (2 ^ 62, 1)]%Z = (- 2 ^ 63, 2)%Z.
Proof. split; [exact totals_example|exact totals_wrap]. Qed.

Example C20_example_band :     (* the band that used to print "0.0 Mi" *)
  readable_count 10189 = [49; 48; 32; 107; 105] /\ 1000 <= 10189 < 2 ^ 60.
Proof. split; [vm_compute; reflexivity | lia]. Qed.
