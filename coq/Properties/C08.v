(* C08 - generated scale metadata is consistent and usable by every later
   step.  Statements only.  Model: theories/Pyramid/PyrScales.v (integer core
   of fill_scales_for_dyadic_pyramid, parameterised by the axis delays) and
   PyrKeys.v (float side: delays, key unit, keys).  Proofs: PyrScalesProofs.v,
   PyrKeysProofs.v, PyrComputeProofs.v. *)
From Coq Require Import ZArith NArith List Bool Lia.
From Coq Require Import Floats.SpecFloat.
From NGS Require Import Val Ints PyrScales PyrKeys PyrTiling PyrCompute
                        PyrScalesProofs PyrKeysProofs PyrTilingProofs PyrComputeProofs.
Import ListNotations.
Open Scope Z_scope.

(* Every generated scale is level l of the pyramid: per axis the factor is
   2^k with k = max(0, l - delay) and the size is ceil(full / 2^k), i.e. the
   least integer with size * 2^k >= full. *)
Theorem C08_sizes_spec : forall full d t ms l s a,
  scales_core full d t ms = Ok l -> In s l ->
  let k := Z.max 0 (sc_level s - get3 a d) in
  get3 a (sc_factors s) = 2 ^ k /\
  get3 a (sc_size s) = ceil_div (get3 a full) (2 ^ k) /\
  get3 a full <= get3 a (sc_size s) * 2 ^ k /\
  (get3 a (sc_size s) - 1) * 2 ^ k < get3 a full.
Proof. exact sizes_spec. Qed.
Print Assumptions C08_sizes_spec.

Theorem C08_levels_are_0_to_count : forall full d t ms l,
  scales_core full d t ms = Ok l ->
  Forall2 (fun k s => sc_level s = k /\ core_spec full d t s)
          (levels (level_count full d t ms)) l.
Proof. exact scales_core_levels. Qed.
Print Assumptions C08_levels_are_0_to_count.

Theorem C08_first_scale_is_full : forall full d,
  (forall a, 0 <= get3 a d) -> level_sizes full d 0 = full.
Proof. exact level0_full. Qed.
Print Assumptions C08_first_scale_is_full.

(* resolution_spec, partial: each scale's resolution is the full resolution
   multiplied (binary64 SFmul) by the float 2^k with the SAME k that divides
   the size, and its chunk sizes are 2^e for the exponents of the integer
   core.  Missing for the full statement "resolution = full * 2^k as
   rationals": exactness of a binary64 multiplication by a power of two
   (checked on every run by the harness, which compares exact rationals). *)
Theorem C08_resolution_spec_partial : forall full res target ms scales s,
  gen_scales full res target ms = Ok scales -> In s scales ->
  exists t d l,
    target_exponent target = Ok t /\ delays (fmap3 sf_of res) = Ok d /\
    0 <= l < level_count full d t ms /\
    so_size s = level_sizes full d l /\
    so_res s = scale_resolution (fmap3 sf_of res) (level_factors d l) /\
    (exists e, chunk_exponents d t l = Ok e /\ so_chunks s = map3 (fun x => 2 ^ x) e).
Proof. exact resolution_structure. Qed.
Print Assumptions C08_resolution_spec_partial.

(* chunk sizes are powers of two (exponents >= 0) holding target^3 voxels up
   to a factor of two *)
Theorem C08_chunks_pow2_and_volume : forall d t l e, 0 <= t -> 0 <= l ->
  chunk_exponents d t l = Ok e ->
  (forall a, 0 <= get3 a e) /\ Z.abs (sum3 e - 3 * t) <= 1.
Proof. exact chunk_volume. Qed.
Print Assumptions C08_chunks_pow2_and_volume.

(* since /repo 1758f7a NO internal assertion of downscale_info can fail (and the
   division by the number of non-zero anisotropy factors is never a division by
   zero); the integer core accepts every description with positive sizes *)
Theorem C08_no_assertion_can_fail : forall d t l, 0 <= t ->
  exists e, chunk_exponents d t l = Ok e.
Proof. exact no_assertion_can_fail. Qed.
Print Assumptions C08_no_assertion_can_fail.

Theorem C08_scales_core_total : forall full d t ms, 0 <= t -> (forall a, 0 < get3 a full) ->
  exists l, scales_core full d t ms = Ok l.
Proof. exact scales_core_total. Qed.
Print Assumptions C08_scales_core_total.

(* consecutive levels differ by a factor 1 or 2 per axis, and the sizes are
   accepted by compute_dyadic_downscaling (which infers the factor from size
   equality and re-checks new = ceil_div(old, factor)) *)
Theorem C08_factors_1_or_2 : forall d l a, 0 <= l ->
  let f := if l <? get3 a d then 1 else 2 in
  get3 a (level_factors d (l + 1)) = f * get3 a (level_factors d l).
Proof. exact factors_step. Qed.
Print Assumptions C08_factors_1_or_2.

Theorem C08_sizes_step : forall full d l a, 0 <= l ->
  let f := if l <? get3 a d then 1 else 2 in
  get3 a (level_sizes full d (l + 1)) = ceil_div (get3 a (level_sizes full d l)) f.
Proof. exact sizes_step. Qed.
Print Assumptions C08_sizes_step.

Theorem C08_sizes_accepted_by_pyramid : forall full d l a, 0 <= l ->
  let os := get3 a (level_sizes full d l) in
  let ns := get3 a (level_sizes full d (l + 1)) in
  ns = ceil_div os (if os =? ns then 1 else 2).
Proof. exact sizes_accepted. Qed.
Print Assumptions C08_sizes_accepted_by_pyramid.

(* coarser axes (larger delay) are never ahead, and an axis starts being
   downscaled exactly after its delay *)
Theorem C08_later_start : forall d l a b, get3 a d <= get3 b d ->
  get3 b (level_factors d l) <= get3 a (level_factors d l).
Proof. exact later_start. Qed.
Print Assumptions C08_later_start.

Theorem C08_starts_after_delay : forall d l a,
  1 < get3 a (level_factors d l) <-> get3 a d < l.
Proof. exact starts_after_delay. Qed.
Print Assumptions C08_starts_after_delay.

(* the delay int(round(log2 q)) of a ratio q = m * 2^e, by its exact
   characterisation j - 1/2 < log2 m < j + 1/2 with j = delay - e *)
Theorem C08_round_log2_spec : forall m e,
  let j := round_log2 m e - e in
  0 <= j /\ 2 ^ (2 * j) < 2 * (Zpos m * Zpos m) /\ Zpos m * Zpos m < 2 ^ (2 * j + 1).
Proof. exact round_log2_spec. Qed.
Print Assumptions C08_round_log2_spec.

Theorem C08_round_log2_unique : forall m j, 0 <= j ->
  2 ^ (2 * j) < 2 * (Zpos m * Zpos m) -> Zpos m * Zpos m < 2 ^ (2 * j + 1) ->
  forall e, round_log2 m e - e = j.
Proof. exact round_log2_unique. Qed.
Print Assumptions C08_round_log2_unique.

(* the level count uses the exact ceil(log2(size / target)) *)
Theorem C08_log2_up_ratio_spec : forall a t, 0 < a -> 0 <= t ->
  let k := log2_up_ratio a t in
  a <= 2 ^ (t + k) /\ (forall k', 0 <= t + k' -> a <= 2 ^ (t + k') -> k <= k').
Proof. exact log2_up_ratio_spec. Qed.
Print Assumptions C08_log2_up_ratio_spec.

(* "the last scale fits in at most two target-size chunks per axis" holds
   EXACTLY on last_fits_guard: per axis n <= 1 or n + delay <= level count,
   n = ceil(log2(size/target)).  The code computes max(n - delay). *)
Theorem C08_last_fits_iff : forall full d t ms,
  (forall a, 0 < get3 a full) -> 0 <= t ->
  fits_two_chunks t (level_sizes full d (level_count full d t ms - 1))
  = last_fits_guard full d t ms.
Proof. exact last_fits_iff. Qed.
Print Assumptions C08_last_fits_iff.

Theorem C08_last_fits_on_guard : forall full d t ms,
  (forall a, 0 < get3 a full) -> 0 <= t -> last_fits_guard full d t ms = true ->
  forall a, get3 a (level_sizes full d (level_count full d t ms - 1)) <= 2 * 2 ^ t.
Proof. exact last_fits_on_guard. Qed.
Print Assumptions C08_last_fits_on_guard.

Theorem C08_last_fits_isotropic : forall full t,
  (forall a, 0 < get3 a full) -> 0 <= t -> last_fits_guard full (0, 0, 0) t 0 = true.
Proof. exact last_fits_isotropic. Qed.
Print Assumptions C08_last_fits_isotropic.

Theorem C08_last_fits_refuted :
  exists full d t l,
    last_fits_guard full d t 0 = false /\ scales_core full d t 0 = Ok l /\
    level_count full d t 0 = 1 /\
    fits_two_chunks t (level_sizes full d (level_count full d t 0 - 1)) = false.
Proof. exact last_fits_refuted. Qed.
Print Assumptions C08_last_fits_refuted.

(* keys (since /repo b3f6345: format_length(finest * 2^level)): pairwise
   distinct for every generated scale list, under the executable keys_guard
   which now only states that the binary64 products (finest * 2^l) * unit factor
   are exactly 2^l times the level-0 product, i.e. that no product leaves the
   normal range of binary64 (the harness checks keys_guard = true on every
   generated description).  Not proved: that SFmul by a power of two is exact
   in range, which would remove the guard. *)
Theorem C08_keys_distinct_on_guard : forall full res target ms scales,
  gen_scales full res target ms = Ok scales ->
  keys_guard full res target ms = true ->
  NoDup (map so_key scales).
Proof. exact keys_distinct_on_guard. Qed.
Print Assumptions C08_keys_distinct_on_guard.

Theorem C08_generated_scales_positive : forall full res target ms scales s,
  gen_scales full res target ms = Ok scales -> In s scales ->
  (forall a, 0 < get3 a (so_size s)) /\ (forall a, 0 < get3 a (so_chunks s)).
Proof. exact gen_scales_scale_pos. Qed.
Print Assumptions C08_generated_scales_positive.

(* still refused: a positive resolution below half a picometre *)
Theorem C08_tiny_resolution_refuted :
  gen_scales (1000, 1000, 1000) ((1%positive, 0), (1%positive, 0), (1%positive, -14)) 64 0
  = Crash NotImplementedError.
Proof. exact tiny_resolution_refuted. Qed.
Print Assumptions C08_tiny_resolution_refuted.

(* "accepted by the pyramid computation": still refuted - generated consecutive
   chunk sizes can make compute_dyadic_downscaling raise ZeroDivisionError (old
   chunk 1 along a halved axis), or fall outside compat, in which case
   (C06_ok_iff_compat) it raises: a broadcast ValueError or, for the former
   silent class, the new "Unsupported combination of chunk sizes" ValueError *)
Theorem C08_accepted_by_pyramid_refuted :
  generated_zero_half (3, 3, 3) ((1%positive, 0), (1%positive, 0), (1%positive, 2)) 1 = true /\
  generated_pair_bad gp_full gp_res 4 = true /\
  pyramid_outcome_is_value_error ds_stride gp_full gp_res 4 (levels 325) = true.
Proof.
  exact (conj generated_zero_half_refuted
              (conj (proj1 former_generated_witness_refused)
                    (proj1 (proj2 former_generated_witness_refused)))).
Qed.
Print Assumptions C08_accepted_by_pyramid_refuted.

(* non-vacuity *)
Example C08_example_keys :
  keys_guard (1000, 1000, 10) ((1%positive, 0), (1%positive, 0), (25%positive, 2)) 16 0 = true /\
  exists scales, gen_scales (1000, 1000, 10) ((1%positive, 0), (1%positive, 0), (25%positive, 2)) 16 0 = Ok scales
                 /\ (3 <= length scales)%nat.
Proof. exact keys_guard_example. Qed.

Example C08_example_last_fits : last_fits_guard (1000, 1000, 10) (0, 0, 7) 4 0 = true.
Proof. exact last_fits_example. Qed.

Example C08_former_key_witness_distinct :
  keys_guard (100, 100, 100) (fl_1_2, fl_1_5, fl_0_8) 16 0 = true /\
  match gen_scales (100, 100, 100) (fl_1_2, fl_1_5, fl_0_8) 16 0 with
  | Ok s => negb (has_dup (map so_key s)) && (3 <=? length s)%nat | _ => false end = true.
Proof. exact keys_former_witness_distinct. Qed.

Example C08_former_assert_witness_accepted :
  match gen_scales (1000000, 1000, 1000) ((1%positive, 0), (1%positive, 10), (1%positive, 11)) 2 0 with
  | Ok s => (1 <=? length s)%nat | _ => false end = true.
Proof. exact former_assert_witness_accepted. Qed.

(* generate-scales-info reconciles --type / --encoding with what the input file
   carries.  For EVERY combination (strings are arbitrary, absent or present):
   the encoding is the command line's, else the file's, else raw; when no type
   is given anywhere the type FOLLOWS THAT EFFECTIVE ENCODING (segmentation iff
   compressed_segmentation, wherever the encoding came from); a
   compressed_segmentation result never keeps uint8/uint16 and has a block
   size; any other encoding leaves data type and block size alone. *)
Theorem C08_set_info_params_consistent : forall ct ce it ie dt hb,
  let r := set_info_params ct ce it ie dt hb in
  let ty := fst (fst (fst r)) in let enc := snd (fst (fst r)) in
  let dt' := snd (fst r) in let addblk := snd r in
  enc = match ce with Some e => e | None => match ie with Some e => e | None => s_raw end end /\
  (ct = None -> it = None -> ty = if bytes_eqb enc s_cseg then s_segmentation else s_image) /\
  (bytes_eqb enc s_cseg = true ->
     bytes_eqb dt' s_uint8 = false /\ bytes_eqb dt' s_uint16 = false /\ (hb = true \/ addblk = true)) /\
  (bytes_eqb enc s_cseg = false -> dt' = dt /\ addblk = false).
Proof. exact set_info_params_consistent. Qed.
Print Assumptions C08_set_info_params_consistent.

(* the inherited case: nothing on the command line, no type in the file, the
   file's scale says compressed_segmentation, uint16 data *)
Example C08_example_inherited_cseg :
  set_info_params None None None (Some s_cseg) s_uint16 false = (s_segmentation, s_cseg, s_uint32, true).
Proof. vm_compute. reflexivity. Qed.
