(* C09 — chunk identifiers and shard routing follow the specification for
   every grid.  Statements only; proofs live in theories/Shard/MortonProofs.v. *)
From Coq Require Import NArith ZArith List Lia.
From NGS Require Import Val Ints Morton MortonProofs.
Import ListNotations.
Open Scope N_scope.

(* The loop of compressed_morton_code, on uint64 arithmetic, computes the
   specification's code for every grid whose total bit count fits 64 bits
   (which the constructor enforces) and every coordinate triple. *)
Theorem C09_cmc_is_spec : forall g p,
  length g = 3%nat -> length p = 3%nat ->
  sumN (map spec_nbits g) <= 64 ->
  cmc_loop g p (N.to_nat (maxN (map spec_nbits g))) = cmc_spec g p.
Proof. exact cmc_loop_is_spec. Qed.
Print Assumptions C09_cmc_is_spec.

Theorem C09_cmc_below_total_bits : forall g p,
  length g = 3%nat -> cmc_spec g p < 2 ^ sumN (map spec_nbits g).
Proof. exact cmc_spec_lt. Qed.
Print Assumptions C09_cmc_below_total_bits.

Theorem C09_uncmc_cmc : forall g p, in_grid g p -> uncmc g (cmc_spec g p) = p.
Proof. exact uncmc_cmc. Qed.
Print Assumptions C09_uncmc_cmc.

Theorem C09_cmc_injective : forall g p q,
  in_grid g p -> in_grid g q -> cmc_spec g p = cmc_spec g q -> p = q.
Proof. exact cmc_spec_inj. Qed.
Print Assumptions C09_cmc_injective.

(* Shard and minishard numbers: for ALL bit counts, including sums beyond 64. *)
Theorem C09_routing_is_spec : forall p m s id,
  id < 2 ^ 64 -> m + s < 2 ^ 64 ->
  minishard_key_model p m id = spec_minishard p m id /\
  shard_key_model p m s id = spec_shard p m s id.
Proof. exact routing_is_spec. Qed.
Print Assumptions C09_routing_is_spec.

Theorem C09_shard_name_is_spec : forall s key,
  key < 2 ^ s -> shard_name_model s key = spec_name s key.
Proof. exact shard_name_is_spec. Qed.
Print Assumptions C09_shard_name_is_spec.

Theorem C09_shard_name_parses_back : forall s key,
  key < 2 ^ s -> unhex (spec_name s key) = Some key.
Proof. exact spec_name_unhex. Qed.
Print Assumptions C09_shard_name_parses_back.

(* get_cmc accepts exactly the chunk origins that are on the lattice and in
   the grid, and gives them the specification's identifier. *)
Theorem C09_get_cmc_total_spec : forall cs sz v x y z,
  mk_vspec cs sz = Ok v ->
  get_cmc_model v x y z =
    if on_lattice_in_grid v x y z
    then Ok (cmc_spec (vs_grid v)
               (map Z.to_N [(x / vs_chunk v)%Z; (y / vs_chunk v)%Z; (z / vs_chunk v)%Z]))
    else IOErr.
Proof. exact get_cmc_total_spec. Qed.
Print Assumptions C09_get_cmc_total_spec.

Theorem C09_ids_distinct : forall cs sz v x y z x' y' z' id,
  mk_vspec cs sz = Ok v ->
  get_cmc_model v x y z = Ok id -> get_cmc_model v x' y' z' = Ok id ->
  (x, y, z) = (x', y', z').
Proof. exact get_cmc_inj. Qed.
Print Assumptions C09_ids_distinct.

Theorem C09_header_length : forall m, m < 60 -> header_len_model m = 16 * 2 ^ m.
Proof. exact header_len_small. Qed.
Print Assumptions C09_header_length.

(* non-vacuity: the 3x4x2 grid of the design document *)
Example C09_example :
  exists v, mk_vspec [8; 8; 8]%Z [24; 32; 16]%Z = Ok v /\ vs_grid v = [3; 4; 2] /\
            get_cmc_model v 16 24 8 = Ok 30 /\ in_grid [3; 4; 2] [2; 3; 1].
Proof. eexists; repeat split; try reflexivity; intros [|[|[|d]]] H; simpl; lia. Qed.
