(* C03 — writing then reading a chunk returns the same array; positions off
   the dataset's chunk grid are rejected.  Statements only; proofs in
   theories/Pio/PioProofs.v.  The codec round-trips used as the hypothesis of
   C03_io_refinement are the theorems of C02 (raw and compressed_segmentation). *)
From Coq Require Import NArith ZArith List Lia.
From NGS Require Import Val Ints PioModel PioProofs.
Import ListNotations.
Open Scope Z_scope.

(* validate_chunk_coords accepts exactly the positions of the chunk grid *)
Theorem C03_validate_iff : forall s c,
  sc_voxel_offset s = Some (0, 0, 0) -> Forall pos_triple (sc_chunk_sizes s) ->
  (validate s c = Ok true <-> on_grid s c) /\
  (validate s c = Ok true \/ validate s c = Ok false).
Proof. exact validate_iff. Qed.
Print Assumptions C03_validate_iff.

(* positions that are not on the grid are rejected by both operations, and
   nothing is stored *)
Theorem C03_offgrid_rejected :
  forall (chunk bytes : Type) enc dec scales (st : store bytes) (ch : chunk) k c s,
  find_scale scales k = Some s ->
  sc_voxel_offset s = Some (0, 0, 0) -> Forall pos_triple (sc_chunk_sizes s) ->
  ~ on_grid s c ->
  write_chunk chunk bytes enc scales st ch k c = Crash AssertionError /\
  read_chunk chunk bytes dec scales st k c = Crash AssertionError.
Proof. exact offgrid_rejected. Qed.
Print Assumptions C03_offgrid_rejected.

(* for EVERY sequence of writes and reads over any scales: a read of a valid
   position returns the chunk of the last successful write to that (scale,
   position), whatever was written elsewhere in between; a position never
   written is a data-access error.  The store is the only state, so the same
   holds through a freshly opened handle. *)
Theorem C03_io_refinement :
  forall (chunk bytes : Type) (encode : list N -> chunk -> outcome bytes)
         (decode : list N -> bytes -> triple -> outcome chunk) (shape_of : chunk -> triple),
  (forall k ch b, encode k ch = Ok b -> decode k b (shape_of ch) = Ok ch) ->
  forall scales ops k c,
  Forall (well_shaped chunk shape_of) ops ->
  check_valid scales k c = Ok tt ->
  read_chunk chunk bytes decode scales (fst (run chunk bytes encode decode scales [] ops)) k c
  = match last_written chunk bytes encode scales ops k c None with
    | Some ch => Ok ch
    | None => AccessErr
    end.
Proof. exact io_refinement. Qed.
Print Assumptions C03_io_refinement.

(* non-vacuity: a 100x100x100 volume with 64-chunks; the border chunk is on the grid,
   the negative, beyond-volume and zero-extent ones are not (they were accepted before the fix) *)
Example C03_example :
  let s := {| sc_key := [49]%N; sc_size := (100, 100, 100); sc_chunk_sizes := [(64, 64, 64)];
              sc_voxel_offset := Some (0, 0, 0) |} in
  validate s (64, 100, 0, 64, 0, 64) = Ok true /\
  validate s (-64, 0, 0, 64, 0, 64) = Ok false /\
  validate s (128, 100, 0, 64, 0, 64) = Ok false /\
  validate s (0, 64, 0, 64, 0, 63) = Ok false.
Proof. repeat split. Qed.

(* ---- closed instances: the codec hypothesis discharged by C02/C10 ---- *)
From NGS Require Import Words Arr4 CSegEncode CSegDecode RawCodec LinkCodec LinkProofs.

(* raw encoding, any item size > 0 and channel count: for EVERY sequence of
   writes and reads of (C,Z,Y,X) arrays whose extents match their positions, a
   read returns the last array written there *)
Theorem C03_io_refinement_raw : forall isz nc scales ops k c,
  isz <> 0%N ->
  Forall (well_shaped arr4 arr_shape) ops ->
  check_valid scales k c = Ok tt ->
  read_chunk arr4 (list N) (raw_dec isz nc) scales
    (fst (run arr4 (list N) (raw_enc isz nc) (raw_dec isz nc) scales [] ops)) k c
  = match last_written arr4 (list N) (raw_enc isz nc) scales ops k c None with
    | Some a => Ok a
    | None => AccessErr
    end.
Proof. exact io_refinement_raw. Qed.
Print Assumptions C03_io_refinement_raw.

(* compressed_segmentation, both label types, any block size *)
Theorem C03_io_refinement_cseg : forall dt nc g scales ops k c,
  Forall (well_shaped arr4 arr_shape) ops ->
  check_valid scales k c = Ok tt ->
  read_chunk arr4 (list N) (cseg_dec dt nc g) scales
    (fst (run arr4 (list N) (cseg_enc dt nc g) (cseg_dec dt nc g) scales [] ops)) k c
  = match last_written arr4 (list N) (cseg_enc dt nc g) scales ops k c None with
    | Some a => Ok a
    | None => AccessErr
    end.
Proof. exact io_refinement_cseg. Qed.
Print Assumptions C03_io_refinement_cseg.

(* ---- several handles on one dataset ("by the same or a freshly opened handle") ---- *)
From NGS Require Import PioHandles PioHandlesProofs LinkHandles.

(* invariant of every reachable state: as long as no initialisation overwrites
   an existing info (get_IO_for_new_dataset refuses that by default), every
   live PrecomputedIO object describes the dataset exactly as the stored info *)
Theorem C03_handles_agree :
  forall (info chunk bytes : Type) scales_of check_info encode decode ops (st : hstate info bytes),
  Forall (no_overwrite info chunk) ops -> agree info bytes st ->
  agree info bytes (fst (hrun info chunk bytes scales_of check_info encode decode st ops)).
Proof. exact hrun_agree. Qed.
Print Assumptions C03_handles_agree.

(* refinement: the chunk files after a multi-handle history are those of the
   single-description model (C03_io_refinement) run on the projected history *)
Theorem C03_handles_refine :
  forall (info chunk bytes : Type) scales_of check_info encode decode ops (st : hstate info bytes) i,
  Forall (no_overwrite info chunk) ops -> agree info bytes st -> h_info st = Some i ->
  h_info (fst (hrun info chunk bytes scales_of check_info encode decode st ops)) = Some i /\
  h_chunks (fst (hrun info chunk bytes scales_of check_info encode decode st ops))
  = fst (run chunk bytes (encode i) (decode i) (scales_of i) (h_chunks st)
           (proj info chunk check_info i (length (h_handles st)) ops)).
Proof. exact hrun_refines_run. Qed.
Print Assumptions C03_handles_refine.

(* a read through ANY live handle returns the last chunk written through ANY
   handle (same object, another object, one opened later from the stored info) *)
Theorem C03_handles_read_last_written :
  forall (info chunk bytes : Type) scales_of check_info encode decode (shape_of : chunk -> triple)
         ops (st : hstate info bytes) i h j k c,
  (forall k ch b, encode i k ch = Ok b -> decode i k b (shape_of ch) = Ok ch) ->
  Forall (no_overwrite info chunk) ops -> Forall (hwell_shaped info chunk shape_of) ops ->
  agree info bytes st -> h_info st = Some i -> h_chunks st = [] ->
  nth_error (h_handles (fst (hrun info chunk bytes scales_of check_info encode decode st ops))) h = Some j ->
  check_valid (scales_of i) k c = Ok tt ->
  read_chunk chunk bytes (decode j) (scales_of j)
    (h_chunks (fst (hrun info chunk bytes scales_of check_info encode decode st ops))) k c
  = match last_written chunk bytes (encode i) (scales_of i)
            (proj info chunk check_info i (length (h_handles st)) ops) k c None with
    | Some ch => Ok ch
    | None => AccessErr
    end.
Proof. exact handles_read_last_written. Qed.
Print Assumptions C03_handles_read_last_written.

(* closed instance: per-scale raw / compressed_segmentation codecs of C10 / C02 *)
Theorem C03_handles_codecs :
  forall (check : dinfo -> outcome unit) ops (st : hstate dinfo (list N)) i h j k c,
  d_isz i <> 0%N ->
  Forall (no_overwrite dinfo arr4) ops -> Forall (hwell_shaped dinfo arr4 arr_shape) ops ->
  agree dinfo (list N) st -> h_info st = Some i -> h_chunks st = [] ->
  nth_error (h_handles (fst (hrun dinfo arr4 (list N) d_scales_of check d_encode d_decode st ops))) h = Some j ->
  check_valid (d_scales_of i) k c = Ok tt ->
  read_chunk arr4 (list N) (d_decode j) (d_scales_of j)
    (h_chunks (fst (hrun dinfo arr4 (list N) d_scales_of check d_encode d_decode st ops))) k c
  = match last_written arr4 (list N) (d_encode i) (d_scales_of i)
            (proj dinfo arr4 check i (length (h_handles st)) ops) k c None with
    | Some a => Ok a
    | None => AccessErr
    end.
Proof. exact handles_read_last_written_codecs. Qed.
Print Assumptions C03_handles_codecs.

(* the hypothesis cannot be dropped, and the default second initialisation is refused *)
Example C03_overwrite_breaks_agreement :
  let st := fst (hrun nat nat nat (fun _ => []) (fun _ => Ok tt) (fun _ _ x => Ok x) (fun _ _ x _ => Ok x)
                   (h_empty nat nat) [HNew nat nat 1%nat false; HNew nat nat 2%nat true]) in
  h_info st = Some 2%nat /\ h_handles st = [1%nat; 2%nat] /\ ~ agree nat nat st.
Proof. exact overwrite_breaks_agreement. Qed.

(* ---- from ANY initial store (a destination that already holds chunks) ---- *)
From NGS Require Import PioAnyStore.
Theorem C03_io_refinement_any_store :
  forall (chunk bytes : Type) (encode : list N -> chunk -> outcome bytes)
         (decode : list N -> bytes -> triple -> outcome chunk) (shape_of : chunk -> triple),
  (forall k ch b, encode k ch = Ok b -> decode k b (shape_of ch) = Ok ch) ->
  forall scales (st0 : store bytes) ops k c,
  Forall (well_shaped chunk shape_of) ops ->
  check_valid scales k c = Ok tt ->
  read_chunk chunk bytes decode scales (fst (run chunk bytes encode decode scales st0 ops)) k c
  = match last_written chunk bytes encode scales ops k c None with
    | Some ch => Ok ch
    | None => read_chunk chunk bytes decode scales st0 k c
    end.
Proof. exact io_refinement_any_store. Qed.
Print Assumptions C03_io_refinement_any_store.

(* several handles, from ANY initial chunk store *)
Theorem C03_handles_read_any_store :
  forall (info chunk bytes : Type) (scales_of : info -> list scale) (check_info : info -> outcome unit)
         (encode : info -> list N -> chunk -> outcome bytes)
         (decode : info -> list N -> bytes -> triple -> outcome chunk) (shape_of : chunk -> triple)
         ops (st : hstate info bytes) i h j k c,
  (forall k ch b, encode i k ch = Ok b -> decode i k b (shape_of ch) = Ok ch) ->
  Forall (no_overwrite info chunk) ops -> Forall (hwell_shaped info chunk shape_of) ops ->
  agree info bytes st -> h_info st = Some i ->
  nth_error (h_handles (fst (hrun info chunk bytes scales_of check_info encode decode st ops))) h = Some j ->
  check_valid (scales_of i) k c = Ok tt ->
  read_chunk chunk bytes (decode j) (scales_of j)
    (h_chunks (fst (hrun info chunk bytes scales_of check_info encode decode st ops))) k c
  = match last_written chunk bytes (encode i) (scales_of i)
            (proj info chunk check_info i (length (h_handles st)) ops) k c None with
    | Some ch => Ok ch
    | None => read_chunk chunk bytes (decode i) (scales_of i) (h_chunks st) k c
    end.
Proof. exact handles_read_any_store. Qed.
Print Assumptions C03_handles_read_any_store.
