(* C03 — writing then reading a chunk returns the same array; positions off
   the dataset's chunk grid are rejected.  Statements only; proofs in
   theories/Pio/PioProofs.v.  The codec round-trips used as the hypothesis of
   C03_io_refinement are the theorems of C02 (raw and compressed_segmentation). *)
From Coq Require Import NArith ZArith List Lia.
From NGS Require Import Val Ints PioModel PioProofs.
Import ListNotations.
Open Scope Z_scope.

(* validate_chunk_coords accepts exactly the positions of the chunk grid *)
Theorem C03_validate_iff : forall s c,
  sc_voxel_offset s = Some (0, 0, 0) -> Forall pos_triple (sc_chunk_sizes s) ->
  (validate s c = Ok true <-> on_grid s c) /\
  (validate s c = Ok true \/ validate s c = Ok false).
Proof. exact validate_iff. Qed.
Print Assumptions C03_validate_iff.

(* positions that are not on the grid are rejected by both operations, and
   nothing is stored *)
Theorem C03_offgrid_rejected :
  forall (chunk bytes : Type) enc dec scales (st : store bytes) (ch : chunk) k c s,
  find_scale scales k = Some s ->
  sc_voxel_offset s = Some (0, 0, 0) -> Forall pos_triple (sc_chunk_sizes s) ->
  ~ on_grid s c ->
  write_chunk chunk bytes enc scales st ch k c = Crash AssertionError /\
  read_chunk chunk bytes dec scales st k c = Crash AssertionError.
Proof. exact offgrid_rejected. Qed.
Print Assumptions C03_offgrid_rejected.

(* for EVERY sequence of writes and reads over any scales: a read of a valid
   position returns the chunk of the last successful write to that (scale,
   position), whatever was written elsewhere in between; a position never
   written is a data-access error.  The store is the only state, so the same
   holds through a freshly opened handle. *)
Theorem C03_io_refinement :
  forall (chunk bytes : Type) (encode : list N -> chunk -> outcome bytes)
         (decode : list N -> bytes -> triple -> outcome chunk) (shape_of : chunk -> triple),
  (forall k ch b, encode k ch = Ok b -> decode k b (shape_of ch) = Ok ch) ->
  forall scales ops k c,
  Forall (well_shaped chunk shape_of) ops ->
  check_valid scales k c = Ok tt ->
  read_chunk chunk bytes decode scales (fst (run chunk bytes encode decode scales [] ops)) k c
  = match last_written chunk bytes encode scales ops k c None with
    | Some ch => Ok ch
    | None => AccessErr
    end.
Proof. exact io_refinement. Qed.
Print Assumptions C03_io_refinement.

(* non-vacuity: a 100x100x100 volume with 64-chunks; the border chunk is on the grid,
   the negative, beyond-volume and zero-extent ones are not (they were accepted before the fix) *)
Example C03_example :
  let s := {| sc_key := [49]%N; sc_size := (100, 100, 100); sc_chunk_sizes := [(64, 64, 64)];
              sc_voxel_offset := Some (0, 0, 0) |} in
  validate s (64, 100, 0, 64, 0, 64) = Ok true /\
  validate s (-64, 0, 0, 64, 0, 64) = Ok false /\
  validate s (128, 100, 0, 64, 0, 64) = Ok false /\
  validate s (0, 64, 0, 64, 0, 63) = Ok false.
Proof. repeat split. Qed.

(* ---- closed instances: the codec hypothesis discharged by C02/C10 ---- *)
From NGS Require Import Words Arr4 CSegEncode CSegDecode RawCodec LinkCodec LinkProofs.

(* raw encoding, any item size > 0 and channel count: for EVERY sequence of
   writes and reads of (C,Z,Y,X) arrays whose extents match their positions, a
   read returns the last array written there *)
Theorem C03_io_refinement_raw : forall isz nc scales ops k c,
  isz <> 0%N ->
  Forall (well_shaped arr4 arr_shape) ops ->
  check_valid scales k c = Ok tt ->
  read_chunk arr4 (list N) (raw_dec isz nc) scales
    (fst (run arr4 (list N) (raw_enc isz nc) (raw_dec isz nc) scales [] ops)) k c
  = match last_written arr4 (list N) (raw_enc isz nc) scales ops k c None with
    | Some a => Ok a
    | None => AccessErr
    end.
Proof. exact io_refinement_raw. Qed.
Print Assumptions C03_io_refinement_raw.

(* compressed_segmentation, both label types, any block size *)
Theorem C03_io_refinement_cseg : forall dt nc g scales ops k c,
  Forall (well_shaped arr4 arr_shape) ops ->
  check_valid scales k c = Ok tt ->
  read_chunk arr4 (list N) (cseg_dec dt nc g) scales
    (fst (run arr4 (list N) (cseg_enc dt nc g) (cseg_dec dt nc g) scales [] ops)) k c
  = match last_written arr4 (list N) (cseg_enc dt nc g) scales ops k c None with
    | Some a => Ok a
    | None => AccessErr
    end.
Proof. exact io_refinement_cseg. Qed.
Print Assumptions C03_io_refinement_cseg.
