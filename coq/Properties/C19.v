(* C19 — all-in-one conversion equals the step-by-step pipeline; steps are
   repeatable.  Statements only; proofs in theories/Conv/ConvProofs.v. *)
From Coq Require Import NArith ZArith List Lia.
From NGS Require Import Val Ints PioModel PioProofs VolModel ConvModel ConvProofs.
Import ListNotations.
Open Scope Z_scope.

(* The all-in-one command is the composition of the same library steps as the
   documented sequence; they agree as soon as a command that re-opens the
   dataset reads back the info that was stored (and writing chunks does not
   change it). *)
Theorem C19_all_in_one_eq_steps :
  forall (info dataset vol opts : Type)
         (gen_info : vol -> opts -> info) (fill_scales : info -> info)
         (new_dataset : info -> dataset) (stored_info : dataset -> info)
         (write_volume : vol -> opts -> info -> dataset -> dataset)
         (compute_scales : opts -> info -> dataset -> dataset),
  (forall i, stored_info (new_dataset i) = i) ->
  (forall v o i d, stored_info (write_volume v o i d) = stored_info d) ->
  forall v o,
  all_in_one info dataset vol opts gen_info fill_scales new_dataset write_volume compute_scales v o
  = step_by_step info dataset vol opts gen_info fill_scales new_dataset stored_info write_volume compute_scales v o.
Proof. exact all_in_one_eq_steps. Qed.
Print Assumptions C19_all_in_one_eq_steps.

(* Repeating the volume-writing step on its own output leaves the same
   decoded contents: every valid position reads the same chunk after the
   conversion loop ran twice as after it ran once. *)
Theorem C19_write_volume_repeatable :
  forall (V : Type) (f : V -> V) (vol : Z -> Z -> Z -> Z -> V) (nch : Z) (bytes : Type)
         (encode : list N -> vchunk V -> outcome bytes)
         (decode : list N -> bytes -> triple -> outcome (vchunk V)),
  (forall k ch b, encode k ch = Ok b -> decode k b (vshape V ch) = Ok ch) ->
  forall scales key size cs k c,
  let ops := convert_ops V f vol nch key size cs in
  check_valid scales k c = Ok tt ->
  read_chunk (vchunk V) bytes decode scales
             (fst (run (vchunk V) bytes encode decode scales [] (ops ++ ops))) k c
  = read_chunk (vchunk V) bytes decode scales
             (fst (run (vchunk V) bytes encode decode scales [] ops)) k c.
Proof. exact write_volume_repeatable. Qed.
Print Assumptions C19_write_volume_repeatable.

(* A successful convert-chunks run has written every chunk it was asked to
   produce and each is readable (exit status 0 => complete): this is
   C13_convert_pointwise; for the volume writer it is C01_convert_pointwise. *)

(* ---- closed instance over the I/O layer model of C03 ----
   The two hypotheses above are not assumed but derived: the dataset is the
   state of PioHandles (stored info, chunk files, live PrecomputedIO objects),
   initialisation is get_IO_for_new_dataset on an empty destination, every later
   command opens its own object from the STORED info and writes the chunks of
   C01's convert_ops through it. *)
From NGS Require Import PioHandles LinkPipeline LinkPipelineProofs.

Theorem C19_all_in_one_eq_steps_handles :
  forall (I V bytes : Type) (scales_of : I -> list scale) (check_info : I -> outcome unit)
         (encode : I -> list N -> vchunk V -> outcome bytes)
         (decode : I -> list N -> bytes -> triple -> outcome (vchunk V))
         (f : V -> V) (geom_of : I -> list N * triple * triple * Z)
         (vol_opts : Type)
         (gen_info : pvol V -> vol_opts -> option I) (fill_scales : option I -> option I)
         (compute_scales : vol_opts -> option I -> pds I bytes -> pds I bytes) v o,
  all_in_one (option I) (pds I bytes) (pvol V) vol_opts gen_info fill_scales
             (p_new_dataset I V bytes scales_of check_info encode decode)
             (p_write_volume I V bytes scales_of check_info encode decode f geom_of vol_opts)
             compute_scales v o
  = step_by_step (option I) (pds I bytes) (pvol V) vol_opts gen_info fill_scales
             (p_new_dataset I V bytes scales_of check_info encode decode)
             (p_stored_info I bytes)
             (p_write_volume I V bytes scales_of check_info encode decode f geom_of vol_opts)
             compute_scales v o.
Proof. exact all_in_one_eq_steps_handles. Qed.
Print Assumptions C19_all_in_one_eq_steps_handles.

(* a freshly initialised dataset carries the info it was initialised with, and
   no command other than an initialisation changes it *)
Theorem C19_stored_info_stable :
  forall (I V bytes : Type) scales_of check_info encode decode ops (st : pds I bytes),
  Forall (no_new I V) ops ->
  h_info (fst (p_run I V bytes scales_of check_info encode decode st ops)) = h_info st.
Proof. exact run_no_new_info. Qed.
Print Assumptions C19_stored_info_stable.

(* Repeating a data-writing step on its own output, whatever the destination
   held before the first run (an older generation, another volume): every valid
   position reads the same after the second run as after the first. *)
From NGS Require Import PioAnyStore.
Theorem C19_steps_repeatable_any_store :
  forall (chunk bytes : Type) (encode : list N -> chunk -> outcome bytes)
         (decode : list N -> bytes -> triple -> outcome chunk) (shape_of : chunk -> triple),
  (forall k ch b, encode k ch = Ok b -> decode k b (shape_of ch) = Ok ch) ->
  forall scales (st0 : store bytes) ops k c,
  Forall (well_shaped chunk shape_of) ops ->
  check_valid scales k c = Ok tt ->
  read_chunk chunk bytes decode scales (fst (run chunk bytes encode decode scales st0 (ops ++ ops))) k c
  = read_chunk chunk bytes decode scales (fst (run chunk bytes encode decode scales st0 ops)) k c.
Proof. exact repeat_any_store. Qed.
Print Assumptions C19_steps_repeatable_any_store.
