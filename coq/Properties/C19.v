(* C19 — all-in-one conversion equals the step-by-step pipeline; steps are
   repeatable.  Statements only; proofs in theories/Conv/ConvProofs.v. *)
From Coq Require Import NArith ZArith List Lia.
From NGS Require Import Val Ints PioModel PioProofs VolModel ConvModel ConvProofs.
Import ListNotations.
Open Scope Z_scope.

(* The all-in-one command is the composition of the same library steps as the
   documented sequence; they agree as soon as a command that re-opens the
   dataset reads back the info that was stored (and writing chunks does not
   change it). *)
Theorem C19_all_in_one_eq_steps :
  forall (info dataset vol opts : Type)
         (gen_info : vol -> opts -> info) (fill_scales : info -> info)
         (new_dataset : info -> dataset) (stored_info : dataset -> info)
         (write_volume : vol -> opts -> info -> dataset -> dataset)
         (compute_scales : opts -> info -> dataset -> dataset),
  (forall i, stored_info (new_dataset i) = i) ->
  (forall v o i d, stored_info (write_volume v o i d) = stored_info d) ->
  forall v o,
  all_in_one info dataset vol opts gen_info fill_scales new_dataset write_volume compute_scales v o
  = step_by_step info dataset vol opts gen_info fill_scales new_dataset stored_info write_volume compute_scales v o.
Proof. exact all_in_one_eq_steps. Qed.
Print Assumptions C19_all_in_one_eq_steps.

(* Repeating the volume-writing step on its own output leaves the same
   decoded contents: every valid position reads the same chunk after the
   conversion loop ran twice as after it ran once. *)
Theorem C19_write_volume_repeatable :
  forall (V : Type) (f : V -> V) (vol : Z -> Z -> Z -> Z -> V) (nch : Z) (bytes : Type)
         (encode : list N -> vchunk V -> outcome bytes)
         (decode : list N -> bytes -> triple -> outcome (vchunk V)),
  (forall k ch b, encode k ch = Ok b -> decode k b (vshape V ch) = Ok ch) ->
  forall scales key size cs k c,
  let ops := convert_ops V f vol nch key size cs in
  check_valid scales k c = Ok tt ->
  read_chunk (vchunk V) bytes decode scales
             (fst (run (vchunk V) bytes encode decode scales [] (ops ++ ops))) k c
  = read_chunk (vchunk V) bytes decode scales
             (fst (run (vchunk V) bytes encode decode scales [] ops)) k c.
Proof. exact write_volume_repeatable. Qed.
Print Assumptions C19_write_volume_repeatable.

(* A successful convert-chunks run has written every chunk it was asked to
   produce and each is readable (exit status 0 => complete): this is
   C13_convert_pointwise; for the volume writer it is C01_convert_pointwise. *)
