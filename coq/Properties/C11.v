(* C11 -- data-type conversion rounds to nearest and saturates, never wraps.
   Statements only; proofs live in theories/Num/ConvertProofs.v (integers,
   buffer modes, witnesses) and theories/Num/ConvertFloatProofs.v (floats,
   through Flocq).  Model: theories/Num/Convert.v. *)
From Coq Require Import ZArith QArith Reals List.
From Coq Require Import SpecFloat.
From Flocq Require Import Core BinarySingleNaN.
From NGS Require Import Val DType FloatModel Convert ConvertProofs FloatBridge ConvertFloatProofs.
Import ListNotations.
Close Scope Q_scope.
Close Scope R_scope.
Open Scope Z_scope.

(* (1) integer -> integer: exact saturation for ALL integer pairs (signed ->
   uint64 included, which no longer goes through float64) and ALL values of
   the input type. *)
Theorem C11_int_to_int_exact : forall i o v,
  is_int i = true -> is_int o = true -> in_range i v ->
  convert_scalar i o (NI v) = NI (clamp o v).
Proof. exact int_to_int_exact. Qed.
Print Assumptions C11_int_to_int_exact.

(* the work type of an integer pair: NumPy's promotion, except signed -> uint64
   (and uint64 -> signed), where it is the input type *)
Theorem C11_int_work_pairs : forall i o,
  is_int i = true -> is_int o = true ->
  work_dtype i o =
    if is_signed i && dtype_eqb o U64 || dtype_eqb i U64 && is_signed o then i else promote i o.
Proof. exact int_work_pairs. Qed.
Print Assumptions C11_int_work_pairs.

(* (2) float -> unsigned integer: round half to even, then saturate -- for
   EVERY finite float32/float64 and every unsigned target; values at and above
   2^64 saturate to 2^64-1 (saturate_top). *)
Theorem C11_float_to_int_nearest : forall i o x,
  is_int i = false -> is_uint o = true ->
  valid_binary (f_prec (fmt_of i)) (f_emax (fmt_of i)) x = true -> is_finite x = true ->
  convert_scalar i o (NF x) = nearest_sat o (SF2Q x).
Proof. exact float_to_int_nearest. Qed.
Print Assumptions C11_float_to_int_nearest.

(* the two repaired regions, on their former witnesses *)
Theorem C11_repaired_examples :
  convert_scalar F64 U64 (NF (of_bits b64 4895412794951729152)) = NI (2 ^ 64 - 1) /\
  convert_scalar F32 U64 (NF (of_bits b32 1602224128)) = NI (2 ^ 64 - 1) /\
  convert_scalar I64 U64 (NI (2 ^ 53 + 1)) = NI (2 ^ 53 + 1) /\
  convert_scalar I64 U64 (NI (2 ^ 63 - 1)) = NI (2 ^ 63 - 1) /\
  convert_scalar I8 U64 (NI (-5)) = NI 0.
Proof. exact repaired_examples. Qed.
Print Assumptions C11_repaired_examples.

(* float64 -> float32 overflows to infinity instead of saturating *)
Theorem C11_float32_overflow_refuted :
  exists i o v, float32_overflow_guard i o v = false /\ num_finite v = true /\
    convert_scalar i o v <> nearest_sat o (num2Q v) /\
    convert_scalar i o v = NF (S754_infinity false) /\
    num_encode F32 (nearest_sat o (num2Q v)) = 2139095039.
Proof. exact float32_overflow_refuted. Qed.
Print Assumptions C11_float32_overflow_refuted.

(* (3) float64 -> float32 is round-to-nearest-even (Flocq's [round ... ZnearestE]
   on the binary32 format) when that does not overflow, else +-infinity *)
Theorem C11_to_float32_nearest : forall x,
  valid_binary 53 1024 x = true -> is_finite x = true ->
  let r := round radix2 (SpecFloat.fexp 24 128) ZnearestE (SF2R radix2 x) in
  if Rlt_bool (Rabs r) (bpow radix2 128)
  then exists y, convert_scalar F64 F32 (NF x) = NF y /\ Val 24 128 y r
  else convert_scalar F64 F32 (NF x) = NF (S754_infinity (sf_sign x)).
Proof. exact to_float32_nearest. Qed.
Print Assumptions C11_to_float32_nearest.

(* (4) buffer modes *)
Theorem C11_preserve_input_kept : forall i o wr nat_ l,
  snd (convert i o true wr nat_ l) = l.
Proof. exact preserve_input_kept. Qed.
Print Assumptions C11_preserve_input_kept.

Theorem C11_result_mode_independent : forall i o p1 w1 n1 p2 w2 n2 l,
  fst (convert i o p1 w1 n1 l) = fst (convert i o p2 w2 n2 l).
Proof. exact result_mode_independent. Qed.
Print Assumptions C11_result_mode_independent.

Theorem C11_input_after_char : forall i o p wr nat_ l,
  snd (convert i o p wr nat_ l) =
    if negb p && (round_flag i o || clip_flag i o) && dtype_eqb (work_dtype i o) i && wr && nat_
    then map (work_value i o) l else l.
Proof. exact input_after_char. Qed.
Print Assumptions C11_input_after_char.

(* (5) non-finite values and signed zeros with a floating-point output type:
   no rounding, clipping or top patch applies, and +inf -> +inf, -inf -> -inf,
   NaN -> NaN (payload aside: the model has one NaN), -0.0 -> -0.0; the caller's
   buffer is not written.  (The open finding float64-to-float32-overflows-to-inf
   concerns FINITE float64 values beyond the float32 range.) *)
Theorem C11_float_output_preserves_nonfinite : forall i o x,
  is_int i = false -> is_int o = false -> special_float x = true ->
  round_flag i o = false /\ clip_flag i o = false /\ saturate_top i o = false /\
  convert_scalar i o (NF x) = NF x /\
  forall p wr nat_ l, snd (convert i o p wr nat_ l) = l.
Proof. exact float_output_preserves_nonfinite. Qed.
Print Assumptions C11_float_output_preserves_nonfinite.

Example C11_float_output_nonfinite_example :
  convert_scalar F64 F32 (NF (S754_infinity false)) = NF (S754_infinity false) /\
  convert_scalar F64 F32 (NF (S754_infinity true)) = NF (S754_infinity true) /\
  convert_scalar F32 F32 (NF S754_nan) = NF S754_nan /\
  convert_scalar F64 F32 (NF (S754_zero true)) = NF (S754_zero true) /\
  num_encode F32 (convert_scalar F64 F32 (num_decode F64 9218868437227405312)) = 2139095040 /\
  num_encode F32 (convert_scalar F64 F32 (num_decode F64 9223372036854775808)) = 2147483648.
Proof. exact float_output_nonfinite_example. Qed.

(* non-vacuity *)
Example C11_examples :
  convert_scalar I16 U8 (NI (-300)) = NI 0 /\
  convert_scalar F64 U8 (NF (of_bits b64 4612811918334230528)) = NI 2 /\
  snd (convert F64 U8 false true true [NF (of_bits b64 4643211215818981376)])
    = [NF (of_bits b64 4643176031446892544)].
Proof. repeat split; vm_compute; reflexivity. Qed.
