(* C11 -- data-type conversion rounds to nearest and saturates, never wraps.
   Statements only; proofs live in theories/Num/ConvertProofs.v (integers,
   buffer modes, witnesses) and theories/Num/ConvertFloatProofs.v (floats,
   through Flocq).  Model: theories/Num/Convert.v. *)
From Coq Require Import ZArith QArith Reals List.
From Coq Require Import SpecFloat.
From Flocq Require Import Core BinarySingleNaN.
From NGS Require Import Val DType FloatModel Convert ConvertProofs FloatBridge ConvertFloatProofs.
Import ListNotations.
Close Scope Q_scope.
Close Scope R_scope.
Open Scope Z_scope.

(* (1) integer -> integer through an integer work type: exact saturation for
   ALL values of the input type (every integer pair except signed -> uint64). *)
Theorem C11_int_to_int_exact : forall i o v,
  is_int i = true -> is_int o = true -> is_int (promote i o) = true ->
  in_range i v ->
  convert_scalar i o (NI v) = NI (clamp o v).
Proof. exact int_to_int_exact. Qed.
Print Assumptions C11_int_to_int_exact.

Theorem C11_int_work_pairs : forall i o,
  is_int i = true -> is_int o = true ->
  is_int (promote i o) = negb (is_signed i && dtype_eqb o U64 || dtype_eqb i U64 && is_signed o).
Proof. exact int_work_pairs. Qed.
Print Assumptions C11_int_work_pairs.

(* (2) float -> unsigned integer: round half to even, then saturate -- for
   every finite float32/float64 outside the region "output uint64 and value >=
   2^64" (uint64_top_guard). *)
Theorem C11_float_to_int_nearest_on_guard : forall i o x,
  is_int i = false -> is_uint o = true ->
  valid_binary (f_prec (fmt_of i)) (f_emax (fmt_of i)) x = true -> is_finite x = true ->
  uint64_top_guard i o (NF x) = true ->
  convert_scalar i o (NF x) = nearest_sat o (SF2Q x).
Proof. exact float_to_int_nearest_on_guard. Qed.
Print Assumptions C11_float_to_int_nearest_on_guard.

(* ... and inside that region the conversion fails everywhere: 0 instead of 2^64-1 *)
Theorem C11_uint64_top_refuted :
  exists i o v, uint64_top_guard i o v = false /\ num_finite v = true /\
    convert_scalar i o v <> nearest_sat o (num2Q v) /\
    convert_scalar i o v = NI 0 /\ nearest_sat o (num2Q v) = NI (2 ^ 64 - 1).
Proof. exact uint64_top_refuted. Qed.
Print Assumptions C11_uint64_top_refuted.

Theorem C11_uint64_top_everywhere : forall i x,
  is_int i = false ->
  valid_binary (f_prec (fmt_of i)) (f_emax (fmt_of i)) x = true -> is_finite x = true ->
  uint64_top_guard i U64 (NF x) = false ->
  convert_scalar i U64 (NF x) = NI 0 /\ nearest_sat U64 (SF2Q x) = NI (2 ^ 64 - 1).
Proof. exact uint64_top_everywhere. Qed.
Print Assumptions C11_uint64_top_everywhere.

(* int64 -> uint64 goes through float64 and loses exactness above 2^53 *)
Theorem C11_int64_via_float_refuted :
  exists i o v, int64_via_float_guard i o v = false /\ num_ok i v = true /\
    convert_scalar i o v <> nearest_sat o (num2Q v) /\
    convert_scalar i o v = NI (2 ^ 53) /\ nearest_sat o (num2Q v) = NI (2 ^ 53 + 1).
Proof. exact int64_via_float_refuted. Qed.
Print Assumptions C11_int64_via_float_refuted.

(* float64 -> float32 overflows to infinity instead of saturating *)
Theorem C11_float32_overflow_refuted :
  exists i o v, float32_overflow_guard i o v = false /\ num_finite v = true /\
    convert_scalar i o v <> nearest_sat o (num2Q v) /\
    convert_scalar i o v = NF (S754_infinity false) /\
    num_encode F32 (nearest_sat o (num2Q v)) = 2139095039.
Proof. exact float32_overflow_refuted. Qed.
Print Assumptions C11_float32_overflow_refuted.

(* (3) float64 -> float32 is round-to-nearest-even (Flocq's [round ... ZnearestE]
   on the binary32 format) when that does not overflow, else +-infinity *)
Theorem C11_to_float32_nearest : forall x,
  valid_binary 53 1024 x = true -> is_finite x = true ->
  let r := round radix2 (SpecFloat.fexp 24 128) ZnearestE (SF2R radix2 x) in
  if Rlt_bool (Rabs r) (bpow radix2 128)
  then exists y, convert_scalar F64 F32 (NF x) = NF y /\ Val 24 128 y r
  else convert_scalar F64 F32 (NF x) = NF (S754_infinity (sf_sign x)).
Proof. exact to_float32_nearest. Qed.
Print Assumptions C11_to_float32_nearest.

(* (4) buffer modes *)
Theorem C11_preserve_input_kept : forall i o wr nat_ l,
  snd (convert i o true wr nat_ l) = l.
Proof. exact preserve_input_kept. Qed.
Print Assumptions C11_preserve_input_kept.

Theorem C11_result_mode_independent : forall i o p1 w1 n1 p2 w2 n2 l,
  fst (convert i o p1 w1 n1 l) = fst (convert i o p2 w2 n2 l).
Proof. exact result_mode_independent. Qed.
Print Assumptions C11_result_mode_independent.

Theorem C11_input_after_char : forall i o p wr nat_ l,
  snd (convert i o p wr nat_ l) =
    if negb p && (round_flag i o || clip_flag i o) && dtype_eqb (promote i o) i && wr && nat_
    then map (work_value i o) l else l.
Proof. exact input_after_char. Qed.
Print Assumptions C11_input_after_char.

(* non-vacuity *)
Example C11_examples :
  convert_scalar I16 U8 (NI (-300)) = NI 0 /\
  convert_scalar F64 U8 (NF (of_bits b64 4612811918334230528)) = NI 2 /\
  snd (convert F64 U8 false true true [NF (of_bits b64 4643211215818981376)])
    = [NF (of_bits b64 4643176031446892544)].
Proof. repeat split; vm_compute; reflexivity. Qed.
