(* Proofs for Properties/C09.v: the uint64 model of the compressed Morton code
   and of the shard routing agrees with the specification functions. *)
From Coq Require Import NArith ZArith List Bool Lia.
From NGS Require Import Val Ints Morton.
Import ListNotations.
Open Scope N_scope.

(* ---------- general helpers on N, powers of two and bits ---------- *)

Lemma pow2_pos : forall k, 0 < 2 ^ k.
Proof. intro k. apply N.neq_0_lt_0, N.pow_nonzero. discriminate. Qed.

Lemma pow2_nz : forall k, 2 ^ k <> 0.
Proof. intro k. apply N.pow_nonzero. discriminate. Qed.

Lemma two64_eq : two64 = 2 ^ 64.
Proof. reflexivity. Qed.

Lemma max64_ones : max64 = N.ones 64.
Proof. reflexivity. Qed.

Lemma pow2_split : forall k, k <= 64 -> 2 ^ k * 2 ^ (64 - k) = 2 ^ 64.
Proof.
  intros k H. rewrite <- N.pow_add_r. f_equal. lia.
Qed.

Lemma pow2_le_two64 : forall k, k <= 64 -> 2 ^ k <= 2 ^ 64.
Proof. intros. apply N.pow_le_mono_r; [discriminate | assumption]. Qed.

Lemma pow2_lt_two64 : forall k, k < 64 -> 2 ^ k < 2 ^ 64.
Proof. intros. apply N.pow_lt_mono_r; [reflexivity | assumption]. Qed.

Lemma pow2_ge_two64 : forall k, 64 <= k -> 2 ^ 64 <= 2 ^ k.
Proof. intros. apply N.pow_le_mono_r; [discriminate | assumption]. Qed.

(* shr64 is the plain quotient on uint64 values, whatever the shift *)
Lemma shr64_div : forall a k, a < 2 ^ 64 -> shr64 a k = a / 2 ^ k.
Proof.
  intros a k Ha. unfold shr64. destruct (N.leb_spec 64 k) as [H|H]; [|reflexivity].
  symmetry. apply N.div_small. pose proof (pow2_ge_two64 k H). lia.
Qed.

Lemma shr64_lt : forall a k, a < 2 ^ 64 -> a / 2 ^ k < 2 ^ 64.
Proof.
  intros a k Ha. eapply N.le_lt_trans; [|exact Ha].
  apply N.div_le_upper_bound; [apply pow2_nz|].
  pose proof (pow2_pos k). nia.
Qed.

(* ~(MAX >> k << k) is the mask of the k low bits, saturating at 64 *)
Lemma mask_low_ones : forall k, mask_low k = N.ones (N.min k 64).
Proof.
  intro k. unfold mask_low, not64, shl64, shr64.
  destruct (N.leb_spec 64 k) as [H|H].
  - rewrite N.min_r by assumption. rewrite N.sub_0_r. reflexivity.
  - rewrite N.min_l by lia.
    pose proof (pow2_split k ltac:(lia)) as Hs.
    pose proof (pow2_pos k) as Hk. pose proof (pow2_pos (64 - k)) as Hk'.
    assert (Hq : max64 / 2 ^ k = 2 ^ (64 - k) - 1).
    { symmetry. apply N.div_unique with (r := 2 ^ k - 1); [lia|].
      unfold max64. rewrite two64_eq, <- Hs. nia. }
    rewrite Hq.
    assert (Hm : (2 ^ (64 - k) - 1) * 2 ^ k = 2 ^ 64 - 2 ^ k) by nia.
    rewrite Hm. rewrite N.mod_small by (rewrite two64_eq; lia).
    rewrite N.ones_equiv. unfold max64. rewrite two64_eq.
    pose proof (pow2_lt_two64 k H). lia.
Qed.

Lemma land_mask_low : forall k h, h < 2 ^ 64 -> and64 (mask_low k) h = h mod 2 ^ k.
Proof.
  intros k h Hh. unfold and64. rewrite mask_low_ones, N.land_comm, N.land_ones.
  destruct (N.le_ge_cases k 64) as [H|H].
  - rewrite N.min_l by assumption. reflexivity.
  - rewrite N.min_r by assumption.
    pose proof (pow2_ge_two64 k H).
    rewrite !N.mod_small by lia. reflexivity.
Qed.

Lemma not64_ones : forall m, m <= 64 -> not64 (N.ones m) = N.ldiff (N.ones 64) (N.ones m).
Proof.
  intros m H. unfold not64. rewrite max64_ones.
  apply N.sub_nocarry_ldiff. apply N.bits_inj. intro i.
  rewrite N.ldiff_spec, N.bits_0.
  destruct (N.lt_ge_cases i m) as [Hi|Hi].
  - rewrite !N.ones_spec_low by lia. reflexivity.
  - rewrite (N.ones_spec_high m) by lia. reflexivity.
Qed.

Lemma testbit_ones : forall n i, N.testbit (N.ones n) i = (i <? n).
Proof.
  intros n i. destruct (N.ltb_spec i n).
  - apply N.ones_spec_low; assumption.
  - apply N.ones_spec_high; assumption.
Qed.

Lemma testbit_high : forall a n i, a < 2 ^ n -> n <= i -> N.testbit a i = false.
Proof.
  intros a n i Ha Hi. destruct (N.eq_dec a 0) as [->|Hz]; [apply N.bits_0|].
  apply N.bits_above_log2.
  assert (N.log2 a < n) by (apply N.log2_lt_pow2; lia). lia.
Qed.

(* ---------- routing ---------- *)

Lemma routing_is_spec : forall p m s id,
  id < 2 ^ 64 -> m + s < 2 ^ 64 ->
  minishard_key_model p m id = spec_minishard p m id /\
  shard_key_model p m s id = spec_shard p m s id.
Proof.
  intros p m s id Hid Hms.
  unfold minishard_key_model, shard_key_model, spec_minishard, spec_shard,
    hash_model, spec_hash, minishard_mask.
  rewrite (shr64_div id p Hid).
  set (h := id / 2 ^ p).
  assert (Hh : h < 2 ^ 64) by (apply shr64_lt; assumption).
  split.
  - apply land_mask_low; assumption.
  - unfold shard_mask, minishard_mask.
    assert (Ha : add64 m s = m + s)
      by (unfold add64; apply N.mod_small; rewrite two64_eq; assumption).
    rewrite Ha.
    destruct (N.le_gt_cases 64 m) as [Hm|Hm].
    + (* everything is shifted out *)
      unfold shr64 at 1. destruct (N.leb_spec 64 m); [|lia].
      pose proof (pow2_ge_two64 m Hm).
      rewrite (N.div_small h) by lia.
      symmetry. apply N.mod_0_l, pow2_nz.
    + unfold shr64. destruct (N.leb_spec 64 m); [lia|].
      rewrite !mask_low_ones. rewrite (N.min_l m 64) by lia.
      rewrite not64_ones by lia. unfold and64.
      apply N.bits_inj. intro j.
      rewrite N.div_pow2_bits, !N.land_spec, N.ldiff_spec, !testbit_ones.
      destruct (N.lt_ge_cases j s) as [Hj|Hj].
      * rewrite N.mod_pow2_bits_low by assumption. rewrite N.div_pow2_bits.
        destruct (N.lt_ge_cases (j + m) 64) as [Hjm|Hjm].
        -- replace (j + m <? N.min (m + s) 64) with true
             by (symmetry; apply N.ltb_lt; lia).
           replace (j + m <? 64) with true by (symmetry; apply N.ltb_lt; lia).
           replace (j + m <? m) with false by (symmetry; apply N.ltb_ge; lia).
           reflexivity.
        -- rewrite (testbit_high h 64 (j + m)) by assumption.
           apply andb_false_r.
      * rewrite N.mod_pow2_bits_high by assumption.
        replace (j + m <? N.min (m + s) 64) with false
          by (symmetry; apply N.ltb_ge; lia).
        reflexivity.
Qed.

Lemma header_len_small : forall m, m < 60 -> header_len_model m = 16 * 2 ^ m.
Proof.
  intros m H. unfold header_len_model, mul64, pow2_64.
  destruct (N.leb_spec 64 m); [lia|].
  assert (H16 : 2 ^ m * 16 = 2 ^ (m + 4)) by (rewrite N.pow_add_r; reflexivity).
  rewrite N.mod_small; [lia|].
  rewrite H16, two64_eq. apply N.pow_lt_mono_r; [reflexivity | lia].
Qed.

(* ---------- bit lists ---------- *)

Lemma from_bits_app : forall l b,
  from_bits (l ++ [b]) = from_bits l + N.b2n b * 2 ^ N.of_nat (length l).
Proof.
  induction l as [|a l IH]; intro b.
  - cbn [app from_bits length]. change (2 ^ N.of_nat 0) with 1. lia.
  - cbn [app from_bits length]. rewrite IH, Nat2N.inj_succ, N.pow_succ_r'. lia.
Qed.

Lemma from_bits_lt : forall l, from_bits l < 2 ^ N.of_nat (length l).
Proof.
  induction l as [|a l IH].
  - cbn. lia.
  - cbn [from_bits length]. rewrite Nat2N.inj_succ, N.pow_succ_r'.
    destruct a; cbn [N.b2n]; lia.
Qed.

Lemma to_bits_from_bits : forall l, to_bits (length l) (from_bits l) = l.
Proof.
  induction l as [|a l IH]; [reflexivity|].
  cbn [length from_bits to_bits].
  rewrite N.odd_add_mul_2, N.div2_div.
  assert (Hd : (N.b2n a + 2 * from_bits l) / 2 = from_bits l).
  { symmetry. apply N.div_unique with (r := N.b2n a); [destruct a; cbn; lia | lia]. }
  rewrite Hd, IH. destruct a; reflexivity.
Qed.

(* OR of disjoint bit ranges is addition *)
Lemma lor_disjoint : forall a b j, a < 2 ^ j -> N.lor a (b * 2 ^ j) = a + b * 2 ^ j.
Proof.
  intros a b j Ha.
  assert (Hl : N.land a (b * 2 ^ j) = 0).
  { apply N.bits_inj. intro i. rewrite N.land_spec, N.bits_0.
    destruct (N.lt_ge_cases i j) as [Hi|Hi].
    - rewrite N.mul_pow2_bits_low by assumption. apply andb_false_r.
    - rewrite (testbit_high a j i) by assumption. reflexivity. }
  rewrite N.add_nocarry_lxor by assumption. symmetry. apply N.lxor_lor. assumption.
Qed.

Lemma land_1_testbit : forall x i, N.land (x / 2 ^ i) 1 = N.b2n (N.testbit x i).
Proof.
  intros x i. rewrite N.testbit_spec'.
  exact (N.land_ones (x / 2 ^ i) 1).
Qed.

Lemma pow2_ltb_log2_up : forall i g, (2 ^ i <? g) = (i <? N.log2_up g).
Proof.
  intros i g. destruct (N.eq_dec g 0) as [->|Hg].
  - change (N.log2_up 0) with 0.
    destruct (N.ltb_spec (2 ^ i) 0); [lia|]. destruct (N.ltb_spec i 0); [lia|]. reflexivity.
  - pose proof (N.log2_up_lt_pow2 g i ltac:(lia)) as [H1 H2].
    destruct (N.ltb_spec (2 ^ i) g), (N.ltb_spec i (N.log2_up g)); try reflexivity.
    + specialize (H1 H). lia.
    + specialize (H2 H0). lia.
Qed.

Lemma nth_spec_nbits : forall g d, nth d (map spec_nbits g) 0 = spec_nbits (nth d g 0).
Proof. intros g d. exact (map_nth spec_nbits g 0 d). Qed.

(* ---------- live pairs ---------- *)

Definition livef (nb : list N) (pr : nat * nat) : bool :=
  let '(i, d) := pr in N.of_nat i <? nth d nb 0.
Definition bitf (p : list N) (pr : nat * nat) : bool :=
  let '(i, d) := pr in N.testbit (nth d p 0) (N.of_nat i).
Definition level (i : nat) : list (nat * nat) := [(i, 0%nat); (i, 1%nat); (i, 2%nat)].

Lemma filter_flat_map : forall {A B} (f : B -> bool) (g : A -> list B) l,
  filter f (flat_map g l) = flat_map (fun x => filter f (g x)) l.
Proof.
  intros A B f g l. induction l as [|x l IH]; [reflexivity|].
  cbn [flat_map]. rewrite filter_app, IH. reflexivity.
Qed.

Lemma live_pairs_filter : forall nb,
  live_pairs nb = filter (livef nb) (flat_map level (seq 0 (N.to_nat (maxN nb)))).
Proof. intro nb. rewrite filter_flat_map. reflexivity. Qed.

Lemma cmc_bits_eq : forall nb p, cmc_bits nb p = map (bitf p) (live_pairs nb).
Proof. reflexivity. Qed.

Lemma live_len_upto : forall a b c n,
  length (filter (livef [a; b; c]) (flat_map level (seq 0 n))) =
  N.to_nat (N.min (N.of_nat n) a + N.min (N.of_nat n) b + N.min (N.of_nat n) c).
Proof.
  intros a b c n. induction n as [|n IH].
  - cbn [seq flat_map filter length]. lia.
  - rewrite seq_S, flat_map_app, filter_app, app_length, IH.
    cbn [flat_map level app filter livef nth plus].
    destruct (N.ltb_spec (N.of_nat n) a), (N.ltb_spec (N.of_nat n) b),
      (N.ltb_spec (N.of_nat n) c); cbn [length]; lia.
Qed.

Lemma live_len : forall nb, length nb = 3%nat ->
  length (live_pairs nb) = N.to_nat (sumN nb).
Proof.
  intros nb H. destruct nb as [|a [|b [|c [|]]]]; try discriminate.
  rewrite live_pairs_filter, live_len_upto. cbn [maxN sumN fold_right]. lia.
Qed.

Lemma cmc_spec_lt : forall g p,
  length g = 3%nat -> cmc_spec g p < 2 ^ sumN (map spec_nbits g).
Proof.
  intros g p Hg. unfold cmc_spec.
  pose proof (from_bits_lt (cmc_bits (map spec_nbits g) p)) as H.
  rewrite cmc_bits_eq, map_length, live_len in H by (rewrite map_length; assumption).
  rewrite N2Nat.id in H. exact H.
Qed.

(* ---------- the uint64 loop ---------- *)

Definition st (bs : list bool) : N * N := (from_bits bs, N.of_nat (length bs)).
Definition stepP (g p : list N) (acc : N * N) (pr : nat * nat) : N * N :=
  cmc_step g p (N.of_nat (fst pr)) acc (snd pr).

Lemma cmc_step_st : forall g p i d bs,
  (forall d, nth d (map spec_nbits g) 0 <= 64) ->
  (length bs + length (filter (livef (map spec_nbits g)) [(i, d)]) <= 64)%nat ->
  cmc_step g p (N.of_nat i) (st bs) d =
  st (bs ++ map (bitf p) (filter (livef (map spec_nbits g)) [(i, d)])).
Proof.
  intros g p i d bs Hnb Hlen. unfold cmc_step, st.
  cbn [filter livef] in *. rewrite nth_spec_nbits in *. unfold spec_nbits in *.
  rewrite pow2_ltb_log2_up.
  destruct (N.ltb_spec (N.of_nat i) (N.log2_up (nth d g 0))) as [Hlive|Hdead].
  - cbn [length map bitf] in *.
    specialize (Hnb d). rewrite nth_spec_nbits in Hnb. unfold spec_nbits in Hnb.
    assert (Hj : N.of_nat (length bs) < 64) by lia.
    unfold shr64. destruct (N.leb_spec 64 (N.of_nat i)); [lia|].
    unfold and64. rewrite land_1_testbit.
    set (b := N.testbit (nth d p 0) (N.of_nat i)).
    unfold shl64. destruct (N.leb_spec 64 (N.of_nat (length bs))); [lia|].
    pose proof (pow2_lt_two64 _ Hj) as Hp.
    pose proof (from_bits_lt bs) as Hc.
    rewrite N.mod_small by (rewrite two64_eq; destruct b; cbn [N.b2n]; lia).
    unfold or64. rewrite lor_disjoint by assumption.
    rewrite from_bits_app, app_length. cbn [length].
    unfold add64. rewrite N.mod_small by (rewrite two64_eq; lia).
    f_equal. lia.
  - cbn [map]. rewrite app_nil_r. reflexivity.
Qed.

Lemma fold_pairs_st : forall g p,
  (forall d, nth d (map spec_nbits g) 0 <= 64) ->
  forall L bs,
  (length bs + length (filter (livef (map spec_nbits g)) L) <= 64)%nat ->
  fold_left (stepP g p) L (st bs) =
  st (bs ++ map (bitf p) (filter (livef (map spec_nbits g)) L)).
Proof.
  intros g p Hnb L. induction L as [|[i d] L IH]; intros bs Hlen.
  - cbn [filter map fold_left]. rewrite app_nil_r. reflexivity.
  - change ((i, d) :: L) with ([(i, d)] ++ L) in *.
    rewrite filter_app, app_length in Hlen.
    rewrite filter_app, map_app, app_assoc.
    cbn [app fold_left]. unfold stepP at 2. cbn [fst snd].
    rewrite cmc_step_st by (assumption || lia).
    apply IH. rewrite app_length, map_length. lia.
Qed.

Lemma outer_fold : forall g p n s acc,
  fold_left (fun acc i => fold_left (cmc_step g p i) [0%nat; 1%nat; 2%nat] acc)
            (nseq (N.of_nat s) n) acc =
  fold_left (stepP g p) (flat_map level (seq s n)) acc.
Proof.
  intros g p n. induction n as [|n IH]; intros s acc; [reflexivity|].
  cbn [nseq seq flat_map level app fold_left].
  replace (N.of_nat s + 1) with (N.of_nat (S s)) by lia.
  rewrite IH. reflexivity.
Qed.

Lemma cmc_loop_is_spec : forall g p,
  length g = 3%nat -> length p = 3%nat ->
  sumN (map spec_nbits g) <= 64 ->
  cmc_loop g p (N.to_nat (maxN (map spec_nbits g))) = cmc_spec g p.
Proof.
  intros g p Hg _ Hsum.
  assert (Hnb : forall d, nth d (map spec_nbits g) 0 <= 64).
  { destruct g as [|g0 [|g1 [|g2 [|]]]]; try discriminate.
    cbn [map sumN fold_right] in *.
    intros [|[|[|[|d]]]]; cbn [nth]; lia. }
  unfold cmc_loop, cmc_spec.
  change 0 with (N.of_nat 0) at 1. rewrite outer_fold.
  change (0, 0) with (st []).
  rewrite fold_pairs_st.
  - cbn [st fst app]. rewrite cmc_bits_eq, live_pairs_filter. reflexivity.
  - assumption.
  - rewrite <- live_pairs_filter, live_len by (rewrite map_length; assumption).
    cbn [length]. lia.
Qed.

(* ---------- inverse and injectivity ---------- *)

Lemma mod_pow2_succ : forall x n,
  x mod 2 ^ N.succ n = x mod 2 ^ n + (if N.testbit x n then 2 ^ n else 0).
Proof.
  intros x n. rewrite N.pow_succ_r', (N.mul_comm 2).
  rewrite N.mod_mul_r by (apply pow2_nz || discriminate).
  rewrite <- N.testbit_spec'. destruct (N.testbit x n); cbn [N.b2n]; lia.
Qed.

Lemma lt_pow2_log2_up : forall x g, x < g -> x < 2 ^ N.log2_up g.
Proof.
  intros x g H. pose proof (N.log2_log2_up_spec g ltac:(lia)). lia.
Qed.

Lemma collect_app : forall d p l1 l2,
  collect d (l1 ++ l2) (map (bitf p) (l1 ++ l2)) =
  collect d l1 (map (bitf p) l1) + collect d l2 (map (bitf p) l2).
Proof.
  intros d p l1 l2. induction l1 as [|[i d'] l1 IH].
  - cbn [app map collect]. lia.
  - cbn [app map collect]. rewrite IH. lia.
Qed.

Lemma collect_level : forall d nb p n, (d < 3)%nat ->
  collect d (filter (livef nb) (level n)) (map (bitf p) (filter (livef nb) (level n))) =
  if N.of_nat n <? nth d nb 0
  then (if N.testbit (nth d p 0) (N.of_nat n) then 2 ^ N.of_nat n else 0) else 0.
Proof.
  intros d nb p n Hd.
  destruct d as [|[|[|d]]]; [| | |lia]; cbn [level filter livef];
    destruct (N.of_nat n <? nth 0 nb 0), (N.of_nat n <? nth 1 nb 0),
      (N.of_nat n <? nth 2 nb 0);
    cbn [map bitf collect Nat.eqb]; lia.
Qed.

Lemma collect_upto : forall d nb p n, (d < 3)%nat ->
  let L := filter (livef nb) (flat_map level (seq 0 n)) in
  collect d L (map (bitf p) L) = nth d p 0 mod 2 ^ N.min (N.of_nat n) (nth d nb 0).
Proof.
  intros d nb p n Hd. cbv zeta. induction n as [|n IH].
  - cbn [seq flat_map filter map collect].
    change (N.of_nat 0) with 0. rewrite N.min_0_l. change (2 ^ 0) with 1.
    rewrite N.mod_1_r. destruct d; reflexivity.
  - rewrite seq_S, flat_map_app, filter_app, collect_app, IH.
    cbn [flat_map plus]. rewrite app_nil_r, collect_level by assumption.
    rewrite Nat2N.inj_succ.
    destruct (N.ltb_spec (N.of_nat n) (nth d nb 0)) as [Hl|Hl].
    + rewrite N.min_l by lia. rewrite (N.min_l (N.succ _)) by lia.
      symmetry. apply mod_pow2_succ.
    + rewrite !N.min_r by lia. lia.
Qed.

Lemma collect_live : forall d g p, (d < 3)%nat -> length g = 3%nat ->
  nth d p 0 < nth d g 0 ->
  let nb := map spec_nbits g in
  collect d (live_pairs nb) (map (bitf p) (live_pairs nb)) = nth d p 0.
Proof.
  intros d g p Hd Hg Hlt nb. rewrite live_pairs_filter.
  rewrite (collect_upto d nb p _ Hd).
  assert (Hmax : nth d nb 0 <= maxN nb).
  { subst nb. destruct g as [|g0 [|g1 [|g2 [|]]]]; try discriminate.
    cbn [map maxN fold_right].
    destruct d as [|[|[|d]]]; [| | |lia]; cbn [nth]; lia. }
  rewrite N2Nat.id, N.min_r by assumption.
  apply N.mod_small. subst nb. rewrite nth_spec_nbits.
  apply lt_pow2_log2_up. assumption.
Qed.

Lemma uncmc_cmc : forall g p, in_grid g p -> uncmc g (cmc_spec g p) = p.
Proof.
  intros g p (Hp & Hg & Hlt). unfold uncmc, cmc_spec. cbv zeta.
  rewrite cmc_bits_eq.
  pose proof (to_bits_from_bits (map (bitf p) (live_pairs (map spec_nbits g)))) as Hb.
  rewrite map_length in Hb. rewrite Hb.
  rewrite !collect_live by (try apply Hlt; auto).
  destruct p as [|p0 [|p1 [|p2 [|]]]]; try discriminate. reflexivity.
Qed.

Lemma cmc_spec_inj : forall g p q,
  in_grid g p -> in_grid g q -> cmc_spec g p = cmc_spec g q -> p = q.
Proof.
  intros g p q Hp Hq H.
  rewrite <- (uncmc_cmc g p Hp), <- (uncmc_cmc g q Hq), H. reflexivity.
Qed.

(* ---------- shard file names ---------- *)

Lemma hex_fixed_0 : forall w, hex_fixed w 0 = repeat 48 w.
Proof.
  induction w as [|w IH]; [reflexivity|].
  cbn [hex_fixed]. change (0 / 16) with 0. change (hex_digit (0 mod 16)) with 48.
  rewrite IH. cbn [repeat]. symmetry. apply repeat_cons.
Qed.

Lemma hex_pos_acc : forall f n acc, hex_pos f n acc = hex_pos f n [] ++ acc.
Proof.
  induction f as [|f IH]; intros n acc; [reflexivity|].
  cbn [hex_pos]. destruct (n =? 0); [reflexivity|].
  rewrite IH, (IH _ [_]), <- app_assoc. reflexivity.
Qed.

Lemma pow16_succ : forall w, 16 ^ N.of_nat (S w) = 16 * 16 ^ N.of_nat w.
Proof. intro w. rewrite Nat2N.inj_succ, N.pow_succ_r'. reflexivity. Qed.

Lemma pow2_of_nat_succ : forall f, 2 ^ N.of_nat (S f) = 2 * 2 ^ N.of_nat f.
Proof. intro f. rewrite Nat2N.inj_succ, N.pow_succ_r'. reflexivity. Qed.

(* with enough fuel, hex_pos yields the minimal digit string: padding it to
   any sufficient width gives the fixed-width rendering *)
Lemma hex_pos_fixed : forall f n w,
  n < 2 ^ N.of_nat f -> n < 16 ^ N.of_nat w ->
  (length (hex_pos f n []) <= w)%nat /\
  (n <> 0 -> (1 <= length (hex_pos f n []))%nat) /\
  repeat 48 (w - length (hex_pos f n [])) ++ hex_pos f n [] = hex_fixed w n.
Proof.
  induction f as [|f IH]; intros n w Hf Hw.
  - change (2 ^ N.of_nat 0) with 1 in Hf. assert (n = 0) by lia. subst n.
    cbn [hex_pos length]. rewrite hex_fixed_0, Nat.sub_0_r, app_nil_r.
    repeat split; [lia | congruence].
  - cbn [hex_pos]. destruct (N.eqb_spec n 0) as [->|Hn].
    + cbn [length]. rewrite hex_fixed_0, Nat.sub_0_r, app_nil_r.
      repeat split; [lia | congruence].
    + destruct w as [|w]; [change (16 ^ N.of_nat 0) with 1 in Hw; lia|].
      rewrite pow16_succ in Hw. rewrite pow2_of_nat_succ in Hf.
      rewrite hex_pos_acc.
      destruct (IH (n / 16) w) as (Hl & _ & He).
      { apply N.div_lt_upper_bound; [discriminate|]. pose proof (pow2_pos (N.of_nat f)). lia. }
      { apply N.div_lt_upper_bound; [discriminate|]. assumption. }
      rewrite app_length. cbn [length hex_fixed].
      repeat split; [lia | lia |].
      rewrite <- He, <- app_assoc.
      replace (S w - (length (hex_pos f (n / 16) []) + 1))%nat
        with (w - length (hex_pos f (n / 16) []))%nat by lia.
      reflexivity.
Qed.

Lemma lt_pow16_width : forall s key,
  key < 2 ^ s -> key < 16 ^ N.of_nat (Nat.max 1 (N.to_nat ((s + 3) / 4))).
Proof.
  intros s key H. change 16 with (2 ^ 4). rewrite <- N.pow_mul_r.
  eapply N.lt_le_trans; [exact H|].
  apply N.pow_le_mono_r; [discriminate|].
  assert (s <= 4 * ((s + 3) / 4)).
  { pose proof (N.div_mod (s + 3) 4 ltac:(discriminate)).
    pose proof (N.mod_lt (s + 3) 4 ltac:(discriminate)). lia. }
  lia.
Qed.

Lemma shard_name_is_spec : forall s key,
  key < 2 ^ s -> shard_name_model s key = spec_name s key.
Proof.
  intros s key H. pose proof (lt_pow16_width s key H) as HW.
  unfold shard_name_model, spec_name, rjust, hex_of.
  set (w := N.to_nat ((s + 3) / 4)) in *.
  destruct (N.eqb_spec key 0) as [->|Hk].
  - rewrite hex_fixed_0. cbn [length].
    replace (Nat.max 1 w) with (S (w - 1)) by lia.
    cbn [repeat]. symmetry. apply repeat_cons.
  - destruct (hex_pos_fixed (S (N.to_nat (N.log2 key))) key (Nat.max 1 w))
      as (Hl & H1 & He).
    { rewrite Nat2N.inj_succ, N2Nat.id. apply N.log2_spec. lia. }
    { exact HW. }
    specialize (H1 Hk). rewrite <- He. f_equal. f_equal. lia.
Qed.

Lemma unhex_hex_digit : forall d, d < 16 -> unhex_digit (hex_digit d) = Some d.
Proof.
  intros d H. unfold hex_digit, unhex_digit.
  destruct (N.ltb_spec d 10).
  - replace (48 <=? 48 + d) with true by (symmetry; apply N.leb_le; lia).
    replace (48 + d <? 58) with true by (symmetry; apply N.ltb_lt; lia).
    cbn [andb]. f_equal. lia.
  - replace (87 + d <? 58) with false by (symmetry; apply N.ltb_ge; lia).
    rewrite andb_false_r.
    replace (97 <=? 87 + d) with true by (symmetry; apply N.leb_le; lia).
    replace (87 + d <? 103) with true by (symmetry; apply N.ltb_lt; lia).
    cbn [andb]. f_equal. lia.
Qed.

Lemma unhex_acc_app : forall l1 l2 acc,
  unhex_acc (l1 ++ l2) acc =
  match unhex_acc l1 acc with Some a => unhex_acc l2 a | None => None end.
Proof.
  induction l1 as [|c l1 IH]; intros l2 acc; [reflexivity|].
  cbn [app unhex_acc]. destruct (unhex_digit c); [apply IH | reflexivity].
Qed.

Lemma unhex_acc_hex_fixed : forall w n acc,
  unhex_acc (hex_fixed w n) acc = Some (acc * 16 ^ N.of_nat w + n mod 16 ^ N.of_nat w).
Proof.
  induction w as [|w IH]; intros n acc.
  - cbn [hex_fixed unhex_acc]. change (16 ^ N.of_nat 0) with 1.
    rewrite N.mod_1_r. f_equal. lia.
  - cbn [hex_fixed]. rewrite unhex_acc_app, IH. cbn [unhex_acc].
    rewrite unhex_hex_digit by (apply N.mod_lt; discriminate).
    rewrite pow16_succ.
    rewrite (N.mod_mul_r n 16) by (try discriminate; apply N.pow_nonzero; discriminate).
    f_equal. lia.
Qed.

Lemma spec_name_unhex : forall s key,
  key < 2 ^ s -> unhex (spec_name s key) = Some key.
Proof.
  intros s key H. pose proof (lt_pow16_width s key H) as HW.
  unfold spec_name. set (W := Nat.max 1 (N.to_nat ((s + 3) / 4))) in *.
  assert (Hne : hex_fixed W key <> []).
  { assert (HW1 : (1 <= W)%nat) by (subst W; lia). clearbody W.
    destruct W as [|W']; [lia|]. cbn [hex_fixed]. intro Hc.
    symmetry in Hc. exact (app_cons_not_nil _ _ _ Hc). }
  unfold unhex. destruct (hex_fixed W key) eqn:E; [congruence|].
  rewrite <- E, unhex_acc_hex_fixed, N.mod_small by assumption. reflexivity.
Qed.

(* ---------- get_cmc ---------- *)

Lemma mk_vspec_inv : forall cs sz v, mk_vspec cs sz = Ok v ->
  exists c g0 g1 g2,
    (0 < c)%Z /\
    v = {| vs_chunk := c; vs_grid := [g0; g1; g2];
           vs_nbits := map N.log2_up [g0; g1; g2] |} /\
    sumN (map spec_nbits [g0; g1; g2]) <= 64.
Proof.
  intros cs sz v. unfold mk_vspec.
  destruct sz as [|s0 [|s1 [|s2 [|]]]]; cbn [length Nat.eqb andb negb];
    try discriminate.
  destruct (all_pos [s0; s1; s2]); cbn [negb]; [|discriminate].
  destruct cs as [|c0 [|c1 [|c2 [|]]]]; cbn [length Nat.eqb andb negb];
    try discriminate.
  destruct (all_pos [c0; c1; c2]) eqn:Hpos; cbn [andb negb]; [|discriminate].
  destruct (all_same [c0; c1; c2]); cbn [negb]; [|discriminate].
  cbn [nth map].
  match goal with |- context [64 <? ?s] => destruct (N.ltb_spec 64 s) as [Hs|Hs] end;
    [discriminate|].
  intro H. injection H as <-.
  exists c0, (grid_of s0 c0), (grid_of s1 c0), (grid_of s2 c0).
  split; [|split; [reflexivity | exact Hs]].
  unfold all_pos in Hpos. cbn [forallb] in Hpos.
  apply andb_true_iff in Hpos. destruct Hpos as [Hpos _].
  apply Z.ltb_lt. exact Hpos.
Qed.

Lemma quot_div_exact : forall x c, (0 < c)%Z -> (x mod c = 0)%Z -> (x ÷ c = x / c)%Z.
Proof.
  intros x c Hc Hm.
  transitivity ((x / c * c) ÷ c)%Z.
  - f_equal. pose proof (Z.div_mod x c ltac:(lia)). lia.
  - apply Z.quot_mul. lia.
Qed.

Lemma exact_nonneg : forall x c, (0 < c)%Z -> (x mod c = 0)%Z ->
  (0 <=? x)%Z = negb (x / c <? 0)%Z.
Proof.
  intros x c Hc Hm. pose proof (Z.div_mod x c ltac:(lia)) as Hd. rewrite Hm in Hd.
  destruct (Z.leb_spec 0 x), (Z.ltb_spec (x / c) 0); try reflexivity; nia.
Qed.

Lemma get_cmc_total_spec : forall cs sz v x y z,
  mk_vspec cs sz = Ok v ->
  get_cmc_model v x y z =
    if on_lattice_in_grid v x y z
    then Ok (cmc_spec (vs_grid v)
               (map Z.to_N [(x / vs_chunk v)%Z; (y / vs_chunk v)%Z; (z / vs_chunk v)%Z]))
    else IOErr.
Proof.
  intros cs sz v x y z Hv.
  destruct (mk_vspec_inv _ _ _ Hv) as (c & g0 & g1 & g2 & Hc & -> & Hsum).
  unfold get_cmc_model, on_lattice_in_grid, cmc_model.
  cbn [vs_chunk vs_grid vs_nbits combine forallb].
  destruct (Z.eqb_spec (x mod c) 0) as [Hx|Hx];
  destruct (Z.eqb_spec (y mod c) 0) as [Hy|Hy];
  destruct (Z.eqb_spec (z mod c) 0) as [Hz|Hz]; cbn [andb negb];
  try (destruct (0 <=? x)%Z, (x / c <? Z.of_N g0)%Z, (0 <=? y)%Z,
         (y / c <? Z.of_N g1)%Z, (0 <=? z)%Z, (z / c <? Z.of_N g2)%Z; reflexivity).
  rewrite !quot_div_exact by assumption.
  rewrite (exact_nonneg x c), (exact_nonneg y c), (exact_nonneg z c) by assumption.
  assert (Hloop : forall P, length P = 3%nat ->
            cmc_loop [g0; g1; g2] P (N.to_nat (maxN (map N.log2_up [g0; g1; g2]))) =
            cmc_spec [g0; g1; g2] P).
  { intros P HP. apply cmc_loop_is_spec; [reflexivity | assumption | exact Hsum]. }
  rewrite Hloop by reflexivity.
  cbn [existsb lt_all combine forallb].
  destruct (x / c <? 0)%Z, (x / c <? Z.of_N g0)%Z, (y / c <? 0)%Z,
    (y / c <? Z.of_N g1)%Z, (z / c <? 0)%Z, (z / c <? Z.of_N g2)%Z; reflexivity.
Qed.

Lemma on_lattice_facts : forall c g0 g1 g2 nb x y z,
  on_lattice_in_grid {| vs_chunk := c; vs_grid := [g0; g1; g2]; vs_nbits := nb |} x y z = true ->
  ((x mod c = 0 /\ 0 <= x /\ x / c < Z.of_N g0) /\
   (y mod c = 0 /\ 0 <= y /\ y / c < Z.of_N g1) /\
   (z mod c = 0 /\ 0 <= z /\ z / c < Z.of_N g2))%Z.
Proof.
  intros c g0 g1 g2 nb x y z H. unfold on_lattice_in_grid in H.
  cbn [vs_chunk vs_grid combine forallb] in H.
  repeat (apply andb_true_iff in H; destruct H as [? H]).
  repeat match goal with
  | H : (_ && _)%bool = true |- _ => apply andb_true_iff in H; destruct H
  end.
  repeat match goal with
  | H : (_ =? _)%Z = true |- _ => apply Z.eqb_eq in H
  | H : (_ <=? _)%Z = true |- _ => apply Z.leb_le in H
  | H : (_ <? _)%Z = true |- _ => apply Z.ltb_lt in H
  end.
  auto.
Qed.

Lemma get_cmc_inj : forall cs sz v x y z x' y' z' id,
  mk_vspec cs sz = Ok v ->
  get_cmc_model v x y z = Ok id -> get_cmc_model v x' y' z' = Ok id ->
  (x, y, z) = (x', y', z').
Proof.
  intros cs sz v x y z x' y' z' id Hv H1 H2.
  rewrite (get_cmc_total_spec cs sz v _ _ _ Hv) in H1.
  rewrite (get_cmc_total_spec cs sz v _ _ _ Hv) in H2.
  destruct (mk_vspec_inv _ _ _ Hv) as (c & g0 & g1 & g2 & Hc & -> & Hsum).
  destruct (on_lattice_in_grid _ x y z) eqn:E1; [|discriminate].
  destruct (on_lattice_in_grid _ x' y' z') eqn:E2; [|discriminate].
  apply on_lattice_facts in E1, E2.
  destruct E1 as ((Hx1 & Hx2 & Hx3) & (Hy1 & Hy2 & Hy3) & (Hz1 & Hz2 & Hz3)).
  destruct E2 as ((Hx1' & Hx2' & Hx3') & (Hy1' & Hy2' & Hy3') & (Hz1' & Hz2' & Hz3')).
  cbn [vs_chunk vs_grid map] in H1, H2.
  injection H1 as H1. injection H2 as H2. rewrite <- H2 in H1.
  pose proof (Z.div_mod x c ltac:(lia)). pose proof (Z.div_mod y c ltac:(lia)).
  pose proof (Z.div_mod z c ltac:(lia)). pose proof (Z.div_mod x' c ltac:(lia)).
  pose proof (Z.div_mod y' c ltac:(lia)). pose proof (Z.div_mod z' c ltac:(lia)).
  assert (0 <= x / c)%Z by (apply Z.div_pos; lia).
  assert (0 <= y / c)%Z by (apply Z.div_pos; lia).
  assert (0 <= z / c)%Z by (apply Z.div_pos; lia).
  assert (0 <= x' / c)%Z by (apply Z.div_pos; lia).
  assert (0 <= y' / c)%Z by (apply Z.div_pos; lia).
  assert (0 <= z' / c)%Z by (apply Z.div_pos; lia).
  apply cmc_spec_inj in H1.
  - injection H1 as Ex Ey Ez.
    apply Z2N.inj in Ex, Ey, Ez; try assumption.
    f_equal; [f_equal|]; nia.
  - repeat split; intros [|[|[|d]]] Hd; cbn [nth]; lia.
  - repeat split; intros [|[|[|d]]] Hd; cbn [nth]; lia.
Qed.
