(* Proofs for Properties/C09.v: the uint64 model of the compressed Morton code
   and of the shard routing agrees with the specification functions. *)
From Coq Require Import NArith ZArith List Bool Lia.
From NGS Require Import Val Ints Morton.
Import ListNotations.
Open Scope N_scope.

(* ---------- general helpers on N, powers of two and bits ---------- *)

Lemma pow2_pos : forall k, 0 < 2 ^ k.
Proof. intro k. apply N.neq_0_lt_0, N.pow_nonzero. discriminate. Qed.

Lemma pow2_nz : forall k, 2 ^ k <> 0.
Proof. intro k. apply N.pow_nonzero. discriminate. Qed.

Lemma two64_eq : two64 = 2 ^ 64.
Proof. reflexivity. Qed.

Lemma max64_ones : max64 = N.ones 64.
Proof. reflexivity. Qed.

Lemma pow2_split : forall k, k <= 64 -> 2 ^ k * 2 ^ (64 - k) = 2 ^ 64.
Proof.
  intros k H. rewrite <- N.pow_add_r. f_equal. lia.
Qed.

Lemma pow2_le_two64 : forall k, k <= 64 -> 2 ^ k <= 2 ^ 64.
Proof. intros. apply N.pow_le_mono_r; [discriminate | assumption]. Qed.

Lemma pow2_lt_two64 : forall k, k < 64 -> 2 ^ k < 2 ^ 64.
Proof. intros. apply N.pow_lt_mono_r; [reflexivity | assumption]. Qed.

Lemma pow2_ge_two64 : forall k, 64 <= k -> 2 ^ 64 <= 2 ^ k.
Proof. intros. apply N.pow_le_mono_r; [discriminate | assumption]. Qed.

(* shr64 is the plain quotient on uint64 values, whatever the shift *)
Lemma shr64_div : forall a k, a < 2 ^ 64 -> shr64 a k = a / 2 ^ k.
Proof.
  intros a k Ha. unfold shr64. destruct (N.leb_spec 64 k) as [H|H]; [|reflexivity].
  symmetry. apply N.div_small. pose proof (pow2_ge_two64 k H). lia.
Qed.

Lemma shr64_lt : forall a k, a < 2 ^ 64 -> a / 2 ^ k < 2 ^ 64.
Proof.
  intros a k Ha. eapply N.le_lt_trans; [|exact Ha].
  apply N.div_le_upper_bound; [apply pow2_nz|].
  pose proof (pow2_pos k). nia.
Qed.

(* ~(MAX >> k << k) is the mask of the k low bits, saturating at 64 *)
Lemma mask_low_ones : forall k, mask_low k = N.ones (N.min k 64).
Proof.
  intro k. unfold mask_low, not64, shl64, shr64.
  destruct (N.leb_spec 64 k) as [H|H].
  - rewrite N.min_r by assumption. rewrite N.sub_0_r. reflexivity.
  - rewrite N.min_l by lia.
    pose proof (pow2_split k ltac:(lia)) as Hs.
    pose proof (pow2_pos k) as Hk. pose proof (pow2_pos (64 - k)) as Hk'.
    assert (Hq : max64 / 2 ^ k = 2 ^ (64 - k) - 1).
    { symmetry. apply N.div_unique with (r := 2 ^ k - 1); [lia|].
      unfold max64. rewrite two64_eq, <- Hs. nia. }
    rewrite Hq.
    assert (Hm : (2 ^ (64 - k) - 1) * 2 ^ k = 2 ^ 64 - 2 ^ k) by nia.
    rewrite Hm. rewrite N.mod_small by (rewrite two64_eq; lia).
    rewrite N.ones_equiv. unfold max64. rewrite two64_eq.
    pose proof (pow2_lt_two64 k H). lia.
Qed.

Lemma land_mask_low : forall k h, h < 2 ^ 64 -> and64 (mask_low k) h = h mod 2 ^ k.
Proof.
  intros k h Hh. unfold and64. rewrite mask_low_ones, N.land_comm, N.land_ones.
  destruct (N.le_ge_cases k 64) as [H|H].
  - rewrite N.min_l by assumption. reflexivity.
  - rewrite N.min_r by assumption.
    pose proof (pow2_ge_two64 k H).
    rewrite !N.mod_small by lia. reflexivity.
Qed.

Lemma not64_ones : forall m, m <= 64 -> not64 (N.ones m) = N.ldiff (N.ones 64) (N.ones m).
Proof.
  intros m H. unfold not64. rewrite max64_ones.
  apply N.sub_nocarry_ldiff. apply N.bits_inj. intro i.
  rewrite N.ldiff_spec, N.bits_0.
  destruct (N.lt_ge_cases i m) as [Hi|Hi].
  - rewrite !N.ones_spec_low by lia. reflexivity.
  - rewrite (N.ones_spec_high m) by lia. reflexivity.
Qed.

Lemma testbit_ones : forall n i, N.testbit (N.ones n) i = (i <? n).
Proof.
  intros n i. destruct (N.ltb_spec i n).
  - apply N.ones_spec_low; assumption.
  - apply N.ones_spec_high; assumption.
Qed.

Lemma testbit_high : forall a n i, a < 2 ^ n -> n <= i -> N.testbit a i = false.
Proof.
  intros a n i Ha Hi. destruct (N.eq_dec a 0) as [->|Hz]; [apply N.bits_0|].
  apply N.bits_above_log2.
  assert (N.log2 a < n) by (apply N.log2_lt_pow2; lia). lia.
Qed.

(* ---------- routing ---------- *)

Lemma routing_is_spec : forall p m s id,
  id < 2 ^ 64 -> m + s < 2 ^ 64 ->
  minishard_key_model p m id = spec_minishard p m id /\
  shard_key_model p m s id = spec_shard p m s id.
Proof.
  intros p m s id Hid Hms.
  unfold minishard_key_model, shard_key_model, spec_minishard, spec_shard,
    hash_model, spec_hash, minishard_mask.
  rewrite (shr64_div id p Hid).
  set (h := id / 2 ^ p).
  assert (Hh : h < 2 ^ 64) by (apply shr64_lt; assumption).
  split.
  - apply land_mask_low; assumption.
  - unfold shard_mask, minishard_mask.
    assert (Ha : add64 m s = m + s)
      by (unfold add64; apply N.mod_small; rewrite two64_eq; assumption).
    rewrite Ha.
    destruct (N.le_gt_cases 64 m) as [Hm|Hm].
    + (* everything is shifted out *)
      unfold shr64 at 1. destruct (N.leb_spec 64 m); [|lia].
      pose proof (pow2_ge_two64 m Hm).
      rewrite (N.div_small h) by lia.
      symmetry. apply N.mod_0_l, pow2_nz.
    + unfold shr64. destruct (N.leb_spec 64 m); [lia|].
      rewrite !mask_low_ones. rewrite (N.min_l m 64) by lia.
      rewrite not64_ones by lia. unfold and64.
      apply N.bits_inj. intro j.
      rewrite N.div_pow2_bits, !N.land_spec, N.ldiff_spec, !testbit_ones.
      destruct (N.lt_ge_cases j s) as [Hj|Hj].
      * rewrite N.mod_pow2_bits_low by assumption. rewrite N.div_pow2_bits.
        destruct (N.lt_ge_cases (j + m) 64) as [Hjm|Hjm].
        -- replace (j + m <? N.min (m + s) 64) with true
             by (symmetry; apply N.ltb_lt; lia).
           replace (j + m <? 64) with true by (symmetry; apply N.ltb_lt; lia).
           replace (j + m <? m) with false by (symmetry; apply N.ltb_ge; lia).
           reflexivity.
        -- rewrite (testbit_high h 64 (j + m)) by assumption.
           apply andb_false_r.
      * rewrite N.mod_pow2_bits_high by assumption.
        replace (j + m <? N.min (m + s) 64) with false
          by (symmetry; apply N.ltb_ge; lia).
        reflexivity.
Qed.

Lemma header_len_small : forall m, m < 60 -> header_len_model m = 16 * 2 ^ m.
Proof.
  intros m H. unfold header_len_model, mul64, pow2_64.
  destruct (N.leb_spec 64 m); [lia|].
  assert (H16 : 2 ^ m * 16 = 2 ^ (m + 4)) by (rewrite N.pow_add_r; reflexivity).
  rewrite N.mod_small; [lia|].
  rewrite H16, two64_eq. apply N.pow_lt_mono_r; [reflexivity | lia].
Qed.

(* ---------- bit lists ---------- *)

Lemma from_bits_app : forall l b,
  from_bits (l ++ [b]) = from_bits l + N.b2n b * 2 ^ N.of_nat (length l).
Proof.
  induction l as [|a l IH]; intro b.
  - cbn [app from_bits length]. change (2 ^ N.of_nat 0) with 1. lia.
  - cbn [app from_bits length]. rewrite IH, Nat2N.inj_succ, N.pow_succ_r'. lia.
Qed.

Lemma from_bits_lt : forall l, from_bits l < 2 ^ N.of_nat (length l).
Proof.
  induction l as [|a l IH].
  - cbn. lia.
  - cbn [from_bits length]. rewrite Nat2N.inj_succ, N.pow_succ_r'.
    destruct a; cbn [N.b2n]; lia.
Qed.

Lemma to_bits_from_bits : forall l, to_bits (length l) (from_bits l) = l.
Proof.
  induction l as [|a l IH]; [reflexivity|].
  cbn [length from_bits to_bits].
  rewrite N.odd_add_mul_2, N.div2_div.
  assert (Hd : (N.b2n a + 2 * from_bits l) / 2 = from_bits l).
  { symmetry. apply N.div_unique with (r := N.b2n a); [destruct a; cbn; lia | lia]. }
  rewrite Hd, IH. destruct a; reflexivity.
Qed.

(* OR of disjoint bit ranges is addition *)
Lemma lor_disjoint : forall a b j, a < 2 ^ j -> N.lor a (b * 2 ^ j) = a + b * 2 ^ j.
Proof.
  intros a b j Ha.
  assert (Hl : N.land a (b * 2 ^ j) = 0).
  { apply N.bits_inj. intro i. rewrite N.land_spec, N.bits_0.
    destruct (N.lt_ge_cases i j) as [Hi|Hi].
    - rewrite N.mul_pow2_bits_low by assumption. apply andb_false_r.
    - rewrite (testbit_high a j i) by assumption. reflexivity. }
  rewrite N.add_nocarry_lxor by assumption. symmetry. apply N.lxor_lor. assumption.
Qed.

Lemma land_1_testbit : forall x i, N.land (x / 2 ^ i) 1 = N.b2n (N.testbit x i).
Proof.
  intros x i. rewrite N.testbit_spec'.
  exact (N.land_ones (x / 2 ^ i) 1).
Qed.

Lemma pow2_ltb_log2_up : forall i g, (2 ^ i <? g) = (i <? N.log2_up g).
Proof.
  intros i g. destruct (N.eq_dec g 0) as [->|Hg].
  - change (N.log2_up 0) with 0.
    destruct (N.ltb_spec (2 ^ i) 0); [lia|]. destruct (N.ltb_spec i 0); [lia|]. reflexivity.
  - pose proof (N.log2_up_lt_pow2 g i ltac:(lia)) as [H1 H2].
    destruct (N.ltb_spec (2 ^ i) g), (N.ltb_spec i (N.log2_up g)); try reflexivity.
    + specialize (H1 H). lia.
    + specialize (H2 H0). lia.
Qed.

Lemma nth_spec_nbits : forall g d, nth d (map spec_nbits g) 0 = spec_nbits (nth d g 0).
Proof. intros g d. exact (map_nth spec_nbits g 0 d). Qed.

(* ---------- live pairs ---------- *)

Definition livef (nb : list N) (pr : nat * nat) : bool :=
  let '(i, d) := pr in N.of_nat i <? nth d nb 0.
Definition bitf (p : list N) (pr : nat * nat) : bool :=
  let '(i, d) := pr in N.testbit (nth d p 0) (N.of_nat i).
Definition level (i : nat) : list (nat * nat) := [(i, 0%nat); (i, 1%nat); (i, 2%nat)].

Lemma filter_flat_map : forall {A B} (f : B -> bool) (g : A -> list B) l,
  filter f (flat_map g l) = flat_map (fun x => filter f (g x)) l.
Proof.
  intros A B f g l. induction l as [|x l IH]; [reflexivity|].
  cbn [flat_map]. rewrite filter_app, IH. reflexivity.
Qed.

Lemma live_pairs_filter : forall nb,
  live_pairs nb = filter (livef nb) (flat_map level (seq 0 (N.to_nat (maxN nb)))).
Proof. intro nb. rewrite filter_flat_map. reflexivity. Qed.

Lemma cmc_bits_eq : forall nb p, cmc_bits nb p = map (bitf p) (live_pairs nb).
Proof. reflexivity. Qed.

Lemma live_len_upto : forall a b c n,
  length (filter (livef [a; b; c]) (flat_map level (seq 0 n))) =
  N.to_nat (N.min (N.of_nat n) a + N.min (N.of_nat n) b + N.min (N.of_nat n) c).
Proof.
  intros a b c n. induction n as [|n IH].
  - reflexivity.
  - rewrite seq_S, flat_map_app, filter_app, app_length, IH.
    cbn [flat_map level app filter livef nth plus].
    destruct (N.ltb_spec (N.of_nat n) a), (N.ltb_spec (N.of_nat n) b),
      (N.ltb_spec (N.of_nat n) c); cbn [length]; lia.
Qed.

Lemma live_len : forall nb, length nb = 3%nat ->
  length (live_pairs nb) = N.to_nat (sumN nb).
Proof.
  intros nb H. destruct nb as [|a [|b [|c [|]]]]; try discriminate.
  rewrite live_pairs_filter, live_len_upto. cbn [maxN sumN fold_right]. lia.
Qed.

Lemma cmc_spec_lt : forall g p,
  length g = 3%nat -> cmc_spec g p < 2 ^ sumN (map spec_nbits g).
Proof.
  intros g p Hg. unfold cmc_spec.
  pose proof (from_bits_lt (cmc_bits (map spec_nbits g) p)) as H.
  rewrite cmc_bits_eq, map_length, live_len in H by (rewrite map_length; assumption).
  rewrite N2Nat.id in H. exact H.
Qed.

(* ---------- the uint64 loop ---------- *)

Definition st (bs : list bool) : N * N := (from_bits bs, N.of_nat (length bs)).
Definition stepP (g p : list N) (acc : N * N) (pr : nat * nat) : N * N :=
  cmc_step g p (N.of_nat (fst pr)) acc (snd pr).

Lemma cmc_step_st : forall g p i d bs,
  (forall d, nth d (map spec_nbits g) 0 <= 64) ->
  (length bs + length (filter (livef (map spec_nbits g)) [(i, d)]) <= 64)%nat ->
  cmc_step g p (N.of_nat i) (st bs) d =
  st (bs ++ map (bitf p) (filter (livef (map spec_nbits g)) [(i, d)])).
Proof.
  intros g p i d bs Hnb Hlen. unfold cmc_step, st.
  cbn [filter livef] in *. rewrite nth_spec_nbits in *. unfold spec_nbits in *.
  rewrite pow2_ltb_log2_up.
  destruct (N.ltb_spec (N.of_nat i) (N.log2_up (nth d g 0))) as [Hlive|Hdead].
  - cbn [length map bitf] in *.
    specialize (Hnb d). rewrite nth_spec_nbits in Hnb. unfold spec_nbits in Hnb.
    assert (Hj : N.of_nat (length bs) < 64) by lia.
    unfold shr64. destruct (N.leb_spec 64 (N.of_nat i)); [lia|].
    unfold and64. rewrite land_1_testbit.
    set (b := N.testbit (nth d p 0) (N.of_nat i)).
    unfold shl64. destruct (N.leb_spec 64 (N.of_nat (length bs))); [lia|].
    pose proof (pow2_lt_two64 _ Hj) as Hp.
    pose proof (from_bits_lt bs) as Hc.
    rewrite N.mod_small by (rewrite two64_eq; destruct b; cbn [N.b2n]; lia).
    unfold or64. rewrite lor_disjoint by assumption.
    rewrite from_bits_app, app_length. cbn [length].
    unfold add64. rewrite N.mod_small by (rewrite two64_eq; lia).
    f_equal. lia.
  - cbn [map]. rewrite app_nil_r. reflexivity.
Qed.

Lemma fold_pairs_st : forall g p,
  (forall d, nth d (map spec_nbits g) 0 <= 64) ->
  forall L bs,
  (length bs + length (filter (livef (map spec_nbits g)) L) <= 64)%nat ->
  fold_left (stepP g p) L (st bs) =
  st (bs ++ map (bitf p) (filter (livef (map spec_nbits g)) L)).
Proof.
  intros g p Hnb L. induction L as [|[i d] L IH]; intros bs Hlen.
  - cbn [filter map fold_left]. rewrite app_nil_r. reflexivity.
  - change ((i, d) :: L) with ([(i, d)] ++ L) in *.
    rewrite filter_app, app_length in Hlen.
    rewrite filter_app, map_app, app_assoc.
    cbn [app fold_left]. unfold stepP at 2. cbn [fst snd].
    rewrite cmc_step_st by (assumption || lia).
    apply IH. rewrite app_length, map_length. lia.
Qed.

Lemma outer_fold : forall g p n s acc,
  fold_left (fun acc i => fold_left (cmc_step g p i) [0%nat; 1%nat; 2%nat] acc)
            (nseq (N.of_nat s) n) acc =
  fold_left (stepP g p) (flat_map level (seq s n)) acc.
Proof.
  intros g p n. induction n as [|n IH]; intros s acc; [reflexivity|].
  cbn [nseq seq flat_map level app fold_left].
  replace (N.of_nat s + 1) with (N.of_nat (S s)) by lia.
  rewrite IH. reflexivity.
Qed.

Lemma cmc_loop_is_spec : forall g p,
  length g = 3%nat -> length p = 3%nat ->
  sumN (map spec_nbits g) <= 64 ->
  cmc_loop g p (N.to_nat (maxN (map spec_nbits g))) = cmc_spec g p.
Proof.
  intros g p Hg _ Hsum.
  assert (Hnb : forall d, nth d (map spec_nbits g) 0 <= 64).
  { destruct g as [|g0 [|g1 [|g2 [|]]]]; try discriminate.
    cbn [map sumN fold_right] in *.
    intros [|[|[|[|d]]]]; cbn [nth]; lia. }
  unfold cmc_loop, cmc_spec.
  change 0 with (N.of_nat 0) at 1. rewrite outer_fold.
  change (0, 0) with (st []).
  rewrite fold_pairs_st.
  - cbn [st fst app]. rewrite cmc_bits_eq, live_pairs_filter. reflexivity.
  - assumption.
  - rewrite <- live_pairs_filter, live_len by (rewrite map_length; assumption).
    cbn [length]. lia.
Qed.
