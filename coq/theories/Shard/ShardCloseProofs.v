(* Shard.close made explicit: for a shard whose closed minishards are the
   canonical ones, the result is Ok and the file is
     shard index (2^m pairs, minishard k at slot k) ++ data ++ encoded indices. *)
From Coq Require Import NArith ZArith List Bool Lia Permutation.
From NGS Require Import Val Ints Morton MortonProofs ShardBytes MiniShard ShardFile ShardSpecReader
  ShardCanon MiniShardProofs ShardFileProofs ShardLayoutProofs.
Import ListNotations.
Open Scope N_scope.

Section Close.
Variable sp : sparams.
Variable enc : bytes -> bytes.
Variable ienc : bytes -> bytes.

(* a closed minishard whose first offset field has been patched to off *)
Definition cm_at (mbv : N) (sm : store_map) (off : N) : mini :=
  let n := ccount sp sm in
  {| ms_off := off; ms_app := N.of_nat n;
     ms_last := mk sp mbv (N.of_nat (Nat.pred n));
     ms_pend := [];
     ms_data := cdata sp enc sm mbv n;
     ms_hdr := chdr sp enc sm mbv off n;
     ms_mask := Some mbv |}.

Lemma chdr_off_tail : forall sm mbv off off' s k, (1 <= s)%nat ->
  flat_map (fun i => [cdelta sp mbv i; if (i =? 0)%nat then off else 0; lenN (cpay sp enc sm mbv i)]) (seq s k) =
  flat_map (fun i => [cdelta sp mbv i; if (i =? 0)%nat then off' else 0; lenN (cpay sp enc sm mbv i)]) (seq s k).
Proof.
  intros sm mbv off off' s k Hs. apply flat_map_ext_in'. intros i Hi. apply in_seq in Hi.
  destruct i; [lia | reflexivity].
Qed.

Lemma set_offset_closed : forall mbv sm off,
  set_offset (closed_mini sp enc mbv sm) off = Ok (cm_at mbv sm off).
Proof.
  intros mbv sm off. unfold set_offset, closed_mini, cm_at. cbn [ms_hdr].
  unfold ccount. set (n' := N.to_nat (maxN (map (rank sp) (akeys sm)))).
  unfold chdr. cbn [seq flat_map app Nat.eqb].
  rewrite (chdr_off_tail sm mbv 0 off 1 n') by lia. reflexivity.
Qed.

(* descriptor of a shard: (minishard number, (class bits, stored set)), sorted by number *)
Definition desc := list (N * (N * store_map)).

Definition lift (d : desc) : list (N * (mini * outcome unit)) :=
  map (fun e => (fst e, (closed_mini sp enc (fst (snd e)) (snd (snd e)), Ok tt))) d.

Definition d_data (e : N * (N * store_map)) : bytes :=
  cdata sp enc (snd (snd e)) (fst (snd e)) (ccount sp (snd (snd e))).

Fixpoint placed (d : desc) (off : N) : list (N * mini) :=
  match d with
  | [] => []
  | e :: r => (fst e, cm_at (fst (snd e)) (snd (snd e)) off) :: placed r (off + lenN (d_data e))
  end.

Lemma close_minis'_lift : forall d data,
  close_minis' (lift d) data = Ok (placed d (lenN data), data ++ concat (map d_data d)).
Proof.
  induction d as [|[k [mbv sm]] r IH]; intro data; cbn [lift map close_minis' placed concat fst snd].
  - rewrite app_nil_r. reflexivity.
  - cbn [bind]. rewrite set_offset_closed. cbn [bind].
    fold (lift r). change (ms_data (closed_mini sp enc mbv sm)) with (d_data (k, (mbv, sm))).
    rewrite IH. cbn [bind]. rewrite lenN_app, <- app_assoc. reflexivity.
Qed.


(* ---------- the shard index as a list of words ---------- *)
Definition pairs (n : nat) (v : N) : list N := concat (repeat [v; v] n).

Lemma empty_entries_pairs : forall n v, empty_entries n v = le64s (pairs n v).
Proof.
  induction n as [|n IH]; intro v; [reflexivity|].
  unfold empty_entries, pairs in *. cbn [repeat concat]. rewrite IH.
  change (le64s ([v; v] ++ concat (repeat [v; v] n))) with (le64s ([v; v] ++ concat (repeat [v; v] n))).
  rewrite le64s_app. cbn [le64s flat_map]. rewrite app_nil_r, <- app_assoc. reflexivity.
Qed.

Lemma length_pairs : forall n v, length (pairs n v) = (2 * n)%nat.
Proof. induction n; intro v; unfold pairs in *; cbn [repeat concat]; [reflexivity|]. rewrite app_length, IHn. simpl. lia. Qed.

(* (minishard number, length of its encoded index) in slot order *)
Fixpoint ixwords (ks : list (N * N)) (slot base : N) : list N :=
  match ks with
  | [] => []
  | (key, len) :: r => pairs (N.to_nat (key - slot)) base ++ [base; base + len] ++ ixwords r (key + 1) (base + len)
  end.

Fixpoint sorted_from (slot : N) (ks : list (N * N)) : Prop :=
  match ks with [] => True | (key, _) :: r => slot <= key /\ sorted_from (key + 1) r end.

Definition sumlen (ks : list (N * N)) : N := fold_right (fun kl acc => snd kl + acc) 0 ks.

Definition d_raw (e : N * (N * store_map)) (off : N) : bytes :=
  let n := ccount sp (snd (snd e)) in
  le64s (crow0 sp (fst (snd e)) n ++ crow1 off n ++ crow2 sp enc (snd (snd e)) (fst (snd e)) n).
Definition d_enc (e : N * (N * store_map)) (off : N) : bytes := ienc (d_raw e off).

Fixpoint d_encs (d : desc) (off : N) : list bytes :=
  match d with [] => [] | e :: r => d_enc e off :: d_encs r (off + lenN (d_data e)) end.
Fixpoint d_kl (d : desc) (off : N) : list (N * N) :=
  match d with [] => [] | e :: r => (fst e, lenN (d_enc e off)) :: d_kl r (off + lenN (d_data e)) end.

Lemma sumlen_encs : forall d off, sumlen (d_kl d off) = lenN (concat (d_encs d off)).
Proof.
  induction d as [|e r IH]; intro off; [reflexivity|].
  cbn [d_kl d_encs sumlen fold_right concat snd]. fold (sumlen (d_kl r (off + lenN (d_data e)))).
  rewrite IH, lenN_app. reflexivity.
Qed.

Lemma pack_q_ok : forall v, v < 2 ^ 64 -> pack_q v = Ok (le64 v).
Proof. intros v H. unfold pack_q. rewrite two64_eq. destruct (N.leb_spec (2 ^ 64) v); [lia | reflexivity]. Qed.

Lemma write_indices_explicit : forall d off slot D S,
  sorted_from slot (d_kl d off) -> D + S + sumlen (d_kl d off) < 2 ^ 64 ->
  write_indices ienc (placed d off) slot D S =
  Ok (concat (d_encs d off), le64s (ixwords (d_kl d off) slot (D + S)), S + sumlen (d_kl d off)).
Proof.
  induction d as [|e r IH]; intros off slot D S Hs Hb.
  - cbn. rewrite N.add_0_r. reflexivity.
  - cbn [placed write_indices d_kl d_encs sorted_from sumlen fold_right concat ixwords fst snd] in *.
    fold (sumlen (d_kl r (off + lenN (d_data e)))) in *.
    destruct Hs as [Hle Hs'].
    set (len := lenN (d_enc e off)) in *.
    assert (Hp : (if slot <? fst e then pack_q (D + S) else Ok []) = Ok (if slot <? fst e then le64 (D + S) else [])).
    { destruct (slot <? fst e); [apply pack_q_ok; lia | reflexivity]. }
    rewrite Hp. cbn [bind].
    unfold cm_at at 1. cbn [ms_hdr]. rewrite index_bytes_chdr. cbn [bind].
    fold (d_raw e off). fold (d_enc e off). fold len.
    rewrite (pack_q_ok (D + S)) by lia. cbn [bind].
    rewrite (pack_q_ok (D + (S + len))) by lia. cbn [bind].
    replace (N.max slot (fst e) + 1) with (fst e + 1) by lia.
    rewrite IH; [|exact Hs' | lia]. cbn [bind].
    rewrite empty_entries_pairs.
    replace (D + (S + len)) with (D + S + len) by lia.
    replace (S + len + sumlen (d_kl r (off + lenN (d_data e)))) with
            (S + (len + sumlen (d_kl r (off + lenN (d_data e))))) by lia.
    f_equal. f_equal. f_equal.
    rewrite !le64s_app. cbn [le64s flat_map]. rewrite app_nil_r, <- !app_assoc. reflexivity.
Qed.


Fixpoint fin_slot (ks : list (N * N)) (slot : N) : N :=
  match ks with [] => slot | (key, _) :: r => fin_slot r (key + 1) end.

Lemma fin_slot_ge : forall ks slot, sorted_from slot ks -> slot <= fin_slot ks slot.
Proof.
  induction ks as [|[key len] r IH]; intros slot H; cbn in *; [lia|].
  destruct H as [H1 H2]. specialize (IH _ H2). lia.
Qed.

Lemma fin_slot_le : forall ks slot T, sorted_from slot ks -> slot <= T ->
  (forall kl, In kl ks -> fst kl < T) -> fin_slot ks slot <= T.
Proof.
  induction ks as [|[key len] r IH]; intros slot T H Hs Hk; cbn in *; [lia|].
  destruct H as [H1 H2]. apply IH; [exact H2 | | intros kl Hin; apply Hk; right; exact Hin].
  specialize (Hk (key, len) (or_introl eq_refl)). cbn in Hk. lia.
Qed.

Lemma length_ixwords : forall ks slot base, sorted_from slot ks ->
  length (ixwords ks slot base) = (2 * N.to_nat (fin_slot ks slot - slot))%nat.
Proof.
  induction ks as [|[key len] r IH]; intros slot base H; cbn [ixwords fin_slot sorted_from] in *.
  - rewrite N.sub_diag. reflexivity.
  - destruct H as [H1 H2]. rewrite !app_length, length_pairs, IH by exact H2. cbn [length].
    pose proof (fin_slot_ge _ _ H2). lia.
Qed.

Lemma pad_index_explicit : forall fuel ix c T v,
  lenN ix = 16 * c -> c <= T -> (N.to_nat (T - c) <= fuel)%nat ->
  pad_index fuel (16 * T) ix (le64 v) = ix ++ le64s (pairs (N.to_nat (T - c)) v).
Proof.
  induction fuel as [|f IH]; intros ix c T v Hl Hc Hf.
  - replace (N.to_nat (T - c)) with 0%nat by lia. cbn. rewrite app_nil_r. reflexivity.
  - cbn [pad_index]. rewrite Hl.
    destruct (N.ltb_spec (16 * c) (16 * T)) as [Hlt|Hge].
    + rewrite (IH _ (c + 1) T v); [| | lia | lia].
      * replace (N.to_nat (T - c)) with (S (N.to_nat (T - (c + 1)))) by lia.
        unfold pairs. cbn [repeat concat]. rewrite le64s_app. cbn [le64s flat_map].
        rewrite app_nil_r, <- !app_assoc. reflexivity.
      * rewrite !lenN_app. unfold lenN at 2 3. rewrite length_le64. lia.
    + replace (N.to_nat (T - c)) with 0%nat by lia. cbn. rewrite app_nil_r. reflexivity.
Qed.

(* the words of the whole shard index: 2^m pairs *)
Definition index_words (ks : list (N * N)) (T D : N) : list N :=
  ixwords ks 0 D ++ pairs (N.to_nat (T - fin_slot ks 0)) (D + sumlen ks).

Definition shard_bytes (d : desc) : bytes :=
  let data := concat (map d_data d) in
  le64s (index_words (d_kl d 0) (2 ^ sp_m sp) (lenN data)) ++ data ++ concat (d_encs d 0).

Theorem shard_close_explicit : forall minis d,
  sp_m sp < 60 ->
  map_vals (ms_close sp) (sort_by_key minis) = lift d ->
  sorted_from 0 (d_kl d 0) -> (forall kl, In kl (d_kl d 0) -> fst kl < 2 ^ sp_m sp) ->
  lenN (concat (map d_data d)) + sumlen (d_kl d 0) < 2 ^ 64 ->
  shard_close sp ienc {| sh_minis := minis; sh_dirty := true |} = Ok (Some (shard_bytes d)).
Proof.
  intros minis d Hm Hl Hs Hk Hb. unfold shard_close. cbn [sh_dirty negb sh_minis].
  rewrite close_minis_factor, Hl, close_minis'_lift. cbn [bind app].
  change (lenN (@nil N)) with 0.
  set (data := concat (map d_data d)) in *. set (D := lenN data) in *. set (ks := d_kl d 0) in *.
  rewrite (write_indices_explicit d 0 0 D 0 Hs) by (fold ks; lia). fold ks. cbn [bind].
  rewrite N.add_0_r, N.add_0_l.
  rewrite (header_len_small _ Hm). set (T := 2 ^ sp_m sp) in *.
  pose proof (fin_slot_le ks 0 T Hs ltac:(lia) Hk) as Hfin.
  assert (Hlen : lenN (le64s (ixwords ks 0 D)) = 16 * fin_slot ks 0).
  { rewrite lenN_le64s. unfold lenN. rewrite (length_ixwords ks 0 D Hs). lia. }
  assert (Hz : forall W rest, lenN (le64s W) = 16 * T ->
            patch0 (le64s W) (repeat 0 (N.to_nat (16 * T)) ++ rest) = le64s W ++ rest).
  { intros W rest HW. unfold patch0. f_equal.
    replace (length (le64s W)) with (length (repeat 0 (N.to_nat (16 * T)))).
    - apply skipn_app_exact.
    - rewrite repeat_length. unfold lenN in HW. lia. }
  unfold shard_bytes, index_words. fold data. fold D. fold ks. fold T.
  rewrite Hlen.
  destruct (N.eqb_spec (16 * fin_slot ks 0) (16 * T)) as [E|E].
  - replace (T - fin_slot ks 0) with 0 by lia. cbn [N.to_nat pairs repeat concat]. rewrite app_nil_r.
    rewrite Hz by (rewrite Hlen; exact E). reflexivity.
  - destruct (N.leb_spec (16 * T) (16 * fin_slot ks 0)); [lia|].
    rewrite pack_q_ok by lia. cbn [bind].
    rewrite (pad_index_explicit _ _ (fin_slot ks 0) T (D + sumlen ks) Hlen Hfin) by lia.
    rewrite <- le64s_app. rewrite Hz; [reflexivity|].
    rewrite lenN_le64s. unfold lenN. rewrite app_length, (length_ixwords ks 0 D Hs), length_pairs. lia.
Qed.


(* ---------- what slot k of the shard index contains ---------- *)
Fixpoint slot_entry (ks : list (N * N)) (base k : N) : N * N :=
  match ks with
  | [] => (base, base)
  | (key, len) :: r =>
      if k <? key then (base, base)
      else if k =? key then (base, base + len)
      else slot_entry r (base + len) k
  end.

Lemma nth_pairs : forall n v j, (j < 2 * n)%nat -> nth j (pairs n v) 0 = v.
Proof.
  induction n as [|n IH]; intros v j Hj; [lia|].
  unfold pairs in *. cbn [repeat concat app].
  destruct j as [|[|j]]; [reflexivity | reflexivity |]. cbn [nth]. apply IH. lia.
Qed.

Lemma nth_slot_words : forall ks slot base T k,
  sorted_from slot ks -> slot <= k -> k < T -> fin_slot ks slot <= T ->
  let W := ixwords ks slot base ++ pairs (N.to_nat (T - fin_slot ks slot)) (base + sumlen ks) in
  nth (2 * N.to_nat (k - slot)) W 0 = fst (slot_entry ks base k) /\
  nth (2 * N.to_nat (k - slot) + 1) W 0 = snd (slot_entry ks base k).
Proof.
  induction ks as [|[key len] r IH]; intros slot base T k Hs Hk HT Hf; cbn [ixwords fin_slot sumlen fold_right slot_entry sorted_from snd] in *.
  - rewrite N.add_0_r. cbn [app fst snd]. split; apply nth_pairs; lia.
  - destruct Hs as [Hle Hs']. fold (sumlen r).
    pose proof (fin_slot_ge _ _ Hs') as Hge.
    destruct (N.ltb_spec k key) as [Hlt|Hnlt].
    + cbn [fst snd]. rewrite <- !app_assoc.
      split; (rewrite app_nth1 by (rewrite length_pairs; lia)); apply nth_pairs; lia.
    + destruct (N.eqb_spec k key) as [->|Hne].
      * cbn [fst snd]. rewrite <- !app_assoc.
        split; (rewrite app_nth2 by (rewrite length_pairs; lia)); rewrite length_pairs.
        -- replace (2 * N.to_nat (key - slot) - 2 * N.to_nat (key - slot))%nat with 0%nat by lia. reflexivity.
        -- replace (2 * N.to_nat (key - slot) + 1 - 2 * N.to_nat (key - slot))%nat with 1%nat by lia. reflexivity.
      * assert (Hgt : key + 1 <= k) by lia.
        destruct (IH (key + 1) (base + len) T k Hs' Hgt HT Hf) as [I1 I2].
        replace (base + (len + sumlen r)) with (base + len + sumlen r) by lia.
        rewrite <- !app_assoc.
        split; (rewrite app_nth2 by (rewrite length_pairs; lia)); rewrite length_pairs.
        -- replace (2 * N.to_nat (k - slot) - 2 * N.to_nat (key - slot))%nat
             with (S (S (2 * N.to_nat (k - (key + 1))))) by lia.
           cbn [app nth]. exact I1.
        -- replace (2 * N.to_nat (k - slot) + 1 - 2 * N.to_nat (key - slot))%nat
             with (S (S (2 * N.to_nat (k - (key + 1)) + 1))) by lia.
           cbn [app nth]. exact I2.
Qed.

Lemma length_index_words : forall ks T D, sorted_from 0 ks -> fin_slot ks 0 <= T ->
  length (index_words ks T D) = (2 * N.to_nat T)%nat.
Proof.
  intros ks T D Hs Hf. unfold index_words. rewrite app_length, (length_ixwords ks 0 D Hs), length_pairs. lia.
Qed.

(* entry of a minishard that is present / of an unused slot *)
Lemma slot_entry_bounds : forall ks base k,
  base <= fst (slot_entry ks base k) /\ fst (slot_entry ks base k) <= snd (slot_entry ks base k) /\
  snd (slot_entry ks base k) <= base + sumlen ks.
Proof.
  induction ks as [|[key len] r IH]; intros base k; cbn [slot_entry sumlen fold_right snd].
  - cbn. lia.
  - fold (sumlen r). destruct (k <? key); [cbn; lia|]. destruct (k =? key); [cbn; lia|].
    destruct (IH (base + len) k) as (A & B & C). lia.
Qed.

Lemma slot_entry_unused : forall ks base k, (forall kl, In kl ks -> fst kl <> k) ->
  fst (slot_entry ks base k) = snd (slot_entry ks base k).
Proof.
  induction ks as [|[key len] r IH]; intros base k H; cbn [slot_entry]; [reflexivity|].
  destruct (k <? key); [reflexivity|].
  destruct (N.eqb_spec k key) as [E|E]; [exfalso; apply (H (key, len)); [left; reflexivity | cbn; congruence]|].
  apply IH. intros kl Hin. apply H. right. exact Hin.
Qed.

Lemma slot_entry_present : forall pre key len post slot base,
  sorted_from slot (pre ++ (key, len) :: post) ->
  slot_entry (pre ++ (key, len) :: post) base key = (base + sumlen pre, base + sumlen pre + len).
Proof.
  induction pre as [|[k0 l0] pre IH]; intros key len post slot base Hs.
  - cbn. rewrite N.ltb_irrefl, N.eqb_refl, N.add_0_r. reflexivity.
  - cbn [app slot_entry sorted_from sumlen fold_right snd] in *. fold (sumlen pre).
    destruct Hs as [H1 H2].
    assert (Hmid : forall pre' s, sorted_from s (pre' ++ (key, len) :: post) -> s <= key).
    { induction pre' as [|[k1 l1] pre' IH']; intros s H; cbn in H.
      - lia.
      - destruct H as [Ha Hb]. specialize (IH' _ Hb). lia. }
    assert (k0 < key) by (specialize (Hmid pre (k0 + 1) H2); lia).
    destruct (N.ltb_spec key k0); [lia|]. destruct (N.eqb_spec key k0); [lia|].
    rewrite (IH key len post (k0 + 1) (base + l0) H2). f_equal; lia.
Qed.

End Close.
