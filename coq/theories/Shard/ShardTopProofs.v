(* Composition: a whole writing session, then the readers on the files. *)
From Coq Require Import NArith ZArith List Bool Lia Permutation Sorted.
From NGS Require Import Val Ints Morton MortonProofs ShardBytes MiniShard ShardFile ShardReader
  ShardSpecReader ShardCanon MiniShardProofs ShardFileProofs ShardLayoutProofs ShardCloseProofs
  ShardSpecProofs ShardWitness.
Import ListNotations.
Open Scope N_scope.

Lemma bytes_eqb_eq : forall a b, bytes_eqb a b = true <-> a = b.
Proof.
  induction a as [|x a IH]; intros [|y b]; simpl; split; intro H; try reflexivity; try discriminate.
  - apply andb_prop in H. destruct H as [H1 H2]. apply N.eqb_eq in H1. apply IH in H2. congruence.
  - injection H as -> ->. rewrite N.eqb_refl. apply IH. reflexivity.
Qed.

Lemma alookup_in : forall {V} (l : list (N * V)) k v,
  NoDup (akeys l) -> In (k, v) l -> alookup k l = Some v.
Proof.
  intros V l k v. induction l as [|[k0 v0] r IH]; simpl; intros Hnd Hin; [tauto|].
  inversion Hnd as [|? ? Hn Hr]; subst. destruct Hin as [E|Hin].
  - injection E as -> ->. rewrite N.eqb_refl. reflexivity.
  - destruct (N.eqb_spec k0 k) as [->|_]; [|apply IH; assumption].
    exfalso. apply Hn. change k with (fst (k, v)). apply in_map. exact Hin.
Qed.

Lemma alookup_map_keys : forall {V} (g : N -> V) L k,
  alookup k (map (fun x => (x, g x)) L) = if existsb (N.eqb k) L then Some (g k) else None.
Proof.
  intros V g L k. induction L as [|x r IH]; [reflexivity|]. cbn [map alookup existsb].
  rewrite (N.eqb_sym k x). destruct (N.eqb_spec x k) as [->|]; [reflexivity | exact IH].
Qed.

Lemma sorted_nodup : forall l, StronglySorted N.lt l -> NoDup l.
Proof.
  intros l H. induction H as [|a r Hs IH Ha]; constructor; [|exact IH].
  rewrite Forall_forall in Ha. intro Hin. specialize (Ha a Hin). lia.
Qed.

Section Top.
Variable sp : sparams.
Variable enc ienc : bytes -> bytes.
Hypothesis HB : cbits sp < 2 ^ 64.
Notation skey := (shard_key_model (sp_p sp) (sp_m sp) (sp_s sp)).
Notation mkey := (minishard_key_model (sp_p sp) (sp_m sp)).
Notation T := (2 ^ sp_m sp).

(* the minishards of shard sk after storing ops, in slot order *)
Definition used_minis (ops : list (N * bytes)) (sk : N) : list N :=
  sort_set (map (fun o => mkey (fst o)) (filter (fun o => skey (fst o) =? sk) ops)).

Definition desc_elem (ops : list (N * bytes)) (sk mk : N) : N * store_map :=
  (mbits sp (fst (hd (0, []) (routed sp sk mk ops))), routed sp sk mk ops).

Definition desc_of (ops : list (N * bytes)) (sk : N) : desc :=
  map (fun mk => (mk, desc_elem ops sk mk)) (used_minis ops sk).

Lemma in_used_minis : forall ops sk mk, In mk (used_minis ops sk) <-> routed sp sk mk ops <> [].
Proof.
  intros ops sk mk. unfold used_minis. rewrite in_sort_set, in_map_iff. split.
  - intros (o & Em & Ho). apply filter_In in Ho. destruct Ho as [Hin Hs].
    assert (Hr : In o (routed sp sk mk ops)).
    { unfold routed. apply filter_In. split; [exact Hin|]. unfold routes. rewrite Hs, Em, N.eqb_refl. reflexivity. }
    intro E. rewrite E in Hr. exact Hr.
  - intro Hne. destruct (routed sp sk mk ops) as [|o l] eqn:Er; [congruence|].
    assert (Hr : In o (routed sp sk mk ops)) by (rewrite Er; left; reflexivity).
    unfold routed in Hr. apply filter_In in Hr. destruct Hr as [Hin Hs]. unfold routes in Hs.
    apply andb_prop in Hs. destruct Hs as [Ha Hb]. apply N.eqb_eq in Hb.
    exists o. split; [exact Hb|]. apply filter_In. split; assumption.
Qed.

(* the closed minishards of a shard, sorted, are the descriptor *)
Lemma closed_minis_are_desc : forall ops sk sh,
  ops_valid sp ops ->
  alookup sk (fst (run_cmc_stores sp enc [] ops)) = Some sh ->
  map_vals (ms_close sp) (sort_by_key (sh_minis sh)) = lift sp enc (desc_of ops sk).
Proof.
  intros ops sk sh Hv Hsh.
  destruct (run_step sp enc ops []) as (Hg & Hw & _).
  set (st := fst (run_cmc_stores sp enc [] ops)) in *.
  assert (W0 : WFS []) by (split; [constructor | intros k s0 H; discriminate]).
  destruct (Hw W0) as [_ Hs]. destruct (Hs _ _ Hsh) as (Hnd & _ & _).
  assert (Hget : forall mk, alookup mk (sh_minis sh) = after sp enc None (routed sp sk mk ops)).
  { intro mk. specialize (Hg sk mk). unfold get2 in Hg at 1. rewrite Hsh in Hg. rewrite Hg.
    unfold get2. reflexivity. }
  rewrite <- sort_map_vals.
  destruct (sort_keys_lookup (map_vals (ms_close sp) (sh_minis sh))) as [Kk Lk];
    [rewrite akeys_map_vals; exact Hnd|].
  apply assoc_eq.
  - rewrite Kk, akeys_map_vals.
    assert (Ek : akeys (lift sp enc (desc_of ops sk)) = used_minis ops sk).
    { unfold lift, desc_of, akeys. rewrite !map_map. cbn [fst]. apply map_id. }
    rewrite Ek.
    apply sorted_ext; [apply sort_set_sorted | unfold used_minis; apply sort_set_sorted|].
    intro mk. rewrite in_sort_set, in_used_minis.
    rewrite in_akeys_alookup, Hget. unfold after. destruct (routed sp sk mk ops); split; congruence.
  - rewrite Kk. apply sorted_nodup, sort_set_sorted.
  - intro mk. rewrite Lk, alookup_map_vals, Hget.
    unfold lift, desc_of. rewrite map_map. cbn [fst snd].
    rewrite (alookup_map_keys (fun x => (closed_mini sp enc (fst (desc_elem ops sk x)) (snd (desc_elem ops sk x)), Ok tt))).
    destruct (existsb (N.eqb mk) (used_minis ops sk)) eqn:Ex.
    + apply existsb_exists in Ex. destruct Ex as (x & Hx & Ex). apply N.eqb_eq in Ex. subst x.
      apply in_used_minis in Hx.
      destruct (routed sp sk mk ops) as [|x l] eqn:Er; [congruence|].
      destruct (routed_class sp HB _ _ _ _ _ Hv Er) as (HK & Hndr & Hcl).
      destruct (mini_close_canonical sp enc _ (x :: l) HK HB ltac:(discriminate) Hndr Hcl) as (stf & Erun & Ecl).
      unfold after. cbn [mini_of option_map]. rewrite Erun. cbn [fst]. rewrite Ecl.
      unfold desc_elem. rewrite Er. cbn [hd fst snd]. reflexivity.
    + assert (Hno : routed sp sk mk ops = []).
      { destruct (routed sp sk mk ops) eqn:Er; [reflexivity|]. exfalso.
        assert (Hin : In mk (used_minis ops sk)) by (apply in_used_minis; rewrite Er; discriminate).
        assert (existsb (N.eqb mk) (used_minis ops sk) = true)
          by (apply existsb_exists; exists mk; split; [exact Hin | apply N.eqb_refl]).
        congruence. }
      rewrite Hno. reflexivity.
Qed.


Lemma keys_lt : forall id, id < 2 ^ 64 -> mkey id < T /\ skey id < 2 ^ sp_s sp /\
  mkey id = spec_minishard (sp_p sp) (sp_m sp) id /\ skey id = spec_shard (sp_p sp) (sp_m sp) (sp_s sp) id.
Proof.
  intros id Hid. assert (Hms : sp_m sp + sp_s sp < 2 ^ 64) by (unfold cbits in HB; lia).
  destruct (routing_is_spec (sp_p sp) (sp_m sp) (sp_s sp) id Hid Hms) as [E1 E2].
  rewrite E1, E2. unfold spec_minishard, spec_shard.
  repeat split; apply N.mod_lt, pow2_nz.
Qed.

(* the hypothesis on sizes: every shard file stays below 2^64 bytes of payload + indices *)
Definition sizes_ok (ops : list (N * bytes)) : Prop :=
  forall sk, lenN (concat (map (d_data sp enc) (desc_of ops sk))) +
             sumlen (d_kl sp enc ienc (desc_of ops sk) 0) < 2 ^ 64.

Lemma d_kl_keys : forall d off, map fst (d_kl sp enc ienc d off) = map fst d.
Proof. induction d as [|e r IH]; intro off; cbn [d_kl map fst]; [reflexivity | rewrite IH; reflexivity]. Qed.

Lemma sorted_from_keys : forall (g : N -> N * store_map) L, StronglySorted N.lt L ->
  forall slot off, (forall k, In k L -> slot <= k) ->
  sorted_from slot (d_kl sp enc ienc (map (fun mk => (mk, g mk)) L) off).
Proof.
  intros g L H. induction H as [|a r Hs IH Ha]; intros slot off Hk; cbn [map d_kl sorted_from fst]; [exact I|].
  split; [apply Hk; left; reflexivity|]. apply IH.
  rewrite Forall_forall in Ha. intros k Hin. specialize (Ha k Hin). lia.
Qed.

Lemma desc_of_ok : forall ops sk, ops_valid sp ops -> sizes_ok ops ->
  desc_ok sp enc ienc (desc_of ops sk).
Proof.
  intros ops sk Hv Hsz. unfold desc_ok. split; [|split; [|split]].
  - apply Forall_forall. intros e He. unfold desc_of in He. apply in_map_iff in He.
    destruct He as (mk & <- & Hmk). apply in_used_minis in Hmk.
    destruct (routed sp sk mk ops) as [|x l] eqn:Er; [congruence|].
    destruct (routed_class sp HB _ _ _ _ _ Hv Er) as (HK & Hnd & Hcl).
    exists ((fst x / 2 ^ sp_p sp) mod 2 ^ (sp_s sp + sp_m sp)). unfold desc_elem. rewrite Er. cbn [fst snd hd].
    split; [exact HK|]. split; [reflexivity|]. split; [exact Hcl | discriminate].
  - unfold desc_of. apply sorted_from_keys; [unfold used_minis; apply sort_set_sorted|]. intros; lia.
  - intros kl Hin. assert (Hk : In (fst kl) (map fst (d_kl sp enc ienc (desc_of ops sk) 0))) by (apply in_map; exact Hin).
    rewrite d_kl_keys in Hk. unfold desc_of in Hk. rewrite map_map in Hk. cbn [fst] in Hk. rewrite map_id in Hk.
    unfold used_minis in Hk. rewrite in_sort_set in Hk. apply in_map_iff in Hk. destruct Hk as (o & <- & Ho).
    apply filter_In in Ho. destruct Ho as [Hin' _]. destruct Hv as [_ Hb].
    destruct (Hb (fst o) (in_map fst _ _ Hin')) as [Hlt _]. apply (keys_lt _ Hlt).
  - apply Hsz.
Qed.

Lemma desc_position : forall ops id b, ops_valid sp ops -> In (id, b) ops ->
  exists pre e post, desc_of ops (skey id) = pre ++ e :: post /\ fst e = mkey id /\
                     alookup id (snd (snd e)) = Some b.
Proof.
  intros ops id b Hv Hin.
  assert (Hr : In (id, b) (routed sp (skey id) (mkey id) ops)).
  { unfold routed. apply filter_In. split; [exact Hin|]. unfold routes. cbn [fst]. rewrite !N.eqb_refl. reflexivity. }
  assert (Hu : In (mkey id) (used_minis ops (skey id))).
  { apply in_used_minis. intro E. rewrite E in Hr. exact Hr. }
  destruct (in_split _ _ Hu) as (l1 & l2 & El).
  exists (map (fun mk => (mk, desc_elem ops (skey id) mk)) l1), (mkey id, desc_elem ops (skey id) (mkey id)),
         (map (fun mk => (mk, desc_elem ops (skey id) mk)) l2).
  split; [unfold desc_of; rewrite El, map_app; reflexivity|]. split; [reflexivity|].
  unfold desc_elem. cbn [snd]. apply alookup_in; [|exact Hr].
  unfold akeys, routed. apply nodup_map_filter. apply Hv.
Qed.

(* every minishard of the descriptor holds an identifier routed to its slot *)
Lemma desc_of_routes : forall ops k e, ops_valid sp ops -> In e (desc_of ops k) ->
  exists id, In id (akeys (snd (snd e))) /\
             spec_minishard (sp_p sp) (sp_m sp) id = fst e /\
             spec_shard (sp_p sp) (sp_m sp) (sp_s sp) id = k.
Proof.
  intros ops k e Hv He. unfold desc_of in He. apply in_map_iff in He. destruct He as (mk & <- & Hmk).
  apply in_used_minis in Hmk. cbn [fst snd]. unfold desc_elem. cbn [snd].
  destruct (routed sp k mk ops) as [|x l] eqn:Er; [congruence|].
  assert (Hx : In x (routed sp k mk ops)) by (rewrite Er; left; reflexivity).
  unfold routed in Hx. apply filter_In in Hx. destruct Hx as [Hxin Hxr].
  unfold routes in Hxr. apply andb_prop in Hxr. destruct Hxr as [Ra Rb].
  apply N.eqb_eq in Ra. apply N.eqb_eq in Rb.
  destruct Hv as [_ Hb]. destruct (Hb (fst x) (in_map fst _ _ Hxin)) as [Hlt64 _].
  destruct (keys_lt (fst x) Hlt64) as (_ & _ & Em & Es).
  exists (fst x). split; [left; reflexivity|]. split; congruence.
Qed.

(* ---------- the files of a session ---------- *)
Lemma plain_files_map : forall {A} (g : A -> bytes) (h : A -> bytes) l,
  plain_files (map (fun x => (g x, Ok (Some (h x)))) l) = map (fun x => (g x, h x)) l.
Proof. intros A g h l. induction l as [|x r IH]; [reflexivity|]. cbn [map plain_files]. rewrite IH. reflexivity. Qed.

Lemma in_sorted_lookup : forall {V} (l : list (N * V)) k v, NoDup (akeys l) ->
  In (k, v) (sort_by_key l) -> alookup k l = Some v.
Proof.
  intros V l k v Hnd Hin. destruct (sort_keys_lookup l Hnd) as [Kk Lk].
  rewrite <- Lk. apply alookup_in; [|exact Hin]. rewrite Kk. apply sorted_nodup, sort_set_sorted.
Qed.

Theorem scale_close_explicit : forall ops,
  sp_m sp < 60 -> ops_valid sp ops -> sizes_ok ops ->
  let st := fst (run_cmc_stores sp enc [] ops) in
  scale_close sp ienc st =
  map (fun kv => (shard_file_name sp (fst kv), Ok (Some (shard_bytes sp enc ienc (desc_of ops (fst kv))))))
      (sort_by_key st).
Proof.
  intros ops Hm Hv Hsz st. unfold scale_close.
  destruct (run_step sp enc ops []) as (_ & Hw & _). fold st in Hw.
  assert (W0 : WFS []) by (split; [constructor | intros k s0 H; discriminate]).
  destruct (Hw W0) as [Hnd Hs].
  apply map_ext_in. intros [k sh] Hin. cbn [fst]. f_equal.
  pose proof (in_sorted_lookup st k sh Hnd Hin) as Hl.
  destruct (Hs _ _ Hl) as (_ & Hd & _).
  destruct (desc_of_ok ops k Hv Hsz) as (_ & Hso & Hk & Hbd).
  destruct sh as [minis dirty]. cbn [sh_dirty] in Hd. subst dirty.
  apply shard_close_explicit; try assumption.
  apply (closed_minis_are_desc ops k {| sh_minis := minis; sh_dirty := true |} Hv Hl).
Qed.

Lemma name_inj : forall k1 k2, k1 < 2 ^ sp_s sp -> k2 < 2 ^ sp_s sp ->
  shard_file_name sp k1 = shard_file_name sp k2 -> k1 = k2.
Proof.
  intros k1 k2 H1 H2 E. unfold shard_file_name in E. apply app_inv_tail in E.
  rewrite !shard_name_is_spec in E by assumption.
  pose proof (spec_name_unhex _ _ H1) as U1. pose proof (spec_name_unhex _ _ H2) as U2.
  rewrite E in U1. congruence.
Qed.

Lemma blookup_files : forall {V} (F : N -> bytes) (l : list (N * V)) k0,
  In k0 (akeys l) -> (forall k, In k (akeys l) -> k < 2 ^ sp_s sp) ->
  blookup (spec_file_name (sp_s sp) k0) (map (fun kv => (shard_file_name sp (fst kv), F (fst kv))) l)
  = Some (F k0).
Proof.
  intros V F l k0. induction l as [|[k1 v1] r IH]; intros Hin Hlt; [destruct Hin|].
  cbn [map blookup fst].
  assert (H0 : k0 < 2 ^ sp_s sp) by (apply Hlt; exact Hin).
  assert (H1 : k1 < 2 ^ sp_s sp) by (apply Hlt; left; reflexivity).
  assert (En : spec_file_name (sp_s sp) k0 = shard_file_name sp k0).
  { unfold spec_file_name, shard_file_name. rewrite shard_name_is_spec by exact H0. reflexivity. }
  rewrite En.
  destruct (bytes_eqb (shard_file_name sp k1) (shard_file_name sp k0)) eqn:Eb.
  - apply bytes_eqb_eq in Eb. apply name_inj in Eb; try assumption. subst. reflexivity.
  - rewrite <- En. apply IH.
    + destruct Hin as [E|Hin]; [|exact Hin]. cbn in E. subst k1.
      assert (bytes_eqb (shard_file_name sp k0) (shard_file_name sp k0) = true) by (apply bytes_eqb_eq; reflexivity).
      congruence.
    + intros k Hk. apply Hlt. right. exact Hk.
Qed.


Variable idec ddec : bytes -> option bytes.
Hypothesis Hidec : forall b, idec (ienc b) = Some b.
Hypothesis Hddec : forall b, ddec (enc b) = Some b.
Hypothesis Hne : forall b, b <> [] -> ienc b <> [].

(* the directory written by a session *)
Definition session_files (ops : list (N * bytes)) : list (bytes * bytes) :=
  plain_files (scale_close sp ienc (fst (run_cmc_stores sp enc [] ops))).

Lemma session_files_explicit : forall ops,
  sp_m sp < 60 -> ops_valid sp ops -> sizes_ok ops ->
  session_files ops =
  map (fun kv => (shard_file_name sp (fst kv), shard_bytes sp enc ienc (desc_of ops (fst kv))))
      (sort_by_key (fst (run_cmc_stores sp enc [] ops))).
Proof.
  intros ops Hm Hv Hsz. unfold session_files. rewrite (scale_close_explicit ops Hm Hv Hsz).
  apply (plain_files_map (fun kv => shard_file_name sp (fst kv))).
Qed.

Lemma shard_keys_facts : forall ops, ops_valid sp ops ->
  let st := fst (run_cmc_stores sp enc [] ops) in
  (forall k, In k (akeys (sort_by_key st)) -> k < 2 ^ sp_s sp) /\
  (forall id b, In (id, b) ops -> In (skey id) (akeys (sort_by_key st))).
Proof.
  intros ops Hv st.
  destruct (run_step sp enc ops []) as (_ & Hw & Hk). fold st in Hw, Hk.
  assert (W0 : WFS []) by (split; [constructor | intros k s0 H; discriminate]).
  destruct (Hw W0) as [Hnd _].
  destruct (sort_keys_lookup st Hnd) as [Kk _]. rewrite Kk.
  split.
  - intros k Hin. rewrite in_sort_set, in_akeys_alookup, Hk in Hin. cbn [alookup] in Hin.
    destruct Hin as [(o & Ho & <-)|Hbad]; [|congruence].
    destruct Hv as [_ Hb]. destruct (Hb (fst o) (in_map fst _ _ Ho)) as [Hlt _]. apply (keys_lt _ Hlt).
  - intros id b Hin. rewrite in_sort_set, in_akeys_alookup, Hk. left. exists (id, b). split; [exact Hin | reflexivity].
Qed.

(* spec_reads_canonical: for every parameter triple, every set of chunks with
   distinct identifiers and every store order, a reader written from the format
   document retrieves exactly the stored bytes of every stored chunk *)
Theorem spec_reads_canonical : forall ops id b,
  sp_m sp < 60 -> ops_valid sp ops -> sizes_ok ops -> In (id, b) ops ->
  spec_fetch (sp_m sp) (sp_s sp) (sp_p sp) idec ddec (session_files ops) id = SFound b.
Proof.
  intros ops id b Hm Hv Hsz Hin.
  assert (Hid : id < 2 ^ 64) by (destruct Hv as [_ Hb]; apply (Hb id (in_map fst _ _ Hin))).
  destruct (keys_lt id Hid) as (_ & _ & Em & Es).
  rewrite (spec_fetch_unfold sp idec ddec), <- Em, <- Es.
  rewrite (session_files_explicit ops Hm Hv Hsz).
  destruct (shard_keys_facts ops Hv) as [Hlt Hpres].
  rewrite (blookup_files (fun k => shard_bytes sp enc ienc (desc_of ops k)) _ (skey id)
             (Hpres id b Hin) Hlt).
  destruct (desc_position ops id b Hv Hin) as (pre & e & post & Ed & Ee & Hl).
  rewrite <- Ee.
  apply (spec_read_shard sp enc ienc idec ddec HB Hidec Hddec Hne _ pre e post id b
           (desc_of_ok ops (skey id) Hv Hsz) Ed Hl).
Qed.

End Top.

(* Shard.close never fails on a valid session: struct.pack overflow and the
   "too many minishards" ShardedIOError are unreachable *)
Theorem close_all_ok : forall sp enc ienc ops, cbits sp < 2 ^ 64 ->
  sp_m sp < 60 -> ops_valid sp ops -> sizes_ok sp enc ienc ops ->
  forall name r, In (name, r) (scale_close sp ienc (fst (run_cmc_stores sp enc [] ops))) ->
  exists b, r = Ok (Some b).
Proof.
  intros sp enc ienc ops HB Hm Hv Hsz name r Hin.
  rewrite (scale_close_explicit sp enc ienc HB ops Hm Hv Hsz) in Hin.
  apply in_map_iff in Hin. destruct Hin as (kv & E & _). injection E as _ <-. eexists. reflexivity.
Qed.

(* non-vacuity of the hypotheses of spec_reads_canonical *)
Example top_hyps_example :
  let sp := {| sp_m := 2; sp_s := 2; sp_p := 0 |} in
  let ops := [(10, [9; 9; 9]); (8, [2; 2; 2]); (26, [])] in
  cbits sp < 2 ^ 64 /\ sp_m sp < 60 /\ ops_valid sp ops /\
  sizes_ok sp (fun b => b) (fun b => b) ops /\
  spec_fetch 2 2 0 (fun b => Some b) (fun b => Some b) (session_files sp (fun b => b) (fun b => b) ops) 10
    = SFound [9; 9; 9].
Proof.
  cbv zeta. split; [reflexivity|]. split; [reflexivity|]. split; [|split].
  - split.
    + repeat constructor; simpl; intuition discriminate.
    + intros id [<-|[<-|[<-|[]]]]; vm_compute; split; reflexivity.
  - intro sk. destruct (N.eq_dec sk 2) as [->|Hne].
    + vm_compute. reflexivity.
    + assert (E : desc_of {| sp_m := 2; sp_s := 2; sp_p := 0 |} [(10, [9; 9; 9]); (8, [2; 2; 2]); (26, [])] sk = []).
      { unfold desc_of, used_minis. cbn [filter fst sp_p sp_m sp_s].
        change (shard_key_model 0 2 2 10) with 2. change (shard_key_model 0 2 2 8) with 2.
        change (shard_key_model 0 2 2 26) with 2.
        destruct (N.eqb_spec 2 sk) as [E|_]; [congruence|]. reflexivity. }
      rewrite E. vm_compute. reflexivity.
  - vm_compute. reflexivity.
Qed.
