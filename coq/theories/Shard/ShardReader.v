(* Model of the package's own reader: sharded_base.ShardCMC.populate_minishard_dict,
   ReadableMiniShardCMC (constructor and fetch_cmc_chunk), Shard.read_bytes
   (single .shard file or the legacy .index/.data pair), Shard.fetch_cmc_chunk
   and ShardedScaleBase.fetch_cmc_chunk on a freshly opened accessor.

   The reader is a function of the file contents only (a Shard object caches
   its parsed indices but never changes them).

   Decoders shard_spec.index_decoder / data_decoder are arguments returning an
   outcome (identity for "raw"; zlib.decompress for "gzip": zlib.error is
   Crash ZlibError).

   read_bytes: fp.seek(offset); fp.read(length).  Offsets >= 2^63 make seek
   raise ValueError; lengths >= 2^63 - 1 make read raise OverflowError.  Below
   those limits the result is the clamped slice.  (Between about 2^34 and 2^63
   the real read() may raise MemoryError and seek() EINVAL depending on the
   machine and file system; that band is outside the model and the harness
   keeps its malformed files below it.) *)
From Coq Require Import NArith ZArith List Bool Lia.
From NGS Require Import Val Ints Morton ShardBytes MiniShard.
Import ListNotations.
Open Scope N_scope.

Inductive src :=
| SrcNone                               (* neither .shard nor .index+.data exist *)
| SrcShard (f : bytes)                  (* <name>.shard *)
| SrcLegacy (idx dat : bytes).          (* <name>.index and <name>.data *)

Definition two63 : N := 2 ^ 63.

Definition file_read (f : bytes) (off len : N) : outcome bytes :=
  if two63 <=? off then Crash ValueError
  else if two63 - 1 <=? len then Crash OverflowError
  else Ok (slice off len f).

Section Reader.
Variable sp : sparams.
Variable idx_dec : bytes -> outcome bytes.
Variable data_dec : bytes -> outcome bytes.

Definition hl : N := header_len_model (sp_m sp).

(* Shard.read_bytes *)
Definition read_bytes (s : src) (off len : N) : outcome bytes :=
  match s with
  | SrcNone => IOErr                                  (* "Writeonly shard" *)
  | SrcShard f => file_read f off len
  | SrcLegacy idx dat =>
      if off <? hl then file_read idx off len else file_read dat (off - hl) len
  end.

(* ReadableMiniShardCMC.__init__ followed by minishard_index[0] *)
Definition parse_index (b : bytes) : outcome (list N) :=
  bind (frombuffer64 b) (fun ws =>
  if negb (Nat.modulo (length ws) 3 =? 0)%nat then IOErr
  else match ws with [] => Crash IndexError | _ => Ok ws end).

Fixpoint pairs_of (l : list N) : list (N * N) :=    (* zip(o[::2], o[1::2]) *)
  match l with a :: b :: r => (a, b) :: pairs_of r | _ => [] end.

(* populate_minishard_dict: ro_minishard_dict as key -> decoded index words *)
Fixpoint populate_slots (s : src) (slots : list (N * N)) (d : list (N * list N))
  : outcome (list (N * list N)) :=
  match slots with
  | [] => Ok d
  | (offset, e) :: r =>
      let start := add64 offset hl in
      let len := sub64 e offset in
      if len =? 0 then populate_slots s r d          (* unused slot: skipped *)
      else
        bind (read_bytes s start len) (fun raw =>
        bind (idx_dec raw) (fun dec =>
        bind (parse_index dec) (fun ws =>
        let key := minishard_key_model (sp_p sp) (sp_m sp) (hd 0 ws) in
        populate_slots s r (aset key ws d))))
  end.

Definition populate (s : src) : outcome (list (N * list N)) :=
  match s with
  | SrcNone => Ok []                                  (* can_read_cmc is False *)
  | _ =>
      bind (read_bytes s 0 hl) (fun h =>
      bind (frombuffer64 h) (fun ws => populate_slots s (pairs_of ws) []))
  end.

(* the index walk of fetch_cmc_chunk: chunk_idx runs over the FLAT array *)
Fixpoint walk (rest : list N) (tally : N) (i : nat) (cmc : N) : outcome (nat * N) :=
  if tally <? cmc then
    match rest with
    | [] => Crash IndexError
    | d :: r => walk r (add64 tally d) (S i) cmc
    end
  else Ok (i, tally).

Definition mini_fetch_raw (s : src) (ws : list N) (cmc : N) : outcome bytes :=
  match ws with
  | [] => Crash IndexError
  | w0 :: rest =>
      let n := Nat.div (length ws) 3 in
      bind (walk rest w0 0 cmc) (fun '(i, tally) =>
      if negb (tally =? cmc) then IOErr else
      match nth_error ws (2 * n + i) with
      | None => Crash IndexError
      | Some blen =>
          let off := add64 (add64 hl (sum64 (wslice n (n + i + 1) ws)))
                           (sum64 (wslice (2 * n) (2 * n + i) ws)) in
          read_bytes s off blen
      end)
  end.

(* Shard.fetch_cmc_chunk on an already constructed Shard (d = ro_minishard_dict) *)
Definition fetch_with (s : src) (d : list (N * list N)) (cmc : N) : outcome bytes :=
  match s with
  | SrcNone => Crash AssertionError                   (* assert shard.can_read_cmc *)
  | _ =>
      match alookup (minishard_key_model (sp_p sp) (sp_m sp) cmc) d with
      | None => Crash AssertionError                  (* assert minishard_key in ro_minishard_dict *)
      | Some ws => mini_fetch_raw s ws cmc
      end
  end.

(* Shard(...) construction, then fetch_cmc_chunk *)
Definition shard_fetch_raw (s : src) (cmc : N) : outcome bytes :=
  bind (populate s) (fun d => fetch_with s d cmc).

Definition shard_fetch (s : src) (cmc : N) : outcome bytes :=
  bind (shard_fetch_raw s cmc) data_dec.

(* ShardedScale on a directory: file name -> source *)
Definition scale_fetch (dir : N -> src) (cmc : N) : outcome bytes :=
  shard_fetch (dir (shard_key_model (sp_p sp) (sp_m sp) (sp_s sp) cmc)) cmc.

End Reader.

(* ShardCMC.__init__: which files stand for shard number [key] in a directory
   listing (file name -> content) *)
Definition ext_shard : bytes := [46; 115; 104; 97; 114; 100].   (* ".shard" *)
Definition ext_index : bytes := [46; 105; 110; 100; 101; 120].   (* ".index" *)
Definition ext_data : bytes := [46; 100; 97; 116; 97].          (* ".data" *)

Definition dir_of (s : N) (files : list (bytes * bytes)) (key : N) : src :=
  let nm := shard_name_model s key in
  match blookup (nm ++ ext_shard) files with
  | Some f => SrcShard f
  | None =>
      match blookup (nm ++ ext_index) files, blookup (nm ++ ext_data) files with
      | Some i, Some d => SrcLegacy i d
      | _, _ => SrcNone
      end
  end.
