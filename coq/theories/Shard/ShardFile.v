(* Model of the writing side of sharded_file_accessor: Shard.store_cmc_chunk,
   Shard.close (the assembly of one .shard file), ShardedScale and
   ShardedFileAccessor.store_chunk / close for one scale.

   The encoders shard_spec.data_encoder / index_encoder are arguments
   (identity for "raw", the harness's zlib.compress for "gzip").

   Scope notes (faithfulness):
   * A Shard constructed over an existing file parses it first; the writer
     model covers a fresh directory (no file present), which is what the
     conversion scripts produce.  Re-opening is the reader model.
   * Python dicts are insertion ordered.  Shard.close sorts the minishard keys,
     ShardedScale.close writes one file per shard: the resulting directory
     content does not depend on the dict order, and the model lists the files
     in increasing shard-key order.  If a close raises, Python stops at the
     first failing shard in insertion order; the model reports the outcome of
     every shard separately.
   * struct.pack("<Q", v) raises struct.error for v >= 2^64: modelled. *)
From Coq Require Import NArith ZArith List Bool Lia.
From NGS Require Import Val Ints Morton ShardBytes MiniShard.
Import ListNotations.
Open Scope N_scope.

Section Writer.
Variable sp : sparams.
Variable data_enc : bytes -> bytes.
Variable idx_enc : bytes -> bytes.

(* ---------- Shard ---------- *)
Record shard := { sh_minis : list (N * mini); sh_dirty : bool }.
Definition shard_init : shard := {| sh_minis := []; sh_dirty := false |}.

Definition shard_store (st : shard) (buf : bytes) (cmc : N) : shard * outcome unit :=
  let k := minishard_key_model (sp_p sp) (sp_m sp) cmc in
  let ms := match alookup k (sh_minis st) with Some x => x | None => ms_init end in
  let '(ms', r) := ms_store sp data_enc ms buf cmc in
  ({| sh_minis := aset k ms' (sh_minis st); sh_dirty := true |}, r).

(* first loop of Shard.close: close every minishard in key order, write its
   data, patch its offset (minishard.offset = data_size sets header[1]) *)
Definition set_offset (ms : mini) (off : N) : outcome mini :=
  match ms_hdr ms with
  | d :: _ :: r =>
      Ok {| ms_off := off; ms_app := ms_app ms; ms_last := ms_last ms; ms_pend := ms_pend ms;
            ms_data := ms_data ms; ms_hdr := d :: off :: r; ms_mask := ms_mask ms |}
  | _ => Crash IndexError
  end.

Fixpoint close_minis (l : list (N * mini)) (data : bytes) : outcome (list (N * mini) * bytes) :=
  match l with
  | [] => Ok ([], data)
  | (k, ms) :: r =>
      let '(ms1, res) := ms_close sp ms in
      bind res (fun _ =>
      bind (set_offset ms1 (lenN data)) (fun ms2 =>
      bind (close_minis r (data ++ ms_data ms1)) (fun '(rest, d) => Ok ((k, ms2) :: rest, d))))
  end.

(* np.reshape(header, (3, n), order="F").tobytes(order="C"):
   row j of the result is header[j::3] *)
Fixpoint every3 (l : list N) : list N * list N * list N :=
  match l with
  | a :: b :: c :: r => let '(x, y, z) := every3 r in (a :: x, b :: y, c :: z)
  | _ => ([], [], [])
  end.

Definition index_bytes (hdr : list N) : outcome bytes :=
  if negb (Nat.modulo (length hdr) 3 =? 0)%nat then Crash ValueError   (* reshape *)
  else let '(x, y, z) := every3 hdr in Ok (le64s (x ++ y ++ z)).

Definition pack_q (v : N) : outcome bytes :=
  if two64 <=? v then Crash StructError else Ok (le64 v).

(* n empty (start, end) pairs at offset v *)
Definition empty_entries (n : nat) (v : N) : bytes :=
  concat (repeat (le64 v ++ le64 v) n).

(* second loop: encoded minishard indices and the shard-index entries.
   [slot] = number of entries already in sh_idx_buf (its length / 16).  Before
   the entry of minishard number [key] the index is padded with empty ranges
   up to slot [key]  (while len(sh_idx_buf) < int(key) * 16: ...; the keys of
   the real writer are always integers). *)
Fixpoint write_indices (l : list (N * mini)) (slot : N) (data_size sh_size : N)
  : outcome (bytes * bytes * N) :=        (* index bytes written, shard index, sh_size *)
  match l with
  | [] => Ok ([], [], sh_size)
  | (key, ms) :: r =>
      bind (if slot <? key then pack_q (data_size + sh_size) else Ok []) (fun _ =>
      let padding := empty_entries (N.to_nat (key - slot)) (data_size + sh_size) in
      bind (index_bytes (ms_hdr ms)) (fun raw =>
      let enc := idx_enc raw in
      bind (pack_q (data_size + sh_size)) (fun a =>
      let sh_size' := sh_size + lenN enc in
      bind (pack_q (data_size + sh_size')) (fun b =>
      bind (write_indices r (N.max slot key + 1) data_size sh_size') (fun '(w, ix, fin) =>
      Ok (enc ++ w, padding ++ a ++ b ++ ix, fin))))))
  end.

(* while sh_idx_len < hl: append two copies of the end offset *)
Fixpoint pad_index (fuel : nat) (hl : N) (ix pad : bytes) : bytes :=
  match fuel with
  | O => ix
  | S f => if lenN ix <? hl then pad_index f hl (ix ++ pad ++ pad) pad else ix
  end.

(* fp.seek(0); fp.write(idx) over what was written so far *)
Definition patch0 (idx file : bytes) : bytes := idx ++ skipn (length idx) file.

Definition shard_close (st : shard) : outcome (option bytes) :=
  if negb (sh_dirty st) then Ok None else
  let hl := header_len_model (sp_m sp) in
  let zeros := repeat 0 (N.to_nat hl) in
  bind (close_minis (sort_by_key (sh_minis st)) []) (fun '(minis, data) =>
  let data_size := lenN data in
  bind (write_indices minis 0 data_size 0) (fun '(w, ix, sh_size) =>
  let written := zeros ++ data ++ w in
  if lenN ix =? hl then Ok (Some (patch0 ix written))
  else if hl <=? lenN ix then IOErr                    (* ShardedIOError: too many minishards *)
  else
    bind (pack_q (data_size + sh_size)) (fun pad =>
    Ok (Some (patch0 (pad_index (N.to_nat hl) hl ix pad) written))))).

(* ---------- ShardedScale ---------- *)
Definition scale := list (N * shard).       (* shard_dict *)

Definition scale_store_cmc (st : scale) (buf : bytes) (cmc : N) : scale * outcome unit :=
  let k := shard_key_model (sp_p sp) (sp_m sp) (sp_s sp) cmc in
  let sh := match alookup k st with Some x => x | None => shard_init end in
  let '(sh', r) := shard_store sh buf cmc in
  (aset k sh' st, r).

Definition dot_shard : bytes := [46; 115; 104; 97; 114; 100].   (* ".shard" *)

Definition shard_file_name (key : N) : bytes := shard_name_model (sp_s sp) key ++ dot_shard.

Definition scale_close (st : scale) : list (bytes * outcome (option bytes)) :=
  map (fun '(k, sh) => (shard_file_name k, shard_close sh)) (sort_by_key st).

(* ---------- ShardedFileAccessor, one scale ---------- *)
(* store_chunk(buf, key, (xmin, xmax, ymin, ymax, zmin, zmax)) *)
Definition store_chunk (v : vspec) (st : scale) (buf : bytes) (x y z : Z)
  : scale * outcome unit :=
  match get_cmc_model v x y z with
  | Ok cmc => scale_store_cmc st buf cmc
  | FormatErr => (st, FormatErr) | InfoErr => (st, InfoErr) | AccessErr => (st, AccessErr)
  | IOErr => (st, IOErr) | Refused => (st, Refused) | Crash k => (st, Crash k)
  end.

Definition store_op := (Z * Z * Z * bytes)%type.

(* a whole writing session: every store (exceptions caught by the caller, the
   session continues), then close.  Result: one outcome per store, the files. *)
Fixpoint run_stores (v : vspec) (st : scale) (ops : list store_op)
  : scale * list (outcome unit) :=
  match ops with
  | [] => (st, [])
  | (x, y, z, buf) :: r =>
      let '(st1, o) := store_chunk v st buf x y z in
      let '(st2, os) := run_stores v st1 r in
      (st2, o :: os)
  end.

Definition run_session (v : vspec) (ops : list store_op)
  : list (outcome unit) * list (bytes * outcome (option bytes)) :=
  let '(st, os) := run_stores v [] ops in (os, scale_close st).

(* same at identifier level (ShardedScale.store_cmc_chunk) *)
Fixpoint run_cmc_stores (st : scale) (ops : list (N * bytes)) : scale * list (outcome unit) :=
  match ops with
  | [] => (st, [])
  | (cmc, buf) :: r =>
      let '(st1, o) := scale_store_cmc st buf cmc in
      let '(st2, os) := run_cmc_stores st1 r in
      (st2, o :: os)
  end.

End Writer.
