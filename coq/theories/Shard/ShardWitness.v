(* Concrete datasets evaluated inside Coq: the witness of the slot-placement
   defect (3x4x2 grid, 2 minishard bits, 2 shard bits) and a small dataset
   inside the guard, used for the _refuted theorem and for non-vacuity. *)
From Coq Require Import NArith ZArith List Bool.
From NGS Require Import Val Ints Morton ShardBytes MiniShard ShardFile ShardReader ShardSpecReader.
Import ListNotations.
Open Scope N_scope.

Definition raw_enc (b : bytes) : bytes := b.
Definition raw_dec (b : bytes) : outcome bytes := Ok b.
Definition raw_sdec (b : bytes) : option bytes := Some b.

(* the directory content when every shard closed normally *)
Fixpoint plain_files (l : list (bytes * outcome (option bytes))) : list (bytes * bytes) :=
  match l with
  | [] => []
  | (n, Ok (Some b)) :: r => (n, b) :: plain_files r
  | _ :: r => plain_files r
  end.

Definition all_ok (l : list (outcome unit)) : bool :=
  forallb (fun o => match o with Ok _ => true | _ => false end) l.

(* every chunk of a gx x gy x gz grid (chunk size cs), payload = 3 copies of a byte *)
Definition grid_ops (cs : Z) (gx gy gz : nat) : list store_op :=
  flat_map (fun x => flat_map (fun y => map (fun z =>
     ((Z.of_nat x * cs)%Z, (Z.of_nat y * cs)%Z, (Z.of_nat z * cs)%Z,
      repeat (N.of_nat (x + 7 * y + 31 * z)) 3)) (seq 0 gz)) (seq 0 gy)) (seq 0 gx).

Definition ids_of (v : vspec) (ops : list store_op) : list N :=
  flat_map (fun '(x, y, z, _) => match get_cmc_model v x y z with Ok c => [c] | _ => [] end) ops.

(* ---------- the witness: grid 3x4x2, m = 2, s = 2, p = 0 ---------- *)
Definition wit_sp : sparams := {| sp_m := 2; sp_s := 2; sp_p := 0 |}.
Definition wit_vspec : outcome vspec := mk_vspec [8; 8; 8]%Z [24; 32; 16]%Z.
Definition wit_ops : list store_op := grid_ops 8 3 4 2.

Definition wit_session :=
  match wit_vspec with
  | Ok v => run_session wit_sp raw_enc raw_enc v wit_ops
  | _ => ([], [])
  end.
Definition wit_files : list (bytes * bytes) := plain_files (snd wit_session).
Definition wit_ids : list N := match wit_vspec with Ok v => ids_of v wit_ops | _ => [] end.

(* the same chunks stored in reverse order *)
Definition wit_session_rev :=
  match wit_vspec with
  | Ok v => run_session wit_sp raw_enc raw_enc v (rev wit_ops)
  | _ => ([], [])
  end.

(* ---------- inside the guard: grid 2x3x2, m = 1, s = 1, p = 1 ---------- *)
Definition ok_sp : sparams := {| sp_m := 1; sp_s := 1; sp_p := 1 |}.
Definition ok_vspec : outcome vspec := mk_vspec [4; 4; 4]%Z [8; 11; 7]%Z.
Definition ok_ops : list store_op := grid_ops 4 2 3 2.
Definition ok_session :=
  match ok_vspec with
  | Ok v => run_session ok_sp raw_enc raw_enc v (rev ok_ops)
  | _ => ([], [])
  end.
Definition ok_files : list (bytes * bytes) := plain_files (snd ok_session).
Definition ok_ids : list N := match ok_vspec with Ok v => ids_of v ok_ops | _ => [] end.

Definition payload_of_id (v : vspec) (ops : list store_op) (id : N) : option bytes :=
  match filter (fun '(x, y, z, _) => match get_cmc_model v x y z with Ok c => c =? id | _ => false end) ops with
  | (_, _, _, b) :: _ => Some b
  | [] => None
  end.
