(* A reader of the Neuroglancer "neuroglancer_uint64_sharded_v1" format written
   ONLY from the format document (sharded.md), independent of the package:

   * the chunk with identifier [id] is in shard number
       (hash(id >> preshift_bits) >> minishard_bits) mod 2^shard_bits,
     file "<shard number as lowercase hex, zero padded to ceil(shard_bits/4)
     digits>.shard", minishard number  hash(...) mod 2^minishard_bits;
   * the file starts with the shard index: 2^minishard_bits pairs
     (start, end) of little-endian uint64, byte range of that minishard's index
     relative to the END of the shard index; start = end: no such minishard;
   * a (decoded) minishard index is a [3, n] uint64le array in C order:
     row 0: identifiers, delta encoded; row 1: start offsets, the first relative
     to the end of the shard index, the others relative to the end of the
     previous chunk; row 2: sizes in bytes;
   * chunk bytes are encoded according to data_encoding.

   Natural-number arithmetic throughout (no wrap); anything that does not fit
   the document is [SMalformed].  Also the layout predicate WF of property C04
   and the guard delimiting the known slot-placement defect. *)
From Coq Require Import NArith ZArith List Bool Lia.
From NGS Require Import Val Ints Morton ShardBytes.
Import ListNotations.
Open Scope N_scope.

Inductive spec_result := SFound (b : bytes) | SAbsent | SMalformed.

Definition le_value (b : bytes) : N := fold_right (fun x acc => x + 256 * acc) 0 b.

(* bytes [a, b) of f, only if 0 <= a <= b <= |f| *)
Definition sub_range (f : bytes) (a b : N) : option bytes :=
  if (a <=? b) && (b <=? lenN f)
  then Some (firstn (N.to_nat (b - a)) (skipn (N.to_nat a) f)) else None.

Definition u64_at (f : bytes) (o : N) : option N :=
  match sub_range f o (o + 8) with Some b => Some (le_value b) | None => None end.

(* n consecutive little-endian uint64 values from the start of b *)
Fixpoint le_words (n : nat) (b : bytes) : list N :=
  match n with O => [] | S k => le_value (firstn 8 b) :: le_words k (skipn 8 b) end.

(* the three rows of a decoded minishard index *)
Definition index_rows (dec : bytes) : option (list N * list N * list N) :=
  let len := lenN dec in
  if negb (len mod 24 =? 0) then None else
  let n := N.to_nat (len / 24) in
  let w := le_words (3 * n) dec in
  Some (firstn n w, firstn n (skipn n w), skipn (2 * n) w).

(* absolute (identifier, start, end), offsets relative to the end of the shard index *)
Fixpoint index_entries (ids offs sizes : list N) (prev_id prev_end : N) : list (N * (N * N)) :=
  match ids, offs, sizes with
  | i :: ids', o :: offs', z :: sizes' =>
      let id := prev_id + i in
      let st := prev_end + o in
      (id, (st, st + z)) :: index_entries ids' offs' sizes' id (st + z)
  | _, _, _ => []
  end.

Definition dot_shard_ext : bytes := [46; 115; 104; 97; 114; 100].

Section Spec.
Variables m s p : N.
Variable idx_dec : bytes -> option bytes.
Variable data_dec : bytes -> option bytes.

Definition shard_index_len : N := 16 * 2 ^ m.

Definition spec_file_name (sh : N) : bytes := spec_name s sh ++ dot_shard_ext.

(* entries of minishard slot k of a shard file, or why not *)
Inductive slot_result :=
| SlotEmpty | SlotBad | SlotEntries (l : list (N * (N * N))).

Definition read_slot (f : bytes) (k : N) : slot_result :=
  match u64_at f (16 * k), u64_at f (16 * k + 8) with
  | Some a, Some b =>
      if shard_index_len <? 16 * k + 16 then SlotBad else
      if a =? b then SlotEmpty else
      match sub_range f (shard_index_len + a) (shard_index_len + b) with
      | None => SlotBad
      | Some raw =>
          match idx_dec raw with
          | None => SlotBad
          | Some dec =>
              match index_rows dec with
              | None => SlotBad
              | Some (r0, r1, r2) => SlotEntries (index_entries r0 r1 r2 0 0)
              end
          end
      end
  | _, _ => SlotBad
  end.

Definition spec_fetch (files : list (bytes * bytes)) (id : N) : spec_result :=
  let sh := spec_shard p m s id in
  let k := spec_minishard p m id in
  match blookup (spec_file_name sh) files with
  | None => SAbsent
  | Some f =>
      match read_slot f k with
      | SlotEmpty => SAbsent
      | SlotBad => SMalformed
      | SlotEntries es =>
          match alookup id es with
          | None => SAbsent
          | Some (st, en) =>
              match sub_range f (shard_index_len + st) (shard_index_len + en) with
              | None => SMalformed
              | Some c => match data_dec c with Some d => SFound d | None => SMalformed end
              end
          end
      end
  end.

(* ---------- layout predicate WF ---------- *)
Fixpoint strictly_increasing (l : list N) : bool :=
  match l with
  | a :: ((b :: _) as r) => (a <? b) && strictly_increasing r
  | _ => true
  end.

Definition disjoint (r1 r2 : N * N) : bool :=      (* non-empty half-open ranges *)
  (snd r1 <=? fst r2) || (snd r2 <=? fst r1).
Fixpoint pairwise_disjoint (l : list (N * N)) : bool :=
  match l with
  | [] => true
  | r :: rest => forallb (disjoint r) rest && pairwise_disjoint rest
  end.

Record wf_report := { wf_parse : bool;      (* every slot parses, ids strictly increasing and
                                               < 2^64, every range inside the file *)
                      wf_slot : bool;       (* every id listed at slot k of shard sh has
                                               minishard number k and shard number sh *)
                      wf_disjoint : bool }. (* shard index, minishard indices and non-empty
                                               chunk ranges are pairwise disjoint *)

Definition wf_all (r : wf_report) : bool := wf_parse r && wf_slot r && wf_disjoint r.

Definition slot_ranges (f : bytes) (k : N) : list (N * N) :=
  match u64_at f (16 * k), u64_at f (16 * k + 8), read_slot f k with
  | Some a, Some b, SlotEntries es =>
      (shard_index_len + a, shard_index_len + b) ::
      map (fun e => (shard_index_len + fst (snd e), shard_index_len + snd (snd e)))
          (filter (fun e => fst (snd e) <? snd (snd e)) es)
  | _, _, _ => []
  end.

Definition slot_parse_ok (f : bytes) (k : N) : bool :=
  match read_slot f k with
  | SlotEmpty => true
  | SlotBad => false
  | SlotEntries es =>
      negb (length es =? 0)%nat &&
      strictly_increasing (map fst es) &&
      forallb (fun e => (fst e <? two64) && (shard_index_len + snd (snd e) <=? lenN f)) es
  end.

Definition slot_place_ok (sh : N) (f : bytes) (k : N) : bool :=
  match read_slot f k with
  | SlotEntries es =>
      forallb (fun e => (spec_minishard p m (fst e) =? k) && (spec_shard p m s (fst e) =? sh)) es
  | _ => true
  end.

Definition wf_shard (sh : N) (f : bytes) : wf_report :=
  let slots := nseq 0 (N.to_nat (2 ^ m)) in
  {| wf_parse := (shard_index_len <=? lenN f) && forallb (slot_parse_ok f) slots;
     wf_slot := forallb (slot_place_ok sh f) slots;
     wf_disjoint := pairwise_disjoint ((0, shard_index_len) :: flat_map (slot_ranges f) slots) |}.

(* a directory: every file is "<spec name of a shard number < 2^s>.shard" and well formed *)
Definition strip_ext (name : bytes) : option bytes :=
  let n := length name in
  if (6 <=? n)%nat && bytes_eqb (skipn (n - 6) name) dot_shard_ext
  then Some (firstn (n - 6) name) else None.

Definition wf_file (name f : bytes) : wf_report :=
  match strip_ext name with
  | None => {| wf_parse := false; wf_slot := true; wf_disjoint := true |}
  | Some stem =>
      match unhex stem with
      | None => {| wf_parse := false; wf_slot := true; wf_disjoint := true |}
      | Some sh =>
          if (sh <? 2 ^ s) && bytes_eqb (spec_name s sh) stem then wf_shard sh f
          else {| wf_parse := false; wf_slot := true; wf_disjoint := true |}
      end
  end.

(* ---------- the guard of the known slot-placement defect ---------- *)
Definition used_minishards (sh : N) (ids : list N) : list N :=
  sort_set (map (spec_minishard p m) (filter (fun id => spec_shard p m s id =? sh) ids)).

Fixpoint is_initial_segment (from : N) (l : list N) : bool :=
  match l with [] => true | a :: r => (a =? from) && is_initial_segment (from + 1) r end.

Definition shard_prefix_ok (ids : list N) (sh : N) : bool :=
  is_initial_segment 0 (used_minishards sh ids).

(* every shard uses minishards {0, ..., j-1} for some j *)
Definition used_minishards_prefix (ids : list N) : bool :=
  forallb (shard_prefix_ok ids) (sort_set (map (spec_shard p m s) ids)).

End Spec.
