(* Byte-level lemmas for the shard file: little-endian round trips, blocks at
   known offsets, the shard index as a list of words, the decoded minishard
   index and its cumulative sums. *)
From Coq Require Import NArith ZArith List Bool Lia.
From NGS Require Import Val Ints Morton MortonProofs ShardBytes MiniShard ShardFile ShardSpecReader
  ShardCanon MiniShardProofs.
Import ListNotations.
Open Scope N_scope.

(* ---------- lists ---------- *)
Lemma firstn_app_exact : forall {A} (l r : list A), firstn (length l) (l ++ r) = l.
Proof. intros A l r. induction l; simpl; [destruct r; reflexivity | f_equal; assumption]. Qed.

Lemma skipn_app_exact : forall {A} (l r : list A), skipn (length l) (l ++ r) = r.
Proof. intros A l r. induction l; simpl; [reflexivity | assumption]. Qed.

Lemma lenN_app : forall {A} (a b : list A), lenN (a ++ b) = lenN a + lenN b.
Proof. intros. unfold lenN. rewrite app_length. lia. Qed.

Lemma lenN_nil : forall {A}, lenN (@nil A) = 0.
Proof. reflexivity. Qed.

Lemma to_nat_lenN : forall {A} (l : list A), N.to_nat (lenN l) = length l.
Proof. intros. unfold lenN. apply Nat2N.id. Qed.

(* ---------- little-endian ---------- *)
Lemma le_value_le_bytes : forall w v, le_value (le_bytes w v) = v mod 256 ^ N.of_nat w.
Proof.
  induction w as [|k IH]; intro v.
  - simpl. symmetry. apply N.mod_1_r.
  - cbn [le_bytes le_value fold_right]. fold (le_value (le_bytes k (v / 256))). rewrite IH.
    rewrite Nat2N.inj_succ, N.pow_succ_r'.
    rewrite N.mod_mul_r by (try apply N.pow_nonzero; discriminate). reflexivity.
Qed.

Lemma le_value_le64 : forall v, v < 2 ^ 64 -> le_value (le64 v) = v.
Proof.
  intros v H. unfold le64. rewrite le_value_le_bytes.
  change (256 ^ N.of_nat 8) with (2 ^ 64). apply N.mod_small. exact H.
Qed.

Lemma unle_le_value : forall b, unle b = le_value b.
Proof. induction b as [|x r IH]; simpl; [reflexivity | rewrite IH; reflexivity]. Qed.

Lemma length_le_bytes : forall w v, length (le_bytes w v) = w.
Proof. induction w; intro v; simpl; [reflexivity | f_equal; apply IHw]. Qed.

Lemma length_le64 : forall v, length (le64 v) = 8%nat.
Proof. intro v. apply length_le_bytes. Qed.

Lemma le64s_app : forall a b, le64s (a ++ b) = le64s a ++ le64s b.
Proof. intros. unfold le64s. apply flat_map_app. Qed.

Lemma length_le64s : forall ws, length (le64s ws) = (8 * length ws)%nat.
Proof.
  induction ws as [|w r IH]; [reflexivity|].
  change (le64s (w :: r)) with (le64 w ++ le64s r). rewrite app_length, length_le64, IH. simpl. lia.
Qed.

Lemma lenN_le64s : forall ws, lenN (le64s ws) = 8 * lenN ws.
Proof. intro ws. unfold lenN. rewrite length_le64s. lia. Qed.

Lemma le_words_le64s : forall ws rest, Forall (fun w => w < 2 ^ 64) ws ->
  le_words (length ws) (le64s ws ++ rest) = ws.
Proof.
  induction ws as [|w r IH]; intros rest H; [reflexivity|].
  inversion H as [|? ? Hw Hr]; subst.
  change (le64s (w :: r)) with (le64 w ++ le64s r). rewrite <- app_assoc.
  cbn [length le_words].
  rewrite <- (length_le64 w) at 1. rewrite firstn_app_exact.
  rewrite <- (length_le64 w) at 1. rewrite skipn_app_exact.
  rewrite le_value_le64 by exact Hw. rewrite IH by exact Hr. reflexivity.
Qed.

Lemma words64_le64s : forall ws rest, Forall (fun w => w < 2 ^ 64) ws ->
  words64 (length ws) (le64s ws ++ rest) = ws.
Proof.
  induction ws as [|w r IH]; intros rest H; [reflexivity|].
  inversion H as [|? ? Hw Hr]; subst.
  change (le64s (w :: r)) with (le64 w ++ le64s r). rewrite <- app_assoc.
  cbn [length words64].
  rewrite <- (length_le64 w) at 1. rewrite firstn_app_exact.
  rewrite <- (length_le64 w) at 1. rewrite skipn_app_exact.
  rewrite unle_le_value, le_value_le64 by exact Hw. rewrite IH by exact Hr. reflexivity.
Qed.

(* ---------- a block at a known offset ---------- *)
Definition At (f : bytes) (o : N) (x : bytes) : Prop :=
  exists p q, f = p ++ x ++ q /\ lenN p = o.

Lemma at_sub_range : forall f o x, At f o x -> sub_range f o (o + lenN x) = Some x.
Proof.
  intros f o x (p & q & -> & <-). unfold sub_range.
  rewrite !lenN_app.
  destruct (N.leb_spec (lenN p) (lenN p + lenN x)); [|lia].
  destruct (N.leb_spec (lenN p + lenN x) (lenN p + (lenN x + lenN q))); [|lia].
  cbn [andb]. replace (lenN p + lenN x - lenN p) with (lenN x) by lia.
  rewrite !to_nat_lenN, skipn_app_exact, firstn_app_exact. reflexivity.
Qed.

Lemma at_inner : forall f o a x b, At f o (a ++ x ++ b) -> At f (o + lenN a) x.
Proof.
  intros f o a x b (p & q & -> & <-). exists (p ++ a), (b ++ q). split.
  - rewrite <- !app_assoc. reflexivity.
  - apply lenN_app.
Qed.

Lemma at_prefix : forall f o x y, At f o (x ++ y) -> At f o x.
Proof.
  intros f o x y H. pose proof (at_inner f o [] x y H) as H'. rewrite lenN_nil, N.add_0_r in H'. exact H'.
Qed.

Lemma at_whole : forall a x b, At (a ++ x ++ b) (lenN a) x.
Proof. intros. exists a, b. split; reflexivity. Qed.

Lemma at_end : forall f o x, At f o x -> o + lenN x <= lenN f.
Proof. intros f o x (p & q & -> & <-). rewrite !lenN_app. lia. Qed.

Lemma at_slice : forall f o x, At f o x -> lenN x <> 0 -> slice o (lenN x) f = x.
Proof.
  intros f o x (p & q & -> & <-) Hne. unfold slice. rewrite !lenN_app.
  destruct (N.leb_spec (lenN p + (lenN x + lenN q)) (lenN p)); [lia|].
  rewrite N.min_l by lia. rewrite !to_nat_lenN, skipn_app_exact, firstn_app_exact. reflexivity.
Qed.

(* word j of a little-endian word array at the start of the file *)
Lemma at_word : forall ws rest j, (j < length ws)%nat ->
  At (le64s ws ++ rest) (8 * N.of_nat j) (le64 (nth j ws 0)).
Proof.
  intros ws rest j Hj.
  assert (E : ws = firstn j ws ++ nth j ws 0 :: skipn (S j) ws).
  { clear rest. revert j Hj. induction ws as [|w r IH]; intros j Hj; [simpl in Hj; lia|].
    destruct j; [reflexivity|]. simpl in Hj. cbn [firstn nth skipn app]. f_equal.
    apply IH. lia. }
  rewrite E at 1. rewrite le64s_app.
  change (le64s (nth j ws 0 :: skipn (S j) ws)) with (le64 (nth j ws 0) ++ le64s (skipn (S j) ws)).
  rewrite <- !app_assoc.
  exists (le64s (firstn j ws)), (le64s (skipn (S j) ws) ++ rest). split; [reflexivity|].
  rewrite lenN_le64s. unfold lenN. rewrite firstn_length. f_equal. lia.
Qed.

Lemma u64_at_word : forall ws rest j, (j < length ws)%nat -> nth j ws 0 < 2 ^ 64 ->
  u64_at (le64s ws ++ rest) (8 * N.of_nat j) = Some (nth j ws 0).
Proof.
  intros ws rest j Hj Hw. unfold u64_at.
  pose proof (at_sub_range _ _ _ (at_word ws rest j Hj)) as H.
  unfold lenN in H at 1. rewrite length_le64 in H. change (N.of_nat 8) with 8 in H.
  rewrite H. rewrite le_value_le64 by exact Hw. reflexivity.
Qed.

(* ---------- the rows of a minishard index ---------- *)
Lemma every3_flat_map : forall {A} (f g h : A -> N) l,
  every3 (flat_map (fun i => [f i; g i; h i]) l) = (map f l, map g l, map h l).
Proof.
  intros A f g h l. induction l as [|x r IH]; [reflexivity|].
  cbn [flat_map app every3 map]. rewrite IH. reflexivity.
Qed.

Lemma length_flat_map3 : forall {A} (f g h : A -> N) l,
  length (flat_map (fun i => [f i; g i; h i]) l) = (3 * length l)%nat.
Proof. intros. induction l; simpl; [reflexivity | rewrite IHl; lia]. Qed.

Section Rows.
Variable sp : sparams.
Variable enc : bytes -> bytes.

Definition crow0 (mbv : N) (n : nat) : list N := map (cdelta sp mbv) (seq 0 n).
Definition crow1 (off : N) (n : nat) : list N := map (fun i => if (i =? 0)%nat then off else 0) (seq 0 n).
Definition crow2 (sm : store_map) (mbv : N) (n : nat) : list N :=
  map (fun i => lenN (cpay sp enc sm mbv i)) (seq 0 n).

Lemma index_bytes_chdr : forall sm mbv off n,
  index_bytes (chdr sp enc sm mbv off n) = Ok (le64s (crow0 mbv n ++ crow1 off n ++ crow2 sm mbv n)).
Proof.
  intros sm mbv off n. unfold index_bytes, chdr.
  rewrite length_flat_map3, every3_flat_map.
  replace (Nat.modulo (3 * length (seq 0 n)) 3) with 0%nat
    by (symmetry; rewrite Nat.mul_comm; apply Nat.mod_mul; lia).
  reflexivity.
Qed.

Lemma index_rows_le64s : forall r0 r1 r2 n,
  length r0 = n -> length r1 = n -> length r2 = n ->
  Forall (fun w => w < 2 ^ 64) (r0 ++ r1 ++ r2) ->
  index_rows (le64s (r0 ++ r1 ++ r2)) = Some (r0, r1, r2).
Proof.
  intros r0 r1 r2 n L0 L1 L2 Hw. unfold index_rows.
  assert (Hlen : length (r0 ++ r1 ++ r2) = (3 * n)%nat) by (rewrite !app_length; lia).
  assert (HL : lenN (le64s (r0 ++ r1 ++ r2)) = 24 * N.of_nat n).
  { rewrite lenN_le64s. unfold lenN. rewrite Hlen. lia. }
  rewrite HL.
  replace ((24 * N.of_nat n) mod 24) with 0 by (symmetry; rewrite N.mul_comm; apply N.mod_mul; discriminate).
  cbn [N.eqb negb].
  replace (24 * N.of_nat n / 24) with (N.of_nat n) by (symmetry; rewrite N.mul_comm; apply N.div_mul; discriminate).
  rewrite Nat2N.id. rewrite <- Hlen.
  rewrite <- (app_nil_r (le64s (r0 ++ r1 ++ r2))). rewrite le_words_le64s by exact Hw.
  assert (E1 : firstn n (r0 ++ r1 ++ r2) = r0) by (rewrite <- L0; apply firstn_app_exact).
  assert (E2 : skipn n (r0 ++ r1 ++ r2) = r1 ++ r2) by (rewrite <- L0; apply skipn_app_exact).
  assert (E3 : firstn n (r1 ++ r2) = r1) by (rewrite <- L1; apply firstn_app_exact).
  assert (E4 : skipn (2 * n) (r0 ++ r1 ++ r2) = r2).
  { replace (2 * n)%nat with (length (r0 ++ r1)) by (rewrite app_length; lia).
    rewrite app_assoc. apply skipn_app_exact. }
  rewrite E1, E2, E3, E4. reflexivity.
Qed.

End Rows.

(* ---------- entries of a canonical minishard index ---------- *)
Section Entries.
Variable sp : sparams.
Variable enc : bytes -> bytes.
Variable K : N.
Notation mb := (K * 2 ^ sp_p sp).
Hypothesis HK : K < 2 ^ (sp_s sp + sp_m sp).
Hypothesis HB : cbits sp < 2 ^ 64.

Definition cstart (sm : store_map) (off : N) (i : nat) : N := off + lenN (cdata sp enc sm mb i).

Definition centries (sm : store_map) (off : N) (n : nat) : list (N * (N * N)) :=
  map (fun i => (idn sp K i, (cstart sm off i, cstart sm off (S i)))) (seq 0 n).

Lemma cstart_S : forall sm off i, cstart sm off (S i) = cstart sm off i + lenN (cpay sp enc sm mb i).
Proof. intros. unfold cstart. rewrite (cdata_S sp enc K), lenN_app. lia. Qed.

Lemma entries_gen : forall sm off k j,
  index_entries (map (cdelta sp mb) (seq j k))
                (map (fun i => if (i =? 0)%nat then off else 0) (seq j k))
                (map (fun i => lenN (cpay sp enc sm mb i)) (seq j k))
                (match j with O => 0 | S j' => idn sp K j' end)
                (match j with O => 0 | S _ => cstart sm off j end)
  = map (fun i => (idn sp K i, (cstart sm off i, cstart sm off (S i)))) (seq j k).
Proof.
  intros sm off k. induction k as [|k IH]; intro j; [reflexivity|].
  cbn [seq map index_entries].
  assert (Eid : (match j with O => 0 | S j' => idn sp K j' end) + cdelta sp mb j = idn sp K j).
  { destruct j as [|j']; unfold cdelta.
    - unfold idn. reflexivity.
    - fold (idn sp K j'). fold (idn sp K (S j')).
      pose proof (idn_mono sp K HK HB j' (S j') ltac:(lia)). lia. }
  assert (Est : (match j with O => 0 | S _ => cstart sm off j end) + (if (j =? 0)%nat then off else 0)
                = cstart sm off j).
  { destruct j as [|j']; cbn [Nat.eqb].
    - unfold cstart, cdata, lenN. cbn [seq flat_map length N.of_nat]. lia.
    - lia. }
  rewrite Eid, Est. rewrite <- cstart_S. f_equal.
  specialize (IH (S j)). cbn [Nat.eqb] in IH. exact IH.
Qed.

Lemma entries_canon : forall sm off n,
  index_entries (crow0 sp mb n) (crow1 off n) (crow2 sp enc sm mb n) 0 0 = centries sm off n.
Proof. intros. unfold crow0, crow1, crow2, centries. apply (entries_gen sm off n 0%nat). Qed.

Lemma alookup_centries : forall sm off n i, (i < n)%nat ->
  alookup (idn sp K i) (centries sm off n) = Some (cstart sm off i, cstart sm off (S i)).
Proof.
  intros sm off n i Hi. unfold centries.
  assert (G : forall k s, (s <= i < s + k)%nat ->
     alookup (idn sp K i) (map (fun j => (idn sp K j, (cstart sm off j, cstart sm off (S j)))) (seq s k))
     = Some (cstart sm off i, cstart sm off (S i))).
  { induction k as [|k IH]; intros s Hs; [lia|]. cbn [seq map alookup].
    destruct (N.eqb_spec (idn sp K s) (idn sp K i)) as [E|E].
    - apply (idn_inj sp K HK HB) in E. subst s. reflexivity.
    - apply IH. destruct (Nat.eq_dec s i) as [->|]; [congruence | lia]. }
  apply G. lia.
Qed.

Lemma alookup_centries_none : forall sm off n id,
  (forall i, (i < n)%nat -> idn sp K i <> id) -> alookup id (centries sm off n) = None.
Proof.
  intros sm off n id H. unfold centries.
  assert (G : forall k s, (s + k <= n)%nat ->
     alookup id (map (fun j => (idn sp K j, (cstart sm off j, cstart sm off (S j)))) (seq s k)) = None).
  { induction k as [|k IH]; intros s Hs; [reflexivity|]. cbn [seq map alookup].
    destruct (N.eqb_spec (idn sp K s) id) as [E|E]; [exfalso; apply (H s); [lia | exact E]|].
    apply IH. lia. }
  apply G. lia.
Qed.

End Entries.
