(* Byte strings, little-endian uint64 words, Python-style clamped slicing and
   insertion-ordered association lists (Python dict) shared by the sharded
   writer / reader models.  Nothing here is specific to the package. *)
From Coq Require Import NArith ZArith List Bool Lia.
From NGS Require Import Val Ints.
Import ListNotations.
Open Scope N_scope.

Definition bytes := list N.

(* ---------- uint64 subtraction (NumPy wraps) ---------- *)
Definition sub64 (a b : N) : N := (a + two64 - b mod two64) mod two64.

(* ---------- little-endian words ---------- *)
Fixpoint le_bytes (w : nat) (v : N) : bytes :=
  match w with O => [] | S k => v mod 256 :: le_bytes k (v / 256) end.
Definition le64 (v : N) : bytes := le_bytes 8 v.
Definition le64s (l : list N) : bytes := flat_map le64 l.

Fixpoint unle (b : bytes) : N :=
  match b with [] => 0 | x :: r => x + 256 * unle r end.

(* np.frombuffer(b, dtype=uint64) on a buffer whose length is a multiple of 8 *)
Fixpoint words64 (n : nat) (b : bytes) : list N :=
  match n with O => [] | S k => unle (firstn 8 b) :: words64 k (skipn 8 b) end.

Definition frombuffer64 (b : bytes) : outcome (list N) :=
  if (Nat.modulo (length b) 8 =? 0)%nat then Ok (words64 (Nat.div (length b) 8) b)
  else Crash ValueError.

(* ---------- slicing with Python's clamping ---------- *)
(* b[off : off+len] when both are below the length; empty beyond the end *)
Definition slice (off len : N) (b : bytes) : bytes :=
  if lenN b <=? off then []
  else firstn (N.to_nat (N.min len (lenN b))) (skipn (N.to_nat off) b).

(* a[i:j] on a list of words, numpy clamping, i <= j not required *)
Definition wslice (i j : nat) (l : list N) : list N := firstn (j - i) (skipn i l).

Definition sum64 (l : list N) : N := fold_left add64 l 0.

(* ---------- Python dict keyed by uint64: association list ---------- *)
Fixpoint alookup {V} (k : N) (l : list (N * V)) : option V :=
  match l with
  | [] => None
  | (k', v) :: r => if k' =? k then Some v else alookup k r
  end.

Fixpoint aremove {V} (k : N) (l : list (N * V)) : list (N * V) :=
  match l with
  | [] => []
  | (k', v) :: r => if k' =? k then aremove k r else (k', v) :: aremove k r
  end.

(* d[k] = v.  The position of the key in the iteration order is not observable
   in the modelled code (keys are sorted, searched or tested with any()). *)
Definition aset {V} (k : N) (v : V) (l : list (N * V)) : list (N * V) :=
  (k, v) :: aremove k l.

Definition akeys {V} (l : list (N * V)) : list N := map fst l.

(* sorted(d.keys()) for distinct keys: insertion sort *)
Fixpoint ins_sorted {V} (kv : N * V) (l : list (N * V)) : list (N * V) :=
  match l with
  | [] => [kv]
  | kv' :: r => if fst kv <=? fst kv' then kv :: l else kv' :: ins_sorted kv r
  end.
Definition sort_by_key {V} (l : list (N * V)) : list (N * V) :=
  fold_right ins_sorted [] l.

(* set of numbers: sorted, without repetition *)
Fixpoint ins_set (k : N) (l : list N) : list N :=
  match l with
  | [] => [k]
  | k' :: r => if k <? k' then k :: l else if k =? k' then l else k' :: ins_set k r
  end.
Definition sort_set (l : list N) : list N := fold_right ins_set [] l.

(* byte-string keyed lookup (file names, gzip oracle tables) *)
Fixpoint bytes_eqb (a b : bytes) : bool :=
  match a, b with
  | [], [] => true
  | x :: a', y :: b' => (x =? y) && bytes_eqb a' b'
  | _, _ => false
  end.

Fixpoint blookup {V} (k : bytes) (l : list (bytes * V)) : option V :=
  match l with
  | [] => None
  | (k', v) :: r => if bytes_eqb k' k then Some v else blookup k r
  end.
