(* The layout predicate WF on the files written by close(). *)
From Coq Require Import NArith ZArith List Bool Lia Permutation Sorted.
From NGS Require Import Val Ints Morton MortonProofs ShardBytes MiniShard ShardFile ShardReader
  ShardSpecReader ShardCanon MiniShardProofs ShardFileProofs ShardLayoutProofs ShardCloseProofs
  ShardSpecProofs ShardTopProofs ShardWitness.
Import ListNotations.
Open Scope N_scope.

Lemma in_nseq : forall n s k, In k (nseq s n) <-> s <= k < s + N.of_nat n.
Proof.
  induction n as [|n IH]; intros s k; cbn [nseq In].
  - split; [tauto | lia].
  - rewrite IH. split; [intros [->|H]; lia | intro H; destruct (N.eq_dec s k); [left; assumption | right; lia]].
Qed.

(* same class bits => same shard and minishard number (specification functions) *)
Lemma mbits_route : forall sp id1 id2, mbits sp id1 = mbits sp id2 ->
  spec_minishard (sp_p sp) (sp_m sp) id1 = spec_minishard (sp_p sp) (sp_m sp) id2 /\
  spec_shard (sp_p sp) (sp_m sp) (sp_s sp) id1 = spec_shard (sp_p sp) (sp_m sp) (sp_s sp) id2.
Proof.
  intros sp id1 id2 H. unfold mbits in H. apply N.mul_cancel_r in H; [|apply pow2_nz].
  unfold spec_minishard, spec_shard, spec_hash.
  set (h1 := id1 / 2 ^ sp_p sp) in *. set (h2 := id2 / 2 ^ sp_p sp) in *.
  replace (2 ^ (sp_s sp + sp_m sp)) with (2 ^ sp_m sp * 2 ^ sp_s sp) in H
    by (rewrite <- N.pow_add_r; f_equal; lia).
  rewrite !N.mod_mul_r in H by (apply pow2_nz).
  pose proof (pow2_pos (sp_m sp)) as HP.
  assert (R1 : h1 mod 2 ^ sp_m sp < 2 ^ sp_m sp) by (apply N.mod_lt; lia).
  assert (R2 : h2 mod 2 ^ sp_m sp < 2 ^ sp_m sp) by (apply N.mod_lt; lia).
  set (r1 := h1 mod 2 ^ sp_m sp) in *. set (r2 := h2 mod 2 ^ sp_m sp) in *.
  set (q1 := (h1 / 2 ^ sp_m sp) mod 2 ^ sp_s sp) in *. set (q2 := (h2 / 2 ^ sp_m sp) mod 2 ^ sp_s sp) in *.
  set (P := 2 ^ sp_m sp) in *.
  assert (E1 : (r1 + P * q1) mod P = r1) by (rewrite N.mul_comm, N.add_comm; apply mod_mul_add; lia).
  assert (E2 : (r2 + P * q2) mod P = r2) by (rewrite N.mul_comm, N.add_comm; apply mod_mul_add; lia).
  assert (F1 : (r1 + P * q1) / P = q1) by (rewrite N.mul_comm, N.add_comm; apply div_mul_add; lia).
  assert (F2 : (r2 + P * q2) / P = q2) by (rewrite N.mul_comm, N.add_comm; apply div_mul_add; lia).
  rewrite H in E1, F1. split; congruence.
Qed.

(* ---------- disjointness of an offset-ordered family of ranges ---------- *)
(* ranges of kind A lie below mid and follow one another, ranges of kind B lie
   above mid and follow one another; the two kinds may be interleaved *)
Fixpoint good (mid nA nB : N) (l : list (N * N)) : Prop :=
  match l with
  | [] => True
  | (s, e) :: r =>
      s <= e /\ ((nA <= s /\ e <= mid /\ good mid e nB r) \/ (nB <= s /\ good mid nA e r))
  end.

Lemma good_forall : forall mid l nA nB, good mid nA nB l -> mid <= nB ->
  Forall (fun r => (nA <= fst r /\ snd r <= mid) \/ nB <= fst r) l.
Proof.
  intros mid l. induction l as [|[s e] r IH]; intros nA nB H Hm; [constructor|].
  cbn [good] in H. destruct H as [Hse [(H1 & H2 & H3)|(H1 & H3)]].
  - constructor; [left; cbn; lia|]. specialize (IH _ _ H3 Hm).
    eapply Forall_impl; [|exact IH]. cbn. intros x [[Ha Hb]|Hc]; [left; lia | right; exact Hc].
  - constructor; [right; cbn; lia|]. specialize (IH _ _ H3 ltac:(lia)).
    eapply Forall_impl; [|exact IH]. cbn. intros x [Ha|Hc]; [left; exact Ha | right; lia].
Qed.

Lemma good_disjoint : forall mid l nA nB, good mid nA nB l -> mid <= nB -> pairwise_disjoint l = true.
Proof.
  intros mid l. induction l as [|[s e] r IH]; intros nA nB H Hm; [reflexivity|].
  cbn [good] in H. cbn [pairwise_disjoint]. destruct H as [Hse [(H1 & H2 & H3)|(H1 & H3)]].
  - apply andb_true_intro. split; [|apply (IH _ _ H3 Hm)].
    apply forallb_forall. intros x Hx. pose proof (good_forall _ _ _ _ H3 Hm) as Hf.
    rewrite Forall_forall in Hf. specialize (Hf x Hx). unfold disjoint. cbn [fst snd].
    apply orb_true_intro. left. apply N.leb_le. destruct Hf as [[Ha _]|Hc]; lia.
  - apply andb_true_intro. split; [|apply (IH _ _ H3 ltac:(lia))].
    apply forallb_forall. intros x Hx. pose proof (good_forall _ _ _ _ H3 ltac:(lia)) as Hf.
    rewrite Forall_forall in Hf. specialize (Hf x Hx). unfold disjoint. cbn [fst snd].
    apply orb_true_intro. destruct Hf as [[_ Hb]|Hc]; [right | left]; apply N.leb_le; lia.
Qed.

Lemma good_weaken : forall mid l nA nA' nB, good mid nA nB l -> nA' <= nA -> good mid nA' nB l.
Proof.
  intros mid l. induction l as [|[s e] r IH]; intros nA nA' nB H Hle; [exact I|].
  cbn [good] in *. destruct H as [Hse [(H1 & H2 & H3)|(H1 & H3)]]; split; try exact Hse.
  - left. repeat split; try lia. exact H3.
  - right. split; [exact H1|]. apply (IH _ _ _ H3 Hle).
Qed.

(* a function that is empty outside a sorted key list *)
Lemma flat_map_sparse : forall {X} (G : N -> list X) n keys s,
  StronglySorted N.lt keys -> (forall k, In k keys -> s <= k < s + N.of_nat n) ->
  (forall k, s <= k < s + N.of_nat n -> ~ In k keys -> G k = []) ->
  flat_map G (nseq s n) = flat_map G keys.
Proof.
  intros X G n. induction n as [|n IH]; intros keys s Hs Hin Hout.
  - destruct keys as [|k r]; [reflexivity|]. specialize (Hin k (or_introl eq_refl)). lia.
  - cbn [nseq flat_map].
    destruct keys as [|k0 r].
    + rewrite (Hout s) by (try lia; intros []). rewrite (IH [] (s + 1)); [reflexivity | constructor | intros k [] |].
      intros k Hk _. apply Hout; [lia | intros []].
    + inversion Hs as [|? ? Hsr Hall]; subst. rewrite Forall_forall in Hall.
      destruct (N.eq_dec k0 s) as [->|Hne].
      * cbn [flat_map]. f_equal. apply IH; [exact Hsr | |].
        -- intros k Hk. specialize (Hall k Hk). specialize (Hin k (or_intror Hk)). lia.
        -- intros k Hk Hn. apply Hout; [lia|]. intros [E|Hk']; [lia | exact (Hn Hk')].
      * assert (s < k0) by (specialize (Hin k0 (or_introl eq_refl)); lia).
        rewrite (Hout s); [|lia|].
        2: { intros [E|Hk']; [lia|]. specialize (Hall s Hk'). lia. }
        cbn [app]. apply IH; [exact Hs | |].
        -- intros k Hk'. pose proof (Hin k Hk') as Hb. destruct Hk' as [E|Hk]; [subst k; lia|]. specialize (Hall k Hk). lia.
        -- intros k Hk Hn. apply Hout; [lia | exact Hn].
Qed.

Lemma sumlen_app_wf : forall a b, sumlen (a ++ b) = sumlen a + sumlen b.
Proof.
  induction a as [|x a IH]; intro b; cbn [app sumlen fold_right]; [reflexivity|].
  fold (sumlen (a ++ b)). fold (sumlen a). rewrite IH. lia.
Qed.

Section Wf.
Variable sp : sparams.
Variable enc ienc : bytes -> bytes.
Variable idec : bytes -> option bytes.
Hypothesis HB : cbits sp < 2 ^ 64.
Hypothesis Hidec : forall b, idec (ienc b) = Some b.
Hypothesis Hne : forall b, b <> [] -> ienc b <> [].
Notation m := (sp_m sp).
Notation T := (2 ^ sp_m sp).

Lemma lenN_cdata_mono : forall mbv sm a b, (a <= b)%nat ->
  lenN (cdata sp enc sm mbv a) <= lenN (cdata sp enc sm mbv b).
Proof.
  intros mbv sm a b H. unfold cdata. replace b with (a + (b - a))%nat by lia.
  rewrite seq_app, flat_map_app, lenN_app. lia.
Qed.

Lemma incr_idn : forall Ke, Ke < 2 ^ (sp_s sp + sp_m sp) -> forall (g : nat -> N * N) k s,
  strictly_increasing (map fst (map (fun i => (idn sp Ke i, g i)) (seq s k))) = true.
Proof.
  intros Ke HK g k. induction k as [|k IH]; intro s; [reflexivity|].
  cbn [seq map fst]. destruct k as [|k']; [reflexivity|].
  specialize (IH (S s)). cbn [seq map fst] in IH |- *. cbn [strictly_increasing].
  apply andb_true_intro. split; [|exact IH].
  apply N.ltb_lt. apply (idn_mono sp Ke HK HB). lia.
Qed.

(* slot of a present minishard: parses, ids strictly increasing, ranges inside the file *)
Lemma slot_parse_present : forall d pre e post,
  desc_ok sp enc ienc d -> d = pre ++ e :: post ->
  slot_parse_ok m idec (shard_bytes sp enc ienc d) (fst e) = true.
Proof.
  intros d pre e post Hd Ed.
  destruct (read_slot_present sp enc ienc idec HB Hidec Hne d pre e post Hd Ed)
    as (Ke & HK & Emb & Hok & Hids & Er).
  destruct (shard_placement sp enc ienc HB d pre e post Hd Ed) as (a & _ & _ & _ & _ & _ & _ & Hend & _ & _).
  unfold slot_parse_ok. rewrite Er.
  set (off := lenN (concat (map (d_data sp enc) pre))) in *.
  set (n := ccount sp (snd (snd e))) in *. set (sm := snd (snd e)) in *.
  unfold centries. rewrite map_length, seq_length.
  assert (Hn : n = S (Nat.pred n)) by (unfold n, ccount; reflexivity).
  rewrite Hn at 1. cbn [Nat.eqb negb andb].
  rewrite (incr_idn Ke HK). cbn [andb].
  apply forallb_forall. intros x Hx. apply in_map_iff in Hx. destruct Hx as (j & <- & Hj).
  apply in_seq in Hj. cbn [fst snd].
  apply andb_true_intro. split.
  - apply N.ltb_lt. rewrite two64_eq. apply Hids. lia.
  - apply N.leb_le. change (shard_index_len m) with (16 * T).
    unfold cstart. pose proof (lenN_cdata_mono (Ke * 2 ^ sp_p sp) sm (S j) n ltac:(lia)) as Hm.
    unfold d_data in Hend. fold sm in Hend. rewrite Emb in Hend. fold n in Hend. lia.
Qed.

(* every identifier listed at the slot of a present minishard belongs there *)
Lemma slot_place_present : forall d pre e post sh,
  desc_ok sp enc ienc d -> d = pre ++ e :: post ->
  (exists id, In id (akeys (snd (snd e))) /\
              spec_minishard (sp_p sp) m id = fst e /\ spec_shard (sp_p sp) m (sp_s sp) id = sh) ->
  slot_place_ok m (sp_s sp) (sp_p sp) idec sh (shard_bytes sp enc ienc d) (fst e) = true.
Proof.
  intros d pre e post sh Hd Ed (id0 & Hin0 & Em0 & Es0).
  destruct (read_slot_present sp enc ienc idec HB Hidec Hne d pre e post Hd Ed)
    as (Ke & HK & Emb & Hok & Hids & Er).
  unfold slot_place_ok. rewrite Er.
  apply forallb_forall. intros x Hx. unfold centries in Hx. apply in_map_iff in Hx.
  destruct Hx as (j & <- & Hj). cbn [fst].
  destruct (Hok id0 Hin0) as (_ & Hc0 & _).
  assert (Hmb : mbits sp (idn sp Ke j) = mbits sp id0).
  { rewrite Hc0. unfold idn. apply mbits_mk. exact HK. }
  destruct (mbits_route sp _ _ Hmb) as [R1 R2]. rewrite R1, R2, Em0, Es0, !N.eqb_refl. reflexivity.
Qed.


Lemma lenN_shard_bytes_ge : forall d, desc_ok sp enc ienc d -> 16 * T <= lenN (shard_bytes sp enc ienc d).
Proof.
  intros d (Hel & Hs & Hk & Hb). unfold shard_bytes. rewrite lenN_app, lenN_le64s. unfold lenN at 1.
  pose proof (fin_slot_le (d_kl sp enc ienc d 0) 0 T Hs ltac:(lia) Hk) as Hfin.
  rewrite (length_index_words _ _ _ Hs Hfin). lia.
Qed.

Lemma split_by_key : forall (d : desc) k, In k (map fst d) -> exists pre e post, d = pre ++ e :: post /\ fst e = k.
Proof.
  intros d k Hin. apply in_map_iff in Hin. destruct Hin as (e & Ee & He).
  destruct (in_split _ _ He) as (pre & post & ->). exists pre, e, post. split; [reflexivity | exact Ee].
Qed.

(* parse and slot-placement halves of WF for one shard file *)
Theorem wf_shard_parse_slot : forall d sh,
  desc_ok sp enc ienc d ->
  (forall e, In e d -> exists id, In id (akeys (snd (snd e))) /\
       spec_minishard (sp_p sp) m id = fst e /\ spec_shard (sp_p sp) m (sp_s sp) id = sh) ->
  let r := wf_shard m (sp_s sp) (sp_p sp) idec sh (shard_bytes sp enc ienc d) in
  wf_parse r = true /\ wf_slot r = true.
Proof.
  intros d sh Hd Hroute r. unfold r, wf_shard. cbn [wf_parse wf_slot]. split.
  - apply andb_true_intro. split.
    + apply N.leb_le. change (shard_index_len m) with (16 * T). apply lenN_shard_bytes_ge. exact Hd.
    + apply forallb_forall. intros k Hk. apply in_nseq in Hk.
      destruct (in_dec N.eq_dec k (map fst d)) as [Hin|Hno].
      * destruct (split_by_key d k Hin) as (pre & e & post & Ed & <-).
        apply (slot_parse_present d pre e post Hd Ed).
      * unfold slot_parse_ok. rewrite (read_slot_unused sp enc ienc idec HB d k Hd); [reflexivity | lia |].
        intros e He Ek. apply Hno. apply in_map_iff. exists e. split; assumption.
  - apply forallb_forall. intros k Hk. apply in_nseq in Hk.
    destruct (in_dec N.eq_dec k (map fst d)) as [Hin|Hno].
    + destruct (split_by_key d k Hin) as (pre & e & post & Ed & <-).
      apply (slot_place_present d pre e post sh Hd Ed). apply Hroute. rewrite Ed. apply in_or_app. right. left. reflexivity.
    + unfold slot_place_ok. rewrite (read_slot_unused sp enc ienc idec HB d k Hd); [reflexivity | lia |].
      intros e He Ek. apply Hno. apply in_map_iff. exists e. split; assumption.
Qed.

(* the file name written by Shard is parsed back to its shard number *)
Lemma wf_file_name : forall k f, k < 2 ^ sp_s sp ->
  wf_file m (sp_s sp) (sp_p sp) idec (shard_file_name sp k) f = wf_shard m (sp_s sp) (sp_p sp) idec k f.
Proof.
  intros k f Hk. unfold wf_file, strip_ext, shard_file_name.
  rewrite (shard_name_is_spec _ _ Hk).
  set (stem := spec_name (sp_s sp) k).
  change dot_shard with dot_shard_ext.
  assert (El : length (stem ++ dot_shard_ext) = (length stem + 6)%nat) by (rewrite app_length; reflexivity).
  rewrite El. replace (length stem + 6 - 6)%nat with (length stem) by lia.
  rewrite skipn_app_exact, firstn_app_exact.
  replace (6 <=? length stem + 6)%nat with true by (symmetry; apply Nat.leb_le; lia).
  assert (Hb : bytes_eqb dot_shard_ext dot_shard_ext = true) by reflexivity. rewrite Hb. cbn [andb].
  unfold stem. rewrite (spec_name_unhex _ _ Hk).
  replace (k <? 2 ^ sp_s sp) with true by (symmetry; apply N.ltb_lt; exact Hk).
  assert (Hb2 : bytes_eqb (spec_name (sp_s sp) k) (spec_name (sp_s sp) k) = true) by (apply bytes_eqb_eq; reflexivity).
  rewrite Hb2. reflexivity.
Qed.

(* canonical_wf, parse and slot halves: every file written by a valid session *)
Theorem canonical_wf_parse_slot : forall ops name f,
  sp_m sp < 60 -> ops_valid sp ops -> sizes_ok sp enc ienc ops ->
  In (name, f) (session_files sp enc ienc ops) ->
  let r := wf_file m (sp_s sp) (sp_p sp) idec name f in
  wf_parse r = true /\ wf_slot r = true.
Proof.
  intros ops name f Hm Hv Hsz Hin r.
  rewrite (session_files_explicit sp enc ienc HB ops Hm Hv Hsz) in Hin.
  apply in_map_iff in Hin. destruct Hin as ([k sh] & E & Hk). cbn [fst] in E. injection E as <- <-.
  destruct (shard_keys_facts sp enc HB ops Hv) as [Hlt _].
  assert (Hks : k < 2 ^ sp_s sp) by (apply Hlt; change k with (fst (k, sh)); apply in_map; exact Hk).
  unfold r. rewrite (wf_file_name k _ Hks).
  apply wf_shard_parse_slot; [apply desc_of_ok; assumption|].
  intros e He. unfold desc_of in He. apply in_map_iff in He. destruct He as (mk & <- & Hmk).
  apply in_used_minis in Hmk. cbn [fst snd]. unfold desc_elem. cbn [snd].
  destruct (routed sp k mk ops) as [|x l] eqn:Er; [congruence|].
  assert (Hx : In x (routed sp k mk ops)) by (rewrite Er; left; reflexivity).
  unfold routed in Hx. apply filter_In in Hx. destruct Hx as [Hxin Hxr].
  unfold routes in Hxr. apply andb_prop in Hxr. destruct Hxr as [Ra Rb].
  apply N.eqb_eq in Ra. apply N.eqb_eq in Rb.
  destruct Hv as [_ Hb]. destruct (Hb (fst x) (in_map fst _ _ Hxin)) as [Hlt64 _].
  destruct (keys_lt sp HB (fst x) Hlt64) as (_ & _ & Em & Es).
  exists (fst x). split; [left; reflexivity|]. split; congruence.
Qed.


(* ---------- disjointness ---------- *)
Definition nonempty_entry (x : N * (N * N)) : bool := fst (snd x) <? snd (snd x).
Definition chunk_ranges (Ke : N) (sm : store_map) (off : N) (s k : nat) : list (N * N) :=
  map (fun x => (16 * T + fst (snd x), 16 * T + snd (snd x)))
      (filter nonempty_entry
         (map (fun i => (idn sp Ke i, (cstart sp enc Ke sm off i, cstart sp enc Ke sm off (S i)))) (seq s k))).

Lemma cstart_mono : forall Ke sm off a b, (a <= b)%nat ->
  cstart sp enc Ke sm off a <= cstart sp enc Ke sm off b.
Proof. intros. unfold cstart. pose proof (lenN_cdata_mono (Ke * 2 ^ sp_p sp) sm a b H). lia. Qed.

Lemma good_chunks : forall Ke sm off mid nB rest k s,
  16 * T + cstart sp enc Ke sm off (s + k) <= mid ->
  good mid (16 * T + cstart sp enc Ke sm off (s + k)) nB rest ->
  good mid (16 * T + cstart sp enc Ke sm off s) nB (chunk_ranges Ke sm off s k ++ rest).
Proof.
  intros Ke sm off mid nB rest k. induction k as [|k IH]; intros s Hmid Hrest.
  - rewrite Nat.add_0_r in Hrest. exact Hrest.
  - unfold chunk_ranges. cbn [seq map filter]. unfold nonempty_entry at 1. cbn [fst snd].
    replace (s + S k)%nat with (S s + k)%nat in Hmid, Hrest by lia.
    specialize (IH (S s) Hmid Hrest).
    pose proof (cstart_mono Ke sm off s (S s) ltac:(lia)) as M1.
    pose proof (cstart_mono Ke sm off (S s) (S s + k) ltac:(lia)) as M2.
    destruct (N.ltb_spec (cstart sp enc Ke sm off s) (cstart sp enc Ke sm off (S s))) as [Hlt|Hge].
    + cbn [map app good fst snd]. split; [lia|]. left. split; [lia|]. split; [lia|]. exact IH.
    + assert (E : cstart sp enc Ke sm off s = cstart sp enc Ke sm off (S s)) by lia. rewrite E. exact IH.
Qed.

(* the ranges contributed by the slot of a present minishard *)
Lemma slot_ranges_present : forall d pre e post,
  desc_ok sp enc ienc d -> d = pre ++ e :: post ->
  exists Ke,
    slot_ranges m idec (shard_bytes sp enc ienc d) (fst e) =
    (let a := lenN (concat (map (d_data sp enc) d)) + sumlen (d_kl sp enc ienc pre 0) in
     let off := lenN (concat (map (d_data sp enc) pre)) in
     (16 * T + a, 16 * T + (a + lenN (d_enc sp enc ienc e off))) ::
     chunk_ranges Ke (snd (snd e)) off 0 (ccount sp (snd (snd e)))) /\
    fst (snd e) = Ke * 2 ^ sp_p sp.
Proof.
  intros d pre e post Hd Ed.
  destruct (read_slot_present sp enc ienc idec HB Hidec Hne d pre e post Hd Ed)
    as (Ke & HK & Emb & Hok & Hids & Er).
  destruct (shard_placement sp enc ienc HB d pre e post Hd Ed) as (a & _ & U1 & U2 & _).
  pose proof (placement_a sp enc ienc HB d pre e post Hd Ed) as Ua. rewrite U1 in Ua. injection Ua as ->.
  exists Ke. split; [|exact Emb]. unfold slot_ranges. rewrite U1, U2, Er.
  change (shard_index_len m) with (16 * T). reflexivity.
Qed.

Lemma slot_ranges_unused : forall d k, desc_ok sp enc ienc d -> k < T -> (forall e, In e d -> fst e <> k) ->
  slot_ranges m idec (shard_bytes sp enc ienc d) k = [].
Proof.
  intros d k Hd Hk Hno. unfold slot_ranges. rewrite (read_slot_unused sp enc ienc idec HB d k Hd Hk Hno).
  destruct (u64_at _ _); [destruct (u64_at _ _)|]; reflexivity.
Qed.

Lemma good_suffix : forall d, desc_ok sp enc ienc d ->
  forall post pre, d = pre ++ post ->
  let D := lenN (concat (map (d_data sp enc) d)) in
  good (16 * T + D) (16 * T + lenN (concat (map (d_data sp enc) pre)))
       (16 * T + D + sumlen (d_kl sp enc ienc pre 0))
       (flat_map (slot_ranges m idec (shard_bytes sp enc ienc d)) (map fst post)).
Proof.
  intros d Hd post. induction post as [|e r IH]; intros pre Ed D; [exact I|].
  cbn [map flat_map].
  destruct (slot_ranges_present d pre e r Hd Ed) as (Ke & Esr & Emb). rewrite Esr. cbv zeta. fold D.
  set (off := lenN (concat (map (d_data sp enc) pre))) in *.
  set (Spre := sumlen (d_kl sp enc ienc pre 0)) in *.
  set (len := lenN (d_enc sp enc ienc e off)) in *.
  set (n := ccount sp (snd (snd e))) in *. set (sm := snd (snd e)) in *.
  (* facts about the next element *)
  assert (Edpre : lenN (concat (map (d_data sp enc) (pre ++ [e]))) = off + lenN (d_data sp enc e)).
  { rewrite map_app, concat_app, lenN_app. cbn [map concat]. rewrite app_nil_r. reflexivity. }
  assert (Eklpre : sumlen (d_kl sp enc ienc (pre ++ [e]) 0) = Spre + len).
  { rewrite d_kl_app, sumlen_app_wf. cbn [d_kl sumlen fold_right snd]. rewrite N.add_0_l. fold off. fold len. lia. }
  specialize (IH (pre ++ [e]) ltac:(rewrite <- app_assoc; exact Ed)). cbv zeta in IH. fold D in IH.
  rewrite Edpre, Eklpre in IH.
  assert (Edata : D = off + (lenN (d_data sp enc e) + lenN (concat (map (d_data sp enc) r)))).
  { unfold D. rewrite Ed, map_app, concat_app, lenN_app. cbn [map concat]. rewrite lenN_app. reflexivity. }
  assert (Ecd : lenN (d_data sp enc e) = lenN (cdata sp enc sm (Ke * 2 ^ sp_p sp) n)).
  { unfold d_data. fold sm. fold n. rewrite Emb. reflexivity. }
  cbn [good app fst snd]. split; [lia|]. right. split; [lia|].
  replace (16 * T + off) with (16 * T + cstart sp enc Ke sm off 0)
    by (unfold cstart, cdata; cbn [seq flat_map]; change (lenN (@nil N)) with 0; lia).
  apply good_chunks.
  - cbn [Nat.add]. unfold cstart. lia.
  - cbn [Nat.add]. unfold cstart. rewrite <- Ecd.
    replace (16 * T + (off + lenN (d_data sp enc e))) with (16 * T + (off + lenN (d_data sp enc e))) by reflexivity.
    replace (16 * T + (D + Spre + len)) with (16 * T + D + (Spre + len)) by lia. exact IH.
Qed.


Lemma sorted_from_strong : forall ks slot, sorted_from slot ks ->
  StronglySorted N.lt (map fst ks) /\ Forall (fun k => slot <= k) (map fst ks).
Proof.
  induction ks as [|[k l] r IH]; intros slot H; cbn [map fst]; [split; constructor|].
  cbn in H. destruct H as [H1 H2]. destruct (IH _ H2) as [S1 F1]. split.
  - constructor; [exact S1|]. eapply Forall_impl; [|exact F1]. cbn. intros; lia.
  - constructor; [exact H1|]. eapply Forall_impl; [|exact F1]. cbn. intros; lia.
Qed.

Theorem wf_shard_disjoint : forall d sh, desc_ok sp enc ienc d ->
  wf_disjoint (wf_shard m (sp_s sp) (sp_p sp) idec sh (shard_bytes sp enc ienc d)) = true.
Proof.
  intros d sh Hd. unfold wf_shard. cbn [wf_disjoint]. change (shard_index_len m) with (16 * T).
  pose proof Hd as (Hel & Hs & Hk & Hb).
  destruct (sorted_from_strong _ _ Hs) as [Hss _]. rewrite (d_kl_keys sp enc ienc) in Hss.
  rewrite (flat_map_sparse (slot_ranges m idec (shard_bytes sp enc ienc d)) (N.to_nat T) (map fst d) 0 Hss).
  - set (D := lenN (concat (map (d_data sp enc) d))).
    apply (good_disjoint (16 * T + D) _ 0 (16 * T + D)); [|lia].
    cbn [good]. split; [lia|]. left. split; [lia|]. split; [lia|].
    pose proof (good_suffix d Hd d [] eq_refl) as G. cbv zeta in G. fold D in G.
    cbn [map concat d_kl sumlen fold_right] in G. change (lenN (@nil N)) with 0 in G.
    rewrite !N.add_0_r in G. exact G.
  - intros k Hin. rewrite N2Nat.id. split; [lia|]. cbn. 
    assert (Hin' : In k (map fst (d_kl sp enc ienc d 0))) by (rewrite (d_kl_keys sp enc ienc); exact Hin).
    apply in_map_iff in Hin'. destruct Hin' as (kl & <- & Hkl). apply (Hk kl Hkl).
  - intros k Hkr Hno. rewrite N2Nat.id in Hkr. apply slot_ranges_unused; [exact Hd | lia |].
    intros e He Ek. apply Hno. apply in_map_iff. exists e. split; assumption.
Qed.

(* canonical_wf: every file written by a valid session satisfies the whole
   layout predicate *)
Theorem canonical_wf : forall ops name f,
  sp_m sp < 60 -> ops_valid sp ops -> sizes_ok sp enc ienc ops ->
  In (name, f) (session_files sp enc ienc ops) ->
  wf_all (wf_file m (sp_s sp) (sp_p sp) idec name f) = true.
Proof.
  intros ops name f Hm Hv Hsz Hin.
  destruct (canonical_wf_parse_slot ops name f Hm Hv Hsz Hin) as [P1 P2].
  unfold wf_all. rewrite P1, P2. cbn [andb].
  rewrite (session_files_explicit sp enc ienc HB ops Hm Hv Hsz) in Hin.
  apply in_map_iff in Hin. destruct Hin as ([k sh] & E & Hk). cbn [fst] in E. injection E as <- <-.
  destruct (shard_keys_facts sp enc HB ops Hv) as [Hlt _].
  assert (Hks : k < 2 ^ sp_s sp) by (apply Hlt; change k with (fst (k, sh)); apply in_map; exact Hk).
  rewrite (wf_file_name k _ Hks). apply wf_shard_disjoint. apply desc_of_ok; assumption.
Qed.

End Wf.
