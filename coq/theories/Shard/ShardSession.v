(* Accessor-level writing sessions: ShardedFileAccessor with several scales,
   operations  Store key coords payload  and  Close, where Close may be called
   several times and stores may follow a Close (the pattern of
   compute_dyadic_scales: write scale 1, close, write scale 2, close).

   What the code does (sharded_file_accessor.py, read at /repo 95d7b2e plus the close-retry
   repair: the data buffers are released at the end of a successful Shard.close):
   * ShardedFileAccessor.close -> every ShardedScale in insertion order ->
     every Shard in insertion order -> Shard.close.  The first exception
     aborts the whole close; the remaining shards stay as they are.
   * Shard.close returns at once when the shard is not dirty: a second Close
     does nothing to it and leaves its file alone.
   * Shard.close of a dirty shard truncates the file ("wb"), writes the zero
     header, then for every minishard in key order: minishard.close(), its
     data, minishard.offset = ...; at the very end dirty is reset and then
     del minishard.databytearray  for every minishard.  The MiniShard OBJECTS
     stay in minishard_dict.
   * Hence a store into a shard that was already closed makes it dirty again,
     and then
       - a store that is the next expected identifier of an already closed
         minishard raises AttributeError ('MiniShard' object has no attribute
         'databytearray') in append; an identifier further ahead is silently
         buffered; one behind raises RuntimeError as usual;
       - the next Close of that shard truncates the file and raises
         AttributeError at the first already-closed minishard (in flush /
         gap filling, or when iterating its data): the chunks written by the
         first Close are LOST (the file keeps the zero header and the data of
         the minishards that come before in key order), dirty stays set, and
         the rest of the accessor is not closed.  The buffers of the
         minishards handled before the exception are NOT deleted (the
         deletion happens after the file is complete), so a further Close
         fails in the same way and leaves the same file.
     This is modelled exactly; the theorems of C05 are about sessions that do
     not store into a closed shard.

   The per-scale writer state is the existing one (ShardFile.scale); the
   session adds the insertion order of the shards, the set of minishards whose
   data buffer has been deleted, and the directory contents.  AttributeError is
   not among Val.crash, so session outcomes have their own type [sout].
   Scale keys are numbers here (the harness maps its key strings to 0, 1, ...).
   All scales of a session use the same encoders (arguments).  Scope: fresh
   directories (no shard file exists when a Shard object is constructed).  If
   struct.pack overflows or there are too many minishards (both proved
   unreachable for valid sessions) the model leaves  zeros ++ data  in the file
   and does not reproduce the index bytes written before the failure. *)
From Coq Require Import NArith ZArith List Bool Lia.
From NGS Require Import Val Ints Morton ShardBytes MiniShard ShardFile.
Import ListNotations.
Open Scope N_scope.

Inductive sout : Type :=
| SOut (o : outcome unit)
| SAttrErr.                (* AttributeError *)

Definition sok : sout := SOut (Ok tt).

(* insertion-ordered dict: update in place, new keys at the end *)
Fixpoint oset {V} (k : N) (v : V) (l : list (N * V)) : list (N * V) :=
  match l with
  | [] => [(k, v)]
  | (k', v') :: r => if k' =? k then (k, v) :: r else (k', v') :: oset k v r
  end.

Definition pair_mem (a b : N) (l : list (N * N)) : bool :=
  existsb (fun p => (fst p =? a) && (snd p =? b)) l.

(* one directory: file name -> content *)
Definition dir := list (bytes * bytes).
Fixpoint dwrite (name content : bytes) (d : dir) : dir :=
  match d with
  | [] => [(name, content)]
  | (n, c) :: r => if bytes_eqb n name then (name, content) :: r else (n, c) :: dwrite name content r
  end.

Record wscale := {
  ws_v : vspec; ws_sp : sparams;
  ws_scale : scale;               (* ShardedScale.shard_dict with its Shard objects *)
  ws_order : list N;              (* shard keys in insertion order *)
  ws_dead : list (N * N)          (* (shard, minishard) whose databytearray was deleted *)
}.

Record sess := {
  se_scales : list (N * wscale);  (* ShardedFileAccessor.shard_dict, insertion ordered *)
  se_fs : list (N * dir)          (* scale key -> directory of that scale *)
}.
Definition sess_init : sess := {| se_scales := []; se_fs := [] |}.

Definition sdir (st : sess) (k : N) : dir :=
  match alookup k (se_fs st) with Some d => d | None => [] end.

Section Session.
Variable cfg : N -> option (vspec * sparams).      (* the info file: scale key -> specs *)
Variable data_enc idx_enc : bytes -> bytes.

(* ---------- stores ---------- *)
(* MiniShard.store_cmc_chunk on an object whose databytearray was deleted *)
Definition ms_store_dead (sp : sparams) (st : mini) (buf : bytes) (cmc : N) : mini * sout :=
  let mb := match ms_mask st with
            | Some x => if x =? 0 then masked_of sp cmc else x
            | None => masked_of sp cmc
            end in
  let st1 := with_mask st mb in
  let c := data_enc buf in
  let nx := ms_next sp st1 in
  if cmc <? nx then (st1, SOut (Crash RuntimeError))
  else if nx =? cmc then (st1, SAttrErr)              (* append: self.databytearray += buf *)
  else (with_pend st1 (aset cmc c (ms_pend st1)), sok).

Definition scale_store_dead (sp : sparams) (st : scale) (buf : bytes) (cmc : N) : scale * sout :=
  let sk := shard_key_model (sp_p sp) (sp_m sp) (sp_s sp) cmc in
  let mk := minishard_key_model (sp_p sp) (sp_m sp) cmc in
  let sh := match alookup sk st with Some x => x | None => shard_init end in
  let ms := match alookup mk (sh_minis sh) with Some x => x | None => ms_init end in
  let '(ms', r) := ms_store_dead sp ms buf cmc in
  (aset sk {| sh_minis := aset mk ms' (sh_minis sh); sh_dirty := true |} st, r).

Definition ws_store (ws : wscale) (buf : bytes) (x y z : Z) : wscale * sout :=
  match get_cmc_model (ws_v ws) x y z with
  | Ok cmc =>
      let sp := ws_sp ws in
      let sk := shard_key_model (sp_p sp) (sp_m sp) (sp_s sp) cmc in
      let mk := minishard_key_model (sp_p sp) (sp_m sp) cmc in
      let order := if existsb (N.eqb sk) (ws_order ws) then ws_order ws else ws_order ws ++ [sk] in
      let '(sc, r) :=
        if pair_mem sk mk (ws_dead ws) then scale_store_dead sp (ws_scale ws) buf cmc
        else let '(sc, o) := scale_store_cmc sp data_enc (ws_scale ws) buf cmc in (sc, SOut o) in
      ({| ws_v := ws_v ws; ws_sp := sp; ws_scale := sc; ws_order := order; ws_dead := ws_dead ws |}, r)
  | FormatErr => (ws, SOut FormatErr) | InfoErr => (ws, SOut InfoErr) | AccessErr => (ws, SOut AccessErr)
  | IOErr => (ws, SOut IOErr) | Refused => (ws, SOut Refused) | Crash k => (ws, SOut (Crash k))
  end.

(* ShardedFileAccessor.store_chunk(buf, key, coords) *)
Definition sess_store (st : sess) (k : N) (buf : bytes) (x y z : Z) : sess * sout :=
  let found := match alookup k (se_scales st) with
               | Some ws => Some ws
               | None => match cfg k with
                         | Some (v, sp) => Some {| ws_v := v; ws_sp := sp; ws_scale := []; ws_order := [];
                                                   ws_dead := [] |}
                         | None => None end
               end in
  match found with
  | None => (st, SOut IOErr)                           (* get_volume_shard_spec: ShardedIOError *)
  | Some ws =>
      let '(ws', r) := ws_store ws buf x y z in
      ({| se_scales := oset k ws' (se_scales st); se_fs := se_fs st |}, r)
  end.

(* ---------- close ---------- *)
(* minishard.close() on an object whose databytearray was deleted, followed by
   the iteration over its data: always an exception *)
Definition dead_close (sp : sparams) (st : mini) : mini * sout :=
  match ms_mask st with
  | None => (st, SOut IOErr)
  | Some _ =>
      let nx := ms_next sp st in
      match alookup nx (ms_pend st) with
      | Some _ => (with_pend st (aremove nx (ms_pend st)), SAttrErr)     (* pop, then append fails *)
      | None =>
          if existsb (fun k => k <? nx) (akeys (ms_pend st)) then (st, SOut IOErr)
          else (st, SAttrErr)            (* gap-filling append, or "for b in minishard.databytearray" *)
      end
  end.

(* first loop of Shard.close over the minishards in key order, stopping at the
   first exception.  Result: updated minishards (in the same order), data
   written, the minishards that were closed and written (their buffers are
   deleted at the very END of a successful Shard.close only), outcome. *)
Fixpoint close_minis_sess (sp : sparams) (sk : N) (dead : list (N * N)) (l : list (N * mini)) (data : bytes)
  : list (N * mini) * bytes * list N * sout :=
  match l with
  | [] => ([], data, [], sok)
  | (mk, ms) :: r =>
      if pair_mem sk mk dead then
        let '(ms1, o) := dead_close sp ms in ((mk, ms1) :: r, data, [], o)
      else
        let '(ms1, res) := ms_close sp ms in
        match res with
        | Ok _ =>
            match set_offset ms1 (lenN data) with
            | Ok ms2 =>
                let '(rest, d, done, o) := close_minis_sess sp sk dead r (data ++ ms_data ms1) in
                ((mk, ms2) :: rest, d, mk :: done, o)
            | _ => ((mk, ms1) :: r, data ++ ms_data ms1, [], SOut (Crash IndexError))   (* header[1] = ... *)
            end
        | e => ((mk, ms1) :: r, data, [], SOut e)
        end
  end.

(* Shard.close.  Result: the Shard object, what the file now contains (None: not
   touched), the deleted buffers, the outcome.  The buffers of the minishards
   are deleted (for b in sorted_mini_dict: del minishard.databytearray) only
   after the file is complete and dirty has been reset: when anything raises
   before, every buffer that was alive stays alive and the close can be
   retried. *)
Definition shard_close_sess (sp : sparams) (sk : N) (dead : list (N * N)) (sh : shard)
  : shard * option bytes * list (N * N) * sout :=
  if negb (sh_dirty sh) then (sh, None, dead, sok) else
  let zeros := repeat 0 (N.to_nat (header_len_model (sp_m sp))) in
  let '(minis, data, done, o) := close_minis_sess sp sk dead (sort_by_key (sh_minis sh)) [] in
  let failed (e : sout) := ({| sh_minis := minis; sh_dirty := true |}, Some (zeros ++ data), dead, e) in
  match o with
  | SOut (Ok _) =>
      let dead' := map (fun mk => (sk, mk)) done ++ dead in
      match shard_close sp idx_enc {| sh_minis := sh_minis sh; sh_dirty := true |} with
      | Ok (Some b) => ({| sh_minis := minis; sh_dirty := false |}, Some b, dead', sok)
      | Ok None => ({| sh_minis := minis; sh_dirty := false |}, None, dead', sok)      (* not reachable: dirty *)
      | FormatErr => failed (SOut FormatErr) | InfoErr => failed (SOut InfoErr)
      | AccessErr => failed (SOut AccessErr) | IOErr => failed (SOut IOErr)
      | Refused => failed (SOut Refused) | Crash c => failed (SOut (Crash c))
      end
  | e => failed e
  end.

(* ShardedScale.close: the shards in insertion order, stop at the first exception *)
Fixpoint scale_close_sess (ws : wscale) (d : dir) (keys : list N) : wscale * dir * sout :=
  match keys with
  | [] => (ws, d, sok)
  | sk :: r =>
      match alookup sk (ws_scale ws) with
      | None => scale_close_sess ws d r
      | Some sh =>
          if negb (sh_dirty sh) then scale_close_sess ws d r        (* Shard.close returns at once *)
          else
          let '(sh', file, dead', o) := shard_close_sess (ws_sp ws) sk (ws_dead ws) sh in
          let ws' := {| ws_v := ws_v ws; ws_sp := ws_sp ws; ws_scale := aset sk sh' (ws_scale ws);
                        ws_order := ws_order ws; ws_dead := dead' |} in
          let d' := match file with Some b => dwrite (shard_file_name (ws_sp ws) sk) b d | None => d end in
          match o with
          | SOut (Ok _) => scale_close_sess ws' d' r
          | e => (ws', d', e)
          end
      end
  end.

(* ShardedFileAccessor.close: the scales in insertion order *)
Fixpoint close_scales (l : list (N * wscale)) (fs : list (N * dir))
  : list (N * wscale) * list (N * dir) * sout :=
  match l with
  | [] => ([], fs, sok)
  | (k, ws) :: r =>
      let d := match alookup k fs with Some d => d | None => [] end in
      let '(ws', d', o) := scale_close_sess ws d (ws_order ws) in
      let fs' := if (length d' =? 0)%nat then fs else oset k d' fs in
      match o with
      | SOut (Ok _) => let '(r', fs'', o') := close_scales r fs' in ((k, ws') :: r', fs'', o')
      | e => ((k, ws') :: r, fs', e)
      end
  end.

Definition sess_close (st : sess) : sess * sout :=
  let '(sc, fs, o) := close_scales (se_scales st) (se_fs st) in
  ({| se_scales := sc; se_fs := fs |}, o).

(* ---------- whole sessions ---------- *)
Inductive sop := SStore (k : N) (x y z : Z) (buf : bytes) | SClose.

Fixpoint sess_run (st : sess) (ops : list sop) : sess * list sout :=
  match ops with
  | [] => (st, [])
  | SStore k x y z buf :: r =>
      let '(st1, o) := sess_store st k buf x y z in
      let '(st2, os) := sess_run st1 r in (st2, o :: os)
  | SClose :: r =>
      let '(st1, o) := sess_close st in
      let '(st2, os) := sess_run st1 r in (st2, o :: os)
  end.

End Session.

(* ---------- the info file may be replaced during a session ---------- *)
(* ShardedFileAccessor.info (getter) parses the info FILE on every access
   unless the attribute was set through the setter; store_chunk consults it
   only for a scale key that is not yet in shard_dict.  So replacing the info
   file (store_file("info", ..., overwrite=True), which is what
   get_IO_for_new_dataset(..., overwrite_info=True) does) changes the specs of
   the scales that are FIRST written afterwards and of no other.  In the model
   the info is the [cfg] argument of sess_store; an [IInfo] step replaces it. *)
Inductive iop :=
| IOp (o : sop)
| IInfo (c : N -> option (vspec * sparams)).

Fixpoint isess_run (data_enc idx_enc : bytes -> bytes)
                   (c : N -> option (vspec * sparams)) (st : sess) (ops : list iop)
  : sess * list sout :=
  match ops with
  | [] => (st, [])
  | IInfo c' :: r => isess_run data_enc idx_enc c' st r
  | IOp o :: r =>
      let '(st1, os1) := sess_run c data_enc idx_enc st [o] in
      let '(st2, os2) := isess_run data_enc idx_enc c st1 r in (st2, os1 ++ os2)
  end.
