(* In-kernel evaluation of the concrete datasets of ShardWitness.v. *)
From Coq Require Import NArith ZArith List Bool.
From NGS Require Import Val Ints Morton ShardBytes MiniShard ShardFile ShardReader ShardSpecReader ShardWitness.
Import ListNotations.
Open Scope N_scope.

Definition spec_result_eqb (r : spec_result) (want : option bytes) : bool :=
  match r, want with SFound b, Some w => bytes_eqb b w | _, _ => false end.
Definition outcome_eqb (r : outcome bytes) (want : option bytes) : bool :=
  match r, want with Ok b, Some w => bytes_eqb b w | _, _ => false end.

Definition wit_payload (id : N) : option bytes :=
  match wit_vspec with Ok v => payload_of_id v wit_ops id | _ => None end.
Definition ok_payload (id : N) : option bytes :=
  match ok_vspec with Ok v => payload_of_id v ok_ops id | _ => None end.

(* the dataset that used to witness the slot-placement defect (3x4x2 grid,
   m = 2, s = 2, p = 0: shards 2 and 3 use minishards {0, 2}): with the shard
   index padded up to each minishard's own slot the specification reader finds
   chunk 10 at slot 2, every file satisfies WF, and both readers return all
   24 stored payloads *)
Lemma old_witness_reads :
  used_minishards_prefix 2 2 0 wit_ids = false /\
  all_ok (fst wit_session) = true /\
  length wit_ids = 24%nat /\
  wit_payload 10 = Some [9; 9; 9] /\
  spec_fetch 2 2 0 raw_sdec raw_sdec wit_files 10 = SFound [9; 9; 9] /\
  forallb (fun nf => wf_all (wf_file 2 2 0 raw_sdec (fst nf) (snd nf))) wit_files = true /\
  forallb (fun id => spec_result_eqb (spec_fetch 2 2 0 raw_sdec raw_sdec wit_files id) (wit_payload id))
          wit_ids = true /\
  forallb (fun id => outcome_eqb (scale_fetch wit_sp raw_dec raw_dec (dir_of 2 wit_files) id) (wit_payload id))
          wit_ids = true.
Proof. vm_compute. repeat split; reflexivity. Qed.

(* same chunk set, reversed store order: byte-identical files *)
Lemma wit_order_instance : snd wit_session = snd wit_session_rev.
Proof. vm_compute. reflexivity. Qed.

(* a dataset inside the guard (2x3x2 grid, m = s = p = 1, stored in reverse order) *)
Lemma guard_example :
  used_minishards_prefix 1 1 1 ok_ids = true /\
  all_ok (fst ok_session) = true /\ length ok_ids = 12%nat /\
  forallb (fun id => spec_result_eqb (spec_fetch 1 1 1 raw_sdec raw_sdec ok_files id) (ok_payload id)) ok_ids = true /\
  forallb (fun id => outcome_eqb (scale_fetch ok_sp raw_dec raw_dec (dir_of 1 ok_files) id) (ok_payload id)) ok_ids = true /\
  forallb (fun nf => wf_all (wf_file 1 1 1 raw_sdec (fst nf) (snd nf))) ok_files = true.
Proof. vm_compute. repeat split; reflexivity. Qed.
