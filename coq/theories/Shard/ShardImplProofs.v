(* The package's own reader on the files written by close(). *)
From Coq Require Import NArith ZArith List Bool Lia Permutation Sorted.
From NGS Require Import Val Ints Morton MortonProofs ShardBytes MiniShard ShardFile ShardReader
  ShardSpecReader ShardCanon MiniShardProofs ShardFileProofs ShardReaderProofs ShardLayoutProofs
  ShardCloseProofs ShardSpecProofs ShardTopProofs ShardWfProofs ShardWitness.
Import ListNotations.
Open Scope N_scope.

Lemma fold_add64 : forall l a, a < 2 ^ 64 -> fold_left add64 l a = (a + sumN l) mod 2 ^ 64.
Proof.
  induction l as [|x r IH]; intros a Ha; cbn [fold_left sumN fold_right].
  - rewrite N.add_0_r. symmetry. apply N.mod_small. exact Ha.
  - fold (sumN r). rewrite IH by (unfold add64; rewrite two64_eq; apply N.mod_lt, pow2_nz).
    unfold add64. rewrite two64_eq. rewrite N.add_mod_idemp_l by apply pow2_nz. f_equal. lia.
Qed.

Lemma sum64_small : forall l, sumN l < 2 ^ 64 -> sum64 l = sumN l.
Proof.
  intros l H. unfold sum64. rewrite fold_add64 by (apply pow2_pos). rewrite N.add_0_l. apply N.mod_small. exact H.
Qed.

Lemma add64_small : forall a b, a + b < 2 ^ 64 -> add64 a b = a + b.
Proof. intros a b H. unfold add64. rewrite two64_eq. apply N.mod_small. exact H. Qed.

Lemma sub64_self_plus : forall a l, a + l < 2 ^ 64 -> sub64 (a + l) a = l.
Proof. intros a l H. rewrite sub64_small by lia. lia. Qed.

Section MiniRead.
Variable sp : sparams.
Variable enc : bytes -> bytes.
Variable Ke : N.
Notation mb := (Ke * 2 ^ sp_p sp).
Hypothesis HK : Ke < 2 ^ (sp_s sp + sp_m sp).
Hypothesis HB : cbits sp < 2 ^ 64.

Definition rows (sm : store_map) (off : N) (n : nat) : list N :=
  crow0 sp mb n ++ crow1 off n ++ crow2 sp enc sm mb n.

Lemma sum_sizes : forall sm i,
  sumN (map (fun j => lenN (cpay sp enc sm mb j)) (seq 0 i)) = lenN (cdata sp enc sm mb i).
Proof.
  intros sm i. induction i as [|i IH]; [reflexivity|].
  rewrite seq_S, map_app. cbn [map Nat.add].
  assert (Happ : forall a b, sumN (a ++ b) = sumN a + sumN b).
  { induction a as [|x a IHa]; intro b; cbn [app sumN fold_right]; [reflexivity|]. fold (sumN (a ++ b)). fold (sumN a). rewrite IHa. lia. }
  rewrite Happ, IH. cbn [sumN fold_right]. rewrite (cdata_S sp enc Ke), lenN_app. lia.
Qed.

Lemma sum_offs : forall off i, sumN (map (fun j => if (j =? 0)%nat then off else 0) (seq 0 (S i))) = off.
Proof.
  intros off i. cbn [seq map Nat.eqb sumN fold_right].
  assert (Hz : forall s k, (1 <= s)%nat -> fold_right N.add 0 (map (fun j => if (j =? 0)%nat then off else 0) (seq s k)) = 0).
  { intros s k. revert s. induction k as [|k IH]; intros s Hs; [reflexivity|].
    cbn [seq map fold_right]. rewrite IH by lia. destruct s; [lia | reflexivity]. }
  rewrite Hz by lia. lia.
Qed.

(* the index walk on the canonical rows stops at the rank of the identifier *)
Lemma walk_canon : forall n i tail, (i < n)%nat -> idn sp Ke i < 2 ^ 64 ->
  forall k j, (i - j = k)%nat -> (j <= i)%nat ->
  walk (map (cdelta sp mb) (seq (S j) (n - S j)) ++ tail) (idn sp Ke j) j (idn sp Ke i) = Ok (i, idn sp Ke i).
Proof.
  intros n i tail Hi Hlt. induction k as [|k IH]; intros j Hk Hj.
  - assert (j = i) by lia. subst j.
    destruct (map (cdelta sp mb) (seq (S i) (n - S i)) ++ tail); cbn [walk]; rewrite N.ltb_irrefl; reflexivity.
  - assert (Hji : (j < i)%nat) by lia.
    replace (n - S j)%nat with (S (n - S (S j))) by lia. cbn [seq map app walk].
    pose proof (idn_mono sp Ke HK HB j i Hji) as Hm.
    destruct (N.ltb_spec (idn sp Ke j) (idn sp Ke i)); [|lia].
    assert (Ea : add64 (idn sp Ke j) (cdelta sp mb (S j)) = idn sp Ke (S j)).
    { unfold cdelta. fold (idn sp Ke (S j)). fold (idn sp Ke j).
      pose proof (idn_mono sp Ke HK HB j (S j) ltac:(lia)).
      assert (idn sp Ke (S j) <= idn sp Ke i).
      { destruct (Nat.eq_dec (S j) i) as [->|]; [lia|]. pose proof (idn_mono sp Ke HK HB (S j) i ltac:(lia)). lia. }
      rewrite add64_small by lia. lia. }
    rewrite Ea. apply IH; lia.
Qed.


Lemma firstn_map_seq : forall {A} (f : nat -> A) k n s, (k <= n)%nat ->
  firstn k (map f (seq s n)) = map f (seq s k).
Proof.
  intros A f k. induction k as [|k IH]; intros n s H; [reflexivity|].
  destruct n as [|n]; [lia|]. cbn [seq map firstn]. f_equal. apply IH. lia.
Qed.

Lemma nth_error_map_seq : forall {A} (f : nat -> A) n i, (i < n)%nat ->
  nth_error (map f (seq 0 n)) i = Some (f i).
Proof.
  intros A f n i H. rewrite (map_nth_error f i (seq 0 n) (d := i)); [reflexivity|].
  rewrite nth_error_nth' with (d := 0%nat) by (rewrite seq_length; exact H).
  rewrite seq_nth by exact H. reflexivity.
Qed.

Lemma firstn_app_le : forall {A} (a b : list A) k, (k <= length a)%nat -> firstn k (a ++ b) = firstn k a.
Proof.
  intros A a b k H. rewrite firstn_app. replace (k - length a)%nat with 0%nat by lia.
  cbn [firstn]. apply app_nil_r.
Qed.

(* reading entry number i (stored chunk or gap) of a canonical minishard index *)
Lemma mini_fetch_canon : forall sm off n i f,
  sp_m sp < 60 -> (i < n)%nat -> (forall j, (j < n)%nat -> idn sp Ke j < 2 ^ 64) ->
  At f (16 * 2 ^ sp_m sp + off) (cdata sp enc sm mb n) ->
  16 * 2 ^ sp_m sp + off + lenN (cdata sp enc sm mb n) < 2 ^ 63 ->
  mini_fetch_raw sp (SrcShard f) (rows sm off n) (idn sp Ke i) = Ok (cpay sp enc sm mb i).
Proof.
  intros sm off n i f Hm Hi Hids HA Hsz.
  assert (L0 : length (crow0 sp mb n) = n) by (unfold crow0; rewrite map_length, seq_length; reflexivity).
  assert (L1 : length (crow1 off n) = n) by (unfold crow1; rewrite map_length, seq_length; reflexivity).
  assert (L2 : length (crow2 sp enc sm mb n) = n) by (unfold crow2; rewrite map_length, seq_length; reflexivity).
  assert (Lw : length (rows sm off n) = (3 * n)%nat) by (unfold rows; rewrite !app_length; lia).
  destruct n as [|n']; [lia|].
  unfold mini_fetch_raw.
  assert (Ews : rows sm off (S n') = idn sp Ke 0 :: (map (cdelta sp mb) (seq 1 (S n' - 1)) ++ crow1 off (S n') ++ crow2 sp enc sm mb (S n'))).
  { unfold rows, crow0. cbn [seq map app]. replace (S n' - 1)%nat with n' by lia. reflexivity. }
  rewrite Ews at 1. rewrite Lw.
  replace (Nat.div (3 * S n') 3) with (S n') by (symmetry; rewrite Nat.mul_comm; apply Nat.div_mul; lia).
  rewrite (walk_canon (S n') i _ Hi (Hids i Hi) i 0%nat) by lia. cbn [bind].
  rewrite N.eqb_refl. cbn [negb].
  (* size *)
  assert (Esz : nth_error (rows sm off (S n')) (2 * S n' + i) = Some (lenN (cpay sp enc sm mb i))).
  { unfold rows. rewrite nth_error_app2 by lia. rewrite nth_error_app2 by lia.
    replace (2 * S n' + i - length (crow0 sp mb (S n')) - length (crow1 off (S n')))%nat with i by lia.
    unfold crow2. apply (nth_error_map_seq (fun j => lenN (cpay sp enc sm mb j))). exact Hi. }
  rewrite Esz.
  (* offsets *)
  assert (Eo : wslice (S n') (S n' + i + 1) (rows sm off (S n')) =
               map (fun j => if (j =? 0)%nat then off else 0) (seq 0 (S i))).
  { unfold wslice, rows. replace (S n' + i + 1 - S n')%nat with (S i) by lia.
    rewrite <- L0 at 1. rewrite skipn_app_exact. rewrite firstn_app_le by lia.
    unfold crow1. apply firstn_map_seq. lia. }
  assert (Es : wslice (2 * S n') (2 * S n' + i) (rows sm off (S n')) =
               map (fun j => lenN (cpay sp enc sm mb j)) (seq 0 i)).
  { unfold wslice, rows. replace (2 * S n' + i - 2 * S n')%nat with i by lia.
    replace (2 * S n')%nat with (length (crow0 sp mb (S n') ++ crow1 off (S n'))) by (rewrite app_length; lia).
    rewrite app_assoc, skipn_app_exact. unfold crow2. apply firstn_map_seq. lia. }
  rewrite Eo, Es.
  pose proof (lenN_cdata_mono sp enc HB mb sm i (S n') ltac:(lia)) as Hmono.
  assert (Hhl : hl sp = 16 * 2 ^ sp_m sp) by (unfold hl; apply header_len_small; exact Hm).
  rewrite Hhl.
  assert (lt63 : forall x, x < 2 ^ 63 -> x < 2 ^ 64) by (intros x Hx; eapply N.lt_trans; [exact Hx | reflexivity]).
  set (HL := 16 * 2 ^ sp_m sp) in *.
  set (Ci := lenN (cdata sp enc sm mb i)) in *. set (Cn := lenN (cdata sp enc sm mb (S n'))) in *.
  assert (B1 : off < 2 ^ 64) by (apply lt63; lia).
  assert (B2 : Ci < 2 ^ 64) by (apply lt63; lia).
  assert (B3 : HL + off < 2 ^ 64) by (apply lt63; lia).
  assert (B4 : HL + off + Ci < 2 ^ 64) by (apply lt63; lia).
  rewrite (sum64_small _ ltac:(rewrite sum_offs; exact B1)), sum_offs.
  rewrite (sum64_small _ ltac:(rewrite sum_sizes; exact B2)), sum_sizes. fold Ci.
  rewrite (add64_small HL off B3), (add64_small (HL + off) Ci B4).
  (* the bytes *)
  destruct (cdata_split sp enc HB mb sm (S n') i Hi) as (rest & Esplit).
  rewrite Esplit in HA. apply at_inner in HA.
  cbn [read_bytes]. unfold file_read.
  pose proof (lenN_cpay_le sp enc HB mb sm (S n') i Hi) as Hle.
  destruct (N.leb_spec two63 (HL + off + Ci)) as [Hbad|_];
    [unfold two63 in Hbad; lia|].
  destruct (N.leb_spec (two63 - 1) (lenN (cpay sp enc sm mb i))) as [Hbad|_]; [unfold two63 in Hbad; lia|].
  f_equal.
  destruct (N.eq_dec (lenN (cpay sp enc sm mb i)) 0) as [Ez|Enz].
  - rewrite Ez. assert (cpay sp enc sm mb i = []) as -> by (destruct (cpay sp enc sm mb i); [reflexivity | unfold lenN in Ez; cbn in Ez; lia]).
    unfold slice. destruct (lenN f <=? _); [reflexivity|]. rewrite N.min_0_l. reflexivity.
  - apply at_slice; assumption.
Qed.

(* cumulative identifiers of the canonical rows, as the reader sums them *)
Lemma cum_canon : forall sm off n i, (i < n)%nat -> (forall j, (j < n)%nat -> idn sp Ke j < 2 ^ 64) ->
  cum_id (rows sm off n) i = idn sp Ke i.
Proof.
  intros sm off n i Hi Hids. destruct n as [|n']; [lia|].
  unfold cum_id, rows, crow0. cbn [seq map app hd tl].
  rewrite firstn_app_le by (rewrite map_length, seq_length; lia).
  rewrite (firstn_map_seq (cdelta sp mb) i n' 1) by lia.
  change (cdelta sp mb 0) with (idn sp Ke 0).
  assert (Hi' : (i <= n')%nat) by lia. clear Hi. revert Hi'.
  induction i as [|i IH]; intro Hi'; [reflexivity|].
  rewrite seq_S, map_app, fold_left_app. cbn [map fold_left Nat.add]. rewrite IH by lia.
  unfold cdelta. fold (idn sp Ke (S i)). fold (idn sp Ke i).
  pose proof (idn_mono sp Ke HK HB i (S i) ltac:(lia)). pose proof (Hids (S i) ltac:(lia)).
  rewrite add64_small by lia. lia.
Qed.

End MiniRead.

(* ---------- populate_minishard_dict on the written file ---------- *)
Lemma pairs_of_pairs : forall n v l, pairs_of (pairs n v ++ l) = repeat (v, v) n ++ pairs_of l.
Proof.
  induction n as [|n IH]; intros v l; [reflexivity|].
  unfold pairs in *. cbn [repeat concat app pairs_of].
  f_equal. apply IH.
Qed.

Section ImplRead.
Variable sp : sparams.
Variable enc ienc : bytes -> bytes.
Variable idx_o : bytes -> outcome bytes.
Hypothesis HB : cbits sp < 2 ^ 64.
Hypothesis Hio : forall b, idx_o (ienc b) = Ok b.
Hypothesis Hne : forall b, b <> [] -> ienc b <> [].
Hypothesis Hm : sp_m sp < 59.
Notation T := (2 ^ sp_m sp).
Notation mkey := (minishard_key_model (sp_p sp) (sp_m sp)).

Definition d_rows (e : N * (N * store_map)) (off : N) : list N :=
  let n := ccount sp (snd (snd e)) in
  crow0 sp (fst (snd e)) n ++ crow1 off n ++ crow2 sp enc (snd (snd e)) (fst (snd e)) n.

Fixpoint pdict (post : desc) (off : N) (dct : list (N * list N)) : list (N * list N) :=
  match post with
  | [] => dct
  | e :: r => pdict r (off + lenN (d_data sp enc e)) (aset (fst e) (d_rows e off) dct)
  end.

(* a shard below 2^63 bytes whose minishards are listed under their own number *)
Definition desc_ok63 (d : desc) : Prop :=
  desc_ok sp enc ienc d /\
  16 * T + lenN (concat (map (d_data sp enc) d)) + sumlen (d_kl sp enc ienc d 0) < 2 ^ 63 /\
  (forall e, In e d -> exists id, In id (akeys (snd (snd e))) /\
                                   spec_minishard (sp_p sp) (sp_m sp) id = fst e).

Lemma populate_skip : forall s n v l dct, v < 2 ^ 64 ->
  populate_slots sp idx_o s (repeat (v, v) n ++ l) dct = populate_slots sp idx_o s l dct.
Proof.
  intros s n v l dct Hv. induction n as [|n IH]; [reflexivity|].
  cbn [repeat app populate_slots]. rewrite sub64_small by lia. rewrite N.sub_diag. cbn [N.eqb]. exact IH.
Qed.

Lemma lt63_64 : forall x, x < 2 ^ 63 -> x < 2 ^ 64.
Proof. intros x Hx. eapply N.lt_trans; [exact Hx | reflexivity]. Qed.

Lemma hl_eq : hl sp = 16 * T.
Proof. unfold hl. apply header_len_small. lia. Qed.

Lemma sumlen_app : forall a b, sumlen (a ++ b) = sumlen a + sumlen b.
Proof.
  induction a as [|x a IH]; intro b; cbn [app sumlen fold_right]; [reflexivity|].
  fold (sumlen (a ++ b)). fold (sumlen a). rewrite IH. lia.
Qed.

Lemma populate_suffix : forall d, desc_ok63 d ->
  forall post pre slot nn vv dct,
  d = pre ++ post -> vv < 2 ^ 64 ->
  sorted_from slot (d_kl sp enc ienc post (lenN (concat (map (d_data sp enc) pre)))) ->
  populate_slots sp idx_o (SrcShard (shard_bytes sp enc ienc d))
    (pairs_of (ixwords (d_kl sp enc ienc post (lenN (concat (map (d_data sp enc) pre)))) slot
                       (lenN (concat (map (d_data sp enc) d)) + sumlen (d_kl sp enc ienc pre 0))
               ++ pairs nn vv)) dct
  = Ok (pdict post (lenN (concat (map (d_data sp enc) pre))) dct).
Proof.
  intros d (Hd & H63 & Hkey). set (f := shard_bytes sp enc ienc d).
  set (D := lenN (concat (map (d_data sp enc) d))) in *.
  induction post as [|e r IH]; intros pre slot nn vv dct Ed Hvv Hs.
  - cbn [d_kl ixwords app pdict]. rewrite <- (app_nil_r (pairs nn vv)), pairs_of_pairs, populate_skip by exact Hvv.
    reflexivity.
  - set (off := lenN (concat (map (d_data sp enc) pre))) in *.
    set (base := D + sumlen (d_kl sp enc ienc pre 0)) in *.
    cbn [d_kl ixwords pdict sorted_from] in *. destruct Hs as [Hle Hs'].
    set (len := lenN (d_enc sp enc ienc e off)) in *.
    destruct (shard_placement sp enc ienc HB d pre e r Hd Ed) as (a & HkT & U1 & _ & A1 & A2 & _ & _ & Hsz & Hsz2).
    pose proof (placement_a sp enc ienc HB d pre e r Hd Ed) as Ua. fold f in U1, Ua, A1. fold D in Ua. fold base in Ua.
    rewrite U1 in Ua. injection Ua as ->. fold off in A1, Hsz, Hsz2, A2. fold len in Hsz2.
    (* size facts *)
    assert (Hsum : sumlen (d_kl sp enc ienc d 0) = sumlen (d_kl sp enc ienc pre 0) + (len + sumlen (d_kl sp enc ienc r (off + lenN (d_data sp enc e))))).
    { rewrite Ed, d_kl_app, sumlen_app. cbn [d_kl sumlen fold_right snd]. rewrite N.add_0_l. reflexivity. }
    assert (Hbase : 16 * T + base + len < 2 ^ 63) by (unfold base; lia).
    rewrite <- !app_assoc, pairs_of_pairs, populate_skip by (apply lt63_64; lia).
    cbn [app pairs_of populate_slots].
    rewrite hl_eq.
    rewrite (add64_small base (16 * T)) by (apply lt63_64; lia).
    rewrite (sub64_self_plus base len) by (apply lt63_64; lia).
    (* the encoded index is not empty *)
    assert (Hel : elem_ok sp e).
    { destruct Hd as (Hf & _). rewrite Forall_forall in Hf. apply Hf. rewrite Ed. apply in_or_app. right. left. reflexivity. }
    destruct (elem_facts sp HB e Hel) as (Ke & HK & Emb & Hok & Hids & Hrank).
    set (n := ccount sp (snd (snd e))) in *. set (sm := snd (snd e)) in *.
    assert (Hn : n = S (Nat.pred n)) by (unfold n, ccount; reflexivity).
    assert (Hraw : d_raw sp enc e off <> []).
    { unfold d_raw. fold sm. fold n. unfold crow0. rewrite Hn. cbn [seq map app le64s flat_map le64 le_bytes]. discriminate. }
    assert (HlenE : len <> 0).
    { unfold len, d_enc. pose proof (Hne _ Hraw) as Hx. destruct (ienc (d_raw sp enc e off)); [congruence|]. unfold lenN. cbn. lia. }
    destruct (N.eqb_spec len 0) as [E0|_]; [congruence|].
    cbn [read_bytes]. unfold file_read.
    destruct (N.leb_spec two63 (base + 16 * T)) as [Hbad|_]; [unfold two63 in Hbad; lia|].
    destruct (N.leb_spec (two63 - 1) len) as [Hbad|_]; [unfold two63 in Hbad; lia|].
    cbn [bind].
    replace (base + 16 * T) with (16 * T + base) by lia.
    unfold len at 1. rewrite (at_slice _ _ _ A1 HlenE). unfold d_enc at 1. rewrite Hio. cbn [bind].
    (* parse_index *)
    assert (HF : Forall (fun w => w < 2 ^ 64) (d_rows e off)).
    { unfold d_rows. fold sm. fold n. rewrite Emb. apply (rows_fit sp enc HB); [exact HK | exact Hids|].
      unfold d_data in Hsz. fold sm in Hsz. rewrite Emb in Hsz. fold n in Hsz. exact Hsz. }
    assert (Lr : length (d_rows e off) = (3 * n)%nat).
    { unfold d_rows. fold sm. fold n. unfold crow0, crow1, crow2. rewrite !app_length, !map_length, !seq_length. lia. }
    assert (Epi : parse_index (d_raw sp enc e off) = Ok (d_rows e off)).
    { unfold parse_index, frombuffer64. change (d_raw sp enc e off) with (le64s (d_rows e off)).
      rewrite length_le64s, Lr.
      replace (Nat.modulo (8 * (3 * n)) 8) with 0%nat by (symmetry; rewrite Nat.mul_comm; apply Nat.mod_mul; lia).
      replace (Nat.div (8 * (3 * n)) 8) with (3 * n)%nat by (symmetry; rewrite Nat.mul_comm; apply Nat.div_mul; lia).
      cbn [Nat.eqb bind]. rewrite <- Lr. rewrite <- (app_nil_r (le64s (d_rows e off))), words64_le64s by exact HF.
      rewrite Lr. replace (Nat.modulo (3 * n) 3) with 0%nat by (symmetry; rewrite Nat.mul_comm; apply Nat.mod_mul; lia).
      cbn [Nat.eqb negb]. destruct (d_rows e off) eqn:Er; [|reflexivity]. rewrite Hn in Lr. cbn in Lr. lia. }
    rewrite Epi. cbn [bind].
    (* the key under which the index is filed *)
    assert (Ekey : mkey (hd 0 (d_rows e off)) = fst e).
    { unfold d_rows. fold sm. fold n. rewrite Hn. unfold crow0. cbn [seq map app hd cdelta]. rewrite Emb.
      destruct (Hkey e) as (id0 & Hin0 & Em0); [rewrite Ed; apply in_or_app; right; left; reflexivity|].
      fold sm in Hin0. destruct (Hok id0 Hin0) as (Hlt0 & Hc0 & _).
      assert (Hmb : mbits sp (mk sp (Ke * 2 ^ sp_p sp) 0) = mbits sp id0) by (rewrite Hc0; apply mbits_mk; exact HK).
      destruct (mbits_route sp _ _ Hmb) as [R1 _].
      assert (H0lt : mk sp (Ke * 2 ^ sp_p sp) 0 < 2 ^ 64) by (apply (Hids 0%nat); lia).
      destruct (keys_lt sp HB _ H0lt) as (_ & _ & E1 & _). rewrite E1, R1. exact Em0. }
    rewrite Ekey.
    (* the remaining slots *)
    assert (Eoff : off + lenN (d_data sp enc e) = lenN (concat (map (d_data sp enc) (pre ++ [e]))))
      by (unfold off; rewrite map_app, concat_app, lenN_app; cbn [map concat]; rewrite app_nil_r; reflexivity).
    replace (base + len) with (D + sumlen (d_kl sp enc ienc (pre ++ [e]) 0)).
    2: { rewrite d_kl_app, sumlen_app. cbn [d_kl sumlen fold_right snd]. rewrite N.add_0_l. fold off. fold len. unfold base. lia. }
    rewrite Eoff in *.
    apply (IH (pre ++ [e]) (fst e + 1) nn vv); [rewrite <- app_assoc; exact Ed | exact Hvv | exact Hs'].
Qed.


Lemma forall_pairs : forall n v (P : N -> Prop), P v -> Forall P (pairs n v).
Proof.
  intros n v P H. induction n as [|n IH]; unfold pairs in *; cbn [repeat concat]; [constructor|].
  cbn [app]. constructor; [exact H|]. constructor; [exact H | exact IH].
Qed.

Lemma ixwords_le : forall ks slot base,
  Forall (fun w => w <= base + sumlen ks) (ixwords ks slot base).
Proof.
  induction ks as [|[key len] r IH]; intros slot base; cbn [ixwords sumlen fold_right snd]; [constructor|].
  fold (sumlen r). rewrite !Forall_app. split; [|split].
  - apply forall_pairs. lia.
  - repeat constructor; lia.
  - specialize (IH (key + 1) (base + len)). eapply Forall_impl; [|exact IH]. cbn. intros w Hw. lia.
Qed.

Theorem populate_written : forall d, desc_ok63 d ->
  populate sp idx_o (SrcShard (shard_bytes sp enc ienc d)) = Ok (pdict d 0 []).
Proof.
  intros d Hd63. pose proof Hd63 as (Hd & H63 & Hkey). destruct Hd as (Hel & Hs & Hk & Hb).
  set (f := shard_bytes sp enc ienc d). set (D := lenN (concat (map (d_data sp enc) d))) in *.
  set (ks := d_kl sp enc ienc d 0) in *.
  pose proof (fin_slot_le ks 0 T Hs ltac:(lia) Hk) as Hfin.
  set (W := index_words ks T D).
  assert (HlenW : length W = (2 * N.to_nat T)%nat) by (apply length_index_words; assumption).
  assert (HlW : lenN (le64s W) = 16 * T) by (rewrite lenN_le64s; unfold lenN; rewrite HlenW; lia).
  assert (HT : 16 * T <= 2 ^ 62).
  { change (2 ^ 62) with (16 * 2 ^ 58). apply N.mul_le_mono_l. apply N.pow_le_mono_r; [discriminate | lia]. }
  assert (H62 : 2 ^ 62 < two63 - 1) by reflexivity.
  pose proof (pow2_pos (sp_m sp)) as HTpos.
  unfold populate. cbn [read_bytes]. rewrite hl_eq. unfold file_read.
  assert (E0 : (two63 <=? 0) = false) by reflexivity. rewrite E0.
  destruct (N.leb_spec (two63 - 1) (16 * T)) as [Hbad|_]; [lia|]. cbn [bind].
  assert (Esl : slice 0 (16 * T) f = le64s W).
  { unfold slice, f, shard_bytes. fold D. fold ks. fold W. rewrite lenN_app, HlW.
    destruct (N.leb_spec (16 * T + lenN (concat (map (d_data sp enc) d) ++ concat (d_encs sp enc ienc d 0))) 0); [lia|].
    rewrite N.min_l by lia. cbn [N.to_nat skipn]. rewrite <- HlW, to_nat_lenN. apply firstn_app_exact. }
  rewrite Esl.
  assert (HFW : Forall (fun w => w < 2 ^ 64) W).
  { unfold W, index_words. rewrite Forall_app. split.
    - eapply Forall_impl; [|apply ixwords_le]. cbn. intros w Hw. apply lt63_64. lia.
    - apply forall_pairs. apply lt63_64. lia. }
  unfold frombuffer64. rewrite length_le64s.
  replace (Nat.modulo (8 * length W) 8) with 0%nat by (symmetry; rewrite Nat.mul_comm; apply Nat.mod_mul; lia).
  replace (Nat.div (8 * length W) 8) with (length W) by (symmetry; rewrite Nat.mul_comm; apply Nat.div_mul; lia).
  cbn [Nat.eqb bind]. rewrite <- (app_nil_r (le64s W)), words64_le64s by exact HFW.
  unfold W, index_words.
  pose proof (populate_suffix d Hd63 d [] 0 (N.to_nat (T - fin_slot ks 0)) (D + sumlen ks) [] eq_refl) as Hp.
  cbn [map concat d_kl sumlen fold_right] in Hp. change (lenN (@nil N)) with 0 in Hp.
  fold D in Hp. fold ks in Hp. rewrite N.add_0_r in Hp. fold f in Hp.
  apply Hp; [apply lt63_64; lia | exact Hs].
Qed.

(* lookups in the dictionary built by populate *)
Lemma pdict_other : forall post off dct k, (forall e, In e post -> fst e <> k) ->
  alookup k (pdict post off dct) = alookup k dct.
Proof.
  induction post as [|e r IH]; intros off dct k H; [reflexivity|]. cbn [pdict].
  rewrite IH by (intros e' He'; apply H; right; exact He').
  rewrite alookup_aset. destruct (N.eqb_spec (fst e) k) as [E|_]; [|reflexivity].
  exfalso. apply (H e); [left; reflexivity | exact E].
Qed.

Lemma pdict_at : forall p1 e p2 off dct, (forall e', In e' p2 -> fst e' <> fst e) ->
  alookup (fst e) (pdict (p1 ++ e :: p2) off dct) =
  Some (d_rows e (off + lenN (concat (map (d_data sp enc) p1)))).
Proof.
  induction p1 as [|x p1 IH]; intros e p2 off dct H.
  - cbn [app pdict map concat]. change (lenN (@nil N)) with 0. rewrite N.add_0_r.
    rewrite pdict_other by exact H. rewrite alookup_aset, N.eqb_refl. reflexivity.
  - cbn [app pdict map concat]. rewrite IH by exact H. rewrite lenN_app, N.add_assoc. reflexivity.
Qed.


Lemma sorted_from_ge : forall ks slot, sorted_from slot ks -> forall kl, In kl ks -> slot <= fst kl.
Proof.
  induction ks as [|[k l] r IH]; intros slot H kl Hin; [destruct Hin|]. cbn in H. destruct H as [H1 H2].
  destruct Hin as [<-|Hin]; [exact H1|]. specialize (IH _ H2 kl Hin). lia.
Qed.

Lemma sorted_suffix_gt : forall ks1 k l ks2 slot, sorted_from slot (ks1 ++ (k, l) :: ks2) ->
  forall kl, In kl ks2 -> k < fst kl.
Proof.
  induction ks1 as [|[k1 l1] ks1 IH]; intros k l ks2 slot H kl Hin; cbn [app sorted_from] in H.
  - destruct H as [_ H2]. pose proof (sorted_from_ge _ _ H2 kl Hin). lia.
  - destruct H as [_ H2]. apply (IH k l ks2 _ H2 kl Hin).
Qed.

(* every entry (stored chunk or gap) of every minishard of the written file,
   read through a freshly constructed Shard object *)
Theorem impl_read_entry : forall d pre e post Ke i,
  desc_ok63 d -> d = pre ++ e :: post ->
  Ke < 2 ^ (sp_s sp + sp_m sp) -> fst (snd e) = Ke * 2 ^ sp_p sp ->
  (i < ccount sp (snd (snd e)))%nat ->
  shard_fetch_raw sp idx_o (SrcShard (shard_bytes sp enc ienc d)) (idn sp Ke i)
  = Ok (cpay sp enc (snd (snd e)) (Ke * 2 ^ sp_p sp) i).
Proof.
  intros d pre e post Ke i Hd63 Ed HK Emb Hi. pose proof Hd63 as (Hd & H63 & Hkey).
  unfold shard_fetch_raw. rewrite (populate_written d Hd63). cbn [bind]. unfold fetch_with.
  destruct (shard_placement sp enc ienc HB d pre e post Hd Ed) as (a & HkT & _ & _ & _ & A2 & _ & Hend & Hsz & _).
  set (f := shard_bytes sp enc ienc d) in *. set (off := lenN (concat (map (d_data sp enc) pre))) in *.
  assert (Hel : elem_ok sp e).
  { destruct Hd as (Hf & _). rewrite Forall_forall in Hf. apply Hf. rewrite Ed. apply in_or_app. right. left. reflexivity. }
  destruct (elem_facts sp HB e Hel) as (Ke' & HK' & Emb' & Hok & Hids & Hrank).
  assert (Ke' = Ke) by (rewrite Emb in Emb'; apply N.mul_cancel_r in Emb'; [congruence | apply pow2_nz]). subst Ke'.
  set (n := ccount sp (snd (snd e))) in *. set (sm := snd (snd e)) in *.
  (* the identifier is filed under this minishard's number *)
  assert (Ekey : mkey (idn sp Ke i) = fst e).
  { destruct (Hkey e) as (id0 & Hin0 & Em0); [rewrite Ed; apply in_or_app; right; left; reflexivity|].
    fold sm in Hin0. destruct (Hok id0 Hin0) as (Hlt0 & Hc0 & _).
    assert (Hmb : mbits sp (idn sp Ke i) = mbits sp id0) by (rewrite Hc0; unfold idn; apply mbits_mk; exact HK).
    destruct (mbits_route sp _ _ Hmb) as [R1 _].
    destruct (keys_lt sp HB _ (Hids i Hi)) as (_ & _ & E1 & _). rewrite E1, R1. exact Em0. }
  rewrite Ekey, Ed.
  rewrite pdict_at.
  2: { intros e' He' Eq. destruct Hd as (_ & Hs & _ & _). rewrite Ed, d_kl_app in Hs. cbn [d_kl] in Hs.
       assert (Hin : In (fst e', lenN (d_enc sp enc ienc e' 0)) (map (fun x => (fst x, lenN (d_enc sp enc ienc x 0))) post))
         by (apply in_map_iff; exists e'; split; [reflexivity | exact He']).
       assert (Hkeys : forall dd o, map fst (d_kl sp enc ienc dd o) = map fst dd).
       { induction dd as [|x r IH]; intro o; cbn [d_kl map fst]; [reflexivity | rewrite IH; reflexivity]. }
       assert (Hk' : In (fst e') (map fst (d_kl sp enc ienc post (0 + lenN (concat (map (d_data sp enc) pre)) + lenN (d_data sp enc e))))).
       { rewrite Hkeys. apply in_map. exact He'. }
       apply in_map_iff in Hk'. destruct Hk' as (kl & Ekl & Hkl).
       pose proof (sorted_suffix_gt _ _ _ _ _ Hs kl Hkl) as Hgt. cbn [fst] in Hgt. lia. }
  rewrite N.add_0_l. fold off.
  assert (Erows : d_rows e off = rows sp enc Ke sm off n) by (unfold d_rows, rows; fold sm; fold n; rewrite Emb; reflexivity).
  rewrite Erows.
  apply (mini_fetch_canon sp enc Ke HK HB sm off n i f); try assumption; try lia.
  - unfold d_data in A2. fold sm in A2. rewrite Emb in A2. exact A2.
  - unfold d_data in Hend. fold sm in Hend. rewrite Emb in Hend. fold n in Hend.
    destruct Hd as (_ & _ & _ & _).
    assert (lenN f <= 16 * T + lenN (concat (map (d_data sp enc) d)) + sumlen (d_kl sp enc ienc d 0)).
    { unfold f, shard_bytes. rewrite !lenN_app, lenN_le64s, <- sumlen_encs.
      destruct Hd63 as ((_ & Hs & Hk & _) & _ & _).
      pose proof (fin_slot_le _ 0 T Hs ltac:(lia) Hk) as Hfin. unfold lenN at 1.
      rewrite (length_index_words _ _ _ Hs Hfin). lia. }
    assert (16 * T + off + lenN (cdata sp enc sm (Ke * 2 ^ sp_p sp) n) <= lenN f) by exact Hend. lia.
Qed.

End ImplRead.

(* ---------- whole sessions ---------- *)
Section ImplTop.
Variable sp : sparams.
Variable enc ienc : bytes -> bytes.
Variable idx_o data_o : bytes -> outcome bytes.
Hypothesis HB : cbits sp < 2 ^ 64.
Hypothesis Hio : forall b, idx_o (ienc b) = Ok b.
Hypothesis Hdo : forall b, data_o (enc b) = Ok b.
Hypothesis Hne : forall b, b <> [] -> ienc b <> [].
Hypothesis Hm : sp_m sp < 59.
Notation T := (2 ^ sp_m sp).
Notation skey := (shard_key_model (sp_p sp) (sp_m sp) (sp_s sp)).

(* every shard file stays below 2^63 bytes (file offsets are signed 64-bit) *)
Definition sizes_ok63 (ops : list (N * bytes)) : Prop :=
  forall sk, 16 * T + lenN (concat (map (d_data sp enc) (desc_of sp ops sk))) +
             sumlen (d_kl sp enc ienc (desc_of sp ops sk) 0) < 2 ^ 63.

Lemma sizes63_ok : forall ops, sizes_ok63 ops -> sizes_ok sp enc ienc ops.
Proof. intros ops H sk. specialize (H sk). apply lt63_64. lia. Qed.

Lemma desc_of_ok63 : forall ops sk, ops_valid sp ops -> sizes_ok63 ops ->
  desc_ok63 sp enc ienc (desc_of sp ops sk).
Proof.
  intros ops sk Hv H63. split; [apply desc_of_ok; [exact HB | exact Hv | apply sizes63_ok; exact H63]|].
  split; [apply H63|].
  intros e He. destruct (desc_of_routes sp HB ops sk e Hv He) as (id & Hin & Em & _). exists id. split; assumption.
Qed.

Lemma dir_of_session : forall ops id b,
  ops_valid sp ops -> sizes_ok63 ops -> In (id, b) ops ->
  dir_of (sp_s sp) (session_files sp enc ienc ops) (skey id) =
  SrcShard (shard_bytes sp enc ienc (desc_of sp ops (skey id))).
Proof.
  intros ops id b Hv H63 Hin. unfold dir_of.
  rewrite (session_files_explicit sp enc ienc HB ops ltac:(lia) Hv (sizes63_ok ops H63)).
  destruct (shard_keys_facts sp enc HB ops Hv) as [Hlt Hpres].
  assert (Hk : skey id < 2 ^ sp_s sp) by (apply Hlt; apply (Hpres id b Hin)).
  assert (En : shard_name_model (sp_s sp) (skey id) ++ ext_shard = spec_file_name (sp_s sp) (skey id)).
  { unfold spec_file_name. rewrite (shard_name_is_spec _ _ Hk). reflexivity. }
  rewrite En.
  rewrite (blookup_files sp (fun k => shard_bytes sp enc ienc (desc_of sp ops k)) _ (skey id) (Hpres id b Hin) Hlt).
  reflexivity.
Qed.

(* impl_reads_canonical: after close, a freshly opened reader of the package
   returns exactly the stored bytes of every stored chunk, for every chunk set,
   every store order and every parameter triple *)
Theorem impl_reads_canonical : forall ops id b,
  ops_valid sp ops -> sizes_ok63 ops -> In (id, b) ops ->
  scale_fetch sp idx_o data_o (dir_of (sp_s sp) (session_files sp enc ienc ops)) id = Ok b.
Proof.
  intros ops id b Hv H63 Hin. unfold scale_fetch, shard_fetch.
  rewrite (dir_of_session ops id b Hv H63 Hin).
  destruct (desc_position sp ops id b Hv Hin) as (pre & e & post & Ed & Ee & Hl).
  pose proof (desc_of_ok63 ops (skey id) Hv H63) as Hd63.
  assert (Hel : elem_ok sp e).
  { destruct Hd63 as ((Hf & _) & _). rewrite Forall_forall in Hf. apply Hf. rewrite Ed. apply in_or_app. right. left. reflexivity. }
  destruct (elem_facts sp HB e Hel) as (Ke & HK & Emb & Hok & Hids & Hrank).
  destruct (Hrank id b Hl) as (Hi & Eid).
  rewrite Eid at 2.
  rewrite (impl_read_entry sp enc ienc idx_o HB Hio Hne Hm _ pre e post Ke _ Hd63 Ed HK Emb Hi).
  cbn [bind]. unfold cpay. fold (idn sp Ke (N.to_nat (rank sp id))). rewrite <- Eid, Hl. apply Hdo.
Qed.

End ImplTop.

(* ---------- a chunk that was never stored ---------- *)
Lemma blookup_map_inv : forall {V} (fname : N -> bytes) (F : N -> bytes) (l : list (N * V)) name f,
  blookup name (map (fun kv => (fname (fst kv), F (fst kv))) l) = Some f ->
  exists k, In k (akeys l) /\ name = fname k /\ f = F k.
Proof.
  intros V fname F l name f. induction l as [|[k v] r IH]; cbn [map blookup fst]; [discriminate|].
  destruct (bytes_eqb (fname k) name) eqn:Eb.
  - intro H. injection H as <-. apply bytes_eqb_eq in Eb. exists k. split; [left; reflexivity | split; [congruence | reflexivity]].
  - intro H. destruct (IH H) as (k' & Hin & E1 & E2). exists k'. split; [right; exact Hin | split; assumption].
Qed.

Lemma blookup_none : forall {V} (l : list (bytes * V)) name,
  (forall nv, In nv l -> fst nv <> name) -> blookup name l = None.
Proof.
  intros V l name. induction l as [|[n v] r IH]; intro H; [reflexivity|]. cbn [blookup].
  destruct (bytes_eqb n name) eqn:Eb.
  - apply bytes_eqb_eq in Eb. exfalso. apply (H (n, v)); [left; reflexivity | exact Eb].
  - apply IH. intros nv Hin. apply H. right. exact Hin.
Qed.

Lemma suffix_differs : forall a b : bytes, a ++ ext_index <> b ++ dot_shard.
Proof.
  intros a b E. apply (f_equal (@rev N)) in E. rewrite !rev_app_distr in E. cbn in E. discriminate.
Qed.

Section Never.
Variable sp : sparams.
Variable enc ienc : bytes -> bytes.
Variable idx_o data_o : bytes -> outcome bytes.
Hypothesis HB : cbits sp < 2 ^ 64.
Hypothesis Hio : forall b, idx_o (ienc b) = Ok b.
Hypothesis Hne : forall b, b <> [] -> ienc b <> [].
Hypothesis Hm : sp_m sp < 59.
(* decoding nothing yields nothing (raw), or fails (zlib) *)
Hypothesis Hempty : forall y, data_o [] = Ok y -> y = [].
Notation skey := (shard_key_model (sp_p sp) (sp_m sp) (sp_s sp)).
Notation mkey := (minishard_key_model (sp_p sp) (sp_m sp)).

Lemma pdict_inv : forall post off dct k ws,
  alookup k (pdict sp enc post off dct) = Some ws ->
  (exists p1 e p2, post = p1 ++ e :: p2 /\ fst e = k /\
                   ws = d_rows sp enc e (off + lenN (concat (map (d_data sp enc) p1)))) \/
  alookup k dct = Some ws.
Proof.
  induction post as [|e r IH]; intros off dct k ws H; [right; exact H|]. cbn [pdict] in H.
  destruct (IH _ _ _ _ H) as [(p1 & e' & p2 & -> & Ek & Ew)|Hd].
  - left. exists (e :: p1), e', p2. split; [reflexivity|]. split; [exact Ek|].
    cbn [map concat]. rewrite lenN_app, N.add_assoc. exact Ew.
  - rewrite alookup_aset in Hd. destruct (N.eqb_spec (fst e) k) as [Ek|_]; [|right; exact Hd].
    left. injection Hd as <-. exists [], e, r. split; [reflexivity|]. split; [exact Ek|].
    cbn [map concat]. change (lenN (@nil N)) with 0. rewrite N.add_0_r. reflexivity.
Qed.

(* never_stored: a chunk that was never stored is never reported as data.
   Whatever the freshly opened package reader returns for its identifier, it
   is an exception (IOErr, Crash ...) or the empty byte string. *)
Theorem never_stored : forall ops id b,
  ops_valid sp ops -> sizes_ok63 sp enc ienc ops -> id < 2 ^ 64 ->
  ~ In id (map fst ops) ->
  scale_fetch sp idx_o data_o (dir_of (sp_s sp) (session_files sp enc ienc ops)) id = Ok b ->
  b = [].
Proof.
  intros ops id b Hv H63 Hid Hnot Hf. unfold scale_fetch, shard_fetch in Hf.
  set (sk := skey id) in *.
  destruct (keys_lt sp HB id Hid) as (_ & Hsk & _ & _). fold sk in Hsk.
  pose proof (session_files_explicit sp enc ienc HB ops ltac:(lia) Hv (sizes63_ok sp enc ienc HB Hm ops H63)) as Efiles.
  destruct (shard_keys_facts sp enc HB ops Hv) as [Hlt _].
  unfold dir_of in Hf.
  destruct (blookup (shard_name_model (sp_s sp) sk ++ ext_shard) (session_files sp enc ienc ops)) as [f|] eqn:Eb.
  - (* the shard file exists *)
    rewrite Efiles in Eb.
    destruct (blookup_map_inv (shard_file_name sp) (fun k => shard_bytes sp enc ienc (desc_of sp ops k)) _ _ _ Eb)
      as (k & Hk & En & ->).
    assert (k = sk).
    { symmetry. apply (name_inj sp); [exact Hsk | apply Hlt; exact Hk | exact En]. }
    subst k.
    pose proof (desc_of_ok63 sp enc ienc HB Hm ops sk Hv H63) as Hd63.
    unfold shard_fetch_raw in Hf. rewrite (populate_written sp enc ienc idx_o HB Hio Hne Hm _ Hd63) in Hf.
    cbn [bind] in Hf. unfold fetch_with in Hf.
    destruct (alookup (mkey id) (pdict sp enc (desc_of sp ops sk) 0 [])) as [ws|] eqn:Ed; [|discriminate].
    destruct (pdict_inv _ _ _ _ _ Ed) as [(p1 & e & p2 & Edesc & Ek & ->)|Hbad]; [|discriminate].
    rewrite N.add_0_l in Hf.
    set (off := lenN (concat (map (d_data sp enc) p1))) in *.
    destruct (mini_fetch_raw sp (SrcShard (shard_bytes sp enc ienc (desc_of sp ops sk))) (d_rows sp enc e off) id)
      as [raw| | | | | |] eqn:Em; try discriminate.
    cbn [bind] in Hf.
    assert (Hel : elem_ok sp e).
    { destruct Hd63 as ((Hfa & _) & _). rewrite Forall_forall in Hfa. apply Hfa. rewrite Edesc. apply in_or_app. right. left. reflexivity. }
    destruct (elem_facts sp HB e Hel) as (Ke & HK & Emb & Hok & Hids & Hrank).
    set (n := ccount sp (snd (snd e))) in *. set (sm := snd (snd e)) in *.
    assert (Erows : d_rows sp enc e off = rows sp enc Ke sm off n)
      by (unfold d_rows, rows; fold sm; fold n; rewrite Emb; reflexivity).
    rewrite Erows in Em.
    assert (Lw : length (rows sp enc Ke sm off n) = (3 * n)%nat).
    { unfold rows, crow0, crow1, crow2. rewrite !app_length, !map_length, !seq_length. lia. }
    assert (Hraw : raw = []).
    { assert (Hm3 : Nat.modulo (length (rows sp enc Ke sm off n)) 3 = 0%nat)
        by (rewrite Lw, Nat.mul_comm; apply Nat.mod_mul; lia).
      apply (fetch_of_empty_entry sp (SrcShard (shard_bytes sp enc ienc (desc_of sp ops sk)))
               (rows sp enc Ke sm off n) id raw Hm3); [|exact Em].
      rewrite Lw. replace (Nat.div (3 * n) 3) with n by (symmetry; rewrite Nat.mul_comm; apply Nat.div_mul; lia).
      intros i Hi Hc. rewrite (cum_canon sp enc Ke HK HB sm off n i Hi Hids) in Hc.
      (* the entry with this identifier is a gap *)
      assert (Hgap : alookup id sm = None).
      { destruct (alookup id sm) as [b0|] eqn:El; [|reflexivity]. exfalso. apply Hnot.
        assert (Hin : In id (akeys sm)) by (apply in_akeys_alookup; congruence).
        assert (Hsm : sm = routed sp sk (fst e) ops).
        { assert (He : In e (desc_of sp ops sk)) by (rewrite Edesc; apply in_or_app; right; left; reflexivity).
          unfold desc_of in He. apply in_map_iff in He. destruct He as (mk0 & <- & _). reflexivity. }
        rewrite Hsm in Hin. unfold akeys, routed in Hin. apply in_map_iff in Hin. destruct Hin as (o & Eo & Ho).
        apply filter_In in Ho. rewrite <- Eo. apply in_map. apply Ho. }
      assert (Esz : nth_error (rows sp enc Ke sm off n) (2 * n + i) = Some (lenN (cpay sp enc sm (Ke * 2 ^ sp_p sp) i))).
      { unfold rows. rewrite nth_error_app2 by (unfold crow0; rewrite map_length, seq_length; lia).
        rewrite nth_error_app2 by (unfold crow0, crow1; rewrite !map_length, !seq_length; lia).
        unfold crow0, crow1. rewrite !map_length, !seq_length.
        replace (2 * n + i - n - n)%nat with i by lia.
        unfold crow2. apply (nth_error_map_seq (fun j => lenN (cpay sp enc sm (Ke * 2 ^ sp_p sp) j))). exact Hi. }
      rewrite (nth_error_nth _ _ 0 Esz). unfold cpay. fold (idn sp Ke i). rewrite Hc, Hgap. reflexivity. }
    subst raw. apply Hempty. exact Hf.
  - (* no shard file: neither is there a legacy pair *)
    assert (Hidx : blookup (shard_name_model (sp_s sp) sk ++ ext_index) (session_files sp enc ienc ops) = None).
    { apply blookup_none. intros nv Hin Ename. rewrite Efiles in Hin. apply in_map_iff in Hin.
      destruct Hin as (kv & <- & _). cbn [fst] in Ename. unfold shard_file_name in Ename.
      symmetry in Ename. apply suffix_differs in Ename. exact Ename. }
    rewrite Hidx in Hf. cbn in Hf. discriminate.
Qed.

End Never.

(* non-vacuity of the hypotheses of impl_reads_canonical / never_stored *)
Example impl_hyps_example :
  let sp := {| sp_m := 2; sp_s := 2; sp_p := 0 |} in
  let ops := [(10, [9; 9; 9]); (8, [2; 2; 2]); (26, []); (40, [7])] in
  let raw := fun b : bytes => b in
  let rawo := fun b : bytes => Ok b in
  cbits sp < 2 ^ 64 /\ sp_m sp < 59 /\ ops_valid sp ops /\ sizes_ok63 sp raw raw ops /\
  (forall y, rawo [] = Ok y -> y = []) /\ ~ In 24 (map fst ops) /\
  scale_fetch sp rawo rawo (dir_of 2 (session_files sp raw raw ops)) 10 = Ok [9; 9; 9] /\
  scale_fetch sp rawo rawo (dir_of 2 (session_files sp raw raw ops)) 24 = Ok [] /\
  scale_fetch sp rawo rawo (dir_of 2 (session_files sp raw raw ops)) 9 = Crash AssertionError.
Proof.
  cbv zeta. split; [reflexivity|]. split; [reflexivity|]. split; [|split; [|split; [|split]]].
  - split.
    + repeat constructor; simpl; intuition discriminate.
    + intros id [<-|[<-|[<-|[<-|[]]]]]; vm_compute; split; reflexivity.
  - intro sk. destruct (N.eq_dec sk 2) as [->|Hne].
    + vm_compute. reflexivity.
    + assert (E : desc_of {| sp_m := 2; sp_s := 2; sp_p := 0 |} [(10, [9; 9; 9]); (8, [2; 2; 2]); (26, []); (40, [7])] sk = []).
      { unfold desc_of, used_minis. cbn [filter fst sp_p sp_m sp_s].
        change (shard_key_model 0 2 2 10) with 2. change (shard_key_model 0 2 2 8) with 2.
        change (shard_key_model 0 2 2 26) with 2. change (shard_key_model 0 2 2 40) with 2.
        destruct (N.eqb_spec 2 sk) as [E|_]; [congruence|]. reflexivity. }
      rewrite E. vm_compute. reflexivity.
  - intros y H. injection H as <-. reflexivity.
  - simpl. intuition discriminate.
  - vm_compute. repeat split; reflexivity.
Qed.
