(* Sessions with repeated close(): close is idempotent; the files of a scale
   depend only on the operations of that scale. *)
From Coq Require Import NArith ZArith List Bool Lia Permutation Sorted.
From NGS Require Import Val Ints Morton MortonProofs ShardBytes MiniShard ShardFile ShardSpecReader
  ShardCanon MiniShardProofs ShardFileProofs ShardLayoutProofs ShardCloseProofs ShardSpecProofs
  ShardTopProofs ShardImplProofs ShardWitness ShardSession.
Import ListNotations.
Open Scope N_scope.

(* ---------- ordered dictionaries, directories ---------- *)
Lemma alookup_oset : forall {V} (k k' : N) (v : V) l,
  alookup k' (oset k v l) = if k =? k' then Some v else alookup k' l.
Proof.
  intros V k k' v l. induction l as [|[k0 v0] r IH]; cbn [oset alookup].
  - destruct (k =? k'); reflexivity.
  - destruct (N.eqb_spec k0 k) as [->|Hne]; cbn [alookup].
    + destruct (k =? k'); reflexivity.
    + rewrite IH. destruct (N.eqb_spec k0 k') as [->|]; [|reflexivity].
      destruct (N.eqb_spec k k'); [congruence | reflexivity].
Qed.

Lemma oset_same : forall {V} (k : N) (v : V) l, alookup k l = Some v -> oset k v l = l.
Proof.
  intros V k v l. induction l as [|[k0 v0] r IH]; cbn [oset alookup]; [discriminate|].
  destruct (N.eqb_spec k0 k) as [->|Hne]; intro H; [congruence | rewrite IH by exact H; reflexivity].
Qed.

Lemma bytes_eqb_refl : forall a, bytes_eqb a a = true.
Proof. intro a. apply bytes_eqb_eq. reflexivity. Qed.

Lemma blookup_dwrite : forall name name' c d,
  blookup name' (dwrite name c d) = if bytes_eqb name name' then Some c else blookup name' d.
Proof.
  intros name name' c d. induction d as [|[n0 c0] r IH]; [reflexivity|]. cbn [dwrite].
  destruct (bytes_eqb n0 name) eqn:E1; cbn [blookup].
  - apply bytes_eqb_eq in E1. subst n0. destruct (bytes_eqb name name'); reflexivity.
  - rewrite IH. destruct (bytes_eqb n0 name') eqn:E2; [|reflexivity].
    apply bytes_eqb_eq in E2. subst n0.
    destruct (bytes_eqb name name') eqn:E3; [|reflexivity].
    apply bytes_eqb_eq in E3. subst. rewrite bytes_eqb_refl in E1. discriminate.
Qed.

Section Idem.
Variable cfg : N -> option (vspec * sparams).
Variable enc ienc : bytes -> bytes.

(* every Shard object of the scale is clean / the order list knows every shard *)
Definition clean_ws (ws : wscale) : Prop :=
  forall sk sh, alookup sk (ws_scale ws) = Some sh -> sh_dirty sh = false.
Definition covers (ws : wscale) : Prop :=
  forall sk, alookup sk (ws_scale ws) <> None -> In sk (ws_order ws).

Lemma scale_close_clean : forall ws d keys, clean_ws ws -> scale_close_sess ienc ws d keys = (ws, d, sok).
Proof.
  intros ws d keys Hc. induction keys as [|sk r IH]; [reflexivity|]. cbn [scale_close_sess].
  destruct (alookup sk (ws_scale ws)) as [sh|] eqn:E; [|exact IH].
  rewrite (Hc _ _ E). cbn [negb]. exact IH.
Qed.

(* a successful ShardedScale.close leaves every listed shard clean, keeps the
   set of shards and the order list *)
Lemma scale_close_ok_clean : forall keys ws d ws' d',
  scale_close_sess ienc ws d keys = (ws', d', sok) ->
  ws_order ws' = ws_order ws /\
  (forall sk, alookup sk (ws_scale ws') <> None <-> alookup sk (ws_scale ws) <> None) /\
  (forall sk sh, alookup sk (ws_scale ws') = Some sh -> sh_dirty sh = true ->
                 ~ In sk keys /\ alookup sk (ws_scale ws) = Some sh).
Proof.
  induction keys as [|sk r IH]; intros ws d ws' d' H; cbn [scale_close_sess] in H.
  - injection H as <- <-. split; [reflexivity|]. split; [tauto|]. intros sk sh E _. split; [intros []| exact E].
  - destruct (alookup sk (ws_scale ws)) as [sh|] eqn:E.
    + destruct (sh_dirty sh) eqn:Ed; cbn [negb] in H.
      * destruct (shard_close_sess ienc (ws_sp ws) sk (ws_dead ws) sh) as [[[sh' file] dead'] o] eqn:Es.
        assert (Hok : forall e, o = SOut (Ok e) -> sh_dirty sh' = false).
        { intros e ->. unfold shard_close_sess in Es. rewrite Ed in Es. cbn [negb] in Es.
          destruct (close_minis_sess (ws_sp ws) sk (ws_dead ws) (sort_by_key (sh_minis sh)) []) as [[[ml dt] dd] o1].
          destruct o1 as [[[]| | | | | |]|]; try (injection Es as _ _ _ Ebad; discriminate).
          destruct (shard_close (ws_sp ws) ienc {| sh_minis := sh_minis sh; sh_dirty := true |}) as [[b|]| | | | | |];
            injection Es as <- _ _ Eo; try discriminate; reflexivity. }
        destruct o as [[[]| | | | | |]|]; try (injection H as _ _ Hbad; discriminate).
        specialize (Hok tt eq_refl).
        destruct (IH _ _ _ _ H) as (Ho & Hk & Hd). cbn [ws_order ws_scale] in *.
        split; [exact Ho|]. split.
        -- intro k. rewrite Hk, alookup_aset. destruct (N.eqb_spec sk k) as [->|]; [|tauto].
           split; [intros _; congruence | intros _; discriminate].
        -- intros k shk Ek Hdk. destruct (Hd k shk Ek Hdk) as [Hn El]. rewrite alookup_aset in El.
           destruct (N.eqb_spec sk k) as [->|Hne].
           ++ injection El as <-. congruence.
           ++ split; [intros [E'|Hin]; [congruence | exact (Hn Hin)] | exact El].
      * destruct (IH _ _ _ _ H) as (Ho & Hk & Hd). split; [exact Ho|]. split; [exact Hk|].
        intros k shk Ek Hdk. destruct (Hd k shk Ek Hdk) as [Hn El]. split; [|exact El].
        intros [<-|Hin]; [congruence | exact (Hn Hin)].
    + destruct (IH _ _ _ _ H) as (Ho & Hk & Hd). split; [exact Ho|]. split; [exact Hk|].
      intros k shk Ek Hdk. destruct (Hd k shk Ek Hdk) as [Hn El]. split; [|exact El].
      intros [<-|Hin]; [congruence | exact (Hn Hin)].
Qed.

Definition wf_scales (l : list (N * wscale)) : Prop := forall k ws, In (k, ws) l -> covers ws.
Definition clean_scales (l : list (N * wscale)) : Prop := forall k ws, In (k, ws) l -> clean_ws ws.

Lemma close_scales_clean : forall l fs, clean_scales l -> close_scales ienc l fs = (l, fs, sok).
Proof.
  induction l as [|[k ws] r IH]; intros fs Hc; [reflexivity|]. cbn [close_scales].
  rewrite scale_close_clean by (apply (Hc k ws); left; reflexivity).
  assert (IHr : forall fs0, close_scales ienc r fs0 = (r, fs0, sok))
    by (intro fs0; apply IH; intros k' ws' Hin; apply (Hc k' ws'); right; exact Hin).
  destruct (alookup k fs) as [d|] eqn:E.
  - destruct (length d =? 0)%nat.
    + rewrite IHr. reflexivity.
    + rewrite (oset_same k d fs E), IHr. reflexivity.
  - cbn [length Nat.eqb]. rewrite IHr. reflexivity.
Qed.

Lemma close_scales_ok : forall l fs l' fs',
  wf_scales l -> close_scales ienc l fs = (l', fs', sok) -> clean_scales l' /\ wf_scales l'.
Proof.
  induction l as [|[k ws] r IH]; intros fs l' fs' Hw H; cbn [close_scales] in H.
  - injection H as <- <-. split; intros k ws [].
  - destruct (scale_close_sess ienc ws (match alookup k fs with Some d => d | None => [] end) (ws_order ws))
      as [[ws1 d1] o] eqn:Es.
    destruct o as [[[]| | | | | |]|]; try (injection H as _ _ Hbad; discriminate).
    destruct (close_scales ienc r _) as [[r1 fs1] o1] eqn:Er. injection H as <- <- ->.
    destruct (IH _ _ _ ltac:(intros k' ws' Hin; apply (Hw k' ws'); right; exact Hin) Er) as [Hc1 Hw1].
    destruct (scale_close_ok_clean _ _ _ _ _ Es) as (Ho & Hk & Hd).
    assert (Hcov : covers ws) by (apply (Hw k ws); left; reflexivity).
    split.
    + intros k' ws' [E|Hin]; [|apply (Hc1 k' ws' Hin)]. injection E as <- <-.
      intros sk sh Esk. destruct (sh_dirty sh) eqn:Ed; [|reflexivity]. exfalso.
      destruct (Hd sk sh Esk Ed) as [Hn El]. apply Hn. apply Hcov. congruence.
    + intros k' ws' [E|Hin]; [|apply (Hw1 k' ws' Hin)]. injection E as <- <-.
      intros sk Hsk. rewrite Ho. apply Hcov. apply Hk. exact Hsk.
Qed.

(* close is idempotent: whenever close() returns normally, a second close()
   returns normally and changes neither the writer state nor any file *)
Theorem close_idempotent : forall st st1,
  wf_scales (se_scales st) -> sess_close ienc st = (st1, sok) ->
  sess_close ienc st1 = (st1, sok).
Proof.
  intros st st1 Hw H. unfold sess_close in *.
  destruct (close_scales ienc (se_scales st) (se_fs st)) as [[sc fs] o] eqn:E.
  injection H as <- ->. cbn [se_scales se_fs].
  destruct (close_scales_ok _ _ _ _ Hw E) as [Hc _].
  rewrite (close_scales_clean sc fs Hc). reflexivity.
Qed.

End Idem.

(* ---------- the invariant holds in every reachable state ---------- *)
Section Reach.
Variable cfg : N -> option (vspec * sparams).
Variable enc ienc : bytes -> bytes.

Lemma scale_close_keys : forall keys ws d ws' d' o,
  scale_close_sess ienc ws d keys = (ws', d', o) ->
  ws_order ws' = ws_order ws /\
  (forall sk, alookup sk (ws_scale ws') <> None <-> alookup sk (ws_scale ws) <> None).
Proof.
  induction keys as [|sk r IH]; intros ws d ws' d' o H; cbn [scale_close_sess] in H.
  - injection H as <- <- <-. split; [reflexivity | tauto].
  - destruct (alookup sk (ws_scale ws)) as [sh|] eqn:E; [|apply (IH _ _ _ _ _ H)].
    destruct (negb (sh_dirty sh)); [apply (IH _ _ _ _ _ H)|].
    destruct (shard_close_sess ienc (ws_sp ws) sk (ws_dead ws) sh) as [[[sh' file] dead'] o1].
    assert (Hstep : forall k, alookup k (aset sk sh' (ws_scale ws)) <> None <-> alookup k (ws_scale ws) <> None).
    { intro k. rewrite alookup_aset. destruct (N.eqb_spec sk k) as [->|]; [|tauto].
      split; [intros _; congruence | intros _; discriminate]. }
    destruct o1 as [[[]| | | | | |]|];
      try (injection H as <- _ _; cbn [ws_order ws_scale]; split; [reflexivity | exact Hstep]).
    destruct (IH _ _ _ _ _ H) as (Ho & Hk). cbn [ws_order ws_scale] in *.
    split; [exact Ho|]. intro k. rewrite Hk. apply Hstep.
Qed.

Lemma close_scales_wf : forall l fs l' fs' o,
  wf_scales l -> close_scales ienc l fs = (l', fs', o) -> wf_scales l'.
Proof.
  induction l as [|[k ws] r IH]; intros fs l' fs' o Hw H; cbn [close_scales] in H.
  - injection H as <- _ _. intros k ws [].
  - destruct (scale_close_sess ienc ws _ (ws_order ws)) as [[ws1 d1] o1] eqn:Es.
    destruct (scale_close_keys _ _ _ _ _ _ Es) as (Ho & Hk).
    assert (Hc1 : covers ws1).
    { intros sk Hsk. rewrite Ho. apply (Hw k ws); [left; reflexivity|]. apply Hk. exact Hsk. }
    assert (Hwr : wf_scales r) by (intros k' ws' Hin; apply (Hw k' ws'); right; exact Hin).
    destruct o1 as [[[]| | | | | |]|];
      try (injection H as <- _ _; intros k' ws' [E|Hin]; [injection E as <- <-; exact Hc1 | apply (Hwr k' ws' Hin)]).
    destruct (close_scales ienc r _) as [[r1 fs1] o2] eqn:Er. injection H as <- _ _.
    pose proof (IH _ _ _ _ Hwr Er) as Hw1.
    intros k' ws' [E|Hin]; [injection E as <- <-; exact Hc1 | apply (Hw1 k' ws' Hin)].
Qed.

Lemma ws_store_covers : forall ws buf x y z ws' o,
  covers ws -> ws_store enc ws buf x y z = (ws', o) -> covers ws'.
Proof.
  intros ws buf x y z ws' o Hc H. unfold ws_store in H.
  destruct (get_cmc_model (ws_v ws) x y z) as [cmc| | | | | |]; try (injection H as <- _; exact Hc).
  set (sp := ws_sp ws) in *.
  set (sk := shard_key_model (sp_p sp) (sp_m sp) (sp_s sp) cmc) in *.
  set (mk := minishard_key_model (sp_p sp) (sp_m sp) cmc) in *.
  assert (Hkeys : forall sc r,
     (if pair_mem sk mk (ws_dead ws) then scale_store_dead enc sp (ws_scale ws) buf cmc
      else let '(sc, o) := scale_store_cmc sp enc (ws_scale ws) buf cmc in (sc, SOut o)) = (sc, r) ->
     forall k, alookup k sc <> None -> k = sk \/ alookup k (ws_scale ws) <> None).
  { intros sc r E k Hk. destruct (pair_mem sk mk (ws_dead ws)).
    - unfold scale_store_dead in E. fold sk in E. fold mk in E.
      destruct (ms_store_dead enc sp _ buf cmc) as [ms' r'] in E. injection E as <- _.
      rewrite alookup_aset in Hk. destruct (N.eqb_spec sk k); [left; congruence | right; exact Hk].
    - destruct (store_step sp enc (ws_scale ws) buf cmc) as (_ & _ & _ & Hs).
      destruct (scale_store_cmc sp enc (ws_scale ws) buf cmc) as [sc0 o0]. injection E as <- _.
      cbn [fst] in Hs. apply Hs in Hk. fold sk in Hk. destruct Hk as [->|Hk]; [left; reflexivity | right; exact Hk]. }
  destruct (if pair_mem sk mk (ws_dead ws) then _ else _) as [sc r] eqn:E. injection H as <- _.
  intros k Hk. cbn [ws_scale ws_order] in *.
  destruct (Hkeys sc r eq_refl k Hk) as [->|Hold].
  - destruct (existsb (N.eqb sk) (ws_order ws)) eqn:Ex.
    + apply existsb_exists in Ex. destruct Ex as (q & Hq & Ex). apply N.eqb_eq in Ex. subst q. exact Hq.
    + apply in_or_app. right. left. reflexivity.
  - specialize (Hc k Hold). destruct (existsb (N.eqb sk) (ws_order ws)); [exact Hc | apply in_or_app; left; exact Hc].
Qed.

Lemma in_oset : forall {V} (k : N) (v : V) l k' v', In (k', v') (oset k v l) -> (k' = k /\ v' = v) \/ In (k', v') l.
Proof.
  intros V k v l k' v'. induction l as [|[k0 v0] r IH]; cbn [oset].
  - intros [E|[]]. injection E as <- <-. left. split; reflexivity.
  - destruct (k0 =? k).
    + intros [E|Hin]; [injection E as <- <-; left; split; reflexivity | right; right; exact Hin].
    + intros [E|Hin]; [right; left; exact E|]. destruct (IH Hin) as [H|H]; [left; exact H | right; right; exact H].
Qed.

Theorem reachable_wf : forall ops st,
  wf_scales (se_scales st) -> wf_scales (se_scales (fst (sess_run cfg enc ienc st ops))).
Proof.
  induction ops as [|op r IH]; intros st Hw; [exact Hw|]. destruct op as [k x y z buf|]; cbn [sess_run].
  - destruct (sess_store cfg enc st k buf x y z) as [st1 o] eqn:Es.
    assert (Hw1 : wf_scales (se_scales st1)).
    { unfold sess_store in Es.
      destruct (alookup k (se_scales st)) as [ws|] eqn:El.
      - destruct (ws_store enc ws buf x y z) as [ws' r'] eqn:Ew. injection Es as <- _. cbn [se_scales].
        assert (Hcw : covers ws).
        { assert (Hin : In (k, ws) (se_scales st)).
          { clear -El. induction (se_scales st) as [|[k0 v0] l IH]; [discriminate|]. cbn in El.
            destruct (N.eqb_spec k0 k) as [->|]; [injection El as ->; left; reflexivity | right; apply IH; exact El]. }
          apply (Hw k ws Hin). }
        intros k' w' Hin. destruct (in_oset _ _ _ _ _ Hin) as [[-> ->]|Hold];
          [apply (ws_store_covers _ _ _ _ _ _ _ Hcw Ew) | apply (Hw k' w' Hold)].
      - destruct (cfg k) as [[v sp]|]; [|injection Es as <- _; exact Hw].
        destruct (ws_store enc _ buf x y z) as [ws' r'] eqn:Ew. injection Es as <- _. cbn [se_scales].
        intros k' w' Hin. destruct (in_oset _ _ _ _ _ Hin) as [[-> ->]|Hold]; [|apply (Hw k' w' Hold)].
        assert (Hc0 : covers {| ws_v := v; ws_sp := sp; ws_scale := []; ws_order := []; ws_dead := [] |})
          by (intros sk Hsk; exfalso; apply Hsk; reflexivity).
        apply (ws_store_covers _ _ _ _ _ _ _ Hc0 Ew). }
    specialize (IH st1 Hw1). destruct (sess_run cfg enc ienc st1 r). exact IH.
  - destruct (sess_close ienc st) as [st1 o] eqn:Ec.
    assert (Hw1 : wf_scales (se_scales st1)).
    { unfold sess_close in Ec. destruct (close_scales ienc (se_scales st) (se_fs st)) as [[sc fs] o1] eqn:E.
      injection Ec as <- _. cbn [se_scales]. apply (close_scales_wf _ _ _ _ _ Hw E). }
    specialize (IH st1 Hw1). destruct (sess_run cfg enc ienc st1 r). exact IH.
Qed.

(* close is idempotent in every state reachable from the empty accessor by any
   sequence of stores and closes (valid or not, including ones that raised) *)
Theorem close_idempotent_reachable : forall ops st1,
  sess_close ienc (fst (sess_run cfg enc ienc sess_init ops)) = (st1, sok) ->
  sess_close ienc st1 = (st1, sok).
Proof.
  intros ops st1 H. apply (close_idempotent cfg enc ienc (fst (sess_run cfg enc ienc sess_init ops)) st1); [|exact H].
  apply reachable_wf. intros k ws [].
Qed.

End Reach.

(* ---------- closing a freshly written scale ---------- *)
Section FreshClose.
Variable sp : sparams.
Variable enc ienc : bytes -> bytes.
Hypothesis HB : cbits sp < 2 ^ 64.
Hypothesis Hm : sp_m sp < 60.
Notation skey := (shard_key_model (sp_p sp) (sp_m sp) (sp_s sp)).

Lemma pair_mem_cons : forall a b c d l,
  pair_mem a b ((c, d) :: l) = ((c =? a) && (d =? b)) || pair_mem a b l.
Proof. reflexivity. Qed.

(* with no deleted buffer among them the minishards are closed as before, and
   all of them are reported as written *)
Lemma close_minis_sess_live : forall sk l data dead ml dt,
  (forall mk, In mk (akeys l) -> pair_mem sk mk dead = false) ->
  close_minis sp l data = Ok (ml, dt) ->
  exists done, close_minis_sess sp sk dead l data = (ml, dt, done, sok).
Proof.
  intros sk l. induction l as [|[mk ms] r IH]; intros data dead ml dt Hlive H.
  - cbn in H. injection H as <- <-. exists []. reflexivity.
  - cbn [close_minis close_minis_sess] in *.
    rewrite (Hlive mk (or_introl eq_refl)).
    destruct (ms_close sp ms) as [ms1 res]. destruct res as [[]| | | | | |]; try discriminate. cbn [bind] in H.
    destruct (set_offset ms1 (lenN data)) as [ms2| | | | | |]; try discriminate. cbn [bind] in H.
    destruct (close_minis sp r (data ++ ms_data ms1)) as [[rest d]| | | | | |] eqn:Er; try discriminate.
    cbn [bind] in H. injection H as <- <-.
    destruct (IH (data ++ ms_data ms1) dead rest d) as (done & Ec); [|exact Er|].
    + intros mk' Hin. apply Hlive. right. exact Hin.
    + rewrite Ec. exists (mk :: done). reflexivity.
Qed.

(* every shard written by a valid sequence of stores is dirty and closes to
   the canonical file *)
Lemma shard_close_of_run : forall cms sk sh,
  ops_valid sp cms -> sizes_ok sp enc ienc cms ->
  alookup sk (fst (run_cmc_stores sp enc [] cms)) = Some sh ->
  sh_dirty sh = true /\
  shard_close sp ienc {| sh_minis := sh_minis sh; sh_dirty := true |} =
    Ok (Some (shard_bytes sp enc ienc (desc_of sp cms sk))) /\
  NoDup (akeys (sh_minis sh)).
Proof.
  intros cms sk sh Hv Hsz Hl.
  destruct (run_step sp enc cms []) as (_ & Hw & _).
  assert (W0 : WFS []) by (split; [constructor | intros k s0 H; discriminate]).
  destruct (Hw W0) as [Hnd Hs]. destruct (Hs _ _ Hl) as (Hndm & Hd & _).
  split; [exact Hd|]. split; [|exact Hndm].
  destruct (desc_of_ok sp enc ienc HB cms sk Hv Hsz) as (_ & Hso & Hk & Hbd).
  apply shard_close_explicit; try assumption.
  apply (closed_minis_are_desc sp enc HB cms sk sh Hv Hl).
Qed.


(* the directory after writing the canonical files of the listed shards *)
Fixpoint written (cms : list (N * bytes)) (keys : list N) (d : dir) : dir :=
  match keys with
  | [] => d
  | sk :: r => written cms r (dwrite (shard_file_name sp sk) (shard_bytes sp enc ienc (desc_of sp cms sk)) d)
  end.

Lemma fresh_scale_close : forall cms, ops_valid sp cms -> sizes_ok sp enc ienc cms ->
  forall keys ws d, ws_sp ws = sp -> NoDup keys ->
  (forall sk, In sk keys -> alookup sk (ws_scale ws) = alookup sk (fst (run_cmc_stores sp enc [] cms)) /\
                            alookup sk (fst (run_cmc_stores sp enc [] cms)) <> None) ->
  (forall sk mk, In sk keys -> pair_mem sk mk (ws_dead ws) = false) ->
  exists ws', scale_close_sess ienc ws d keys = (ws', written cms keys d, sok) /\
    ws_order ws' = ws_order ws /\ ws_sp ws' = sp /\ ws_v ws' = ws_v ws /\
    (forall sk sh, In sk keys -> alookup sk (ws_scale ws') = Some sh -> sh_dirty sh = false) /\
    (forall sk, ~ In sk keys -> alookup sk (ws_scale ws') = alookup sk (ws_scale ws)).
Proof.
  intros cms Hv Hsz. set (st := fst (run_cmc_stores sp enc [] cms)).
  induction keys as [|sk r IH]; intros ws d Hsp Hnd Hlk Hlive.
  - exists ws. cbn [scale_close_sess written]. repeat split; try reflexivity; try assumption. intros sk sh [].
  - cbn [scale_close_sess written]. inversion Hnd as [|? ? Hn Hr]; subst.
    destruct (Hlk sk (or_introl eq_refl)) as [El Hne]. fold st in El, Hne.
    destruct (alookup sk st) as [sh|] eqn:Est; [|congruence]. rewrite El.
    destruct (shard_close_of_run cms sk sh Hv Hsz Est) as (Hd & Hsc & Hndm).
    rewrite Hd. cbn [negb]. rewrite Hsp.
    unfold shard_close_sess. rewrite Hd. cbn [negb].
    (* the minishards close as in Shard.close of the single-close model *)
    assert (Hcm : exists ml dt, close_minis sp (sort_by_key (sh_minis sh)) [] = Ok (ml, dt)).
    { unfold shard_close in Hsc. cbn [sh_dirty negb sh_minis] in Hsc.
      destruct (close_minis sp (sort_by_key (sh_minis sh)) []) as [[ml dt]| | | | | |]; try discriminate.
      exists ml, dt. reflexivity. }
    destruct Hcm as (ml & dt & Hcm).
    destruct (close_minis_sess_live sk (sort_by_key (sh_minis sh)) [] (ws_dead ws) ml dt) as (done & Ec);
      [intros mk _; apply Hlive; left; reflexivity | exact Hcm |].
    rewrite Ec, Hsc.
    set (dead' := map (fun mk => (sk, mk)) done ++ ws_dead ws).
    assert (Hdead' : forall a b, pair_mem a b dead' = true -> a = sk \/ pair_mem a b (ws_dead ws) = true).
    { intros a b Hab. unfold dead', pair_mem in Hab. rewrite existsb_app in Hab. apply orb_prop in Hab.
      destruct Hab as [Hab|Hab]; [|right; exact Hab].
      apply existsb_exists in Hab. destruct Hab as (x & Hx & Ex). apply in_map_iff in Hx.
      destruct Hx as (mk0 & <- & _). cbn [fst snd] in Ex. apply andb_prop in Ex. destruct Ex as [Ex _].
      apply N.eqb_eq in Ex. left. congruence. }
    set (ws1 := {| ws_v := ws_v ws; ws_sp := sp; ws_scale := aset sk {| sh_minis := ml; sh_dirty := false |} (ws_scale ws);
                   ws_order := ws_order ws; ws_dead := dead' |}).
    destruct (IH ws1 (dwrite (shard_file_name sp sk) (shard_bytes sp enc ienc (desc_of sp cms sk)) d) eq_refl Hr)
      as (ws' & Es & Ho & Hsp' & Hv' & Hcl & Hun).
    + intros k Hk. cbn [ws1 ws_scale]. rewrite alookup_aset.
      destruct (N.eqb_spec sk k) as [->|]; [contradiction|]. apply Hlk. right. exact Hk.
    + intros k mk Hk. cbn [ws1 ws_dead]. destruct (pair_mem k mk dead') eqn:Ep; [|reflexivity].
      destruct (Hdead' k mk Ep) as [->|Hold]; [contradiction|]. rewrite (Hlive k mk (or_intror Hk)) in Hold. discriminate.
    + exists ws'. split; [exact Es|]. split; [exact Ho|]. split; [exact Hsp'|]. split; [exact Hv'|]. split.
      * intros k shk [<-|Hk] Ek; [|apply (Hcl k shk Hk Ek)].
        rewrite (Hun sk Hn) in Ek. cbn [ws1 ws_scale] in Ek. rewrite alookup_aset, N.eqb_refl in Ek.
        injection Ek as <-. reflexivity.
      * intros k Hk. rewrite Hun by (intro Hin; apply Hk; right; exact Hin).
        cbn [ws1 ws_scale]. rewrite alookup_aset. destruct (N.eqb_spec sk k) as [->|]; [|reflexivity].
        exfalso. apply Hk. left. reflexivity.
Qed.

Lemma written_lookup : forall cms keys d name, NoDup keys -> (forall sk, In sk keys -> sk < 2 ^ sp_s sp) ->
  blookup name (written cms keys d) =
  match find (fun sk => bytes_eqb (shard_file_name sp sk) name) keys with
  | Some sk => Some (shard_bytes sp enc ienc (desc_of sp cms sk))
  | None => blookup name d
  end.
Proof.
  intros cms keys. induction keys as [|sk r IH]; intros d name Hnd Hlt; [reflexivity|].
  inversion Hnd as [|? ? Hn Hr]; subst. cbn [written find].
  rewrite IH by (try exact Hr; intros k Hk; apply Hlt; right; exact Hk).
  destruct (bytes_eqb (shard_file_name sp sk) name) eqn:Eb.
  - apply bytes_eqb_eq in Eb. subst name.
    destruct (find (fun k => bytes_eqb (shard_file_name sp k) (shard_file_name sp sk)) r) as [k|] eqn:Ef.
    + apply find_some in Ef. destruct Ef as [Hk Ek]. apply bytes_eqb_eq in Ek.
      apply (name_inj sp) in Ek; [subst k; contradiction | apply Hlt; right; exact Hk | apply Hlt; left; reflexivity].
    + rewrite blookup_dwrite, bytes_eqb_refl. reflexivity.
  - destruct (find _ r); [reflexivity|]. rewrite blookup_dwrite, Eb. reflexivity.
Qed.

(* closing a freshly written scale: every shard gets its canonical file, no
   exception, every Shard object ends up clean *)
Theorem fresh_close_files : forall cms ws d,
  ops_valid sp cms -> sizes_ok sp enc ienc cms ->
  ws_sp ws = sp -> ws_scale ws = fst (run_cmc_stores sp enc [] cms) -> ws_dead ws = [] ->
  NoDup (ws_order ws) -> (forall sk, In sk (ws_order ws) <-> alookup sk (ws_scale ws) <> None) ->
  exists ws', scale_close_sess ienc ws d (ws_order ws) = (ws', written cms (ws_order ws) d, sok) /\
    clean_ws ws' /\
    (forall name, blookup name (written cms (ws_order ws) d) =
                  match blookup name (session_files sp enc ienc cms) with
                  | Some b => Some b | None => blookup name d end).
Proof.
  intros cms ws d Hv Hsz Hsp Hsc Hdead Hnd Hcov.
  destruct (fresh_scale_close cms Hv Hsz (ws_order ws) ws d Hsp Hnd) as (ws' & Es & Ho & _ & _ & Hcl & Hun).
  { intros sk Hin. rewrite <- Hsc. split; [reflexivity | apply Hcov; exact Hin]. }
  { intros sk mk _. rewrite Hdead. reflexivity. }
  exists ws'. split; [exact Es|].
  destruct (shard_keys_facts sp enc HB cms Hv) as [Hlt _].
  destruct (run_step sp enc cms []) as (_ & Hw & _).
  assert (W0 : WFS []) by (split; [constructor | intros k s0 H; discriminate]).
  destruct (Hw W0) as [Hndst _].
  destruct (sort_keys_lookup _ Hndst) as [Kk _].
  assert (Hkeys : forall sk, In sk (ws_order ws) <-> In sk (akeys (sort_by_key (fst (run_cmc_stores sp enc [] cms))))).
  { intro sk. rewrite Kk, in_sort_set, in_akeys_alookup, <- Hsc. apply Hcov. }
  split.
  - intros sk sh Esk. destruct (in_dec N.eq_dec sk (ws_order ws)) as [Hin|Hno]; [apply (Hcl sk sh Hin Esk)|].
    exfalso. rewrite (Hun sk Hno) in Esk. apply Hno. apply Hcov. congruence.
  - intro name. rewrite written_lookup; [|exact Hnd | intros sk Hin; apply Hlt; apply Hkeys; exact Hin].
    rewrite (session_files_explicit sp enc ienc HB cms Hm Hv Hsz).
    destruct (find (fun sk => bytes_eqb (shard_file_name sp sk) name) (ws_order ws)) as [sk|] eqn:Ef.
    + apply find_some in Ef. destruct Ef as [Hin Eb]. apply bytes_eqb_eq in Eb. subst name.
      assert (Hk : sk < 2 ^ sp_s sp) by (apply Hlt; apply Hkeys; exact Hin).
      assert (En : shard_file_name sp sk = spec_file_name (sp_s sp) sk).
      { unfold spec_file_name, shard_file_name. rewrite (shard_name_is_spec _ _ Hk). reflexivity. }
      rewrite En.
      rewrite (blookup_files sp (fun k => shard_bytes sp enc ienc (desc_of sp cms k)) _ sk (proj1 (Hkeys sk) Hin) Hlt).
      reflexivity.
    + destruct (blookup name (map _ (sort_by_key (fst (run_cmc_stores sp enc [] cms))))) as [b|] eqn:Eb; [|reflexivity].
      exfalso.
      destruct (blookup_map_inv (shard_file_name sp) (fun k => shard_bytes sp enc ienc (desc_of sp cms k)) _ _ _ Eb)
        as (k & Hk & En & _).
      apply Hkeys in Hk. pose proof (find_none _ _ Ef k Hk) as Hf. cbn in Hf.
      subst name. rewrite bytes_eqb_refl in Hf. discriminate.
Qed.

End FreshClose.

(* ---------- one phase of a session: stores into a new scale, then close ---------- *)
Lemma oset_new : forall {V} (k : N) (v : V) l, alookup k l = None -> oset k v l = l ++ [(k, v)].
Proof.
  intros V k v l. induction l as [|[k0 v0] r IH]; cbn [oset alookup app]; [reflexivity|].
  destruct (k0 =? k); [discriminate|]. intro H. rewrite IH by exact H. reflexivity.
Qed.

Lemma oset_oset : forall {V} (k : N) (v w : V) l, oset k w (oset k v l) = oset k w l.
Proof.
  intros V k v w l. induction l as [|[k0 v0] r IH]; cbn [oset].
  - rewrite N.eqb_refl. reflexivity.
  - destruct (N.eqb_spec k0 k) as [->|Hne]; cbn [oset].
    + rewrite N.eqb_refl. reflexivity.
    + destruct (N.eqb_spec k0 k); [congruence|]. rewrite IH. reflexivity.
Qed.

Lemma alookup_app_none : forall {V} (k : N) (l r : list (N * V)),
  alookup k l = None -> alookup k (l ++ r) = alookup k r.
Proof.
  intros V k l r. induction l as [|[k0 v0] l IH]; cbn [app alookup]; [reflexivity|].
  destruct (k0 =? k); [discriminate | exact IH].
Qed.

Lemma nodup_snoc : forall {A} (l : list A) x, NoDup l -> ~ In x l -> NoDup (l ++ [x]).
Proof.
  intros A l x. induction l as [|a l IH]; cbn [app]; intros Hnd Hn; [repeat constructor; intros []|].
  inversion Hnd as [|? ? Ha Hl]; subst. constructor.
  - rewrite in_app_iff. cbn [In]. intros [H|[H|[]]]; [exact (Ha H) | apply Hn; left; symmetry; exact H].
  - apply IH; [exact Hl | intro H; apply Hn; right; exact H].
Qed.

Section Phase.
Variable cfg : N -> option (vspec * sparams).
Variable enc ienc : bytes -> bytes.

Definition store_sop (k : N) (o : store_op) : sop :=
  let '(x, y, z, b) := o in SStore k x y z b.

Fixpoint ws_run (ws : wscale) (ops : list store_op) : wscale * list sout :=
  match ops with
  | [] => (ws, [])
  | (x, y, z, b) :: r =>
      let '(ws1, o) := ws_store enc ws b x y z in
      let '(ws2, os) := ws_run ws1 r in (ws2, o :: os)
  end.

Definition order_inv (ws : wscale) : Prop :=
  NoDup (ws_order ws) /\ (forall sk, In sk (ws_order ws) <-> alookup sk (ws_scale ws) <> None).

(* stores into a scale none of whose buffers was deleted: the single-scale model *)
Lemma ws_run_fresh : forall ops cms ws,
  Forall2 (resolves (ws_v ws)) ops cms -> ws_dead ws = [] -> order_inv ws ->
  let sp := ws_sp ws in
  let r := run_cmc_stores sp enc (ws_scale ws) cms in
  exists ws', ws_run ws ops = (ws', map SOut (snd r)) /\
    ws_scale ws' = fst r /\ ws_dead ws' = [] /\ ws_sp ws' = sp /\ ws_v ws' = ws_v ws /\ order_inv ws'.
Proof.
  induction ops as [|[[[x y] z] b] ops IH]; intros cms ws HF Hd Hoi sp r.
  - inversion HF; subst. exists ws. cbn. repeat split; try reflexivity; try assumption; apply Hoi.
  - inversion HF as [|? [c b'] ? cms' Hr HF']; subst. cbn in Hr. destruct Hr as [Hc ->]. cbn [fst] in Hc.
    cbn [ws_run]. unfold ws_store. rewrite Hc, Hd. cbn [pair_mem existsb]. fold sp.
    subst r. cbn [run_cmc_stores].
    destruct (store_step sp enc (ws_scale ws) b' c) as (_ & _ & _ & Hkeys).
    destruct (scale_store_cmc sp enc (ws_scale ws) b' c) as [sc o] eqn:Es. cbn [fst] in Hkeys.
    cbv beta iota.
    set (sk := shard_key_model (sp_p sp) (sp_m sp) (sp_s sp) c) in *.
    set (ws1 := {| ws_v := ws_v ws; ws_sp := sp; ws_scale := sc;
                   ws_order := if existsb (N.eqb sk) (ws_order ws) then ws_order ws else ws_order ws ++ [sk];
                   ws_dead := [] |}).
    assert (Hoi1 : order_inv ws1).
    { destruct Hoi as [Hnd Hin]. unfold order_inv. cbn [ws1 ws_order ws_scale].
      destruct (existsb (N.eqb sk) (ws_order ws)) eqn:Ex.
      - apply existsb_exists in Ex. destruct Ex as (q & Hq & Eq). apply N.eqb_eq in Eq. subst q.
        split; [exact Hnd|]. intro k. rewrite Hkeys, <- Hin. split; [tauto | intros [->|H]; assumption].
      - assert (Hnot : ~ In sk (ws_order ws)).
        { intro Hq. assert (existsb (N.eqb sk) (ws_order ws) = true)
            by (apply existsb_exists; exists sk; split; [exact Hq | apply N.eqb_refl]). congruence. }
        split.
        + apply nodup_snoc; assumption.
        + intro k. rewrite Hkeys, in_app_iff, <- Hin. cbn [In]. split; [intros [H|[H|[]]]; [right|left]; auto | intros [->|H]; auto]. }
    destruct (IH cms' ws1 ltac:(exact HF') eq_refl Hoi1) as (ws' & Er & E1 & E2 & E3 & E4 & E5).
    cbn [ws1 ws_sp ws_scale ws_v] in Er, E1, E3, E4.
    rewrite Er. exists ws'. destruct (run_cmc_stores sp enc sc cms') as [st2 os2]. cbn [fst snd map] in *.
    split; [reflexivity|]. repeat split; try assumption; apply E5.
Qed.

End Phase.

Section Phase2.
Variable cfg : N -> option (vspec * sparams).
Variable enc ienc : bytes -> bytes.

Lemma sess_run_app : forall a b st,
  sess_run cfg enc ienc st (a ++ b) =
  let '(st1, o1) := sess_run cfg enc ienc st a in
  let '(st2, o2) := sess_run cfg enc ienc st1 b in (st2, o1 ++ o2).
Proof.
  induction a as [|op a IH]; intros b st; cbn [app sess_run].
  - destruct (sess_run cfg enc ienc st b). reflexivity.
  - destruct op as [k x y z buf|].
    + destruct (sess_store cfg enc st k buf x y z) as [st1 o]. rewrite IH.
      destruct (sess_run cfg enc ienc st1 a) as [st2 o1]. destruct (sess_run cfg enc ienc st2 b). reflexivity.
    + destruct (sess_close ienc st) as [st1 o]. rewrite IH.
      destruct (sess_run cfg enc ienc st1 a) as [st2 o1]. destruct (sess_run cfg enc ienc st2 b). reflexivity.
Qed.

(* stores into a scale that is already registered *)
Lemma sess_stores_some : forall k ops st ws0,
  alookup k (se_scales st) = Some ws0 ->
  sess_run cfg enc ienc st (map (store_sop k) ops) =
  ({| se_scales := oset k (fst (ws_run enc ws0 ops)) (se_scales st); se_fs := se_fs st |},
   snd (ws_run enc ws0 ops)).
Proof.
  intros k ops. induction ops as [|[[[x y] z] b] r IH]; intros st ws0 Hl.
  - cbn. rewrite (oset_same k ws0 _ Hl). destruct st; reflexivity.
  - cbn [map store_sop sess_run ws_run]. unfold sess_store. rewrite Hl.
    destruct (ws_store enc ws0 b x y z) as [ws1 o].
    rewrite (IH _ ws1) by (cbn [se_scales]; rewrite alookup_oset, N.eqb_refl; reflexivity).
    cbn [se_scales se_fs]. rewrite oset_oset.
    destruct (ws_run enc ws1 r) as [ws2 os]. reflexivity.
Qed.

(* stores into a scale that is not registered yet *)
Lemma sess_stores_none : forall k v sp ops st,
  alookup k (se_scales st) = None -> cfg k = Some (v, sp) -> ops <> [] ->
  let ws0 := {| ws_v := v; ws_sp := sp; ws_scale := []; ws_order := []; ws_dead := [] |} in
  sess_run cfg enc ienc st (map (store_sop k) ops) =
  ({| se_scales := se_scales st ++ [(k, fst (ws_run enc ws0 ops))]; se_fs := se_fs st |},
   snd (ws_run enc ws0 ops)).
Proof.
  intros k v sp ops st Hl Hc Hne ws0. destruct ops as [|[[[x y] z] b] r]; [congruence|].
  cbn [map store_sop sess_run ws_run]. unfold sess_store. rewrite Hl, Hc. fold ws0.
  destruct (ws_store enc ws0 b x y z) as [ws1 o].
  rewrite (sess_stores_some k r _ ws1) by (cbn [se_scales]; rewrite alookup_oset, N.eqb_refl; reflexivity).
  cbn [se_scales se_fs]. rewrite oset_oset, (oset_new k _ _ Hl).
  destruct (ws_run enc ws1 r) as [ws2 os]. reflexivity.
Qed.

Lemma close_scales_app_clean : forall l r fs, clean_scales l ->
  close_scales ienc (l ++ r) fs =
  let '(r', fs', o) := close_scales ienc r fs in (l ++ r', fs', o).
Proof.
  induction l as [|[k ws] l IH]; intros r fs Hc; cbn [app].
  - destruct (close_scales ienc r fs) as [[r' fs'] o]. reflexivity.
  - cbn [close_scales]. rewrite scale_close_clean by (apply (Hc k ws); left; reflexivity).
    assert (IHl : forall fs0, close_scales ienc (l ++ r) fs0 =
                  let '(r', fs', o) := close_scales ienc r fs0 in (l ++ r', fs', o))
      by (intro fs0; apply IH; intros k' ws' Hin; apply (Hc k' ws'); right; exact Hin).
    destruct (alookup k fs) as [d|] eqn:E.
    + destruct (length d =? 0)%nat.
      * rewrite IHl. destruct (close_scales ienc r fs) as [[r' fs'] o]. reflexivity.
      * rewrite (oset_same k d fs E), IHl. destruct (close_scales ienc r fs) as [[r' fs'] o]. reflexivity.
    + cbn [length Nat.eqb]. rewrite IHl. destruct (close_scales ienc r fs) as [[r' fs'] o]. reflexivity.
Qed.

(* One phase: in a state whose scales are all clean, store valid chunks into a
   NEW scale k and close.  Nothing raises, scale k gets exactly the files of the
   single-scale model, every other directory is untouched. *)
Theorem phase_correct : forall k v sp ops cms st,
  cbits sp < 2 ^ 64 -> sp_m sp < 60 ->
  cfg k = Some (v, sp) -> Forall2 (resolves v) ops cms -> ops <> [] ->
  ops_valid sp cms -> sizes_ok sp enc ienc cms ->
  clean_scales (se_scales st) -> alookup k (se_scales st) = None -> alookup k (se_fs st) = None ->
  exists st1,
    sess_run cfg enc ienc st (map (store_sop k) ops ++ [SClose]) =
      (st1, map (fun _ => sok) (map (store_sop k) ops ++ [SClose])) /\
    clean_scales (se_scales st1) /\
    (exists ws', se_scales st1 = se_scales st ++ [(k, ws')]) /\
    (forall name, blookup name (sdir st1 k) = blookup name (session_files sp enc ienc cms)) /\
    (forall k', k' <> k -> alookup k' (se_fs st1) = alookup k' (se_fs st)).
Proof.
  intros k v sp ops cms st HB Hm Hc HF Hne Hv Hsz Hcl Hls Hlf.
  rewrite sess_run_app, (sess_stores_none k v sp ops st Hls Hc Hne).
  set (ws0 := {| ws_v := v; ws_sp := sp; ws_scale := []; ws_order := []; ws_dead := [] |}).
  destruct (ws_run_fresh cfg enc ienc ops cms ws0 HF eq_refl) as (ws1 & Er & E1 & E2 & E3 & E4 & Hoi).
  { split; [constructor|]. intro sk. cbn. split; [intros [] | intro H; apply H; reflexivity]. }
  cbn [ws0 ws_sp ws_scale] in Er, E1, E3. rewrite Er. cbn [fst snd].
  rewrite (stores_all_ok sp enc HB cms Hv).
  cbn [sess_run]. unfold sess_close. cbn [se_scales se_fs].
  rewrite (close_scales_app_clean _ _ _ Hcl). cbn [close_scales]. rewrite Hlf.
  destruct Hoi as [Hnd Hcov].
  destruct (fresh_close_files sp enc ienc HB Hm cms ws1 [] Hv Hsz E3 E1 E2 Hnd Hcov) as (ws' & Es & Hclean & Hfiles).
  rewrite Es.
  set (d' := written sp enc ienc cms (ws_order ws1) []) in *.
  exists {| se_scales := se_scales st ++ [(k, ws')];
            se_fs := if (length d' =? 0)%nat then se_fs st else oset k d' (se_fs st) |}.
  split; [|split; [|split; [|split]]].
  - unfold sok. cbv beta iota zeta. f_equal.
    rewrite !map_app, !map_map. cbn [map]. f_equal.
    assert (Hlen : length ops = length cms) by (eapply forall2_length; exact HF).
    clear -Hlen. revert cms Hlen. induction ops as [|o r IH]; intros [|c cms] Hlen; cbn in *; try discriminate; [reflexivity|].
    f_equal. apply IH. lia.
  - intros k' w' Hin. apply in_app_or in Hin. destruct Hin as [Hin|[E|[]]]; [apply (Hcl k' w' Hin)|].
    injection E as <- <-. exact Hclean.
  - exists ws'. reflexivity.
  - intro name. unfold sdir. cbn [se_fs].
    assert (Hf' : blookup name d' = blookup name (session_files sp enc ienc cms))
      by (rewrite Hfiles; destruct (blookup name (session_files sp enc ienc cms)); reflexivity).
    rewrite <- Hf'.
    destruct (length d' =? 0)%nat eqn:El.
    + rewrite Hlf. destruct d'; [reflexivity | discriminate].
    + rewrite alookup_oset, N.eqb_refl. reflexivity.
  - intros k' Hk'. cbn [se_fs]. destruct (length d' =? 0)%nat; [reflexivity|].
    rewrite alookup_oset. destruct (N.eqb_spec k k'); [congruence | reflexivity].
Qed.

End Phase2.

(* ---------- the theorems about whole sessions ---------- *)
Section Sessions.
Variable cfg : N -> option (vspec * sparams).
Variable enc ienc : bytes -> bytes.

Definition phase_ops (k : N) (ops : list store_op) : list sop := map (store_sop k) ops ++ [SClose].
Definition all_sok (l : list sop) : list sout := map (fun _ => sok) l.

(* a single scale written and closed through the accessor: the files are those
   of the single-scale model (to which the C04 / C05 reader theorems apply) *)
Theorem single_scale_session : forall k v sp ops cms,
  cbits sp < 2 ^ 64 -> sp_m sp < 60 ->
  cfg k = Some (v, sp) -> Forall2 (resolves v) ops cms -> ops <> [] ->
  ops_valid sp cms -> sizes_ok sp enc ienc cms ->
  exists st1,
    sess_run cfg enc ienc sess_init (phase_ops k ops) = (st1, all_sok (phase_ops k ops)) /\
    (forall name, blookup name (sdir st1 k) = blookup name (session_files sp enc ienc cms)).
Proof.
  intros k v sp ops cms HB Hm Hc HF Hne Hv Hsz.
  destruct (phase_correct cfg enc ienc k v sp ops cms sess_init HB Hm Hc HF Hne Hv Hsz) as (st1 & Er & _ & _ & Hf & _);
    [intros k' ws' [] | reflexivity | reflexivity|].
  exists st1. split; [exact Er | exact Hf].
Qed.

(* scale independence (the compute_dyadic_scales pattern): write scale k1,
   close, write scale k2, close.  Nothing raises; the files of k2 are exactly
   those of the session that writes k2 alone; the files of k1 are not touched
   by the second phase. *)
Theorem scale_independent : forall k1 k2 v1 sp1 v2 sp2 ops1 cms1 ops2 cms2,
  k1 <> k2 ->
  cbits sp1 < 2 ^ 64 -> sp_m sp1 < 60 -> cfg k1 = Some (v1, sp1) ->
  Forall2 (resolves v1) ops1 cms1 -> ops1 <> [] -> ops_valid sp1 cms1 -> sizes_ok sp1 enc ienc cms1 ->
  cbits sp2 < 2 ^ 64 -> sp_m sp2 < 60 -> cfg k2 = Some (v2, sp2) ->
  Forall2 (resolves v2) ops2 cms2 -> ops2 <> [] -> ops_valid sp2 cms2 -> sizes_ok sp2 enc ienc cms2 ->
  exists st1 st2 stS,
    sess_run cfg enc ienc sess_init (phase_ops k1 ops1) = (st1, all_sok (phase_ops k1 ops1)) /\
    sess_run cfg enc ienc sess_init (phase_ops k1 ops1 ++ phase_ops k2 ops2) =
      (st2, all_sok (phase_ops k1 ops1 ++ phase_ops k2 ops2)) /\
    sess_run cfg enc ienc sess_init (phase_ops k2 ops2) = (stS, all_sok (phase_ops k2 ops2)) /\
    (forall name, blookup name (sdir st2 k2) = blookup name (sdir stS k2)) /\
    (forall name, blookup name (sdir st2 k2) = blookup name (session_files sp2 enc ienc cms2)) /\
    sdir st2 k1 = sdir st1 k1 /\
    (forall name, blookup name (sdir st2 k1) = blookup name (session_files sp1 enc ienc cms1)).
Proof.
  intros k1 k2 v1 sp1 v2 sp2 ops1 cms1 ops2 cms2 Hk HB1 Hm1 Hc1 HF1 Hne1 Hv1 Hsz1 HB2 Hm2 Hc2 HF2 Hne2 Hv2 Hsz2.
  destruct (phase_correct cfg enc ienc k1 v1 sp1 ops1 cms1 sess_init HB1 Hm1 Hc1 HF1 Hne1 Hv1 Hsz1)
    as (st1 & Er1 & Hcl1 & (ws1 & Esc1) & Hf1 & Hfs1); [intros k' ws' [] | reflexivity | reflexivity|].
  assert (Hs2 : alookup k2 (se_scales st1) = None).
  { rewrite Esc1. cbn. destruct (N.eqb_spec k1 k2); [congruence | reflexivity]. }
  assert (Hf2none : alookup k2 (se_fs st1) = None) by (rewrite (Hfs1 k2 ltac:(congruence)); reflexivity).
  destruct (phase_correct cfg enc ienc k2 v2 sp2 ops2 cms2 st1 HB2 Hm2 Hc2 HF2 Hne2 Hv2 Hsz2 Hcl1 Hs2 Hf2none)
    as (st2 & Er2 & _ & _ & Hf2 & Hfs2).
  destruct (single_scale_session k2 v2 sp2 ops2 cms2 HB2 Hm2 Hc2 HF2 Hne2 Hv2 Hsz2) as (stS & ErS & HfS).
  exists st1, st2, stS. split; [exact Er1|]. split.
  - rewrite sess_run_app. unfold phase_ops in *. rewrite Er1, Er2. unfold all_sok. f_equal. symmetry. apply map_app.
  - split; [exact ErS|]. split; [intro name; rewrite Hf2, HfS; reflexivity|]. split; [exact Hf2|].
    assert (Hd : sdir st2 k1 = sdir st1 k1) by (unfold sdir; rewrite (Hfs2 k1 Hk); reflexivity).
    split; [exact Hd|]. intro name. rewrite Hd. apply Hf1.
Qed.

End Sessions.

(* ---------- non-vacuity ---------- *)
Definition ex_sp : sparams := {| sp_m := 2; sp_s := 2; sp_p := 0 |}.
Definition ex_cfg (k : N) : option (vspec * sparams) :=
  if k <? 2 then match mk_vspec [8; 8; 8]%Z [24; 32; 16]%Z with Ok v => Some (v, ex_sp) | _ => None end else None.
Definition ex_ops : list store_op :=
  [(16%Z, 8%Z, 0%Z, [9; 9; 9]); (16%Z, 0%Z, 0%Z, [2; 2; 2]); (16%Z, 24%Z, 0%Z, [])].
Definition ex_cms : list (N * bytes) := [(10, [9; 9; 9]); (8, [2; 2; 2]); (26, [])].
Definition ex_id (b : bytes) : bytes := b.

Example scale_independent_example :
  exists v, ex_cfg 0 = Some (v, ex_sp) /\ ex_cfg 1 = Some (v, ex_sp) /\ 0 <> 1 /\
    cbits ex_sp < 2 ^ 64 /\ sp_m ex_sp < 60 /\
    Forall2 (resolves v) ex_ops ex_cms /\ ex_ops <> [] /\
    ops_valid ex_sp ex_cms /\ sizes_ok ex_sp ex_id ex_id ex_cms /\
    snd (sess_run ex_cfg ex_id ex_id sess_init (phase_ops 0 ex_ops ++ phase_ops 1 (rev ex_ops)))
      = all_sok (phase_ops 0 ex_ops ++ phase_ops 1 (rev ex_ops)).
Proof.
  destruct (mk_vspec [8; 8; 8]%Z [24; 32; 16]%Z) as [v| | | | | |] eqn:Ev; try (vm_compute in Ev; discriminate).
  exists v. unfold ex_cfg. cbn [N.ltb]. rewrite Ev.
  split; [reflexivity|]. split; [reflexivity|]. split; [discriminate|]. split; [reflexivity|]. split; [reflexivity|].
  assert (Ev' : v = {| vs_chunk := 8; vs_grid := [3; 4; 2]; vs_nbits := [2; 2; 1] |}) by (vm_compute in Ev; congruence).
  subst v.
  destruct top_hyps_example as (_ & _ & Hv & Hsz & _).
  split; [repeat constructor; vm_compute; split; reflexivity|]. split; [discriminate|].
  split; [exact Hv|]. split; [exact Hsz|]. vm_compute. reflexivity.
Qed.

Example close_idempotent_example :
  exists st1, sess_close ex_id (fst (sess_run ex_cfg ex_id ex_id sess_init
                                   (phase_ops 0 ex_ops ++ map (store_sop 1) ex_ops))) = (st1, sok) /\
              sess_close ex_id st1 = (st1, sok) /\ sdir st1 1 <> [] /\ sdir st1 0 = sdir st1 1.
Proof. vm_compute. eexists. split; [reflexivity|]. split; [reflexivity|]. split; [discriminate | reflexivity]. Qed.

(* ---------- the info file replaced between two scales ---------- *)
Section InfoReplaced.
Variable enc ienc : bytes -> bytes.

Lemma isess_run_ops : forall c ops st,
  isess_run enc ienc c st (map IOp ops) = sess_run c enc ienc st ops.
Proof.
  intros c ops. induction ops as [|o r IH]; intro st; [reflexivity|]. cbn [map isess_run].
  destruct o as [k x y z b|]; cbn [sess_run].
  - destruct (sess_store c enc st k b x y z) as [st1 o1]. rewrite IH.
    destruct (sess_run c enc ienc st1 r) as [st2 os]. reflexivity.
  - destruct (sess_close ienc st) as [st1 o1]. rewrite IH.
    destruct (sess_run c enc ienc st1 r) as [st2 os]. reflexivity.
Qed.

Lemma isess_run_app_ops : forall c a b st,
  isess_run enc ienc c st (map IOp a ++ b) =
  let '(st1, o1) := sess_run c enc ienc st a in
  let '(st2, o2) := isess_run enc ienc c st1 b in (st2, o1 ++ o2).
Proof.
  intros c a. induction a as [|o r IH]; intros b st; cbn [map app].
  - cbn [sess_run]. destruct (isess_run enc ienc c st b). reflexivity.
  - cbn [isess_run]. destruct o as [k x y z buf|]; cbn [sess_run].
    + destruct (sess_store c enc st k buf x y z) as [st1 o1]. rewrite IH.
      destruct (sess_run c enc ienc st1 r) as [st2 os]. destruct (isess_run enc ienc c st2 b). reflexivity.
    + destruct (sess_close ienc st) as [st1 o1]. rewrite IH.
      destruct (sess_run c enc ienc st1 r) as [st2 os]. destruct (isess_run enc ienc c st2 b). reflexivity.
Qed.

(* Scale k1 is written and closed under the info cfg; the info file is then
   replaced by cfg' (which may give any other scale other sharding parameters,
   sizes and chunk sizes); scale k2, never written before, is written and
   closed.  Nothing raises; the files of k2 are those of the single-scale model
   under the NEW parameters sp2 = cfg' k2 (so a specification reader that takes
   its parameters from the info file on disk finds every chunk:
   C04_spec_reads_canonical with sp2); the files of k1 remain those written
   under the old info. *)
Theorem info_replaced_between_scales : forall cfg cfg' k1 k2 v1 sp1 v2 sp2 ops1 cms1 ops2 cms2,
  k1 <> k2 ->
  cbits sp1 < 2 ^ 64 -> sp_m sp1 < 60 -> cfg k1 = Some (v1, sp1) ->
  Forall2 (resolves v1) ops1 cms1 -> ops1 <> [] -> ops_valid sp1 cms1 -> sizes_ok sp1 enc ienc cms1 ->
  cbits sp2 < 2 ^ 64 -> sp_m sp2 < 60 -> cfg' k2 = Some (v2, sp2) ->
  Forall2 (resolves v2) ops2 cms2 -> ops2 <> [] -> ops_valid sp2 cms2 -> sizes_ok sp2 enc ienc cms2 ->
  exists st2,
    isess_run enc ienc cfg sess_init
      (map IOp (phase_ops k1 ops1) ++ IInfo cfg' :: map IOp (phase_ops k2 ops2)) =
      (st2, all_sok (phase_ops k1 ops1 ++ phase_ops k2 ops2)) /\
    (forall name, blookup name (sdir st2 k2) = blookup name (session_files sp2 enc ienc cms2)) /\
    (forall name, blookup name (sdir st2 k1) = blookup name (session_files sp1 enc ienc cms1)).
Proof.
  intros cfg cfg' k1 k2 v1 sp1 v2 sp2 ops1 cms1 ops2 cms2 Hk HB1 Hm1 Hc1 HF1 Hne1 Hv1 Hsz1 HB2 Hm2 Hc2 HF2 Hne2 Hv2 Hsz2.
  destruct (phase_correct cfg enc ienc k1 v1 sp1 ops1 cms1 sess_init HB1 Hm1 Hc1 HF1 Hne1 Hv1 Hsz1)
    as (st1 & Er1 & Hcl1 & (ws1 & Esc1) & Hf1 & Hfs1); [intros k' ws' [] | reflexivity | reflexivity|].
  assert (Hs2 : alookup k2 (se_scales st1) = None).
  { rewrite Esc1. cbn. destruct (N.eqb_spec k1 k2); [congruence | reflexivity]. }
  assert (Hf2none : alookup k2 (se_fs st1) = None) by (rewrite (Hfs1 k2 ltac:(congruence)); reflexivity).
  destruct (phase_correct cfg' enc ienc k2 v2 sp2 ops2 cms2 st1 HB2 Hm2 Hc2 HF2 Hne2 Hv2 Hsz2 Hcl1 Hs2 Hf2none)
    as (st2 & Er2 & _ & _ & Hf2 & Hfs2).
  exists st2. split; [|split; [exact Hf2|]].
  - rewrite isess_run_app_ops. unfold phase_ops in *. rewrite Er1. cbn [isess_run].
    rewrite isess_run_ops, Er2. unfold all_sok. f_equal. symmetry. apply map_app.
  - intro name. assert (Hd : sdir st2 k1 = sdir st1 k1) by (unfold sdir; rewrite (Hfs2 k1 Hk); reflexivity).
    rewrite Hd. apply Hf1.
Qed.

End InfoReplaced.

Definition ex_sp' : sparams := {| sp_m := 1; sp_s := 0; sp_p := 2 |}.
Definition ex_cfg' (k : N) : option (vspec * sparams) :=
  if k <? 2 then match mk_vspec [8; 8; 8]%Z [24; 32; 16]%Z with Ok v => Some (v, ex_sp') | _ => None end else None.

(* instance: scale 1 is written after the info was replaced; its files differ
   from what the old parameters would have produced and equal the single-scale
   run under the new ones *)
Example info_replaced_example :
  let run := isess_run ex_id ex_id ex_cfg sess_init
               (map IOp (phase_ops 0 ex_ops) ++ IInfo ex_cfg' :: map IOp (phase_ops 1 ex_ops)) in
  snd run = all_sok (phase_ops 0 ex_ops ++ phase_ops 1 ex_ops) /\
  sdir (fst run) 1 = sdir (fst (sess_run ex_cfg' ex_id ex_id sess_init (phase_ops 1 ex_ops))) 1 /\
  sdir (fst run) 1 <> sdir (fst run) 0.
Proof. vm_compute. split; [reflexivity|]. split; [reflexivity | discriminate]. Qed.
