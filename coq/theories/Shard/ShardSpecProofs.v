(* The specification reader on the file assembled by Shard.close. *)
From Coq Require Import NArith ZArith List Bool Lia Permutation.
From NGS Require Import Val Ints Morton MortonProofs ShardBytes MiniShard ShardFile ShardSpecReader
  ShardCanon MiniShardProofs ShardFileProofs ShardLayoutProofs ShardCloseProofs.
Import ListNotations.
Open Scope N_scope.

Lemma maxN_in : forall l, l <> [] -> In (maxN l) l.
Proof.
  induction l as [|x r IH]; [congruence|]. intros _. cbn [maxN fold_right]. fold (maxN r).
  destruct r as [|y r']; [left; cbn; lia|].
  destruct (N.max_spec x (maxN (y :: r'))) as [[_ E]|[_ E]]; rewrite E; [right; apply IH; discriminate | left; reflexivity].
Qed.

Section SpecRead.
Variable sp : sparams.
Variable enc ienc : bytes -> bytes.
Variable idec ddec : bytes -> option bytes.
Hypothesis HB : cbits sp < 2 ^ 64.
Hypothesis Hidec : forall b, idec (ienc b) = Some b.
Hypothesis Hddec : forall b, ddec (enc b) = Some b.
Hypothesis Hne : forall b, b <> [] -> ienc b <> [].
Notation m := (sp_m sp).
Notation T := (2 ^ sp_m sp).

(* an element of a shard descriptor is a legal closed minishard *)
Definition elem_ok (e : N * (N * store_map)) : Prop :=
  exists Ke, Ke < 2 ^ (sp_s sp + sp_m sp) /\ fst (snd e) = Ke * 2 ^ sp_p sp /\
             sm_ok sp Ke (snd (snd e)) /\ snd (snd e) <> [].

Definition desc_ok (d : desc) : Prop :=
  Forall elem_ok d /\ sorted_from 0 (d_kl sp enc ienc d 0) /\
  (forall kl, In kl (d_kl sp enc ienc d 0) -> fst kl < T) /\
  lenN (concat (map (d_data sp enc) d)) + sumlen (d_kl sp enc ienc d 0) < 2 ^ 64.

Lemma d_kl_app : forall pre r off,
  d_kl sp enc ienc (pre ++ r) off =
  d_kl sp enc ienc pre off ++ d_kl sp enc ienc r (off + lenN (concat (map (d_data sp enc) pre))).
Proof.
  induction pre as [|e pre IH]; intros r off; cbn [app d_kl map concat].
  - change (lenN (@nil N)) with 0. rewrite N.add_0_r. reflexivity.
  - rewrite IH, lenN_app, N.add_assoc. reflexivity.
Qed.

Lemma d_encs_app : forall pre r off,
  d_encs sp enc ienc (pre ++ r) off =
  d_encs sp enc ienc pre off ++ d_encs sp enc ienc r (off + lenN (concat (map (d_data sp enc) pre))).
Proof.
  induction pre as [|e pre IH]; intros r off; cbn [app d_encs map concat].
  - change (lenN (@nil N)) with 0. rewrite N.add_0_r. reflexivity.
  - rewrite IH, lenN_app, N.add_assoc. reflexivity.
Qed.

Lemma cdata_split : forall mbv sm n i, (i < n)%nat ->
  exists rest, cdata sp enc sm mbv n = cdata sp enc sm mbv i ++ cpay sp enc sm mbv i ++ rest.
Proof.
  intros mbv sm n i Hi. unfold cdata.
  replace n with (i + S (n - S i))%nat by lia. rewrite seq_app, flat_map_app. cbn [seq flat_map Nat.add].
  eexists. reflexivity.
Qed.

Lemma lenN_cpay_le : forall mbv sm n i, (i < n)%nat ->
  lenN (cpay sp enc sm mbv i) <= lenN (cdata sp enc sm mbv n).
Proof.
  intros mbv sm n i Hi. destruct (cdata_split mbv sm n i Hi) as (rest & ->). rewrite !lenN_app. lia.
Qed.

(* facts about one legal closed minishard *)
Lemma elem_facts : forall e, elem_ok e ->
  exists Ke, Ke < 2 ^ (sp_s sp + sp_m sp) /\ fst (snd e) = Ke * 2 ^ sp_p sp /\ sm_ok sp Ke (snd (snd e)) /\
    (forall j, (j < ccount sp (snd (snd e)))%nat -> idn sp Ke j < 2 ^ 64) /\
    (forall id b, alookup id (snd (snd e)) = Some b ->
       (N.to_nat (rank sp id) < ccount sp (snd (snd e)))%nat /\ id = idn sp Ke (N.to_nat (rank sp id))).
Proof.
  intros [k [mbv sm]] (Ke & HK & Emb & Hok & Hnz). cbn [fst snd] in *.
  exists Ke. split; [exact HK|]. split; [exact Emb|]. split; [exact Hok|].
  set (mx := maxN (map (rank sp) (akeys sm))).
  assert (Hmx : exists id0, In id0 (akeys sm) /\ rank sp id0 = mx).
  { assert (Hl : map (rank sp) (akeys sm) <> []) by (destruct sm; [congruence | discriminate]).
    pose proof (maxN_in _ Hl) as Hin. apply in_map_iff in Hin. destruct Hin as (id0 & E & Hin). eauto. }
  destruct Hmx as (id0 & Hin0 & Er0).
  split.
  - intros j Hj. unfold ccount in Hj. fold mx in Hj.
    pose proof (Hok id0 Hin0) as Hc0.
    destruct (class_bound sp Ke HK HB id0 j Hc0 ltac:(lia)) as (_ & H & _). exact H.
  - intros id b Hl.
    assert (Hin : In id (akeys sm)) by (apply in_akeys_alookup; congruence).
    split.
    + unfold ccount. fold mx. assert (rank sp id <= mx) by (apply maxN_ge, in_map, Hin). lia.
    + apply class_idn; try assumption; apply Hok; exact Hin.
Qed.

Definition spec_in_file (f : bytes) (k id : N) : spec_result :=
  match read_slot m idec f k with
  | SlotEmpty => SAbsent
  | SlotBad => SMalformed
  | SlotEntries es =>
      match alookup id es with
      | None => SAbsent
      | Some (st, en) =>
          match sub_range f (shard_index_len m + st) (shard_index_len m + en) with
          | None => SMalformed
          | Some c => match ddec c with Some d => SFound d | None => SMalformed end
          end
      end
  end.

Lemma spec_fetch_unfold : forall files id,
  spec_fetch m (sp_s sp) (sp_p sp) idec ddec files id =
  match blookup (spec_file_name (sp_s sp) (spec_shard (sp_p sp) m (sp_s sp) id)) files with
  | None => SAbsent
  | Some f => spec_in_file f (spec_minishard (sp_p sp) m id) id
  end.
Proof. reflexivity. Qed.


(* everything the readers need to know about the position of one minishard
   inside the file written by Shard.close *)
Lemma shard_placement : forall d pre e post,
  desc_ok d -> d = pre ++ e :: post ->
  let f := shard_bytes sp enc ienc d in
  let il := 16 * T in
  let off := lenN (concat (map (d_data sp enc) pre)) in
  let n := ccount sp (snd (snd e)) in
  exists a,
    fst e < T /\
    u64_at f (16 * fst e) = Some a /\
    u64_at f (16 * fst e + 8) = Some (a + lenN (d_enc sp enc ienc e off)) /\
    At f (il + a) (d_enc sp enc ienc e off) /\
    At f (il + off) (d_data sp enc e) /\
    lenN f < 16 * T + 2 ^ 64 /\ il + off + lenN (d_data sp enc e) <= lenN f /\
    off + lenN (d_data sp enc e) < 2 ^ 64 /\ a + lenN (d_enc sp enc ienc e off) < 2 ^ 64.
Proof.
  intros d pre e post (Hel & Hs & Hk & Hb) Ed f il off n.
  set (D := lenN (concat (map (d_data sp enc) d))) in *.
  set (ks := d_kl sp enc ienc d 0) in *.
  set (lenE := lenN (d_enc sp enc ienc e off)).
  assert (Eks : ks = d_kl sp enc ienc pre 0 ++ (fst e, lenE) ::
                     d_kl sp enc ienc post (off + lenN (d_data sp enc e))).
  { unfold ks. rewrite Ed, d_kl_app. cbn [d_kl]. rewrite N.add_0_l. reflexivity. }
  assert (Eenc : d_encs sp enc ienc d 0 = d_encs sp enc ienc pre 0 ++ d_enc sp enc ienc e off ::
                     d_encs sp enc ienc post (off + lenN (d_data sp enc e))).
  { rewrite Ed, d_encs_app. cbn [d_encs]. rewrite N.add_0_l. reflexivity. }
  assert (Edata : concat (map (d_data sp enc) d) =
                  concat (map (d_data sp enc) pre) ++ d_data sp enc e ++ concat (map (d_data sp enc) post)).
  { rewrite Ed, map_app, concat_app. reflexivity. }
  assert (HkT : fst e < T).
  { apply (Hk (fst e, lenE)). fold ks. rewrite Eks. apply in_or_app. right. left. reflexivity. }
  pose proof (fin_slot_le ks 0 T Hs ltac:(lia) Hk) as Hfin.
  set (W := index_words ks T D).
  assert (HlenW : length W = (2 * N.to_nat T)%nat) by (apply length_index_words; assumption).
  destruct (nth_slot_words ks 0 D T (fst e) Hs ltac:(lia) HkT Hfin) as [N1 N2].
  rewrite N.sub_0_r in N1, N2. fold (index_words ks T D) in N1, N2. fold W in N1, N2.
  assert (Epres : slot_entry ks D (fst e) =
                  (D + sumlen (d_kl sp enc ienc pre 0), D + sumlen (d_kl sp enc ienc pre 0) + lenE)).
  { rewrite Eks. apply (slot_entry_present _ _ _ _ 0). rewrite <- Eks. exact Hs. }
  rewrite Epres in N1, N2. cbn [fst snd] in N1, N2.
  set (a := D + sumlen (d_kl sp enc ienc pre 0)) in *.
  assert (Hsum : sumlen ks = sumlen (d_kl sp enc ienc pre 0) + (lenE +
                   sumlen (d_kl sp enc ienc post (off + lenN (d_data sp enc e))))).
  { rewrite Eks. clear. induction (d_kl sp enc ienc pre 0) as [|x r IH]; cbn [app sumlen fold_right snd].
    - reflexivity.
    - fold (sumlen (r ++ (fst e, lenE) :: d_kl sp enc ienc post (off + lenN (d_data sp enc e)))).
      fold (sumlen r). rewrite IH. lia. }
  assert (HD : D = off + (lenN (d_data sp enc e) + lenN (concat (map (d_data sp enc) post)))).
  { unfold D. rewrite Edata, !lenN_app. reflexivity. }
  unfold f, shard_bytes. fold D. fold ks. fold W.
  exists a. split; [exact HkT|].
  assert (HlW : lenN (le64s W) = 16 * T) by (rewrite lenN_le64s; unfold lenN; rewrite HlenW; lia).
  split; [|split; [|split; [|split]]].
  - replace (16 * fst e) with (8 * N.of_nat (2 * N.to_nat (fst e))) by lia.
    rewrite u64_at_word; [rewrite N1; reflexivity | lia | rewrite N1; lia].
  - replace (16 * fst e + 8) with (8 * N.of_nat (2 * N.to_nat (fst e) + 1)) by lia.
    rewrite u64_at_word; [rewrite N2; reflexivity | lia | rewrite N2; lia].
  - rewrite Eenc, concat_app. cbn [concat].
    exists (le64s W ++ concat (map (d_data sp enc) d) ++ concat (d_encs sp enc ienc pre 0)),
           (concat (d_encs sp enc ienc post (off + lenN (d_data sp enc e)))).
    split; [rewrite <- !app_assoc; reflexivity|].
    rewrite !lenN_app, HlW, <- sumlen_encs. fold D. unfold il, a. lia.
  - rewrite Edata.
    exists (le64s W ++ concat (map (d_data sp enc) pre)),
           (concat (map (d_data sp enc) post) ++ concat (d_encs sp enc ienc d 0)).
    split; [rewrite <- !app_assoc; reflexivity|].
    rewrite lenN_app, HlW. reflexivity.
  - rewrite !lenN_app, HlW. fold D. rewrite <- sumlen_encs. fold ks. unfold il.
    repeat split; lia.
Qed.


(* all words of the index of a legal closed minishard fit 64 bits *)
Lemma rows_fit : forall Ke sm off n,
  Ke < 2 ^ (sp_s sp + sp_m sp) ->
  (forall j, (j < n)%nat -> idn sp Ke j < 2 ^ 64) ->
  off + lenN (cdata sp enc sm (Ke * 2 ^ sp_p sp) n) < 2 ^ 64 ->
  Forall (fun w => w < 2 ^ 64)
         (crow0 sp (Ke * 2 ^ sp_p sp) n ++ crow1 off n ++ crow2 sp enc sm (Ke * 2 ^ sp_p sp) n).
Proof.
  intros Ke sm off n HK Hid Hsz. rewrite !Forall_app. unfold crow0, crow1, crow2.
  repeat split; apply Forall_forall; intros w Hw; apply in_map_iff in Hw; destruct Hw as (j & <- & Hj);
    apply in_seq in Hj.
  - destruct j as [|j']; unfold cdelta.
    + apply (Hid 0%nat). lia.
    + fold (idn sp Ke (S j')). fold (idn sp Ke j'). pose proof (Hid (S j') ltac:(lia)). lia.
  - destruct (j =? 0)%nat; lia.
  - pose proof (lenN_cpay_le (Ke * 2 ^ sp_p sp) sm n j ltac:(lia)). lia.
Qed.

(* the specification reader finds every stored chunk of every minishard of the file *)
Theorem spec_read_shard : forall d pre e post id b,
  desc_ok d -> d = pre ++ e :: post -> alookup id (snd (snd e)) = Some b ->
  spec_in_file (shard_bytes sp enc ienc d) (fst e) id = SFound b.
Proof.
  intros d pre e post id b Hd Ed Hl.
  destruct (shard_placement d pre e post Hd Ed) as (a & HkT & U1 & U2 & A1 & A2 & _ & _ & Hsz & Hsz2).
  set (f := shard_bytes sp enc ienc d) in *.
  set (off := lenN (concat (map (d_data sp enc) pre))) in *.
  assert (Hel : elem_ok e).
  { destruct Hd as (Hf & _). rewrite Forall_forall in Hf. apply Hf. rewrite Ed. apply in_or_app. right. left. reflexivity. }
  destruct (elem_facts e Hel) as (Ke & HK & Emb & Hok & Hids & Hrank).
  destruct (Hrank id b Hl) as (Hi & Eid).
  set (i := N.to_nat (rank sp id)) in *. set (n := ccount sp (snd (snd e))) in *.
  set (sm := snd (snd e)) in *.
  unfold spec_in_file, read_slot. rewrite U1, U2.
  change (shard_index_len m) with (16 * T).
  destruct (N.ltb_spec (16 * T) (16 * fst e + 16)) as [Hbad|_]; [lia|].
  (* the encoded index is not empty *)
  assert (Hraw : d_raw sp enc e off <> []).
  { unfold d_raw. fold sm. fold n. unfold crow0.
    assert (n = S (Nat.pred n)) by (unfold n, ccount; reflexivity). rewrite H. cbn [seq map app le64s flat_map le64 le_bytes].
    discriminate. }
  assert (HlenE : lenN (d_enc sp enc ienc e off) <> 0).
  { unfold d_enc. pose proof (Hne _ Hraw) as Hx. destruct (ienc (d_raw sp enc e off)); [congruence|]. unfold lenN. cbn. lia. }
  destruct (N.eqb_spec a (a + lenN (d_enc sp enc ienc e off))) as [Ebad|_]; [lia|].
  replace (16 * T + (a + lenN (d_enc sp enc ienc e off))) with (16 * T + a + lenN (d_enc sp enc ienc e off)) by lia.
  rewrite (at_sub_range _ _ _ A1). unfold d_enc at 1. rewrite Hidec.
  unfold d_raw. fold sm. fold n. rewrite Emb.
  assert (L0 : length (crow0 sp (Ke * 2 ^ sp_p sp) n) = n) by (unfold crow0; rewrite map_length, seq_length; reflexivity).
  assert (L1 : length (crow1 off n) = n) by (unfold crow1; rewrite map_length, seq_length; reflexivity).
  assert (L2 : length (crow2 sp enc sm (Ke * 2 ^ sp_p sp) n) = n) by (unfold crow2; rewrite map_length, seq_length; reflexivity).
  assert (HF : Forall (fun w => w < 2 ^ 64)
                 (crow0 sp (Ke * 2 ^ sp_p sp) n ++ crow1 off n ++ crow2 sp enc sm (Ke * 2 ^ sp_p sp) n)).
  { apply rows_fit; [exact HK | exact Hids|]. unfold d_data in Hsz. fold sm in Hsz. rewrite Emb in Hsz. exact Hsz. }
  rewrite (index_rows_le64s _ _ _ n L0 L1 L2 HF).
  rewrite (entries_canon sp enc Ke HK HB).
  rewrite Eid at 1. rewrite (alookup_centries sp enc Ke HK HB sm off n i Hi).
  (* the chunk bytes *)
  destruct (cdata_split (Ke * 2 ^ sp_p sp) sm n i Hi) as (rest & Esplit).
  assert (A3 : At f (16 * T + cstart sp enc Ke sm off i) (cpay sp enc sm (Ke * 2 ^ sp_p sp) i)).
  { unfold d_data in A2. fold sm in A2. rewrite Emb in A2. fold n in A2. rewrite Esplit in A2.
    apply at_inner in A2. unfold cstart. replace (16 * T + (off + lenN (cdata sp enc sm (Ke * 2 ^ sp_p sp) i)))
      with (16 * T + off + lenN (cdata sp enc sm (Ke * 2 ^ sp_p sp) i)) by lia. exact A2. }
  rewrite (cstart_S sp enc Ke HK HB).
  replace (16 * T + (cstart sp enc Ke sm off i + lenN (cpay sp enc sm (Ke * 2 ^ sp_p sp) i)))
    with (16 * T + cstart sp enc Ke sm off i + lenN (cpay sp enc sm (Ke * 2 ^ sp_p sp) i)) by lia.
  rewrite (at_sub_range _ _ _ A3).
  unfold cpay. fold (idn sp Ke i). rewrite <- Eid. fold sm in Hl. rewrite Hl, Hddec. reflexivity.
Qed.


(* the two words of slot k of the shard index, for every k < 2^m *)
Lemma slot_words_at : forall d k, desc_ok d -> k < T ->
  let f := shard_bytes sp enc ienc d in
  let E := slot_entry (d_kl sp enc ienc d 0) (lenN (concat (map (d_data sp enc) d))) k in
  u64_at f (16 * k) = Some (fst E) /\ u64_at f (16 * k + 8) = Some (snd E).
Proof.
  intros d k (Hel & Hs & Hk & Hb) HkT f E.
  set (D := lenN (concat (map (d_data sp enc) d))) in *. set (ks := d_kl sp enc ienc d 0) in *.
  pose proof (fin_slot_le ks 0 T Hs ltac:(lia) Hk) as Hfin.
  set (W := index_words ks T D).
  assert (HlenW : length W = (2 * N.to_nat T)%nat) by (apply length_index_words; assumption).
  destruct (nth_slot_words ks 0 D T k Hs ltac:(lia) HkT Hfin) as [N1 N2].
  rewrite N.sub_0_r in N1, N2. fold (index_words ks T D) in N1, N2. fold W in N1, N2. fold E in N1, N2.
  destruct (slot_entry_bounds ks D k) as (B1 & B2 & B3). fold E in B1, B2, B3.
  unfold f, shard_bytes. fold D. fold ks. fold W. split.
  - replace (16 * k) with (8 * N.of_nat (2 * N.to_nat k)) by lia.
    rewrite u64_at_word; [rewrite N1; reflexivity | lia | rewrite N1; lia].
  - replace (16 * k + 8) with (8 * N.of_nat (2 * N.to_nat k + 1)) by lia.
    rewrite u64_at_word; [rewrite N2; reflexivity | lia | rewrite N2; lia].
Qed.

Lemma read_slot_unused : forall d k, desc_ok d -> k < T -> (forall e, In e d -> fst e <> k) ->
  read_slot m idec (shard_bytes sp enc ienc d) k = SlotEmpty.
Proof.
  intros d k Hd HkT Hno. destruct (slot_words_at d k Hd HkT) as [U1 U2].
  unfold read_slot. rewrite U1, U2. change (shard_index_len m) with (16 * T).
  destruct (N.ltb_spec (16 * T) (16 * k + 16)); [lia|].
  rewrite (slot_entry_unused (d_kl sp enc ienc d 0)); [rewrite N.eqb_refl; reflexivity|].
  intros kl Hin Ek. assert (Hk' : In (fst kl) (map fst (d_kl sp enc ienc d 0))) by (apply in_map; exact Hin).
  assert (Ekeys : forall d0 off, map fst (d_kl sp enc ienc d0 off) = map fst d0).
  { induction d0 as [|e0 r IH]; intro off; cbn [d_kl map fst]; [reflexivity | rewrite IH; reflexivity]. }
  rewrite Ekeys in Hk'. apply in_map_iff in Hk'. destruct Hk' as (e & Ee & He). apply (Hno e He). congruence.
Qed.

(* the decoded entries of the slot of a present minishard *)
Lemma read_slot_present : forall d pre e post,
  desc_ok d -> d = pre ++ e :: post ->
  exists Ke, Ke < 2 ^ (sp_s sp + sp_m sp) /\ fst (snd e) = Ke * 2 ^ sp_p sp /\ sm_ok sp Ke (snd (snd e)) /\
    (forall j, (j < ccount sp (snd (snd e)))%nat -> idn sp Ke j < 2 ^ 64) /\
    read_slot m idec (shard_bytes sp enc ienc d) (fst e) =
    SlotEntries (centries sp enc Ke (snd (snd e)) (lenN (concat (map (d_data sp enc) pre))) (ccount sp (snd (snd e)))).
Proof.
  intros d pre e post Hd Ed.
  destruct (shard_placement d pre e post Hd Ed) as (a & HkT & U1 & U2 & A1 & A2 & _ & _ & Hsz & Hsz2).
  set (f := shard_bytes sp enc ienc d) in *.
  set (off := lenN (concat (map (d_data sp enc) pre))) in *.
  assert (Hel : elem_ok e).
  { destruct Hd as (Hf & _). rewrite Forall_forall in Hf. apply Hf. rewrite Ed. apply in_or_app. right. left. reflexivity. }
  destruct (elem_facts e Hel) as (Ke & HK & Emb & Hok & Hids & Hrank).
  exists Ke. split; [exact HK|]. split; [exact Emb|]. split; [exact Hok|]. split; [exact Hids|].
  set (n := ccount sp (snd (snd e))) in *. set (sm := snd (snd e)) in *.
  unfold read_slot. rewrite U1, U2.
  change (shard_index_len m) with (16 * T).
  destruct (N.ltb_spec (16 * T) (16 * fst e + 16)) as [Hbad|_]; [lia|].
  assert (Hraw : d_raw sp enc e off <> []).
  { unfold d_raw. fold sm. fold n. unfold crow0.
    assert (n = S (Nat.pred n)) by (unfold n, ccount; reflexivity). rewrite H. cbn [seq map app le64s flat_map le64 le_bytes].
    discriminate. }
  assert (HlenE : lenN (d_enc sp enc ienc e off) <> 0).
  { unfold d_enc. pose proof (Hne _ Hraw) as Hx. destruct (ienc (d_raw sp enc e off)); [congruence|]. unfold lenN. cbn. lia. }
  destruct (N.eqb_spec a (a + lenN (d_enc sp enc ienc e off))) as [Ebad|_]; [lia|].
  replace (16 * T + (a + lenN (d_enc sp enc ienc e off))) with (16 * T + a + lenN (d_enc sp enc ienc e off)) by lia.
  rewrite (at_sub_range _ _ _ A1). unfold d_enc at 1. rewrite Hidec.
  unfold d_raw. fold sm. fold n. rewrite Emb.
  assert (L0 : length (crow0 sp (Ke * 2 ^ sp_p sp) n) = n) by (unfold crow0; rewrite map_length, seq_length; reflexivity).
  assert (L1 : length (crow1 off n) = n) by (unfold crow1; rewrite map_length, seq_length; reflexivity).
  assert (L2 : length (crow2 sp enc sm (Ke * 2 ^ sp_p sp) n) = n) by (unfold crow2; rewrite map_length, seq_length; reflexivity).
  assert (HF : Forall (fun w => w < 2 ^ 64)
                 (crow0 sp (Ke * 2 ^ sp_p sp) n ++ crow1 off n ++ crow2 sp enc sm (Ke * 2 ^ sp_p sp) n)).
  { apply rows_fit; [exact HK | exact Hids|]. unfold d_data in Hsz. fold sm in Hsz. rewrite Emb in Hsz. exact Hsz. }
  rewrite (index_rows_le64s _ _ _ n L0 L1 L2 HF).
  rewrite (entries_canon sp enc Ke HK HB). reflexivity.
Qed.


(* the start word of the slot of a present minishard *)
Lemma placement_a : forall d pre e post,
  desc_ok d -> d = pre ++ e :: post ->
  u64_at (shard_bytes sp enc ienc d) (16 * fst e) =
  Some (lenN (concat (map (d_data sp enc) d)) + sumlen (d_kl sp enc ienc pre 0)).
Proof.
  intros d pre e post Hd Ed.
  destruct (shard_placement d pre e post Hd Ed) as (a & HkT & _).
  destruct (slot_words_at d (fst e) Hd HkT) as [U1 _]. rewrite U1. f_equal.
  destruct Hd as (_ & Hs & _ & _).
  assert (Eks : d_kl sp enc ienc d 0 = d_kl sp enc ienc pre 0 ++
            (fst e, lenN (d_enc sp enc ienc e (lenN (concat (map (d_data sp enc) pre))))) ::
            d_kl sp enc ienc post (lenN (concat (map (d_data sp enc) pre)) + lenN (d_data sp enc e))).
  { rewrite Ed, d_kl_app. cbn [d_kl]. rewrite N.add_0_l. reflexivity. }
  rewrite Eks. rewrite (slot_entry_present _ _ _ _ 0); [reflexivity|]. rewrite <- Eks. exact Hs.
Qed.

End SpecRead.
