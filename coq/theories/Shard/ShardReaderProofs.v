(* Facts about the package-reader model that hold for EVERY file content. *)
From Coq Require Import NArith ZArith List Bool Lia.
From NGS Require Import Val Ints Morton ShardBytes MiniShard ShardReader.
Import ListNotations.
Open Scope N_scope.

Lemma length_slice_le : forall off len f, lenN (slice off len f) <= len.
Proof.
  intros off len f. unfold slice, lenN. destruct (N.of_nat (length f) <=? off); [simpl; lia|].
  rewrite firstn_length. lia.
Qed.

Lemma file_read_len : forall f off len b, file_read f off len = Ok b -> lenN b <= len.
Proof.
  intros f off len b. unfold file_read.
  destruct (two63 <=? off); [discriminate|]. destruct (two63 - 1 <=? len); [discriminate|].
  intro H. injection H as <-. apply length_slice_le.
Qed.

Lemma read_bytes_len : forall sp s off len b, read_bytes sp s off len = Ok b -> lenN b <= len.
Proof.
  intros sp s off len b. destruct s as [|f|i d]; simpl; [discriminate| apply file_read_len |].
  destruct (off <? hl sp); apply file_read_len.
Qed.

(* the walk stops at position i with the (wrapping) sum of the first i+1 words *)
Lemma walk_spec : forall rest tally i cmc j t,
  walk rest tally i cmc = Ok (j, t) ->
  exists k, j = (i + k)%nat /\ (k <= length rest)%nat /\
            t = fold_left add64 (firstn k rest) tally /\ ~ t < cmc.
Proof.
  induction rest as [|d r IH]; intros tally i cmc j t; simpl.
  - destruct (N.ltb_spec tally cmc) as [Hlt|Hge]; [discriminate|]. intro H. injection H as <- <-.
    exists 0%nat. repeat split; simpl; lia.
  - destruct (N.ltb_spec tally cmc) as [Hlt|Hge].
    + intro H. destruct (IH _ _ _ _ _ H) as (k & -> & Hk & -> & Hn).
      exists (S k). split; [lia|]. split; [simpl; lia|]. split; [reflexivity | exact Hn].
    + intro H. injection H as <- <-. exists 0%nat. repeat split; simpl; lia.
Qed.

(* cumulative identifier at entry i, as the reader computes it (uint64 sums) *)
Definition cum_id (ws : list N) (i : nat) : N :=
  fold_left add64 (firstn i (tl ws)) (hd 0 ws).

(* A successful fetch returns bytes taken from an entry of the index: its
   position i is below the number n of entries, the cumulative identifier at
   i equals the requested one, and at most size_i bytes are returned. *)
Theorem fetch_reads_listed_entry : forall sp s ws cmc b,
  Nat.modulo (length ws) 3 = 0%nat ->        (* enforced by ReadableMiniShardCMC.__init__ *)
  mini_fetch_raw sp s ws cmc = Ok b ->
  exists i, (i < Nat.div (length ws) 3)%nat /\
            cum_id ws i = cmc /\
            lenN b <= nth (2 * Nat.div (length ws) 3 + i) ws 0.
Proof.
  intros sp s ws cmc b Hm3. unfold mini_fetch_raw.
  destruct ws as [|w0 rest]; [discriminate|].
  set (n := Nat.div (length (w0 :: rest)) 3).
  destruct (walk rest w0 0 cmc) as [[i tally]| | | | | |] eqn:Ew; try discriminate.
  cbn [bind].
  destruct (N.eqb_spec tally cmc) as [Et|Et]; [|discriminate]. cbn [negb].
  destruct (nth_error (w0 :: rest) (2 * n + i)) as [blen|] eqn:En; [|discriminate].
  intro Hr. apply read_bytes_len in Hr.
  destruct (walk_spec _ _ _ _ _ _ Ew) as (k & -> & Hk & Ht & _).
  assert (Hlt : (2 * n + (0 + k) < length (w0 :: rest))%nat) by (apply nth_error_Some; congruence).
  assert (Hn3 : (length (w0 :: rest) = 3 * n)%nat).
  { unfold n. pose proof (Nat.div_mod (length (w0 :: rest)) 3 ltac:(lia)). lia. }
  exists k. split; [lia|]. split.
  - unfold cum_id. cbn [tl hd]. congruence.
  - change (0 + k)%nat with k in En. rewrite (nth_error_nth _ _ 0 En). exact Hr.
Qed.

(* consequence used for "never stored => never reported as data": if every
   entry whose cumulative identifier equals cmc has size 0, a successful fetch
   returns the empty byte string *)
Theorem fetch_of_empty_entry : forall sp s ws cmc b,
  Nat.modulo (length ws) 3 = 0%nat ->
  (forall i, (i < Nat.div (length ws) 3)%nat -> cum_id ws i = cmc ->
             nth (2 * Nat.div (length ws) 3 + i) ws 0 = 0) ->
  mini_fetch_raw sp s ws cmc = Ok b -> b = [].
Proof.
  intros sp s ws cmc b Hm3 H Hf. destruct (fetch_reads_listed_entry _ _ _ _ _ Hm3 Hf) as (i & Hi & Hc & Hl).
  rewrite (H i Hi Hc) in Hl. destruct b; [reflexivity|]. unfold lenN in Hl. simpl in Hl. lia.
Qed.
