(* Definitions used in the statements of C04 / C05 (no proofs here):
   the class / rank decomposition of chunk identifiers, the canonical content
   of a minishard and of a shard file as a function of the SET of stored
   (identifier, payload) pairs. *)
From Coq Require Import NArith ZArith List Bool Lia.
From NGS Require Import Val Ints Morton ShardBytes MiniShard ShardFile.
Import ListNotations.
Open Scope N_scope.

Section Canon.
Variable sp : sparams.

Definition cbits : N := sp_p sp + sp_s sp + sp_m sp.

(* the class bits of an identifier, in place: bits [p, p+m+s) *)
Definition mbits (id : N) : N := ((id / 2 ^ sp_p sp) mod 2 ^ (sp_s sp + sp_m sp)) * 2 ^ sp_p sp.

(* the n-th identifier (in increasing order) of the class with class bits mb *)
Definition mk (mb n : N) : N :=
  (n / 2 ^ sp_p sp) * 2 ^ cbits + mb + n mod 2 ^ sp_p sp.

(* mb is a legal class-bits value: K * 2^p with K < 2^(s+m) *)
Definition class_bits_ok (mb : N) : Prop :=
  exists K, K < 2 ^ (sp_s sp + sp_m sp) /\ mb = K * 2 ^ sp_p sp.

Variable data_enc : bytes -> bytes.

(* stored set: association list identifier -> payload (as given to store) *)
Definition store_map := list (N * bytes).

(* bytes of entry number i of class mb: the encoded payload, or nothing for a gap *)
Definition cpay (sm : store_map) (mb : N) (i : nat) : bytes :=
  match alookup (mk mb (N.of_nat i)) sm with Some b => data_enc b | None => [] end.

Definition cdelta (mb : N) (i : nat) : N :=
  match i with O => mk mb 0 | S j => mk mb (N.of_nat i) - mk mb (N.of_nat j) end.

(* header triples of the first a entries; off = value of the first offset field *)
Definition chdr (sm : store_map) (mb off : N) (a : nat) : list N :=
  flat_map (fun i => [cdelta mb i; if (i =? 0)%nat then off else 0; lenN (cpay sm mb i)]) (seq 0 a).

Definition cdata (sm : store_map) (mb : N) (a : nat) : bytes :=
  flat_map (cpay sm mb) (seq 0 a).

(* number of entries of a closed minishard: highest stored rank + 1 *)
Definition ccount (sm : store_map) : nat :=
  S (N.to_nat (maxN (map (rank sp) (akeys sm)))).

End Canon.
