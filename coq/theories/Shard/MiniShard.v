(* Model of sharded_file_accessor.MiniShard: the reorder buffer of one
   minishard writer.  State and control flow follow the Python class member by
   member; every exception that can escape is an outcome, and the state the
   Python object is left in when it raises is returned together with the
   outcome (callers may catch the exception and continue).

   The two buffering strategies ("in memory" / "on disk") use OnDiskBytesDict /
   OnDiskByteArray as drop-in replacements for dict / bytearray; both are the
   same abstract map / byte sequence here.  That the on-disk classes behave
   like the in-memory ones is a correspondence result of the harness, not a
   theorem. *)
From Coq Require Import NArith ZArith List Bool Lia.
From NGS Require Import Val Ints Morton ShardBytes.
Import ListNotations.
Open Scope N_scope.

Record sparams := { sp_m : N; sp_s : N; sp_p : N }.   (* minishard, shard, preshift bits *)

Record mini := {
  ms_off  : N;                      (* _offset *)
  ms_app  : N;                      (* _appended (uint64) *)
  ms_last : N;                      (* _last_chunk_id *)
  ms_pend : list (N * bytes);       (* _chunk_buffer *)
  ms_data : bytes;                  (* databytearray *)
  ms_hdr  : list N;                 (* header: flat (delta id, delta offset, size) triples *)
  ms_mask : option N                (* masked_bits; None until the first store *)
}.

Definition ms_init : mini :=
  {| ms_off := 0; ms_app := 0; ms_last := 0; ms_pend := []; ms_data := [];
     ms_hdr := []; ms_mask := None |}.

(* ((minishard_mask | shard_mask) << preshift_bits) & cmc *)
Definition masked_of (sp : sparams) (cmc : N) : N :=
  and64 (shl64 (or64 (minishard_mask (sp_m sp)) (shard_mask (sp_m sp) (sp_s sp))) (sp_p sp)) cmc.

(* MiniShard.next_cmc for a given masked_bits and _appended:
   (n >> p << (p + s + m)) + masked_bits + (n & preshift_mask), all uint64 *)
Definition next_cmc (sp : sparams) (mb app : N) : N :=
  add64 (add64 (shl64 (shr64 app (sp_p sp)) (add64 (add64 (sp_p sp) (sp_s sp)) (sp_m sp))) mb)
        (and64 app (mask_low (sp_p sp))).

Definition mask_val (st : mini) : N := match ms_mask st with Some x => x | None => 0 end.
Definition ms_next (sp : sparams) (st : mini) : N := next_cmc sp (mask_val st) (ms_app st).

(* MiniShard.append *)
Definition ms_append (st : mini) (buf : bytes) (cmc : N) : mini :=
  {| ms_off := ms_off st;
     ms_app := add64 (ms_app st) 1;
     ms_last := cmc;
     ms_pend := ms_pend st;
     ms_data := ms_data st ++ buf;
     ms_hdr := ms_hdr st ++ [sub64 cmc (ms_last st);
                             if ms_app st =? 0 then ms_off st else 0;
                             lenN buf];
     ms_mask := ms_mask st |}.

Definition with_pend (st : mini) (p : list (N * bytes)) : mini :=
  {| ms_off := ms_off st; ms_app := ms_app st; ms_last := ms_last st; ms_pend := p;
     ms_data := ms_data st; ms_hdr := ms_hdr st; ms_mask := ms_mask st |}.

Definition with_mask (st : mini) (mb : N) : mini :=
  {| ms_off := ms_off st; ms_app := ms_app st; ms_last := ms_last st; ms_pend := ms_pend st;
     ms_data := ms_data st; ms_hdr := ms_hdr st; ms_mask := Some mb |}.

(* while self.next_cmc in self._chunk_buffer: pop, append.
   Each iteration removes one entry, so fuel = number of entries suffices. *)
Fixpoint flush_loop (sp : sparams) (fuel : nat) (st : mini) : mini * outcome unit :=
  let nx := ms_next sp st in
  match alookup nx (ms_pend st) with
  | None => (st, Ok tt)
  | Some b =>
      match fuel with
      | O => (st, Crash OutOfFuel)
      | S f => flush_loop sp f (ms_append (with_pend st (aremove nx (ms_pend st))) b nx)
      end
  end.

(* MiniShard.flush_buffer *)
Definition flush_buffer (sp : sparams) (st : mini) : mini * outcome unit :=
  match ms_mask st with
  | None => (st, IOErr)                  (* next_cmc raises ShardedIOError *)
  | Some _ =>
      let '(st1, r) := flush_loop sp (length (ms_pend st)) st in
      match r with
      | Ok _ =>
          if existsb (fun k => k <? ms_next sp st1) (akeys (ms_pend st1))
          then (st1, IOErr) else (st1, Ok tt)
      | e => (st1, e)
      end
  end.

(* MiniShard.store_cmc_chunk; data_enc is shard_spec.data_encoder *)
Definition ms_store (sp : sparams) (data_enc : bytes -> bytes)
           (st : mini) (buf : bytes) (cmc : N) : mini * outcome unit :=
  let mb := match ms_mask st with
            | Some x => if x =? 0 then masked_of sp cmc else x   (* "if not self.masked_bits" *)
            | None => masked_of sp cmc
            end in
  let st1 := with_mask st mb in
  let c := data_enc buf in
  let nx := ms_next sp st1 in
  if cmc <? nx then (st1, Crash RuntimeError)
  else if nx =? cmc then flush_buffer sp (ms_append st1 c cmc)
  else (with_pend st1 (aset cmc c (ms_pend st1)), Ok tt).

(* rank of an identifier inside its (shard, minishard) class: the value of
   _appended at which next_cmc reaches it.  Used only to size the fuel of the
   gap-filling loop. *)
Definition rank (sp : sparams) (id : N) : N :=
  (id / 2 ^ (sp_p sp + sp_s sp + sp_m sp)) * 2 ^ sp_p sp + id mod 2 ^ sp_p sp.

(* When p + s + m >= 64 the shifted part of next_cmc vanishes and next_cmc
   cycles through the 2^p identifiers of the class; a pending identifier is
   then reached after ((its residue - _appended) mod 2^p) further appends
   (the real loop runs exactly that long).  That distance is added to the
   bound of the ordinary regime. *)
Definition cyc_dist (sp : sparams) (app id : N) : N :=
  let P := 2 ^ sp_p sp in (id mod P + P - app mod P) mod P.

Definition close_fuel (sp : sparams) (st : mini) : nat :=
  let cyc := if (64 <=? sp_p sp + sp_s sp + sp_m sp) && (sp_p sp <? 64)
             then maxN (map (cyc_dist sp (ms_app st)) (akeys (ms_pend st))) else 0 in
  S (N.to_nat (maxN (map (rank sp) (akeys (ms_pend st))) - ms_app st + cyc)).

(* while len(self._chunk_buffer) > 0: self.append(b'', self.next_cmc); self.flush_buffer() *)
Fixpoint close_loop (sp : sparams) (fuel : nat) (st : mini) : mini * outcome unit :=
  match ms_pend st with
  | [] => (st, Ok tt)
  | _ :: _ =>
      match fuel with
      | O => (st, Crash OutOfFuel)
      | S f =>
          let '(st1, r) := flush_buffer sp (ms_append st [] (ms_next sp st)) in
          match r with
          | Ok _ => close_loop sp f st1
          | e => (st1, e)
          end
      end
  end.

(* MiniShard.close *)
Definition ms_close (sp : sparams) (st : mini) : mini * outcome unit :=
  let '(st1, r) := flush_buffer sp st in
  match r with
  | Ok _ => close_loop sp (close_fuel sp st1) st1
  | e => (st1, e)
  end.

(* a sequence of stores on one MiniShard object; exceptions are caught by the
   caller and the sequence continues *)
Fixpoint ms_run (sp : sparams) (data_enc : bytes -> bytes) (st : mini) (ops : list (N * bytes))
  : mini * list (outcome unit) :=
  match ops with
  | [] => (st, [])
  | (c, b) :: r =>
      let '(st1, o) := ms_store sp data_enc st b c in
      let '(st2, os) := ms_run sp data_enc st1 r in (st2, o :: os)
  end.
