(* Proofs about the reorder buffer of one minishard (MiniShard.v):
   1. the class / rank bijection and next_cmc = mk (arithmetic core);
   2. the invariant of the reorder buffer over all store sequences, close. *)
From Coq Require Import NArith ZArith List Bool Lia Permutation.
From NGS Require Import Val Ints Morton MortonProofs ShardBytes MiniShard ShardFile ShardCanon.
Import ListNotations.
Open Scope N_scope.

(* ================================================================== *)
(* 1. arithmetic core                                                  *)
(* ================================================================== *)

Lemma div_mul_add : forall P q r, 0 < P -> r < P -> (q * P + r) / P = q.
Proof.
  intros P q r HP Hr. symmetry. apply N.div_unique with (r := r); [assumption | lia].
Qed.

Lemma mod_mul_add : forall P q r, 0 < P -> r < P -> (q * P + r) mod P = r.
Proof.
  intros P q r HP Hr. symmetry. apply N.mod_unique with (q := q); [assumption | lia].
Qed.

Lemma land_comm_mask : forall k h, h < 2 ^ 64 -> and64 h (mask_low k) = h mod 2 ^ k.
Proof. intros k h H. unfold and64. rewrite N.land_comm. apply land_mask_low. exact H. Qed.

(* generic form: P = 2^p, M = 2^(s+m) are arbitrary positive numbers *)
Section Gen.
Variables P M : N.
Hypothesis HP : 0 < P.
Hypothesis HM : 0 < M.

Definition gmk (mb n : N) : N := (n / P) * (P * M) + mb + n mod P.
Definition grank (id : N) : N := (id / (P * M)) * P + id mod P.
Definition gmbits (id : N) : N := ((id / P) mod M) * P.

Lemma gmk_shape : forall K n, K < M ->
  let x := gmk (K * P) n in
  x / P = (n / P) * M + K /\ x mod P = n mod P /\ x / (P * M) = n / P.
Proof.
  intros K n HK x.
  assert (Hr : n mod P < P) by (apply N.mod_lt; lia).
  assert (Hx : x = ((n / P) * M + K) * P + n mod P) by (unfold x, gmk; lia).
  assert (H1 : x / P = n / P * M + K) by (rewrite Hx; apply div_mul_add; assumption).
  repeat split.
  - exact H1.
  - rewrite Hx. apply mod_mul_add; assumption.
  - rewrite <- N.div_div by lia. rewrite H1. apply div_mul_add; assumption.
Qed.

Lemma grank_gmk : forall K n, K < M -> grank (gmk (K * P) n) = n.
Proof.
  intros K n HK. destruct (gmk_shape K n HK) as (_ & H2 & H3).
  unfold grank. rewrite H2, H3. rewrite N.mul_comm. symmetry. apply N.div_mod. lia.
Qed.

Lemma gmbits_gmk : forall K n, K < M -> gmbits (gmk (K * P) n) = K * P.
Proof.
  intros K n HK. destruct (gmk_shape K n HK) as (H1 & _ & _).
  unfold gmbits. rewrite H1. f_equal. apply mod_mul_add; assumption.
Qed.

Lemma gmk_grank : forall id, gmk (gmbits id) (grank id) = id.
Proof.
  intro id. unfold gmk, grank, gmbits.
  set (q := id / P). set (r0 := id mod P).
  assert (Hr0 : r0 < P) by (apply N.mod_lt; lia).
  assert (Hid : id = q * P + r0) by (unfold q, r0; rewrite N.mul_comm; apply N.div_mod; lia).
  assert (Hh : id / (P * M) = q / M) by (rewrite <- N.div_div by lia; reflexivity).
  rewrite Hh. rewrite div_mul_add, mod_mul_add by assumption.
  pose proof (N.div_mod q M ltac:(lia)) as Hq.
  assert (HqP : q * P = (M * (q / M) + q mod M) * P) by (rewrite <- Hq; reflexivity).
  lia.
Qed.

Lemma gmk_mono : forall K n1 n2, K < M -> n1 < n2 -> gmk (K * P) n1 < gmk (K * P) n2.
Proof.
  intros K n1 n2 HK Hn. unfold gmk.
  pose proof (N.div_mod n1 P ltac:(lia)) as H1. pose proof (N.div_mod n2 P ltac:(lia)) as H2.
  assert (Hr1 : n1 mod P < P) by (apply N.mod_lt; lia).
  assert (Hr2 : n2 mod P < P) by (apply N.mod_lt; lia).
  assert (Hq : n1 / P <= n2 / P) by (apply N.div_le_mono; lia).
  destruct (N.eq_dec (n1 / P) (n2 / P)) as [E|E].
  - rewrite E in *. assert (n1 mod P < n2 mod P) by lia. lia.
  - assert (Hlt : n1 / P + 1 <= n2 / P) by lia.
    assert (HKP' : (K + 1) * P <= M * P) by (apply N.mul_le_mono_r; lia).
    assert (HKP : K * P + P <= P * M) by lia.
    assert (Hexp : (n1 / P + 1) * (P * M) = n1 / P * (P * M) + P * M) by lia.
    assert (Hle : (n1 / P + 1) * (P * M) <= n2 / P * (P * M)) by (apply N.mul_le_mono_r; exact Hlt).
    rewrite Hexp in Hle.
    set (A := n1 / P * (P * M)) in *. set (B := n2 / P * (P * M)) in *.
    set (KP := K * P) in *. set (PM := P * M) in *.
    clearbody A B KP PM. clear Hexp HKP' H1 H2 Hq E Hlt. set (r1 := n1 mod P) in *. set (r2 := n2 mod P) in *. clearbody r1 r2. lia.
Qed.

Lemma gmk_ge : forall mb n, n <= gmk mb n.
Proof.
  intros mb n. unfold gmk.
  pose proof (N.div_mod n P ltac:(lia)) as H1.
  assert (n / P * P <= n / P * (P * M)).
  { apply N.mul_le_mono_l. rewrite <- (N.mul_1_r P) at 1. apply N.mul_le_mono_l. lia. }
  lia.
Qed.
End Gen.

Section Arith.
Variable sp : sparams.
Notation P := (2 ^ sp_p sp).
Notation M := (2 ^ (sp_s sp + sp_m sp)).

Lemma P_pos : 0 < P. Proof. apply pow2_pos. Qed.
Lemma M_pos : 0 < M. Proof. apply pow2_pos. Qed.

Lemma cbits_pow : 2 ^ cbits sp = P * M.
Proof. unfold cbits. rewrite <- N.pow_add_r. f_equal. lia. Qed.

Lemma rank_eq : forall id, rank sp id = grank P M id.
Proof.
  intro id. unfold rank, grank.
  replace (sp_p sp + sp_s sp + sp_m sp) with (cbits sp) by reflexivity.
  rewrite cbits_pow. reflexivity.
Qed.

Lemma mk_eq : forall mb n, mk sp mb n = gmk P M mb n.
Proof. intros. unfold mk, gmk. rewrite cbits_pow. reflexivity. Qed.

Lemma mbits_eq : forall id, mbits sp id = gmbits P M id.
Proof. reflexivity. Qed.

Theorem rank_mk : forall K n, K < M -> rank sp (mk sp (K * P) n) = n.
Proof. intros. rewrite rank_eq, mk_eq. apply grank_gmk; [apply P_pos | apply M_pos | assumption]. Qed.

Theorem mbits_mk : forall K n, K < M -> mbits sp (mk sp (K * P) n) = K * P.
Proof. intros. rewrite mbits_eq, mk_eq. apply gmbits_gmk; [apply P_pos | apply M_pos | assumption]. Qed.

Theorem mk_rank : forall id, mk sp (mbits sp id) (rank sp id) = id.
Proof. intros. rewrite mbits_eq, rank_eq, mk_eq. apply gmk_grank; [apply P_pos | apply M_pos]. Qed.

Lemma mbits_ok : forall id, class_bits_ok sp (mbits sp id).
Proof.
  intro id. exists ((id / P) mod M). split; [apply N.mod_lt; pose proof M_pos; lia | reflexivity].
Qed.

Theorem mk_mono : forall K n1 n2, K < M -> n1 < n2 -> mk sp (K * P) n1 < mk sp (K * P) n2.
Proof. intros. rewrite !mk_eq. apply gmk_mono; [apply P_pos | apply M_pos | assumption | assumption]. Qed.

Lemma mk_ge : forall mb n, n <= mk sp mb n.
Proof. intros. rewrite mk_eq. apply gmk_ge; [apply P_pos | apply M_pos]. Qed.

Lemma mk_mono_le : forall K n1 n2, K < M -> n1 <= n2 -> mk sp (K * P) n1 <= mk sp (K * P) n2.
Proof.
  intros K n1 n2 HK Hn. destruct (N.eq_dec n1 n2) as [->|]; [lia|].
  apply N.lt_le_incl, mk_mono; [assumption | lia].
Qed.

Lemma mk_inj : forall K n1 n2, K < M -> mk sp (K * P) n1 = mk sp (K * P) n2 -> n1 = n2.
Proof.
  intros K n1 n2 HK E. rewrite <- (rank_mk K n1 HK), <- (rank_mk K n2 HK), E. reflexivity.
Qed.

(* an identifier of the class is the mk of its rank *)
Lemma in_class_mk : forall mb id, mbits sp id = mb -> id = mk sp mb (rank sp id).
Proof. intros mb id <-. symmetry. apply mk_rank. Qed.

(* ---------- the code's next_cmc, with its uint64 shifts ---------- *)
Theorem next_cmc_is_mk : forall K n,
  K < M -> cbits sp < 2 ^ 64 -> mk sp (K * P) n < 2 ^ 64 ->
  next_cmc sp (K * P) n = mk sp (K * P) n.
Proof.
  intros K n HK HB Hlt. pose proof P_pos as HP. pose proof M_pos as HM.
  assert (Hn : n < 2 ^ 64) by (pose proof (mk_ge (K * P) n); lia).
  unfold next_cmc.
  assert (Ha : add64 (add64 (sp_p sp) (sp_s sp)) (sp_m sp) = cbits sp).
  { unfold add64, cbits in *. rewrite two64_eq.
    rewrite (N.mod_small (sp_p sp + sp_s sp)) by lia. apply N.mod_small. lia. }
  rewrite Ha. rewrite (shr64_div n (sp_p sp) Hn).
  rewrite (land_comm_mask (sp_p sp) n Hn).
  rewrite mk_eq in Hlt |- *. unfold gmk in *.
  set (q := n / P) in *. set (r := n mod P) in *. set (PM := P * M) in *.
  assert (Hsh : shl64 q (cbits sp) = q * PM).
  { unfold shl64. destruct (N.leb_spec 64 (cbits sp)) as [H64|H64].
    - (* the whole shift is out of range: the quotient must be 0 *)
      pose proof (pow2_ge_two64 _ H64) as Hge. rewrite cbits_pow in Hge. fold PM in Hge.
      destruct (N.eq_dec q 0) as [->|Hnz]; [reflexivity|].
      exfalso. assert (1 * PM <= q * PM) by (apply N.mul_le_mono_r; lia). lia.
    - rewrite cbits_pow. fold PM. apply N.mod_small. rewrite two64_eq. lia. }
  rewrite Hsh. unfold add64. rewrite two64_eq.
  rewrite (N.mod_small (q * PM + K * P)) by lia.
  apply N.mod_small. lia.
Qed.

End Arith.
