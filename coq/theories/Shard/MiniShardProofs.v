(* Proofs about the reorder buffer of one minishard (MiniShard.v):
   1. the class / rank bijection and next_cmc = mk (arithmetic core);
   2. the invariant of the reorder buffer over all store sequences, close. *)
From Coq Require Import NArith ZArith List Bool Lia Permutation.
From NGS Require Import Val Ints Morton MortonProofs ShardBytes MiniShard ShardFile ShardCanon.
Import ListNotations.
Open Scope N_scope.

(* ================================================================== *)
(* 1. arithmetic core                                                  *)
(* ================================================================== *)

Lemma div_mul_add : forall P q r, 0 < P -> r < P -> (q * P + r) / P = q.
Proof.
  intros P q r HP Hr. symmetry. apply N.div_unique with (r := r); [assumption | lia].
Qed.

Lemma mod_mul_add : forall P q r, 0 < P -> r < P -> (q * P + r) mod P = r.
Proof.
  intros P q r HP Hr. symmetry. apply N.mod_unique with (q := q); [assumption | lia].
Qed.

Lemma land_comm_mask : forall k h, h < 2 ^ 64 -> and64 h (mask_low k) = h mod 2 ^ k.
Proof. intros k h H. unfold and64. rewrite N.land_comm. apply land_mask_low. exact H. Qed.

(* generic form: P = 2^p, M = 2^(s+m) are arbitrary positive numbers *)
Section Gen.
Variables P M : N.
Hypothesis HP : 0 < P.
Hypothesis HM : 0 < M.

Definition gmk (mb n : N) : N := (n / P) * (P * M) + mb + n mod P.
Definition grank (id : N) : N := (id / (P * M)) * P + id mod P.
Definition gmbits (id : N) : N := ((id / P) mod M) * P.

Lemma gmk_shape : forall K n, K < M ->
  let x := gmk (K * P) n in
  x / P = (n / P) * M + K /\ x mod P = n mod P /\ x / (P * M) = n / P.
Proof.
  intros K n HK x.
  assert (Hr : n mod P < P) by (apply N.mod_lt; lia).
  assert (Hx : x = ((n / P) * M + K) * P + n mod P) by (unfold x, gmk; lia).
  assert (H1 : x / P = n / P * M + K) by (rewrite Hx; apply div_mul_add; assumption).
  repeat split.
  - exact H1.
  - rewrite Hx. apply mod_mul_add; assumption.
  - rewrite <- N.div_div by lia. rewrite H1. apply div_mul_add; assumption.
Qed.

Lemma grank_gmk : forall K n, K < M -> grank (gmk (K * P) n) = n.
Proof.
  intros K n HK. destruct (gmk_shape K n HK) as (_ & H2 & H3).
  unfold grank. rewrite H2, H3. rewrite N.mul_comm. symmetry. apply N.div_mod. lia.
Qed.

Lemma gmbits_gmk : forall K n, K < M -> gmbits (gmk (K * P) n) = K * P.
Proof.
  intros K n HK. destruct (gmk_shape K n HK) as (H1 & _ & _).
  unfold gmbits. rewrite H1. f_equal. apply mod_mul_add; assumption.
Qed.

Lemma gmk_grank : forall id, gmk (gmbits id) (grank id) = id.
Proof.
  intro id. unfold gmk, grank, gmbits.
  set (q := id / P). set (r0 := id mod P).
  assert (Hr0 : r0 < P) by (apply N.mod_lt; lia).
  assert (Hid : id = q * P + r0) by (unfold q, r0; rewrite N.mul_comm; apply N.div_mod; lia).
  assert (Hh : id / (P * M) = q / M) by (rewrite <- N.div_div by lia; reflexivity).
  rewrite Hh. rewrite div_mul_add, mod_mul_add by assumption.
  pose proof (N.div_mod q M ltac:(lia)) as Hq.
  assert (HqP : q * P = (M * (q / M) + q mod M) * P) by (rewrite <- Hq; reflexivity).
  lia.
Qed.

Lemma gmk_mono : forall K n1 n2, K < M -> n1 < n2 -> gmk (K * P) n1 < gmk (K * P) n2.
Proof.
  intros K n1 n2 HK Hn. unfold gmk.
  pose proof (N.div_mod n1 P ltac:(lia)) as H1. pose proof (N.div_mod n2 P ltac:(lia)) as H2.
  assert (Hr1 : n1 mod P < P) by (apply N.mod_lt; lia).
  assert (Hr2 : n2 mod P < P) by (apply N.mod_lt; lia).
  assert (Hq : n1 / P <= n2 / P) by (apply N.div_le_mono; lia).
  destruct (N.eq_dec (n1 / P) (n2 / P)) as [E|E].
  - rewrite E in *. assert (n1 mod P < n2 mod P) by lia. lia.
  - assert (Hlt : n1 / P + 1 <= n2 / P) by lia.
    assert (HKP' : (K + 1) * P <= M * P) by (apply N.mul_le_mono_r; lia).
    assert (HKP : K * P + P <= P * M) by lia.
    assert (Hexp : (n1 / P + 1) * (P * M) = n1 / P * (P * M) + P * M) by lia.
    assert (Hle : (n1 / P + 1) * (P * M) <= n2 / P * (P * M)) by (apply N.mul_le_mono_r; exact Hlt).
    rewrite Hexp in Hle.
    set (A := n1 / P * (P * M)) in *. set (B := n2 / P * (P * M)) in *.
    set (KP := K * P) in *. set (PM := P * M) in *.
    clearbody A B KP PM. clear Hexp HKP' H1 H2 Hq E Hlt. set (r1 := n1 mod P) in *. set (r2 := n2 mod P) in *. clearbody r1 r2. lia.
Qed.

Lemma gmk_ge : forall mb n, n <= gmk mb n.
Proof.
  intros mb n. unfold gmk.
  pose proof (N.div_mod n P ltac:(lia)) as H1.
  assert (n / P * P <= n / P * (P * M)).
  { apply N.mul_le_mono_l. rewrite <- (N.mul_1_r P) at 1. apply N.mul_le_mono_l. lia. }
  lia.
Qed.
End Gen.

Section Arith.
Variable sp : sparams.
Notation P := (2 ^ sp_p sp).
Notation M := (2 ^ (sp_s sp + sp_m sp)).

Lemma P_pos : 0 < P. Proof. apply pow2_pos. Qed.
Lemma M_pos : 0 < M. Proof. apply pow2_pos. Qed.

Lemma cbits_pow : 2 ^ cbits sp = P * M.
Proof. unfold cbits. rewrite <- N.pow_add_r. f_equal. lia. Qed.

Lemma rank_eq : forall id, rank sp id = grank P M id.
Proof.
  intro id. unfold rank, grank.
  replace (sp_p sp + sp_s sp + sp_m sp) with (cbits sp) by reflexivity.
  rewrite cbits_pow. reflexivity.
Qed.

Lemma mk_eq : forall mb n, mk sp mb n = gmk P M mb n.
Proof. intros. unfold mk, gmk. rewrite cbits_pow. reflexivity. Qed.

Lemma mbits_eq : forall id, mbits sp id = gmbits P M id.
Proof. reflexivity. Qed.

Theorem rank_mk : forall K n, K < M -> rank sp (mk sp (K * P) n) = n.
Proof. intros. rewrite rank_eq, mk_eq. apply grank_gmk; [apply P_pos | apply M_pos | assumption]. Qed.

Theorem mbits_mk : forall K n, K < M -> mbits sp (mk sp (K * P) n) = K * P.
Proof. intros. rewrite mbits_eq, mk_eq. apply gmbits_gmk; [apply P_pos | apply M_pos | assumption]. Qed.

Theorem mk_rank : forall id, mk sp (mbits sp id) (rank sp id) = id.
Proof. intros. rewrite mbits_eq, rank_eq, mk_eq. apply gmk_grank; [apply P_pos | apply M_pos]. Qed.

Lemma mbits_ok : forall id, class_bits_ok sp (mbits sp id).
Proof.
  intro id. exists ((id / P) mod M). split; [apply N.mod_lt; pose proof M_pos; lia | reflexivity].
Qed.

Theorem mk_mono : forall K n1 n2, K < M -> n1 < n2 -> mk sp (K * P) n1 < mk sp (K * P) n2.
Proof. intros. rewrite !mk_eq. apply gmk_mono; [apply P_pos | apply M_pos | assumption | assumption]. Qed.

Lemma mk_ge : forall mb n, n <= mk sp mb n.
Proof. intros. rewrite mk_eq. apply gmk_ge; [apply P_pos | apply M_pos]. Qed.

Lemma mk_mono_le : forall K n1 n2, K < M -> n1 <= n2 -> mk sp (K * P) n1 <= mk sp (K * P) n2.
Proof.
  intros K n1 n2 HK Hn. destruct (N.eq_dec n1 n2) as [->|]; [lia|].
  apply N.lt_le_incl, mk_mono; [assumption | lia].
Qed.

Lemma mk_inj : forall K n1 n2, K < M -> mk sp (K * P) n1 = mk sp (K * P) n2 -> n1 = n2.
Proof.
  intros K n1 n2 HK E. rewrite <- (rank_mk K n1 HK), <- (rank_mk K n2 HK), E. reflexivity.
Qed.

(* an identifier of the class is the mk of its rank *)
Lemma in_class_mk : forall mb id, mbits sp id = mb -> id = mk sp mb (rank sp id).
Proof. intros mb id <-. symmetry. apply mk_rank. Qed.

(* ---------- the code's next_cmc, with its uint64 shifts ---------- *)
Theorem next_cmc_is_mk : forall K n,
  K < M -> cbits sp < 2 ^ 64 -> mk sp (K * P) n < 2 ^ 64 ->
  next_cmc sp (K * P) n = mk sp (K * P) n.
Proof.
  intros K n HK HB Hlt. pose proof P_pos as HP. pose proof M_pos as HM.
  assert (Hn : n < 2 ^ 64) by (pose proof (mk_ge (K * P) n); lia).
  unfold next_cmc.
  assert (Ha : add64 (add64 (sp_p sp) (sp_s sp)) (sp_m sp) = cbits sp).
  { unfold add64, cbits in *. rewrite two64_eq.
    rewrite (N.mod_small (sp_p sp + sp_s sp)) by lia. apply N.mod_small. lia. }
  rewrite Ha. rewrite (shr64_div n (sp_p sp) Hn).
  rewrite (land_comm_mask (sp_p sp) n Hn).
  rewrite mk_eq in Hlt |- *. unfold gmk in *.
  set (q := n / P) in *. set (r := n mod P) in *. set (PM := P * M) in *.
  assert (Hsh : shl64 q (cbits sp) = q * PM).
  { unfold shl64. destruct (N.leb_spec 64 (cbits sp)) as [H64|H64].
    - (* the whole shift is out of range: the quotient must be 0 *)
      pose proof (pow2_ge_two64 _ H64) as Hge. rewrite cbits_pow in Hge. fold PM in Hge.
      destruct (N.eq_dec q 0) as [->|Hnz]; [reflexivity|].
      exfalso. assert (1 * PM <= q * PM) by (apply N.mul_le_mono_r; lia). lia.
    - rewrite cbits_pow. fold PM. apply N.mod_small. rewrite two64_eq. lia. }
  rewrite Hsh. unfold add64. rewrite two64_eq.
  rewrite (N.mod_small (q * PM + K * P)) by lia.
  apply N.mod_small. lia.
Qed.

End Arith.

(* ---------- masked_bits = the class bits of the identifier ---------- *)
Lemma or_masks : forall m s, m + s < 2 ^ 64 ->
  or64 (minishard_mask m) (shard_mask m s) = N.ones (N.min (m + s) 64).
Proof.
  intros m s Hms. unfold or64, minishard_mask, shard_mask, and64.
  assert (Ha : add64 m s = m + s)
    by (unfold add64; apply N.mod_small; rewrite two64_eq; assumption).
  rewrite Ha, !mask_low_ones. rewrite not64_ones by (apply N.le_min_r).
  apply N.bits_inj. intro i.
  rewrite N.lor_spec, N.land_spec, N.ldiff_spec, !testbit_ones.
  destruct (N.ltb_spec i (N.min m 64)); destruct (N.ltb_spec i (N.min (m + s) 64));
    destruct (N.ltb_spec i 64); simpl; try reflexivity; lia.
Qed.

Lemma testbit_mul_pow2 : forall a k i,
  N.testbit (a * 2 ^ k) i = if i <? k then false else N.testbit a (i - k).
Proof.
  intros a k i. destruct (N.ltb_spec i k) as [H|H].
  - apply N.mul_pow2_bits_low. exact H.
  - apply N.mul_pow2_bits_high. exact H.
Qed.

Theorem masked_of_is_mbits : forall sp id,
  id < 2 ^ 64 -> sp_m sp + sp_s sp < 2 ^ 64 -> masked_of sp id = mbits sp id.
Proof.
  intros sp id Hid Hms. unfold masked_of, mbits. rewrite or_masks by assumption.
  unfold shl64, and64.
  destruct (N.leb_spec 64 (sp_p sp)) as [Hp|Hp].
  - rewrite N.land_0_l.
    pose proof (pow2_ge_two64 _ Hp) as Hge.
    rewrite (N.div_small id) by lia.
    rewrite N.mod_0_l by apply pow2_nz. reflexivity.
  - apply N.bits_inj. intro i.
    rewrite N.land_spec, two64_eq.
    rewrite !testbit_mul_pow2.
    destruct (N.lt_ge_cases i 64) as [Hi|Hi].
    + rewrite N.mod_pow2_bits_low by exact Hi. rewrite testbit_mul_pow2.
      destruct (N.ltb_spec i (sp_p sp)) as [Hip|Hip]; [reflexivity|].
      rewrite testbit_ones.
      destruct (N.lt_ge_cases (i - sp_p sp) (sp_s sp + sp_m sp)) as [Hj|Hj].
      * rewrite N.mod_pow2_bits_low by exact Hj. rewrite N.div_pow2_bits.
        replace (i - sp_p sp + sp_p sp) with i by lia.
        replace (i - sp_p sp <? N.min (sp_m sp + sp_s sp) 64) with true
          by (symmetry; apply N.ltb_lt; lia).
        reflexivity.
      * rewrite N.mod_pow2_bits_high by exact Hj.
        replace (i - sp_p sp <? N.min (sp_m sp + sp_s sp) 64) with false
          by (symmetry; apply N.ltb_ge; lia).
        reflexivity.
    + rewrite N.mod_pow2_bits_high by exact Hi. simpl.
      destruct (N.ltb_spec i (sp_p sp)) as [Hip|Hip]; [reflexivity|].
      destruct (N.lt_ge_cases (i - sp_p sp) (sp_s sp + sp_m sp)) as [Hj|Hj].
      * rewrite N.mod_pow2_bits_low by exact Hj. rewrite N.div_pow2_bits.
        replace (i - sp_p sp + sp_p sp) with i by lia.
        symmetry. apply (testbit_high id 64 i Hid Hi).
      * rewrite N.mod_pow2_bits_high by exact Hj. reflexivity.
Qed.

(* ================================================================== *)
(* 2. association lists                                                *)
(* ================================================================== *)

Lemma alookup_aremove : forall {V} (k k' : N) (l : list (N * V)),
  alookup k' (aremove k l) = if k =? k' then None else alookup k' l.
Proof.
  intros V k k' l. induction l as [|[k0 v] r IH]; simpl.
  - destruct (k =? k'); reflexivity.
  - destruct (N.eqb_spec k0 k) as [E|E].
    + subst k0. rewrite IH. destruct (N.eqb_spec k k'); reflexivity.
    + simpl. rewrite IH. destruct (N.eqb_spec k0 k') as [E'|E'].
      * subst k0. destruct (N.eqb_spec k k'); [congruence | reflexivity].
      * reflexivity.
Qed.

Lemma alookup_aset : forall {V} (k k' : N) (v : V) (l : list (N * V)),
  alookup k' (aset k v l) = if k =? k' then Some v else alookup k' l.
Proof.
  intros V k k' v l. unfold aset. simpl. rewrite alookup_aremove.
  destruct (k =? k'); reflexivity.
Qed.

Lemma aremove_absent : forall {V} (k : N) (l : list (N * V)),
  alookup k l = None -> aremove k l = l.
Proof.
  intros V k l. induction l as [|[k0 v] r IH]; simpl; [reflexivity|].
  destruct (N.eqb_spec k0 k); [discriminate|]. intro H. rewrite IH by exact H. reflexivity.
Qed.

Lemma length_aremove_le : forall {V} (k : N) (l : list (N * V)),
  (length (aremove k l) <= length l)%nat.
Proof.
  intros V k l. induction l as [|[k0 v] r IH]; simpl; [lia|].
  destruct (k0 =? k); simpl; lia.
Qed.

Lemma length_aremove_lt : forall {V} (k : N) (l : list (N * V)) v,
  alookup k l = Some v -> (length (aremove k l) < length l)%nat.
Proof.
  intros V k l. induction l as [|[k0 v0] r IH]; simpl; [discriminate|].
  intros v. destruct (N.eqb_spec k0 k).
  - intros _. pose proof (length_aremove_le k r). lia.
  - intro H. specialize (IH _ H). simpl. lia.
Qed.

Lemma in_akeys_alookup : forall {V} (k : N) (l : list (N * V)),
  In k (akeys l) <-> alookup k l <> None.
Proof.
  intros V k l. induction l as [|[k0 v] r IH]; simpl.
  - split; [tauto | congruence].
  - destruct (N.eqb_spec k0 k) as [E|E].
    + split; [discriminate | intros _; left; exact E].
    + rewrite <- IH. split; [intros [H|H]; [contradiction | exact H] | intro H; right; exact H].
Qed.

Lemma maxN_ge : forall l x, In x l -> x <= maxN l.
Proof.
  induction l as [|y r IH]; simpl; [tauto|].
  intros x [->|H]; [lia | specialize (IH x H); lia].
Qed.

Lemma with_pend_same : forall st, with_pend st (ms_pend st) = st.
Proof. destruct st; reflexivity. Qed.

Lemma sub64_small : forall a b, b <= a -> a < 2 ^ 64 -> sub64 a b = a - b.
Proof.
  intros a b Hb Ha. unfold sub64. rewrite two64_eq.
  rewrite (N.mod_small b) by lia.
  replace (a + 2 ^ 64 - b) with ((a - b) + 1 * 2 ^ 64) by lia.
  rewrite N.mod_add by (apply pow2_nz). apply N.mod_small. lia.
Qed.

(* ================================================================== *)
(* 3. the reorder-buffer invariant                                     *)
(* ================================================================== *)

Lemma flat_map_ext_in' : forall {A B} (f g : A -> list B) l,
  (forall a, In a l -> f a = g a) -> flat_map f l = flat_map g l.
Proof.
  intros A B f g l. induction l as [|x r IH]; simpl; intro H; [reflexivity|].
  rewrite (H x) by (left; reflexivity). rewrite IH by (intros a Ha; apply H; right; exact Ha).
  reflexivity.
Qed.

Lemma seq_snoc : forall a, seq 0 (S a) = seq 0 a ++ [a].
Proof. intro a. rewrite seq_S. reflexivity. Qed.

Section Buffer.
Variable sp : sparams.
Variable enc : bytes -> bytes.
Variable K : N.
Notation P := (2 ^ sp_p sp).
Notation M := (2 ^ (sp_s sp + sp_m sp)).
Notation mb := (K * 2 ^ sp_p sp).
Hypothesis HK : K < M.
Hypothesis HB : cbits sp < 2 ^ 64.

Definition in_class (id : N) : Prop :=
  id < 2 ^ 64 /\ mbits sp id = mb /\ rank sp id + 1 < 2 ^ 64.
Definition sm_ok (sm : store_map) : Prop := forall id, In id (akeys sm) -> in_class id.

Definition idn (i : nat) : N := mk sp mb (N.of_nat i).

Definition top_ok (sm : store_map) (a : nat) : Prop :=
  a = O \/ exists id, In id (akeys sm) /\ N.of_nat a <= rank sp id + 1.

Record Inv (sm : store_map) (a : nat) (st : mini) : Prop := {
  inv_mask : ms_mask st = Some mb;
  inv_off : ms_off st = 0;
  inv_app : ms_app st = N.of_nat a;
  inv_last : ms_last st = match a with O => 0 | S j => idn j end;
  inv_hdr : ms_hdr st = chdr sp enc sm mb 0 a;
  inv_data : ms_data st = cdata sp enc sm mb a;
  inv_pend : forall id, alookup id (ms_pend st) =
               if rank sp id <? N.of_nat a then None else option_map enc (alookup id sm);
  inv_top : top_ok sm a }.

Lemma Hms : sp_m sp + sp_s sp < 2 ^ 64.
Proof. unfold cbits in HB. lia. Qed.

Lemma rank_idn : forall i, rank sp (idn i) = N.of_nat i.
Proof. intro i. unfold idn. apply rank_mk. exact HK. Qed.

Lemma idn_mono : forall i j, (i < j)%nat -> idn i < idn j.
Proof. intros i j H. unfold idn. apply mk_mono; [exact HK | lia]. Qed.

Lemma idn_inj : forall i j, idn i = idn j -> i = j.
Proof. intros i j H. apply mk_inj in H; [lia | exact HK]. Qed.

Lemma class_idn : forall id, in_class id -> id = idn (N.to_nat (rank sp id)).
Proof.
  intros id (_ & Hc & _). unfold idn. rewrite N2Nat.id. apply in_class_mk. exact Hc.
Qed.

Lemma class_bound : forall id a, in_class id -> N.of_nat a <= rank sp id ->
  idn a <= id /\ idn a < 2 ^ 64 /\ N.of_nat a + 1 < 2 ^ 64.
Proof.
  intros id a Hc Hr. pose proof (class_idn id Hc) as E. destruct Hc as (Hlt & _ & Hr1).
  assert (idn a <= id).
  { rewrite E. unfold idn. apply mk_mono_le; [exact HK | lia]. }
  repeat split; lia.
Qed.

Lemma next_is : forall sm a st, Inv sm a st -> idn a < 2 ^ 64 -> ms_next sp st = idn a.
Proof.
  intros sm a st I Hlt. unfold ms_next, mask_val. rewrite (inv_mask _ _ _ I), (inv_app _ _ _ I).
  apply next_cmc_is_mk; assumption.
Qed.

Lemma pend_key : forall sm a st k c, Inv sm a st -> sm_ok sm ->
  alookup k (ms_pend st) = Some c ->
  in_class k /\ N.of_nat a <= rank sp k /\ exists b, alookup k sm = Some b /\ c = enc b.
Proof.
  intros sm a st k c I Hok Hl. rewrite (inv_pend _ _ _ I) in Hl.
  destruct (N.ltb_spec (rank sp k) (N.of_nat a)) as [H|H]; [discriminate|].
  destruct (alookup k sm) as [b|] eqn:Eb; [|discriminate].
  simpl in Hl. injection Hl as <-.
  assert (Hin : In k (akeys sm)) by (apply in_akeys_alookup; congruence).
  repeat split; try (apply Hok; exact Hin); try lia. exists b. split; reflexivity.
Qed.

(* canonical lists: extension by one entry, dependence on the map *)
Lemma chdr_S : forall sm off a,
  chdr sp enc sm mb off (S a) =
  chdr sp enc sm mb off a ++ [cdelta sp mb a; if (a =? 0)%nat then off else 0; lenN (cpay sp enc sm mb a)].
Proof. intros. unfold chdr. rewrite seq_snoc, flat_map_app. simpl. reflexivity. Qed.

Lemma cdata_S : forall sm a,
  cdata sp enc sm mb (S a) = cdata sp enc sm mb a ++ cpay sp enc sm mb a.
Proof. intros. unfold cdata. rewrite seq_snoc, flat_map_app. simpl. rewrite app_nil_r. reflexivity. Qed.

Lemma cpay_agree : forall sm sm' i,
  alookup (idn i) sm' = alookup (idn i) sm -> cpay sp enc sm' mb i = cpay sp enc sm mb i.
Proof. intros sm sm' i H. unfold cpay. fold (idn i). rewrite H. reflexivity. Qed.

Lemma canon_agree : forall sm sm' off a,
  (forall i, (i < a)%nat -> alookup (idn i) sm' = alookup (idn i) sm) ->
  chdr sp enc sm' mb off a = chdr sp enc sm mb off a /\
  cdata sp enc sm' mb a = cdata sp enc sm mb a.
Proof.
  intros sm sm' off a H. unfold chdr, cdata. split.
  - apply flat_map_ext_in'. intros i Hi. apply in_seq in Hi.
    rewrite (cpay_agree sm sm' i) by (apply H; lia). reflexivity.
  - apply flat_map_ext_in'. intros i Hi. apply in_seq in Hi.
    apply cpay_agree, H. lia.
Qed.

(* one append at the expected identifier keeps the invariant *)
Lemma append_inv : forall sm sm' a st,
  Inv sm a st -> sm_ok sm' ->
  idn a < 2 ^ 64 -> N.of_nat a + 1 < 2 ^ 64 ->
  (forall id, id <> idn a -> alookup id sm' = alookup id sm) ->
  (exists id, In id (akeys sm') /\ N.of_nat a <= rank sp id) ->
  Inv sm' (S a)
      (ms_append (with_pend st (aremove (idn a) (ms_pend st))) (cpay sp enc sm' mb a) (idn a)).
Proof.
  intros sm sm' a st I Hok Hlt Ha Hag Htop.
  assert (Hagi : forall i, (i < a)%nat -> alookup (idn i) sm' = alookup (idn i) sm).
  { intros i Hi. apply Hag. intro E. apply idn_inj in E. lia. }
  destruct (canon_agree sm sm' 0 a Hagi) as [Eh Ed].
  constructor; cbn [ms_mask ms_off ms_app ms_last ms_hdr ms_data ms_pend ms_append with_pend].
  - apply (inv_mask _ _ _ I).
  - apply (inv_off _ _ _ I).
  - rewrite (inv_app _ _ _ I). unfold add64. rewrite two64_eq, N.mod_small by lia. lia.
  - reflexivity.
  - rewrite chdr_S, Eh, (inv_hdr _ _ _ I), (inv_last _ _ _ I), (inv_app _ _ _ I), (inv_off _ _ _ I).
    f_equal. f_equal; [|f_equal].
    + destruct a as [|j]; unfold cdelta.
      * rewrite sub64_small by (try exact Hlt; lia). unfold idn. change (N.of_nat 0) with 0.
        apply N.sub_0_r.
      * fold (idn j). fold (idn (S j)). apply sub64_small; [|exact Hlt].
        apply N.lt_le_incl, idn_mono. lia.
    + destruct (N.of_nat a =? 0); destruct (a =? 0)%nat; reflexivity.
  - rewrite cdata_S, Ed, (inv_data _ _ _ I). reflexivity.
  - intro id. rewrite alookup_aremove, (inv_pend _ _ _ I).
    destruct (N.eqb_spec (idn a) id) as [E|E].
    + subst id. rewrite rank_idn.
      destruct (N.ltb_spec (N.of_nat a) (N.of_nat (S a))); [reflexivity | lia].
    + rewrite (Hag id) by congruence.
      destruct (N.ltb_spec (rank sp id) (N.of_nat a)) as [H1|H1];
        destruct (N.ltb_spec (rank sp id) (N.of_nat (S a))) as [H2|H2]; try reflexivity; try lia.
      (* rank exactly a but another identifier: not in the map *)
      destruct (alookup id sm) as [b|] eqn:Eb; [|reflexivity]. exfalso.
      assert (Hin : In id (akeys sm')).
      { apply in_akeys_alookup. rewrite (Hag id) by congruence. congruence. }
      pose proof (class_idn id (Hok id Hin)) as Eid.
      assert (rank sp id = N.of_nat a) by lia.
      apply E. rewrite Eid. f_equal. lia.
  - right. destruct Htop as (id & Hin & Hr). exists id. split; [exact Hin | lia].
Qed.


Definition FC (sm : store_map) (a : nat) : Prop := alookup (idn a) sm = None.
Definition NoGaps (sm : store_map) (a : nat) : Prop :=
  forall i, (i < a)%nat -> alookup (idn i) sm <> None.

Lemma sm_lookup_lt : forall sm id, sm_ok sm -> alookup id sm <> None -> in_class id.
Proof. intros sm id Hok H. apply Hok. apply in_akeys_alookup. exact H. Qed.

(* when next_cmc is not found in the buffer, the next rank is not in the map *)
Lemma fc_of_lookup : forall sm a st, Inv sm a st -> sm_ok sm ->
  alookup (ms_next sp st) (ms_pend st) = None -> FC sm a.
Proof.
  intros sm a st I Hok Hn. unfold FC.
  destruct (alookup (idn a) sm) as [b|] eqn:Eb; [|reflexivity]. exfalso.
  assert (Hc : in_class (idn a)) by (apply (sm_lookup_lt sm); [exact Hok | congruence]).
  destruct Hc as (Hlt & _ & _).
  rewrite (next_is sm a st I Hlt) in Hn. rewrite (inv_pend _ _ _ I), rank_idn in Hn.
  destruct (N.ltb_spec (N.of_nat a) (N.of_nat a)); [lia|]. rewrite Eb in Hn. discriminate.
Qed.

Lemma flush_loop_inv : forall fuel sm a st,
  Inv sm a st -> sm_ok sm -> (length (ms_pend st) <= fuel)%nat ->
  exists a' st', flush_loop sp fuel st = (st', Ok tt) /\ Inv sm a' st' /\ (a <= a')%nat /\
                 FC sm a' /\ (forall i, (a <= i < a')%nat -> alookup (idn i) sm <> None).
Proof.
  induction fuel as [|f IH]; intros sm a st I Hok Hlen.
  - cbn [flush_loop].
    destruct (alookup (ms_next sp st) (ms_pend st)) as [b|] eqn:E.
    + destruct (ms_pend st); [discriminate | simpl in Hlen; lia].
    + exists a, st. split; [reflexivity|]. split; [exact I|]. split; [lia|].
      split; [eapply fc_of_lookup; eassumption | intros i Hi; lia].
  - cbn [flush_loop].
    destruct (alookup (ms_next sp st) (ms_pend st)) as [b|] eqn:E.
    + destruct (pend_key sm a st _ _ I Hok E) as (Hc & Hr & b0 & Eb0 & ->).
      destruct (class_bound _ a Hc Hr) as (Hle & Hlt & Ha).
      pose proof (next_is sm a st I Hlt) as Enx. rewrite Enx in *.
      (* the found identifier has rank exactly a *)
      assert (Hcp : cpay sp enc sm mb a = enc b0).
      { unfold cpay. fold (idn a). rewrite Eb0. reflexivity. }
      rewrite <- Hcp.
      assert (I2 : Inv sm (S a) (ms_append (with_pend st (aremove (idn a) (ms_pend st)))
                                           (cpay sp enc sm mb a) (idn a))).
      { apply append_inv with (sm := sm); try assumption.
        - intros; reflexivity.
        - exists (idn a). split; [apply in_akeys_alookup; congruence | rewrite rank_idn; lia]. }
      destruct (IH sm (S a) _ I2 Hok) as (a' & st' & Ef & I' & Hle' & Hfc & Hng).
      { cbn [ms_pend ms_append with_pend]. pose proof (length_aremove_lt _ _ _ E). lia. }
      exists a', st'. split; [exact Ef|]. split; [exact I'|]. split; [lia|]. split; [exact Hfc|].
      intros i Hi. destruct (Nat.eq_dec i a) as [->|Hne]; [congruence | apply Hng; lia].
    + exists a, st. split; [reflexivity|]. split; [exact I|]. split; [lia|].
      split; [eapply fc_of_lookup; eassumption | intros i Hi; lia].
Qed.

Lemma flush_buffer_inv : forall sm a st,
  Inv sm a st -> sm_ok sm ->
  exists a' st', flush_buffer sp st = (st', Ok tt) /\ Inv sm a' st' /\ (a <= a')%nat /\
                 FC sm a' /\ (forall i, (a <= i < a')%nat -> alookup (idn i) sm <> None).
Proof.
  intros sm a st I Hok. unfold flush_buffer. rewrite (inv_mask _ _ _ I).
  destruct (flush_loop_inv (length (ms_pend st)) sm a st I Hok (le_n _))
    as (a' & st' & Ef & I' & Hle & Hfc & Hng).
  rewrite Ef.
  assert (Hex : existsb (fun k => k <? ms_next sp st') (akeys (ms_pend st')) = false).
  { destruct (existsb _ _) eqn:Ex; [|reflexivity]. exfalso.
    apply existsb_exists in Ex. destruct Ex as (k & Hin & Hk).
    apply in_akeys_alookup in Hin.
    destruct (alookup k (ms_pend st')) as [c|] eqn:Ec; [|congruence].
    destruct (pend_key sm a' st' _ _ I' Hok Ec) as (Hc & Hr & _).
    destruct (class_bound _ a' Hc Hr) as (Hle' & Hlt & _).
    rewrite (next_is sm a' st' I' Hlt) in Hk. apply N.ltb_lt in Hk. lia. }
  rewrite Hex. exists a', st'. split; [reflexivity|]. split; [exact I'|]. split; [exact Hle|].
  split; assumption.
Qed.

Lemma with_mask_same : forall st x, ms_mask st = Some x -> with_mask st x = st.
Proof. intros [] x H; simpl in *. subst. reflexivity. Qed.

Lemma in_class_not_lt : forall sm a id, NoGaps sm a -> in_class id -> alookup id sm = None ->
  N.of_nat a <= rank sp id.
Proof.
  intros sm a id Hng Hc Hn. destruct (N.le_gt_cases (N.of_nat a) (rank sp id)) as [H|H]; [exact H|].
  exfalso. apply (Hng (N.to_nat (rank sp id))); [lia|]. rewrite <- (class_idn id Hc). exact Hn.
Qed.

(* one store of a new identifier of the class *)
Lemma store_inv : forall sm a st id buf,
  (ms_mask st = None \/ ms_mask st = Some mb) ->
  Inv sm a (with_mask st mb) -> sm_ok sm -> FC sm a -> NoGaps sm a ->
  in_class id -> alookup id sm = None ->
  exists a' st', ms_store sp enc st buf id = (st', Ok tt) /\
                 Inv ((id, buf) :: sm) a' st' /\ sm_ok ((id, buf) :: sm) /\
                 FC ((id, buf) :: sm) a' /\ NoGaps ((id, buf) :: sm) a'.
Proof.
  intros sm a st id buf Hm I Hok Hfc Hng Hc Hnew.
  set (sm' := (id, buf) :: sm).
  assert (Hok' : sm_ok sm').
  { intros k [<-|Hk]; [exact Hc | apply Hok; exact Hk]. }
  assert (Hmb : (match ms_mask st with
                 | Some x => if x =? 0 then masked_of sp id else x
                 | None => masked_of sp id end) = mb).
  { destruct Hc as (Hlt & Hcl & _).
    pose proof (masked_of_is_mbits sp id Hlt Hms) as Em. rewrite Hcl in Em.
    destruct Hm as [-> | ->]; [exact Em|].
    destruct (N.eqb_spec mb 0) as [E0|E0]; [rewrite Em; reflexivity | reflexivity]. }
  unfold ms_store. rewrite Hmb. set (st1 := with_mask st mb) in *.
  pose proof (in_class_not_lt sm a id Hng Hc Hnew) as Hr.
  destruct (class_bound id a Hc Hr) as (Hle & Hlt & Ha).
  rewrite (next_is sm a st1 I Hlt).
  destruct (N.ltb_spec id (idn a)) as [Hbad|_]; [lia|].
  assert (Hlk : forall k, k <> id -> alookup k sm' = alookup k sm).
  { intros k Hk. unfold sm'. simpl. destruct (N.eqb_spec id k); [congruence | reflexivity]. }
  destruct (N.eqb_spec (idn a) id) as [E|E].
  - (* appended at once, then the buffer is flushed *)
    assert (Hpn : alookup (idn a) (ms_pend st1) = None).
    { rewrite (inv_pend _ _ _ I), rank_idn.
      destruct (N.ltb_spec (N.of_nat a) (N.of_nat a)); [reflexivity|]. rewrite Hfc. reflexivity. }
    assert (Hcp : cpay sp enc sm' mb a = enc buf).
    { unfold cpay. fold (idn a). rewrite E. unfold sm'. simpl. rewrite N.eqb_refl. reflexivity. }
    assert (I2 : Inv sm' (S a) (ms_append st1 (enc buf) id)).
    { rewrite <- Hcp, <- E. rewrite <- (with_pend_same st1) at 1.
      rewrite <- (aremove_absent (idn a) (ms_pend st1) Hpn) at 1.
      apply append_inv with (sm := sm); try assumption.
      - intros k Hk. apply Hlk. congruence.
      - exists id. split; [left; reflexivity | lia]. }
    destruct (flush_buffer_inv sm' (S a) _ I2 Hok') as (a' & st' & Ef & I' & Hle' & Hfc' & Hng').
    exists a', st'. split; [exact Ef|]. split; [exact I'|]. split; [exact Hok'|]. split; [exact Hfc'|].
    intros i Hi. destruct (lt_eq_lt_dec i a) as [[Hlt' | ->] | Hgt].
    + rewrite Hlk; [apply Hng; exact Hlt'|]. intro Ei. rewrite <- E in Ei. apply idn_inj in Ei. lia.
    + rewrite E. unfold sm'. simpl. rewrite N.eqb_refl. discriminate.
    + apply Hng'. lia.
  - (* ahead of the expected identifier: buffered *)
    assert (Hra : N.of_nat a < rank sp id).
    { destruct (N.eq_dec (rank sp id) (N.of_nat a)) as [Er|Er]; [|lia].
      exfalso. apply E. rewrite (class_idn id Hc), Er, Nat2N.id. reflexivity. }
    assert (Hagi : forall i, (i < a)%nat -> alookup (idn i) sm' = alookup (idn i) sm).
    { intros i Hi. apply Hlk. intro Ei. pose proof (rank_idn i) as Ri. rewrite Ei in Ri. lia. }
    destruct (canon_agree sm sm' 0 a Hagi) as [Eh Ed].
    exists a, (with_pend st1 (aset id (enc buf) (ms_pend st1))).
    split; [reflexivity|]. split; [|split; [exact Hok'|split]].
    + constructor; cbn [ms_mask ms_off ms_app ms_last ms_hdr ms_data ms_pend with_pend].
      * apply (inv_mask _ _ _ I).
      * apply (inv_off _ _ _ I).
      * apply (inv_app _ _ _ I).
      * apply (inv_last _ _ _ I).
      * rewrite Eh. apply (inv_hdr _ _ _ I).
      * rewrite Ed. apply (inv_data _ _ _ I).
      * intro k. rewrite alookup_aset, (inv_pend _ _ _ I).
        destruct (N.eqb_spec id k) as [<-|Hk].
        -- destruct (N.ltb_spec (rank sp id) (N.of_nat a)); [lia|].
           unfold sm'. simpl. rewrite N.eqb_refl. reflexivity.
        -- rewrite (Hlk k) by congruence. reflexivity.
      * destruct (inv_top _ _ _ I) as [->|(k & Hin & Hk)]; [left; reflexivity|].
        right. exists k. split; [right; exact Hin | exact Hk].
    + unfold FC. rewrite Hlk by exact E. exact Hfc.
    + intros i Hi. destruct (N.eq_dec (idn i) id) as [Ei|Ei].
      * rewrite Ei. unfold sm'. simpl. rewrite N.eqb_refl. discriminate.
      * rewrite Hlk by exact Ei. apply Hng. exact Hi.
Qed.


(* gap filling *)
Lemma close_loop_inv : forall fuel sm a st,
  Inv sm a st -> sm_ok sm -> FC sm a ->
  (forall k, In k (akeys (ms_pend st)) -> rank sp k < N.of_nat a + N.of_nat fuel) ->
  exists a' st', close_loop sp fuel st = (st', Ok tt) /\ Inv sm a' st' /\ ms_pend st' = [].
Proof.
  induction fuel as [|f IH]; intros sm a st I Hok Hfc Hb.
  - cbn [close_loop]. destruct (ms_pend st) as [|[k0 c0] r] eqn:Ep.
    + exists a, st. split; [reflexivity|]. split; [exact I | exact Ep].
    + exfalso.
      assert (E0 : alookup k0 (ms_pend st) = Some c0) by (rewrite Ep; simpl; rewrite N.eqb_refl; reflexivity).
      destruct (pend_key sm a st _ _ I Hok E0) as (_ & Hr & _).
      specialize (Hb k0 (or_introl eq_refl)). simpl in Hb. lia.
  - cbn [close_loop]. destruct (ms_pend st) as [|[k0 c0] r] eqn:Ep.
    + exists a, st. split; [reflexivity|]. split; [exact I | exact Ep].
    + assert (E0 : alookup k0 (ms_pend st) = Some c0) by (rewrite Ep; simpl; rewrite N.eqb_refl; reflexivity).
      destruct (pend_key sm a st _ _ I Hok E0) as (Hc & Hr & _).
      destruct (class_bound _ a Hc Hr) as (Hle & Hlt & Ha).
      rewrite (next_is sm a st I Hlt).
      assert (Hpn : alookup (idn a) (ms_pend st) = None).
      { rewrite (inv_pend _ _ _ I), rank_idn.
        destruct (N.ltb_spec (N.of_nat a) (N.of_nat a)); [reflexivity|]. rewrite Hfc. reflexivity. }
      assert (Hcp : cpay sp enc sm mb a = []).
      { unfold cpay. fold (idn a). rewrite Hfc. reflexivity. }
      assert (I2 : Inv sm (S a) (ms_append st [] (idn a))).
      { rewrite <- Hcp. rewrite <- (with_pend_same st) at 1.
        rewrite <- (aremove_absent (idn a) (ms_pend st) Hpn) at 1.
        apply append_inv with (sm := sm); try assumption.
        - intros; reflexivity.
        - exists k0. split; [|exact Hr].
          apply in_akeys_alookup. rewrite (inv_pend _ _ _ I) in E0.
          destruct (rank sp k0 <? N.of_nat a); [discriminate|].
          destruct (alookup k0 sm); [discriminate | discriminate]. }
      destruct (flush_buffer_inv sm (S a) _ I2 Hok) as (a3 & st3 & Ef & I3 & Hle3 & Hfc3 & _).
      rewrite Ef.
      apply (IH sm a3 st3 I3 Hok Hfc3).
      intros k Hk. apply in_akeys_alookup in Hk.
      destruct (alookup k (ms_pend st3)) as [c|] eqn:Ec; [|congruence].
      destruct (pend_key sm a3 st3 _ _ I3 Hok Ec) as (_ & Hr3 & b & Eb & _).
      assert (Hin : In k (akeys (ms_pend st))).
      { apply in_akeys_alookup. rewrite (inv_pend _ _ _ I).
        destruct (N.ltb_spec (rank sp k) (N.of_nat a)); [lia|]. rewrite Eb. discriminate. }
      rewrite Ep in Hin. specialize (Hb k Hin). lia.
Qed.

Lemma close_inv : forall sm a st,
  Inv sm a st -> sm_ok sm ->
  exists a' st', ms_close sp st = (st', Ok tt) /\ Inv sm a' st' /\ ms_pend st' = [].
Proof.
  intros sm a st I Hok. unfold ms_close.
  destruct (flush_buffer_inv sm a st I Hok) as (a1 & st1 & Ef & I1 & _ & Hfc1 & _).
  rewrite Ef. apply (close_loop_inv _ sm a1 st1 I1 Hok Hfc1).
  intros k Hk. unfold close_fuel. rewrite (inv_app _ _ _ I1).
  assert (Hm : rank sp k <= maxN (map (rank sp) (akeys (ms_pend st1))))
    by (apply maxN_ge, in_map, Hk).
  rewrite Nat2N.inj_succ, N2Nat.id.
  match goal with |- context [?x - N.of_nat a1 + ?c] => generalize c end. intro cyc. lia.
Qed.

(* number of entries after close = highest stored rank + 1 *)
Lemma closed_count : forall sm a st,
  Inv sm a st -> ms_pend st = [] -> sm <> [] -> a = ccount sp sm.
Proof.
  intros sm a st I Hp Hne.
  assert (Hall : forall id, In id (akeys sm) -> rank sp id < N.of_nat a).
  { intros id Hin. apply in_akeys_alookup in Hin.
    pose proof (inv_pend _ _ _ I id) as E. rewrite Hp in E. simpl in E.
    destruct (N.ltb_spec (rank sp id) (N.of_nat a)) as [H|H]; [exact H|].
    destruct (alookup id sm); [discriminate | congruence]. }
  unfold ccount. set (mx := maxN (map (rank sp) (akeys sm))).
  assert (Hmx : mx < N.of_nat a).
  { destruct sm as [|[k0 v0] r]; [congruence|].
    assert (Hin : forall l, (forall x, In x l -> x < N.of_nat a) -> l <> [] -> maxN l < N.of_nat a).
    { induction l as [|y l' IHl]; [congruence|]. intros Hl _. simpl.
      destruct l' as [|z l'']; [simpl; specialize (Hl y (or_introl eq_refl)); lia|].
      assert (maxN (z :: l'') < N.of_nat a) by (apply IHl; [intros x Hx; apply Hl; right; exact Hx | discriminate]).
      specialize (Hl y (or_introl eq_refl)). lia. }
    apply Hin; [|discriminate].
    intros x Hx. apply in_map_iff in Hx. destruct Hx as (id & <- & Hid). apply Hall. exact Hid. }
  destruct (inv_top _ _ _ I) as [->|(id & Hin & Hle)]; [simpl in Hmx; lia|].
  assert (rank sp id <= mx) by (apply maxN_ge, in_map, Hin).
  lia.
Qed.

(* ---------- a whole store sequence ---------- *)
Lemma run_inv : forall ops sm a st,
  (ms_mask st = None \/ ms_mask st = Some mb) ->
  Inv sm a (with_mask st mb) -> sm_ok sm -> FC sm a -> NoGaps sm a ->
  NoDup (map fst ops) ->
  (forall id, In id (map fst ops) -> in_class id /\ alookup id sm = None) ->
  exists a' st', ms_run sp enc st ops = (st', map (fun _ => Ok tt) ops) /\
                 (ops <> [] -> ms_mask st' = Some mb) /\
                 (ms_mask st' = None \/ ms_mask st' = Some mb) /\
                 Inv (rev ops ++ sm) a' (with_mask st' mb) /\ sm_ok (rev ops ++ sm).
Proof.
  induction ops as [|[id buf] r IH]; intros sm a st Hm I Hok Hfc Hng Hnd Hnew.
  - exists a, st. simpl. split; [reflexivity|]. split; [congruence|]. split; [exact Hm|].
    split; assumption.
  - simpl in Hnd. inversion Hnd as [|x l Hnotin Hnd']; subst.
    destruct (Hnew id (or_introl eq_refl)) as (Hc & Hn).
    destruct (store_inv sm a st id buf Hm I Hok Hfc Hng Hc Hn)
      as (a1 & st1 & Es & I1 & Hok1 & Hfc1 & Hng1).
    assert (Hm1 : ms_mask st1 = Some mb) by (apply (inv_mask _ _ _ I1)).
    destruct (IH ((id, buf) :: sm) a1 st1) as (a' & st' & Er & Hmk & Hm' & I' & Hok'); try assumption.
    + right. exact Hm1.
    + rewrite (with_mask_same st1 mb Hm1). exact I1.
    + intros k Hk. split; [apply Hnew; right; exact Hk|].
      simpl. destruct (N.eqb_spec id k) as [->|]; [contradiction|].
      apply Hnew. right. exact Hk.
    + exists a', st'. cbn [ms_run]. rewrite Es, Er. split; [reflexivity|].
      cbn [rev]. rewrite <- app_assoc. cbn [app].
      split; [|split; [exact Hm'|split; assumption]].
      intros _. destruct r as [|o r'].
      * simpl in Er. injection Er as <-. exact Hm1.
      * apply Hmk. discriminate.
Qed.

End Buffer.

(* ================================================================== *)
(* 4. the closed minishard is a function of the stored SET             *)
(* ================================================================== *)

Lemma alookup_perm : forall {V} (l1 l2 : list (N * V)) k,
  Permutation l1 l2 -> NoDup (akeys l1) -> alookup k l1 = alookup k l2.
Proof.
  intros V l1 l2 k Hp. induction Hp as [| [k0 v0] l l' Hp IH | [k1 v1] [k2 v2] l | l l' l'' H1 IH1 H2 IH2];
    intro Hnd.
  - reflexivity.
  - simpl in *. inversion Hnd; subst. rewrite IH by assumption. reflexivity.
  - simpl in *. inversion Hnd as [|? ? Hn1 Hnd']; subst.
    destruct (N.eqb_spec k2 k) as [E2|E2]; destruct (N.eqb_spec k1 k) as [E1|E1]; try reflexivity.
    exfalso. apply Hn1. left. congruence.
  - rewrite IH1 by assumption. apply IH2.
    unfold akeys in *. eapply Permutation_NoDup; [apply Permutation_map; exact H1 | exact Hnd].
Qed.

Lemma maxN_perm : forall l1 l2, Permutation l1 l2 -> maxN l1 = maxN l2.
Proof. intros l1 l2 Hp. induction Hp; simpl; lia. Qed.

Lemma ccount_perm : forall sp (l1 l2 : store_map), Permutation l1 l2 -> ccount sp l1 = ccount sp l2.
Proof.
  intros sp l1 l2 Hp. unfold ccount. f_equal. f_equal. apply maxN_perm.
  unfold akeys. apply Permutation_map, Permutation_map. exact Hp.
Qed.

Lemma canon_ext : forall sp enc (sm sm' : store_map) mbv off a,
  (forall k, alookup k sm' = alookup k sm) ->
  chdr sp enc sm' mbv off a = chdr sp enc sm mbv off a /\
  cdata sp enc sm' mbv a = cdata sp enc sm mbv a.
Proof.
  intros sp enc sm sm' mbv off a H.
  assert (Hc : forall i, cpay sp enc sm' mbv i = cpay sp enc sm mbv i)
    by (intro i; unfold cpay; rewrite H; reflexivity).
  unfold chdr, cdata. split; apply flat_map_ext; intro i; rewrite Hc; reflexivity.
Qed.

(* the state of a MiniShard object after close(), as a function of the stored set *)
Definition closed_mini (sp : sparams) (enc : bytes -> bytes) (mbv : N) (sm : store_map) : mini :=
  let n := ccount sp sm in
  {| ms_off := 0; ms_app := N.of_nat n;
     ms_last := mk sp mbv (N.of_nat (Nat.pred n));
     ms_pend := [];
     ms_data := cdata sp enc sm mbv n;
     ms_hdr := chdr sp enc sm mbv 0 n;
     ms_mask := Some mbv |}.

Lemma closed_mini_perm : forall sp enc mbv (l1 l2 : store_map),
  Permutation l1 l2 -> NoDup (akeys l1) -> closed_mini sp enc mbv l1 = closed_mini sp enc mbv l2.
Proof.
  intros sp enc mbv l1 l2 Hp Hnd. unfold closed_mini.
  rewrite (ccount_perm sp l1 l2 Hp).
  destruct (canon_ext sp enc l2 l1 mbv 0 (ccount sp l2)) as [Eh Ed].
  { intro k. apply alookup_perm; assumption. }
  rewrite Eh, Ed. reflexivity.
Qed.

Theorem mini_close_canonical : forall sp enc K ops,
  K < 2 ^ (sp_s sp + sp_m sp) -> cbits sp < 2 ^ 64 ->
  ops <> [] -> NoDup (map fst ops) ->
  (forall id, In id (map fst ops) -> in_class sp K id) ->
  exists st,
    ms_run sp enc ms_init ops = (st, map (fun _ => Ok tt) ops) /\
    ms_close sp st = (closed_mini sp enc (K * 2 ^ sp_p sp) ops, Ok tt).
Proof.
  intros sp enc K ops HK HB Hne Hnd Hcl.
  assert (I0 : Inv sp enc K [] 0 (with_mask ms_init (K * 2 ^ sp_p sp))).
  { constructor; try reflexivity.
    - intro id. simpl. destruct (rank sp id <? 0); reflexivity.
    - left. reflexivity. }
  destruct (run_inv sp enc K HK HB ops [] 0 ms_init) as (a & st & Er & Hmk & _ & I & Hok); try assumption.
  - left. reflexivity.
  - intros id [].
  - reflexivity.
  - intros i Hi. lia.
  - intros id Hin. split; [apply Hcl; exact Hin | reflexivity].
  - rewrite app_nil_r in *. specialize (Hmk Hne).
    rewrite (with_mask_same st _ Hmk) in I.
    destruct (close_inv sp enc K HK HB (rev ops) a st I Hok) as (a' & st' & Ec & I' & Hp).
    exists st. split; [exact Er|]. rewrite Ec. f_equal.
    assert (Hrne : rev ops <> []).
    { intro E. apply Hne. rewrite <- (rev_involutive ops), E. reflexivity. }
    pose proof (closed_count sp enc K HK HB (rev ops) a' st' I' Hp Hrne) as Ea.
    rewrite <- (closed_mini_perm sp enc _ (rev ops) ops).
    2: { apply Permutation_sym, Permutation_rev. }
    2: { unfold akeys. rewrite map_rev. apply NoDup_rev. exact Hnd. }
    assert (Hz : a' <> O) by (rewrite Ea; unfold ccount; discriminate).
    unfold closed_mini. rewrite <- Ea.
    destruct st' as [off app last pend data hdr mask].
    pose proof (inv_off _ _ _ _ _ _ I') as E1. pose proof (inv_app _ _ _ _ _ _ I') as E2.
    pose proof (inv_last _ _ _ _ _ _ I') as E3. pose proof (inv_hdr _ _ _ _ _ _ I') as E4.
    pose proof (inv_data _ _ _ _ _ _ I') as E5. pose proof (inv_mask _ _ _ _ _ _ I') as E6.
    cbn [ms_off ms_app ms_last ms_hdr ms_data ms_mask ms_pend] in *.
    rewrite E1, E2, E3, E4, E5, E6, Hp.
    destruct a' as [|j]; [congruence|]. reflexivity.
Qed.

(* order independence at the level of one minishard *)
Theorem mini_order_independent : forall sp enc K ops1 ops2,
  K < 2 ^ (sp_s sp + sp_m sp) -> cbits sp < 2 ^ 64 ->
  ops1 <> [] -> NoDup (map fst ops1) ->
  (forall id, In id (map fst ops1) -> in_class sp K id) ->
  Permutation ops1 ops2 ->
  exists st1 st2 c,
    ms_run sp enc ms_init ops1 = (st1, map (fun _ => Ok tt) ops1) /\
    ms_run sp enc ms_init ops2 = (st2, map (fun _ => Ok tt) ops2) /\
    ms_close sp st1 = (c, Ok tt) /\ ms_close sp st2 = (c, Ok tt).
Proof.
  intros sp enc K ops1 ops2 HK HB Hne Hnd Hcl Hp.
  destruct (mini_close_canonical sp enc K ops1 HK HB Hne Hnd Hcl) as (st1 & E1 & C1).
  destruct (mini_close_canonical sp enc K ops2 HK HB) as (st2 & E2 & C2).
  - intro E. subst. apply Permutation_sym, Permutation_nil in Hp. congruence.
  - eapply Permutation_NoDup; [apply Permutation_map; exact Hp | exact Hnd].
  - intros id Hin. apply Hcl. eapply Permutation_in; [apply Permutation_sym, Permutation_map; exact Hp | exact Hin].
  - exists st1, st2, (closed_mini sp enc (K * 2 ^ sp_p sp) ops1).
    repeat split; try assumption.
    rewrite C2. f_equal. symmetry. apply closed_mini_perm; [exact Hp|]. exact Hnd.
Qed.

(* gap entries of the canonical minishard carry no bytes *)
Lemma gap_entries_empty : forall sp enc (sm : store_map) mbv i,
  alookup (mk sp mbv (N.of_nat i)) sm = None ->
  cpay sp enc sm mbv i = [] /\
  (forall off a, (i < a)%nat -> nth (3 * i + 2) (chdr sp enc sm mbv off a) 1 = 0).
Proof.
  intros sp enc sm mbv i Hn.
  assert (Hc : cpay sp enc sm mbv i = []) by (unfold cpay; rewrite Hn; reflexivity).
  split; [exact Hc|].
  intros off a Hi. unfold chdr.
  assert (Hgen : forall s0 n, (s0 <= i < s0 + n)%nat ->
            nth (3 * (i - s0) + 2)
                (flat_map (fun j => [cdelta sp mbv j; if (j =? 0)%nat then off else 0; lenN (cpay sp enc sm mbv j)])
                          (seq s0 n)) 1 = 0).
  { intros s0 n. revert s0. induction n as [|n IH]; intros s0 Hr; [lia|].
    cbn [seq flat_map]. destruct (Nat.eq_dec i s0) as [->|Hne].
    - replace (s0 - s0)%nat with 0%nat by lia. cbn. rewrite Hc. reflexivity.
    - replace (3 * (i - s0) + 2)%nat with (3 + (3 * (i - S s0) + 2))%nat by lia.
      cbn [app nth Nat.add]. apply IH. lia. }
  specialize (Hgen 0%nat a ltac:(lia)). rewrite Nat.sub_0_r in Hgen. exact Hgen.
Qed.

(* non-vacuity of the hypotheses of mini_close_canonical *)
Example mini_hyps_example :
  let sp := {| sp_m := 1; sp_s := 1; sp_p := 1 |} in
  let ops := [(13, [1; 2]); (4, []); (21, [3])] in
  1 < 2 ^ (sp_s sp + sp_m sp) /\ cbits sp < 2 ^ 64 /\ ops <> [] /\ NoDup (map fst ops) /\
  (forall id, In id (map fst ops) -> in_class sp 2 id) /\
  snd (ms_close sp (fst (ms_run sp (fun b => b) ms_init ops))) = Ok tt /\
  ms_hdr (fst (ms_close sp (fst (ms_run sp (fun b => b) ms_init ops)))) =
    [4; 0; 0;  1; 0; 0;  7; 0; 0;  1; 0; 2;  7; 0; 0;  1; 0; 1].
Proof.
  cbv zeta. split; [reflexivity|]. split; [reflexivity|]. split; [discriminate|].
  split; [repeat constructor; simpl; intuition discriminate|].
  split; [|split; vm_compute; reflexivity].
  intros id [<-|[<-|[<-|[]]]]; unfold in_class; vm_compute; repeat split; reflexivity.
Qed.
