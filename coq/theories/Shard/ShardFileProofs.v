(* Lifting the per-minishard result through the dictionaries of ShardedScale
   and Shard and through Shard.close: the files written by close() do not
   depend on the order of the stores. *)
From Coq Require Import NArith ZArith List Bool Lia Permutation Sorted.
From NGS Require Import Val Ints Morton MortonProofs ShardBytes MiniShard ShardFile ShardCanon
  MiniShardProofs.
Import ListNotations.
Open Scope N_scope.

(* ================================================================== *)
(* 1. dictionaries: keys, sorting                                      *)
(* ================================================================== *)

Definition map_vals {V W} (f : V -> W) (l : list (N * V)) : list (N * W) :=
  map (fun kv => (fst kv, f (snd kv))) l.

Lemma akeys_map_vals : forall {V W} (f : V -> W) l, akeys (map_vals f l) = akeys l.
Proof. intros. unfold akeys, map_vals. rewrite map_map. reflexivity. Qed.

Lemma alookup_map_vals : forall {V W} (f : V -> W) l k,
  alookup k (map_vals f l) = option_map f (alookup k l).
Proof.
  intros V W f l k. induction l as [|[k0 v] r IH]; simpl; [reflexivity|].
  destruct (k0 =? k); [reflexivity | exact IH].
Qed.

Lemma in_akeys_aremove : forall {V} (k x : N) (l : list (N * V)),
  In x (akeys (aremove k l)) <-> x <> k /\ In x (akeys l).
Proof.
  intros V k x l. rewrite !in_akeys_alookup, alookup_aremove.
  destruct (N.eqb_spec k x) as [E|E]; split; intro H.
  - congruence.
  - destruct H as [H _]. congruence.
  - split; [congruence | exact H].
  - apply H.
Qed.

Lemma nodup_aremove : forall {V} (k : N) (l : list (N * V)),
  NoDup (akeys l) -> NoDup (akeys (aremove k l)).
Proof.
  intros V k l. induction l as [|[k0 v] r IH]; simpl; intro H; [constructor|].
  inversion H as [|? ? Hn Hr]; subst. destruct (k0 =? k); [apply IH; exact Hr|].
  simpl. constructor; [|apply IH; exact Hr].
  intro Hin. apply in_akeys_aremove in Hin. apply Hn. apply Hin.
Qed.

Lemma nodup_aset : forall {V} (k : N) (v : V) (l : list (N * V)),
  NoDup (akeys l) -> NoDup (akeys (aset k v l)).
Proof.
  intros V k v l H. unfold aset. simpl. constructor; [|apply nodup_aremove; exact H].
  intro Hin. apply in_akeys_aremove in Hin. destruct Hin as [Hn _]. congruence.
Qed.

Lemma in_akeys_aset : forall {V} (k x : N) (v : V) (l : list (N * V)),
  In x (akeys (aset k v l)) <-> x = k \/ In x (akeys l).
Proof.
  intros V k x v l. unfold aset. simpl. rewrite in_akeys_aremove.
  destruct (N.eq_dec x k) as [->|E]; split; intro H; auto.
  - destruct H as [H|H]; [congruence | tauto].
  - destruct H as [H|H]; [congruence | tauto].
Qed.

(* insertion sort on keys *)
Lemma ins_sorted_map_vals : forall {V W} (f : V -> W) kv (l : list (N * V)),
  ins_sorted (fst kv, f (snd kv)) (map_vals f l) = map_vals f (ins_sorted kv l).
Proof.
  intros V W f kv l. induction l as [|kv' r IH]; simpl; [reflexivity|].
  destruct (fst kv <=? fst kv'); simpl; [reflexivity|]. rewrite IH. reflexivity.
Qed.

Lemma sort_map_vals : forall {V W} (f : V -> W) (l : list (N * V)),
  sort_by_key (map_vals f l) = map_vals f (sort_by_key l).
Proof.
  intros V W f l. induction l as [|kv r IH]; simpl; [reflexivity|].
  rewrite IH. apply ins_sorted_map_vals.
Qed.

Lemma akeys_ins_sorted : forall {V} (k : N) (v : V) (l : list (N * V)),
  ~ In k (akeys l) -> akeys (ins_sorted (k, v) l) = ins_set k (akeys l).
Proof.
  intros V k v l. induction l as [|[k' v'] r IH]; simpl; intro Hn; [reflexivity|].
  destruct (N.leb_spec k k') as [Hle|Hgt]; destruct (N.ltb_spec k k') as [Hlt|Hge]; simpl; try reflexivity.
  - exfalso. apply Hn. left. lia.
  - lia.
  - destruct (N.eqb_spec k k') as [E|E]; [lia|]. rewrite IH; [reflexivity|]. tauto.
Qed.

Lemma alookup_ins_sorted : forall {V} (k x : N) (v : V) (l : list (N * V)),
  ~ In k (akeys l) -> alookup x (ins_sorted (k, v) l) = if k =? x then Some v else alookup x l.
Proof.
  intros V k x v l. induction l as [|[k' v'] r IH]; simpl; intro Hn; [reflexivity|].
  destruct (k <=? k'); simpl; [reflexivity|].
  rewrite IH by tauto.
  destruct (N.eqb_spec k x) as [E|E]; [|reflexivity].
  destruct (N.eqb_spec k' x) as [E'|E']; [|reflexivity]. exfalso. apply Hn. left. congruence.
Qed.

Lemma in_ins_set : forall k x l, In x (ins_set k l) <-> x = k \/ In x l.
Proof.
  intros k x l. induction l as [|k' r IH]; simpl; [intuition|].
  destruct (k <? k'); simpl; [intuition|].
  destruct (N.eqb_spec k k') as [->|E]; simpl; [intuition|]. rewrite IH. intuition.
Qed.

Lemma in_sort_set : forall x l, In x (sort_set l) <-> In x l.
Proof.
  intros x l. induction l as [|k r IH]; simpl; [tauto|]. rewrite in_ins_set, IH. intuition.
Qed.

Lemma sort_keys_lookup : forall {V} (l : list (N * V)), NoDup (akeys l) ->
  akeys (sort_by_key l) = sort_set (akeys l) /\
  (forall x, alookup x (sort_by_key l) = alookup x l).
Proof.
  intros V l. induction l as [|[k v] r IH]; simpl; intro H; [split; reflexivity|].
  inversion H as [|? ? Hn Hr]; subst. destruct (IH Hr) as [Ek El].
  assert (Hnk : ~ In k (akeys (sort_by_key r))).
  { rewrite Ek, in_sort_set. exact Hn. }
  split.
  - rewrite akeys_ins_sorted by exact Hnk. rewrite Ek. reflexivity.
  - intro x. rewrite alookup_ins_sorted by exact Hnk. rewrite El. reflexivity.
Qed.

(* strictly sorted lists with the same members are equal *)
Lemma ins_set_sorted : forall k l, StronglySorted N.lt l -> StronglySorted N.lt (ins_set k l).
Proof.
  intros k l. induction l as [|k' r IH]; simpl; intro H; [repeat constructor|].
  inversion H as [|? ? Hs Hall]; subst.
  destruct (N.ltb_spec k k') as [Hlt|Hge].
  - constructor; [exact H|]. constructor; [exact Hlt|].
    rewrite Forall_forall in *. intros y Hy. specialize (Hall y Hy). lia.
  - destruct (N.eqb_spec k k') as [E|E]; [exact H|].
    constructor; [apply IH; exact Hs|].
    rewrite Forall_forall in *. intros y Hy. apply in_ins_set in Hy.
    destruct Hy as [->|Hy]; [lia | apply Hall; exact Hy].
Qed.

Lemma sort_set_sorted : forall l, StronglySorted N.lt (sort_set l).
Proof. induction l; simpl; [constructor | apply ins_set_sorted; assumption]. Qed.

Lemma sorted_ext : forall l1 l2, StronglySorted N.lt l1 -> StronglySorted N.lt l2 ->
  (forall x, In x l1 <-> In x l2) -> l1 = l2.
Proof.
  induction l1 as [|a r1 IH]; intros l2 H1 H2 Hm.
  - destruct l2 as [|b r2]; [reflexivity|]. exfalso. apply (Hm b). left. reflexivity.
  - destruct l2 as [|b r2]; [exfalso; apply (Hm a); left; reflexivity|].
    inversion H1 as [|? ? Hs1 Ha]; subst. inversion H2 as [|? ? Hs2 Hb]; subst.
    rewrite Forall_forall in Ha, Hb.
    assert (E : a = b).
    { destruct (proj1 (Hm a) (or_introl eq_refl)) as [E|Hin]; [congruence|].
      destruct (proj2 (Hm b) (or_introl eq_refl)) as [E|Hin']; [congruence|].
      specialize (Ha b Hin'). specialize (Hb a Hin). lia. }
    subst b. f_equal. apply IH; try assumption.
    intro x. split; intro Hx.
    + destruct (proj1 (Hm x) (or_intror Hx)) as [E|Hin]; [|exact Hin].
      subst x. specialize (Ha a Hx). lia.
    + destruct (proj2 (Hm x) (or_intror Hx)) as [E|Hin]; [|exact Hin].
      subst x. specialize (Hb a Hx). lia.
Qed.

Lemma sort_set_ext : forall l1 l2, (forall x, In x l1 <-> In x l2) -> sort_set l1 = sort_set l2.
Proof.
  intros l1 l2 H. apply sorted_ext; try apply sort_set_sorted.
  intro x. rewrite !in_sort_set. apply H.
Qed.

(* an association list with distinct keys is determined by its key list and its lookups *)
Lemma assoc_eq : forall {V} (l1 l2 : list (N * V)),
  akeys l1 = akeys l2 -> NoDup (akeys l1) -> (forall k, alookup k l1 = alookup k l2) -> l1 = l2.
Proof.
  intros V. induction l1 as [|[k1 v1] r1 IH]; intros l2 Hk Hnd Hl.
  - destruct l2; [reflexivity | discriminate].
  - destruct l2 as [|[k2 v2] r2]; [discriminate|]. simpl in Hk. injection Hk as Ek Er. subst k2.
    inversion Hnd as [|? ? Hn Hr]; subst.
    pose proof (Hl k1) as H1. simpl in H1. rewrite N.eqb_refl in H1. injection H1 as <-.
    f_equal. apply IH; try assumption.
    intro k. specialize (Hl k). simpl in Hl. destruct (N.eqb_spec k1 k) as [E|E]; [subst k|exact Hl].
    assert (A1 : alookup k1 r1 = None).
    { destruct (alookup k1 r1) eqn:E1; [|reflexivity]. exfalso. apply Hn. apply in_akeys_alookup. congruence. }
    assert (A2 : alookup k1 r2 = None).
    { destruct (alookup k1 r2) eqn:E2; [|reflexivity]. exfalso. apply Hn. rewrite Er. apply in_akeys_alookup. congruence. }
    congruence.
Qed.

(* two dictionaries with the same key set whose values agree after f have
   the same sorted image *)
Lemma sorted_image_eq : forall {V W} (f : V -> W) (l1 l2 : list (N * V)),
  NoDup (akeys l1) -> NoDup (akeys l2) ->
  (forall k, option_map f (alookup k l1) = option_map f (alookup k l2)) ->
  map_vals f (sort_by_key l1) = map_vals f (sort_by_key l2).
Proof.
  intros V W f l1 l2 N1 N2 H.
  rewrite <- !sort_map_vals.
  assert (Hmem : forall x, In x (akeys l1) <-> In x (akeys l2)).
  { intro x. rewrite !in_akeys_alookup. specialize (H x).
    destruct (alookup x l1), (alookup x l2); simpl in H; split; congruence. }
  destruct (sort_keys_lookup (map_vals f l1)) as [K1 L1]; [rewrite akeys_map_vals; exact N1|].
  destruct (sort_keys_lookup (map_vals f l2)) as [K2 L2]; [rewrite akeys_map_vals; exact N2|].
  apply assoc_eq.
  - rewrite K1, K2, !akeys_map_vals. apply sort_set_ext. exact Hmem.
  - rewrite K1, akeys_map_vals.
    apply StronglySorted_Sorted, Sorted_StronglySorted in N1 || idtac.
    clear -N1. pose proof (sort_set_sorted (akeys l1)) as Hs.
    induction Hs as [|a r Hs IH Ha]; constructor; [|exact IH].
    rewrite Forall_forall in Ha. intro Hin. specialize (Ha a Hin). lia.
  - intro k. rewrite L1, L2, !alookup_map_vals. apply H.
Qed.

(* ================================================================== *)
(* 2. routing through ShardedScale and Shard                           *)
(* ================================================================== *)

Lemma ms_run_app : forall sp enc l st x,
  ms_run sp enc st (l ++ [x]) =
  let '(st1, os) := ms_run sp enc st l in
  let '(st2, o) := ms_store sp enc st1 (snd x) (fst x) in (st2, os ++ [o]).
Proof.
  intros sp enc l. induction l as [|[c b] r IH]; intros st [cx bx]; simpl.
  - destruct (ms_store sp enc st bx cx) as [st2 o]. reflexivity.
  - destruct (ms_store sp enc st b c) as [st1 o1]. rewrite IH. simpl.
    destruct (ms_run sp enc st1 r) as [st2 os].
    destruct (ms_store sp enc st2 bx cx) as [st3 o3]. reflexivity.
Qed.

Section Lift.
Variable sp : sparams.
Variable enc : bytes -> bytes.
Variable ienc : bytes -> bytes.
Notation skey := (shard_key_model (sp_p sp) (sp_m sp) (sp_s sp)).
Notation mkey := (minishard_key_model (sp_p sp) (sp_m sp)).

Definition routes (sk mk : N) (o : N * bytes) : bool := (skey (fst o) =? sk) && (mkey (fst o) =? mk).
Definition routed (sk mk : N) (ops : list (N * bytes)) : list (N * bytes) := filter (routes sk mk) ops.

Definition get2 (st : scale) (sk mk : N) : option mini :=
  match alookup sk st with Some sh => alookup mk (sh_minis sh) | None => None end.
Definition mini_of (o : option mini) : mini := match o with Some x => x | None => ms_init end.

Definition WFS (st : scale) : Prop :=
  NoDup (akeys st) /\
  forall k sh, alookup k st = Some sh ->
    NoDup (akeys (sh_minis sh)) /\ sh_dirty sh = true /\ sh_minis sh <> [].

Lemma store_step : forall st buf cmc,
  let st' := fst (scale_store_cmc sp enc st buf cmc) in
  snd (scale_store_cmc sp enc st buf cmc) =
    snd (ms_store sp enc (mini_of (get2 st (skey cmc) (mkey cmc))) buf cmc) /\
  (forall sk mk, get2 st' sk mk =
     if routes sk mk (cmc, buf)
     then Some (fst (ms_store sp enc (mini_of (get2 st (skey cmc) (mkey cmc))) buf cmc))
     else get2 st sk mk) /\
  (WFS st -> WFS st') /\
  (forall sk, alookup sk st' <> None <-> sk = skey cmc \/ alookup sk st <> None).
Proof.
  intros st buf cmc. unfold scale_store_cmc, shard_store, get2, routes, mini_of. simpl fst.
  set (sk0 := skey cmc). set (mk0 := mkey cmc).
  set (sh := match alookup sk0 st with Some x => x | None => shard_init end).
  set (ms := match alookup mk0 (sh_minis sh) with Some x => x | None => ms_init end).
  assert (Ems : ms = match match alookup sk0 st with Some sh0 => alookup mk0 (sh_minis sh0) | None => None end
                     with Some x => x | None => ms_init end).
  { unfold ms, sh. destruct (alookup sk0 st); reflexivity. }
  rewrite <- Ems.
  destruct (ms_store sp enc ms buf cmc) as [ms' r] eqn:Es. cbn [fst snd].
  split; [reflexivity|]. split; [|split].
  - intros sk mk. rewrite alookup_aset.
    destruct (N.eqb_spec sk0 sk) as [E|E]; cbn [andb sh_minis].
    + subst sk. rewrite alookup_aset. destruct (N.eqb_spec mk0 mk) as [E'|E']; [reflexivity|].
      unfold sh. destruct (alookup sk0 st); reflexivity.
    + reflexivity.
  - intros [Hnd Hsh]. split; [apply nodup_aset; exact Hnd|].
    intros k sh1. rewrite alookup_aset. destruct (N.eqb_spec sk0 k) as [E|E].
    + intro H. injection H as <-. cbn [sh_minis sh_dirty]. split; [|split; [reflexivity | unfold aset; discriminate]].
      apply nodup_aset. unfold sh. destruct (alookup sk0 st) as [sh0|] eqn:E0.
      * apply (Hsh _ _ E0).
      * constructor.
    + apply Hsh.
  - intro sk. rewrite alookup_aset. destruct (N.eqb_spec sk0 sk) as [E|E].
    + split; [intros _; left; congruence | discriminate].
    + split; [intro H; right; exact H | intros [H|H]; [congruence | exact H]].
Qed.

Definition after (m : option mini) (l : list (N * bytes)) : option mini :=
  match l with [] => m | _ => Some (fst (ms_run sp enc (mini_of m) l)) end.

Lemma after_cons : forall m x l,
  after m (x :: l) = after (Some (fst (ms_store sp enc (mini_of m) (snd x) (fst x)))) l.
Proof.
  intros m [c b] l. unfold after. cbn [ms_run fst snd].
  destruct (ms_store sp enc (mini_of m) b c) as [m1 o1]. cbn [fst mini_of].
  destruct l as [|y l']; [reflexivity|].
  destruct (ms_run sp enc m1 (y :: l')) as [m2 os]. reflexivity.
Qed.

Lemma run_step : forall ops st,
  let st' := fst (run_cmc_stores sp enc st ops) in
  (forall sk mk, get2 st' sk mk = after (get2 st sk mk) (routed sk mk ops)) /\
  (WFS st -> WFS st') /\
  (forall sk, alookup sk st' <> None <-> (exists o, In o ops /\ skey (fst o) = sk) \/ alookup sk st <> None).
Proof.
  induction ops as [|[cmc buf] r IH]; intro st; cbn [run_cmc_stores].
  - cbn [fst]. split; [reflexivity|]. split; [tauto|]. intro sk.
    split; [tauto | intros [(o & [] & _)|H]; exact H].
  - destruct (scale_store_cmc sp enc st buf cmc) as [st1 o1] eqn:E1.
    destruct (store_step st buf cmc) as (_ & Hg1 & Hw1 & Hk1). rewrite E1 in Hg1, Hw1, Hk1.
    cbn [fst] in Hg1, Hw1, Hk1.
    specialize (IH st1). destruct (run_cmc_stores sp enc st1 r) as [st2 os] eqn:E2. cbn [fst] in IH |- *.
    destruct IH as (Hg2 & Hw2 & Hk2).
    split; [|split].
    + intros sk mk. rewrite Hg2, Hg1. unfold routed. cbn [filter].
      destruct (routes sk mk (cmc, buf)) eqn:Er.
      * unfold routes in Er. cbn [fst] in Er. apply andb_prop in Er. destruct Er as [Ea Eb].
        apply N.eqb_eq in Ea. apply N.eqb_eq in Eb. subst sk mk.
        rewrite after_cons. reflexivity.
      * reflexivity.
    + intro H. apply Hw2, Hw1, H.
    + intro sk. rewrite Hk2, Hk1. split.
      * intros [(o & Hin & Ho)|[H|H]].
        -- left. exists o. split; [right; exact Hin | exact Ho].
        -- left. exists (cmc, buf). split; [left; reflexivity | cbn [fst]; congruence].
        -- right. exact H.
      * intros [(o & [<-|Hin] & Ho)|H].
        -- right. left. cbn [fst] in Ho. congruence.
        -- left. exists o. split; assumption.
        -- right. right. exact H.
Qed.

Lemma run_app : forall l st x,
  run_cmc_stores sp enc st (l ++ [x]) =
  let '(st1, os) := run_cmc_stores sp enc st l in
  let '(st2, o) := scale_store_cmc sp enc st1 (snd x) (fst x) in (st2, os ++ [o]).
Proof.
  induction l as [|[c b] r IH]; intros st [cx bx]; simpl.
  - destruct (scale_store_cmc sp enc st bx cx) as [st2 o]. reflexivity.
  - destruct (scale_store_cmc sp enc st b c) as [st1 o1]. rewrite IH. simpl.
    destruct (run_cmc_stores sp enc st1 r) as [st2 os].
    destruct (scale_store_cmc sp enc st2 bx cx) as [st3 o3]. reflexivity.
Qed.

(* Shard.close only looks at the closed minishards *)
Fixpoint close_minis' (l : list (N * (mini * outcome unit))) (data : bytes)
  : outcome (list (N * mini) * bytes) :=
  match l with
  | [] => Ok ([], data)
  | (k, (ms1, res)) :: r =>
      bind res (fun _ =>
      bind (set_offset ms1 (lenN data)) (fun ms2 =>
      bind (close_minis' r (data ++ ms_data ms1)) (fun '(rest, d) => Ok ((k, ms2) :: rest, d))))
  end.

Lemma close_minis_factor : forall l d,
  close_minis sp l d = close_minis' (map_vals (ms_close sp) l) d.
Proof.
  induction l as [|[k ms] r IH]; intro d; simpl; [reflexivity|].
  destruct (ms_close sp ms) as [ms1 res]. destruct res; simpl; try reflexivity.
  destruct (set_offset ms1 (lenN d)); simpl; try reflexivity.
  rewrite IH. reflexivity.
Qed.

End Lift.

(* ================================================================== *)
(* 3. order independence of the files                                  *)
(* ================================================================== *)

Lemma filter_perm : forall {A} (f : A -> bool) l l', Permutation l l' -> Permutation (filter f l) (filter f l').
Proof.
  intros A f l l' H. induction H; simpl.
  - constructor.
  - destruct (f x); [constructor|]; assumption.
  - destruct (f x), (f y); try constructor; try apply Permutation_refl. 
  - eapply Permutation_trans; eassumption.
Qed.

Lemma nodup_map_filter : forall {A B} (g : A -> B) (f : A -> bool) l,
  NoDup (map g l) -> NoDup (map g (filter f l)).
Proof.
  intros A B g f l. induction l as [|x r IH]; simpl; intro H; [constructor|].
  inversion H as [|? ? Hn Hr]; subst. destruct (f x); [|apply IH; exact Hr].
  simpl. constructor; [|apply IH; exact Hr].
  intro Hin. apply Hn. apply in_map_iff in Hin. destruct Hin as (y & Ey & Hy).
  apply filter_In in Hy. apply in_map_iff. exists y. tauto.
Qed.

Lemma nodup_app_l : forall {A} (l1 l2 : list A), NoDup (l1 ++ l2) -> NoDup l1.
Proof.
  intros A l1 l2. induction l1 as [|x r IH]; simpl; intro H; [constructor|].
  inversion H as [|? ? Hn Hr]; subst. constructor; [|apply IH; exact Hr].
  intro Hin. apply Hn. apply in_or_app. left. exact Hin.
Qed.

(* same shard and minishard number => same class bits *)
Lemma route_mbits : forall sp id1 id2,
  id1 < 2 ^ 64 -> id2 < 2 ^ 64 -> sp_m sp + sp_s sp < 2 ^ 64 ->
  shard_key_model (sp_p sp) (sp_m sp) (sp_s sp) id1 = shard_key_model (sp_p sp) (sp_m sp) (sp_s sp) id2 ->
  minishard_key_model (sp_p sp) (sp_m sp) id1 = minishard_key_model (sp_p sp) (sp_m sp) id2 ->
  mbits sp id1 = mbits sp id2.
Proof.
  intros sp id1 id2 H1 H2 Hms Hs Hm.
  destruct (routing_is_spec (sp_p sp) (sp_m sp) (sp_s sp) id1 H1 Hms) as [Em1 Es1].
  destruct (routing_is_spec (sp_p sp) (sp_m sp) (sp_s sp) id2 H2 Hms) as [Em2 Es2].
  rewrite Em1, Em2 in Hm. rewrite Es1, Es2 in Hs.
  unfold spec_minishard, spec_shard, spec_hash in *. unfold mbits.
  replace (2 ^ (sp_s sp + sp_m sp)) with (2 ^ sp_m sp * 2 ^ sp_s sp)
    by (rewrite <- N.pow_add_r; f_equal; lia).
  rewrite !N.mod_mul_r by (apply pow2_nz). rewrite Hm, Hs. reflexivity.
Qed.

Section Final.
Variable sp : sparams.
Variable enc : bytes -> bytes.
Variable ienc : bytes -> bytes.
Hypothesis HB : cbits sp < 2 ^ 64.
Notation skey := (shard_key_model (sp_p sp) (sp_m sp) (sp_s sp)).
Notation mkey := (minishard_key_model (sp_p sp) (sp_m sp)).

Definition ops_valid (ops : list (N * bytes)) : Prop :=
  NoDup (map fst ops) /\
  forall id, In id (map fst ops) -> id < 2 ^ 64 /\ rank sp id + 1 < 2 ^ 64.

Lemma Hms' : sp_m sp + sp_s sp < 2 ^ 64.
Proof. unfold cbits in HB. lia. Qed.

(* the stores routed to one (shard, minishard) pair satisfy the per-class hypotheses *)
Lemma routed_class : forall ops sk mk x l,
  ops_valid ops -> routed sp sk mk ops = x :: l ->
  let K := (fst x / 2 ^ sp_p sp) mod 2 ^ (sp_s sp + sp_m sp) in
  K < 2 ^ (sp_s sp + sp_m sp) /\ NoDup (map fst (x :: l)) /\
  (forall id, In id (map fst (x :: l)) -> in_class sp K id).
Proof.
  intros ops sk mk x l [Hnd Hv] Er K.
  split; [apply N.mod_lt, pow2_nz|]. split.
  - rewrite <- Er. apply nodup_map_filter. exact Hnd.
  - intros id Hin. rewrite <- Er in Hin. apply in_map_iff in Hin. destruct Hin as (o & <- & Ho).
    unfold routed in Ho. apply filter_In in Ho. destruct Ho as [Hin Hr].
    assert (Hx : In x (routed sp sk mk ops)) by (rewrite Er; left; reflexivity).
    unfold routed in Hx. apply filter_In in Hx. destruct Hx as [Hxin Hxr].
    unfold routes in Hr, Hxr. apply andb_prop in Hr. apply andb_prop in Hxr.
    destruct Hr as [Ra Rb]. destruct Hxr as [Xa Xb].
    apply N.eqb_eq in Ra. apply N.eqb_eq in Rb. apply N.eqb_eq in Xa. apply N.eqb_eq in Xb.
    destruct (Hv (fst o) (in_map fst _ _ Hin)) as [Ho1 Ho2].
    destruct (Hv (fst x) (in_map fst _ _ Hxin)) as [Hx1 _].
    unfold in_class. split; [exact Ho1|]. split; [|exact Ho2].
    rewrite (route_mbits sp (fst o) (fst x) Ho1 Hx1 Hms') by congruence. reflexivity.
Qed.

Lemma valid_app : forall l x, ops_valid (l ++ [x]) -> ops_valid l.
Proof.
  intros l x [Hnd Hv]. split.
  - rewrite map_app in Hnd. apply nodup_app_l in Hnd. exact Hnd.
  - intros id Hin. apply Hv. rewrite map_app. apply in_or_app. left. exact Hin.
Qed.

(* no store of a valid sequence raises *)
Theorem stores_all_ok : forall ops, ops_valid ops ->
  snd (run_cmc_stores sp enc [] ops) = map (fun _ => Ok tt) ops.
Proof.
  induction ops as [|x l IH] using rev_ind; intro Hv; [reflexivity|].
  specialize (IH (valid_app l x Hv)).
  rewrite run_app. destruct (run_cmc_stores sp enc [] l) as [st1 os] eqn:E1. cbn [snd] in IH.
  destruct (store_step sp enc st1 (snd x) (fst x)) as (Ho & _).
  destruct (scale_store_cmc sp enc st1 (snd x) (fst x)) as [st2 o] eqn:E2. cbn [snd] in *.
  rewrite map_app, IH. cbn [map]. f_equal. f_equal.
  rewrite Ho.
  destruct (run_step sp enc l []) as (Hg & _). rewrite E1 in Hg. cbn [fst] in Hg.
  rewrite Hg.
  (* the class of x: its routed list in l ++ [x] *)
  set (sk := skey (fst x)). set (mk := mkey (fst x)).
  assert (Er : routed sp sk mk (l ++ [x]) = routed sp sk mk l ++ [x]).
  { unfold routed. rewrite filter_app. cbn [filter]. unfold routes, sk, mk. rewrite !N.eqb_refl. reflexivity. }
  destruct (routed sp sk mk (l ++ [x])) as [|y l'] eqn:Ey.
  { destruct (routed sp sk mk l); discriminate. }
  destruct (routed_class _ _ _ _ _ Hv Ey) as (HK & Hnd & Hcl).
  destruct (mini_close_canonical sp enc _ (y :: l') HK HB ltac:(discriminate) Hnd Hcl) as (stf & Erun & _).
  rewrite Er in Erun. rewrite ms_run_app in Erun.
  unfold after, get2. cbn [alookup mini_of].
  assert (Em : mini_of (match routed sp sk mk l with [] => None | _ :: _ =>
                Some (fst (ms_run sp enc ms_init (routed sp sk mk l))) end)
               = fst (ms_run sp enc ms_init (routed sp sk mk l))).
  { destruct (routed sp sk mk l); reflexivity. }
  unfold mini_of in Em. unfold mini_of. rewrite Em.
  destruct (ms_run sp enc ms_init (routed sp sk mk l)) as [m1 os1]. cbn [fst].
  destruct (ms_store sp enc m1 (snd x) (fst x)) as [m2 o2]. cbn [snd].
  injection Erun as _ Eos. rewrite map_app in Eos. cbn [map] in Eos.
  apply app_inj_tail in Eos. tauto.
Qed.

(* per (shard, minishard): the closed minishard does not depend on the order *)
Lemma closed_minis_agree : forall ops1 ops2 sk mk,
  ops_valid ops1 -> Permutation ops1 ops2 ->
  option_map (ms_close sp) (get2 (fst (run_cmc_stores sp enc [] ops1)) sk mk) =
  option_map (ms_close sp) (get2 (fst (run_cmc_stores sp enc [] ops2)) sk mk).
Proof.
  intros ops1 ops2 sk mk Hv Hp.
  destruct (run_step sp enc ops1 []) as (Hg1 & _). destruct (run_step sp enc ops2 []) as (Hg2 & _).
  rewrite Hg1, Hg2. unfold get2. cbn [alookup].
  pose proof (filter_perm (routes sp sk mk) _ _ Hp) as Hpr. fold (routed sp sk mk ops1) in Hpr.
  fold (routed sp sk mk ops2) in Hpr.
  destruct (routed sp sk mk ops1) as [|x l] eqn:E1.
  - apply Permutation_nil in Hpr. rewrite Hpr. reflexivity.
  - destruct (routed_class _ _ _ _ _ Hv E1) as (HK & Hnd & Hcl).
    destruct (mini_order_independent sp enc _ (x :: l) (routed sp sk mk ops2) HK HB
                ltac:(discriminate) Hnd Hcl Hpr) as (s1 & s2 & c & R1 & R2 & C1 & C2).
    unfold after. destruct (routed sp sk mk ops2) as [|y l2] eqn:E2.
    { apply Permutation_sym, Permutation_nil in Hpr. discriminate. }
    cbn [mini_of]. rewrite R1, R2. cbn [fst option_map]. rewrite C1, C2. reflexivity.
Qed.

(* order_independent: two orders of the same valid chunk set give the same
   outcome for every store (none raises) and byte-identical files *)
Theorem order_independent : forall ops1 ops2,
  ops_valid ops1 -> Permutation ops1 ops2 ->
  snd (run_cmc_stores sp enc [] ops1) = map (fun _ => Ok tt) ops1 /\
  snd (run_cmc_stores sp enc [] ops2) = map (fun _ => Ok tt) ops2 /\
  scale_close sp ienc (fst (run_cmc_stores sp enc [] ops1)) =
  scale_close sp ienc (fst (run_cmc_stores sp enc [] ops2)).
Proof.
  intros ops1 ops2 Hv Hp.
  assert (Hv2 : ops_valid ops2).
  { destruct Hv as [Hnd Hb]. split.
    - eapply Permutation_NoDup; [apply Permutation_map; exact Hp | exact Hnd].
    - intros id Hin. apply Hb. eapply Permutation_in; [apply Permutation_sym, Permutation_map; exact Hp | exact Hin]. }
  split; [apply stores_all_ok; exact Hv|]. split; [apply stores_all_ok; exact Hv2|].
  set (st1 := fst (run_cmc_stores sp enc [] ops1)). set (st2 := fst (run_cmc_stores sp enc [] ops2)).
  destruct (run_step sp enc ops1 []) as (_ & Hw1 & Hk1). destruct (run_step sp enc ops2 []) as (_ & Hw2 & Hk2).
  fold st1 in Hw1, Hk1. fold st2 in Hw2, Hk2.
  assert (W0 : WFS []) by (split; [constructor | intros k sh H; discriminate]).
  specialize (Hw1 W0). specialize (Hw2 W0). destruct Hw1 as [N1 S1]. destruct Hw2 as [N2 S2].
  assert (Hshard : forall k, option_map (shard_close sp ienc) (alookup k st1) =
                             option_map (shard_close sp ienc) (alookup k st2)).
  { intro k.
    assert (Hmem : alookup k st1 <> None <-> alookup k st2 <> None).
    { rewrite Hk1, Hk2. cbn [alookup]. split.
      - intros [(o & Hin & Ho)|H]; [|exfalso; apply H; reflexivity].
        left. exists o. split; [eapply Permutation_in; eassumption | exact Ho].
      - intros [(o & Hin & Ho)|H]; [|exfalso; apply H; reflexivity].
        left. exists o. split; [eapply Permutation_in; [apply Permutation_sym; exact Hp | exact Hin] | exact Ho]. }
    destruct (alookup k st1) as [sh1|] eqn:A1; destruct (alookup k st2) as [sh2|] eqn:A2;
      try reflexivity;
      try (exfalso; apply (proj1 Hmem); [discriminate | reflexivity]);
      try (exfalso; apply (proj2 Hmem); [discriminate | reflexivity]).
    cbn [option_map]. f_equal.
    destruct (S1 _ _ A1) as (M1 & D1 & _). destruct (S2 _ _ A2) as (M2 & D2 & _).
    unfold shard_close. rewrite D1, D2. cbn [negb].
    rewrite !close_minis_factor.
    rewrite (sorted_image_eq (ms_close sp) (sh_minis sh1) (sh_minis sh2) M1 M2); [reflexivity|].
    intro mk. pose proof (closed_minis_agree ops1 ops2 k mk Hv Hp) as Hc.
    fold st1 st2 in Hc. unfold get2 in Hc. rewrite A1, A2 in Hc. exact Hc. }
  unfold scale_close.
  assert (Hfact : forall st, map (fun '(k, sh) => (shard_file_name sp k, shard_close sp ienc sh)) (sort_by_key st)
                  = map (fun kv => (shard_file_name sp (fst kv), snd kv))
                        (map_vals (shard_close sp ienc) (sort_by_key st))).
  { intro st. unfold map_vals. rewrite map_map. apply map_ext. intros [k sh]. reflexivity. }
  rewrite !Hfact. rewrite (sorted_image_eq (shard_close sp ienc) st1 st2 N1 N2 Hshard). reflexivity.
Qed.

End Final.

(* the same at the level of ShardedFileAccessor.store_chunk (chunk origins) *)
Definition resolves (v : vspec) (op : store_op) (c : N * bytes) : Prop :=
  let '(x, y, z, b) := op in get_cmc_model v x y z = Ok (fst c) /\ b = snd c.

Lemma run_stores_cmc : forall sp enc v ops cms st,
  Forall2 (resolves v) ops cms ->
  run_stores sp enc v st ops = run_cmc_stores sp enc st cms.
Proof.
  intros sp enc v ops cms st H. revert st. induction H as [|[[[x y] z] b] [c b'] ops cms Hr Hf IH]; intro st.
  - reflexivity.
  - simpl in Hr. destruct Hr as [Hc ->]. simpl run_stores. simpl run_cmc_stores.
    unfold store_chunk. rewrite Hc. destruct (scale_store_cmc sp enc st b' c) as [st1 o].
    rewrite IH. reflexivity.
Qed.

Lemma forall2_length : forall {A B} (R : A -> B -> Prop) l1 l2, Forall2 R l1 l2 -> length l1 = length l2.
Proof. intros A B R l1 l2 H. induction H; simpl; congruence. Qed.

Theorem session_order_independent : forall sp enc ienc v ops1 ops2 cms1 cms2,
  cbits sp < 2 ^ 64 ->
  Forall2 (resolves v) ops1 cms1 -> Forall2 (resolves v) ops2 cms2 ->
  ops_valid sp cms1 -> Permutation cms1 cms2 ->
  fst (run_session sp enc ienc v ops1) = map (fun _ => Ok tt) ops1 /\
  fst (run_session sp enc ienc v ops2) = map (fun _ => Ok tt) ops2 /\
  snd (run_session sp enc ienc v ops1) = snd (run_session sp enc ienc v ops2).
Proof.
  intros sp enc ienc v ops1 ops2 cms1 cms2 HB F1 F2 Hv Hp.
  destruct (order_independent sp enc ienc HB cms1 cms2 Hv Hp) as (O1 & O2 & Ef).
  unfold run_session.
  rewrite (run_stores_cmc sp enc v ops1 cms1 [] F1), (run_stores_cmc sp enc v ops2 cms2 [] F2).
  destruct (run_cmc_stores sp enc [] cms1) as [s1 o1]. destruct (run_cmc_stores sp enc [] cms2) as [s2 o2].
  cbn [fst snd] in *. subst o1 o2.
  assert (L1 : length ops1 = length cms1) by (eapply forall2_length; exact F1).
  assert (L2 : length ops2 = length cms2) by (eapply forall2_length; exact F2).
  assert (Hm : forall {A B} (l1 : list A) (l2 : list B), length l1 = length l2 ->
                map (fun _ => @Ok unit tt) l2 = map (fun _ => Ok tt) l1).
  { intros A B l1. induction l1 as [|a r IH]; intros [|b r2] H; simpl in *; try discriminate; [reflexivity|].
    f_equal. apply IH. lia. }
  rewrite (Hm _ _ ops1 cms1 L1), (Hm _ _ ops2 cms2 L2). repeat split. exact Ef.
Qed.
