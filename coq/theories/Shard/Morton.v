(* Model of sharded_base.ShardVolumeSpec (grid, compressed Morton code,
   get_cmc) and of the routing functions of CMCReadWrite / ShardCMC, followed
   by the independent specification functions taken from the Neuroglancer
   sharded-format document. *)
From Coq Require Import NArith ZArith List Bool Lia.
From NGS Require Import Val Ints.
Import ListNotations.
Open Scope N_scope.

(* ---------- model: ShardVolumeSpec.__init__ ---------- *)

Record vspec := { vs_chunk : Z; vs_grid : list N; vs_nbits : list N }.

Definition all_pos (l : list Z) : bool := forallb (fun v => (0 <? v)%Z) l.
Definition all_same (l : list Z) : bool :=
  match l with [] => true | a :: r => forallb (Z.eqb a) r end.

Definition grid_of (size chunk : Z) : N := Z.to_N (ceil_div size chunk).

Definition mk_vspec (chunk_sizes sizes : list Z) : outcome vspec :=
  if negb ((length sizes =? 3)%nat && all_pos sizes) then IOErr else
  if negb ((length chunk_sizes =? 3)%nat && all_pos chunk_sizes && all_same chunk_sizes)
  then IOErr else
  let cs := nth 0 chunk_sizes 1%Z in
  let g := map (fun s => grid_of s cs) sizes in
  let nb := map N.log2_up g in
  if 64 <? sumN nb then IOErr else
  Ok {| vs_chunk := cs; vs_grid := g; vs_nbits := nb |}.

(* ---------- model: compressed_morton_code ---------- *)

Definition cmc_step (g p : list N) (i : N) (acc : N * N) (d : nat) : N * N :=
  let '(code, j) := acc in
  if 2 ^ i <? nth d g 0
  then (or64 code (shl64 (and64 (shr64 (nth d p 0) i) 1) j), add64 j 1)
  else acc.

Definition cmc_loop (g p : list N) (maxbits : nat) : N :=
  fst (fold_left (fun acc i => fold_left (cmc_step g p i) [0%nat; 1%nat; 2%nat] acc)
                 (nseq 0 maxbits) (0, 0)).

Definition lt_all (p : list Z) (g : list N) : bool :=
  forallb (fun '(c, s) => (c <? Z.of_N s)%Z) (combine p g).

Definition cmc_model (v : vspec) (coords : list Z) : outcome N :=
  if existsb (fun c => (c <? 0)%Z) coords then IOErr else
  if negb (lt_all coords (vs_grid v)) then IOErr else
  Ok (cmc_loop (vs_grid v) (map Z.to_N coords) (N.to_nat (maxN (vs_nbits v)))).

(* get_cmc: lattice test with Python's % (sign of the divisor), then the
   float division int(xmin/xcs), exact below 2^53. *)
Definition get_cmc_model (v : vspec) (xmin ymin zmin : Z) : outcome N :=
  let cs := vs_chunk v in
  if negb ((xmin mod cs =? 0)%Z && (ymin mod cs =? 0)%Z && (zmin mod cs =? 0)%Z)
  then IOErr
  else cmc_model v [Z.quot xmin cs; Z.quot ymin cs; Z.quot zmin cs].

(* ---------- model: routing (ShardSpec masks, CMCReadWrite keys) ---------- *)

Definition mask_low (k : N) : N := not64 (shl64 (shr64 max64 k) k).
Definition minishard_mask (m : N) : N := mask_low m.
Definition shard_mask (m s : N) : N := and64 (mask_low (add64 m s)) (not64 (minishard_mask m)).
Definition hash_model (p id : N) : N := shr64 id p.
Definition shard_key_model (p m s id : N) : N :=
  shr64 (and64 (shard_mask m s) (hash_model p id)) m.
Definition minishard_key_model (p m id : N) : N :=
  and64 (minishard_mask m) (hash_model p id).
Definition header_len_model (m : N) : N := mul64 (pow2_64 m) 16.

(* hex(shard_key)[2:].rjust(ceil(shard_bits / 4), "0") *)
Definition hex_digit (d : N) : N := if d <? 10 then 48 + d else 87 + d.  (* ASCII *)
Fixpoint hex_pos (fuel : nat) (n : N) (acc : list N) : list N :=
  match fuel with
  | O => acc
  | S f => if n =? 0 then acc else hex_pos f (n / 16) (hex_digit (n mod 16) :: acc)
  end.
Definition hex_of (n : N) : list N :=
  if n =? 0 then [48] else hex_pos (S (N.to_nat (N.log2 n))) n [].
Definition rjust (w : nat) (fill : N) (s : list N) : list N :=
  repeat fill (w - length s) ++ s.
Definition shard_name_model (s key : N) : list N :=
  rjust (N.to_nat ((s + 3) / 4)) 48 (hex_of key).

(* ---------- specification (from the format document) ---------- *)

(* Bit i of dimension d takes part iff i < nbits(d); live pairs are visited
   level by level, x then y then z; the code is the number whose bit k is the
   k-th live bit. *)
Definition spec_nbits (g : N) : N := N.log2_up g.

Definition live_pairs (nb : list N) : list (nat * nat) :=   (* (level, dim) *)
  flat_map (fun i => filter (fun '(i, d) => N.of_nat i <? nth d nb 0)
                            [(i, 0%nat); (i, 1%nat); (i, 2%nat)])
           (seq 0 (N.to_nat (maxN nb))).

Fixpoint from_bits (l : list bool) : N :=
  match l with [] => 0 | b :: r => N.b2n b + 2 * from_bits r end.

Definition cmc_bits (nb p : list N) : list bool :=
  map (fun '(i, d) => N.testbit (nth d p 0) (N.of_nat i)) (live_pairs nb).

Definition cmc_spec (g p : list N) : N := from_bits (cmc_bits (map spec_nbits g) p).

Definition in_grid (g p : list N) : Prop :=
  length p = 3%nat /\ length g = 3%nat /\ forall d, (d < 3)%nat -> nth d p 0 < nth d g 0.
Definition in_gridb (g p : list N) : bool :=
  (length p =? 3)%nat && (length g =? 3)%nat &&
  forallb (fun d => nth d p 0 <? nth d g 0) [0%nat; 1%nat; 2%nat].

(* inverse: rebuild each coordinate from the bits at its positions *)
Fixpoint to_bits (n : nat) (c : N) : list bool :=
  match n with O => [] | S k => N.odd c :: to_bits k (N.div2 c) end.

Fixpoint collect (d : nat) (pairs : list (nat * nat)) (bits : list bool) : N :=
  match pairs, bits with
  | (i, d') :: pr, b :: br =>
      (if (d' =? d)%nat then (if b then 2 ^ N.of_nat i else 0) else 0) + collect d pr br
  | _, _ => 0
  end.

Definition uncmc (g : list N) (c : N) : list N :=
  let nb := map spec_nbits g in
  let lp := live_pairs nb in
  let bits := to_bits (length lp) c in
  [collect 0 lp bits; collect 1 lp bits; collect 2 lp bits].

Definition spec_hash (p id : N) : N := id / 2 ^ p.
Definition spec_minishard (p m id : N) : N := spec_hash p id mod 2 ^ m.
Definition spec_shard (p m s id : N) : N := (spec_hash p id / 2 ^ m) mod 2 ^ s.

(* lowercase hex, zero padded to ceil(s/4) digits *)
Fixpoint hex_fixed (w : nat) (n : N) : list N :=
  match w with O => [] | S k => hex_fixed k (n / 16) ++ [hex_digit (n mod 16)] end.
(* the reference implementation pads to AT LEAST ceil(s/4) digits, so a
   dataset with shard_bits = 0 has the single file "0.shard" *)
Definition spec_name (s key : N) : list N :=
  hex_fixed (Nat.max 1 (N.to_nat ((s + 3) / 4))) key.

Definition unhex_digit (c : N) : option N :=
  if (48 <=? c) && (c <? 58) then Some (c - 48)
  else if (97 <=? c) && (c <? 103) then Some (c - 87) else None.
Fixpoint unhex_acc (l : list N) (acc : N) : option N :=
  match l with
  | [] => Some acc
  | c :: r => match unhex_digit c with Some d => unhex_acc r (16 * acc + d) | None => None end
  end.
Definition unhex (l : list N) : option N :=
  match l with [] => None | _ => unhex_acc l 0 end.

(* on-lattice and in-grid chunk origin *)
Definition on_lattice_in_grid (v : vspec) (xmin ymin zmin : Z) : bool :=
  let cs := vs_chunk v in
  forallb (fun '(c, g) => (c mod cs =? 0)%Z && (0 <=? c)%Z && (c / cs <? Z.of_N g)%Z)
          (combine [xmin; ymin; zmin] (vs_grid v)).
