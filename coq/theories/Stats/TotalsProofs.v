(* C20: the "Total:" line of scale-stats is the sum of the per-scale rows, and
   hence the number of chunks of all the grids walked by the converters and the
   decoded byte size of all scales and chunk layouts together. *)
From Coq Require Import NArith ZArith List Bool Lia.
From NGS Require Import Val Ints Readable ReadableProofs.
Import ListNotations.
Open Scope Z_scope.

Definition nonneg_row (r : Z * Z) : Prop := 0 <= fst r /\ 0 <= snd r.

Lemma sumZ_nonneg : forall l, Forall (fun z => 0 <= z) l -> 0 <= sumZ l.
Proof.
  induction l as [|z l IH]; intros H; cbn [sumZ fold_right]; [lia|].
  inversion H as [|? ? Hz Hl]; subst. specialize (IH Hl). unfold sumZ in IH. lia.
Qed.

Lemma totals_acc : forall rows a b,
  Forall nonneg_row rows -> 0 <= a -> 0 <= b ->
  a + sumZ (map fst rows) < 2 ^ 63 -> b + sumZ (map snd rows) < 2 ^ 63 ->
  fold_left (fun acc r => (wrap_i64 (fst acc + fst r), wrap_i64 (snd acc + snd r))) rows (a, b)
  = (a + sumZ (map fst rows), b + sumZ (map snd rows)).
Proof.
  induction rows as [|[n s] rows IH]; intros a b HF Ha Hb H1 H2.
  - cbn [fold_left map]. unfold sumZ. cbn [fold_right]. f_equal; lia.
  - inversion HF as [|? ? Hr HF']; subst. destruct Hr as [Hn Hs]. cbn [fst snd] in Hn, Hs.
    cbn [fold_left map fst snd]. cbn [map fst snd] in H1, H2.
    assert (R1 : 0 <= sumZ (map fst rows)).
    { apply sumZ_nonneg. rewrite Forall_map. eapply Forall_impl; [|exact HF']. intros r [X _]; exact X. }
    assert (R2 : 0 <= sumZ (map snd rows)).
    { apply sumZ_nonneg. rewrite Forall_map. eapply Forall_impl; [|exact HF']. intros r [_ X]; exact X. }
    change (sumZ (n :: map fst rows)) with (n + sumZ (map fst rows)) in *.
    change (sumZ (s :: map snd rows)) with (s + sumZ (map snd rows)) in *.
    rewrite (wrap_i64_id (a + n)) by lia. rewrite (wrap_i64_id (b + s)) by lia.
    rewrite IH by (try exact HF'; lia). f_equal; lia.
Qed.

Theorem totals_exact : forall rows,
  Forall nonneg_row rows ->
  sumZ (map fst rows) < 2 ^ 63 -> sumZ (map snd rows) < 2 ^ 63 ->
  stats_totals rows = (sumZ (map fst rows), sumZ (map snd rows)).
Proof.
  intros rows HF H1 H2. unfold stats_totals.
  rewrite totals_acc by (try exact HF; lia). reflexivity.
Qed.

(* the rows as they should be: grid lengths and decoded byte sizes *)
Definition vox3 (sz : N * N * N) : N := let '(sx, sy, sz_) := sz in (sx * sy * sz_)%N.
Definition true_rows (scales : list ((N * N * N) * list (N * N * N))) (itemsize channels : N)
  : list (Z * Z) :=
  flat_map (fun s => map (fun cs => (Z.of_nat (length (grid_chunks (fst s) cs)),
                                     Z.of_N (vox3 (fst s) * itemsize * channels))) (snd s)) scales.

(* what the package must be given for a row to be meaningful: positive sizes and
   chunk sizes, and numbers that fit numpy's int64 *)
Definition row_ok (itemsize channels : N) (sz cs : N * N * N) : Prop :=
  let '(sx, sy, sz_) := sz in let '(cx, cy, cz) := cs in
  (0 < sx /\ 0 < sy /\ 0 < sz_ /\ 0 < cx /\ 0 < cy /\ 0 < cz /\
   ((sx - 1) / cx + 1) * ((sy - 1) / cy + 1) * ((sz_ - 1) / cz + 1) < 2 ^ 63 /\
   sx * sy * sz_ * itemsize * channels < 2 ^ 63)%N.
Definition scales_ok (itemsize channels : N) (scales : list ((N * N * N) * list (N * N * N))) : Prop :=
  Forall (fun s => Forall (row_ok itemsize channels (fst s)) (snd s)) scales.

Lemma rows_are_true : forall scales it ch,
  (0 < it)%N -> (0 < ch)%N -> scales_ok it ch scales ->
  info_rows scales it ch = true_rows scales it ch.
Proof.
  intros scales it ch Hit Hch. unfold info_rows, true_rows, scales_ok.
  induction scales as [|[sz css] scales IH]; intros HF; cbn [flat_map]; [reflexivity|].
  inversion HF as [|? ? Hs HF']; subst. cbn [fst snd] in *.
  rewrite IH by exact HF'. f_equal.
  apply map_ext_in. intros cs Hin.
  rewrite Forall_forall in Hs. specialize (Hs cs Hin).
  destruct sz as [[sx sy] sz_], cs as [[cx cy] cz]. cbn [row_ok vox3] in *.
  destruct Hs as (A1 & A2 & A3 & A4 & A5 & A6 & A7 & A8).
  rewrite chunk_count by assumption. rewrite size_bytes by assumption. reflexivity.
Qed.

Lemma true_rows_nonneg : forall scales it ch, Forall nonneg_row (true_rows scales it ch).
Proof.
  intros scales it ch. unfold true_rows. rewrite Forall_forall. intros r Hin.
  apply in_flat_map in Hin. destruct Hin as (s & _ & Hin).
  apply in_map_iff in Hin. destruct Hin as (cs & E & _). subst r.
  split; cbn [fst snd]; lia.
Qed.

Theorem totals_of_info : forall scales it ch,
  (0 < it)%N -> (0 < ch)%N -> scales_ok it ch scales ->
  sumZ (map fst (true_rows scales it ch)) < 2 ^ 63 ->
  sumZ (map snd (true_rows scales it ch)) < 2 ^ 63 ->
  stats_totals (info_rows scales it ch)
  = (sumZ (map fst (true_rows scales it ch)), sumZ (map snd (true_rows scales it ch))).
Proof.
  intros scales it ch Hit Hch Hok H1 H2.
  rewrite rows_are_true by assumption.
  apply totals_exact; [apply true_rows_nonneg|exact H1|exact H2].
Qed.

(* int64 wrap-around is real: two rows of 2^62 chunks are reported as a
   negative total (the guard of totals_exact cannot be dropped) *)
Example totals_wrap :
  stats_totals [(2 ^ 62, 1); (2 ^ 62, 1)] = (- 2 ^ 63, 2).
Proof. vm_compute. reflexivity. Qed.

Example totals_example :
  let scales := [((5, 4, 3)%N, [(2, 2, 2)%N; (4, 4, 4)%N]); ((3, 2, 2)%N, [(2, 2, 2)%N])] in
  scales_ok 2 3 scales /\
  stats_totals (info_rows scales 2 3) = (12 + 2 + 2, 360 + 360 + 72).
Proof.
  cbv zeta. split; [|vm_compute; reflexivity].
  unfold scales_ok. repeat constructor; cbn; try lia; reflexivity.
Qed.
