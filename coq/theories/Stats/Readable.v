(* Model of utils.readable_count and of the arithmetic of
   scripts/scale_stats.show_scales_info, with the specification-side parser
   and chunk-grid definitions used by the C20 theorems. *)
From Coq Require Import NArith ZArith List Bool Lia.
From NGS Require Import Val Ints.
Import ListNotations.
Open Scope N_scope.

(* ---------- decimal printing ---------- *)
Fixpoint dec_fuel (fuel : nat) (n : N) (acc : list N) : list N :=
  match fuel with
  | O => acc
  | S f => let acc' := (48 + n mod 10) :: acc in
           if n <? 10 then acc' else dec_fuel f (n / 10) acc'
  end.
Definition decimal (n : N) : list N := dec_fuel (S (N.to_nat (N.log2 n))) n [].

(* ---------- float(count) and int/int true division ---------- *)
(* round to 53 significant bits, ties to even: float(count) for a Python int *)
Definition rhe (a b : N) : N :=             (* round(a / b), half to even; b > 0 *)
  let q := a / b in let r := a mod b in
  if (b <? 2 * r) || ((2 * r =? b) && N.odd q) then q + 1 else q.
Definition rn53 (c : N) : N :=
  if c <? 2 ^ 53 then c else let e := N.log2 c - 52 in rhe c (2 ^ e) * 2 ^ e.

(* format(x, ".0f") and format(x, ".1f") for x = a / 2^e exactly (CPython
   rounds the exact binary value half to even) *)
Definition fmt0 (a e : N) : list N := decimal (rhe a (2 ^ e)).
Definition fmt1 (a e : N) : list N :=
  let n := rhe (10 * a) (2 ^ e) in decimal (n / 10) ++ [46] ++ [48 + n mod 10].

Definition prefixes : list (N * list N) :=
  [ (10, [107; 105]); (20, [77; 105]); (30, [71; 105]);
    (40, [84; 105]); (50, [80; 105]); (60, [69; 105]) ].     (* ki Mi Gi Ti Pi Ei *)

Fixpoint rc_loop (c' : N) (ps : list (N * list N)) : option (list N) :=
  match ps with
  | [] => None
  | (e, name) :: r =>
      let s1 := fmt1 c' e in
      let s := if (3 <? length s1)%nat then fmt0 c' e else s1 in
      if (length s <=? 3)%nat then Some (s ++ [32] ++ name) else rc_loop c' r
  end.

(* f"{x:,.0f}": thousands separators *)
Fixpoint commas_rev (l : list N) (k : nat) : list N :=   (* l = digits, least significant first *)
  match l with
  | [] => []
  | d :: r => match k, r with
              | 2%nat, _ :: _ => d :: 44 :: commas_rev r 0
              | _, _ => d :: commas_rev r (S k)
              end
  end.
Definition commas (digits : list N) : list N := rev (commas_rev (rev digits) 0).

Definition readable_count (c : N) : list N :=
  let c' := rn53 c in
  let s := fmt0 c' 0 in
  if (length s <=? 3)%nat then s ++ [32]
  else match rc_loop c' prefixes with
       | Some r => r
       | None => commas (fmt0 c' 60) ++ [32; 69; 105]
       end.

(* ---------- specification side: parse the text back ---------- *)
(* result: (numerator, denominator (1 or 10), binary exponent of the prefix) *)
Fixpoint parse_digits (l : list N) (acc : N) : option (N * list N) :=
  match l with
  | d :: r => if (48 <=? d) && (d <=? 57) then parse_digits r (10 * acc + (d - 48))
              else Some (acc, l)
  | [] => Some (acc, [])
  end.
Definition prefix_exp (name : list N) : option N :=
  match name with
  | [] => Some 0
  | _ => match filter (fun p => if list_eq_dec N.eq_dec (snd p) name then true else false) prefixes with
         | (e, _) :: _ => Some e | [] => None end
  end.
Definition starts_digit (l : list N) : bool :=
  match l with d :: _ => (48 <=? d) && (d <=? 57) | [] => false end.
Definition parse_readable (s : list N) : option (N * N * N) :=
  if negb (starts_digit s) then None else
  match parse_digits s 0 with
  | Some (ip, 46 :: d :: 32 :: name) =>
      if (48 <=? d) && (d <=? 57) then
        match prefix_exp name with Some e => Some (10 * ip + (d - 48), 10, e) | None => None end
      else None
  | Some (ip, 32 :: name) =>
      match prefix_exp name with Some e => Some (ip, 1, e) | None => None end
  | _ => None
  end.

(* "within rounding distance": |num/den - c/2^e| <= 1/(2 den) *)
Definition close_to (c num den e : N) : Prop :=
  (2 * Z.abs (Z.of_N (num * 2 ^ e) - Z.of_N (c * den)) <= Z.of_N (2 ^ e))%Z.

(* ---------- chunk grid and reported statistics ---------- *)
Definition axis_chunks (size cs : N) : list (N * N) :=
  map (fun i => (i * cs, N.min ((i + 1) * cs) size)) (nseq 0 (N.to_nat (nceil_div size cs))).

Definition grid_chunks (sz cs : N * N * N) : list ((N * N) * (N * N) * (N * N)) :=
  let '(sx, sy, sz_) := sz in let '(cx, cy, cz) := cs in
  flat_map (fun xr => flat_map (fun yr => map (fun zr => (xr, yr, zr)) (axis_chunks sz_ cz))
                               (axis_chunks sy cy)) (axis_chunks sx cx).

Definition chunk_voxels (c : (N * N) * (N * N) * (N * N)) : N :=
  let '((x0, x1), (y0, y1), (z0, z1)) := c in (x1 - x0) * (y1 - y0) * (z1 - z0).

(* numpy int64 product as used by show_scales_info *)
Definition wrap_i64 (z : Z) : Z := ((z + 2 ^ 63) mod 2 ^ 64 - 2 ^ 63)%Z.
Definition stats_num_chunks (sz cs : N * N * N) : Z :=
  let '(sx, sy, sz_) := sz in let '(cx, cy, cz) := cs in
  wrap_i64 (Z.of_N (((sx - 1) / cx + 1) * ((sy - 1) / cy + 1) * ((sz_ - 1) / cz + 1))).
Definition stats_size_bytes (sz : N * N * N) (itemsize channels : N) : Z :=
  let '(sx, sy, sz_) := sz in
  wrap_i64 (wrap_i64 (Z.of_N (sx * sy * sz_)) * Z.of_N itemsize * Z.of_N channels).

(* totals of show_scales_info: `total += x` with numpy int64 scalars (the first
   addition, Python int 0 + int64, is exact; later ones wrap like int64) over
   one row per (scale, chunk size) pair *)
Definition stats_totals (rows : list (Z * Z)) : Z * Z :=
  fold_left (fun acc r => (wrap_i64 (fst acc + fst r), wrap_i64 (snd acc + snd r)))
            rows (0, 0)%Z.
Definition info_rows (scales : list ((N * N * N) * list (N * N * N))) (itemsize channels : N)
  : list (Z * Z) :=
  flat_map (fun s => map (fun cs => (stats_num_chunks (fst s) cs,
                                     stats_size_bytes (fst s) itemsize channels)) (snd s)) scales.
