(* Proofs for the C20 theorems (Properties/C20.v): readable_count round trip,
   float(count) rounding error, chunk grid counts / partition / cover. *)
From Coq Require Import NArith ZArith List Bool Lia ZifyBool ZifyNat ZifyN.
From NGS Require Import Val Ints Readable.
Import ListNotations.
Open Scope N_scope.

Ltac Zify.zify_post_hook ::= Z.to_euclidean_division_equations.

(* ---------- decimal ---------- *)
Lemma dec_fuel_acc : forall f n acc, dec_fuel f n acc = dec_fuel f n [] ++ acc.
Proof.
  induction f as [|f IH]; intros n acc.
  - reflexivity.
  - cbn [dec_fuel]. destruct (n <? 10) eqn:E.
    + reflexivity.
    + rewrite (IH (n / 10) ((48 + n mod 10) :: acc)).
      rewrite (IH (n / 10) [48 + n mod 10]).
      rewrite <- app_assoc. reflexivity.
Qed.

Lemma pow2_succ_nat : forall f, 2 ^ N.of_nat (S f) = 2 * 2 ^ N.of_nat f.
Proof. intros f. rewrite Nat2N.inj_succ. apply N.pow_succ_r'. Qed.

Lemma dec_fuel_indep : forall f g n acc,
  n < 2 ^ N.of_nat (S f) -> n < 2 ^ N.of_nat (S g) ->
  dec_fuel (S f) n acc = dec_fuel (S g) n acc.
Proof.
  induction f as [|f IH]; intros g n acc Hf Hg.
  - change (2 ^ N.of_nat 1) with 2 in Hf.
    cbn [dec_fuel]. assert (E : (n <? 10) = true) by lia. rewrite E. reflexivity.
  - cbn [dec_fuel]. destruct (n <? 10) eqn:E; [reflexivity|].
    destruct g as [|g].
    + change (2 ^ N.of_nat 1) with 2 in Hg. lia.
    + fold (dec_fuel (S f)). fold (dec_fuel (S g)).
      rewrite pow2_succ_nat in Hf, Hg.
      apply IH; lia.
Qed.

Lemma decimal_eq : forall n,
  decimal n = if n <? 10 then [48 + n] else decimal (n / 10) ++ [48 + n mod 10].
Proof.
  intros n. unfold decimal at 1.
  destruct (n <? 10) eqn:E.
  - cbn [dec_fuel]. rewrite E. rewrite N.mod_small by lia. reflexivity.
  - cbn [dec_fuel]. rewrite E.
    assert (Hn : 10 <= n) by lia.
    assert (Hl : 3 <= N.log2 n).
    { apply N.log2_le_pow2; [lia|]. change (2^3) with 8. lia. }
    destruct (N.to_nat (N.log2 n)) as [|f] eqn:Ef; [lia|].
    rewrite dec_fuel_acc. f_equal.
    unfold decimal. apply dec_fuel_indep.
    + assert (H := N.log2_spec n ltac:(lia)).
      replace (N.log2 n) with (N.of_nat (S f)) in H by lia.
      rewrite N.pow_succ_r' in H. lia.
    + rewrite Nat2N.inj_succ, N2Nat.id.
      destruct (N.eq_dec (n / 10) 0) as [Z0|NZ].
      * rewrite Z0. reflexivity.
      * assert (H := N.log2_spec (n/10) ltac:(lia)).
        lia.
Qed.

Lemma decimal_len_pos : forall n, (1 <= length (decimal n))%nat.
Proof.
  intros n. rewrite decimal_eq. destruct (n <? 10); [cbn [length]; lia|].
  rewrite app_length. cbn [length]. lia.
Qed.

Lemma decimal_len_small : forall n, n < 10 -> length (decimal n) = 1%nat.
Proof. intros n H. rewrite decimal_eq. assert (E : (n <? 10) = true) by lia. rewrite E. reflexivity. Qed.

Lemma decimal_len_step : forall n, 10 <= n -> length (decimal n) = S (length (decimal (n / 10))).
Proof.
  intros n H. rewrite (decimal_eq n). assert (E : (n <? 10) = false) by lia. rewrite E.
  rewrite app_length. cbn [length]. lia.
Qed.

Lemma decimal_len_ge2 : forall n, 10 <= n -> (2 <= length (decimal n))%nat.
Proof. intros n H. rewrite decimal_len_step by exact H. pose proof (decimal_len_pos (n / 10)). lia. Qed.

Lemma decimal_len_le3 : forall n, n < 1000 -> (length (decimal n) <= 3)%nat.
Proof.
  intros n H.
  destruct (N.lt_ge_cases n 10) as [H1|H1]; [rewrite decimal_len_small by lia; lia|].
  rewrite decimal_len_step by exact H1.
  destruct (N.lt_ge_cases (n / 10) 10) as [H2|H2]; [rewrite decimal_len_small by lia; lia|].
  rewrite decimal_len_step by exact H2.
  rewrite decimal_len_small; [lia|]. lia.
Qed.

Lemma decimal_len_ge4 : forall n, 1000 <= n -> (4 <= length (decimal n))%nat.
Proof.
  intros n H.
  rewrite decimal_len_step by lia.
  rewrite decimal_len_step by lia.
  pose proof (decimal_len_ge2 (n / 10 / 10) ltac:(lia)). lia.
Qed.

Lemma decimal_len3_iff : forall n, (length (decimal n) <=? 3)%nat = (n <? 1000).
Proof.
  intros n. destruct (N.lt_ge_cases n 1000) as [H|H].
  - pose proof (decimal_len_le3 n H). lia.
  - pose proof (decimal_len_ge4 n H). lia.
Qed.

Definition is_digit (d : N) : bool := (48 <=? d) && (d <=? 57).

Lemma decimal_starts_digit : forall n rest, starts_digit (decimal n ++ rest) = true.
Proof.
  intros n. induction n as [n IH] using (well_founded_induction N.lt_wf_0). intros rest.
  rewrite decimal_eq. destruct (n <? 10) eqn:E.
  - cbn [app starts_digit]. lia.
  - rewrite <- app_assoc. apply IH. lia.
Qed.

Lemma parse_decimal : forall n rest, parse_digits (decimal n ++ rest) 0 = parse_digits rest n.
Proof.
  intros n. induction n as [n IH] using (well_founded_induction N.lt_wf_0). intros rest.
  rewrite decimal_eq. destruct (n <? 10) eqn:E.
  - cbn [app parse_digits].
    assert (E1 : (48 <=? 48 + n) && (48 + n <=? 57) = true) by lia. rewrite E1.
    f_equal. lia.
  - rewrite <- app_assoc. rewrite IH by lia.
    cbn [app parse_digits].
    assert (E1 : (48 <=? 48 + n mod 10) && (48 + n mod 10 <=? 57) = true) by lia. rewrite E1.
    f_equal. lia.
Qed.

(* ---------- rhe ---------- *)
Lemma rhe_bounds_N : forall a b, 0 < b ->
  2 * (rhe a b * b) <= 2 * a + b /\ 2 * a <= 2 * (rhe a b * b) + b.
Proof.
  intros a b Hb. unfold rhe.
  destruct ((b <? 2 * (a mod b)) || ((2 * (a mod b) =? b) && N.odd (a / b))) eqn:E.
  - assert (H : b <= 2 * (a mod b)) by lia.
    pose proof (N.div_mod a b ltac:(lia)) as D.
    pose proof (N.mod_lt a b ltac:(lia)) as M.
    rewrite N.mul_add_distr_r. nia.
  - assert (H : 2 * (a mod b) <= b) by lia.
    pose proof (N.div_mod a b ltac:(lia)) as D.
    pose proof (N.mod_lt a b ltac:(lia)) as M.
    nia.
Qed.

Lemma rhe_bounds : forall a b, 0 < b ->
  (2 * Z.abs (Z.of_N (rhe a b * b) - Z.of_N a) <= Z.of_N b)%Z.
Proof. intros a b Hb. pose proof (rhe_bounds_N a b Hb). lia. Qed.

Lemma rhe_1 : forall a, rhe a 1 = a.
Proof.
  intros a. unfold rhe. rewrite N.mod_1_r, N.div_1_r.
  change (2 * 0) with 0. cbn [N.ltb N.compare N.eqb orb andb]. reflexivity.
Qed.

Lemma rhe_le : forall a b k, 0 < b -> 2 * a < (2 * k + 1) * b -> rhe a b <= k.
Proof.
  intros a b k Hb H. pose proof (rhe_bounds_N a b Hb) as [B1 B2].
  destruct (N.le_gt_cases (rhe a b) k) as [L|L]; [exact L|].
  assert ((k + 1) * b <= rhe a b * b) by (apply N.mul_le_mono_r; lia). nia.
Qed.

Lemma rhe_ge : forall a b k, 0 < b -> (2 * k + 1) * b < 2 * a -> k + 1 <= rhe a b.
Proof.
  intros a b k Hb H. pose proof (rhe_bounds_N a b Hb) as [B1 B2].
  destruct (N.le_gt_cases (k + 1) (rhe a b)) as [L|L]; [exact L|].
  assert (rhe a b * b <= k * b) by (apply N.mul_le_mono_r; lia). nia.
Qed.

Lemma rhe_ge_inv : forall a b k, 0 < b -> k + 1 <= rhe a b -> (2 * k + 1) * b <= 2 * a.
Proof.
  intros a b k Hb H. pose proof (rhe_bounds_N a b Hb) as [B1 B2].
  assert ((k + 1) * b <= rhe a b * b) by (apply N.mul_le_mono_r; lia). nia.
Qed.

Lemma rhe_lt_inv : forall a b k, 0 < b -> rhe a b <= k -> 2 * a <= (2 * k + 1) * b.
Proof.
  intros a b k Hb H. pose proof (rhe_bounds_N a b Hb) as [B1 B2].
  assert (rhe a b * b <= k * b) by (apply N.mul_le_mono_r; lia). nia.
Qed.

(* ---------- parsing back what is printed ---------- *)
Lemma parse_int : forall m name e, prefix_exp name = Some e ->
  parse_readable (decimal m ++ [32] ++ name) = Some (m, 1, e).
Proof.
  intros m name e He. unfold parse_readable.
  rewrite decimal_starts_digit. cbn [negb].
  rewrite parse_decimal. cbn [app].
  change (parse_digits (32 :: name) m) with (Some (m, 32 :: name)).
  cbv beta iota. rewrite He. reflexivity.
Qed.

Lemma parse_frac : forall n name e, prefix_exp name = Some e ->
  parse_readable ((decimal (n / 10) ++ [46] ++ [48 + n mod 10]) ++ [32] ++ name) = Some (n, 10, e).
Proof.
  intros n name e He. unfold parse_readable.
  rewrite <- app_assoc.
  rewrite decimal_starts_digit. cbn [negb].
  rewrite parse_decimal. cbn [app].
  change (parse_digits (46 :: 48 + n mod 10 :: 32 :: name) (n / 10))
    with (Some (n / 10, 46 :: 48 + n mod 10 :: 32 :: name)).
  cbv beta iota.
  assert (E1 : (48 <=? 48 + n mod 10) && (48 + n mod 10 <=? 57) = true) by lia. rewrite E1.
  rewrite He. f_equal. f_equal. f_equal. lia.
Qed.

(* ---------- float(count) ---------- *)
Lemma rn53_small : forall c, c < 2 ^ 53 -> rn53 c = c.
Proof. intros c H. unfold rn53. assert (E : (c <? 2 ^ 53) = true) by lia. rewrite E. reflexivity. Qed.

Lemma rn53_big : forall c, 2 ^ 53 <= c ->
  exists b, 0 < b /\ rn53 c = rhe c b * b /\ 2 ^ 52 * b <= c /\ c < 2 ^ 53 * b /\
            b = 2 ^ (N.log2 c - 52).
Proof.
  intros c H. unfold rn53. assert (E : (c <? 2 ^ 53) = false) by lia. rewrite E.
  exists (2 ^ (N.log2 c - 52)).
  assert (P53 : 0 < 2 ^ 53) by (apply N.neq_0_lt_0, N.pow_nonzero; lia).
  assert (Hl : 53 <= N.log2 c) by (apply N.log2_le_pow2; lia).
  pose proof (N.log2_spec c ltac:(lia)) as [S1 S2].
  assert (Hb : 0 < 2 ^ (N.log2 c - 52)) by (apply N.neq_0_lt_0, N.pow_nonzero; lia).
  rewrite <- !N.pow_add_r.
  replace (52 + (N.log2 c - 52)) with (N.log2 c) by lia.
  replace (53 + (N.log2 c - 52)) with (N.succ (N.log2 c)) by lia.
  repeat split; assumption.
Qed.

Lemma rn53_error : forall c,
  (c < 2 ^ 53 -> rn53 c = c) /\
  (2 ^ 53 <= c ->
   (Z.abs (Z.of_N (rn53 c) - Z.of_N c) * 2 ^ 53 <= Z.of_N c)%Z).
Proof.
  intros c. split; [apply rn53_small|].
  intros H. destruct (rn53_big c H) as (b & Hb & E & L1 & L2 & _).
  rewrite E. pose proof (rhe_bounds c b Hb) as R.
  change (2 ^ 53)%Z with (2 * 2 ^ 52)%Z.
  assert (L1' : (2 ^ 52 * Z.of_N b <= Z.of_N c)%Z).
  { change (2 ^ 52)%Z with (Z.of_N (2 ^ 52)). lia. }
  set (d := Z.abs (Z.of_N (rhe c b * b) - Z.of_N c)) in *.
  set (P := (2 ^ 52)%Z) in *.
  assert (HP : (0 <= P)%Z) by (subst P; apply Z.pow_nonneg; lia).
  assert ((2 * d) * P <= Z.of_N b * P)%Z by (apply Z.mul_le_mono_nonneg_r; assumption).
  lia.
Qed.

Lemma rn53_le_2p60 : forall c, c < 2 ^ 60 -> rn53 c <= 2 ^ 60.
Proof.
  intros c H. destruct (N.lt_ge_cases c (2 ^ 53)) as [S|B].
  - rewrite rn53_small by exact S. lia.
  - destruct (rn53_big c B) as (b & Hb & E & L1 & L2 & Eb).
    rewrite E.
    assert (R : rhe c b <= 2 ^ 53) by (apply rhe_le; [exact Hb|lia]).
    assert (Hl : N.log2 c < 60) by (apply N.log2_lt_pow2; lia).
    assert (Hl2 : 53 <= N.log2 c) by (apply N.log2_le_pow2; lia).
    assert (rhe c b * b <= 2 ^ 53 * b) by (apply N.mul_le_mono_r; exact R).
    assert (2 ^ 53 * b <= 2 ^ 60).
    { rewrite Eb, <- N.pow_add_r. apply N.pow_le_mono_r; lia. }
    lia.
Qed.

Lemma rn53_ge_1000 : forall c, 1000 <= c -> 1000 <= rn53 c.
Proof.
  intros c H. destruct (N.lt_ge_cases c (2 ^ 53)) as [S|B].
  - rewrite rn53_small by exact S. exact H.
  - destruct (rn53_big c B) as (b & Hb & E & L1 & L2 & Eb).
    rewrite E. pose proof (rhe_bounds_N c b Hb) as [B1 B2].
    assert (P : 2 ^ 52 = 4503599627370496) by reflexivity. lia.
Qed.

(* ---------- the prefix loop ---------- *)
Definition good (c' : N) (s : list N) : Prop :=
  (length s <= 6)%nat /\
  exists num den e, parse_readable s = Some (num, den, e) /\ 10 <= num /\
                    (den = 1 \/ den = 10) /\ close_to c' num den e.

Definition Inv (c' e : N) : Prop := 1999 * 2 ^ e <= 2048 * c'.

Lemma rc_step : forall c' e name r,
  Inv c' e -> prefix_exp name = Some e -> length name = 2%nat ->
  (exists s, rc_loop c' ((e, name) :: r) = Some s /\ good c' s) \/
  (rc_loop c' ((e, name) :: r) = rc_loop c' r /\ Inv c' (e + 10) /\
   100 <= rhe (10 * c') (2 ^ e) /\ 1000 <= rhe c' (2 ^ e)).
Proof.
  intros c' e name r HI He Hn. unfold Inv in HI.
  assert (Hb : 0 < 2 ^ e) by (apply N.neq_0_lt_0, N.pow_nonzero; lia).
  cbn [rc_loop]. unfold fmt1, fmt0.
  set (b := 2 ^ e) in *.
  set (n := rhe (10 * c') b).
  set (m := rhe c' b).
  set (s1 := decimal (n / 10) ++ [46] ++ [48 + n mod 10]).
  assert (Hlen1 : length s1 = (length (decimal (n / 10)) + 2)%nat).
  { unfold s1. rewrite !app_length. cbn [length]. lia. }
  destruct (N.lt_ge_cases n 100) as [Hn100|Hn100].
  - (* one decimal place *)
    left.
    assert (Hl : length (decimal (n / 10)) = 1%nat) by (apply decimal_len_small; lia).
    assert (E1 : (3 <? length s1)%nat = false) by lia.
    rewrite E1.
    assert (E2 : (length s1 <=? 3)%nat = true) by lia.
    rewrite E2.
    eexists. split; [reflexivity|]. split.
    + rewrite app_length, Hlen1, Hl. cbn [length app]. lia.
    + exists n, 10, e. split; [apply parse_frac; exact He|].
      split; [|split; [right; reflexivity|]].
      * change 10 with (9 + 1) at 1. apply rhe_ge; [exact Hb|]. lia.
      * unfold close_to. fold b. pose proof (rhe_bounds (10 * c') b Hb) as R. fold n in R. lia.
  - assert (Hl : (2 <= length (decimal (n / 10)))%nat) by (apply decimal_len_ge2; lia).
    assert (E1 : (3 <? length s1)%nat = true) by lia.
    rewrite E1. rewrite decimal_len3_iff.
    assert (Hn' : (2 * 99 + 1) * b <= 2 * (10 * c')).
    { apply rhe_ge_inv; [exact Hb|]. fold n. lia. }
    destruct (N.lt_ge_cases m 1000) as [Hm|Hm].
    + left. assert (E2 : (m <? 1000) = true) by lia. rewrite E2.
      eexists. split; [reflexivity|]. split.
      * rewrite app_length. pose proof (decimal_len_le3 m Hm). cbn [length app]. lia.
      * exists m, 1, e. split; [apply parse_int; exact He|].
        split; [|split; [left; reflexivity|]].
        -- change 10 with (9 + 1) at 1. apply rhe_ge; [exact Hb|]. lia.
        -- unfold close_to. fold b. pose proof (rhe_bounds c' b Hb) as R. fold m in R. lia.
    + right. assert (E2 : (m <? 1000) = false) by lia. rewrite E2.
      split; [reflexivity|]. split; [|split; [exact Hn100|exact Hm]].
      unfold Inv. rewrite N.pow_add_r. fold b. change (2 ^ 10) with 1024.
      assert (Hm' : (2 * 999 + 1) * b <= 2 * c').
      { apply rhe_ge_inv; [exact Hb|]. fold m. lia. }
      lia.
Qed.

Lemma rc_loop_good_ext : forall c', 1000 <= c' -> c' <= 999 * 2 ^ 60 ->
  exists s, rc_loop c' prefixes = Some s /\ good c' s.
Proof.
  intros c' Hlo Hhi. unfold prefixes.
  assert (I10 : Inv c' 10) by (unfold Inv; change (2 ^ 10) with 1024; lia).
  destruct (rc_step c' 10 [107; 105] [(20, [77; 105]); (30, [71; 105]); (40, [84; 105]); (50, [80; 105]); (60, [69; 105])] I10 eq_refl eq_refl)
    as [G|(E & I20 & _)]; [exact G|]. rewrite E; clear E. change (10 + 10) with 20 in I20.
  destruct (rc_step c' 20 [77; 105] [(30, [71; 105]); (40, [84; 105]); (50, [80; 105]); (60, [69; 105])] I20 eq_refl eq_refl)
    as [G|(E & I30 & _)]; [exact G|]. rewrite E; clear E. change (20 + 10) with 30 in I30.
  destruct (rc_step c' 30 [71; 105] [(40, [84; 105]); (50, [80; 105]); (60, [69; 105])] I30 eq_refl eq_refl)
    as [G|(E & I40 & _)]; [exact G|]. rewrite E; clear E. change (30 + 10) with 40 in I40.
  destruct (rc_step c' 40 [84; 105] [(50, [80; 105]); (60, [69; 105])] I40 eq_refl eq_refl)
    as [G|(E & I50 & _)]; [exact G|]. rewrite E; clear E. change (40 + 10) with 50 in I50.
  destruct (rc_step c' 50 [80; 105] [(60, [69; 105])] I50 eq_refl eq_refl)
    as [G|(E & I60 & _)]; [exact G|]. rewrite E; clear E. change (50 + 10) with 60 in I60.
  destruct (rc_step c' 60 [69; 105] [] I60 eq_refl eq_refl)
    as [G|(_ & _ & _ & Hbad)]; [exact G|]. exfalso.
  assert (Hb : 0 < 2 ^ 60) by (apply N.neq_0_lt_0, N.pow_nonzero; lia).
  assert (R : rhe c' (2 ^ 60) <= 999) by (apply rhe_le; [exact Hb|lia]).
  lia.
Qed.

Lemma rc_loop_good : forall c', 1000 <= c' -> c' <= 2 ^ 60 ->
  exists s, rc_loop c' prefixes = Some s /\ good c' s.
Proof.
  intros c' Hlo Hhi. apply rc_loop_good_ext; [exact Hlo|].
  assert (Hb : 0 < 2 ^ 60) by (apply N.neq_0_lt_0, N.pow_nonzero; lia). lia.
Qed.

Lemma readable_count_small : forall c, c < 1000 -> readable_count c = decimal c ++ [32].
Proof.
  intros c H. unfold readable_count, fmt0.
  assert (P : 2 ^ 53 = 9007199254740992) by reflexivity.
  rewrite rn53_small by lia.
  change (2 ^ 0) with 1. rewrite rhe_1, decimal_len3_iff.
  assert (E : (c <? 1000) = true) by lia. rewrite E. reflexivity.
Qed.

Lemma readable_count_big : forall c, 1000 <= c -> c < 2 ^ 60 ->
  exists s, readable_count c = s /\ good (rn53 c) s.
Proof.
  intros c Hlo Hhi. unfold readable_count, fmt0.
  change (2 ^ 0) with 1. rewrite rhe_1, decimal_len3_iff.
  pose proof (rn53_ge_1000 c Hlo) as H1. pose proof (rn53_le_2p60 c Hhi) as H2.
  assert (E : (rn53 c <? 1000) = false) by lia. rewrite E.
  destruct (rc_loop_good (rn53 c) H1 H2) as (s & Es & G).
  rewrite Es. exists s. split; [reflexivity|exact G].
Qed.

Theorem readable_len : forall c,
  c < 2 ^ 60 -> (length (readable_count c) <= 6)%nat.
Proof.
  intros c H. destruct (N.lt_ge_cases c 1000) as [S|B].
  - rewrite readable_count_small by exact S. rewrite app_length.
    pose proof (decimal_len_le3 c S). cbn [length]. lia.
  - destruct (readable_count_big c B H) as (s & Es & G & _). rewrite Es. exact G.
Qed.

Theorem readable_small_exact : forall c,
  c < 1000 ->
  readable_count c = decimal c ++ [32] /\
  parse_readable (readable_count c) = Some (c, 1, 0).
Proof.
  intros c H. split; [apply readable_count_small; exact H|].
  rewrite readable_count_small by exact H.
  apply (parse_int c [] 0). reflexivity.
Qed.

Theorem readable_two_digits_and_close : forall c,
  1000 <= c -> c < 2 ^ 60 ->
  exists num den e,
    parse_readable (readable_count c) = Some (num, den, e) /\
    10 <= num /\ (den = 1 \/ den = 10) /\
    close_to (rn53 c) num den e.
Proof.
  intros c Hlo Hhi. destruct (readable_count_big c Hlo Hhi) as (s & Es & _ & G).
  rewrite Es. exact G.
Qed.

(* ---------- chunk grid ---------- *)
Lemma nseq_length : forall k s, length (nseq s k) = k.
Proof. induction k as [|k IH]; intros s; cbn [nseq length]; [reflexivity|rewrite IH; reflexivity]. Qed.

Lemma In_nseq : forall k s i, In i (nseq s k) <-> s <= i < s + N.of_nat k.
Proof.
  induction k as [|k IH]; intros s i; cbn [nseq In].
  - lia.
  - rewrite IH. lia.
Qed.

Lemma axis_chunks_length : forall size cs,
  length (axis_chunks size cs) = N.to_nat (nceil_div size cs).
Proof. intros. unfold axis_chunks. rewrite map_length, nseq_length. reflexivity. Qed.

Lemma flat_map_length_const : forall (A B : Type) (f : A -> list B) (l : list A) k,
  (forall a, length (f a) = k) -> length (flat_map f l) = (length l * k)%nat.
Proof.
  intros A B f l k H. induction l as [|a l IH]; cbn [flat_map length]; [reflexivity|].
  rewrite app_length, H, IH. lia.
Qed.

Lemma grid_chunks_length : forall sx sy sz cx cy cz,
  length (grid_chunks (sx, sy, sz) (cx, cy, cz)) =
  (N.to_nat (nceil_div sx cx) * (N.to_nat (nceil_div sy cy) * N.to_nat (nceil_div sz cz)))%nat.
Proof.
  intros. unfold grid_chunks.
  rewrite (flat_map_length_const _ _ _ _ (N.to_nat (nceil_div sy cy) * N.to_nat (nceil_div sz cz))%nat).
  - rewrite axis_chunks_length. reflexivity.
  - intros xr. rewrite (flat_map_length_const _ _ _ _ (N.to_nat (nceil_div sz cz))).
    + rewrite axis_chunks_length. reflexivity.
    + intros yr. rewrite map_length, axis_chunks_length. reflexivity.
Qed.

Lemma wrap_i64_id : forall z, (0 <= z < 2 ^ 63)%Z -> wrap_i64 z = z.
Proof.
  intros z H. unfold wrap_i64.
  assert (P : (2 ^ 64 = 2 * 2 ^ 63)%Z) by reflexivity. rewrite P.
  set (h := (2 ^ 63)%Z) in *.
  rewrite Z.mod_small by lia. lia.
Qed.

Lemma nceil_div_pos : forall s c, 0 < s -> 0 < c -> (s - 1) / c + 1 = nceil_div s c.
Proof.
  intros s c Hs Hc. unfold nceil_div.
  replace (s + c - 1) with ((s - 1) + 1 * c) by lia.
  rewrite N.div_add by lia. reflexivity.
Qed.

Theorem chunk_count : forall sx sy sz cx cy cz,
  0 < sx -> 0 < sy -> 0 < sz -> 0 < cx -> 0 < cy -> 0 < cz ->
  ((sx - 1) / cx + 1) * ((sy - 1) / cy + 1) * ((sz - 1) / cz + 1) < 2 ^ 63 ->
  stats_num_chunks (sx, sy, sz) (cx, cy, cz)
  = Z.of_nat (length (grid_chunks (sx, sy, sz) (cx, cy, cz))).
Proof.
  intros sx sy sz cx cy cz Hsx Hsy Hsz Hcx Hcy Hcz Hlt.
  unfold stats_num_chunks. rewrite grid_chunks_length.
  rewrite wrap_i64_id.
  - rewrite !nceil_div_pos by assumption. lia.
  - split; [apply N2Z.is_nonneg|]. change (2 ^ 63)%Z with (Z.of_N (2 ^ 63)).
    apply N2Z.inj_lt. exact Hlt.
Qed.

Definition span (r : N * N) : N := snd r - fst r.

Lemma axis_sum_aux : forall size cs k s,
  sumN (map span (map (fun i => (i * cs, N.min ((i + 1) * cs) size)) (nseq s k)))
  + N.min (s * cs) size = N.min ((s + N.of_nat k) * cs) size.
Proof.
  intros size cs. induction k as [|k IH]; intros s.
  - cbn [nseq map sumN fold_right]. replace (s + N.of_nat 0) with s by lia. lia.
  - cbn [nseq map sumN fold_right]. fold (sumN (map span (map (fun i => (i * cs, N.min ((i + 1) * cs) size)) (nseq (s + 1) k)))).
    specialize (IH (s + 1)).
    replace (s + N.of_nat (S k)) with (s + 1 + N.of_nat k) by lia.
    unfold span at 1. cbn [fst snd].
    rewrite N.mul_add_distr_r in *. lia.
Qed.

Lemma axis_sum : forall size cs, 0 < cs -> sumN (map span (axis_chunks size cs)) = size.
Proof.
  intros size cs Hc. unfold axis_chunks.
  pose proof (axis_sum_aux size cs (N.to_nat (nceil_div size cs)) 0) as H.
  rewrite N2Nat.id in H. change (0 * cs) with 0 in H.
  assert (size <= nceil_div size cs * cs).
  { unfold nceil_div.
    pose proof (N.div_mod (size + cs - 1) cs ltac:(lia)) as D.
    pose proof (N.mod_lt (size + cs - 1) cs ltac:(lia)) as M. nia. }
  change (0 + nceil_div size cs) with (nceil_div size cs) in H. lia.
Qed.

Lemma sumN_app : forall l1 l2, sumN (l1 ++ l2) = sumN l1 + sumN l2.
Proof. induction l1 as [|a l IH]; intros l2; cbn [app sumN fold_right]; [reflexivity|]. fold (sumN (l ++ l2)). fold (sumN l). rewrite IH. lia. Qed.

Lemma sumN_flat_map : forall (A B : Type) (f : B -> N) (g : A -> list B) l,
  sumN (map f (flat_map g l)) = sumN (map (fun a => sumN (map f (g a))) l).
Proof.
  intros A B f g l. induction l as [|a l IH]; cbn [flat_map map]; [reflexivity|].
  rewrite map_app, sumN_app, IH. reflexivity.
Qed.

Lemma sumN_scale : forall (A : Type) (h : A -> N) k l,
  sumN (map (fun a => k * h a) l) = k * sumN (map h l).
Proof.
  intros A h k l. induction l as [|a l IH]; cbn [map sumN fold_right]; [lia|].
  fold (sumN (map (fun a => k * h a) l)). fold (sumN (map h l)). rewrite IH. lia.
Qed.

Lemma sumN_ext : forall (A : Type) (f g : A -> N) l, (forall a, f a = g a) -> sumN (map f l) = sumN (map g l).
Proof. intros A f g l H. f_equal. apply map_ext. exact H. Qed.

Theorem chunk_voxels_total : forall sx sy sz cx cy cz,
  0 < cx -> 0 < cy -> 0 < cz ->
  fold_right N.add 0 (map chunk_voxels (grid_chunks (sx, sy, sz) (cx, cy, cz)))
  = sx * sy * sz.
Proof.
  intros sx sy sz cx cy cz Hcx Hcy Hcz.
  change (fold_right N.add 0) with sumN. unfold grid_chunks.
  rewrite sumN_flat_map.
  rewrite (sumN_ext _ _ (fun xr => span xr * (sy * sz))).
  - rewrite (sumN_ext _ _ (fun xr => (sy * sz) * span xr)) by (intros; lia).
    rewrite sumN_scale, axis_sum by exact Hcx. lia.
  - intros xr. rewrite sumN_flat_map.
    rewrite (sumN_ext _ _ (fun yr => (span xr * sz) * span yr)).
    + rewrite sumN_scale, axis_sum by exact Hcy. lia.
    + intros yr. rewrite map_map.
      rewrite (sumN_ext _ _ (fun zr => (span xr * span yr) * span zr)).
      * rewrite sumN_scale, axis_sum by exact Hcz. lia.
      * intros zr. destruct xr, yr, zr. reflexivity.
Qed.

Theorem size_bytes : forall sx sy sz it ch,
  sx * sy * sz * it * ch < 2 ^ 63 -> 0 < it -> 0 < ch ->
  stats_size_bytes (sx, sy, sz) it ch = Z.of_N (sx * sy * sz * it * ch).
Proof.
  intros sx sy sz it ch H Hit Hch. unfold stats_size_bytes.
  set (v := sx * sy * sz) in *.
  clearbody v.
  assert (Hv1 : v * 1 <= v * it) by (apply N.mul_le_mono_l; lia).
  assert (Hv2 : v * it * 1 <= v * it * ch) by (apply N.mul_le_mono_l; lia).
  assert (Hv : v <= v * it * ch) by lia.
  assert (P : (2 ^ 63)%Z = Z.of_N (2 ^ 63)) by reflexivity.
  rewrite (wrap_i64_id (Z.of_N v)) by (rewrite P; lia).
  rewrite wrap_i64_id by (rewrite P; lia). lia.
Qed.

Lemma axis_cover : forall size cs x, 0 < cs -> x < size ->
  forall r, (In r (axis_chunks size cs) /\ fst r <= x < snd r) <->
            r = (x / cs * cs, N.min ((x / cs + 1) * cs) size).
Proof.
  intros size cs x Hc Hx r. unfold axis_chunks. split.
  - intros [Hin Hr]. apply in_map_iff in Hin. destruct Hin as (i & Ei & Hi).
    subst r. cbn [fst snd] in Hr.
    assert (E : x / cs = i).
    { symmetry. rewrite N.mul_add_distr_r, N.mul_1_l in Hr.
      clear Hi. apply (N.div_unique x cs i (x - i * cs)); [lia|]. rewrite (N.mul_comm cs i). lia. }
    rewrite E. reflexivity.
  - intros E. subst r. cbn [fst snd]. split.
    + apply in_map_iff. exists (x / cs). split; [reflexivity|].
      apply In_nseq. rewrite N2Nat.id.
      rewrite <- (nceil_div_pos size cs) by lia.
      assert (x / cs <= (size - 1) / cs) by (apply N.div_le_mono; lia).
      generalize dependent (x / cs). generalize ((size - 1) / cs). intros; lia.
    + pose proof (N.div_mod x cs ltac:(lia)) as D.
      pose proof (N.mod_lt x cs ltac:(lia)) as M. lia.
Qed.

Lemma In_grid : forall sx sy sz cx cy cz xr yr zr,
  In (xr, yr, zr) (grid_chunks (sx, sy, sz) (cx, cy, cz)) <->
  In xr (axis_chunks sx cx) /\ In yr (axis_chunks sy cy) /\ In zr (axis_chunks sz cz).
Proof.
  intros. unfold grid_chunks. rewrite in_flat_map. split.
  - intros (xr' & Hx & H). apply in_flat_map in H. destruct H as (yr' & Hy & H).
    apply in_map_iff in H. destruct H as (zr' & E & Hz). inversion E; subst. auto.
  - intros (Hx & Hy & Hz). exists xr. split; [exact Hx|].
    apply in_flat_map. exists yr. split; [exact Hy|].
    apply in_map_iff. exists zr. split; [reflexivity|exact Hz].
Qed.

Theorem chunk_cover_unique : forall sx sy sz cx cy cz x y z,
  0 < cx -> 0 < cy -> 0 < cz -> x < sx -> y < sy -> z < sz ->
  exists! c, In c (grid_chunks (sx, sy, sz) (cx, cy, cz)) /\
    let '((x0, x1), (y0, y1), (z0, z1)) := c in
    x0 <= x < x1 /\ y0 <= y < y1 /\ z0 <= z < z1.
Proof.
  intros sx sy sz cx cy cz x y z Hcx Hcy Hcz Hx Hy Hz.
  pose proof (axis_cover sx cx x Hcx Hx) as Ax.
  pose proof (axis_cover sy cy y Hcy Hy) as Ay.
  pose proof (axis_cover sz cz z Hcz Hz) as Az.
  exists ((x / cx * cx, N.min ((x / cx + 1) * cx) sx),
          (y / cy * cy, N.min ((y / cy + 1) * cy) sy),
          (z / cz * cz, N.min ((z / cz + 1) * cz) sz)).
  split.
  - destruct (proj2 (Ax _) eq_refl) as [Ix Bx].
    destruct (proj2 (Ay _) eq_refl) as [Iy By].
    destruct (proj2 (Az _) eq_refl) as [Iz Bz].
    cbn [fst snd] in Bx, By, Bz.
    split; [apply In_grid; auto|]. auto.
  - intros [[[x0 x1] [y0 y1]] [z0 z1]] [Hin (Bx & By & Bz)].
    apply In_grid in Hin. destruct Hin as (Ix & Iy & Iz).
    rewrite <- (proj1 (Ax (x0, x1)) (conj Ix Bx)).
    rewrite <- (proj1 (Ay (y0, y1)) (conj Iy By)).
    rewrite <- (proj1 (Az (z0, z1)) (conj Iz Bz)).
    reflexivity.
Qed.
