(* C20, quantities at and beyond 2^60: readable_count keeps its six-character,
   two-significant-digit, within-rounding form up to 999 * 2^60 (the docstring's
   "unless the input exceeds 2**60" is conservative), and from the first value
   that shows as 1000 Ei it prints the thousands-separated integer number of
   Ei, within half a unit of float(count) / 2^60. *)
From Coq Require Import NArith ZArith List Bool Lia.
From NGS Require Import Val Ints Readable ReadableProofs.
Import ListNotations.
Open Scope N_scope.

Lemma pow2_pos : forall e, 0 < 2 ^ e.
Proof. intros e. apply N.neq_0_lt_0, N.pow_nonzero; lia. Qed.

(* float(count) does not cross a representable bound *)
Lemma rn53_le_999Ei : forall c, c <= 999 * 2 ^ 60 -> rn53 c <= 999 * 2 ^ 60.
Proof.
  intros c H. destruct (N.lt_ge_cases c (2 ^ 53)) as [S|B].
  - rewrite rn53_small by exact S. exact H.
  - destruct (rn53_big c B) as (b & Hb & E & L1 & L2 & Eb).
    rewrite E.
    assert (Hl : N.log2 c < 70).
    { apply N.log2_lt_pow2; [pose proof (pow2_pos 53); lia|].
      assert (999 * 2 ^ 60 < 2 ^ 70) by (vm_compute; reflexivity). lia. }
    assert (Hl2 : 53 <= N.log2 c) by (apply N.log2_le_pow2; [pose proof (pow2_pos 53); lia|lia]).
    set (j := N.log2 c - 52) in *.
    assert (E60 : 2 ^ 60 = 2 ^ (60 - j) * b).
    { rewrite Eb, <- N.pow_add_r. f_equal. lia. }
    set (k := 999 * 2 ^ (60 - j)).
    assert (EK : 999 * 2 ^ 60 = k * b) by (unfold k; rewrite E60; lia).
    assert (R : rhe c b <= k) by (apply rhe_le; [exact Hb|]; lia).
    rewrite EK. apply N.mul_le_mono_r. exact R.
Qed.

Lemma readable_count_big_ext : forall c, 1000 <= c -> c <= 999 * 2 ^ 60 ->
  exists s, readable_count c = s /\ good (rn53 c) s.
Proof.
  intros c Hlo Hhi. unfold readable_count, fmt0.
  change (2 ^ 0) with 1. rewrite rhe_1, decimal_len3_iff.
  pose proof (rn53_ge_1000 c Hlo) as H1. pose proof (rn53_le_999Ei c Hhi) as H2.
  assert (E : (rn53 c <? 1000) = false) by lia. rewrite E.
  destruct (rc_loop_good_ext (rn53 c) H1 H2) as (s & Es & G).
  rewrite Es. exists s. split; [reflexivity|exact G].
Qed.

Theorem readable_len_ext : forall c,
  c <= 999 * 2 ^ 60 -> (length (readable_count c) <= 6)%nat.
Proof.
  intros c H. destruct (N.lt_ge_cases c 1000) as [S|B].
  - rewrite readable_count_small by exact S. rewrite app_length.
    pose proof (decimal_len_le3 c S). cbn [length]. lia.
  - destruct (readable_count_big_ext c B H) as (s & Es & G & _). rewrite Es. exact G.
Qed.

Theorem readable_two_digits_and_close_ext : forall c,
  1000 <= c -> c <= 999 * 2 ^ 60 ->
  exists num den e,
    parse_readable (readable_count c) = Some (num, den, e) /\
    10 <= num /\ (den = 1 \/ den = 10) /\
    close_to (rn53 c) num den e.
Proof.
  intros c Hlo Hhi. destruct (readable_count_big_ext c Hlo Hhi) as (s & Es & _ & G).
  rewrite Es. exact G.
Qed.

(* ---------- beyond: no prefix fits ---------- *)
Lemma rc_fall : forall c' e name r,
  1000 <= rhe c' (2 ^ e) -> rc_loop c' ((e, name) :: r) = rc_loop c' r.
Proof.
  intros c' e name r Hm.
  pose proof (pow2_pos e) as Hb.
  cbn [rc_loop]. unfold fmt1, fmt0.
  set (b := 2 ^ e) in *.
  set (n := rhe (10 * c') b).
  set (m := rhe c' b) in *.
  set (s1 := decimal (n / 10) ++ [46] ++ [48 + n mod 10]).
  assert (Hlen1 : length s1 = (length (decimal (n / 10)) + 2)%nat).
  { unfold s1. rewrite !app_length. cbn [length]. lia. }
  assert (Hm' : (2 * 999 + 1) * b <= 2 * c') by (apply rhe_ge_inv; [exact Hb|]; fold m; lia).
  assert (Hn : 99 + 1 <= n) by (apply rhe_ge; [exact Hb|]; lia).
  assert (Hl : (2 <= length (decimal (n / 10)))%nat) by (apply decimal_len_ge2; lia).
  assert (E1 : (3 <? length s1)%nat = true) by lia.
  rewrite E1, decimal_len3_iff.
  assert (E2 : (m <? 1000) = false) by lia. rewrite E2. reflexivity.
Qed.

Lemma rhe_ge_1000_down : forall c' e, e < 60 ->
  1000 <= rhe c' (2 ^ 60) -> 1000 <= rhe c' (2 ^ e).
Proof.
  intros c' e He H.
  pose proof (pow2_pos 60) as H60. pose proof (pow2_pos e) as Hbe.
  assert (H1 : (2 * 999 + 1) * 2 ^ 60 <= 2 * c') by (apply rhe_ge_inv; [exact H60|lia]).
  assert (Hlt : 2 ^ e < 2 ^ 60) by (apply N.pow_lt_mono_r; lia).
  change 1000 with (999 + 1). apply rhe_ge; [exact Hbe|]. nia.
Qed.

Theorem readable_beyond : forall c,
  1000 <= rhe (rn53 c) (2 ^ 60) ->
  readable_count c = commas (decimal (rhe (rn53 c) (2 ^ 60))) ++ [32; 69; 105] /\
  (2 * Z.abs (Z.of_N (rhe (rn53 c) (2 ^ 60) * 2 ^ 60) - Z.of_N (rn53 c)) <= Z.of_N (2 ^ 60))%Z.
Proof.
  intros c H. split; [|apply rhe_bounds, pow2_pos].
  unfold readable_count, fmt0.
  change (2 ^ 0) with 1. rewrite rhe_1, decimal_len3_iff.
  set (c' := rn53 c) in *.
  assert (H1 : (2 * 999 + 1) * 2 ^ 60 <= 2 * c') by (apply rhe_ge_inv; [apply pow2_pos|lia]).
  pose proof (pow2_pos 60) as H60.
  assert (E : (c' <? 1000) = false) by lia. rewrite E.
  unfold prefixes.
  rewrite (rc_fall c' 10) by (apply rhe_ge_1000_down; [lia|exact H]).
  rewrite (rc_fall c' 20) by (apply rhe_ge_1000_down; [lia|exact H]).
  rewrite (rc_fall c' 30) by (apply rhe_ge_1000_down; [lia|exact H]).
  rewrite (rc_fall c' 40) by (apply rhe_ge_1000_down; [lia|exact H]).
  rewrite (rc_fall c' 50) by (apply rhe_ge_1000_down; [lia|exact H]).
  rewrite (rc_fall c' 60) by exact H.
  reflexivity.
Qed.

(* float(count) does not drop below a representable bound either *)
Lemma rn53_ge_1000Ei : forall c, 1000 * 2 ^ 60 <= c -> 1000 * 2 ^ 60 <= rn53 c.
Proof.
  intros c H.
  assert (P53 : 2 ^ 53 < 1000 * 2 ^ 60) by (vm_compute; reflexivity).
  destruct (rn53_big c ltac:(lia)) as (b & Hb & E & L1 & L2 & Eb).
  rewrite E.
  set (j := N.log2 c - 52) in *.
  destruct (N.le_gt_cases j 60) as [Hj|Hj].
  - assert (E60 : 2 ^ 60 = 2 ^ (60 - j) * b).
    { rewrite Eb, <- N.pow_add_r. f_equal. lia. }
    set (k := 1000 * 2 ^ (60 - j)).
    assert (EK : 1000 * 2 ^ 60 = k * b) by (unfold k; rewrite E60; lia).
    assert (Hk : 1 <= k) by (unfold k; pose proof (pow2_pos (60 - j)); lia).
    assert (R : (k - 1) + 1 <= rhe c b) by (apply rhe_ge; [exact Hb|]; nia).
    rewrite EK. apply N.mul_le_mono_r. lia.
  - assert (R : (2 ^ 52 - 1) + 1 <= rhe c b).
    { apply rhe_ge; [exact Hb|]. pose proof (pow2_pos 52). nia. }
    assert (Hb61 : 2 ^ 61 <= b) by (rewrite Eb; apply N.pow_le_mono_r; lia).
    assert (P : 1000 * 2 ^ 60 <= 2 ^ 52 * 2 ^ 61) by (vm_compute; intro X; discriminate X).
    pose proof (pow2_pos 52).
    assert (2 ^ 52 * 2 ^ 61 <= rhe c b * b) by (apply N.mul_le_mono; lia).
    lia.
Qed.

(* every count from 1000 * 2^60 on is in the long regime; with
   readable_len_ext this leaves only the counts strictly between 999 and 1000 Ei
   to the rounding of the last step *)
Theorem readable_beyond_from : forall c,
  1000 * 2 ^ 60 <= c -> 1000 <= rhe (rn53 c) (2 ^ 60).
Proof.
  intros c H. pose proof (rn53_ge_1000Ei c H) as H1.
  pose proof (pow2_pos 60) as H60.
  change 1000 with (999 + 1) at 1. apply rhe_ge; [exact H60|]. lia.
Qed.

(* the first count that needs more than six characters: 999.5 Ei shows as
   "1,000 Ei"; one representable step below still fits *)
Example readable_first_long :
  readable_count (1999 * 2 ^ 59) = [49; 44; 48; 48; 48; 32; 69; 105] /\
  readable_count (999 * 2 ^ 60) = [57; 57; 57; 32; 69; 105] /\
  readable_count (2 ^ 60) = [49; 46; 48; 32; 69; 105] /\
  1000 <= rhe (rn53 (1999 * 2 ^ 59)) (2 ^ 60).
Proof. repeat split; vm_compute; try reflexivity. intro X; discriminate X. Qed.
