(* Float side of fill_scales_for_dyadic_pyramid: delays from resolutions, the
   unit chosen for keys, the keys (byte strings), the complete generator, and
   the reconciliation table of generate_scales_info.set_info_params.

   binary64 arithmetic is the proof-free specification of the standard library
   (Coq.Floats.SpecFloat, prec 53, emax 1024).  The harness passes every
   float64 as the exact pair (m, e), m > 0, value m * 2^e.

   Modelled from their mathematical definition (agreement is tested by
   harness/props/c08.py, not proved):
   * int(round(math.log2(q))) for a positive float q = m * 2^e is the k with
     2^(2k-1) < q^2 < 2^(2k+1)  (ties are impossible: sqrt 2 is irrational);
   * format(x, ".0f") prints the exact binary value of x rounded half-to-even
     to an integer; round(x) != 0 is the same rounding compared with 0. *)
From Coq Require Import ZArith NArith List Bool Lia.
From Coq Require Import Floats.SpecFloat.
From NGS Require Import Val Ints PyrScales.
Import ListNotations.
Open Scope Z_scope.

Definition prec : Z := 53.
Definition emax : Z := 1024.

Definition fl : Type := (positive * Z)%type.          (* m * 2^e *)
Definition sf_of (x : fl) : spec_float :=
  binary_normalize prec emax (Zpos (fst x)) (snd x) false.
Definition fmul (a b : spec_float) : spec_float := SFmul prec emax a b.
Definition fdiv (a b : spec_float) : spec_float := SFdiv prec emax a b.
Definition fltb (a b : spec_float) : bool := SFltb a b.
Definition pow2f (k : Z) : spec_float := sf_of (1%positive, k).   (* float(2 ** k), k <= 1023 *)

Definition f3 : Type := (spec_float * spec_float * spec_float)%type.
Definition fmap3 {A B} (f : A -> B) (v : A * A * A) : B * B * B :=
  let '(x, y, z) := v in (f x, f y, f z).

(* Python min(): the first smallest element *)
Definition fmin (a b : spec_float) : spec_float := if fltb b a then b else a.
Definition fmin3 (v : f3) : spec_float := let '(x, y, z) := v in fmin (fmin x y) z.

(* ---------- int(round(math.log2(q))) ---------- *)

Definition round_log2 (m : positive) (e : Z) : Z :=
  let n := Z.log2 (Zpos m) in
  n + e + (if 2 ^ (2 * n + 1) <? Zpos m * Zpos m then 1 else 0).

(* math.log2: ValueError on zero, negative, nan; round(inf): OverflowError *)
Definition delay_of (r best : spec_float) : outcome Z :=
  match best with
  | S754_zero _ => Crash ZeroDivisionError       (* float division by zero *)
  | _ =>
    match fdiv r best with
    | S754_finite false m e => Ok (round_log2 m e)
    | S754_infinity false => Crash OverflowError
    | _ => Crash ValueError
    end
  end.

Definition delays (r : f3) : outcome t3 :=
  let best := fmin3 r in
  let '(x, y, z) := r in
  bind (delay_of x best) (fun dx =>
  bind (delay_of y best) (fun dy =>
  bind (delay_of z best) (fun dz => Ok (dx, dy, dz)))).

(* ---------- format(x, ".0f") ---------- *)

(* round-half-even of a non-negative finite float to an integer *)
Definition rint_sf (x : spec_float) : option Z :=
  match x with
  | S754_zero _ => Some 0
  | S754_finite false m e =>
      Some (if 0 <=? e then Zpos m * 2 ^ e else rhe_div (Zpos m) (2 ^ (- e)))
  | _ => None
  end.

Fixpoint uint_bytes (u : Decimal.uint) : list N :=
  match u with
  | Decimal.Nil => []
  | Decimal.D0 r => 48%N :: uint_bytes r | Decimal.D1 r => 49%N :: uint_bytes r
  | Decimal.D2 r => 50%N :: uint_bytes r | Decimal.D3 r => 51%N :: uint_bytes r
  | Decimal.D4 r => 52%N :: uint_bytes r | Decimal.D5 r => 53%N :: uint_bytes r
  | Decimal.D6 r => 54%N :: uint_bytes r | Decimal.D7 r => 55%N :: uint_bytes r
  | Decimal.D8 r => 56%N :: uint_bytes r | Decimal.D9 r => 57%N :: uint_bytes r
  end.
Definition dec_bytes (z : Z) : list N := uint_bytes (N.to_uint (Z.to_N z)).

(* ---------- utils.LENGTH_UNITS (checked against the live table each run) ---------- *)

Definition units : list (list N * fl) :=
  [ ([107; 109]%N, (4951760157141521%positive, -92));   (* km 1e-12 *)
    ([109]%N,      (4835703278458517%positive, -82));   (* m  1e-9  *)
    ([109; 109]%N, (4722366482869645%positive, -72));   (* mm 1e-6  *)
    ([117; 109]%N, (1152921504606847%positive, -60));   (* um 1e-3  *)
    ([110; 109]%N, (1%positive, 0));                    (* nm 1.0   *)
    ([112; 109]%N, (125%positive, 3)) ].                (* pm 1e3   *)

(* utils.format_length: format(length_nm * LENGTH_UNITS[unit], ".0f") + unit.
   A non-finite product ('inf', 'nan' strings) is outside the modelled domain. *)
Definition format_length (len : spec_float) (u : list N * fl) : outcome (list N) :=
  match rint_sf (fmul len (sf_of (snd u))) with
  | Some z => Ok (dec_bytes z ++ fst u)
  | None => Crash OverflowError
  end.

Definition two : spec_float := pow2f 1.

Fixpoint choose_unit_from (us : list (list N * fl)) (r : spec_float) : outcome (list N * fl) :=
  match us with
  | [] => Crash NotImplementedError
  | u :: rest =>
      match rint_sf (fmul r (sf_of (snd u))) with
      | None => Crash OverflowError
      | Some z =>
          if z =? 0 then choose_unit_from rest r else
          bind (format_length r u) (fun k1 =>
          bind (format_length (fmul r two) u) (fun k2 =>
          if list_eq_dec N.eq_dec k1 k2 then choose_unit_from rest r else Ok u))
      end
  end.
Definition choose_unit_for_key (r : spec_float) : outcome (list N * fl) := choose_unit_from units r.

(* ---------- the generator ---------- *)

Record scale_out : Type :=
  { so_key : list N; so_size : t3; so_res : f3; so_chunks : t3 }.

Definition scale_resolution (r : f3) (factors : t3) : f3 :=
  let '(x, y, z) := r in let '(fx, fy, fz) := factors in
  (fmul x (pow2f (Z.log2 fx)), fmul y (pow2f (Z.log2 fy)), fmul z (pow2f (Z.log2 fz))).

Definition mk_scale (r : f3) (u : list N * fl) (c : scale_core) : outcome scale_out :=
  let res := scale_resolution r (sc_factors c) in
  (* /repo b3f6345: the key is format_length(best_axis_resolution * 2 ** level) *)
  bind (format_length (fmul (fmin3 r) (pow2f (sc_level c))) u) (fun key =>
  Ok {| so_key := key; so_size := sc_size c; so_res := res;
        so_chunks := map3 (fun e => 2 ^ e) (sc_chunk_exp c) |}).

(* In the code the key of a level is formatted before that level's assertions
   are evaluated; no assertion can fail any more and format_length cannot fail
   inside the modelled domain, so the order is immaterial. *)
Definition gen_scales (full : t3) (res : fl * fl * fl) (target max_scales : Z)
  : outcome (list scale_out) :=
  bind (target_exponent target) (fun t =>
  let r := fmap3 sf_of res in
  bind (delays r) (fun d =>
  bind (choose_unit_for_key (fmin3 r)) (fun u =>
  bind (scales_core full d t max_scales) (fun cores =>
  mapM (mk_scale r u) cores)))).

(* ---------- guard for distinct keys (executable) ---------- *)

(* m1 * 2^e1 = m2 * 2^e2 *)
Definition dyadic_eqb (m1 : positive) (e1 : Z) (m2 : positive) (e2 : Z) : bool :=
  let e := Z.min e1 e2 in Zpos m1 * 2 ^ (e1 - e) =? Zpos m2 * 2 ^ (e2 - e).
Definition product_is (x : spec_float) (m0 : positive) (e0 : Z) : bool :=
  match x with S754_finite false m e => dyadic_eqb m e m0 e0 | _ => false end.

(* The length formatted for level l, (finest * 2^l) * unit factor in binary64,
   is exactly 2^l times the length formatted for level 0.  Both products are
   multiplications by a power of two of a binary64 value, so this can only
   fail when a product leaves the normal range of binary64 (overflow, or a
   subnormal result at level 0 that becomes normal later). *)
Definition keys_guard_at (r : f3) (u : list N * fl) (cores : list scale_core) : bool :=
  match fmul (fmin3 r) (sf_of (snd u)) with
  | S754_finite false m0 e0 =>
      product_is (fmul (fmul (fmin3 r) two) (sf_of (snd u))) m0 (e0 + 1) &&
      forallb (fun c => product_is (fmul (fmul (fmin3 r) (pow2f (sc_level c))) (sf_of (snd u)))
                                   m0 (e0 + sc_level c)) cores
  | _ => false
  end.

Definition keys_guard (full : t3) (res : fl * fl * fl) (target max_scales : Z) : bool :=
  match target_exponent target with
  | Ok t =>
      let r := fmap3 sf_of res in
      match delays r with
      | Ok d =>
          match choose_unit_for_key (fmin3 r), scales_core full d t max_scales with
          | Ok u, Ok cores => keys_guard_at r u cores
          | _, _ => false
          end
      | _ => false
      end
  | _ => false
  end.

Definition gen_delays (res : fl * fl * fl) : outcome t3 := delays (fmap3 sf_of res).

(* ---------- generate_scales_info.set_info_params ---------- *)

Definition bytes_eqb (a b : list N) : bool := if list_eq_dec N.eq_dec a b then true else false.
Definition s_raw : list N := [114; 97; 119]%N.
Definition s_cseg : list N :=
  [99; 111; 109; 112; 114; 101; 115; 115; 101; 100; 95; 115; 101; 103; 109; 101; 110; 116; 97; 116; 105; 111; 110]%N.
Definition s_segmentation : list N := [115; 101; 103; 109; 101; 110; 116; 97; 116; 105; 111; 110]%N.
Definition s_image : list N := [105; 109; 97; 103; 101]%N.
Definition s_uint8 : list N := [117; 105; 110; 116; 56]%N.
Definition s_uint16 : list N := [117; 105; 110; 116; 49; 54]%N.
Definition s_uint32 : list N := [117; 105; 110; 116; 51; 50]%N.

(* arguments: command-line --type / --encoding (None when absent or empty),
   the info's "type" and the first scale's "encoding" (None when the key is
   missing), the data type, whether a block size is already present.
   result: (type, encoding, data_type, block size [8,8,8] added) *)
Definition set_info_params (cli_type cli_enc info_type info_enc : option (list N))
           (data_type : list N) (has_block : bool)
  : list N * list N * list N * bool :=
  let enc := match cli_enc with Some e => e
             | None => match info_enc with Some e => e | None => s_raw end end in
  let ty := match cli_type with Some t => t
            | None => match info_type with Some t => t
                      | None => if bytes_eqb enc s_cseg then s_segmentation else s_image end end in
  if bytes_eqb enc s_cseg then
    let dt := if bytes_eqb data_type s_uint8 || bytes_eqb data_type s_uint16
              then s_uint32 else data_type in
    (ty, enc, dt, negb has_block)
  else (ty, enc, data_type, false).
