(* dyadic_pyramid.compute_dyadic_scales: the level loop.  Each transition reads
   the chunks of the previous scale as they were written (all scales share one
   PrecomputedIO object), so the previous level is the array assembled from the
   chunks of the previous transition.

   [poison] stands for the bytes np.empty happened to return: a cell that was
   never assigned keeps it.  The harness runs the implementation with np.empty
   poisoned by two different patterns and the model with the same values;
   PyrComputeProofs shows the result never depends on it.

   Scales are looked up by key in PrecomputedIO (duplicate keys collapse); the
   level loop below is the behaviour for pairwise distinct keys. *)
From Coq Require Import ZArith List Bool Lia.
From NGS Require Import Val Ints PyrScales PyrTiling.
Import ListNotations.
Open Scope Z_scope.

Record scale_geo : Type := { sg_size : t3; sg_chunk : t3 }.

Definition geom_of (ch : Z) (s0 s1 : scale_geo) : geom :=
  {| g_os := sg_size s0; g_ns := sg_size s1; g_oc := sg_chunk s0; g_nc := sg_chunk s1;
     g_ch := ch |}.

Definition find_chunk (chunks : list (t3 * t3 * buffer)) (p : t3) : option (t3 * t3 * buffer) :=
  find (fun c => in_box (fst (fst c)) (sub3 (snd (fst c)) (fst (fst c))) p) chunks.

Section Compute.

Variable ds : t3 -> arr -> arr.
Variable poison : Z.

Definition cell_value (c : cell) : Z := match c with Val v => v | Uninit => poison end.

Definition level_of_chunks (ch : Z) (size : t3) (chunks : list (t3 * t3 * buffer)) : arr :=
  {| a_c := ch; a_sh := size;
     a_get := fun c p =>
       match find_chunk chunks p with
       | Some (lo, _, buf) => cell_value (b_get buf c (sub3 p lo))
       | None => poison
       end |}.

Definition next_level (ch : Z) (s0 s1 : scale_geo) (lvl : arr) : outcome arr :=
  bind (tile_level ds (geom_of ch s0 s1) lvl) (fun chunks =>
  Ok (level_of_chunks ch (sg_size s1) chunks)).

(* levels 1 .. n-1 of the pyramid, given level 0 *)
Fixpoint pyramid (ch : Z) (scales : list scale_geo) (lvl : arr) : outcome (list arr) :=
  match scales with
  | s0 :: ((s1 :: _) as rest) =>
      bind (next_level ch s0 s1 lvl) (fun nl =>
      bind (pyramid ch rest nl) (fun r => Ok (nl :: r)))
  | _ => Ok []
  end.

(* the reference: every level is the whole previous level downscaled once *)
Fixpoint pyramid_ref (scales : list scale_geo) (lvl : arr) : list arr :=
  match scales with
  | s0 :: ((s1 :: _) as rest) =>
      let nl := ds (factors (geom_of (a_c lvl) s0 s1)) lvl in nl :: pyramid_ref rest nl
  | _ => []
  end.

End Compute.

Fixpoint all_pairs_ok (p : geom -> bool) (ch : Z) (scales : list scale_geo) : bool :=
  match scales with
  | s0 :: ((s1 :: _) as rest) => p (geom_of ch s0 s1) && all_pairs_ok p ch rest
  | _ => true
  end.
