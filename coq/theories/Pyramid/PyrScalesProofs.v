(* Proofs about the integer core of the scale generator (Properties/C08.v). *)
From Coq Require Import ZArith List Bool Lia.
From NGS Require Import Val Ints PyrScales.
Import ListNotations.
Open Scope Z_scope.
Ltac Zify.zify_post_hook ::= Z.to_euclidean_division_equations.

(* ---------- triples ---------- *)

Lemma get3_map3 : forall a f v, get3 a (map3 f v) = f (get3 a v).
Proof. intros a f [[x y] z]; destruct a; reflexivity. Qed.

Lemma get3_zip3 : forall a f v w, get3 a (zip3 f v w) = f (get3 a v) (get3 a w).
Proof. intros a f [[x y] z] [[x' y'] z']; destruct a; reflexivity. Qed.

Lemma t3_ext : forall v w : t3, (forall a, get3 a v = get3 a w) -> v = w.
Proof.
  intros [[x y] z] [[x' y'] z'] H.
  pose proof (H AX) as Hx; pose proof (H AY) as Hy; pose proof (H AZ) as Hz.
  simpl in *. congruence.
Qed.

Lemma forall3_spec : forall p v, forall3 p v = true <-> forall a, p (get3 a v) = true.
Proof.
  intros p [[x y] z]; simpl. rewrite !andb_true_iff. split.
  - intros [[Hx Hy] Hz] a; destruct a; assumption.
  - intro H. repeat split; [apply (H AX) | apply (H AY) | apply (H AZ)].
Qed.

Lemma forall3_2_spec : forall p v w,
  forall3_2 p v w = true <-> forall a, p (get3 a v) (get3 a w) = true.
Proof.
  intros p [[x y] z] [[x' y'] z']; simpl. rewrite !andb_true_iff. split.
  - intros [[Hx Hy] Hz] a; destruct a; assumption.
  - intro H. repeat split; [apply (H AX) | apply (H AY) | apply (H AZ)].
Qed.

Lemma eqb3_spec : forall v w, eqb3 v w = true <-> v = w.
Proof.
  intros v w. unfold eqb3. rewrite forall3_2_spec. split.
  - intro H. apply t3_ext. intro a. apply Z.eqb_eq, H.
  - intros -> a. apply Z.eqb_refl.
Qed.

Lemma max3_ge : forall a v, get3 a v <= max3 v.
Proof. intros a [[x y] z]; destruct a; simpl; lia. Qed.

Lemma max3_attained : forall v, exists a, get3 a v = max3 v.
Proof.
  intros [[x y] z]. simpl.
  destruct (Z.max_spec y z) as [[? Hm]|[? Hm]];
  destruct (Z.max_spec x (Z.max y z)) as [[? Hn]|[? Hn]]; rewrite Hn; try rewrite Hm.
  - exists AZ; reflexivity. - exists AX; reflexivity.
  - exists AY; reflexivity. - exists AX; reflexivity.
Qed.

(* ---------- ceil_div ---------- *)

Lemma ceil_div_spec : forall a b, 0 < b ->
  a <= ceil_div a b * b /\ (ceil_div a b - 1) * b < a.
Proof.
  intros a b Hb. unfold ceil_div.
  pose proof (Z.div_mod (a - 1) b ltac:(lia)) as Hd.
  pose proof (Z.mod_pos_bound (a - 1) b Hb) as Hm. nia.
Qed.

Lemma ceil_div_unique : forall a b q, 0 < b -> a <= q * b -> (q - 1) * b < a -> ceil_div a b = q.
Proof.
  intros a b q Hb H1 H2. destruct (ceil_div_spec a b Hb) as [H3 H4]. nia.
Qed.

Lemma ceil_div_1 : forall a, ceil_div a 1 = a.
Proof. intro a. apply ceil_div_unique; lia. Qed.

Lemma ceil_div_pos : forall a b, 0 < a -> 0 < b -> 0 < ceil_div a b.
Proof. intros a b Ha Hb. destruct (ceil_div_spec a b Hb). nia. Qed.

Lemma ceil_div_ceil_div : forall a b c, 0 < b -> 0 < c ->
  ceil_div (ceil_div a b) c = ceil_div a (b * c).
Proof.
  intros a b c Hb Hc. symmetry. apply ceil_div_unique; [lia| |].
  - destruct (ceil_div_spec a b Hb) as [H1 _].
    destruct (ceil_div_spec (ceil_div a b) c Hc) as [H2 _]. nia.
  - destruct (ceil_div_spec a b Hb) as [_ H1].
    destruct (ceil_div_spec (ceil_div a b) c Hc) as [_ H2]. nia.
Qed.

Lemma ceil_div_le_iff : forall a b m, 0 < b -> (ceil_div a b <= m <-> a <= m * b).
Proof.
  intros a b m Hb. destruct (ceil_div_spec a b Hb) as [H1 H2]. split; intro H; nia.
Qed.

Lemma lt_ceil_div_iff : forall a b i, 0 < b -> (i < ceil_div a b <-> b * i < a).
Proof.
  intros a b i Hb. destruct (ceil_div_spec a b Hb) as [H1 H2]. split; intro H; nia.
Qed.

(* ---------- mapM ---------- *)

Lemma mapM_ok_Forall2 : forall {A B} (f : A -> outcome B) xs ys,
  mapM f xs = Ok ys -> Forall2 (fun x y => f x = Ok y) xs ys.
Proof.
  intros A B f xs. induction xs as [|x xs IH]; intros ys H; simpl in H.
  - inversion H. constructor.
  - destruct (f x) as [y| | | | | |k] eqn:Hx; simpl in H; try discriminate.
    destruct (mapM f xs) as [yr| | | | | |k] eqn:Hr; simpl in H; try discriminate.
    inversion H; subst. constructor; [assumption | apply IH; reflexivity].
Qed.

Lemma mapM_all_ok : forall {A B} (f : A -> outcome B) xs,
  (forall x, In x xs -> exists y, f x = Ok y) -> exists ys, mapM f xs = Ok ys.
Proof.
  intros A B f xs. induction xs as [|x xs IH]; intro H; simpl.
  - eexists; reflexivity.
  - destruct (H x (or_introl eq_refl)) as [y Hy]. rewrite Hy. simpl.
    destruct IH as [ys Hys]; [intros x' Hx'; apply H; right; assumption|].
    rewrite Hys. simpl. eexists; reflexivity.
Qed.

Lemma Forall2_In_l : forall {A B} (P : A -> B -> Prop) xs ys y,
  Forall2 P xs ys -> In y ys -> exists x, In x xs /\ P x y.
Proof.
  intros A B P xs ys y H. induction H as [|x0 y0 xs ys Hp Hr IH]; intro Hin.
  - destruct Hin.
  - destruct Hin as [->|Hin]; [exists x0; split; [left; reflexivity | assumption]|].
    destruct (IH Hin) as [x [Hx Hpx]]. exists x; split; [right|]; assumption.
Qed.

Lemma Forall2_In_r : forall {A B} (P : A -> B -> Prop) xs ys x,
  Forall2 P xs ys -> In x xs -> exists y, In y ys /\ P x y.
Proof.
  intros A B P xs ys x H. induction H as [|x0 y0 xs ys Hp Hr IH]; intro Hin.
  - destruct Hin.
  - destruct Hin as [->|Hin]; [exists y0; split; [left; reflexivity | assumption]|].
    destruct (IH Hin) as [y [Hy Hpy]]. exists y; split; [right|]; assumption.
Qed.

Lemma Forall2_weaken : forall {A B} (P Q : A -> B -> Prop) xs ys,
  (forall x y, P x y -> Q x y) -> Forall2 P xs ys -> Forall2 Q xs ys.
Proof.
  intros A B P Q xs ys HPQ H. induction H; constructor; auto.
Qed.

Lemma in_levels : forall n l, In l (levels n) <-> 0 <= l < n.
Proof.
  intros n l. unfold levels. rewrite in_map_iff. split.
  - intros [k [<- Hk]]. apply in_seq in Hk. lia.
  - intro H. exists (Z.to_nat l). split; [lia|]. apply in_seq. lia.
Qed.

(* ---------- the generated levels ---------- *)

Definition core_spec (full d : t3) (t : Z) (s : scale_core) : Prop :=
  sc_factors s = level_factors d (sc_level s) /\
  sc_size s = level_sizes full d (sc_level s) /\
  chunk_exponents d t (sc_level s) = Ok (sc_chunk_exp s).

Lemma scales_core_levels : forall full d t ms l,
  scales_core full d t ms = Ok l ->
  Forall2 (fun k s => sc_level s = k /\ core_spec full d t s)
          (levels (level_count full d t ms)) l.
Proof.
  intros full d t ms l H. unfold scales_core in H.
  destruct (forall3 (fun s => 0 <? s) full); simpl in H; [|discriminate].
  apply mapM_ok_Forall2 in H.
  eapply Forall2_weaken; [|exact H]. intros k s Hs. unfold scale_core_at in Hs.
  destruct (chunk_exponents d t k) as [e| | | | | |c] eqn:He; simpl in Hs; try discriminate.
  inversion Hs; subst. unfold core_spec; simpl. repeat split; assumption.
Qed.

Lemma scales_core_In : forall full d t ms l s,
  scales_core full d t ms = Ok l -> In s l ->
  0 <= sc_level s < level_count full d t ms /\ core_spec full d t s.
Proof.
  intros full d t ms l s H Hin.
  destruct (Forall2_In_l _ _ _ _ (scales_core_levels _ _ _ _ _ H) Hin) as [k [Hk [Hl Hs]]].
  apply in_levels in Hk. subst k. split; assumption.
Qed.

Lemma scales_core_positive : forall full d t ms l,
  scales_core full d t ms = Ok l -> forall a, 0 < get3 a full.
Proof.
  intros full d t ms l H a. unfold scales_core in H.
  destruct (forall3 (fun s => 0 <? s) full) eqn:Hp; simpl in H; [|discriminate].
  rewrite forall3_spec in Hp. specialize (Hp a). lia.
Qed.

(* sizes: ceil(full / 2^k), k = max(0, level - delay), on every axis *)
Lemma sizes_spec : forall full d t ms l s a,
  scales_core full d t ms = Ok l -> In s l ->
  let k := Z.max 0 (sc_level s - get3 a d) in
  get3 a (sc_factors s) = 2 ^ k /\
  get3 a (sc_size s) = ceil_div (get3 a full) (2 ^ k) /\
  get3 a full <= get3 a (sc_size s) * 2 ^ k /\
  (get3 a (sc_size s) - 1) * 2 ^ k < get3 a full.
Proof.
  intros full d t ms l s a H Hin k.
  destruct (scales_core_In _ _ _ _ _ _ H Hin) as [_ [Hf [Hs _]]].
  assert (Hk : 0 < 2 ^ k) by (apply Z.pow_pos_nonneg; lia).
  assert (E1 : get3 a (sc_factors s) = 2 ^ k).
  { rewrite Hf. unfold level_factors. rewrite get3_map3. reflexivity. }
  assert (E2 : get3 a (sc_size s) = ceil_div (get3 a full) (2 ^ k)).
  { rewrite Hs. unfold level_sizes. rewrite get3_zip3. unfold level_factors.
    rewrite get3_map3. reflexivity. }
  repeat split; try assumption; rewrite E2; apply ceil_div_spec; assumption.
Qed.

(* the first scale is the full resolution *)
Lemma level0_full : forall full d, (forall a, 0 <= get3 a d) -> level_sizes full d 0 = full.
Proof.
  intros full d Hd. apply t3_ext. intro a. unfold level_sizes, level_factors.
  rewrite get3_zip3, get3_map3. rewrite Z.max_l by (specialize (Hd a); lia).
  apply ceil_div_1.
Qed.

(* consecutive levels: the factor of each axis is multiplied by 1 or 2, and
   the sizes are related by ceil_div with that factor *)
Lemma factors_step : forall d l a, 0 <= l ->
  let f := if l <? get3 a d then 1 else 2 in
  get3 a (level_factors d (l + 1)) = f * get3 a (level_factors d l).
Proof.
  intros d l a Hl f. unfold level_factors. rewrite !get3_map3. subst f.
  destruct (Z.ltb_spec l (get3 a d)) as [H|H].
  - rewrite !Z.max_l by lia. reflexivity.
  - rewrite !Z.max_r by lia. replace (l + 1 - get3 a d) with (Z.succ (l - get3 a d)) by lia.
    rewrite Z.pow_succ_r by lia. reflexivity.
Qed.

Lemma sizes_step : forall full d l a, 0 <= l ->
  let f := if l <? get3 a d then 1 else 2 in
  get3 a (level_sizes full d (l + 1)) = ceil_div (get3 a (level_sizes full d l)) f.
Proof.
  intros full d l a Hl f. unfold level_sizes. rewrite !get3_zip3.
  rewrite (factors_step d l a Hl). fold f.
  assert (Hp : 0 < get3 a (level_factors d l)).
  { unfold level_factors. rewrite get3_map3. apply Z.pow_pos_nonneg; lia. }
  rewrite ceil_div_ceil_div; [f_equal; lia | assumption | subst f; destruct (l <? get3 a d); lia].
Qed.

(* what compute_dyadic_downscaling checks: with the factor INFERRED from size
   equality (1 if equal else 2), new size = ceil_div(old size, factor) *)
Lemma sizes_accepted : forall full d l a, 0 <= l ->
  let os := get3 a (level_sizes full d l) in
  let ns := get3 a (level_sizes full d (l + 1)) in
  ns = ceil_div os (if os =? ns then 1 else 2).
Proof.
  intros full d l a Hl os ns. pose proof (sizes_step full d l a Hl) as H. cbv zeta in H.
  fold os ns in H. destruct (Z.eqb_spec os ns) as [E|E].
  - rewrite ceil_div_1. symmetry; exact E.
  - destruct (l <? get3 a d); [rewrite ceil_div_1 in H; congruence | exact H].
Qed.

(* coarser axes (larger delay) start later and are never ahead *)
Lemma later_start : forall d l a b, get3 a d <= get3 b d ->
  get3 b (level_factors d l) <= get3 a (level_factors d l).
Proof.
  intros d l a b H. unfold level_factors. rewrite !get3_map3.
  apply Z.pow_le_mono_r; lia.
Qed.

Lemma starts_after_delay : forall d l a,
  1 < get3 a (level_factors d l) <-> get3 a d < l.
Proof.
  intros d l a. unfold level_factors. rewrite get3_map3. split; intro H.
  - destruct (Z.le_gt_cases l (get3 a d)) as [Hle|Hgt]; [|assumption].
    rewrite Z.max_l in H by lia. simpl in H. lia.
  - rewrite Z.max_r by lia.
    replace (l - get3 a d) with (Z.succ (l - get3 a d - 1)) by lia.
    rewrite Z.pow_succ_r by lia.
    assert (0 < 2 ^ (l - get3 a d - 1)) by (apply Z.pow_pos_nonneg; lia). lia.
Qed.

(* ---------- chunk exponents ---------- *)

Lemma aniso0_nonneg : forall d l a, 0 <= get3 a (aniso0 d l).
Proof. intros d l a. unfold aniso0. rewrite get3_map3. lia. Qed.

Lemma sum3_nonneg : forall v, (forall a, 0 <= get3 a v) -> 0 <= sum3 v.
Proof.
  intros [[x y] z] H. pose proof (H AX); pose proof (H AY); pose proof (H AZ). simpl in *. lia.
Qed.

Lemma sum3_sub_at : forall a delta v, sum3 (sub_at a delta v) = sum3 v - delta.
Proof. intros a delta [[x y] z]; destruct a; simpl; lia. Qed.

Lemma count_nz_pos : forall v, (forall a, 0 <= get3 a v) -> 0 < sum3 v -> 0 < count_nz v.
Proof.
  intros [[x y] z] H Hs. pose proof (H AX); pose proof (H AY); pose proof (H AZ).
  unfold count_nz. simpl in *.
  destruct (Z.eqb_spec x 0); destruct (Z.eqb_spec y 0); destruct (Z.eqb_spec z 0); lia.
Qed.

(* since /repo 1758f7a the first assertion cannot fail either: whatever the
   reduction left above 3t is removed from the largest factor *)
Lemma aniso_reduced_total : forall d t l, 0 <= t ->
  exists r, aniso_reduced d t l = Ok r /\ sum3 r <= 3 * t.
Proof.
  intros d t l Ht. unfold aniso_reduced.
  destruct (Z.ltb_spec 0 (sum3 (aniso0 d l) - 3 * t)) as [He|He].
  - destruct (Z.eqb_spec (count_nz (aniso0 d l)) 0) as [Hz|Hz].
    + exfalso. pose proof (count_nz_pos (aniso0 d l) (aniso0_nonneg d l) ltac:(lia)). lia.
    + set (a' := map3 _ (aniso0 d l)).
      destruct (Z.ltb_spec (3 * t) (sum3 a')) as [Hc|Hc].
      * rewrite sum3_sub_at.
        replace (sum3 a' - (sum3 a' - 3 * t) <=? 3 * t) with true by (symmetry; apply Z.leb_le; lia).
        eexists. split; [reflexivity|]. rewrite sum3_sub_at. lia.
      * replace (sum3 a' <=? 3 * t) with true by (symmetry; apply Z.leb_le; lia).
        eexists. split; [reflexivity | lia].
  - eexists. split; [reflexivity | lia].
Qed.

Lemma aniso_reduced_sum : forall d t l r, 0 <= t -> aniso_reduced d t l = Ok r -> sum3 r <= 3 * t.
Proof.
  intros d t l r Ht H. destruct (aniso_reduced_total d t l Ht) as [r' [E Hs]].
  rewrite H in E. inversion E; subst. exact Hs.
Qed.

(* arithmetic core of the reduction on a triple with one zero entry (the axis
   of largest delay has anisotropy factor 0) *)
Lemma reduce_nonneg_core : forall x y z t,
  0 <= x -> 0 <= y -> 0 <= z -> 0 <= t -> (x = 0 \/ y = 0 \/ z = 0) ->
  0 < x + y + z - 3 * t ->
  let v := (x, y, z) in
  let red := ceil_div (sum3 v - 3 * t) (count_nz v) in
  let a' := map3 (fun f => Z.max (f - red) 0) v in
  let a'' := if 3 * t <? sum3 a' then sub_at (argmax_first a') (sum3 a' - 3 * t) a' else a' in
  forall a, 0 <= get3 a a''.
Proof.
  intros x y z t Hx Hy Hz Ht H0 HE v red a' a''. subst a'' a' red v.
  unfold count_nz, ceil_div. cbn [sum3 map3].
  destruct (Z.eqb_spec x 0) as [Ex|Ex]; destruct (Z.eqb_spec y 0) as [Ey|Ey];
    destruct (Z.eqb_spec z 0) as [Ez|Ez]; try (exfalso; lia);
    (* the number of non-zero factors is now a closed term: make it a literal *)
    match goal with |- context [(_ - 1) / ?k] => let k' := eval cbv in k in change k with k' end;
    intro a; unfold argmax_first; cbn [map3 sum3];
    repeat match goal with
           | |- context [if ?c then _ else _] => destruct c eqn:?
           end;
    repeat match goal with
           | H : (_ <? _) = true |- _ => apply Z.ltb_lt in H
           | H : (_ <? _) = false |- _ => apply Z.ltb_ge in H
           | H : (_ && _) = true |- _ => apply andb_true_iff in H; destruct H
           | H : (_ && _) = false |- _ => apply andb_false_iff in H
           | H : (_ <=? _) = true |- _ => apply Z.leb_le in H
           | H : (_ <=? _) = false |- _ => apply Z.leb_gt in H
           end;
    destruct a; cbn [get3 sub_at argmax_first sum3] in *; lia.
Qed.

Lemma aniso0_has_zero : forall d l, 0 <= l -> exists a, get3 a (aniso0 d l) = 0.
Proof.
  intros d l Hl. destruct (max3_attained d) as [a Ha]. exists a.
  unfold aniso0. rewrite get3_map3, Ha. lia.
Qed.

Lemma aniso_reduced_nonneg : forall d t l r a, 0 <= t -> 0 <= l ->
  aniso_reduced d t l = Ok r -> 0 <= get3 a r.
Proof.
  intros d t l r a Ht Hl H. unfold aniso_reduced in H.
  destruct (Z.ltb_spec 0 (sum3 (aniso0 d l) - 3 * t)) as [He|He].
  - destruct (count_nz (aniso0 d l) =? 0); [discriminate|].
    match type of H with (if ?c then _ else _) = _ => destruct c end; [|discriminate].
    inversion H; subst r. clear H.
    destruct (aniso0_has_zero d l Hl) as [a0 Ha0].
    pose proof (aniso0_nonneg d l) as Hn.
    destruct (aniso0 d l) as [[x y] z] eqn:Ev.
    apply (reduce_nonneg_core x y z t (Hn AX) (Hn AY) (Hn AZ) Ht).
    + destruct a0; simpl in Ha0; auto.
    + cbn [sum3] in He. lia.
  - inversion H; subst. apply aniso0_nonneg.
Qed.

(* no assertion of downscale_info can fail: after the reduction the sum is at
   most 3t, hence base >= 0, and |3 base + S - 3 t| <= 1 is arithmetic *)
Lemma chunk_exponents_of_reduced : forall d t l r, 0 <= t ->
  aniso_reduced d t l = Ok r ->
  chunk_exponents d t l = Ok (map3 (fun f => t - (sum3 r + 1) / 3 + f) r).
Proof.
  intros d t l r Ht H. unfold chunk_exponents. rewrite H. cbn [bind].
  pose proof (aniso_reduced_sum _ _ _ _ Ht H) as Hs.
  destruct (Z.ltb_spec (t - (sum3 r + 1) / 3) 0) as [Hb|Hb]; [exfalso; lia|].
  match goal with |- (if ?c then _ else _) = _ => destruct c eqn:Hc end; [reflexivity|].
  exfalso. apply Z.leb_gt in Hc. destruct r as [[x y] z]. cbn [sum3 map3] in *. lia.
Qed.

Lemma no_assertion_can_fail : forall d t l, 0 <= t -> exists e, chunk_exponents d t l = Ok e.
Proof.
  intros d t l Ht. destruct (aniso_reduced_total d t l Ht) as [r [Hr _]].
  eexists. apply chunk_exponents_of_reduced; eassumption.
Qed.

(* chunk sizes are 2^e with e >= 0, and the exponents sum to 3t up to 1 *)
Lemma chunk_volume : forall d t l e, 0 <= t -> 0 <= l -> chunk_exponents d t l = Ok e ->
  (forall a, 0 <= get3 a e) /\ Z.abs (sum3 e - 3 * t) <= 1.
Proof.
  intros d t l e Ht Hl H.
  destruct (aniso_reduced_total d t l Ht) as [r [Hr Hs]].
  rewrite (chunk_exponents_of_reduced _ _ _ _ Ht Hr) in H. inversion H; subst e. clear H.
  assert (Hn : forall a, 0 <= get3 a r) by (intro a; exact (aniso_reduced_nonneg _ _ _ _ a Ht Hl Hr)).
  pose proof (sum3_nonneg r Hn) as Hsn.
  split.
  - intro a. rewrite get3_map3. specialize (Hn a). lia.
  - destruct r as [[x y] z]. cbn [sum3 map3] in *. lia.
Qed.

(* ---------- number of levels ---------- *)

(* log2_up_ratio a t is the least k with a <= 2^t * 2^k (exact value of
   ceil(log2(a / 2^t)) for an integer a >= 1) *)
Lemma log2_up_ratio_spec : forall a t, 0 < a -> 0 <= t ->
  let k := log2_up_ratio a t in
  a <= 2 ^ (t + k) /\ (forall k', 0 <= t + k' -> a <= 2 ^ (t + k') -> k <= k').
Proof.
  intros a t Ha Ht k. unfold k, log2_up_ratio.
  replace (t + (Z.log2_up a - t)) with (Z.log2_up a) by lia. split.
  - destruct (Z.eq_dec a 1) as [->|Hn]; [simpl; lia|].
    apply Z.log2_up_spec. lia.
  - intros k' Hk' Hle. apply Z.log2_up_le_pow2 in Hle; lia.
Qed.

Lemma level_count_ge_1 : forall full d t ms, 1 <= level_count full d t ms.
Proof. intros. unfold level_count. lia. Qed.

(* the axis sizes of the last generated level fit two target chunks exactly
   when, per axis, n <= 1 or n + delay <= level count *)
Lemma fits_axis_iff : forall s di t L, 0 < s -> 0 <= t -> 1 <= L ->
  (ceil_div s (2 ^ Z.max 0 (L - 1 - di)) <= 2 * 2 ^ t <->
   (log2_up_ratio s t <= 1 \/ log2_up_ratio s t + di <= L)).
Proof.
  intros s di t L Hs Ht HL. unfold log2_up_ratio.
  set (k := Z.max 0 (L - 1 - di)).
  assert (Hk : 0 <= k) by (unfold k; lia).
  rewrite ceil_div_le_iff by (apply Z.pow_pos_nonneg; lia).
  replace (2 * 2 ^ t * 2 ^ k) with (2 ^ (t + 1 + k)).
  2:{ replace (t + 1 + k) with (Z.succ (t + k)) by lia.
      rewrite Z.pow_succ_r by lia. rewrite Z.pow_add_r by lia. ring. }
  rewrite (Z.log2_up_le_pow2 s (t + 1 + k)) by lia.
  unfold k. lia.
Qed.

Lemma last_fits_iff : forall full d t ms,
  (forall a, 0 < get3 a full) -> 0 <= t ->
  fits_two_chunks t (level_sizes full d (level_count full d t ms - 1))
  = last_fits_guard full d t ms.
Proof.
  intros full d t ms Hf Ht.
  pose proof (level_count_ge_1 full d t ms) as HL.
  apply eq_true_iff_eq. unfold fits_two_chunks, last_fits_guard.
  rewrite forall3_spec, forall3_2_spec. split; intros H a; specialize (H a).
  - apply Z.leb_le in H. unfold level_sizes, level_factors in H.
    rewrite get3_zip3, get3_map3 in H.
    apply fits_axis_iff in H; [|apply Hf|assumption|assumption].
    apply orb_true_iff. destruct H as [H|H]; [left|right]; apply Z.leb_le; assumption.
  - apply Z.leb_le. unfold level_sizes, level_factors. rewrite get3_zip3, get3_map3.
    apply fits_axis_iff; [apply Hf|assumption|assumption|].
    apply orb_true_iff in H. destruct H as [H|H]; apply Z.leb_le in H; [left|right]; assumption.
Qed.

(* isotropic volumes (all delays 0) without a max_scales cap always reach it *)
Lemma last_fits_isotropic : forall full t,
  (forall a, 0 < get3 a full) -> 0 <= t ->
  last_fits_guard full (0, 0, 0) t 0 = true.
Proof.
  intros full t Hf Ht. unfold last_fits_guard. apply forall3_2_spec. intro a.
  apply orb_true_iff. right. apply Z.leb_le. unfold level_count. simpl (0 =? 0).
  cbv iota.
  pose proof (max3_ge a (zip3 (fun a0 b => log2_up_ratio a0 t - b) full (0, 0, 0))) as Hm.
  rewrite get3_zip3 in Hm. replace (get3 a (0, 0, 0)) with 0 in * by (destruct a; reflexivity). lia.
Qed.

(* the integer core never fails on positive sizes *)
Lemma scales_core_total : forall full d t ms, 0 <= t -> (forall a, 0 < get3 a full) ->
  exists l, scales_core full d t ms = Ok l.
Proof.
  intros full d t ms Ht Hf. unfold scales_core.
  replace (forall3 (fun s => 0 <? s) full) with true
    by (symmetry; apply forall3_spec; intro a; apply Z.ltb_lt; apply Hf).
  cbn [negb]. apply mapM_all_ok. intros k _. unfold scale_core_at.
  destruct (no_assertion_can_fail d t k Ht) as [e He]. rewrite He. cbn [bind]. eexists; reflexivity.
Qed.

(* the code's level count stops early for anisotropic volumes: 10 x 10 x 1000
   voxels, delays (0, 0, 7) (resolutions 1 : 1 : 100), target 16 *)
Lemma last_fits_refuted :
  exists full d t l,
    last_fits_guard full d t 0 = false /\ scales_core full d t 0 = Ok l /\
    level_count full d t 0 = 1 /\
    fits_two_chunks t (level_sizes full d (level_count full d t 0 - 1)) = false.
Proof.
  exists (10, 10, 1000), (0, 0, 7), 4.
  destruct (scales_core (10, 10, 1000) (0, 0, 7) 4 0) as [l| | | | | |c] eqn:E;
    try (vm_compute in E; discriminate).
  exists l. repeat split; vm_compute; reflexivity.
Qed.

Lemma last_fits_on_guard : forall full d t ms,
  (forall a, 0 < get3 a full) -> 0 <= t -> last_fits_guard full d t ms = true ->
  forall a, get3 a (level_sizes full d (level_count full d t ms - 1)) <= 2 * 2 ^ t.
Proof.
  intros full d t ms Hf Ht Hg a. rewrite <- (last_fits_iff full d t ms Hf Ht) in Hg.
  unfold fits_two_chunks in Hg. rewrite forall3_spec in Hg. specialize (Hg a). lia.
Qed.

Example last_fits_example : last_fits_guard (1000, 1000, 10) (0, 0, 7) 4 0 = true.
Proof. vm_compute. reflexivity. Qed.
