(* Pointwise, faithful model of dyadic_pyramid.compute_dyadic_downscaling.

   The development is PARAMETRIC in the downscaling function
       ds : factors -> array -> array
   (Section Tiling); the three downscalers of downscaling.py are instantiated
   executably at the end of the file (striding, exact integer averaging with
   edge padding, majority) and their locality is proved in PyrTilingProofs.v.

   Arrays are (channel count, (x, y, z) extents, getter); positions and all
   Python [x, y, z] lists are triples in x, y, z order.  NumPy's (C, Z, Y, X)
   index order only matters for the order of the eight octant assignments and
   for serialisation (D_C08.v).

   What is modelled, exactly as coded:
   * factors inferred from size equality (1 if old == new else 2) and the
     ValueError when new_size != ceil_div(old_size, factor);
   * half_chunk = old_chunk // factor, chunk_fetch_factor = new_chunk //
     half_chunk (ZeroDivisionError when a half chunk is 0);
   * the loop over new chunks in np.ndindex order (x outermost);
   * np.empty: every cell starts as Uninit;
   * the eight assignments in source order; the right-hand side (read_chunk of
     the old chunk, then downscale) is evaluated before the assignment;
     read_chunk asserts validate_chunk_coords, which rejects an origin outside
     the old volume (AssertionError); a validated chunk that is not stored
     would be a DataAccessError (unreachable on a completely written level);
   * basic slicing clamps (":h" has min(h, n) elements, "h:" the rest);
   * assignment broadcasts: a source axis of length 1 is repeated over the
     destination axis, any other mismatch is "could not broadcast"
     (ValueError, here Crash BroadcastError);
   * since /repo e7c7a72 the transition is refused up front (ValueError) when a
     half chunk of 1 faces min(new chunk, new size) >= 3 - the only case in
     which the broadcast used to stretch data silently. *)
From Coq Require Import ZArith List Bool Lia FMapPositive.
From NGS Require Import Val Ints PyrScales.
Import ListNotations.
Open Scope Z_scope.

Inductive cell : Type := Uninit | Val (v : Z).

Record arr : Type := { a_c : Z; a_sh : t3; a_get : Z -> t3 -> Z }.
Record buffer : Type := { b_c : Z; b_sh : t3; b_get : Z -> t3 -> cell }.

Definition one3 : t3 := (1, 1, 1).
Definition add3 : t3 -> t3 -> t3 := zip3 Z.add.
Definition sub3 : t3 -> t3 -> t3 := zip3 Z.sub.
Definition mul3 : t3 -> t3 -> t3 := zip3 Z.mul.
Definition div3 : t3 -> t3 -> t3 := zip3 Z.div.
Definition min3 : t3 -> t3 -> t3 := zip3 Z.min.
Definition cdiv3 : t3 -> t3 -> t3 := zip3 ceil_div.
Definition prod3 (v : t3) : Z := let '(x, y, z) := v in x * y * z.
Definition zip3_3 (f : Z -> Z -> Z -> Z) (u v w : t3) : t3 :=
  let '(a, b, c) := u in let '(d, e, g) := v in let '(h, i, j) := w in
  (f a d h, f b e i, f c g j).
Definition forall3_3 (p : Z -> Z -> Z -> bool) (u v w : t3) : bool :=
  let '(a, b, c) := u in let '(d, e, g) := v in let '(h, i, j) := w in
  p a d h && p b e i && p c g j.

(* lo <= p < lo + ext on every axis *)
Definition in_box (lo ext p : t3) : bool :=
  forall3_3 (fun l e x => (l <=? x) && (x <? l + e)) lo ext p.

Definition restrict (a : arr) (lo ext : t3) : arr :=
  {| a_c := a_c a; a_sh := ext; a_get := fun c p => a_get a c (add3 lo p) |}.

(* ---------- precomputed_io.PrecomputedIO.read_chunk on a complete level ---------- *)

(* validate_chunk_coords (as of /repo commit f9742b1): the origin lies inside
   the volume, on the chunk lattice, and the end is clipped to the volume *)
Definition validate_chunk_coords (size cs lo hi : t3) : bool :=
  forall3_3 (fun l c s => (0 <=? l) && (l <? s) && (l mod c =? 0)) lo cs size
  && eqb3 hi (min3 (add3 lo cs) size).

Definition chunk_exists (size lo : t3) : bool :=
  forall3 (fun l => 0 <=? l) lo && forall3_2 Z.ltb lo size.

Definition read_chunk (lvl : arr) (size cs lo hi : t3) : outcome arr :=
  if negb (validate_chunk_coords size cs lo hi) then Crash AssertionError else
  if negb (chunk_exists size lo) then AccessErr else
  Ok (restrict lvl lo (sub3 hi lo)).

(* ---------- geometry of one scale transition ---------- *)

Record geom : Type :=
  { g_os : t3;    (* old size *)
    g_ns : t3;    (* new size *)
    g_oc : t3;    (* old chunk size *)
    g_nc : t3;    (* new chunk size *)
    g_ch : Z }.   (* num_channels *)

Definition geom_pos (g : geom) : bool :=
  forall3 (Z.ltb 0) (g_os g) && forall3 (Z.ltb 0) (g_ns g) &&
  forall3 (Z.ltb 0) (g_oc g) && forall3 (Z.ltb 0) (g_nc g) && (0 <? g_ch g).

Definition factors (g : geom) : t3 :=
  zip3 (fun o n => if o =? n then 1 else 2) (g_os g) (g_ns g).
Definition half_chunk (g : geom) : t3 := div3 (g_oc g) (factors g).
Definition fetch_factor (g : geom) : t3 := div3 (g_nc g) (half_chunk g).
Definition chunk_range (g : geom) : t3 := cdiv3 (g_ns g) (g_nc g).

(* np.ndindex(range): x outermost, z fastest *)
Definition ndindex (r : t3) : list t3 :=
  let '(rx, ry, rz) := r in
  flat_map (fun x => flat_map (fun y => map (fun z => (x, y, z)) (levels rz)) (levels ry))
           (levels rx).

(* the eight octants in source order, as (bx, by, bz): 1 = upper part *)
Definition octants : list t3 :=
  [ (0, 0, 0); (0, 0, 1); (0, 1, 0); (0, 1, 1);
    (1, 0, 0); (1, 0, 1); (1, 1, 0); (1, 1, 1) ].

(* per axis: b = which part, e = extent of the new chunk, h = half chunk *)
Definition ax_cond (b e h : Z) : bool := (b =? 0) || (h <? e).       (* new_chunk.shape > half_chunk *)
Definition ax_dlo (b e h : Z) : Z := if b =? 0 then 0 else Z.min h e.
Definition ax_dext (b e h : Z) : Z := if b =? 0 then Z.min h e else e - Z.min h e.

(* NumPy assignment broadcasting, per axis: source extent s into destination d *)
Definition bc_ok (s d : Z) : bool := (s =? d) || (s =? 1).
Definition bc_idx (s i : Z) : Z := if s =? 1 then 0 else i.

Definition assign (b : buffer) (lo ext : t3) (src : arr) : outcome buffer :=
  if bc_ok (a_c src) (b_c b) && forall3_2 bc_ok (a_sh src) ext then
    Ok {| b_c := b_c b; b_sh := b_sh b;
          b_get := fun c p =>
            if in_box lo ext p
            then Val (a_get src (bc_idx (a_c src) c) (zip3 bc_idx (a_sh src) (sub3 p lo)))
            else b_get b c p |}
  else Crash BroadcastError.

(* the class refused since /repo e7c7a72 (before: silently wrong data): along
   some axis the half chunk is exactly 1 and min(new chunk, new size) >= 3 *)
Definition ax_f (os ns : Z) : Z := if os =? ns then 1 else 2.
Definition forall3_4 (p : Z -> Z -> Z -> Z -> bool) (a b c d : t3) : bool :=
  let '(a1, a2, a3) := a in let '(b1, b2, b3) := b in
  let '(c1, c2, c3) := c in let '(d1, d2, d3) := d in
  p a1 b1 c1 d1 && p a2 b2 c2 d2 && p a3 b3 c3 d3.
Definition exists3_4 (p : Z -> Z -> Z -> Z -> bool) (a b c d : t3) : bool :=
  negb (forall3_4 (fun w x y z => negb (p w x y z)) a b c d).
Definition stretch_axis (os ns oc nc : Z) : bool :=
  (oc / ax_f os ns =? 1) && (3 <=? Z.min nc ns).
Definition stretch_class (g : geom) : bool :=
  exists3_4 stretch_axis (g_os g) (g_ns g) (g_oc g) (g_nc g).

Section Tiling.

Variable ds : t3 -> arr -> arr.

(* load_and_downscale_old_chunk(z_idx, y_idx, x_idx) *)
Definition load_ds (g : geom) (lvl : arr) (j : t3) : outcome arr :=
  let lo := mul3 (g_oc g) j in
  let hi := min3 (mul3 (g_oc g) (add3 j one3)) (g_os g) in
  bind (read_chunk lvl (g_os g) (g_oc g) lo hi) (fun c => Ok (ds (factors g) c)).

Definition new_lo (g : geom) (idx : t3) : t3 := mul3 (g_nc g) idx.
Definition new_hi (g : geom) (idx : t3) : t3 := min3 (mul3 (g_nc g) (add3 idx one3)) (g_ns g).

Definition octant_step (g : geom) (lvl : arr) (idx e : t3) (acc : outcome buffer) (b : t3)
  : outcome buffer :=
  bind acc (fun buf =>
    let h := half_chunk g in
    if forall3_3 ax_cond b e h then
      bind (load_ds g lvl (add3 (mul3 idx (fetch_factor g)) b)) (fun src =>
      assign buf (zip3_3 ax_dlo b e h) (zip3_3 ax_dext b e h) src)
    else Ok buf).

Definition tile_chunk (g : geom) (lvl : arr) (idx : t3) : outcome (t3 * t3 * buffer) :=
  let lo := new_lo g idx in
  let hi := new_hi g idx in
  let e := sub3 hi lo in
  let b0 := {| b_c := g_ch g; b_sh := e; b_get := fun _ _ => Uninit |} in
  bind (fold_left (octant_step g lvl idx e) octants (Ok b0)) (fun buf =>
  (* chunk_writer.write_chunk asserts validate_chunk_coords on the new scale *)
  if validate_chunk_coords (g_ns g) (g_nc g) lo hi then Ok (lo, hi, buf)
  else Crash AssertionError).

Definition tile_level (g : geom) (lvl : arr) : outcome (list (t3 * t3 * buffer)) :=
  if negb (eqb3 (g_ns g) (cdiv3 (g_os g) (factors g))) then Crash ValueError else
  if negb (forall3 (fun h => negb (h =? 0)) (half_chunk g)) then Crash ZeroDivisionError else
  (* /repo e7c7a72: "Unsupported combination of chunk sizes", raised after
     half_chunk / chunk_fetch_factor and before any chunk is read *)
  if stretch_class g then Crash ValueError else
  mapM (tile_chunk g lvl) (ndindex (chunk_range g)).

End Tiling.

(* ---------- executable predicates on the geometry ---------- *)

(* per axis: os old size, ns new size, oc old chunk, nc new chunk;
   f, h as the code computes them *)
(* the transition is tiled exactly along this axis *)
Definition compat_axis (os ns oc nc : Z) : bool :=
  let f := ax_f os ns in
  let h := oc / f in
  (1 <=? h) &&
  (  ((ns <=? nc) && (ns <=? h))
  || ((f * h =? oc) &&
      (((ns <=? nc) && (ns <=? 2 * h)) || ((nc mod h =? 0) && (nc <=? 2 * h))))).

Definition sizes_ok (g : geom) : bool := eqb3 (g_ns g) (cdiv3 (g_os g) (factors g)).

Definition compat (g : geom) : bool :=
  geom_pos g && sizes_ok g && forall3_4 compat_axis (g_os g) (g_ns g) (g_oc g) (g_nc g).

(* region in which a result that is not an error is right: along every axis
   either the tiling is exact, or the old chunk is a multiple of the factor,
   the half chunk divides the new chunk and is at least 2 (then any mismatch
   of extents is a broadcast error, never a silent stretch) *)
Definition guard_axis (os ns oc nc : Z) : bool :=
  let f := ax_f os ns in
  let h := oc / f in
  compat_axis os ns oc nc || ((f * h =? oc) && (2 <=? h) && (nc mod h =? 0)).

Definition tiling_guard (g : geom) : bool :=
  geom_pos g && forall3_4 guard_axis (g_os g) (g_ns g) (g_oc g) (g_nc g).

Definition zero_half_class (g : geom) : bool :=
  negb (forall3 (fun h => negb (h =? 0)) (half_chunk g)).

(* ---------- the three downscalers, executably ---------- *)

Definition ds_shape (f : t3) (a : arr) : t3 := cdiv3 (a_sh a) f.

(* StridingDownscaler: chunk[:, ::fz, ::fy, ::fx] *)
Definition ds_stride (f : t3) (a : arr) : arr :=
  {| a_c := a_c a; a_sh := ds_shape f a; a_get := fun c p => a_get a c (mul3 p f) |}.

(* offsets of a block, z slowest *)
Definition offs (f : t3) : list t3 :=
  let '(fx, fy, fz) := f in
  flat_map (fun z => flat_map (fun y => map (fun x => (x, y, z)) (levels fx)) (levels fy))
           (levels fz).

(* AveragingDownscaler with edge padding on integer data whose sums are exact
   in float64 (uint8/16/32, see C07): the mean of the block, indices clamped
   to the last element (the one-element edge pad), rounded half to even *)
Definition ds_avg (f : t3) (a : arr) : arr :=
  {| a_c := a_c a; a_sh := ds_shape f a;
     a_get := fun c p =>
       rhe_div (sumZ (map (fun o => a_get a c (min3 (add3 (mul3 p f) o) (sub3 (a_sh a) one3)))
                          (offs f)))
               (prod3 f) |}.

(* MajorityDownscaler: the block is clipped by slicing; np.unique sorts the
   labels, np.argmax takes the first maximum: most frequent, smallest on ties *)
Definition count_of (v : Z) (l : list Z) : Z := Z.of_nat (length (filter (Z.eqb v) l)).
Definition better (v c bv bc : Z) : bool := (bc <? c) || ((bc =? c) && (v <? bv)).
Definition majority (l : list Z) : Z :=
  match l with
  | [] => 0     (* unreachable: a block inside the result shape is never empty *)
  | v0 :: _ =>
      fst (fold_left (fun best v => let c := count_of v l in
                        if better v c (fst best) (snd best) then (v, c) else best)
                     l (v0, count_of v0 l))
  end.
Definition ds_majority (f : t3) (a : arr) : arr :=
  {| a_c := a_c a; a_sh := ds_shape f a;
     a_get := fun c p =>
       majority (map (fun o => a_get a c (add3 (mul3 p f) o))
                     (filter (fun o => forall3_2 Z.ltb (add3 (mul3 p f) o) (a_sh a)) (offs f))) |}.

(* ---------- list <-> array (executable wrappers used by D_C08) ---------- *)

(* C-order index of (c, z, y, x) in an array of extents sh = (sx, sy, sz) *)
Definition flat_index (sh : t3) (c : Z) (p : t3) : Z :=
  let '(sx, sy, sz) := sh in let '(x, y, z) := p in
  ((c * sz + z) * sy + y) * sx + x.

Definition build_map (data : list Z) : PositiveMap.t Z :=
  fst (fold_left (fun '(m, i) v => (PositiveMap.add i v m, Pos.succ i)) data
                 (PositiveMap.empty Z, 1%positive)).

Definition arr_of_list (ch : Z) (sh : t3) (data : list Z) : arr :=
  let m := build_map data in
  {| a_c := ch; a_sh := sh;
     a_get := fun c p => match PositiveMap.find (Z.to_pos (flat_index sh c p + 1)) m with
                         | Some v => v | None => 0 end |}.

(* positions of a (C, Z, Y, X) array in C order *)
Definition positions (ch : Z) (sh : t3) : list (Z * t3) :=
  let '(sx, sy, sz) := sh in
  flat_map (fun c => flat_map (fun z => flat_map (fun y =>
     map (fun x => (c, (x, y, z))) (levels sx)) (levels sy)) (levels sz)) (levels ch).

Definition list_of_arr (a : arr) : list Z :=
  map (fun cp => a_get a (fst cp) (snd cp)) (positions (a_c a) (a_sh a)).
Definition cells_of_buffer (b : buffer) : list cell :=
  map (fun cp => b_get b (fst cp) (snd cp)) (positions (b_c b) (b_sh b)).

(* ---------- the source scale as a chunk store with fallible reads ---------- *)

(* chunk_reader.read_chunk(old_key, coords) behind the coordinate assertion:
   the accessor fetch and the decoder, each of which may raise
   (DataAccessError, InvalidFormatError, ...); lo/hi are the chunk corners *)
Definition chunk_src : Type := t3 -> t3 -> outcome arr.

Definition read_chunk_src (src : chunk_src) (size cs lo hi : t3) : outcome arr :=
  if negb (validate_chunk_coords size cs lo hi) then Crash AssertionError else src lo hi.

(* the store in which every chunk of a complete level can be read *)
Definition src_of_level (lvl : arr) : chunk_src :=
  fun lo hi => Ok (restrict lvl lo (sub3 hi lo)).

(* the same store with the chunks whose origin is listed made unreadable *)
Definition eqb_t3 (a b : t3) : bool := eqb3 a b.
Definition src_with_failures (lvl : arr) (bad : list (t3 * outcome arr)) : chunk_src :=
  fun lo hi =>
    match find (fun e => eqb_t3 (fst e) lo) bad with
    | Some (_, err) => err
    | None => Ok (restrict lvl lo (sub3 hi lo))
    end.

Section TilingSrc.

Variable ds : t3 -> arr -> arr.

(* load_and_downscale_old_chunk: no try/except, a failing read propagates *)
Definition load_ds_src (g : geom) (src : chunk_src) (j : t3) : outcome arr :=
  let lo := mul3 (g_oc g) j in
  let hi := min3 (mul3 (g_oc g) (add3 j one3)) (g_os g) in
  bind (read_chunk_src src (g_os g) (g_oc g) lo hi) (fun c => Ok (ds (factors g) c)).

Definition octant_step_src (g : geom) (src : chunk_src) (idx e : t3) (acc : outcome buffer) (b : t3)
  : outcome buffer :=
  bind acc (fun buf =>
    let h := half_chunk g in
    if forall3_3 ax_cond b e h then
      bind (load_ds_src g src (add3 (mul3 idx (fetch_factor g)) b)) (fun s =>
      assign buf (zip3_3 ax_dlo b e h) (zip3_3 ax_dext b e h) s)
    else Ok buf).

Definition tile_chunk_src (g : geom) (src : chunk_src) (idx : t3) : outcome (t3 * t3 * buffer) :=
  let lo := new_lo g idx in
  let hi := new_hi g idx in
  let e := sub3 hi lo in
  let b0 := {| b_c := g_ch g; b_sh := e; b_get := fun _ _ => Uninit |} in
  bind (fold_left (octant_step_src g src idx e) octants (Ok b0)) (fun buf =>
  if validate_chunk_coords (g_ns g) (g_nc g) lo hi then Ok (lo, hi, buf)
  else Crash AssertionError).

Definition tile_level_src (g : geom) (src : chunk_src) : outcome (list (t3 * t3 * buffer)) :=
  if negb (eqb3 (g_ns g) (cdiv3 (g_os g) (factors g))) then Crash ValueError else
  if negb (forall3 (fun h => negb (h =? 0)) (half_chunk g)) then Crash ZeroDivisionError else
  if stretch_class g then Crash ValueError else
  mapM (tile_chunk_src g src) (ndindex (chunk_range g)).

End TilingSrc.

(* the chunks of the old grid: origin oc * j inside the old volume *)
Definition old_chunk_lo (g : geom) (j : t3) : t3 := mul3 (g_oc g) j.
Definition old_chunk_hi (g : geom) (j : t3) : t3 :=
  min3 (mul3 (g_oc g) (add3 j one3)) (g_os g).
Definition in_old_grid (g : geom) (j : t3) : bool :=
  forall3 (fun x => 0 <=? x) j && forall3_2 Z.ltb (old_chunk_lo g j) (g_os g).

(* two outcomes of different types that are the same failure *)
Definition same_error {A B} (o : outcome A) (o' : outcome B) : Prop :=
  match o, o' with
  | FormatErr, FormatErr | InfoErr, InfoErr | AccessErr, AccessErr
  | IOErr, IOErr | Refused, Refused => True
  | Crash k, Crash k' => k = k'
  | _, _ => False
  end.
