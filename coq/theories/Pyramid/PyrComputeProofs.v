(* Proofs about the level loop (Properties/C06.v): the level assembled from the
   chunks written by one transition, and the composition with the scale
   generator (generated_pairs). *)
From Coq Require Import ZArith List Bool Lia.
From Coq Require Import Floats.SpecFloat.
From NGS Require Import Val Ints PyrScales PyrScalesProofs PyrKeys PyrKeysProofs PyrTiling PyrTilingProofs PyrCompute.
Import ListNotations.
Open Scope Z_scope.
Ltac Zify.zify_post_hook ::= Z.to_euclidean_division_equations.

Lemma new_lo_inj : forall g i j, (forall a, 0 < get3 a (g_nc g)) -> new_lo g i = new_lo g j -> i = j.
Proof.
  intros g i j Hp H. apply t3_ext. intro a.
  assert (E : get3 a (new_lo g i) = get3 a (new_lo g j)) by (rewrite H; reflexivity).
  rewrite !get3_new_lo in E. specialize (Hp a). nia.
Qed.

Section Compute.

Variable ds : t3 -> arr -> arr.
Variable poison : Z.
Hypothesis ds_shape : ds_shape_prop ds.
Hypothesis ds_local : ds_local_prop ds.

(* one transition inside compat: the level read back afterwards is the whole
   previous level downscaled once, at every position, whatever np.empty held *)
Theorem next_level_exact : forall ch s0 s1 lvl,
  compat (geom_of ch s0 s1) = true -> a_sh lvl = sg_size s0 -> a_c lvl = ch ->
  exists nl, next_level ds poison ch s0 s1 lvl = Ok nl /\
    a_sh nl = sg_size s1 /\ a_c nl = ch /\
    forall c q, 0 <= c < ch -> (forall a, 0 <= get3 a q < get3 a (sg_size s1)) ->
      a_get nl c q = a_get (ds (factors (geom_of ch s0 s1)) lvl) c q.
Proof.
  intros ch s0 s1 lvl Hc Hsh Hch. set (g := geom_of ch s0 s1) in *.
  destruct (tiling_exact ds ds_shape ds_local g lvl Hc Hsh Hch) as [chunks [Ht [Hmap HF]]].
  unfold next_level. fold g. rewrite Ht. cbn [bind]. eexists. split; [reflexivity|].
  split; [reflexivity|]. split; [reflexivity|].
  intros c q Hcr Hq. cbn [level_of_chunks a_get].
  pose proof Hc as Hc'. unfold compat in Hc'. rewrite !andb_true_iff in Hc'.
  destruct Hc' as [[Hpos _] _].
  destruct (geom_pos_spec g Hpos) as [Pos [Pns [Poc [Pnc Pch]]]].
  rewrite Forall_forall in HF.
  (* the chunk that holds q exists *)
  set (idx := div3 q (g_nc g)).
  assert (Hidx : In idx (ndindex (chunk_range g))).
  { apply in_ndindex. intro a. unfold idx, div3, chunk_range, cdiv3. rewrite !get3_zip3.
    specialize (Hq a). specialize (Pnc a). change (sg_size s1) with (g_ns g) in Hq.
    split; [apply Z.div_pos; lia|]. apply lt_ceil_div_iff; [lia|].
    pose proof (Z.mul_div_le (get3 a q) (get3 a (g_nc g)) ltac:(lia)). lia. }
  assert (Hex : exists x, In x chunks /\
            in_box (fst (fst x)) (sub3 (snd (fst x)) (fst (fst x))) q = true).
  { assert (Hl : In (new_lo g idx) (map (fun c0 => fst (fst c0)) chunks)).
    { rewrite Hmap. apply in_map. exact Hidx. }
    apply in_map_iff in Hl. destruct Hl as [[[lo hi] buf] [Elo Hin]]. cbn in Elo.
    exists (lo, hi, buf). split; [exact Hin|]. cbn [fst snd].
    pose proof (HF _ Hin) as R. cbn in R. destruct R as [idx' [_ [E1 [E2 _]]]].
    assert (idx' = idx) by (apply (new_lo_inj g); [exact Pnc | congruence]). subst idx'.
    apply in_box_spec. intro a. subst lo hi. unfold sub3. rewrite get3_zip3.
    unfold new_hi, new_lo, min3, mul3, add3. rewrite !get3_zip3, get3_one3.
    unfold idx, div3. rewrite get3_zip3. specialize (Hq a). specialize (Pnc a).
    change (sg_size s1) with (g_ns g) in Hq.
    pose proof (Z.mul_div_le (get3 a q) (get3 a (g_nc g)) ltac:(lia)).
    pose proof (Z.mul_succ_div_gt (get3 a q) (get3 a (g_nc g)) ltac:(lia)). lia. }
  unfold find_chunk.
  destruct (find (fun c0 => in_box (fst (fst c0)) (sub3 (snd (fst c0)) (fst (fst c0))) q) chunks)
    as [[[lo hi] buf]|] eqn:Hfind.
  - apply find_some in Hfind. destruct Hfind as [Hin Hb]. cbn [fst snd] in Hb.
    pose proof (HF _ Hin) as R. cbn in R. destruct R as [idx' [_ [_ [_ Hv]]]].
    rewrite in_box_spec in Hb.
    rewrite (Hv c (sub3 q lo)).
    + cbn [cell_value]. f_equal. apply t3_ext. intro a. unfold add3, sub3. rewrite !get3_zip3. lia.
    + change (g_ch g) with ch. exact Hcr.
    + intro a. specialize (Hb a). unfold sub3 in *. rewrite !get3_zip3 in *. lia.
  - exfalso. destruct Hex as [x [Hin Hb]].
    pose proof (find_none _ _ Hfind x Hin) as Hn. cbn in Hn. congruence.
Qed.

End Compute.

(* the result of a transition inside compat does not depend on the content of
   the uninitialised buffer *)
Corollary next_level_poison_independent : forall ds, ds_shape_prop ds -> ds_local_prop ds ->
  forall p1 p2 ch s0 s1 lvl,
  compat (geom_of ch s0 s1) = true -> a_sh lvl = sg_size s0 -> a_c lvl = ch ->
  exists n1 n2, next_level ds p1 ch s0 s1 lvl = Ok n1 /\ next_level ds p2 ch s0 s1 lvl = Ok n2 /\
    forall c q, 0 <= c < ch -> (forall a, 0 <= get3 a q < get3 a (sg_size s1)) ->
      a_get n1 c q = a_get n2 c q.
Proof.
  intros ds Hs Hl p1 p2 ch s0 s1 lvl Hc Hsh Hch.
  destruct (next_level_exact ds p1 Hs Hl ch s0 s1 lvl Hc Hsh Hch) as [n1 [E1 [_ [_ V1]]]].
  destruct (next_level_exact ds p2 Hs Hl ch s0 s1 lvl Hc Hsh Hch) as [n2 [E2 [_ [_ V2]]]].
  exists n1, n2. repeat split; try assumption. intros c q Hc' Hq. rewrite V1, V2 by assumption.
  reflexivity.
Qed.

(* ---------- composition with the generator ---------- *)

Definition geo_of_scale (s : scale_out) : scale_geo :=
  {| sg_size := so_size s; sg_chunk := so_chunks s |}.

Fixpoint list_eqb (a b : list Z) : bool :=
  match a, b with
  | [], [] => true
  | x :: a', y :: b' => (x =? y) && list_eqb a' b'
  | _, _ => false
  end.

Fixpoint keys_nodup (l : list (list N)) : bool :=
  match l with
  | [] => true
  | k :: r => negb (existsb (bytes_eqb k) r) && keys_nodup r
  end.

(* "some consecutive pair of generated scales is outside compat" *)
Definition generated_pair_bad (full : t3) (res : fl * fl * fl) (target : Z) : bool :=
  match gen_scales full res target 0 with
  | Ok scales => negb (all_pairs_ok compat 1 (map geo_of_scale scales))
  | _ => false
  end.

Definition gp_full : t3 := (65, 5, 1).
Definition gp_res : fl * fl * fl := ((1%positive, 0), (1%positive, 3), (1%positive, 5)).   (* 1 : 8 : 32 nm *)

(* the former silent-wrong generator output (65 x 5 x 1 voxels at 1:8:32 nm,
   target 4): the generated pairs are still not all compat, but the pyramid
   computation now refuses the last transition (ValueError) instead of writing
   wrong voxels *)
Definition pyramid_outcome_is_value_error (ds : t3 -> arr -> arr) (full : t3) (res : fl * fl * fl)
           (target : Z) (data : list Z) : bool :=
  match gen_scales full res target 0 with
  | Ok scales =>
      match pyramid ds 0 1 (map geo_of_scale scales) (arr_of_list 1 full data) with
      | Crash ValueError => true | _ => false end
  | _ => false
  end.

Example former_generated_witness_refused :
  generated_pair_bad gp_full gp_res 4 = true /\
  pyramid_outcome_is_value_error ds_stride gp_full gp_res 4 (levels 325) = true /\
  pyramid_outcome_is_value_error ds_avg gp_full gp_res 4 (levels 325) = true.
Proof. vm_compute. repeat split; reflexivity. Qed.

(* inside the guard the composition is fine: if every generated pair is
   compat, every transition is exact (next_level_exact applies to each) *)
Lemma generated_pairs_on_guard : forall full res target scales ch,
  gen_scales full res target 0 = Ok scales ->
  all_pairs_ok compat ch (map geo_of_scale scales) = true ->
  forall s0 s1 pre post, map geo_of_scale scales = pre ++ s0 :: s1 :: post ->
    compat (geom_of ch s0 s1) = true.
Proof.
  intros full res target scales ch _ H s0 s1 pre. revert H.
  generalize (map geo_of_scale scales) as l. intros l H post E. subst l.
  induction pre as [|x pre IH].
  - simpl in H. apply andb_true_iff in H. destruct H as [H _]. exact H.
  - destruct pre as [|y pre']; simpl in H; apply andb_true_iff in H; destruct H as [_ H]; apply IH; exact H.
Qed.

(* the generator also emits pairs that make compute_dyadic_downscaling fail
   with ZeroDivisionError (old chunk 1 along a halved axis) *)
Definition generated_zero_half (full : t3) (res : fl * fl * fl) (target : Z) : bool :=
  match gen_scales full res target 0 with
  | Ok (s0 :: s1 :: _) =>
      let g := geom_of 1 (geo_of_scale s0) (geo_of_scale s1) in
      zero_half_class g &&
      match tile_level ds_stride g (arr_of_list 1 full (levels (prod3 full))) with
      | Crash ZeroDivisionError => true | _ => false end
  | _ => false
  end.

Lemma generated_zero_half_refuted :
  generated_zero_half (3, 3, 3) ((1%positive, 0), (1%positive, 0), (1%positive, 2)) 1 = true.
Proof. vm_compute. reflexivity. Qed.

(* ---------- the whole level loop ---------- *)

(* two arrays with the same extents and the same voxels *)
Definition arr_eq (a b : arr) : Prop :=
  a_sh a = a_sh b /\ a_c a = a_c b /\
  forall c p, 0 <= c < a_c a -> (forall ax, 0 <= get3 ax p < get3 ax (a_sh a)) ->
    a_get a c p = a_get b c p.

(* a downscaler only looks at voxels inside the array *)
Definition ds_ext_prop (ds : t3 -> arr -> arr) : Prop :=
  forall f a b, (forall ax, get3 ax f = 1 \/ get3 ax f = 2) ->
    (forall ax, 0 < get3 ax (a_sh a)) -> arr_eq a b -> arr_eq (ds f a) (ds f b).

Lemma stride_ext : ds_ext_prop ds_stride.
Proof.
  intros f a b Hf Hpos [Es [Ec Ev]]. unfold arr_eq. cbn [ds_stride a_sh a_c a_get]. unfold ds_shape.
  rewrite Es. repeat split; try assumption. intros c p Hc Hp. apply Ev; [assumption|].
  intro ax. specialize (Hp ax). rewrite <- Es in Hp. unfold cdiv3, mul3 in *. rewrite get3_zip3 in *.
  specialize (Hpos ax). unfold ceil_div in Hp. destruct (Hf ax) as [E|E]; rewrite E in *; lia.
Qed.

Lemma avg_ext : ds_ext_prop ds_avg.
Proof.
  intros f a b Hf Hpos [Es [Ec Ev]]. unfold arr_eq. cbn [ds_avg a_sh a_c a_get]. unfold ds_shape.
  rewrite <- Es. repeat split; try assumption. intros c p Hc Hp.
  f_equal. f_equal. apply map_ext_in. intros o Ho. rewrite in_offs in Ho. apply Ev; [assumption|].
  intro ax. specialize (Hp ax). specialize (Ho ax). specialize (Hpos ax).
  unfold cdiv3, mul3, add3, min3, sub3 in *. rewrite !get3_zip3, ?get3_one3 in *.
  destruct (Hf ax) as [E|E]; rewrite E in *; lia.
Qed.

Lemma majority_ext : ds_ext_prop ds_majority.
Proof.
  intros f a b Hf Hpos [Es [Ec Ev]]. unfold arr_eq. cbn [ds_majority a_sh a_c a_get]. unfold ds_shape.
  rewrite <- Es. repeat split; try assumption. intros c p Hc Hp.
  f_equal. apply map_ext_in. intros o Ho. apply filter_In in Ho. destruct Ho as [Ho Hlt].
  rewrite in_offs in Ho. rewrite forall3_2_spec in Hlt. apply Ev; [assumption|].
  intro ax. specialize (Hp ax). specialize (Ho ax). specialize (Hlt ax). apply Z.ltb_lt in Hlt.
  unfold cdiv3, mul3, add3 in *. rewrite !get3_zip3 in *.
  split; [|exact Hlt]. destruct (Hf ax) as [E|E]; rewrite E in *; lia.
Qed.

Section Loop.

Variable ds : t3 -> arr -> arr.
Variable poison : Z.
Hypothesis ds_shape : ds_shape_prop ds.
Hypothesis ds_local : ds_local_prop ds.
Hypothesis ds_ext : ds_ext_prop ds.

Lemma factors_ch_indep : forall c1 c2 s0 s1, factors (geom_of c1 s0 s1) = factors (geom_of c2 s0 s1).
Proof. reflexivity. Qed.

Lemma pyramid_cons2 : forall ch s0 s1 rest lvl,
  pyramid ds poison ch (s0 :: s1 :: rest) lvl
  = bind (next_level ds poison ch s0 s1 lvl) (fun nl =>
    bind (pyramid ds poison ch (s1 :: rest) nl) (fun r => Ok (nl :: r))).
Proof. reflexivity. Qed.

Lemma pyramid_ref_cons2 : forall s0 s1 rest lvl,
  pyramid_ref ds (s0 :: s1 :: rest) lvl
  = ds (factors (geom_of (a_c lvl) s0 s1)) lvl
    :: pyramid_ref ds (s1 :: rest) (ds (factors (geom_of (a_c lvl) s0 s1)) lvl).
Proof. reflexivity. Qed.

(* compute_dyadic_scales on generated scales that are pairwise compat: no
   error, and every level is the whole previous level downscaled once *)
Theorem pyramid_exact : forall ch scales lvl lvl',
  all_pairs_ok compat ch scales = true ->
  (forall s0, hd_error scales = Some s0 -> a_sh lvl = sg_size s0) -> a_c lvl = ch ->
  arr_eq lvl lvl' ->
  exists out, pyramid ds poison ch scales lvl = Ok out /\
              Forall2 arr_eq out (pyramid_ref ds scales lvl').
Proof.
  intros ch scales. induction scales as [|s0 rest IH]; intros lvl lvl' Hall Hsh Hch Heq.
  - exists []. split; [reflexivity | constructor].
  - destruct rest as [|s1 rest'].
    + exists []. split; [reflexivity | constructor].
    + cbn [all_pairs_ok] in Hall. apply andb_true_iff in Hall. destruct Hall as [Hc Hall].
      specialize (Hsh s0 eq_refl).
      destruct (next_level_exact ds poison ds_shape ds_local ch s0 s1 lvl Hc Hsh Hch)
        as [nl [Hn [Nsh [Nch Nv]]]].
      rewrite pyramid_cons2, pyramid_ref_cons2. rewrite Hn. cbn [bind].
      set (g := geom_of ch s0 s1) in *.
      destruct Heq as [Es [Ec Ev]].
      assert (Hfg : factors (geom_of (a_c lvl') s0 s1) = factors g) by reflexivity.
      rewrite Hfg.
      pose proof Hc as Hc'. unfold compat in Hc'. rewrite !andb_true_iff in Hc'.
      destruct Hc' as [[Hpos Hsz] _].
      destruct (geom_pos_spec g Hpos) as [Pos [Pns _]].
      assert (Hfs : forall ax, get3 ax (factors g) = 1 \/ get3 ax (factors g) = 2).
      { intro ax. rewrite get3_factors. apply ax_f_cases. }
      assert (Hlp : forall ax, 0 < get3 ax (a_sh lvl)).
      { intro ax. rewrite Hsh. apply (Pos ax). }
      destruct (ds_ext (factors g) lvl lvl' Hfs Hlp (conj Es (conj Ec Ev))) as [Ds [Dc Dv]].
      assert (Dsh : a_sh (ds (factors g) lvl) = sg_size s1).
      { rewrite (proj1 (ds_shape _ _)), Hsh. unfold sizes_ok in Hsz. apply eqb3_spec in Hsz.
        symmetry. exact Hsz. }
      assert (Heq' : arr_eq nl (ds (factors g) lvl')).
      { split; [rewrite Nsh, <- Ds, Dsh; reflexivity|].
        split; [rewrite Nch, <- Dc, (proj2 (ds_shape _ _)); symmetry; exact Hch|].
        intros c q Hcq Hq. rewrite Nch in Hcq. rewrite Nsh in Hq.
        rewrite (Nv c q Hcq Hq). apply Dv.
        - rewrite (proj2 (ds_shape _ _)), Hch. exact Hcq.
        - rewrite Dsh. exact Hq. }
      destruct (IH nl (ds (factors g) lvl') Hall) as [out [Ho Hf]]; try assumption.
      { intros s Hs. inversion Hs; subst s. exact Nsh. }
      rewrite Ho. cbn [bind]. exists (nl :: out). split; [reflexivity|].
      constructor; assumption.
Qed.

(* a pyramid computation that does not raise went through compat pairs only *)
Lemma pyramid_ok_pairs_compat : forall ch scales lvl out,
  all_pairs_ok geom_pos ch scales = true ->
  pyramid ds poison ch scales lvl = Ok out ->
  all_pairs_ok compat ch scales = true.
Proof.
  intros ch scales. induction scales as [|s0 rest IH]; intros lvl out Hp H; [reflexivity|].
  destruct rest as [|s1 rest']; [reflexivity|].
  cbn [all_pairs_ok] in Hp |- *. apply andb_true_iff in Hp. destruct Hp as [Hp0 Hp].
  rewrite pyramid_cons2 in H.
  destruct (next_level ds poison ch s0 s1 lvl) as [nl| | | | | |k] eqn:Hn; cbn [bind] in H; try discriminate.
  destruct (pyramid ds poison ch (s1 :: rest') nl) as [r| | | | | |k] eqn:Hr; cbn [bind] in H; try discriminate.
  apply andb_true_iff. split; [|exact (IH nl r Hp Hr)].
  unfold next_level in Hn.
  destruct (tile_level ds (geom_of ch s0 s1) lvl) as [chunks| | | | | |k] eqn:Ht; cbn [bind] in Hn; try discriminate.
  exact (ok_is_compat ds ds_shape (geom_of ch s0 s1) lvl chunks Hp0 Ht).
Qed.

(* C06 for the level loop, without any guard: on scales with positive sizes,
   compute_dyadic_scales either raises or produces, at every level, the whole
   previous level downscaled once *)
Theorem pyramid_sound : forall ch scales lvl lvl' out,
  all_pairs_ok geom_pos ch scales = true ->
  (forall s0, hd_error scales = Some s0 -> a_sh lvl = sg_size s0) -> a_c lvl = ch ->
  arr_eq lvl lvl' ->
  pyramid ds poison ch scales lvl = Ok out ->
  Forall2 arr_eq out (pyramid_ref ds scales lvl').
Proof.
  intros ch scales lvl lvl' out Hp Hsh Hch Heq H.
  pose proof (pyramid_ok_pairs_compat ch scales lvl out Hp H) as Hc.
  destruct (pyramid_exact ch scales lvl lvl' Hc Hsh Hch Heq) as [out' [Ho HF]].
  rewrite H in Ho. inversion Ho; subst out'. exact HF.
Qed.

End Loop.

(* ---------- generated pairs: exact or error ---------- *)

Lemma all_pairs_geom_pos : forall ch (l : list scale_geo), 0 < ch ->
  (forall s, In s l -> (forall a, 0 < get3 a (sg_size s)) /\ (forall a, 0 < get3 a (sg_chunk s))) ->
  all_pairs_ok geom_pos ch l = true.
Proof.
  intros ch l Hch. induction l as [|s0 rest IH]; intro H; [reflexivity|].
  destruct rest as [|s1 rest']; [reflexivity|]. cbn [all_pairs_ok]. apply andb_true_iff. split.
  - destruct (H s0 (or_introl eq_refl)) as [A0 B0].
    destruct (H s1 (or_intror (or_introl eq_refl))) as [A1 B1].
    unfold geom_pos, geom_of. cbn [g_os g_ns g_oc g_nc g_ch]. rewrite !andb_true_iff.
    repeat split; try (apply forall3_spec; intro a; apply Z.ltb_lt; auto). apply Z.ltb_lt. exact Hch.
  - apply IH. intros s Hs. apply H. right. exact Hs.
Qed.

(* Composition with the scale generator: for EVERY description the generator
   accepts, every number of channels and every level-0 array, the pyramid
   computation on the generated scales is classified exact-or-error: if it does
   not raise, every level is the whole previous level downscaled once. *)
Theorem generated_pairs : forall ds poison,
  ds_shape_prop ds -> ds_local_prop ds -> ds_ext_prop ds ->
  forall full res target ms scales ch lvl out,
  gen_scales full res target ms = Ok scales -> 0 < ch ->
  (forall s0, hd_error (map geo_of_scale scales) = Some s0 -> a_sh lvl = sg_size s0) ->
  a_c lvl = ch ->
  pyramid ds poison ch (map geo_of_scale scales) lvl = Ok out ->
  Forall2 arr_eq out (pyramid_ref ds (map geo_of_scale scales) lvl).
Proof.
  intros ds poison Hs Hl He full res target ms scales ch lvl out Hg Hch Hsh Hc H.
  apply (pyramid_sound ds poison Hs Hl He ch _ lvl lvl out); try assumption.
  - apply all_pairs_geom_pos; [exact Hch|]. intros s Hin. apply in_map_iff in Hin.
    destruct Hin as [so [<- Hso]]. exact (gen_scales_scale_pos _ _ _ _ _ _ Hg Hso).
  - repeat split; reflexivity.
Qed.

