(* Proofs for Properties/C06.v: the tiling performed by
   compute_dyadic_downscaling equals the restriction of the whole-level
   downscale, for every downscaling function that is local. *)
From Coq Require Import ZArith List Bool Lia.
From NGS Require Import Val Ints PyrScales PyrScalesProofs PyrTiling.
Import ListNotations.
Open Scope Z_scope.
Ltac Zify.zify_post_hook ::= Z.to_euclidean_division_equations.

(* ---------- triples, continued ---------- *)

Lemma get3_zip3_3 : forall a f u v w,
  get3 a (zip3_3 f u v w) = f (get3 a u) (get3 a v) (get3 a w).
Proof. intros a f [[x y] z] [[x1 y1] z1] [[x2 y2] z2]; destruct a; reflexivity. Qed.

Lemma forall3_3_spec : forall p u v w,
  forall3_3 p u v w = true <-> forall a, p (get3 a u) (get3 a v) (get3 a w) = true.
Proof.
  intros p [[x y] z] [[x1 y1] z1] [[x2 y2] z2]; simpl. rewrite !andb_true_iff. split.
  - intros [[Hx Hy] Hz] a; destruct a; assumption.
  - intro H. repeat split; [apply (H AX) | apply (H AY) | apply (H AZ)].
Qed.

Lemma forall3_4_spec : forall p s u v w,
  forall3_4 p s u v w = true <->
  forall a, p (get3 a s) (get3 a u) (get3 a v) (get3 a w) = true.
Proof.
  intros p [[x0 y0] z0] [[x y] z] [[x1 y1] z1] [[x2 y2] z2]; simpl.
  rewrite !andb_true_iff. split.
  - intros [[Hx Hy] Hz] a; destruct a; assumption.
  - intro H. repeat split; [apply (H AX) | apply (H AY) | apply (H AZ)].
Qed.

Lemma in_box_spec : forall lo ext p,
  in_box lo ext p = true <->
  forall a, get3 a lo <= get3 a p < get3 a lo + get3 a ext.
Proof.
  intros lo ext p. unfold in_box. rewrite forall3_3_spec. split; intros H a; specialize (H a).
  - apply andb_true_iff in H. destruct H as [H1 H2]. apply Z.leb_le in H1. apply Z.ltb_lt in H2. lia.
  - apply andb_true_iff. split; [apply Z.leb_le | apply Z.ltb_lt]; lia.
Qed.

Ltac g3 := unfold add3, sub3, mul3, div3, min3, cdiv3, one3 in *;
           repeat rewrite ?get3_zip3, ?get3_map3, ?get3_zip3_3 in *.

Lemma get3_one3 : forall a, get3 a one3 = 1.
Proof. destruct a; reflexivity. Qed.

(* ---------- one axis ---------- *)

Definition ax_h (os ns oc : Z) : Z := oc / ax_f os ns.
Definition ax_cff (os ns oc nc : Z) : Z := nc / ax_h os ns oc.
Definition ax_e (ns nc i : Z) : Z := Z.min (nc * (i + 1)) ns - nc * i.
Definition ax_j (os ns oc nc i b : Z) : Z := i * ax_cff os ns oc nc + b.
Definition ax_olo (os ns oc nc i b : Z) : Z := oc * ax_j os ns oc nc i b.
Definition ax_ohi (os ns oc nc i b : Z) : Z := Z.min (oc * (ax_j os ns oc nc i b + 1)) os.
Definition ax_src (os ns oc nc i b : Z) : Z :=
  ceil_div (ax_ohi os ns oc nc i b - ax_olo os ns oc nc i b) (ax_f os ns).

(* what the chunk-level argument needs from one axis, for the assignment of
   part b of new chunk i: the old chunk read exists, starts on a multiple of
   the factor, is full or ends at the border, and its downscaled origin is
   the origin of the destination; [ag_bc]: if NumPy accepts the extents they
   are equal (no stretching of a length-1 source) *)
Record ax_good (os ns oc nc i b : Z) : Prop :=
  { ag_lo : 0 <= ax_olo os ns oc nc i b < os;
    ag_mod : ax_olo os ns oc nc i b mod ax_f os ns = 0;
    ag_full : (ax_ohi os ns oc nc i b - ax_olo os ns oc nc i b) mod ax_f os ns = 0
              \/ ax_ohi os ns oc nc i b = os;
    ag_align : ax_olo os ns oc nc i b / ax_f os ns
               = nc * i + ax_dlo b (ax_e ns nc i) (ax_h os ns oc);
    ag_bc : bc_ok (ax_src os ns oc nc i b) (ax_dext b (ax_e ns nc i) (ax_h os ns oc)) = true ->
            ax_src os ns oc nc i b = ax_dext b (ax_e ns nc i) (ax_h os ns oc) }.

Definition ax_exact (os ns oc nc i b : Z) : Prop :=
  ax_src os ns oc nc i b = ax_dext b (ax_e ns nc i) (ax_h os ns oc).

Lemma ax_f_cases : forall os ns, ax_f os ns = 1 \/ ax_f os ns = 2.
Proof. intros. unfold ax_f. destruct (os =? ns); auto. Qed.

(* normal form: old chunk f*h, new chunk q*h *)
Lemma axis_core : forall f h q os ns i b,
  (f = 1 \/ f = 2) -> 1 <= h -> 1 <= q -> (h = 1 -> q <= 2) ->
  0 < os -> ns = ceil_div os f -> 0 <= i -> q * h * i < ns -> (b = 0 \/ b = 1) ->
  let oc := f * h in let nc := q * h in
  let e := Z.min (nc * (i + 1)) ns - nc * i in
  ax_cond b e h = true ->
  let j := i * q + b in
  let olo := oc * j in let ohi := Z.min (oc * (j + 1)) os in
  let src := ceil_div (ohi - olo) f in
  (0 <= olo < os) /\ olo mod f = 0 /\ ((ohi - olo) mod f = 0 \/ ohi = os) /\
  olo / f = nc * i + ax_dlo b e h /\
  (bc_ok src (ax_dext b e h) = true -> src = ax_dext b e h) /\
  (q <= 2 -> src = ax_dext b e h).
Proof.
  intros f h q os ns i b Hf Hh Hq Hh1 Hos Hns Hi Hlt Hb oc nc e Hc j olo ohi src.
  assert (HA : 0 <= q * h * i) by nia.
  assert (HB : h <= q * h) by nia.
  assert (HB2 : q = 1 \/ 2 * h <= q * h) by nia.
  assert (HB3 : q <= 2 -> q * h <= 2 * h) by nia.
  unfold ax_cond in Hc. unfold bc_ok, ax_dlo, ax_dext.
  subst src ohi olo j e nc oc. unfold ceil_div in *.
  set (A := q * h * i) in *. set (B := q * h) in *.
  replace (B * (i + 1)) with (A + B) in * by (unfold A, B; ring).
  replace (B * i) with A in * by (unfold A, B; ring).
  destruct Hf as [-> | ->]; destruct Hb as [-> | ->]; simpl (0 =? 0) in *; simpl (1 =? 0) in *;
    cbv iota in *.
  - replace (1 * h * (i * q + 0)) with A by (unfold A, B; ring).
    replace (1 * h * (i * q + 0 + 1)) with (A + h) by (unfold A, B; ring).
    repeat split; try lia; try (intro Hbc; apply orb_true_iff in Hbc;
      destruct Hbc as [Hbc|Hbc]; apply Z.eqb_eq in Hbc; lia).
  - rewrite orb_false_l in Hc. apply Z.ltb_lt in Hc.
    replace (1 * h * (i * q + 1)) with (A + h) by (unfold A, B; ring).
    replace (1 * h * (i * q + 1 + 1)) with (A + 2 * h) by (unfold A, B; ring).
    repeat split; try lia; try (intro Hbc; apply orb_true_iff in Hbc;
      destruct Hbc as [Hbc|Hbc]; apply Z.eqb_eq in Hbc; lia).
  - replace (2 * h * (i * q + 0)) with (2 * A) by (unfold A, B; ring).
    replace (2 * h * (i * q + 0 + 1)) with (2 * A + 2 * h) by (unfold A, B; ring).
    repeat split; try lia; try (intro Hbc; apply orb_true_iff in Hbc;
      destruct Hbc as [Hbc|Hbc]; apply Z.eqb_eq in Hbc; lia).
  - rewrite orb_false_l in Hc. apply Z.ltb_lt in Hc.
    replace (2 * h * (i * q + 1)) with (2 * A + 2 * h) by (unfold A, B; ring).
    replace (2 * h * (i * q + 1 + 1)) with (2 * A + 4 * h) by (unfold A, B; ring).
    repeat split; try lia; try (intro Hbc; apply orb_true_iff in Hbc;
      destruct Hbc as [Hbc|Hbc]; apply Z.eqb_eq in Hbc; lia).
Qed.

Lemma ax_good_raw : forall os ns oc nc i b,
  let f := ax_f os ns in let h := oc / f in let cff := nc / h in
  let j := i * cff + b in let olo := oc * j in let ohi := Z.min (oc * (j + 1)) os in
  let e := Z.min (nc * (i + 1)) ns - nc * i in let src := ceil_div (ohi - olo) f in
  0 <= olo < os -> olo mod f = 0 -> ((ohi - olo) mod f = 0 \/ ohi = os) ->
  olo / f = nc * i + ax_dlo b e h ->
  (bc_ok src (ax_dext b e h) = true -> src = ax_dext b e h) ->
  ax_good os ns oc nc i b.
Proof. intros. constructor; assumption. Qed.

(* one new chunk along the axis (ns <= nc): only chunk 0 *)
Lemma axis_single : forall os ns oc nc i b,
  0 < os -> 0 < oc -> 0 < nc -> ns = ceil_div os (ax_f os ns) ->
  1 <= ax_h os ns oc -> ns <= nc ->
  (ns <= ax_h os ns oc \/ (ax_f os ns * ax_h os ns oc = oc /\ ns <= 2 * ax_h os ns oc)) ->
  0 <= i -> nc * i < ns -> (b = 0 \/ b = 1) ->
  ax_cond b (ax_e ns nc i) (ax_h os ns oc) = true ->
  ax_good os ns oc nc i b /\ ax_exact os ns oc nc i b.
Proof.
  intros os ns oc nc i b Hos Hoc Hnc Hns Hh Hle Hcase Hi Hlt Hb Hc.
  assert (i = 0) by nia. subst i.
  unfold ax_exact, ax_src, ax_ohi, ax_olo, ax_j, ax_e, ax_cond in *.
  unfold ax_cff, ax_h in *.
  split; [apply ax_good_raw; cbv zeta|];
  unfold ax_dext, ax_dlo, bc_ok, ceil_div in *;
  replace (0 * (nc / (oc / ax_f os ns))) with 0 by ring;
  destruct (ax_f_cases os ns) as [Hf|Hf]; rewrite Hf in *;
  destruct Hb as [Hb|Hb]; subst b; simpl (0 =? 0) in *; simpl (1 =? 0) in *; cbv iota in *;
  try (rewrite orb_false_l in Hc; apply Z.ltb_lt in Hc); try lia.
Qed.

(* old chunk = f * h and h divides the new chunk *)
Lemma axis_divisible : forall os ns oc nc i b,
  0 < os -> 0 < nc -> ns = ceil_div os (ax_f os ns) ->
  1 <= ax_h os ns oc -> ax_f os ns * ax_h os ns oc = oc -> nc mod ax_h os ns oc = 0 ->
  (ax_h os ns oc = 1 -> nc <= 2) ->
  0 <= i -> nc * i < ns -> (b = 0 \/ b = 1) ->
  ax_cond b (ax_e ns nc i) (ax_h os ns oc) = true ->
  ax_good os ns oc nc i b /\ (nc <= 2 * ax_h os ns oc -> ax_exact os ns oc nc i b).
Proof.
  intros os ns oc nc i b Hos Hnc Hns Hh Hfh Hmod H1 Hi Hlt Hb Hc.
  set (f := ax_f os ns) in *. set (h := ax_h os ns oc) in *.
  assert (Hq : nc = (nc / h) * h).
  { rewrite Z.mul_comm. apply Z.div_exact; lia. }
  set (q := nc / h) in *.
  assert (Hq1 : 1 <= q) by nia.
  assert (Hh1 : h = 1 -> q <= 2) by (intro E; specialize (H1 E); nia).
  assert (Hlt' : q * h * i < ns) by (rewrite <- Hq; exact Hlt).
  assert (Hoc : oc = f * h) by lia.
  assert (Hcff : ax_cff os ns oc nc = q) by reflexivity.
  pose proof (axis_core f h q os ns i b (ax_f_cases os ns) Hh Hq1 Hh1 Hos Hns Hi Hlt' Hb) as K.
  cbv zeta in K. rewrite <- Hq in K. unfold ax_e in Hc. specialize (K Hc).
  destruct K as [K1 [K2 [K3 [K4 [K5 K6]]]]].
  split.
  - apply ax_good_raw; cbv zeta; change (oc / ax_f os ns) with h; change (ax_f os ns) with f;
    change (nc / h) with q; rewrite Hoc; assumption.
  - intro Hle. unfold ax_exact, ax_src, ax_ohi, ax_olo, ax_j, ax_e. fold f h. rewrite Hcff, Hoc.
    apply K6. apply (Z.mul_le_mono_pos_r q 2 h); lia.
Qed.

Lemma compat_axis_good : forall os ns oc nc i b,
  0 < os -> 0 < oc -> 0 < nc -> ns = ceil_div os (ax_f os ns) ->
  compat_axis os ns oc nc = true ->
  0 <= i -> nc * i < ns -> (b = 0 \/ b = 1) ->
  ax_cond b (ax_e ns nc i) (ax_h os ns oc) = true ->
  ax_good os ns oc nc i b /\ ax_exact os ns oc nc i b.
Proof.
  intros os ns oc nc i b Hos Hoc Hnc Hns Hcp Hi Hlt Hb Hc.
  unfold compat_axis in Hcp. fold (ax_h os ns oc) in Hcp.
  apply andb_true_iff in Hcp. destruct Hcp as [Hh Hcp]. apply Z.leb_le in Hh.
  apply orb_true_iff in Hcp. destruct Hcp as [Hcp|Hcp].
  - apply andb_true_iff in Hcp. destruct Hcp as [H1 H2]. apply Z.leb_le in H1, H2.
    apply axis_single; auto.
  - apply andb_true_iff in Hcp. destruct Hcp as [Hfh Hcp]. apply Z.eqb_eq in Hfh.
    apply orb_true_iff in Hcp. destruct Hcp as [Hcp|Hcp];
      apply andb_true_iff in Hcp; destruct Hcp as [H1 H2].
    + apply Z.leb_le in H1, H2. apply axis_single; auto.
    + apply Z.eqb_eq in H1. apply Z.leb_le in H2.
      destruct (axis_divisible os ns oc nc i b) as [G E]; auto; try lia.
Qed.

Lemma guard_axis_good : forall os ns oc nc i b,
  0 < os -> 0 < oc -> 0 < nc -> ns = ceil_div os (ax_f os ns) ->
  guard_axis os ns oc nc = true ->
  0 <= i -> nc * i < ns -> (b = 0 \/ b = 1) ->
  ax_cond b (ax_e ns nc i) (ax_h os ns oc) = true ->
  ax_good os ns oc nc i b.
Proof.
  intros os ns oc nc i b Hos Hoc Hnc Hns Hg Hi Hlt Hb Hc.
  unfold guard_axis in Hg. fold (ax_h os ns oc) in Hg.
  apply orb_true_iff in Hg. destruct Hg as [Hg|Hg].
  - apply compat_axis_good; assumption.
  - apply andb_true_iff in Hg. destruct Hg as [Hg H3]. apply andb_true_iff in Hg.
    destruct Hg as [H1 H2]. apply Z.eqb_eq in H1, H3. apply Z.leb_le in H2.
    destruct (axis_divisible os ns oc nc i b) as [G E]; auto; lia.
Qed.

Lemma guard_axis_half_pos : forall os ns oc nc, guard_axis os ns oc nc = true -> 1 <= ax_h os ns oc.
Proof.
  intros os ns oc nc Hg. unfold guard_axis, compat_axis in Hg. fold (ax_h os ns oc) in Hg.
  apply orb_true_iff in Hg. destruct Hg as [Hg|Hg].
  - apply andb_true_iff in Hg. destruct Hg as [Hg _]. apply Z.leb_le in Hg. exact Hg.
  - apply andb_true_iff in Hg. destruct Hg as [Hg _]. apply andb_true_iff in Hg.
    destruct Hg as [_ Hg]. apply Z.leb_le in Hg. lia.
Qed.
