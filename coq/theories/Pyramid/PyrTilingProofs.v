(* Proofs for Properties/C06.v: the tiling performed by
   compute_dyadic_downscaling equals the restriction of the whole-level
   downscale, for every downscaling function that is local. *)
From Coq Require Import ZArith List Bool Lia.
From NGS Require Import Val Ints PyrScales PyrScalesProofs PyrTiling.
Import ListNotations.
Open Scope Z_scope.
Ltac Zify.zify_post_hook ::= Z.to_euclidean_division_equations.

(* ---------- triples, continued ---------- *)

Lemma get3_zip3_3 : forall a f u v w,
  get3 a (zip3_3 f u v w) = f (get3 a u) (get3 a v) (get3 a w).
Proof. intros a f [[x y] z] [[x1 y1] z1] [[x2 y2] z2]; destruct a; reflexivity. Qed.

Lemma forall3_3_spec : forall p u v w,
  forall3_3 p u v w = true <-> forall a, p (get3 a u) (get3 a v) (get3 a w) = true.
Proof.
  intros p [[x y] z] [[x1 y1] z1] [[x2 y2] z2]; simpl. rewrite !andb_true_iff. split.
  - intros [[Hx Hy] Hz] a; destruct a; assumption.
  - intro H. repeat split; [apply (H AX) | apply (H AY) | apply (H AZ)].
Qed.

Lemma forall3_4_spec : forall p s u v w,
  forall3_4 p s u v w = true <->
  forall a, p (get3 a s) (get3 a u) (get3 a v) (get3 a w) = true.
Proof.
  intros p [[x0 y0] z0] [[x y] z] [[x1 y1] z1] [[x2 y2] z2]; simpl.
  rewrite !andb_true_iff. split.
  - intros [[Hx Hy] Hz] a; destruct a; assumption.
  - intro H. repeat split; [apply (H AX) | apply (H AY) | apply (H AZ)].
Qed.

Lemma in_box_spec : forall lo ext p,
  in_box lo ext p = true <->
  forall a, get3 a lo <= get3 a p < get3 a lo + get3 a ext.
Proof.
  intros lo ext p. unfold in_box. rewrite forall3_3_spec. split; intros H a; specialize (H a).
  - apply andb_true_iff in H. destruct H as [H1 H2]. apply Z.leb_le in H1. apply Z.ltb_lt in H2. lia.
  - apply andb_true_iff. split; [apply Z.leb_le | apply Z.ltb_lt]; lia.
Qed.

Ltac g3 := unfold add3, sub3, mul3, div3, min3, cdiv3, one3 in *;
           repeat rewrite ?get3_zip3, ?get3_map3, ?get3_zip3_3 in *.

Lemma get3_one3 : forall a, get3 a one3 = 1.
Proof. destruct a; reflexivity. Qed.

(* ---------- one axis ---------- *)

Definition ax_h (os ns oc : Z) : Z := oc / ax_f os ns.
Definition ax_cff (os ns oc nc : Z) : Z := nc / ax_h os ns oc.
Definition ax_e (ns nc i : Z) : Z := Z.min (nc * (i + 1)) ns - nc * i.
Definition ax_j (os ns oc nc i b : Z) : Z := i * ax_cff os ns oc nc + b.
Definition ax_olo (os ns oc nc i b : Z) : Z := oc * ax_j os ns oc nc i b.
Definition ax_ohi (os ns oc nc i b : Z) : Z := Z.min (oc * (ax_j os ns oc nc i b + 1)) os.
Definition ax_src (os ns oc nc i b : Z) : Z :=
  ceil_div (ax_ohi os ns oc nc i b - ax_olo os ns oc nc i b) (ax_f os ns).

(* what the chunk-level argument needs from one axis, for the assignment of
   part b of new chunk i: the old chunk read exists, starts on a multiple of
   the factor, is full or ends at the border, and its downscaled origin is
   the origin of the destination; [ag_bc]: if NumPy accepts the extents they
   are equal (no stretching of a length-1 source) *)
Record ax_good (os ns oc nc i b : Z) : Prop :=
  { ag_lo : 0 <= ax_olo os ns oc nc i b < os;
    ag_mod : ax_olo os ns oc nc i b mod ax_f os ns = 0;
    ag_full : (ax_ohi os ns oc nc i b - ax_olo os ns oc nc i b) mod ax_f os ns = 0
              \/ ax_ohi os ns oc nc i b = os;
    ag_align : ax_olo os ns oc nc i b / ax_f os ns
               = nc * i + ax_dlo b (ax_e ns nc i) (ax_h os ns oc);
    ag_bc : bc_ok (ax_src os ns oc nc i b) (ax_dext b (ax_e ns nc i) (ax_h os ns oc)) = true ->
            ax_src os ns oc nc i b = ax_dext b (ax_e ns nc i) (ax_h os ns oc) }.

Definition ax_exact (os ns oc nc i b : Z) : Prop :=
  ax_src os ns oc nc i b = ax_dext b (ax_e ns nc i) (ax_h os ns oc).

Lemma ax_f_cases : forall os ns, ax_f os ns = 1 \/ ax_f os ns = 2.
Proof. intros. unfold ax_f. destruct (os =? ns); auto. Qed.

(* normal form: old chunk f*h, new chunk q*h *)
Lemma axis_core : forall f h q os ns i b,
  (f = 1 \/ f = 2) -> 1 <= h -> 1 <= q -> (h = 1 -> q <= 2) ->
  0 < os -> ns = ceil_div os f -> 0 <= i -> q * h * i < ns -> (b = 0 \/ b = 1) ->
  let oc := f * h in let nc := q * h in
  let e := Z.min (nc * (i + 1)) ns - nc * i in
  ax_cond b e h = true ->
  let j := i * q + b in
  let olo := oc * j in let ohi := Z.min (oc * (j + 1)) os in
  let src := ceil_div (ohi - olo) f in
  (0 <= olo < os) /\ olo mod f = 0 /\ ((ohi - olo) mod f = 0 \/ ohi = os) /\
  olo / f = nc * i + ax_dlo b e h /\
  (bc_ok src (ax_dext b e h) = true -> src = ax_dext b e h) /\
  (q <= 2 -> src = ax_dext b e h).
Proof.
  intros f h q os ns i b Hf Hh Hq Hh1 Hos Hns Hi Hlt Hb oc nc e Hc j olo ohi src.
  assert (HA : 0 <= q * h * i) by nia.
  assert (HB : h <= q * h) by nia.
  assert (HB2 : q = 1 \/ 2 * h <= q * h) by nia.
  assert (HB3 : q <= 2 -> q * h <= 2 * h) by nia.
  unfold ax_cond in Hc. unfold bc_ok, ax_dlo, ax_dext.
  subst src ohi olo j e nc oc. unfold ceil_div in *.
  set (A := q * h * i) in *. set (B := q * h) in *.
  replace (B * (i + 1)) with (A + B) in * by (unfold A, B; ring).
  replace (B * i) with A in * by (unfold A, B; ring).
  destruct Hf as [-> | ->]; destruct Hb as [-> | ->]; simpl (0 =? 0) in *; simpl (1 =? 0) in *;
    cbv iota in *.
  - replace (1 * h * (i * q + 0)) with A by (unfold A, B; ring).
    replace (1 * h * (i * q + 0 + 1)) with (A + h) by (unfold A, B; ring).
    repeat split; try lia; try (intro Hbc; apply orb_true_iff in Hbc;
      destruct Hbc as [Hbc|Hbc]; apply Z.eqb_eq in Hbc; lia).
  - rewrite orb_false_l in Hc. apply Z.ltb_lt in Hc.
    replace (1 * h * (i * q + 1)) with (A + h) by (unfold A, B; ring).
    replace (1 * h * (i * q + 1 + 1)) with (A + 2 * h) by (unfold A, B; ring).
    repeat split; try lia; try (intro Hbc; apply orb_true_iff in Hbc;
      destruct Hbc as [Hbc|Hbc]; apply Z.eqb_eq in Hbc; lia).
  - replace (2 * h * (i * q + 0)) with (2 * A) by (unfold A, B; ring).
    replace (2 * h * (i * q + 0 + 1)) with (2 * A + 2 * h) by (unfold A, B; ring).
    repeat split; try lia; try (intro Hbc; apply orb_true_iff in Hbc;
      destruct Hbc as [Hbc|Hbc]; apply Z.eqb_eq in Hbc; lia).
  - rewrite orb_false_l in Hc. apply Z.ltb_lt in Hc.
    replace (2 * h * (i * q + 1)) with (2 * A + 2 * h) by (unfold A, B; ring).
    replace (2 * h * (i * q + 1 + 1)) with (2 * A + 4 * h) by (unfold A, B; ring).
    repeat split; try lia; try (intro Hbc; apply orb_true_iff in Hbc;
      destruct Hbc as [Hbc|Hbc]; apply Z.eqb_eq in Hbc; lia).
Qed.

Lemma ax_good_raw : forall os ns oc nc i b,
  let f := ax_f os ns in let h := oc / f in let cff := nc / h in
  let j := i * cff + b in let olo := oc * j in let ohi := Z.min (oc * (j + 1)) os in
  let e := Z.min (nc * (i + 1)) ns - nc * i in let src := ceil_div (ohi - olo) f in
  0 <= olo < os -> olo mod f = 0 -> ((ohi - olo) mod f = 0 \/ ohi = os) ->
  olo / f = nc * i + ax_dlo b e h ->
  (bc_ok src (ax_dext b e h) = true -> src = ax_dext b e h) ->
  ax_good os ns oc nc i b.
Proof. intros. constructor; assumption. Qed.

Lemma ax_good_raw' : forall os ns oc nc i b f h cff,
  f = ax_f os ns -> h = oc / f -> cff = nc / h ->
  let j := i * cff + b in let olo := oc * j in let ohi := Z.min (oc * (j + 1)) os in
  let e := Z.min (nc * (i + 1)) ns - nc * i in let src := ceil_div (ohi - olo) f in
  0 <= olo < os -> olo mod f = 0 -> ((ohi - olo) mod f = 0 \/ ohi = os) ->
  olo / f = nc * i + ax_dlo b e h ->
  (bc_ok src (ax_dext b e h) = true -> src = ax_dext b e h) ->
  ax_good os ns oc nc i b.
Proof. intros; subst; constructor; assumption. Qed.

(* one new chunk along the axis (ns <= nc): only chunk 0 *)
Lemma axis_single : forall os ns oc nc i b,
  0 < os -> 0 < oc -> 0 < nc -> ns = ceil_div os (ax_f os ns) ->
  1 <= ax_h os ns oc -> ns <= nc ->
  (ns <= ax_h os ns oc \/ (ax_f os ns * ax_h os ns oc = oc /\ ns <= 2 * ax_h os ns oc)) ->
  0 <= i -> nc * i < ns -> (b = 0 \/ b = 1) ->
  ax_cond b (ax_e ns nc i) (ax_h os ns oc) = true ->
  ax_good os ns oc nc i b /\ ax_exact os ns oc nc i b.
Proof.
  intros os ns oc nc i b Hos Hoc Hnc Hns Hh Hle Hcase Hi Hlt Hb Hc.
  assert (i = 0) by nia. subst i.
  unfold ax_exact, ax_src, ax_ohi, ax_olo, ax_j, ax_e, ax_cond in *.
  unfold ax_cff, ax_h in *.
  split; [apply ax_good_raw; cbv zeta|];
  unfold ax_dext, ax_dlo, bc_ok, ceil_div in *;
  replace (0 * (nc / (oc / ax_f os ns))) with 0 by ring;
  destruct (ax_f_cases os ns) as [Hf|Hf]; rewrite Hf in *;
  destruct Hb as [Hb|Hb]; subst b; simpl (0 =? 0) in *; simpl (1 =? 0) in *; cbv iota in *;
  try (rewrite orb_false_l in Hc; apply Z.ltb_lt in Hc); try lia.
Qed.

(* old chunk = f * h and h divides the new chunk *)
Lemma axis_divisible : forall os ns oc nc i b,
  0 < os -> 0 < nc -> ns = ceil_div os (ax_f os ns) ->
  1 <= ax_h os ns oc -> ax_f os ns * ax_h os ns oc = oc -> nc mod ax_h os ns oc = 0 ->
  (ax_h os ns oc = 1 -> nc <= 2) ->
  0 <= i -> nc * i < ns -> (b = 0 \/ b = 1) ->
  ax_cond b (ax_e ns nc i) (ax_h os ns oc) = true ->
  ax_good os ns oc nc i b /\ (nc <= 2 * ax_h os ns oc -> ax_exact os ns oc nc i b).
Proof.
  intros os ns oc nc i b Hos Hnc Hns Hh Hfh Hmod H1 Hi Hlt Hb Hc.
  unfold ax_exact, ax_src, ax_ohi, ax_olo, ax_j, ax_cff, ax_e in *.
  remember (ax_h os ns oc) as h eqn:Eh. unfold ax_h in Eh.
  remember (ax_f os ns) as f eqn:Ef.
  remember (nc / h) as q eqn:Eq.
  assert (Hf : f = 1 \/ f = 2) by (rewrite Ef; apply ax_f_cases).
  assert (Hq : nc = q * h).
  { rewrite Eq, Z.mul_comm. apply Z.div_exact; lia. }
  assert (Hoc : oc = f * h) by (clear - Hfh; lia).
  assert (Hq1 : 1 <= q) by (clear - Hq Hnc Hh; nia).
  assert (Hh1 : h = 1 -> q <= 2) by (intro E; specialize (H1 E); clear - H1 Hq E; nia).
  assert (Hlt' : q * h * i < ns) by (rewrite <- Hq; exact Hlt).
  pose proof (axis_core f h q os ns i b Hf Hh Hq1 Hh1 Hos Hns Hi Hlt' Hb) as K.
  cbv zeta in K. rewrite <- Hq, <- Hoc in K. specialize (K Hc).
  destruct K as [K1 [K2 [K3 [K4 [K5 K6]]]]].
  split.
  - apply (ax_good_raw' os ns oc nc i b f h q Ef Eh Eq); assumption.
  - intro Hle. apply K6. apply (Z.mul_le_mono_pos_r q 2 h); [clear - Hh; lia|].
    rewrite <- Hq. exact Hle.
Qed.

Lemma compat_axis_good : forall os ns oc nc i b,
  0 < os -> 0 < oc -> 0 < nc -> ns = ceil_div os (ax_f os ns) ->
  compat_axis os ns oc nc = true ->
  0 <= i -> nc * i < ns -> (b = 0 \/ b = 1) ->
  ax_cond b (ax_e ns nc i) (ax_h os ns oc) = true ->
  ax_good os ns oc nc i b /\ ax_exact os ns oc nc i b.
Proof.
  intros os ns oc nc i b Hos Hoc Hnc Hns Hcp Hi Hlt Hb Hc.
  unfold compat_axis in Hcp. fold (ax_h os ns oc) in Hcp.
  apply andb_true_iff in Hcp. destruct Hcp as [Hh Hcp]. apply Z.leb_le in Hh.
  apply orb_true_iff in Hcp. destruct Hcp as [Hcp|Hcp].
  - apply andb_true_iff in Hcp. destruct Hcp as [H1 H2]. apply Z.leb_le in H1, H2.
    apply axis_single; auto.
  - apply andb_true_iff in Hcp. destruct Hcp as [Hfh Hcp]. apply Z.eqb_eq in Hfh.
    apply orb_true_iff in Hcp. destruct Hcp as [Hcp|Hcp];
      apply andb_true_iff in Hcp; destruct Hcp as [H1 H2].
    + apply Z.leb_le in H1, H2. apply axis_single; auto.
    + apply Z.eqb_eq in H1. apply Z.leb_le in H2.
      destruct (axis_divisible os ns oc nc i b) as [G E]; auto; try lia.
Qed.

Lemma guard_axis_good : forall os ns oc nc i b,
  0 < os -> 0 < oc -> 0 < nc -> ns = ceil_div os (ax_f os ns) ->
  guard_axis os ns oc nc = true ->
  0 <= i -> nc * i < ns -> (b = 0 \/ b = 1) ->
  ax_cond b (ax_e ns nc i) (ax_h os ns oc) = true ->
  ax_good os ns oc nc i b.
Proof.
  intros os ns oc nc i b Hos Hoc Hnc Hns Hg Hi Hlt Hb Hc.
  unfold guard_axis in Hg. fold (ax_h os ns oc) in Hg.
  apply orb_true_iff in Hg. destruct Hg as [Hg|Hg].
  - apply compat_axis_good; assumption.
  - apply andb_true_iff in Hg. destruct Hg as [Hg H3]. apply andb_true_iff in Hg.
    destruct Hg as [H1 H2]. apply Z.eqb_eq in H1, H3. apply Z.leb_le in H2.
    destruct (axis_divisible os ns oc nc i b) as [G E]; auto; lia.
Qed.

Lemma guard_axis_half_pos : forall os ns oc nc, guard_axis os ns oc nc = true -> 1 <= ax_h os ns oc.
Proof.
  intros os ns oc nc Hg. unfold guard_axis, compat_axis in Hg. fold (ax_h os ns oc) in Hg.
  apply orb_true_iff in Hg. destruct Hg as [Hg|Hg].
  - apply andb_true_iff in Hg. destruct Hg as [Hg _]. apply Z.leb_le in Hg. exact Hg.
  - apply andb_true_iff in Hg. destruct Hg as [Hg _]. apply andb_true_iff in Hg.
    destruct Hg as [_ Hg]. apply Z.leb_le in Hg. lia.
Qed.

(* ---------- locality of a downscaling function ---------- *)

Definition ds_shape_prop (ds : t3 -> arr -> arr) : Prop :=
  forall f a, a_sh (ds f a) = cdiv3 (a_sh a) f /\ a_c (ds f a) = a_c a.

(* downscaling a chunk whose origin is a multiple of the factor, and which is
   full or ends at the border of the array, gives the restriction of the
   downscaled array *)
Definition ds_local_prop (ds : t3 -> arr -> arr) : Prop :=
  forall f a lo ext,
    (forall ax, get3 ax f = 1 \/ get3 ax f = 2) ->
    (forall ax, 0 <= get3 ax lo /\ 0 < get3 ax ext /\
                get3 ax lo + get3 ax ext <= get3 ax (a_sh a)) ->
    (forall ax, get3 ax lo mod get3 ax f = 0) ->
    (forall ax, get3 ax ext mod get3 ax f = 0 \/
                get3 ax lo + get3 ax ext = get3 ax (a_sh a)) ->
    forall c p, 0 <= c < a_c a ->
      (forall ax, 0 <= get3 ax p < ceil_div (get3 ax ext) (get3 ax f)) ->
      a_get (ds f (restrict a lo ext)) c p = a_get (ds f a) c (add3 (div3 lo f) p).

(* ---------- geometry lemmas on triples ---------- *)

Lemma get3_factors : forall g a, get3 a (factors g) = ax_f (get3 a (g_os g)) (get3 a (g_ns g)).
Proof. intros. unfold factors. rewrite get3_zip3. reflexivity. Qed.

Lemma get3_half : forall g a,
  get3 a (half_chunk g) = ax_h (get3 a (g_os g)) (get3 a (g_ns g)) (get3 a (g_oc g)).
Proof. intros. unfold half_chunk, div3. rewrite get3_zip3, get3_factors. reflexivity. Qed.

Lemma get3_fetch : forall g a,
  get3 a (fetch_factor g)
  = ax_cff (get3 a (g_os g)) (get3 a (g_ns g)) (get3 a (g_oc g)) (get3 a (g_nc g)).
Proof. intros. unfold fetch_factor, div3. rewrite get3_zip3, get3_half. reflexivity. Qed.

Lemma get3_new_lo : forall g idx a, get3 a (new_lo g idx) = get3 a (g_nc g) * get3 a idx.
Proof. intros. unfold new_lo, mul3. rewrite get3_zip3. reflexivity. Qed.

Lemma get3_new_ext : forall g idx a,
  get3 a (sub3 (new_hi g idx) (new_lo g idx)) = ax_e (get3 a (g_ns g)) (get3 a (g_nc g)) (get3 a idx).
Proof.
  intros. unfold new_hi, new_lo, sub3, min3, mul3, add3. rewrite !get3_zip3, get3_one3. reflexivity.
Qed.

Lemma geom_pos_spec : forall g, geom_pos g = true ->
  (forall a, 0 < get3 a (g_os g)) /\ (forall a, 0 < get3 a (g_ns g)) /\
  (forall a, 0 < get3 a (g_oc g)) /\ (forall a, 0 < get3 a (g_nc g)) /\ 0 < g_ch g.
Proof.
  intros g H. unfold geom_pos in H. rewrite !andb_true_iff in H.
  destruct H as [[[[H1 H2] H3] H4] H5].
  rewrite forall3_spec in H1, H2, H3, H4. apply Z.ltb_lt in H5.
  repeat split; try assumption; intro a;
    [specialize (H1 a)|specialize (H2 a)|specialize (H3 a)|specialize (H4 a)]; lia.
Qed.

Lemma sizes_ok_spec : forall g, sizes_ok g = true ->
  forall a, get3 a (g_ns g) = ceil_div (get3 a (g_os g)) (ax_f (get3 a (g_os g)) (get3 a (g_ns g))).
Proof.
  intros g H a. unfold sizes_ok in H. apply eqb3_spec in H.
  rewrite H at 1. unfold cdiv3. rewrite get3_zip3, get3_factors. reflexivity.
Qed.

(* ---------- one new chunk ---------- *)

Section Chunk.

Variable ds : t3 -> arr -> arr.
Hypothesis ds_shape : ds_shape_prop ds.
Hypothesis ds_local : ds_local_prop ds.

Variable g : geom.
Variable lvl : arr.
Hypothesis Hsh : a_sh lvl = g_os g.
Hypothesis Hch : a_c lvl = g_ch g.
Hypothesis Hpos : geom_pos g = true.
Hypothesis Hsz : sizes_ok g = true.

Variable idx : t3.
Hypothesis Hidx : forall a, 0 <= get3 a idx /\ get3 a (g_nc g) * get3 a idx < get3 a (g_ns g).

Let e : t3 := sub3 (new_hi g idx) (new_lo g idx).
Let h : t3 := half_chunk g.

Definition axis_good_all : Prop :=
  forall a b, (b = 0 \/ b = 1) ->
    ax_cond b (get3 a e) (get3 a h) = true ->
    ax_good (get3 a (g_os g)) (get3 a (g_ns g)) (get3 a (g_oc g)) (get3 a (g_nc g)) (get3 a idx) b.
Definition axis_exact_all : Prop :=
  forall a b, (b = 0 \/ b = 1) ->
    ax_cond b (get3 a e) (get3 a h) = true ->
    ax_exact (get3 a (g_os g)) (get3 a (g_ns g)) (get3 a (g_oc g)) (get3 a (g_nc g)) (get3 a idx) b.

Hypothesis HG : axis_good_all.

Definition valid_oct (b : t3) : Prop := forall a, get3 a b = 0 \/ get3 a b = 1.
Definition inside (p : t3) : Prop := forall a, 0 <= get3 a p < get3 a e.
Definition oct_of (p : t3) : t3 :=
  zip3_3 (fun ee hh x => if x <? Z.min hh ee then 0 else 1) e h p.
Definition expected (c : Z) (p : t3) : Z :=
  a_get (ds (factors g) lvl) c (add3 (new_lo g idx) p).

Let old_j (b : t3) : t3 := add3 (mul3 idx (fetch_factor g)) b.
Let old_lo (b : t3) : t3 := mul3 (g_oc g) (old_j b).
Let old_hi (b : t3) : t3 := min3 (mul3 (g_oc g) (add3 (old_j b) one3)) (g_os g).

Lemma get3_e : forall a, get3 a e = ax_e (get3 a (g_ns g)) (get3 a (g_nc g)) (get3 a idx).
Proof. intro a. apply get3_new_ext. Qed.

Lemma get3_old_lo : forall b a,
  get3 a (old_lo b) = ax_olo (get3 a (g_os g)) (get3 a (g_ns g)) (get3 a (g_oc g))
                             (get3 a (g_nc g)) (get3 a idx) (get3 a b).
Proof.
  intros. unfold old_lo, old_j, mul3, add3. rewrite !get3_zip3, get3_fetch. reflexivity.
Qed.

Lemma get3_old_hi : forall b a,
  get3 a (old_hi b) = ax_ohi (get3 a (g_os g)) (get3 a (g_ns g)) (get3 a (g_oc g))
                             (get3 a (g_nc g)) (get3 a idx) (get3 a b).
Proof.
  intros. unfold old_hi, old_j, min3, mul3, add3. rewrite !get3_zip3, get3_fetch, get3_one3.
  reflexivity.
Qed.

Lemma cond_axes : forall b, forall3_3 ax_cond b e h = true ->
  forall a, ax_cond (get3 a b) (get3 a e) (get3 a h) = true.
Proof. intros b H. apply forall3_3_spec. exact H. Qed.

Lemma load_ds_ok : forall b, valid_oct b -> forall3_3 ax_cond b e h = true ->
  load_ds ds g lvl (old_j b)
  = Ok (ds (factors g) (restrict lvl (old_lo b) (sub3 (old_hi b) (old_lo b)))).
Proof.
  intros b Hv Hc. pose proof (cond_axes b Hc) as Hca.
  destruct (geom_pos_spec g Hpos) as [Pos [Pns [Poc [Pnc Pch]]]].
  unfold load_ds. fold (old_lo b). fold (old_hi b). unfold read_chunk.
  assert (V : validate_chunk_coords (g_os g) (g_oc g) (old_lo b) (old_hi b) = true).
  { unfold validate_chunk_coords. apply andb_true_iff. split.
    - apply forall3_3_spec. intro a.
      pose proof (ag_lo _ _ _ _ _ _ (HG a (get3 a b) (Hv a) (Hca a))) as L.
      rewrite <- get3_old_lo in L.
      rewrite !andb_true_iff. repeat split; [apply Z.leb_le|apply Z.ltb_lt|apply Z.eqb_eq]; try lia.
      unfold old_lo, mul3. rewrite get3_zip3. rewrite Z.mul_comm. apply Z.mod_mul.
      specialize (Poc a). lia.
    - apply eqb3_spec. apply t3_ext. intro a. unfold old_hi, old_lo, min3, add3, mul3.
      rewrite !get3_zip3, get3_one3. f_equal. ring. }
  rewrite V. cbn [negb].
  assert (X : chunk_exists (g_os g) (old_lo b) = true).
  { unfold chunk_exists. apply andb_true_iff. split.
    - apply forall3_spec. intro a.
      pose proof (ag_lo _ _ _ _ _ _ (HG a (get3 a b) (Hv a) (Hca a))) as L.
      rewrite <- get3_old_lo in L. apply Z.leb_le. lia.
    - apply forall3_2_spec. intro a.
      pose proof (ag_lo _ _ _ _ _ _ (HG a (get3 a b) (Hv a) (Hca a))) as L.
      rewrite <- get3_old_lo in L. apply Z.ltb_lt. lia. }
  rewrite X. reflexivity.
Qed.

Let dlo3 (b : t3) : t3 := zip3_3 ax_dlo b e h.
Let dext3 (b : t3) : t3 := zip3_3 ax_dext b e h.
Let src_of (b : t3) : arr :=
  ds (factors g) (restrict lvl (old_lo b) (sub3 (old_hi b) (old_lo b))).

Lemma src_chan : forall b, a_c (src_of b) = g_ch g.
Proof. intro b. unfold src_of. rewrite (proj2 (ds_shape _ _)). simpl. exact Hch. Qed.

Lemma src_shape : forall b a,
  get3 a (a_sh (src_of b))
  = ax_src (get3 a (g_os g)) (get3 a (g_ns g)) (get3 a (g_oc g)) (get3 a (g_nc g))
           (get3 a idx) (get3 a b).
Proof.
  intros b a. unfold src_of. rewrite (proj1 (ds_shape _ _)). simpl.
  unfold cdiv3, sub3. rewrite !get3_zip3, get3_factors, get3_old_hi, get3_old_lo. reflexivity.
Qed.

Lemma get3_dlo : forall b a, get3 a (dlo3 b) = ax_dlo (get3 a b) (get3 a e) (get3 a h).
Proof. intros. unfold dlo3. apply get3_zip3_3. Qed.
Lemma get3_dext : forall b a, get3 a (dext3 b) = ax_dext (get3 a b) (get3 a e) (get3 a h).
Proof. intros. unfold dext3. apply get3_zip3_3. Qed.

Lemma get3_h : forall a,
  get3 a h = ax_h (get3 a (g_os g)) (get3 a (g_ns g)) (get3 a (g_oc g)).
Proof. intro a. apply get3_half. Qed.

(* value of the downscaled old chunk = value of the downscaled level *)
Lemma src_value : forall b, valid_oct b -> forall3_3 ax_cond b e h = true ->
  forall c q, 0 <= c < g_ch g ->
    (forall a, 0 <= get3 a q < get3 a (a_sh (src_of b))) ->
    a_get (src_of b) c q = expected c (add3 (dlo3 b) q).
Proof.
  intros b Hv Hc c q Hcr Hq. pose proof (cond_axes b Hc) as Hca.
  destruct (geom_pos_spec g Hpos) as [Pos [Pns [Poc [Pnc Pch]]]].
  unfold src_of, expected.
  rewrite (ds_local (factors g) lvl (old_lo b) (sub3 (old_hi b) (old_lo b))).
  - f_equal. apply t3_ext. intro a.
    pose proof (ag_align _ _ _ _ _ _ (HG a (get3 a b) (Hv a) (Hca a))) as AL.
    unfold add3, div3. rewrite !get3_zip3, get3_new_lo, get3_dlo, get3_factors, get3_old_lo.
    rewrite AL. rewrite get3_e, get3_h. ring.
  - intro a. rewrite get3_factors. apply ax_f_cases.
  - intro a. pose proof (ag_lo _ _ _ _ _ _ (HG a (get3 a b) (Hv a) (Hca a))) as L.
    unfold sub3. rewrite get3_zip3, get3_old_hi, get3_old_lo, Hsh.
    unfold ax_ohi, ax_olo in *. specialize (Poc a). nia.
  - intro a. rewrite get3_factors, get3_old_lo.
    exact (ag_mod _ _ _ _ _ _ (HG a (get3 a b) (Hv a) (Hca a))).
  - intro a. pose proof (ag_full _ _ _ _ _ _ (HG a (get3 a b) (Hv a) (Hca a))) as F.
    unfold sub3. rewrite get3_zip3, get3_factors, get3_old_hi, get3_old_lo, Hsh.
    destruct F as [F|F]; [left; exact F | right; lia].
  - rewrite Hch. exact Hcr.
  - intro a. specialize (Hq a). rewrite src_shape in Hq. unfold ax_src in Hq.
    unfold sub3. rewrite get3_zip3, get3_factors, get3_old_hi, get3_old_lo. exact Hq.
Qed.

Lemma oct_in_box : forall b p, valid_oct b -> inside p ->
  (in_box (dlo3 b) (dext3 b) p = true <-> oct_of p = b).
Proof.
  intros b p Hv Hp. rewrite in_box_spec. split.
  - intro H. apply t3_ext. intro a. specialize (H a). specialize (Hp a).
    rewrite get3_dlo, get3_dext in H. unfold oct_of. rewrite get3_zip3_3.
    unfold ax_dlo, ax_dext in H.
    destruct (Hv a) as [E|E]; rewrite E in *; simpl (0 =? 0) in H; simpl (1 =? 0) in H; cbv iota in H;
      destruct (Z.ltb_spec (get3 a p) (Z.min (get3 a h) (get3 a e))); lia.
  - intros E a. specialize (Hp a). rewrite get3_dlo, get3_dext.
    assert (Ea : get3 a (oct_of p) = get3 a b) by (rewrite E; reflexivity).
    unfold oct_of in Ea. rewrite get3_zip3_3 in Ea. unfold ax_dlo, ax_dext.
    destruct (Z.ltb_spec (get3 a p) (Z.min (get3 a h) (get3 a e))); rewrite <- Ea;
      simpl (0 =? 0); simpl (1 =? 0); cbv iota; lia.
Qed.

Definition Inv (S : list t3) (acc : outcome buffer) : Prop :=
  forall buf, acc = Ok buf ->
    b_c buf = g_ch g /\
    forall c p, 0 <= c < g_ch g -> inside p -> In (oct_of p) S ->
      b_get buf c p = Val (expected c p).

Lemma step_inv : forall S acc b, valid_oct b -> Inv S acc ->
  Inv (b :: S) (octant_step ds g lvl idx e acc b).
Proof.
  intros S acc b Hv HI buf' Hstep. unfold octant_step in Hstep.
  destruct acc as [buf| | | | | |k]; simpl in Hstep; try discriminate.
  destruct (HI buf eq_refl) as [Hbc HIv]. fold h in Hstep.
  destruct (forall3_3 ax_cond b e h) eqn:Hc.
  - (* the octant is assigned *)
    change (add3 (mul3 idx (fetch_factor g)) b) with (old_j b) in Hstep.
    rewrite (load_ds_ok b Hv Hc) in Hstep. cbn [bind] in Hstep.
    fold (src_of b) in Hstep. fold (dlo3 b) in Hstep. fold (dext3 b) in Hstep.
    unfold assign in Hstep.
    destruct (bc_ok (a_c (src_of b)) (b_c buf) && forall3_2 bc_ok (a_sh (src_of b)) (dext3 b)) eqn:Hok;
      [|discriminate].
    inversion Hstep; subst buf'; clear Hstep. cbn [b_c b_get]. split; [exact Hbc|].
    apply andb_true_iff in Hok. destruct Hok as [_ Hok]. rewrite forall3_2_spec in Hok.
    pose proof (cond_axes b Hc) as Hca.
    assert (Hext : forall a, get3 a (a_sh (src_of b)) = get3 a (dext3 b)).
    { intro a. specialize (Hok a). rewrite src_shape in *. rewrite get3_dext in *.
      rewrite get3_e, get3_h in *.
      exact (ag_bc _ _ _ _ _ _ (HG a (get3 a b) (Hv a) (Hca a)) Hok). }
    intros c p Hcr Hp Hin.
    destruct (in_box (dlo3 b) (dext3 b) p) eqn:Hbox.
    + f_equal. pose proof (proj1 (in_box_spec _ _ _) Hbox) as Hb.
      assert (Ec : bc_idx (a_c (src_of b)) c = c).
      { unfold bc_idx. rewrite src_chan. destruct (Z.eqb_spec (g_ch g) 1); lia. }
      assert (Ep : zip3 bc_idx (a_sh (src_of b)) (sub3 p (dlo3 b)) = sub3 p (dlo3 b)).
      { apply t3_ext. intro a. rewrite get3_zip3. unfold bc_idx, sub3. rewrite get3_zip3.
        specialize (Hb a). rewrite (Hext a).
        destruct (Z.eqb_spec (get3 a (dext3 b)) 1); lia. }
      rewrite Ec, Ep. rewrite (src_value b Hv Hc c (sub3 p (dlo3 b)) Hcr).
      * f_equal. apply t3_ext. intro a. unfold add3, sub3. rewrite !get3_zip3. ring.
      * intro a. specialize (Hb a). rewrite (Hext a). unfold sub3. rewrite get3_zip3. lia.
    + apply HIv; try assumption. destruct Hin as [Hin|Hin]; [|exact Hin].
      exfalso. symmetry in Hin. apply (oct_in_box b p Hv Hp) in Hin. congruence.
  - (* the octant is skipped: no position of the chunk belongs to it *)
    inversion Hstep; subst buf'; clear Hstep. split; [exact Hbc|].
    intros c p Hcr Hp Hin. apply HIv; try assumption.
    destruct Hin as [Hin|Hin]; [|exact Hin]. exfalso.
    assert (Hnc : exists a, ax_cond (get3 a b) (get3 a e) (get3 a h) = false).
    { destruct (ax_cond (get3 AX b) (get3 AX e) (get3 AX h)) eqn:E1; [|exists AX; exact E1].
      destruct (ax_cond (get3 AY b) (get3 AY e) (get3 AY h)) eqn:E2; [|exists AY; exact E2].
      destruct (ax_cond (get3 AZ b) (get3 AZ e) (get3 AZ h)) eqn:E3; [|exists AZ; exact E3].
      exfalso. assert (forall3_3 ax_cond b e h = true).
      { apply forall3_3_spec. intro a; destruct a; assumption. }
      congruence. }
    destruct Hnc as [a Ha]. unfold ax_cond in Ha. apply orb_false_iff in Ha.
    destruct Ha as [Ha1 Ha2]. apply Z.eqb_neq in Ha1. apply Z.ltb_ge in Ha2.
    assert (Ea : get3 a (oct_of p) = get3 a b) by (rewrite Hin; reflexivity).
    unfold oct_of in Ea. rewrite get3_zip3_3 in Ea. specialize (Hp a).
    destruct (Z.ltb_spec (get3 a p) (Z.min (get3 a h) (get3 a e))); lia.
Qed.

Lemma fold_inv : forall octs S acc, (forall b, In b octs -> valid_oct b) -> Inv S acc ->
  Inv (rev octs ++ S) (fold_left (octant_step ds g lvl idx e) octs acc).
Proof.
  induction octs as [|b octs IH]; intros S acc Hv HI; simpl.
  - exact HI.
  - rewrite <- app_assoc. simpl. apply IH.
    + intros b' Hb'. apply Hv. right. exact Hb'.
    + apply step_inv; [apply Hv; left; reflexivity | exact HI].
Qed.

Lemma octants_valid : forall b, In b octants -> valid_oct b.
Proof.
  intros b Hb a. unfold octants in Hb. simpl in Hb.
  repeat (destruct Hb as [Hb|Hb]; [subst b; destruct a; simpl; auto|]). destruct Hb.
Qed.

Lemma oct_of_in_octants : forall p, In (oct_of p) (rev octants ++ []).
Proof.
  intro p. unfold oct_of. destruct e as [[ex ey] ez], h as [[hx hy] hz], p as [[px py] pz].
  cbn [zip3_3].
  destruct (px <? Z.min hx ex); destruct (py <? Z.min hy ey); destruct (pz <? Z.min hz ez);
    simpl; tauto.
Qed.

(* soundness of one chunk: if no assignment raised, every voxel of the new
   chunk is the downscaled level at its global position (in particular no
   voxel is left uninitialised) *)
Lemma chunk_sound : forall lo hi buf,
  tile_chunk ds g lvl idx = Ok (lo, hi, buf) ->
  lo = new_lo g idx /\ hi = new_hi g idx /\
  forall c p, 0 <= c < g_ch g -> inside p -> b_get buf c p = Val (expected c p).
Proof.
  intros lo hi buf H. unfold tile_chunk in H. fold e in H.
  destruct (fold_left (octant_step ds g lvl idx e) octants
             (Ok {| b_c := g_ch g; b_sh := e; b_get := fun _ _ => Uninit |})) as [bf| | | | | |k] eqn:Hf;
    cbn [bind] in H; try discriminate.
  destruct (validate_chunk_coords (g_ns g) (g_nc g) (new_lo g idx) (new_hi g idx)); [|discriminate].
  inversion H; subst lo hi buf. split; [reflexivity|]. split; [reflexivity|].
  assert (I0 : Inv [] (Ok {| b_c := g_ch g; b_sh := e; b_get := fun _ _ => Uninit |})).
  { intros b0 Hb0. inversion Hb0; subst b0. cbn. split; [reflexivity|]. intros c p _ _ [].
  }
  pose proof (fold_inv octants [] _ octants_valid I0) as HI.
  destruct (HI bf Hf) as [_ HIv]. intros c p Hcr Hp. apply HIv; try assumption.
  apply oct_of_in_octants.
Qed.

(* progress: when the extents agree on every axis, no assignment raises *)
Hypothesis HE : axis_exact_all.

Lemma step_ok : forall acc b, valid_oct b ->
  (exists buf, acc = Ok buf /\ b_c buf = g_ch g) ->
  exists buf', octant_step ds g lvl idx e acc b = Ok buf' /\ b_c buf' = g_ch g.
Proof.
  intros acc b Hv [buf [-> Hbc]]. unfold octant_step. cbn [bind]. fold h.
  destruct (forall3_3 ax_cond b e h) eqn:Hc; [|exists buf; split; [reflexivity|exact Hbc]].
  change (add3 (mul3 idx (fetch_factor g)) b) with (old_j b).
  rewrite (load_ds_ok b Hv Hc). cbn [bind].
  fold (src_of b). fold (dlo3 b). fold (dext3 b). unfold assign.
  pose proof (cond_axes b Hc) as Hca.
  assert (Hok : bc_ok (a_c (src_of b)) (b_c buf) && forall3_2 bc_ok (a_sh (src_of b)) (dext3 b) = true).
  { apply andb_true_iff. split.
    - unfold bc_ok. rewrite src_chan, Hbc, Z.eqb_refl. reflexivity.
    - apply forall3_2_spec. intro a. rewrite src_shape, get3_dext, get3_e, get3_h.
      pose proof (HE a (get3 a b) (Hv a)) as X. rewrite get3_e, get3_h in X.
      specialize (X (eq_ind _ (fun t => t = true) (Hca a) _
                      (f_equal2 (ax_cond (get3 a b)) (get3_e a) (get3_h a)))).
      unfold ax_exact in X. rewrite X. unfold bc_ok. rewrite Z.eqb_refl. reflexivity. }
  rewrite Hok. eexists. split; [reflexivity|]. exact Hbc.
Qed.

Lemma fold_ok : forall octs acc, (forall b, In b octs -> valid_oct b) ->
  (exists buf, acc = Ok buf /\ b_c buf = g_ch g) ->
  exists buf', fold_left (octant_step ds g lvl idx e) octs acc = Ok buf' /\ b_c buf' = g_ch g.
Proof.
  induction octs as [|b octs IH]; intros acc Hv Hacc; simpl.
  - exact Hacc.
  - apply IH; [intros b' Hb'; apply Hv; right; exact Hb'|].
    apply step_ok; [apply Hv; left; reflexivity | exact Hacc].
Qed.

Lemma write_validates :
  validate_chunk_coords (g_ns g) (g_nc g) (new_lo g idx) (new_hi g idx) = true.
Proof.
  destruct (geom_pos_spec g Hpos) as [Pos [Pns [Poc [Pnc Pch]]]].
  unfold validate_chunk_coords. apply andb_true_iff. split.
  - apply forall3_3_spec. intro a. rewrite get3_new_lo. destruct (Hidx a) as [H1 H2].
    specialize (Pnc a).
    rewrite !andb_true_iff. repeat split; [apply Z.leb_le; nia | apply Z.ltb_lt; lia | apply Z.eqb_eq].
    rewrite Z.mul_comm. apply Z.mod_mul. lia.
  - apply eqb3_spec. apply t3_ext. intro a. unfold new_hi, new_lo, min3, add3, mul3.
    rewrite !get3_zip3, get3_one3. f_equal. ring.
Qed.

Lemma chunk_exact : exists buf,
  tile_chunk ds g lvl idx = Ok (new_lo g idx, new_hi g idx, buf).
Proof.
  unfold tile_chunk. fold e.
  destruct (fold_ok octants (Ok {| b_c := g_ch g; b_sh := e; b_get := fun _ _ => Uninit |})
              octants_valid) as [buf [Hf _]].
  { eexists. split; reflexivity. }
  rewrite Hf. cbn [bind]. rewrite write_validates. exists buf. reflexivity.
Qed.

End Chunk.

(* ---------- the whole transition ---------- *)

Lemma in_ndindex : forall r idx, In idx (ndindex r) <-> forall a, 0 <= get3 a idx < get3 a r.
Proof.
  intros [[rx ry] rz] [[x y] z]. unfold ndindex. rewrite in_flat_map. split.
  - intros [x' [Hx H]]. apply in_flat_map in H. destruct H as [y' [Hy H]].
    apply in_map_iff in H. destruct H as [z' [E Hz]]. inversion E; subst.
    apply in_levels in Hx, Hy, Hz. intro a; destruct a; simpl; lia.
  - intro H. pose proof (H AX) as Hx; pose proof (H AY) as Hy; pose proof (H AZ) as Hz. simpl in *.
    exists x. split; [apply in_levels; lia|]. apply in_flat_map.
    exists y. split; [apply in_levels; lia|]. apply in_map_iff.
    exists z. split; [reflexivity | apply in_levels; lia].
Qed.

Lemma in_range_idx : forall g idx, geom_pos g = true -> In idx (ndindex (chunk_range g)) ->
  forall a, 0 <= get3 a idx /\ get3 a (g_nc g) * get3 a idx < get3 a (g_ns g).
Proof.
  intros g idx Hpos Hin a. destruct (geom_pos_spec g Hpos) as [_ [_ [_ [Pnc _]]]].
  pose proof (proj1 (in_ndindex _ _) Hin a) as Hin'. clear Hin. rename Hin' into Hin.
  unfold chunk_range, cdiv3 in Hin.
  rewrite get3_zip3 in Hin. split; [lia|]. apply lt_ceil_div_iff; [apply Pnc | lia].
Qed.

Lemma guard_good_all : forall g idx, tiling_guard g = true -> sizes_ok g = true ->
  (forall a, 0 <= get3 a idx /\ get3 a (g_nc g) * get3 a idx < get3 a (g_ns g)) ->
  axis_good_all g idx.
Proof.
  intros g idx Hg Hsz Hidx a b Hb Hc. unfold tiling_guard in Hg.
  apply andb_true_iff in Hg. destruct Hg as [Hpos Hg].
  destruct (geom_pos_spec g Hpos) as [Pos [Pns [Poc [Pnc Pch]]]].
  rewrite forall3_4_spec in Hg. specialize (Hg a).
  rewrite get3_new_ext, get3_half in Hc.
  apply guard_axis_good; auto; try apply (Hidx a). apply (sizes_ok_spec g Hsz).
Qed.

Lemma compat_good_all : forall g idx, compat g = true ->
  (forall a, 0 <= get3 a idx /\ get3 a (g_nc g) * get3 a idx < get3 a (g_ns g)) ->
  axis_good_all g idx /\ axis_exact_all g idx.
Proof.
  intros g idx Hc Hidx. unfold compat in Hc. rewrite !andb_true_iff in Hc.
  destruct Hc as [[Hpos Hsz] Hc].
  destruct (geom_pos_spec g Hpos) as [Pos [Pns [Poc [Pnc Pch]]]].
  rewrite forall3_4_spec in Hc.
  split; intros a b Hb Hcond; rewrite get3_new_ext, get3_half in Hcond;
    (destruct (compat_axis_good (get3 a (g_os g)) (get3 a (g_ns g)) (get3 a (g_oc g))
                (get3 a (g_nc g)) (get3 a idx) b) as [G E]; auto; try apply (Hidx a);
     apply (sizes_ok_spec g Hsz)).
Qed.

Lemma compat_guard : forall g, compat g = true -> tiling_guard g = true.
Proof.
  intros g Hc. unfold compat in Hc. rewrite !andb_true_iff in Hc. destruct Hc as [[Hpos _] Hc].
  unfold tiling_guard. rewrite Hpos. cbn [andb]. rewrite forall3_4_spec in *.
  intro a. unfold guard_axis. rewrite (Hc a). reflexivity.
Qed.

Lemma guard_half_nonzero : forall g, tiling_guard g = true ->
  forall3 (fun h => negb (h =? 0)) (half_chunk g) = true.
Proof.
  intros g Hg. unfold tiling_guard in Hg. apply andb_true_iff in Hg. destruct Hg as [_ Hg].
  rewrite forall3_4_spec in Hg. apply forall3_spec. intro a. rewrite get3_half.
  pose proof (guard_axis_half_pos _ _ _ _ (Hg a)) as H. apply negb_true_iff. apply Z.eqb_neq. lia.
Qed.

Lemma compat_axis_not_stretch : forall os ns oc nc,
  compat_axis os ns oc nc = true -> stretch_axis os ns oc nc = false.
Proof.
  intros os ns oc nc H. unfold compat_axis, stretch_axis in *.
  set (h := oc / ax_f os ns) in *.
  destruct (Z.eqb_spec h 1) as [E|E]; [|reflexivity]. cbn [andb]. apply Z.leb_gt.
  apply andb_true_iff in H. destruct H as [_ H]. apply orb_true_iff in H. destruct H as [H|H].
  - apply andb_true_iff in H. destruct H as [H1 H2]. apply Z.leb_le in H1, H2. lia.
  - apply andb_true_iff in H. destruct H as [_ H]. apply orb_true_iff in H.
    destruct H as [H|H]; apply andb_true_iff in H; destruct H as [H1 H2].
    + apply Z.leb_le in H1, H2. lia.
    + apply Z.leb_le in H2. lia.
Qed.

Lemma compat_not_stretch : forall g, compat g = true -> stretch_class g = false.
Proof.
  intros g Hc. unfold compat in Hc. rewrite !andb_true_iff in Hc. destruct Hc as [_ Hc].
  unfold stretch_class, exists3_4. apply negb_false_iff. rewrite forall3_4_spec in *.
  intro a. apply negb_true_iff. apply compat_axis_not_stretch. apply Hc.
Qed.

(* what a chunk of the result must contain: the downscaled whole level at the
   chunk's global positions, every voxel written *)
Definition chunk_is_restriction (ds : t3 -> arr -> arr) (g : geom) (lvl : arr)
           (ch : t3 * t3 * buffer) : Prop :=
  let '(lo, hi, buf) := ch in
  exists idx, In idx (ndindex (chunk_range g)) /\ lo = new_lo g idx /\ hi = new_hi g idx /\
    forall c p, 0 <= c < g_ch g -> (forall a, 0 <= get3 a p < get3 a (sub3 hi lo)) ->
      b_get buf c p = Val (a_get (ds (factors g) lvl) c (add3 lo p)).

Section Level.

Variable ds : t3 -> arr -> arr.
Hypothesis ds_shape : ds_shape_prop ds.
Hypothesis ds_local : ds_local_prop ds.

Theorem tiling_sound_on_guard : forall g lvl chunks,
  tiling_guard g = true -> a_sh lvl = g_os g -> a_c lvl = g_ch g ->
  tile_level ds g lvl = Ok chunks ->
  Forall (chunk_is_restriction ds g lvl) chunks.
Proof.
  intros g lvl chunks Hg Hsh Hch H. unfold tile_level in H.
  destruct (eqb3 (g_ns g) (cdiv3 (g_os g) (factors g))) eqn:Hsz; cbn [negb] in H; [|discriminate].
  destruct (forall3 (fun h => negb (h =? 0)) (half_chunk g)); cbn [negb] in H; [|discriminate].
  destruct (stretch_class g); [discriminate|].
  pose proof Hg as Hg'. unfold tiling_guard in Hg'. apply andb_true_iff in Hg'. destruct Hg' as [Hpos _].
  apply mapM_ok_Forall2 in H. apply Forall_forall. intros [[lo hi] buf] Hin.
  destruct (Forall2_In_l _ _ _ _ H Hin) as [idx [Hidx Ht]].
  pose proof (in_range_idx g idx Hpos Hidx) as Hr.
  destruct (chunk_sound ds ds_shape ds_local g lvl Hsh Hch Hpos idx Hr
              (guard_good_all g idx Hg Hsz Hr) lo hi buf Ht) as [E1 [E2 Hv]].
  exists idx. repeat split; try assumption. intros c p Hc Hp. subst lo hi.
  apply Hv; assumption.
Qed.

Theorem tiling_exact : forall g lvl,
  compat g = true -> a_sh lvl = g_os g -> a_c lvl = g_ch g ->
  exists chunks, tile_level ds g lvl = Ok chunks /\
    map (fun c => fst (fst c)) chunks = map (new_lo g) (ndindex (chunk_range g)) /\
    Forall (chunk_is_restriction ds g lvl) chunks.
Proof.
  intros g lvl Hc Hsh Hch. pose proof (compat_guard g Hc) as Hg.
  pose proof Hc as Hc'. unfold compat in Hc'. rewrite !andb_true_iff in Hc'.
  destruct Hc' as [[Hpos Hsz] _].
  assert (Hall : forall idx, In idx (ndindex (chunk_range g)) ->
            exists y, tile_chunk ds g lvl idx = Ok y).
  { intros idx Hidx. pose proof (in_range_idx g idx Hpos Hidx) as Hr.
    destruct (compat_good_all g idx Hc Hr) as [G E].
    destruct (chunk_exact ds ds_shape g lvl Hch Hpos idx Hr G E) as [buf Hb].
    eexists; exact Hb. }
  destruct (mapM_all_ok (tile_chunk ds g lvl) _ Hall) as [chunks Hm].
  assert (Ht : tile_level ds g lvl = Ok chunks).
  { unfold tile_level. unfold sizes_ok in Hsz. rewrite Hsz. cbn [negb].
    rewrite (guard_half_nonzero g Hg). cbn [negb]. rewrite (compat_not_stretch g Hc). exact Hm. }
  exists chunks. split; [exact Ht|]. split.
  - apply mapM_ok_Forall2 in Hm. clear Ht Hall. revert Hm.
    generalize (ndindex (chunk_range g)) as l.
    intros l Hm. assert (Hsub : forall idx, In idx l -> In idx (ndindex (chunk_range g)) \/ True) by auto.
    clear Hsub. induction Hm as [|idx [[lo hi] buf] l' ys Hx Hr IH]; [reflexivity|].
    simpl. f_equal; [|exact IH].
    (* the origin recorded for a chunk is the one computed from its index *)
    unfold tile_chunk in Hx.
    destruct (fold_left _ octants _) as [bf| | | | | |k]; cbn [bind] in Hx; try discriminate.
    destruct (validate_chunk_coords _ _ _ _); [|discriminate]. inversion Hx; reflexivity.
  - apply (tiling_sound_on_guard g lvl chunks Hg Hsh Hch Ht).
Qed.

(* no voxel of any written chunk is left uninitialised, whatever the geometry
   (every cell of a new chunk lies in an octant whose condition holds) -
   here as a corollary inside the guard *)
Corollary no_uninit_on_guard : forall g lvl chunks,
  tiling_guard g = true -> a_sh lvl = g_os g -> a_c lvl = g_ch g ->
  tile_level ds g lvl = Ok chunks ->
  forall lo hi buf c p, In (lo, hi, buf) chunks -> 0 <= c < g_ch g ->
    (forall a, 0 <= get3 a p < get3 a (sub3 hi lo)) -> b_get buf c p <> Uninit.
Proof.
  intros g lvl chunks Hg Hsh Hch H lo hi buf c p Hin Hc Hp.
  pose proof (tiling_sound_on_guard g lvl chunks Hg Hsh Hch H) as HF.
  rewrite Forall_forall in HF. specialize (HF _ Hin). cbn in HF.
  destruct HF as [idx [_ [_ [_ Hv]]]]. rewrite (Hv c p Hc Hp). discriminate.
Qed.

End Level.

(* ---------- the three downscalers are local ---------- *)

Lemma in_offs : forall f o, In o (offs f) <-> forall a, 0 <= get3 a o < get3 a f.
Proof.
  intros [[fx fy] fz] [[x y] z]. unfold offs. rewrite in_flat_map. split.
  - intros [z' [Hz H]]. apply in_flat_map in H. destruct H as [y' [Hy H]].
    apply in_map_iff in H. destruct H as [x' [E Hx]]. inversion E; subst.
    apply in_levels in Hx, Hy, Hz. intro a; destruct a; simpl; lia.
  - intro H. pose proof (H AX) as Hx; pose proof (H AY) as Hy; pose proof (H AZ) as Hz. simpl in *.
    exists z. split; [apply in_levels; lia|]. apply in_flat_map.
    exists y. split; [apply in_levels; lia|]. apply in_map_iff.
    exists x. split; [reflexivity | apply in_levels; lia].
Qed.

Lemma ax_local_idx : forall f lo ext S p o,
  (f = 1 \/ f = 2) -> 0 <= lo -> 0 < ext -> lo + ext <= S -> lo mod f = 0 ->
  (ext mod f = 0 \/ lo + ext = S) -> 0 <= p < ceil_div ext f -> 0 <= o < f ->
  (lo / f + p) * f = lo + p * f /\
  lo + Z.min (p * f + o) (ext - 1) = Z.min (lo + p * f + o) (S - 1) /\
  ((p * f + o <? ext) = (lo + p * f + o <? S)).
Proof.
  intros f lo ext S p o Hf Hlo Hext Hle Hmod Hfull Hp Ho. unfold ceil_div in Hp.
  destruct Hf as [-> | ->].
  - repeat split; lia.
  - repeat split; lia.
Qed.

Lemma stride_shape : ds_shape_prop ds_stride.
Proof. intros f a. split; reflexivity. Qed.
Lemma avg_shape : ds_shape_prop ds_avg.
Proof. intros f a. split; reflexivity. Qed.
Lemma majority_shape : ds_shape_prop ds_majority.
Proof. intros f a. split; reflexivity. Qed.

Lemma stride_local : ds_local_prop ds_stride.
Proof.
  intros f a lo ext Hf Hbox Hmod Hfull c p Hc Hp. cbn [ds_stride restrict a_get].
  f_equal. apply t3_ext. intro ax. unfold add3, mul3, div3. rewrite !get3_zip3.
  destruct (Hbox ax) as [B1 [B2 B3]].
  destruct (ax_local_idx (get3 ax f) (get3 ax lo) (get3 ax ext) (get3 ax (a_sh a)) (get3 ax p) 0
              (Hf ax) B1 B2 B3 (Hmod ax) (Hfull ax) (Hp ax)) as [E _]; [destruct (Hf ax); lia|].
  lia.
Qed.

Lemma avg_local : ds_local_prop ds_avg.
Proof.
  intros f a lo ext Hf Hbox Hmod Hfull c p Hc Hp. cbn [ds_avg restrict a_get a_sh].
  f_equal. f_equal. apply map_ext_in. intros o Ho. rewrite in_offs in Ho.
  f_equal. apply t3_ext. intro ax. unfold add3, mul3, div3, min3, sub3. rewrite !get3_zip3, get3_one3.
  destruct (Hbox ax) as [B1 [B2 B3]].
  destruct (ax_local_idx (get3 ax f) (get3 ax lo) (get3 ax ext) (get3 ax (a_sh a)) (get3 ax p)
              (get3 ax o) (Hf ax) B1 B2 B3 (Hmod ax) (Hfull ax) (Hp ax) (Ho ax)) as [E1 [E2 _]].
  rewrite E1. rewrite E2. reflexivity.
Qed.

Lemma majority_local : ds_local_prop ds_majority.
Proof.
  intros f a lo ext Hf Hbox Hmod Hfull c p Hc Hp. cbn [ds_majority restrict a_get a_sh].
  f_equal.
  assert (Hidx : forall o, In o (offs f) ->
            add3 lo (add3 (mul3 p f) o) = add3 (mul3 (add3 (div3 lo f) p) f) o).
  { intros o Ho. rewrite in_offs in Ho. apply t3_ext. intro ax.
    unfold add3, mul3, div3. rewrite !get3_zip3.
    destruct (Hbox ax) as [B1 [B2 B3]].
    destruct (ax_local_idx (get3 ax f) (get3 ax lo) (get3 ax ext) (get3 ax (a_sh a)) (get3 ax p)
                (get3 ax o) (Hf ax) B1 B2 B3 (Hmod ax) (Hfull ax) (Hp ax) (Ho ax)) as [E1 _].
    rewrite E1. lia. }
  assert (Hflt : filter (fun o => forall3_2 Z.ltb (add3 (mul3 p f) o) ext) (offs f)
               = filter (fun o => forall3_2 Z.ltb (add3 (mul3 (add3 (div3 lo f) p) f) o) (a_sh a)) (offs f)).
  { apply filter_ext_in. intros o Ho. rewrite <- (Hidx o Ho). rewrite in_offs in Ho.
    apply eq_true_iff_eq. rewrite !forall3_2_spec. split; intros H ax; specialize (H ax);
      unfold add3, mul3 in *; rewrite !get3_zip3 in *;
      destruct (Hbox ax) as [B1 [B2 B3]];
      destruct (ax_local_idx (get3 ax f) (get3 ax lo) (get3 ax ext) (get3 ax (a_sh a)) (get3 ax p)
                  (get3 ax o) (Hf ax) B1 B2 B3 (Hmod ax) (Hfull ax) (Hp ax) (Ho ax)) as [_ [_ E3]].
    - rewrite Z.add_assoc. rewrite <- E3. exact H.
    - rewrite Z.add_assoc in H. rewrite <- E3 in H. exact H. }
  rewrite Hflt. apply map_ext_in. intros o Ho. apply filter_In in Ho. destruct Ho as [Ho _].
  f_equal. apply Hidx. exact Ho.
Qed.

(* ---------- the former silent-wrong witness is now refused ---------- *)

(* generator chunk sizes (8,2,2) -> (8,4,4) on sizes (9,5,1) -> (5,3,1): along
   y the half chunk is 1 and the new level has 3 rows in one new chunk.  Before
   /repo e7c7a72 this wrote wrong rows without raising. *)
Definition witness_geom : geom :=
  {| g_os := (9, 5, 1); g_ns := (5, 3, 1); g_oc := (8, 2, 2); g_nc := (8, 4, 4); g_ch := 1 |}.
Definition witness_level : arr := arr_of_list 1 (9, 5, 1) (levels 45).

Example former_witness_refused :
  stretch_class witness_geom = true /\ geom_pos witness_geom = true /\
  tile_level ds_stride witness_geom witness_level = Crash ValueError /\
  tile_level ds_avg witness_geom witness_level = Crash ValueError.
Proof. vm_compute. repeat split; reflexivity. Qed.

(* non-vacuity of the hypotheses of tiling_exact / tiling_sound_on_guard *)
Example compat_example :
  compat {| g_os := (9, 5, 3); g_ns := (5, 5, 2); g_oc := (4, 2, 2); g_nc := (4, 2, 1); g_ch := 2 |} = true.
Proof. vm_compute. reflexivity. Qed.

Example guard_not_compat_example :
  let g := {| g_os := (20, 5, 3); g_ns := (10, 5, 3); g_oc := (4, 2, 2); g_nc := (8, 2, 2); g_ch := 1 |} in
  tiling_guard g = true /\ compat g = false.
Proof. vm_compute. split; reflexivity. Qed.

(* ---------- outside the stretch class, "no error" implies compat ---------- *)

Lemma bc_ok_cases : forall s d, bc_ok s d = true <-> s = d \/ s = 1.
Proof.
  intros s d. unfold bc_ok. rewrite orb_true_iff, !Z.eqb_eq. reflexivity.
Qed.

(* arithmetic core, one axis: the two assignments of new chunk 0 (lower part,
   and upper part when it exists) pass NumPy's shape check; oc = f*h + r *)
Lemma pass_core : forall f h r os ns oc nc,
  (f = 1 \/ f = 2) -> oc = f * h + r -> 0 <= r < f -> 1 <= h -> 0 < os -> 0 < nc ->
  ns = ceil_div os f ->
  (ceil_div (Z.min oc os) f = Z.min h (Z.min nc ns) \/ ceil_div (Z.min oc os) f = 1) ->
  (h < Z.min nc ns ->
     oc < os /\
     (ceil_div (Z.min (oc * 2) os - oc) f = Z.min nc ns - Z.min h (Z.min nc ns) \/
      ceil_div (Z.min (oc * 2) os - oc) f = 1)) ->
  ~ (oc = f /\ 3 <= Z.min nc ns) ->
  (ns <= nc /\ ns <= h) \/
  (r = 0 /\ ((ns <= nc /\ ns <= 2 * h) \/ nc = h \/ nc = 2 * h)).
Proof.
  intros f h r os ns oc nc Hf Hoc Hr Hh Hos Hnc Hns P0 P1 Hst.
  unfold ceil_div in *. destruct Hf as [-> | ->]; lia.
Qed.

Lemma axis_pass_compat : forall os ns oc nc,
  0 < os -> 0 < oc -> 0 < nc -> ns = ceil_div os (ax_f os ns) -> 1 <= ax_h os ns oc ->
  bc_ok (ax_src os ns oc nc 0 0) (ax_dext 0 (ax_e ns nc 0) (ax_h os ns oc)) = true ->
  (ax_cond 1 (ax_e ns nc 0) (ax_h os ns oc) = true ->
     0 <= ax_olo os ns oc nc 0 1 < os /\
     bc_ok (ax_src os ns oc nc 0 1) (ax_dext 1 (ax_e ns nc 0) (ax_h os ns oc)) = true) ->
  stretch_axis os ns oc nc = false ->
  compat_axis os ns oc nc = true.
Proof.
  intros os ns oc nc Hos Hoc Hnc Hns Hh P0 P1 Hst.
  unfold ax_src, ax_ohi, ax_olo, ax_j, ax_e, ax_dext, ax_cond in *.
  remember (ax_cff os ns oc nc) as cff eqn:Ecff. clear Ecff.
  remember (ax_h os ns oc) as h eqn:Eh. unfold ax_h in Eh.
  remember (ax_f os ns) as f eqn:Ef.
  assert (Hf : f = 1 \/ f = 2) by (rewrite Ef; apply ax_f_cases).
  replace (0 * cff + 0) with 0 in P0 by ring. replace (0 * cff + 1) with 1 in P1 by ring.
  replace (oc * 0) with 0 in P0 by ring. replace (oc * (0 + 1)) with oc in P0 by ring.
  replace (oc * 1) with oc in P1 by ring. replace (oc * (1 + 1)) with (oc * 2) in P1 by ring.
  replace (nc * (0 + 1)) with nc in * by ring. replace (nc * 0) with 0 in * by ring.
  rewrite !Z.sub_0_r in *. simpl (0 =? 0) in P0. simpl (1 =? 0) in P1. cbv iota in P0, P1.
  rewrite orb_false_l in P1. rewrite bc_ok_cases in P0.
  assert (P1' : h < Z.min nc ns ->
     oc < os /\ (ceil_div (Z.min (oc * 2) os - oc) f = Z.min nc ns - Z.min h (Z.min nc ns) \/
                 ceil_div (Z.min (oc * 2) os - oc) f = 1)).
  { intro Hlt. destruct (P1 (proj2 (Z.ltb_lt _ _) Hlt)) as [L B]. rewrite bc_ok_cases in B.
    split; [lia | exact B]. }
  assert (Hst' : ~ (oc = f /\ 3 <= Z.min nc ns)).
  { intros [E1 E2]. unfold stretch_axis in Hst. rewrite <- Ef, <- Eh in Hst.
    assert (h = 1) by (rewrite Eh, E1; apply Z.div_same; lia).
    apply andb_false_iff in Hst. destruct Hst as [Hst|Hst];
      [apply Z.eqb_neq in Hst | apply Z.leb_gt in Hst]; lia. }
  assert (Hdiv : oc = f * h + oc mod f /\ 0 <= oc mod f < f).
  { rewrite Eh. split; [apply Z.div_mod; lia | apply Z.mod_pos_bound; lia]. }
  destruct Hdiv as [Hd1 Hd2].
  pose proof (pass_core f h (oc mod f) os ns oc nc Hf Hd1 Hd2 Hh Hos Hnc Hns P0 P1' Hst') as K.
  unfold compat_axis. rewrite <- Ef, <- Eh.
  apply andb_true_iff. split; [apply Z.leb_le; exact Hh|].
  apply orb_true_iff. destruct K as [[K1 K2] | [Kr K]].
  - left. apply andb_true_iff. split; apply Z.leb_le; assumption.
  - right. apply andb_true_iff. split; [apply Z.eqb_eq; lia|].
    apply orb_true_iff. destruct K as [[K1 K2] | [K | K]].
    + left. apply andb_true_iff. split; apply Z.leb_le; assumption.
    + right. apply andb_true_iff. split; [apply Z.eqb_eq; subst nc; apply Z.mod_same; lia | apply Z.leb_le; lia].
    + right. apply andb_true_iff. split; [apply Z.eqb_eq; subst nc; apply Z.mod_mul; lia | apply Z.leb_le; lia].
Qed.

Section Strong.

Variable ds : t3 -> arr -> arr.
Hypothesis ds_shape : ds_shape_prop ds.

Lemma octant_step_err : forall g lvl idx e acc b,
  (forall buf, acc <> Ok buf) -> forall buf, octant_step ds g lvl idx e acc b <> Ok buf.
Proof.
  intros g lvl idx e acc b H buf. unfold octant_step.
  destruct acc as [b0| | | | | |k]; cbn [bind]; try discriminate. exfalso. apply (H b0). reflexivity.
Qed.

Lemma fold_err : forall g lvl idx e octs acc,
  (forall buf, acc <> Ok buf) ->
  forall buf, fold_left (octant_step ds g lvl idx e) octs acc <> Ok buf.
Proof.
  intros g lvl idx e octs. induction octs as [|b octs IH]; intros acc H buf; simpl.
  - apply H.
  - apply IH. apply octant_step_err. exact H.
Qed.

(* every executed assignment of a successful chunk passed the read and the
   shape check *)
Lemma fold_ok_steps : forall g lvl idx e octs acc buf,
  fold_left (octant_step ds g lvl idx e) octs acc = Ok buf ->
  forall b, In b octs -> forall3_3 ax_cond b e (half_chunk g) = true ->
  exists src, load_ds ds g lvl (add3 (mul3 idx (fetch_factor g)) b) = Ok src /\
              forall3_2 bc_ok (a_sh src)
                (zip3_3 ax_dext b e (half_chunk g)) = true.
Proof.
  intros g lvl idx e octs. induction octs as [|b0 octs IH]; intros acc buf H b Hin Hc; [destruct Hin|].
  simpl in H. destruct Hin as [->|Hin]; [|eapply IH; eassumption].
  destruct (octant_step ds g lvl idx e acc b) as [b1| | | | | |k] eqn:Hs;
    try (exfalso; eapply fold_err; [|exact H]; intros bb Hbb; discriminate).
  unfold octant_step in Hs. destruct acc as [a0| | | | | |k]; cbn [bind] in Hs; try discriminate.
  rewrite Hc in Hs.
  destruct (load_ds ds g lvl (add3 (mul3 idx (fetch_factor g)) b)) as [src| | | | | |k] eqn:Hl;
    cbn [bind] in Hs; try discriminate.
  exists src. split; [reflexivity|]. unfold assign in Hs.
  destruct (bc_ok (a_c src) (b_c a0) && forall3_2 bc_ok (a_sh src) (zip3_3 ax_dext b e (half_chunk g))) eqn:Hb;
    [|discriminate].
  apply andb_true_iff in Hb. exact (proj2 Hb).
Qed.

Lemma load_ds_facts : forall g lvl j src, load_ds ds g lvl j = Ok src ->
  (forall a, 0 <= get3 a (mul3 (g_oc g) j) < get3 a (g_os g)) /\
  a_sh src = cdiv3 (sub3 (min3 (mul3 (g_oc g) (add3 j one3)) (g_os g)) (mul3 (g_oc g) j)) (factors g).
Proof.
  intros g lvl j src H. unfold load_ds, read_chunk in H.
  destruct (validate_chunk_coords (g_os g) (g_oc g) (mul3 (g_oc g) j)
              (min3 (mul3 (g_oc g) (add3 j one3)) (g_os g))) eqn:V; cbn [negb] in H; [|discriminate].
  destruct (chunk_exists (g_os g) (mul3 (g_oc g) j)); cbn [negb bind] in H; [|discriminate].
  inversion H; subst src. split.
  - unfold validate_chunk_coords in V. apply andb_true_iff in V. destruct V as [V _].
    rewrite forall3_3_spec in V. intro a. specialize (V a).
    rewrite !andb_true_iff in V. destruct V as [[V1 V2] _]. apply Z.leb_le in V1. apply Z.ltb_lt in V2. lia.
  - rewrite (proj1 (ds_shape _ _)). reflexivity.
Qed.

Definition unit3 (a : axis) : t3 :=
  match a with AX => (1, 0, 0) | AY => (0, 1, 0) | AZ => (0, 0, 1) end.

Lemma get3_unit3 : forall a a', get3 a' (unit3 a) = if match a, a' with AX, AX | AY, AY | AZ, AZ => true | _, _ => false end then 1 else 0.
Proof. intros a a'; destruct a, a'; reflexivity. Qed.

Theorem ok_is_compat : forall g lvl chunks,
  geom_pos g = true -> tile_level ds g lvl = Ok chunks -> compat g = true.
Proof.
  intros g lvl chunks Hpos H. unfold tile_level in H.
  destruct (eqb3 (g_ns g) (cdiv3 (g_os g) (factors g))) eqn:Hsz; cbn [negb] in H; [|discriminate].
  destruct (forall3 (fun h => negb (h =? 0)) (half_chunk g)) eqn:Hhz; cbn [negb] in H; [|discriminate].
  destruct (stretch_class g) eqn:Hst; [discriminate|].
  destruct (geom_pos_spec g Hpos) as [Pos [Pns [Poc [Pnc Pch]]]].
  assert (Hszs : sizes_ok g = true) by exact Hsz.
  unfold compat. rewrite Hpos, Hszs. cbn [andb]. apply forall3_4_spec. intro a.
  (* chunk (0,0,0) was computed *)
  assert (H0 : In (0, 0, 0) (ndindex (chunk_range g))).
  { apply in_ndindex. intro a'. unfold chunk_range, cdiv3. rewrite get3_zip3.
    replace (get3 a' (0, 0, 0)) with 0 by (destruct a'; reflexivity).
    split; [lia|]. apply ceil_div_pos; [apply Pns | apply Pnc]. }
  apply mapM_ok_Forall2 in H. destruct (Forall2_In_r _ _ _ _ H H0) as [[[lo hi] buf] [_ Ht]].
  unfold tile_chunk in Ht.
  set (e := sub3 (new_hi g (0, 0, 0)) (new_lo g (0, 0, 0))) in *.
  destruct (fold_left (octant_step ds g lvl (0, 0, 0) e) octants _) as [bf| | | | | |k] eqn:Hf;
    cbn [bind] in Ht; try discriminate. clear Ht.
  assert (Ee : forall a', get3 a' e = ax_e (get3 a' (g_ns g)) (get3 a' (g_nc g)) 0).
  { intro a'. unfold e. rewrite get3_new_ext. replace (get3 a' (0, 0, 0)) with 0 by (destruct a'; reflexivity). reflexivity. }
  assert (Hh : 1 <= ax_h (get3 a (g_os g)) (get3 a (g_ns g)) (get3 a (g_oc g))).
  { rewrite forall3_spec in Hhz. specialize (Hhz a). rewrite get3_half in Hhz.
    apply negb_true_iff in Hhz. apply Z.eqb_neq in Hhz. unfold ax_h in *.
    pose proof (Z.div_pos (get3 a (g_oc g)) (ax_f (get3 a (g_os g)) (get3 a (g_ns g)))
                  ltac:(specialize (Poc a); lia)
                  ltac:(destruct (ax_f_cases (get3 a (g_os g)) (get3 a (g_ns g))); lia)). lia. }
  (* facts about an executed octant b of chunk 0, read on axis a *)
  assert (Hstep : forall b, In b octants -> forall3_3 ax_cond b e (half_chunk g) = true ->
     0 <= ax_olo (get3 a (g_os g)) (get3 a (g_ns g)) (get3 a (g_oc g)) (get3 a (g_nc g)) 0 (get3 a b)
       < get3 a (g_os g) /\
     bc_ok (ax_src (get3 a (g_os g)) (get3 a (g_ns g)) (get3 a (g_oc g)) (get3 a (g_nc g)) 0 (get3 a b))
           (ax_dext (get3 a b) (ax_e (get3 a (g_ns g)) (get3 a (g_nc g)) 0)
                    (ax_h (get3 a (g_os g)) (get3 a (g_ns g)) (get3 a (g_oc g)))) = true).
  { intros b Hb Hc. destruct (fold_ok_steps g lvl (0, 0, 0) e octants _ bf Hf b Hb Hc) as [src [Hl Hbc]].
    destruct (load_ds_facts g lvl _ src Hl) as [L S].
    rewrite forall3_2_spec in Hbc. specialize (Hbc a). specialize (L a).
    rewrite S in Hbc. unfold cdiv3, sub3, min3, mul3, add3 in Hbc, L.
    repeat rewrite ?get3_zip3, ?get3_zip3_3, ?get3_one3, ?get3_fetch, ?get3_factors, ?get3_half, ?Ee in Hbc.
    repeat rewrite ?get3_zip3, ?get3_zip3_3, ?get3_one3, ?get3_fetch, ?get3_factors, ?get3_half, ?Ee in L.
    replace (get3 a (0, 0, 0)) with 0 in Hbc by (destruct a; reflexivity).
    replace (get3 a (0, 0, 0)) with 0 in L by (destruct a; reflexivity).
    split; [exact L | exact Hbc]. }
  apply axis_pass_compat; try apply Pos; try apply Poc; try apply Pnc; try exact Hh.
  - apply (sizes_ok_spec g Hszs).
  - assert (Hc0 : forall3_3 ax_cond (0, 0, 0) e (half_chunk g) = true).
    { apply forall3_3_spec. intro a'. replace (get3 a' (0, 0, 0)) with 0 by (destruct a'; reflexivity). reflexivity. }
    destruct (Hstep (0, 0, 0) ltac:(left; reflexivity) Hc0) as [_ B].
    replace (get3 a (0, 0, 0)) with 0 in B by (destruct a; reflexivity). exact B.
  - intro Hc1.
    assert (Hcu : forall3_3 ax_cond (unit3 a) e (half_chunk g) = true).
    { apply forall3_3_spec. intro a'. rewrite get3_unit3, Ee, get3_half.
      destruct a, a'; try reflexivity; exact Hc1. }
    assert (Hin : In (unit3 a) octants) by (destruct a; simpl; tauto).
    destruct (Hstep (unit3 a) Hin Hcu) as [L B].
    replace (get3 a (unit3 a)) with 1 in L, B by (destruct a; reflexivity). split; assumption.
  - unfold stretch_class, exists3_4 in Hst. apply negb_false_iff in Hst.
    rewrite forall3_4_spec in Hst. specialize (Hst a). apply negb_true_iff in Hst. exact Hst.
Qed.

Hypothesis ds_local : ds_local_prop ds.

(* "If a pair of scales cannot be processed, the tool fails with an error
   instead of writing wrong data": for EVERY geometry with positive sizes, a
   transition that does not raise wrote, in every chunk, the whole previous
   level downscaled once (in particular nothing uninitialised) *)
Theorem tiling_sound : forall g lvl chunks,
  geom_pos g = true -> a_sh lvl = g_os g -> a_c lvl = g_ch g ->
  tile_level ds g lvl = Ok chunks ->
  Forall (chunk_is_restriction ds g lvl) chunks.
Proof.
  intros g lvl chunks Hpos Hsh Hch H.
  pose proof (ok_is_compat g lvl chunks Hpos H) as Hc.
  apply (tiling_sound_on_guard ds ds_shape ds_local g lvl chunks (compat_guard g Hc) Hsh Hch H).
Qed.

Corollary no_uninit : forall g lvl chunks,
  geom_pos g = true -> a_sh lvl = g_os g -> a_c lvl = g_ch g ->
  tile_level ds g lvl = Ok chunks ->
  forall lo hi buf c p, In (lo, hi, buf) chunks -> 0 <= c < g_ch g ->
    (forall a, 0 <= get3 a p < get3 a (sub3 hi lo)) -> b_get buf c p <> Uninit.
Proof.
  intros g lvl chunks Hpos Hsh Hch H.
  pose proof (ok_is_compat g lvl chunks Hpos H) as Hc.
  apply (no_uninit_on_guard ds ds_shape ds_local g lvl chunks (compat_guard g Hc) Hsh Hch H).
Qed.

(* so, on positive geometries, "no error" and [compat] coincide *)
Corollary ok_iff_compat : forall g lvl,
  geom_pos g = true -> a_sh lvl = g_os g -> a_c lvl = g_ch g ->
  ((exists chunks, tile_level ds g lvl = Ok chunks) <-> compat g = true).
Proof.
  intros g lvl Hpos Hsh Hch. split.
  - intros [chunks H]. exact (ok_is_compat g lvl chunks Hpos H).
  - intro Hc. destruct (tiling_exact ds ds_shape ds_local g lvl Hc Hsh Hch) as [chunks [H _]].
    exists chunks. exact H.
Qed.

End Strong.

(* ---------- the chunk store: refinement and failing reads ---------- *)

Lemma same_error_not_ok_l : forall {A B} (o : outcome A) (o' : outcome B),
  same_error o o' -> forall a, o <> Ok a.
Proof. intros A B o o' H a E. subst o. destruct o'; exact H. Qed.

Lemma same_error_not_ok_r : forall {A B} (o : outcome A) (o' : outcome B),
  same_error o o' -> forall b, o' <> Ok b.
Proof. intros A B o o' H b E. subst o'. destruct o; exact H. Qed.

Lemma same_error_bind : forall {A B} (o : outcome A) (f : A -> outcome B),
  (forall a, o <> Ok a) -> same_error o (bind o f).
Proof.
  intros A B o f H. destruct o as [a| | | | | |k]; simpl; auto. exfalso. apply (H a). reflexivity.
Qed.

Lemma same_error_trans : forall {A B C} (o1 : outcome A) (o2 : outcome B) (o3 : outcome C),
  same_error o1 o2 -> same_error o2 o3 -> same_error o1 o3.
Proof.
  intros A B C o1 o2 o3 H1 H2.
  destruct o1; destruct o2; simpl in *; try contradiction; destruct o3; simpl in *; try contradiction; auto.
  congruence.
Qed.

Lemma validate_exists : forall size cs lo hi,
  validate_chunk_coords size cs lo hi = true -> chunk_exists size lo = true.
Proof.
  intros size cs lo hi V. unfold validate_chunk_coords in V. apply andb_true_iff in V.
  destruct V as [V _]. rewrite forall3_3_spec in V. unfold chunk_exists.
  apply andb_true_iff. split.
  - apply forall3_spec. intro a. specialize (V a). rewrite !andb_true_iff in V. tauto.
  - apply forall3_2_spec. intro a. specialize (V a). rewrite !andb_true_iff in V. tauto.
Qed.

Lemma fold_left_ext : forall {A B} (f g : A -> B -> A) l a,
  (forall x y, f x y = g x y) -> fold_left f l a = fold_left g l a.
Proof.
  intros A B f g l. induction l as [|b l IH]; intros a H; simpl; [reflexivity|].
  rewrite H. apply IH. exact H.
Qed.

Lemma mapM_ext : forall {A B} (f g : A -> outcome B) l,
  (forall x, f x = g x) -> mapM f l = mapM g l.
Proof.
  intros A B f g l H. induction l as [|a l IH]; simpl; [reflexivity|]. rewrite H, IH. reflexivity.
Qed.

Section SrcRefinement.

Variable ds : t3 -> arr -> arr.

(* (a) when every chunk of the old grid reads as the corresponding slice of a
   level array, the store variant IS the array variant *)
Definition src_agrees (g : geom) (src : chunk_src) (lvl : arr) : Prop :=
  forall lo hi, validate_chunk_coords (g_os g) (g_oc g) lo hi = true ->
    src lo hi = Ok (restrict lvl lo (sub3 hi lo)).

Lemma load_ds_src_refines : forall g src lvl j, src_agrees g src lvl ->
  load_ds_src ds g src j = load_ds ds g lvl j.
Proof.
  intros g src lvl j H. unfold load_ds_src, load_ds, read_chunk_src, read_chunk.
  destruct (validate_chunk_coords (g_os g) (g_oc g) (mul3 (g_oc g) j)
              (min3 (mul3 (g_oc g) (add3 j one3)) (g_os g))) eqn:V; cbn [negb]; [|reflexivity].
  rewrite (validate_exists _ _ _ _ V). cbn [negb]. rewrite (H _ _ V). reflexivity.
Qed.

Theorem tile_level_src_refines : forall g src lvl, src_agrees g src lvl ->
  tile_level_src ds g src = tile_level ds g lvl.
Proof.
  intros g src lvl H. unfold tile_level_src, tile_level.
  destruct (negb (eqb3 (g_ns g) (cdiv3 (g_os g) (factors g)))); [reflexivity|].
  destruct (negb (forall3 (fun h => negb (h =? 0)) (half_chunk g))); [reflexivity|].
  destruct (stretch_class g); [reflexivity|].
  apply mapM_ext. intro idx. unfold tile_chunk_src, tile_chunk. f_equal.
  apply fold_left_ext. intros acc b. unfold octant_step_src, octant_step.
  destruct acc; cbn [bind]; try reflexivity.
  destruct (forall3_3 ax_cond b _ (half_chunk g)); [|reflexivity].
  rewrite (load_ds_src_refines g src lvl _ H). reflexivity.
Qed.

Corollary tile_level_src_of_level : forall g lvl,
  tile_level_src ds g (src_of_level lvl) = tile_level ds g lvl.
Proof. intros g lvl. apply tile_level_src_refines. intros lo hi _. reflexivity. Qed.

End SrcRefinement.

(* ---------- one axis: every old chunk is needed ---------- *)

Lemma axis_needed_core : forall f h q os ns j,
  (f = 1 \/ f = 2) -> 1 <= h -> (q = 1 \/ q = 2) -> 0 < os -> ns = ceil_div os f ->
  0 <= j -> f * h * j < os ->
  exists i b, 0 <= i /\ q * h * i < ns /\ (b = 0 \/ b = 1) /\
    ax_cond b (Z.min (q * h * (i + 1)) ns - q * h * i) h = true /\ i * q + b = j.
Proof.
  intros f h q os ns j Hf Hh Hq Hos Hns Hj Hlt. unfold ceil_div in Hns.
  assert (HA : 0 <= h * j) by nia.
  destruct Hq as [-> | ->].
  - exists j, 0. unfold ax_cond. cbn [Z.eqb orb].
    replace (f * h * j) with (f * (h * j)) in Hlt by ring. replace (1 * h * j) with (h * j) by ring.
    repeat split; try lia; destruct Hf as [-> | ->]; lia.
  - pose proof (Z.div_mod j 2 ltac:(lia)) as Ej. pose proof (Z.mod_pos_bound j 2 ltac:(lia)) as Bj.
    set (i := j / 2) in *. set (b := j mod 2) in *.
    assert (Hi : 0 <= i) by lia.
    assert (HB : 0 <= h * i) by nia.
    assert (Ehj : h * j = 2 * (h * i) + b * h) by (rewrite Ej; ring).
    replace (f * h * j) with (f * (h * j)) in Hlt by ring. rewrite Ehj in Hlt.
    exists i, b. unfold ax_cond.
    replace (2 * h * (i + 1)) with (2 * (h * i) + 2 * h) by ring.
    replace (2 * h * i) with (2 * (h * i)) by ring.
    assert (Hb : b = 0 \/ b = 1) by lia.
    destruct Hb as [Eb | Eb]; rewrite Eb in *.
    + cbn [Z.eqb orb]. repeat split; try lia; destruct Hf as [-> | ->]; lia.
    + replace (1 =? 0) with false by reflexivity. rewrite orb_false_l.
      repeat split; try lia; try (apply Z.ltb_lt); destruct Hf as [-> | ->]; lia.
Qed.

Lemma axis_needed : forall os ns oc nc j,
  0 < os -> 0 < oc -> 0 < nc -> ns = ceil_div os (ax_f os ns) ->
  compat_axis os ns oc nc = true -> 0 <= j -> oc * j < os ->
  exists i b, 0 <= i /\ nc * i < ns /\ (b = 0 \/ b = 1) /\
    ax_cond b (ax_e ns nc i) (ax_h os ns oc) = true /\ ax_j os ns oc nc i b = j.
Proof.
  intros os ns oc nc j Hos Hoc Hnc Hns Hcp Hj Hlt.
  unfold compat_axis in Hcp. fold (ax_h os ns oc) in Hcp. unfold ax_j, ax_cff, ax_e.
  remember (ax_h os ns oc) as h eqn:Eh. unfold ax_h in Eh.
  remember (ax_f os ns) as f eqn:Ef.
  assert (Hf : f = 1 \/ f = 2) by (rewrite Ef; apply ax_f_cases).
  assert (Hdiv : oc = f * h + oc mod f /\ 0 <= oc mod f < f).
  { rewrite Eh. split; [apply Z.div_mod; lia | apply Z.mod_pos_bound; lia]. }
  destruct Hdiv as [Hd1 Hd2]. set (r := oc mod f) in *.
  apply andb_true_iff in Hcp. destruct Hcp as [Hh Hcp]. apply Z.leb_le in Hh.
  assert (Hos_le : os <= f * ns) by (rewrite Hns; unfold ceil_div; destruct Hf as [-> | ->]; lia).
  apply orb_true_iff in Hcp. destruct Hcp as [Hcp|Hcp].
  - (* one new chunk, one old chunk *)
    apply andb_true_iff in Hcp. destruct Hcp as [H1 H2]. apply Z.leb_le in H1, H2.
    assert (j = 0) by (destruct Hf as [Ef'|Ef']; rewrite Ef' in *; nia). subst j.
    exists 0, 0. unfold ax_cond. cbn [Z.eqb orb]. repeat split; try lia.
  - apply andb_true_iff in Hcp. destruct Hcp as [Hfh Hcp]. apply Z.eqb_eq in Hfh.
    apply orb_true_iff in Hcp. destruct Hcp as [Hcp|Hcp];
      apply andb_true_iff in Hcp; destruct Hcp as [H1 H2].
    + (* one new chunk, at most two old chunks *)
      apply Z.leb_le in H1, H2.
      assert (Hj2 : j = 0 \/ j = 1) by (destruct Hf as [Ef'|Ef']; rewrite Ef' in *; nia).
      destruct Hj2 as [-> | ->].
      * exists 0, 0. unfold ax_cond. cbn [Z.eqb orb]. repeat split; try lia.
      * exists 0, 1. unfold ax_cond. replace (1 =? 0) with false by reflexivity. rewrite orb_false_l.
        repeat split; try lia; try (apply Z.ltb_lt; destruct Hf as [Ef'|Ef']; rewrite Ef' in *; lia).
    + apply Z.eqb_eq in H1. apply Z.leb_le in H2.
      assert (Hq : nc = (nc / h) * h) by (rewrite Z.mul_comm; apply Z.div_exact; lia).
      remember (nc / h) as q eqn:Eq.
      assert (Hq12 : q = 1 \/ q = 2) by (clear - Hq Hnc Hh H2; nia).
      assert (Hlt' : f * h * j < os) by (rewrite Hfh; exact Hlt).
      destruct (axis_needed_core f h q os ns j Hf Hh Hq12 Hos Hns Hj Hlt') as [i [b [K1 [K2 [K3 [K4 K5]]]]]].
      exists i, b. rewrite Hq. repeat split; assumption.
Qed.

(* ---------- a transition over a store in which some reads fail ---------- *)

Section SrcFailures.

Variable ds : t3 -> arr -> arr.
Hypothesis ds_shape : ds_shape_prop ds.

Variable g : geom.
Variable lvl : arr.
Variable src : chunk_src.
Hypothesis Hch : a_c lvl = g_ch g.
Hypothesis Hcompat : compat g = true.

(* every chunk of the old grid either reads as the slice of the level that was
   written, or its read fails *)
Hypothesis Hsrc : forall lo hi, validate_chunk_coords (g_os g) (g_oc g) lo hi = true ->
  src lo hi = Ok (restrict lvl lo (sub3 hi lo)) \/ (forall a, src lo hi <> Ok a).

Let Hpos : geom_pos g = true.
Proof. unfold compat in Hcompat. rewrite !andb_true_iff in Hcompat. tauto. Qed.

Definition failed_read {B} (o : outcome B) : Prop :=
  exists lo hi, validate_chunk_coords (g_os g) (g_oc g) lo hi = true /\
                (forall a, src lo hi <> Ok a) /\ same_error (src lo hi) o.

Lemma load_ds_validates : forall j s, load_ds ds g lvl j = Ok s ->
  validate_chunk_coords (g_os g) (g_oc g) (mul3 (g_oc g) j)
    (min3 (mul3 (g_oc g) (add3 j one3)) (g_os g)) = true.
Proof.
  intros j s H. unfold load_ds, read_chunk in H.
  destruct (validate_chunk_coords _ _ _ _); [reflexivity | discriminate].
Qed.

Section OneChunk.

Variable idx : t3.
Hypothesis Hidx : forall a, 0 <= get3 a idx /\ get3 a (g_nc g) * get3 a idx < get3 a (g_ns g).

Let e : t3 := sub3 (new_hi g idx) (new_lo g idx).
Let HG : axis_good_all g idx := proj1 (compat_good_all g idx Hcompat Hidx).
Let HE : axis_exact_all g idx := proj2 (compat_good_all g idx Hcompat Hidx).

Lemma step_src_cases : forall acc b, valid_oct b ->
  (exists buf, acc = Ok buf /\ b_c buf = g_ch g) ->
  (exists buf', octant_step_src ds g src idx e acc b = Ok buf' /\ b_c buf' = g_ch g) \/
  failed_read (octant_step_src ds g src idx e acc b).
Proof.
  intros acc b Hv [buf [-> Hbc]]. unfold octant_step_src. cbn [bind].
  destruct (forall3_3 ax_cond b e (half_chunk g)) eqn:Hc; [|left; exists buf; split; [reflexivity|exact Hbc]].
  pose proof (load_ds_ok ds g lvl Hpos idx Hidx HG b Hv Hc) as Hl.
  pose proof (load_ds_validates _ _ Hl) as V.
  set (j := add3 (mul3 idx (fetch_factor g)) b) in *.
  unfold load_ds_src, read_chunk_src. rewrite V. cbn [negb].
  destruct (Hsrc _ _ V) as [Hok | Hbad].
  - (* the read succeeds with the right slice: this is the array step *)
    left.
    destruct (step_ok ds ds_shape g lvl Hch Hpos idx Hidx HG HE (Ok buf) b Hv
                (ex_intro _ buf (conj eq_refl Hbc))) as [buf' [Hs Hb']].
    exists buf'. split; [|exact Hb'].
    rewrite <- Hs. unfold octant_step. cbn [bind]. fold e. rewrite Hc. fold j.
    unfold load_ds, read_chunk. rewrite V. cbn [negb]. rewrite (validate_exists _ _ _ _ V). cbn [negb bind].
    rewrite Hok. reflexivity.
  - right. exists (mul3 (g_oc g) j), (min3 (mul3 (g_oc g) (add3 j one3)) (g_os g)).
    split; [exact V|]. split; [exact Hbad|].
    eapply same_error_trans; [apply (same_error_bind _ (fun c => Ok (ds (factors g) c))); exact Hbad|].
    apply same_error_bind. intros a Ea.
    destruct (src (mul3 (g_oc g) j) (min3 (mul3 (g_oc g) (add3 j one3)) (g_os g))) eqn:Es;
      cbn [bind] in Ea; try discriminate. exfalso. apply (Hbad a0). reflexivity.
Qed.

Lemma step_src_error_stays : forall acc b, (forall buf, acc <> Ok buf) ->
  octant_step_src ds g src idx e acc b = acc.
Proof.
  intros acc b H. unfold octant_step_src. destruct acc; cbn [bind]; try reflexivity.
  exfalso. apply (H a). reflexivity.
Qed.

Lemma fold_src_error_stays : forall octs acc, (forall buf, acc <> Ok buf) ->
  fold_left (octant_step_src ds g src idx e) octs acc = acc.
Proof.
  induction octs as [|b octs IH]; intros acc H; simpl; [reflexivity|].
  rewrite step_src_error_stays by exact H. apply IH. exact H.
Qed.

Lemma fold_src_cases : forall octs acc, (forall b, In b octs -> valid_oct b) ->
  (exists buf, acc = Ok buf /\ b_c buf = g_ch g) ->
  (exists buf', fold_left (octant_step_src ds g src idx e) octs acc = Ok buf' /\ b_c buf' = g_ch g) \/
  failed_read (fold_left (octant_step_src ds g src idx e) octs acc).
Proof.
  induction octs as [|b octs IH]; intros acc Hv Hacc; simpl; [left; exact Hacc|].
  destruct (step_src_cases acc b (Hv b (or_introl eq_refl)) Hacc) as [Hok | Hbad].
  - apply IH; [intros b' Hb'; apply Hv; right; exact Hb' | exact Hok].
  - right. rewrite fold_src_error_stays; [exact Hbad|].
    destruct Hbad as [lo [hi [_ [_ Hs]]]]. exact (same_error_not_ok_r _ _ Hs).
Qed.

Lemma tile_chunk_src_cases :
  (exists y, tile_chunk_src ds g src idx = Ok y) \/ failed_read (tile_chunk_src ds g src idx).
Proof.
  unfold tile_chunk_src. fold e.
  destruct (fold_src_cases octants (Ok {| b_c := g_ch g; b_sh := e; b_get := fun _ _ => Uninit |})
              octants_valid) as [[buf [Hf _]] | Hbad].
  { eexists. split; reflexivity. }
  - left. rewrite Hf. cbn [bind]. rewrite (write_validates ds g lvl Hpos idx Hidx). eexists; reflexivity.
  - right. destruct Hbad as [lo [hi [V [Hb Hs]]]]. exists lo, hi. split; [exact V|]. split; [exact Hb|].
    eapply same_error_trans; [exact Hs|]. apply same_error_bind. exact (same_error_not_ok_r _ _ Hs).
Qed.

(* a chunk that was computed means every read it needed succeeded *)
Lemma fold_src_ok_reads : forall octs acc buf,
  fold_left (octant_step_src ds g src idx e) octs acc = Ok buf ->
  forall b, In b octs -> forall3_3 ax_cond b e (half_chunk g) = true ->
  exists s, load_ds_src ds g src (add3 (mul3 idx (fetch_factor g)) b) = Ok s.
Proof.
  induction octs as [|b0 octs IH]; intros acc buf H b Hin Hc; [destruct Hin|].
  simpl in H. destruct Hin as [->|Hin]; [|eapply IH; eassumption].
  destruct (octant_step_src ds g src idx e acc b) as [b1| | | | | |k] eqn:Hs;
    try (rewrite fold_src_error_stays in H by (intros bb Hbb; discriminate); discriminate).
  unfold octant_step_src in Hs. destruct acc as [a0| | | | | |k]; cbn [bind] in Hs; try discriminate.
  rewrite Hc in Hs.
  destruct (load_ds_src ds g src (add3 (mul3 idx (fetch_factor g)) b)) as [s| | | | | |k];
    cbn [bind] in Hs; try discriminate.
  exists s. reflexivity.
Qed.

End OneChunk.

Lemma mapM_src_cases : forall l,
  (forall idx, In idx l ->
     forall a, 0 <= get3 a idx /\ get3 a (g_nc g) * get3 a idx < get3 a (g_ns g)) ->
  (exists ys, mapM (tile_chunk_src ds g src) l = Ok ys) \/
  failed_read (mapM (tile_chunk_src ds g src) l).
Proof.
  induction l as [|idx l IH]; intro H; simpl.
  - left. eexists; reflexivity.
  - destruct (tile_chunk_src_cases idx (H idx (or_introl eq_refl))) as [[y Hy] | Hbad].
    + rewrite Hy. cbn [bind].
      destruct IH as [[ys Hys] | Hbad]; [intros i Hi; apply H; right; exact Hi | |].
      * left. rewrite Hys. cbn [bind]. eexists; reflexivity.
      * right. destruct Hbad as [lo [hi [V [Hb Hs]]]]. exists lo, hi. split; [exact V|]. split; [exact Hb|].
        eapply same_error_trans; [exact Hs|]. apply same_error_bind. exact (same_error_not_ok_r _ _ Hs).
    + right. destruct Hbad as [lo [hi [V [Hb Hs]]]]. exists lo, hi. split; [exact V|]. split; [exact Hb|].
      eapply same_error_trans; [exact Hs|]. apply same_error_bind. exact (same_error_not_ok_r _ _ Hs).
Qed.

Lemma level_src_unfold :
  tile_level_src ds g src = mapM (tile_chunk_src ds g src) (ndindex (chunk_range g)).
Proof.
  unfold tile_level_src.
  pose proof Hcompat as Hc. unfold compat in Hc. rewrite !andb_true_iff in Hc. destruct Hc as [[_ Hsz] _].
  unfold sizes_ok in Hsz. rewrite Hsz. cbn [negb].
  rewrite (guard_half_nonzero g (compat_guard g Hcompat)). cbn [negb].
  rewrite (compat_not_stretch g Hcompat). reflexivity.
Qed.

(* the outcome of the transition: all chunks written, or the error of a read *)
Lemma level_src_cases :
  (exists chunks, tile_level_src ds g src = Ok chunks) \/ failed_read (tile_level_src ds g src).
Proof.
  rewrite level_src_unfold. apply mapM_src_cases. intros idx Hin. exact (in_range_idx g idx Hpos Hin).
Qed.

Lemma level_src_ok_reads : forall chunks, tile_level_src ds g src = Ok chunks ->
  forall idx b, In idx (ndindex (chunk_range g)) -> In b octants ->
  forall3_3 ax_cond b (sub3 (new_hi g idx) (new_lo g idx)) (half_chunk g) = true ->
  exists s, load_ds_src ds g src (add3 (mul3 idx (fetch_factor g)) b) = Ok s.
Proof.
  intros chunks H idx b Hidx Hb Hc. rewrite level_src_unfold in H.
  apply mapM_ok_Forall2 in H. destruct (Forall2_In_r _ _ _ _ H Hidx) as [[[lo hi] buf] [_ Ht]].
  unfold tile_chunk_src in Ht.
  destruct (fold_left _ octants _) as [bf| | | | | |k] eqn:Hf; cbn [bind] in Ht; try discriminate.
  exact (fold_src_ok_reads idx octants _ bf Hf b Hb Hc).
Qed.

(* every chunk of the old grid is needed by some assignment of some new chunk *)
Lemma old_chunk_needed : forall j, in_old_grid g j = true ->
  exists idx b, In idx (ndindex (chunk_range g)) /\ In b octants /\
    forall3_3 ax_cond b (sub3 (new_hi g idx) (new_lo g idx)) (half_chunk g) = true /\
    add3 (mul3 idx (fetch_factor g)) b = j.
Proof.
  intros j Hj. destruct (geom_pos_spec g Hpos) as [Pos [Pns [Poc [Pnc Pch]]]].
  pose proof Hcompat as Hc. unfold compat in Hc. rewrite !andb_true_iff in Hc. destruct Hc as [[_ Hsz] Hc].
  rewrite forall3_4_spec in Hc.
  unfold in_old_grid in Hj. apply andb_true_iff in Hj. destruct Hj as [Hj0 Hj1].
  rewrite forall3_spec in Hj0. rewrite forall3_2_spec in Hj1.
  assert (Hax : forall a, exists i b, 0 <= i /\ get3 a (g_nc g) * i < get3 a (g_ns g) /\ (b = 0 \/ b = 1) /\
            ax_cond b (ax_e (get3 a (g_ns g)) (get3 a (g_nc g)) i)
                      (ax_h (get3 a (g_os g)) (get3 a (g_ns g)) (get3 a (g_oc g))) = true /\
            ax_j (get3 a (g_os g)) (get3 a (g_ns g)) (get3 a (g_oc g)) (get3 a (g_nc g)) i b = get3 a j).
  { intro a. apply axis_needed; try apply Pos; try apply Poc; try apply Pnc.
    - apply (sizes_ok_spec g Hsz).
    - apply Hc.
    - specialize (Hj0 a). apply Z.leb_le in Hj0. exact Hj0.
    - specialize (Hj1 a). apply Z.ltb_lt in Hj1. unfold old_chunk_lo, mul3 in Hj1.
      rewrite get3_zip3 in Hj1. exact Hj1. }
  destruct (Hax AX) as [ix [bx [X1 [X2 [X3 [X4 X5]]]]]].
  destruct (Hax AY) as [iy [by_ [Y1 [Y2 [Y3 [Y4 Y5]]]]]].
  destruct (Hax AZ) as [iz [bz [Z1 [Z2 [Z3 [Z4 Z5]]]]]].
  exists (ix, iy, iz), (bx, by_, bz).
  assert (Hr : forall a, 0 <= get3 a (ix, iy, iz) /\
             get3 a (g_nc g) * get3 a (ix, iy, iz) < get3 a (g_ns g)).
  { intro a; destruct a; simpl; split; assumption. }
  split.
  { apply in_ndindex. intro a. destruct (Hr a) as [R1 R2]. split; [exact R1|].
    unfold chunk_range, cdiv3. rewrite get3_zip3. apply lt_ceil_div_iff; [apply Pnc | exact R2]. }
  split.
  { destruct X3 as [-> | ->]; destruct Y3 as [-> | ->]; destruct Z3 as [-> | ->]; simpl; tauto. }
  split.
  { apply forall3_3_spec. intro a. rewrite get3_new_ext, get3_half. destruct a; simpl; assumption. }
  apply t3_ext. intro a. unfold add3, mul3. rewrite !get3_zip3, get3_fetch.
  destruct a; simpl; [exact X5 | exact Y5 | exact Z5].
Qed.

(* (b) an unreadable chunk of the old grid makes the transition fail, with the
   error of a read that failed - never Ok, never anything else *)
Theorem fails_on_unreadable_source : forall j,
  in_old_grid g j = true ->
  (forall a, src (old_chunk_lo g j) (old_chunk_hi g j) <> Ok a) ->
  (forall chunks, tile_level_src ds g src <> Ok chunks) /\
  failed_read (tile_level_src ds g src).
Proof.
  intros j Hj Hbad.
  assert (Hno : forall chunks, tile_level_src ds g src <> Ok chunks).
  { intros chunks H. destruct (old_chunk_needed j Hj) as [idx [b [Hi [Hb [Hc Ej]]]]].
    destruct (level_src_ok_reads chunks H idx b Hi Hb Hc) as [s Hs]. rewrite Ej in Hs.
    unfold load_ds_src, read_chunk_src in Hs.
    destruct (validate_chunk_coords _ _ _ _); cbn [negb] in Hs; [|discriminate].
    fold (old_chunk_lo g j) in Hs. fold (old_chunk_hi g j) in Hs.
    destruct (src (old_chunk_lo g j) (old_chunk_hi g j)) as [c| | | | | |k] eqn:Es;
      cbn [bind] in Hs; try discriminate. apply (Hbad c). reflexivity. }
  split; [exact Hno|].
  destruct level_src_cases as [[chunks H] | H]; [exfalso; exact (Hno chunks H) | exact H].
Qed.

End SrcFailures.

(* the executable store with listed failures satisfies the hypothesis of
   fails_on_unreadable_source *)
Lemma src_with_failures_spec : forall lvl bad,
  Forall (fun e => forall a, snd e <> Ok a) bad ->
  forall lo hi, src_with_failures lvl bad lo hi = Ok (restrict lvl lo (sub3 hi lo)) \/
                (forall a, src_with_failures lvl bad lo hi <> Ok a).
Proof.
  intros lvl bad HF lo hi. unfold src_with_failures.
  destruct (find (fun e => eqb_t3 (fst e) lo) bad) as [[l err]|] eqn:Hf; [|left; reflexivity].
  right. apply find_some in Hf. rewrite Forall_forall in HF. exact (HF _ (proj1 Hf)).
Qed.

(* non-vacuity: a compat transition (sizes (9,5,3) -> (5,5,2), chunks (4,2,2) ->
   (4,2,1), 2 channels) whose old chunk at (4,0,0) cannot be fetched *)
Definition src_example_geom : geom :=
  {| g_os := (9, 5, 3); g_ns := (5, 5, 2); g_oc := (4, 2, 2); g_nc := (4, 2, 1); g_ch := 2 |}.
Definition src_example_level : arr := arr_of_list 2 (9, 5, 3) (levels 270).
Definition src_example_store : chunk_src :=
  src_with_failures src_example_level [((4, 0, 0), AccessErr)].

Example fails_on_unreadable_source_example :
  compat src_example_geom = true /\ in_old_grid src_example_geom (1, 0, 0) = true /\
  a_c src_example_level = g_ch src_example_geom /\
  src_example_store (old_chunk_lo src_example_geom (1, 0, 0)) (old_chunk_hi src_example_geom (1, 0, 0))
    = AccessErr /\
  tile_level_src ds_avg src_example_geom src_example_store = AccessErr /\
  (exists chunks, tile_level_src ds_avg src_example_geom (src_of_level src_example_level) = Ok chunks).
Proof.
  split; [vm_compute; reflexivity|]. split; [vm_compute; reflexivity|].
  split; [reflexivity|]. split; [vm_compute; reflexivity|]. split; [vm_compute; reflexivity|].
  rewrite tile_level_src_of_level.
  destruct (tiling_exact ds_avg avg_shape avg_local src_example_geom src_example_level) as [chunks [H _]];
    [vm_compute; reflexivity | reflexivity | reflexivity |].
  exists chunks. exact H.
Qed.
