(* Proofs about keys and delays (Properties/C08.v). *)
From Coq Require Import ZArith NArith List Bool Lia DecimalN.
From Coq Require Import Floats.SpecFloat.
From NGS Require Import Val Ints PyrScales PyrScalesProofs PyrKeys.
Import ListNotations.
Open Scope Z_scope.

(* ---------- int(round(log2 q)) ---------- *)

(* For q = m * 2^e, j = round_log2 m e - e satisfies 2^(2j-1) < m^2 < 2^(2j+1),
   i.e. j - 1/2 < log2 m < j + 1/2 (the left inequality is multiplied by 2 to
   stay in the integers), and it is the only integer that does. *)
Lemma round_log2_spec : forall m e,
  let j := round_log2 m e - e in
  0 <= j /\ 2 ^ (2 * j) < 2 * (Zpos m * Zpos m) /\ Zpos m * Zpos m < 2 ^ (2 * j + 1).
Proof.
  intros m e. unfold round_log2. set (n := Z.log2 (Zpos m)).
  assert (Hn : 0 <= n) by apply Z.log2_nonneg.
  destruct (Z.log2_spec (Zpos m) ltac:(lia)) as [L1 L2]. fold n in L1, L2.
  assert (P : 0 < 2 ^ n) by (apply Z.pow_pos_nonneg; lia).
  assert (E1 : 2 ^ (2 * n) = 2 ^ n * 2 ^ n) by (replace (2 * n) with (n + n) by lia; apply Z.pow_add_r; lia).
  assert (E2 : 2 ^ (2 * n + 1) = 2 * (2 ^ n * 2 ^ n)).
  { replace (2 * n + 1) with (Z.succ (2 * n)) by lia. rewrite Z.pow_succ_r by lia. rewrite E1. reflexivity. }
  assert (E3 : 2 ^ Z.succ n = 2 * 2 ^ n) by (apply Z.pow_succ_r; lia).
  destruct (Z.ltb_spec (2 ^ (2 * n + 1)) (Zpos m * Zpos m)) as [H|H]; cbv zeta.
  - replace (n + e + 1 - e) with (n + 1) by lia.
    replace (2 * (n + 1)) with (2 * n + 1 + 1) by lia.
    replace (2 * n + 1 + 1 + 1) with (2 * n + 1 + 2) by lia.
    rewrite (Z.pow_add_r 2 (2 * n + 1) 1) by lia. rewrite (Z.pow_add_r 2 (2 * n + 1) 2) by lia.
    rewrite E2 in *. change (2 ^ 1) with 2. change (2 ^ 2) with 4. split; [lia|]. split; nia.
  - replace (n + e + 0 - e) with n by lia. rewrite E2 in *. rewrite E1. split; [lia|]. split; [nia|].
    (* m^2 = 2^(2n+1) is impossible: 2 is not a square *)
    assert (Hne : Zpos m * Zpos m <> 2 * (2 ^ n * 2 ^ n)).
    { intro Heq.
      assert (Hsq : forall k x, 0 <= k -> 0 < x -> x * x = 2 * (2 ^ k * 2 ^ k) -> False).
      { intros k x Hk. revert x. pattern k. apply natlike_ind; [| |exact Hk].
        - intros x Hx Hxx. change (2 ^ 0) with 1 in Hxx.
          assert (Hc : x = 1 \/ 2 <= x) by lia. destruct Hc as [->|Hc]; [lia|nia].
        - intros k' Hk' IH x Hx Hxx. rewrite Z.pow_succ_r in Hxx by lia.
          assert (Hev : Z.even x = true).
          { destruct (Z.even x) eqn:Ev; [reflexivity|]. exfalso.
            apply (f_equal Z.even) in Hxx. rewrite Z.even_mul, Ev in Hxx.
            rewrite Z.even_mul in Hxx. simpl in Hxx. discriminate. }
          apply Z.even_spec in Hev. destruct Hev as [y Hy]. subst x.
          apply (IH y); [lia|nia]. }
      apply (Hsq n (Zpos m)); [lia|lia|exact Heq]. }
    lia.
Qed.

Lemma round_log2_unique : forall m j, 0 <= j ->
  2 ^ (2 * j) < 2 * (Zpos m * Zpos m) -> Zpos m * Zpos m < 2 ^ (2 * j + 1) ->
  forall e, round_log2 m e - e = j.
Proof.
  intros m j Hj H1 H2 e. destruct (round_log2_spec m e) as [K0 [K1 K2]].
  set (j' := round_log2 m e - e) in *.
  destruct (Z.lt_trichotomy j' j) as [Hlt|[Heq|Hgt]]; [exfalso|exact Heq|exfalso].
  - assert (2 ^ (2 * j' + 1) <= 2 ^ (2 * j - 1)) by (apply Z.pow_le_mono_r; lia).
    assert (2 * 2 ^ (2 * j - 1) = 2 ^ (2 * j)).
    { replace (2 * j) with (Z.succ (2 * j - 1)) at 2 by lia. rewrite Z.pow_succ_r by lia. reflexivity. }
    lia.
  - assert (2 ^ (2 * j + 1) <= 2 ^ (2 * j' - 1)) by (apply Z.pow_le_mono_r; lia).
    assert (2 * 2 ^ (2 * j' - 1) = 2 ^ (2 * j')).
    { replace (2 * j') with (Z.succ (2 * j' - 1)) at 2 by lia. rewrite Z.pow_succ_r by lia. reflexivity. }
    lia.
Qed.

(* ---------- rounding half to even ---------- *)

Lemma rhe_div_bounds : forall n d, 0 < d ->
  2 * n - d <= 2 * d * rhe_div n d <= 2 * n + d.
Proof.
  intros n d Hd. unfold rhe_div.
  pose proof (Z.div_mod n d ltac:(lia)) as E. pose proof (Z.mod_pos_bound n d Hd) as B.
  destruct (Z.ltb_spec (2 * (n mod d)) d); [nia|].
  destruct (Z.ltb_spec d (2 * (n mod d))); [nia|].
  destruct (Z.even (n / d)); nia.
Qed.

Lemma rhe_div_mono : forall n n' d, 0 < d -> n <= n' -> rhe_div n d <= rhe_div n' d.
Proof.
  intros n n' d Hd Hle. destruct (Z.eq_dec n n') as [->|Hne]; [lia|].
  pose proof (rhe_div_bounds n d Hd). pose proof (rhe_div_bounds n' d Hd).
  destruct (Z.le_gt_cases (rhe_div n d) (rhe_div n' d)) as [|Hgt]; [assumption|]. exfalso. nia.
Qed.

Lemma rhe_div_double_gt : forall n d, 0 < d -> d < n -> rhe_div n d < rhe_div (2 * n) d.
Proof.
  intros n d Hd Hn. pose proof (rhe_div_bounds n d Hd). pose proof (rhe_div_bounds (2 * n) d Hd).
  destruct (Z.lt_ge_cases (rhe_div n d) (rhe_div (2 * n) d)) as [|Hge]; [assumption|]. exfalso. nia.
Qed.

Lemma rhe_div_pos_gt_half : forall n d, 0 < d -> 0 <= n -> rhe_div n d <> 0 -> d < 2 * n.
Proof.
  intros n d Hd Hn H. destruct (Z.lt_ge_cases d (2 * n)) as [|Hge]; [assumption|]. exfalso. apply H.
  unfold rhe_div. assert (n < d) by lia.
  rewrite Z.div_small, Z.mod_small by lia.
  destruct (Z.ltb_spec (2 * n) d); [reflexivity|].
  destruct (Z.ltb_spec d (2 * n)); [lia|reflexivity].
Qed.

Lemma rhe_div_scale : forall n d c, 0 < d -> 0 < c -> rhe_div (n * c) (d * c) = rhe_div n d.
Proof.
  intros n d c Hd Hc. unfold rhe_div.
  rewrite Z.div_mul_cancel_r by lia. rewrite Z.mul_mod_distr_r by lia.
  replace (2 * (n mod d * c)) with (2 * (n mod d) * c) by ring.
  assert (E1 : (2 * (n mod d) * c <? d * c) = (2 * (n mod d) <? d)).
  { apply eq_true_iff_eq. rewrite !Z.ltb_lt. symmetry. apply Z.mul_lt_mono_pos_r. exact Hc. }
  assert (E2 : (d * c <? 2 * (n mod d) * c) = (d <? 2 * (n mod d))).
  { apply eq_true_iff_eq. rewrite !Z.ltb_lt. symmetry. apply Z.mul_lt_mono_pos_r. exact Hc. }
  rewrite E1, E2. reflexivity.
Qed.

Lemma rhe_div_1 : forall n, rhe_div n 1 = n.
Proof.
  intro n. unfold rhe_div. rewrite Z.div_1_r, Z.mod_1_r. reflexivity.
Qed.

(* the rounded value of the dyadic number m * 2^e, with any large enough
   common denominator 2^k *)
Definition rint_me (m : positive) (e : Z) : Z :=
  if 0 <=? e then Zpos m * 2 ^ e else rhe_div (Zpos m) (2 ^ (- e)).

Lemma rint_me_canon : forall m e k, 0 <= k -> 0 <= e + k ->
  rint_me m e = rhe_div (Zpos m * 2 ^ (e + k)) (2 ^ k).
Proof.
  intros m e k Hk Hek. unfold rint_me. destruct (Z.leb_spec 0 e) as [He|He].
  - rewrite Z.pow_add_r by lia. rewrite Z.mul_assoc.
    rewrite <- (Z.mul_1_l (2 ^ k)) at 2.
    rewrite rhe_div_scale; [apply eq_sym, rhe_div_1 | lia | apply Z.pow_pos_nonneg; lia].
  - replace k with (- e + (e + k)) at 2 by lia. rewrite (Z.pow_add_r 2 (- e) (e + k)) by lia.
    rewrite rhe_div_scale; [reflexivity | apply Z.pow_pos_nonneg; lia | apply Z.pow_pos_nonneg; lia].
Qed.

Lemma rint_me_dyadic : forall m1 e1 m2 e2, dyadic_eqb m1 e1 m2 e2 = true ->
  rint_me m1 e1 = rint_me m2 e2.
Proof.
  intros m1 e1 m2 e2 H. unfold dyadic_eqb in H. apply Z.eqb_eq in H.
  set (e := Z.min e1 e2) in *. set (k := Z.max 0 (- e)).
  rewrite (rint_me_canon m1 e1 k), (rint_me_canon m2 e2 k) by (unfold k, e; lia).
  f_equal.
  replace (e1 + k) with ((e1 - e) + (e + k)) by lia. replace (e2 + k) with ((e2 - e) + (e + k)) by lia.
  rewrite (Z.pow_add_r 2 (e1 - e) (e + k)) by (unfold k, e; lia).
  rewrite (Z.pow_add_r 2 (e2 - e) (e + k)) by (unfold k, e; lia).
  rewrite !Z.mul_assoc. rewrite H. reflexivity.
Qed.

Lemma rint_sf_finite : forall m e, rint_sf (S754_finite false m e) = Some (rint_me m e).
Proof. reflexivity. Qed.

(* strictly increasing in the level, from level 0 on, once the level-0 value
   rounds to a non-zero integer and differs from the level-1 value *)
Lemma rint_me_level_mono : forall m e l, 0 <= l -> rint_me m e <= rint_me m (e + l).
Proof.
  intros m e l Hl. set (k := Z.max 0 (- e)).
  rewrite (rint_me_canon m e k), (rint_me_canon m (e + l) k) by (unfold k; lia).
  apply rhe_div_mono; [apply Z.pow_pos_nonneg; unfold k; lia|].
  replace (e + l + k) with (e + k + l) by lia. rewrite (Z.pow_add_r 2 (e + k) l) by (unfold k; lia).
  assert (0 < 2 ^ (e + k)) by (apply Z.pow_pos_nonneg; unfold k; lia).
  assert (0 < 2 ^ l) by (apply Z.pow_pos_nonneg; lia). nia.
Qed.

Lemma rint_me_level_step : forall m e l, rint_me m e <> 0 -> 1 <= l ->
  rint_me m (e + l) < rint_me m (e + (l + 1)).
Proof.
  intros m e l H0 Hl. set (k := Z.max 0 (- e)).
  assert (Hk : 0 <= k) by (unfold k; lia). assert (Hek : 0 <= e + k) by (unfold k; lia).
  rewrite (rint_me_canon m e k) in H0 by assumption.
  rewrite (rint_me_canon m (e + l) k), (rint_me_canon m (e + (l + 1)) k) by lia.
  assert (Pd : 0 < 2 ^ k) by (apply Z.pow_pos_nonneg; lia).
  assert (Pn : 0 < 2 ^ (e + k)) by (apply Z.pow_pos_nonneg; lia).
  assert (Pn0 : 0 <= Zpos m * 2 ^ (e + k)) by (apply Z.mul_nonneg_nonneg; lia).
  pose proof (rhe_div_pos_gt_half _ _ Pd Pn0 H0) as Hhalf.
  replace (e + (l + 1) + k) with (Z.succ (e + l + k)) by lia. rewrite Z.pow_succ_r by lia.
  replace (Zpos m * (2 * 2 ^ (e + l + k))) with (2 * (Zpos m * 2 ^ (e + l + k))) by ring.
  apply rhe_div_double_gt; [assumption|].
  replace (e + l + k) with (e + k + l) by lia. rewrite Z.pow_add_r by lia.
  assert (2 <= 2 ^ l).
  { replace l with (Z.succ (l - 1)) by lia. rewrite Z.pow_succ_r by lia.
    assert (0 < 2 ^ (l - 1)) by (apply Z.pow_pos_nonneg; lia). lia. }
  nia.
Qed.

Lemma rint_me_strict : forall m e, rint_me m e <> 0 -> rint_me m e <> rint_me m (e + 1) ->
  forall a b, 0 <= a < b -> rint_me m (e + a) < rint_me m (e + b).
Proof.
  intros m e H0 H1 a b Hab.
  assert (Hstep : forall l, 0 <= l -> rint_me m (e + l) < rint_me m (e + (l + 1))).
  { intros l Hl. destruct (Z.eq_dec l 0) as [->|Hn].
    - rewrite Z.add_0_r. simpl (0 + 1). pose proof (rint_me_level_mono m e 1 ltac:(lia)). lia.
    - apply rint_me_level_step; [assumption|lia]. }
  assert (G : forall n, (0 <= n) -> rint_me m (e + a) < rint_me m (e + (a + n + 1))).
  { intros n Hn. pattern n. apply natlike_ind; [| |exact Hn].
    - rewrite Z.add_0_r. apply Hstep. lia.
    - intros x Hx IH. specialize (Hstep (a + x + 1) ltac:(lia)).
      replace (a + Z.succ x + 1) with (a + x + 1 + 1) by lia. lia. }
  specialize (G (b - a - 1) ltac:(lia)). replace (a + (b - a - 1) + 1) with b in G by lia. exact G.
Qed.

(* ---------- decimal printing is injective ---------- *)

Lemma uint_bytes_inj : forall u v, uint_bytes u = uint_bytes v -> u = v.
Proof.
  induction u; destruct v; simpl; intro H; try discriminate; try reflexivity;
    inversion H; f_equal; auto.
Qed.

Lemma dec_bytes_inj : forall a b, 0 <= a -> 0 <= b -> dec_bytes a = dec_bytes b -> a = b.
Proof.
  intros a b Ha Hb H. unfold dec_bytes in H. apply uint_bytes_inj in H.
  apply Unsigned.to_uint_inj in H. lia.
Qed.

Lemma rint_me_nonneg : forall m e, 0 <= rint_me m e.
Proof.
  intros m e. unfold rint_me. destruct (Z.leb_spec 0 e).
  - apply Z.mul_nonneg_nonneg; [lia | apply Z.pow_nonneg; lia].
  - assert (Hd : 0 < 2 ^ (- e)) by (apply Z.pow_pos_nonneg; lia).
    pose proof (rhe_div_bounds (Zpos m) _ Hd). nia.
Qed.

(* ---------- keys are pairwise distinct inside keys_guard ---------- *)

Lemma NoDup_map_inj_in : forall {A B} (f : A -> B) l, NoDup l ->
  (forall x y, In x l -> In y l -> f x = f y -> x = y) -> NoDup (map f l).
Proof.
  intros A B f l H. induction H as [|a l Hn Hd IH]; intro Hinj; simpl; constructor.
  - intro Hin. apply in_map_iff in Hin. destruct Hin as [y [Hy Hyl]].
    assert (y = a) by (apply Hinj; [right; exact Hyl | left; reflexivity | exact Hy]).
    subst y. contradiction.
  - apply IH. intros x y Hx Hy. apply Hinj; right; assumption.
Qed.

Lemma NoDup_levels : forall n, NoDup (levels n).
Proof.
  intro n. unfold levels. apply NoDup_map_inj_in; [apply seq_NoDup|].
  intros x y _ _ H. lia.
Qed.

Lemma choose_unit_from_spec : forall us r u, choose_unit_from us r = Ok u ->
  exists z k1 k2, rint_sf (fmul r (sf_of (snd u))) = Some z /\ z <> 0 /\
    format_length r u = Ok k1 /\ format_length (fmul r two) u = Ok k2 /\ k1 <> k2.
Proof.
  induction us as [|u0 us IH]; intros r u H; simpl in H; [discriminate|].
  destruct (rint_sf (fmul r (sf_of (snd u0)))) as [z|] eqn:Hz; [|discriminate].
  destruct (Z.eqb_spec z 0) as [Ez|Ez]; [apply IH; exact H|].
  destruct (format_length r u0) as [k1| | | | | |c1] eqn:Hk1; cbn [bind] in H; try discriminate.
  destruct (format_length (fmul r two) u0) as [k2| | | | | |c2] eqn:Hk2; cbn [bind] in H; try discriminate.
  destruct (list_eq_dec N.eq_dec k1 k2) as [E|E]; [apply IH; exact H|].
  inversion H; subst u0. exists z, k1, k2. repeat split; assumption.
Qed.

Lemma product_is_rint : forall x m0 e0, product_is x m0 e0 = true ->
  rint_sf x = Some (rint_me m0 e0).
Proof.
  intros x m0 e0 H. unfold product_is in H. destruct x as [s|s| |s m e]; try discriminate.
  destruct s; [discriminate|]. rewrite rint_sf_finite. f_equal. apply rint_me_dyadic. exact H.
Qed.

Lemma format_length_key : forall len u m0 e0,
  product_is (fmul len (sf_of (snd u))) m0 e0 = true ->
  format_length len u = Ok (dec_bytes (rint_me m0 e0) ++ fst u).
Proof.
  intros len u m0 e0 H. unfold format_length. rewrite (product_is_rint _ _ _ H). reflexivity.
Qed.

Lemma keys_distinct_on_guard : forall full res target ms scales,
  gen_scales full res target ms = Ok scales ->
  keys_guard full res target ms = true ->
  NoDup (map so_key scales).
Proof.
  intros full res target ms scales Hg Hk. unfold gen_scales in Hg. unfold keys_guard in Hk.
  destruct (target_exponent target) as [t| | | | | |c0]; cbn [bind] in Hg; try discriminate.
  set (r := fmap3 sf_of res) in *.
  destruct (delays r) as [d| | | | | |c1]; cbn [bind] in Hg; try discriminate.
  destruct (choose_unit_for_key (fmin3 r)) as [u| | | | | |c2] eqn:Hu; cbn [bind] in Hg; try discriminate.
  destruct (scales_core full d t ms) as [cores| | | | | |c3] eqn:Hc; cbn [bind] in Hg; try discriminate.
  unfold keys_guard_at in Hk.
  destruct (fmul (fmin3 r) (sf_of (snd u))) as [s0|s0| |s0 m0 e0] eqn:HX0; try discriminate.
  destruct s0; [discriminate|].
  apply andb_true_iff in Hk. destruct Hk as [Hk1 Hkl]. rewrite forallb_forall in Hkl.
  (* the unit separates level 0 from level 1 *)
  destruct (choose_unit_from_spec _ _ _ Hu) as [z [k1 [k2 [Hz [Hz0 [Hf1 [Hf2 Hne]]]]]]].
  rewrite HX0, rint_sf_finite in Hz. inversion Hz; subst z. clear Hz.
  assert (P0 : product_is (fmul (fmin3 r) (sf_of (snd u))) m0 (e0 + 0) = true).
  { rewrite HX0. unfold product_is, dyadic_eqb. rewrite Z.add_0_r. apply Z.eqb_refl. }
  rewrite (format_length_key _ _ _ _ P0) in Hf1. rewrite (format_length_key _ _ _ _ Hk1) in Hf2.
  rewrite Z.add_0_r in Hf1.
  assert (H01 : rint_me m0 e0 <> rint_me m0 (e0 + 1)).
  { intro E. apply Hne. inversion Hf1; inversion Hf2. rewrite E. reflexivity. }
  (* every key is K (level) *)
  set (K := fun l => dec_bytes (rint_me m0 (e0 + l)) ++ fst u).
  assert (Hkeys : map so_key scales = map K (map sc_level cores)).
  { apply mapM_ok_Forall2 in Hg. clear Hc. induction Hg as [|c s cs ss Hcs Hr IH]; [reflexivity|].
    simpl. f_equal.
    - unfold mk_scale in Hcs.
      rewrite (format_length_key _ _ _ _ (Hkl c (or_introl eq_refl))) in Hcs. cbn [bind] in Hcs.
      inversion Hcs; reflexivity.
    - apply IH. intros c' Hc'. apply Hkl. right. exact Hc'. }
  assert (Hlv : map sc_level cores = levels (level_count full d t ms)).
  { pose proof (scales_core_levels _ _ _ _ _ Hc) as HF. clear Hkeys Hkl Hg Hc.
    induction HF as [|k s ks ss [Hs _] Hr IH]; [reflexivity|]. simpl. f_equal; assumption. }
  rewrite Hkeys, Hlv. apply NoDup_map_inj_in; [apply NoDup_levels|].
  intros a b Ha Hb E. apply in_levels in Ha, Hb. unfold K in E. apply app_inv_tail in E.
  apply dec_bytes_inj in E; try apply rint_me_nonneg.
  pose proof (rint_me_strict m0 e0 Hz0 H01) as Hs.
  destruct (Z.lt_trichotomy a b) as [Hlt|[Heq|Hgt]]; [|exact Heq|].
  - specialize (Hs a b ltac:(lia)). lia.
  - specialize (Hs b a ltac:(lia)). lia.
Qed.

(* ---------- witnesses (vm_compute on the executable model) ---------- *)

Definition fl_1_2 : fl := (5404319552844595%positive, -52).   (* 1.2 *)
Definition fl_1_5 : fl := (3%positive, -1).                   (* 1.5 *)
Definition fl_0_8 : fl := (3602879701896397%positive, -52).   (* 0.8 *)

Fixpoint has_dup (l : list (list N)) : bool :=
  match l with [] => false | k :: r => existsb (bytes_eqb k) r || has_dup r end.

Lemma has_dup_not_NoDup : forall l, has_dup l = true -> ~ NoDup l.
Proof.
  induction l as [|k r IH]; intro H; [discriminate|]. simpl in H. intro Hn. inversion Hn; subst.
  apply orb_true_iff in H. destruct H as [H|H]; [|exact (IH H H3)].
  apply existsb_exists in H. destruct H as [x [Hx Hb]]. unfold bytes_eqb in Hb.
  destruct (list_eq_dec N.eq_dec k x); [subst; contradiction | discriminate].
Qed.

(* the former counterexample 1.2 : 1.5 : 0.8 nm, target 16 (keys were 1nm, 1nm,
   2nm): since /repo b3f6345 the keys are 1nm, 2nm, 3nm and the guard holds *)
Example keys_former_witness_distinct :
  keys_guard (100, 100, 100) (fl_1_2, fl_1_5, fl_0_8) 16 0 = true /\
  match gen_scales (100, 100, 100) (fl_1_2, fl_1_5, fl_0_8) 16 0 with
  | Ok s => negb (has_dup (map so_key s)) && (3 <=? length s)%nat | _ => false end = true.
Proof. vm_compute. split; reflexivity. Qed.

Example keys_guard_example :
  keys_guard (1000, 1000, 10) ((1%positive, 0), (1%positive, 0), (25%positive, 2)) 16 0 = true /\
  exists scales, gen_scales (1000, 1000, 10) ((1%positive, 0), (1%positive, 0), (25%positive, 2)) 16 0 = Ok scales
                 /\ (3 <= length scales)%nat.
Proof.
  split; [vm_compute; reflexivity|].
  destruct (gen_scales (1000, 1000, 10) ((1%positive, 0), (1%positive, 0), (25%positive, 2)) 16 0)
    as [scales| | | | | |c] eqn:E; try (vm_compute in E; discriminate).
  exists scales. split; [reflexivity|].
  assert (Hs : match gen_scales (1000, 1000, 10) ((1%positive, 0), (1%positive, 0), (25%positive, 2)) 16 0 with
               | Ok s => (3 <=? length s)%nat | _ => false end = true) by (vm_compute; reflexivity).
  rewrite E in Hs. apply Nat.leb_le. exact Hs.
Qed.

(* the former assertion witness (delays 0, 10, 11, target 2) is now accepted *)
Example former_assert_witness_accepted :
  match gen_scales (1000000, 1000, 1000) ((1%positive, 0), (1%positive, 10), (1%positive, 11)) 2 0 with
  | Ok s => (1 <=? length s)%nat | _ => false end = true.
Proof. vm_compute. reflexivity. Qed.

(* the generator still fails on a valid (sub-half-picometre) description *)
Lemma tiny_resolution_refuted :
  gen_scales (1000, 1000, 1000) ((1%positive, 0), (1%positive, 0), (1%positive, -14)) 64 0
  = Crash NotImplementedError.
Proof. vm_compute. reflexivity. Qed.

(* resolutions: each scale's resolution is the full resolution times the float
   2^k with the same k that divides the size *)
Lemma resolution_structure : forall full res target ms scales s,
  gen_scales full res target ms = Ok scales -> In s scales ->
  exists t d l,
    target_exponent target = Ok t /\ delays (fmap3 sf_of res) = Ok d /\
    0 <= l < level_count full d t ms /\
    so_size s = level_sizes full d l /\
    so_res s = scale_resolution (fmap3 sf_of res) (level_factors d l) /\
    (exists e, chunk_exponents d t l = Ok e /\ so_chunks s = map3 (fun x => 2 ^ x) e).
Proof.
  intros full res target ms scales s Hg Hin. unfold gen_scales in Hg.
  destruct (target_exponent target) as [t| | | | | |c0]; cbn [bind] in Hg; try discriminate.
  set (r := fmap3 sf_of res) in *.
  destruct (delays r) as [d| | | | | |c1]; cbn [bind] in Hg; try discriminate.
  destruct (choose_unit_for_key (fmin3 r)) as [u| | | | | |c2]; cbn [bind] in Hg; try discriminate.
  destruct (scales_core full d t ms) as [cores| | | | | |c3] eqn:Hc; cbn [bind] in Hg; try discriminate.
  apply mapM_ok_Forall2 in Hg.
  destruct (Forall2_In_l _ _ _ _ Hg Hin) as [c [Hcin Hmk]].
  destruct (scales_core_In _ _ _ _ _ _ Hc Hcin) as [Hl [Hf [Hsz He]]].
  unfold mk_scale in Hmk.
  destruct (format_length _ u) as [key| | | | | |c4]; cbn [bind] in Hmk; try discriminate.
  inversion Hmk; subst s; cbn.
  exists t, d, (sc_level c). repeat split; try assumption; try lia.
  - rewrite Hf. reflexivity.
  - exists (sc_chunk_exp c). split; [assumption | reflexivity].
Qed.

(* every generated scale has positive sizes and chunk sizes *)
Lemma gen_scales_scale_pos : forall full res target ms scales s,
  gen_scales full res target ms = Ok scales -> In s scales ->
  (forall a, 0 < get3 a (so_size s)) /\ (forall a, 0 < get3 a (so_chunks s)).
Proof.
  intros full res target ms scales s Hg Hin. unfold gen_scales in Hg.
  destruct (target_exponent target) as [t| | | | | |c0] eqn:Ht0; cbn [bind] in Hg; try discriminate.
  set (r := fmap3 sf_of res) in *.
  destruct (delays r) as [d| | | | | |c1]; cbn [bind] in Hg; try discriminate.
  destruct (choose_unit_for_key (fmin3 r)) as [u| | | | | |c2]; cbn [bind] in Hg; try discriminate.
  destruct (scales_core full d t ms) as [cores| | | | | |c3] eqn:Hc; cbn [bind] in Hg; try discriminate.
  apply mapM_ok_Forall2 in Hg.
  destruct (Forall2_In_l _ _ _ _ Hg Hin) as [c [Hcin Hmk]].
  destruct (scales_core_In _ _ _ _ _ _ Hc Hcin) as [Hl [Hf [Hsz He]]].
  pose proof (scales_core_positive _ _ _ _ _ Hc) as Hpos.
  unfold mk_scale in Hmk.
  destruct (format_length _ u) as [key| | | | | |c4]; cbn [bind] in Hmk; try discriminate.
  inversion Hmk; subst s; cbn. split; intro a.
  - rewrite Hsz. unfold level_sizes, level_factors. rewrite get3_zip3, get3_map3.
    apply ceil_div_pos; [apply Hpos | apply Z.pow_pos_nonneg; lia].
  - rewrite get3_map3. apply Z.pow_pos_nonneg; [lia|].
    assert (Ht : 0 <= t).
    { unfold target_exponent in Ht0. destruct (target <=? 0); [discriminate|].
      destruct (2 ^ Z.log2 target =? target); [|discriminate].
      inversion Ht0. apply Z.log2_nonneg. }
    destruct (chunk_volume d t (sc_level c) _ Ht ltac:(lia) He) as [Hn _]. apply Hn.
Qed.

(* ---------- generate_scales_info.set_info_params ---------- *)
Lemma set_info_params_consistent : forall ct ce it ie dt hb,
  let r := set_info_params ct ce it ie dt hb in
  let ty := fst (fst (fst r)) in let enc := snd (fst (fst r)) in
  let dt' := snd (fst r) in let addblk := snd r in
  enc = match ce with Some e => e | None => match ie with Some e => e | None => s_raw end end /\
  (ct = None -> it = None -> ty = if bytes_eqb enc s_cseg then s_segmentation else s_image) /\
  (bytes_eqb enc s_cseg = true ->
     bytes_eqb dt' s_uint8 = false /\ bytes_eqb dt' s_uint16 = false /\ (hb = true \/ addblk = true)) /\
  (bytes_eqb enc s_cseg = false -> dt' = dt /\ addblk = false).
Proof.
  intros ct ce it ie dt hb. unfold set_info_params.
  set (enc := match ce with Some e => e | None => match ie with Some e => e | None => s_raw end end).
  cbv zeta. destruct (bytes_eqb enc s_cseg) eqn:Ec; cbn [fst snd]; rewrite ?Ec.
  - split; [reflexivity|]. split.
    + intros -> ->. reflexivity.
    + split; [|intros X; discriminate X]. intros _.
      destruct (bytes_eqb dt s_uint8) eqn:E8; cbn [orb].
      * repeat split; try reflexivity. destruct hb; [left|right]; reflexivity.
      * destruct (bytes_eqb dt s_uint16) eqn:E16.
        -- repeat split; try reflexivity. destruct hb; [left|right]; reflexivity.
        -- repeat split; try assumption. destruct hb; [left|right]; reflexivity.
  - split; [reflexivity|]. split.
    + intros -> ->. reflexivity.
    + split; [intros X; discriminate X|]. intros _. split; reflexivity.
Qed.
