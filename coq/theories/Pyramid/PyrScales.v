(* Integer core of dyadic_pyramid.fill_scales_for_dyadic_pyramid.

   Everything here is parameterised by the axis delays d = (dx, dy, dz) (the
   rounded log2 of each axis resolution over the finest one, computed in
   PyrKeys.v), the exponent t of the target chunk size, the full sizes and
   max_scales.  Python lists [x, y, z] are the triples below.

   Faithfulness notes (read in the source, exercised by harness/props/c08.py):
   * the level count is  max_i (ceil(log2(size_i / target)) - delay_i), then
     the optional cap (max_scales falsy, i.e. None or 0 = no cap), then
     max(., 1);  math.ceil(math.log2(a / 2^t)) is modelled exactly on
     rationals: the least k (possibly negative) with a <= 2^t * 2^k, which is
     Z.log2_up a - t for a >= 1 (agreement with libm is tested, not proved);
   * three internal assertions; each becomes Crash AssertionError (since /repo
     1758f7a none of them can fail: PyrScalesProofs.no_assertion_can_fail). *)
From Coq Require Import ZArith List Bool Lia.
From NGS Require Import Val Ints.
Import ListNotations.
Open Scope Z_scope.

(* ---------- triples indexed by axis ---------- *)

Inductive axis : Type := AX | AY | AZ.
Definition t3 : Type := (Z * Z * Z)%type.
Definition all_axes : list axis := [AX; AY; AZ].

Definition get3 (a : axis) (v : t3) : Z :=
  let '(x, y, z) := v in match a with AX => x | AY => y | AZ => z end.
Definition map3 (f : Z -> Z) (v : t3) : t3 :=
  let '(x, y, z) := v in (f x, f y, f z).
Definition zip3 (f : Z -> Z -> Z) (v w : t3) : t3 :=
  let '(x, y, z) := v in let '(a, b, c) := w in (f x a, f y b, f z c).
Definition sum3 (v : t3) : Z := let '(x, y, z) := v in x + y + z.
Definition max3 (v : t3) : Z := let '(x, y, z) := v in Z.max x (Z.max y z).   (* Python max() *)
Definition forall3 (p : Z -> bool) (v : t3) : bool :=
  let '(x, y, z) := v in p x && p y && p z.
Definition forall3_2 (p : Z -> Z -> bool) (v w : t3) : bool :=
  let '(x, y, z) := v in let '(a, b, c) := w in p x a && p y b && p z c.
Definition eqb3 (v w : t3) : bool := forall3_2 Z.eqb v w.
Definition list3 (v : t3) : list Z := let '(x, y, z) := v in [x; y; z].

(* n / d rounded to the nearest integer, halves to the even one (d > 0) *)
Definition rhe_div (n d : Z) : Z :=
  let q := n / d in let r := n mod d in
  if 2 * r <? d then q else if d <? 2 * r then q + 1
  else if Z.even q then q else q + 1.

(* ---------- target chunk size ---------- *)

(* target_chunk_exponent = int(math.log2(target)); assert target == 2 ** exponent.
   math.log2 raises ValueError on a non-positive argument. *)
Definition target_exponent (target : Z) : outcome Z :=
  if target <=? 0 then Crash ValueError
  else if 2 ^ Z.log2 target =? target then Ok (Z.log2 target)
  else Crash AssertionError.

(* ---------- one level ---------- *)

Definition level_factors (d : t3) (l : Z) : t3 := map3 (fun di => 2 ^ Z.max 0 (l - di)) d.
Definition level_sizes (full d : t3) (l : Z) : t3 := zip3 ceil_div full (level_factors d l).

Definition aniso0 (d : t3) (l : Z) : t3 :=
  let M := max3 d in map3 (fun di => Z.max 0 (M - di - l)) d.
Definition count_nz (v : t3) : Z := sum3 (map3 (fun f => if f =? 0 then 0 else 1) v).

(* anisotropy_factors.index(max(anisotropy_factors)) *)
Definition argmax_first (v : t3) : axis :=
  let '(x, y, z) := v in
  if (y <=? x) && (z <=? x) then AX else if z <=? y then AY else AZ.
Definition sub_at (a : axis) (delta : Z) (v : t3) : t3 :=
  let '(x, y, z) := v in
  match a with AX => (x - delta, y, z) | AY => (x, y - delta, z) | AZ => (x, y, z - delta) end.

(* the anisotropy factors after the "excess" reduction; the flag tells
   whether  assert sum_anisotropy_factors <= 3 * target_chunk_exponent  held *)
Definition aniso_reduced (d : t3) (t l : Z) : outcome t3 :=
  let a := aniso0 d l in
  let excess := sum3 a - 3 * t in
  if 0 <? excess then
    let n := count_nz a in
    if n =? 0 then Crash ZeroDivisionError else
    let red := ceil_div excess n in
    let a' := map3 (fun f => Z.max (f - red) 0) a in
    (* /repo 1758f7a: a factor smaller than the reduction was clipped to zero,
       so less than the excess was removed: the remainder is taken from the
       largest factor (list.index(max(...)): the first one) *)
    let a'' := if 3 * t <? sum3 a' then sub_at (argmax_first a') (sum3 a' - 3 * t) a' else a' in
    if sum3 a'' <=? 3 * t then Ok a'' else Crash AssertionError
  else Ok a.

(* exponents of the chunk sizes of level l (chunk size = 2^exponent) *)
Definition chunk_exponents (d : t3) (t l : Z) : outcome t3 :=
  bind (aniso_reduced d t l) (fun a =>
  let base := t - (sum3 a + 1) / 3 in
  if base <? 0 then Crash AssertionError else
  let e := map3 (fun f => base + f) a in
  (* int(round(math.log2(2 ** e))) = e *)
  if Z.abs (sum3 e - 3 * t) <=? 1 then Ok e else Crash AssertionError).

(* ---------- number of levels ---------- *)

(* math.ceil(math.log2(a / 2^t)) on rationals, for a >= 1 *)
Definition log2_up_ratio (a t : Z) : Z := Z.log2_up a - t.

(* max_scales: 0 stands for both None and 0 (the code tests truthiness) *)
Definition level_count (full d : t3) (t max_scales : Z) : Z :=
  let m := max3 (zip3 (fun a b => log2_up_ratio a t - b) full d) in
  let m := if max_scales =? 0 then m else Z.min m max_scales in
  Z.max m 1.

(* ---------- all levels ---------- *)

Record scale_core : Type :=
  { sc_level : Z; sc_factors : t3; sc_size : t3; sc_chunk_exp : t3 }.

Definition scale_core_at (full d : t3) (t l : Z) : outcome scale_core :=
  bind (chunk_exponents d t l) (fun e =>
  Ok {| sc_level := l; sc_factors := level_factors d l;
        sc_size := level_sizes full d l; sc_chunk_exp := e |}).

Fixpoint mapM {A B} (f : A -> outcome B) (l : list A) : outcome (list B) :=
  match l with
  | [] => Ok []
  | a :: r => bind (f a) (fun b => bind (mapM f r) (fun br => Ok (b :: br)))
  end.

Definition levels (n : Z) : list Z := map Z.of_nat (seq 0 (Z.to_nat n)).

(* sizes must be >= 1: math.log2(0 / target) raises ValueError *)
Definition scales_core (full d : t3) (t max_scales : Z) : outcome (list scale_core) :=
  if negb (forall3 (fun s => 0 <? s) full) then Crash ValueError else
  mapM (scale_core_at full d t) (levels (level_count full d t max_scales)).

(* ---------- specification-side predicates (property statement) ---------- *)

(* "the last scale fits in at most two target-size chunks per axis" *)
Definition fits_two_chunks (t : Z) (size : t3) : bool :=
  forall3 (fun s => s <=? 2 * 2 ^ t) size.

(* exact region in which the code's level count (ceil(log2(size/target)) MINUS
   delay) reaches a last scale that fits: per axis, either the axis already
   fits two target chunks at full size (n <= 1), or its n plus its delay is
   at most the level count *)
Definition last_fits_guard (full d : t3) (t max_scales : Z) : bool :=
  let L := level_count full d t max_scales in
  forall3_2 (fun s di => (log2_up_ratio s t <=? 1) || (log2_up_ratio s t + di <=? L)) full d.

(* closed form of "no assertion fails at level l" (see PyrScalesProofs) *)
Definition no_assert_level (d : t3) (t l : Z) : bool :=
  match chunk_exponents d t l with Ok _ => true | _ => false end.
