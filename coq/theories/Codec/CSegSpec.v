(* Specification of the compressed_segmentation format, written from the
   Neuroglancer format document only (no reference to the package's code):

   - the file starts with one little-endian uint32 per channel: the offset, in
     32-bit units from the start of the file, of that channel's data;
   - a channel's data starts with one 8-byte header per block, blocks in the
     grid order  x + gx * (y + gy * z)  where g = ceil(chunk size / block size):
       bits  0..23  lookupTableOffset   (32-bit units from the channel start)
       bits 24..31  encodedBits, one of 0,1,2,4,8,16,32
       bits 32..63  encodedValuesStartOffset (32-bit units from the channel start)
   - the voxel at position (x,y,z) inside a block has number
       p = x + bx * (y + by * z);
     its table index is the [encodedBits]-bit little-endian field at bit
     offset p * encodedBits from the start of the encoded values (bit 0 = least
     significant bit of the first 32-bit word); with 0 bits the index is 0;
   - its label is entry [index] of the lookup table: one (uint32) or two
     (uint64, low word first) 32-bit words per entry.

   [spec_value] decodes one voxel; [well_formed] is the structural validator. *)
From Coq Require Import NArith List Bool.
From NGS Require Import Ints Words.
Import ListNotations.
Open Scope N_scope.

(* little-endian uint32 at byte offset [off]; None when the 4 bytes are not
   all inside the buffer *)
Definition rd32 (buf : list N) (off : N) : option N :=
  match firstn 4 (skipn (N.to_nat off) buf) with
  | [a; b; c; d] => Some (a + 256 * (b + 256 * (c + 256 * d)))
  | _ => None
  end.

Definition bits_allowed (b : N) : bool :=
  (b =? 0) || (b =? 1) || (b =? 2) || (b =? 4) || (b =? 8) || (b =? 16) || (b =? 32).

Definition ceil_quot (a b : N) : N := if a mod b =? 0 then a / b else a / b + 1.

(* table index of voxel number [p] of a block with [bits] bits whose encoded
   values start at byte offset [vbase] *)
Definition spec_index (buf : list N) (vbase bits p : N) : option N :=
  if bits =? 0 then Some 0
  else match rd32 buf (vbase + 4 * (p * bits / 32)) with
       | Some w => Some ((w / 2 ^ ((p * bits) mod 32)) mod 2 ^ bits)
       | None => None
       end.

(* table entry [idx] of the table starting at byte offset [tbase] *)
Definition spec_entry (dt : dtype) (buf : list N) (tbase idx : N) : option N :=
  match dt with
  | U32 => rd32 buf (tbase + 4 * idx)
  | U64 => match rd32 buf (tbase + 8 * idx), rd32 buf (tbase + 8 * idx + 4) with
           | Some lo, Some hi => Some (lo + 2 ^ 32 * hi)
           | _, _ => None
           end
  end.

Definition spec_value (dt : dtype) (buf : list N) (Y X bx by_ bz : N) (c z y x : N) : option N :=
  if (bx =? 0) || (by_ =? 0) || (bz =? 0) then None else
  let gx := ceil_quot X bx in
  let gy := ceil_quot Y by_ in
  match rd32 buf (4 * c) with
  | None => None
  | Some coff =>
      let base := 4 * coff in
      let hpos := base + 8 * (x / bx + gx * (y / by_ + gy * (z / bz))) in
      match rd32 buf hpos, rd32 buf (hpos + 4) with
      | Some w0, Some w1 =>
          let lut := w0 mod 2 ^ 24 in
          let bits := w0 / 2 ^ 24 in
          if negb (bits_allowed bits) then None else
          let p := x mod bx + bx * (y mod by_ + by_ * (z mod bz)) in
          match spec_index buf (base + 4 * w1) bits p with
          | None => None
          | Some idx => spec_entry dt buf (base + 4 * lut) idx
          end
      | _, _ => None
      end
  end.

(* Structural validator: length a multiple of 4; the channel table inside the
   file; every block header inside the file; bit widths in the allowed set;
   the encoded values of every block with a non-zero bit width (all bx*by*bz of
   them) inside the file -- a 0-bit block has no encoded values and its values
   offset is unused, whatever it holds;
   every index (padding voxels included) designating a table entry that lies
   inside the file. *)
Definition wf_block (dt : dtype) (buf : list N) (len base B hpos : N) : bool :=
  match rd32 buf hpos, rd32 buf (hpos + 4) with
  | Some w0, Some w1 =>
      let lut := w0 mod 2 ^ 24 in
      let bits := w0 / 2 ^ 24 in
      bits_allowed bits &&
      ((bits =? 0) || (base + 4 * (w1 + ceil_quot (B * bits) 32) <=? len)) &&
      forallb (fun p =>
                 match spec_index buf (base + 4 * w1) bits p with
                 | Some idx => base + 4 * lut + itemsize dt * (idx + 1) <=? len
                 | None => false
                 end) (range B)
  | _, _ => false
  end.

Definition well_formed (dt : dtype) (buf : list N) (C Z Y X bx by_ bz : N) : bool :=
  let len := lenN buf in
  negb ((bx =? 0) || (by_ =? 0) || (bz =? 0)) &&
  (len mod 4 =? 0) && (4 * C <=? len) &&
  let nblk := ceil_quot X bx * ceil_quot Y by_ * ceil_quot Z bz in
  forallb (fun c =>
             match rd32 buf (4 * c) with
             | None => false
             | Some coff =>
                 let base := 4 * coff in
                 (base + 8 * nblk <=? len) &&
                 forallb (fun k => wf_block dt buf len base (bx * by_ * bz) (base + 8 * k))
                         (range nblk)
             end) (range C).
