(* Historical record.  Before /repo commits a6dbfd3 and 95d7b2e the two
   decoders below were the faithful models; they are NOT the model of the
   current code (that is CSegDecode.v / JpegGlue.v, for which
   CSegDecodeProofs.cseg_decode_total and jpeg_glue_total hold without a
   guard).  The witnesses show what the two fixes repaired. *)
From Coq Require Import NArith ZArith List Bool Lia.
From NGS Require Import Val Ints Words Arr4 CSegEncode CSegDecode JpegGlue.
Import ListNotations.
Open Scope Z_scope.

(* before a6dbfd3: channel c was confined to buf[offset : next_offset] *)
Fixpoint decode_channels_old (dt : dtype) (buf : list N) (B nblk : N) (offs : list Z)
  : outcome (list (list (list N))) :=
  match offs with
  | [] => Ok []
  | off :: rest =>
      if zlen buf <? off + 8 * Z.of_N nblk then FormatErr else
      let cbuf := match rest with
                  | [] => py_slice buf off (zlen buf)
                  | next :: _ => py_slice buf off next
                  end in
      bind (decode_channel dt cbuf B nblk) (fun blocks =>
      bind (decode_channels_old dt buf B nblk rest) (fun more => Ok (blocks :: more)))
  end.

Definition cseg_decode_old (dt : dtype) (nc : N) (g : geom) (cx cy cz : N) (buf : list N)
  : outcome arr4 :=
  if ((g_bx g =? 0) || (g_by g =? 0) || (g_bz g =? 0))%N then Crash ZeroDivisionError else
  let nblk := (cdiv cx (g_bx g) * cdiv cy (g_by g) * cdiv cz (g_bz g))%N in
  let B := (g_bx g * g_by g * g_bz g)%N in
  if zlen buf <? Z.of_N (nc * (4 + 8 * nblk)) then FormatErr else
  bind (decode_channels_old dt buf B nblk (channel_offsets buf nc)) (fun chans =>
  Ok (assemble nc cz cy cx g chans)).

(* two channels, 1x1x1 chunk and block, second channel offset (0) before the
   first (2): struct.error before the fix, the format error now *)
Definition old_witness : list N :=
  [2; 0; 0; 0;  0; 0; 0; 0;  0; 0; 0; 0;  0; 0; 0; 0;
   0; 0; 0; 0;  0; 0; 0; 0;  0; 0; 0; 0;  0; 0; 0; 0]%N.

Lemma cseg_decode_old_crashed :
  cseg_decode_old U32 2 {| g_bx := 1; g_by := 1; g_bz := 1 |} 1 1 1 old_witness = Crash StructError.
Proof. vm_compute. reflexivity. Qed.

Lemma cseg_decode_now_on_old_witness :
  exists a, cseg_decode U32 2 {| g_bx := 1; g_by := 1; g_bz := 1 |} 1 1 1 old_witness = Ok a.
Proof. eexists. vm_compute. reflexivity. Qed.

(* before 95d7b2e: a failing pixel load let Pillow's OSError escape *)
Definition jpeg_decode_old (nc cx cy cz : N) (r : pil_result) : outcome arr4 :=
  match r with
  | Opened mode w h LoadFail =>
      if (nc =? 1)%N && negb (list_eqb mode mode_L) then FormatErr
      else if (nc =? 3)%N && negb (list_eqb mode mode_RGB) then FormatErr
      else IOErr
  | _ => jpeg_decode nc cx cy cz r
  end.

Lemma jpeg_decode_old_escaped :
  jpeg_decode_old 1 2 2 2 (Opened mode_L 2 4 LoadFail) = IOErr /\
  jpeg_decode 1 2 2 2 (Opened mode_L 2 4 LoadFail) = FormatErr.
Proof. split; reflexivity. Qed.
