(* What changes if the two fixes drafted in /verif/proposed_fixes/C10-*.diff
   are applied: the modified decoders (defined here, not part of the model of
   the current code) satisfy the C10 statements WITHOUT a guard. *)
From Coq Require Import NArith ZArith List Bool Lia ZifyBool ZifyNat ZifyN.
From NGS Require Import Val Ints Words Arr4 CSegEncode CSegDecode JpegGlue
     WordsProofs Arr4Proofs CSegDecodeProofs.
Import ListNotations.
Open Scope Z_scope.

(* C10-cseg-short-channel-struct-error.diff: every channel reads buf[offset:] *)
Fixpoint decode_channels_fixed (dt : dtype) (buf : list N) (B nblk : N) (offs : list Z)
  : outcome (list (list (list N))) :=
  match offs with
  | [] => Ok []
  | off :: rest =>
      if zlen buf <? off + 8 * Z.of_N nblk then FormatErr else
      let cbuf := py_slice buf off (zlen buf) in
      bind (decode_channel dt cbuf B nblk) (fun blocks =>
      bind (decode_channels_fixed dt buf B nblk rest) (fun more => Ok (blocks :: more)))
  end.

Definition cseg_decode_fixed (dt : dtype) (nc : N) (g : geom) (cx cy cz : N) (buf : list N)
  : outcome arr4 :=
  if ((g_bx g =? 0) || (g_by g =? 0) || (g_bz g =? 0))%N then Crash ZeroDivisionError else
  let nblk := (cdiv cx (g_bx g) * cdiv cy (g_by g) * cdiv cz (g_bz g))%N in
  let B := (g_bx g * g_by g * g_bz g)%N in
  if zlen buf <? Z.of_N (nc * (4 + 8 * nblk)) then FormatErr else
  bind (decode_channels_fixed dt buf B nblk (channel_offsets buf nc)) (fun chans =>
  Ok (assemble nc cz cy cx g chans)).

Lemma decode_channels_fixed_no_crash dt buf B nblk offs :
  Forall (fun o => 0 <= o) offs ->
  is_crash (decode_channels_fixed dt buf B nblk offs) = false.
Proof.
  induction offs as [|off rest IH]; intros Hpos; [reflexivity|].
  cbn [decode_channels_fixed].
  destruct (Z.ltb_spec (zlen buf) (off + 8 * Z.of_N nblk)) as [|Hlen]; [reflexivity|].
  inversion Hpos as [|? ? Hoff Hrest]; subst.
  apply is_crash_bind.
  - apply decode_channel_no_crash. rewrite py_slice_length. unfold py_norm.
    destruct (Z.ltb_spec off 0); [lia|]. destruct (Z.ltb_spec (zlen buf) 0); lia.
  - intros blocks _. apply is_crash_bind; [|reflexivity]. now apply IH.
Qed.

Theorem cseg_decode_fixed_total dt nc g cx cy cz buf :
  (g_bx g <> 0 /\ g_by g <> 0 /\ g_bz g <> 0)%N ->
  forall k, cseg_decode_fixed dt nc g cx cy cz buf <> Crash k.
Proof.
  intros (Hx & Hy & Hz) k Hc.
  assert (Hn : is_crash (cseg_decode_fixed dt nc g cx cy cz buf) = false);
    [|rewrite Hc in Hn; discriminate].
  clear Hc. unfold cseg_decode_fixed.
  destruct (N.eqb_spec (g_bx g) 0); [contradiction|].
  destruct (N.eqb_spec (g_by g) 0); [contradiction|].
  destruct (N.eqb_spec (g_bz g) 0); [contradiction|]. cbn [orb].
  destruct (zlen buf <? _); [reflexivity|].
  apply is_crash_bind; [|reflexivity].
  apply decode_channels_fixed_no_crash, channel_offsets_nonneg.
Qed.

(* the fixed decoder agrees with the current one wherever the current one's
   channel buffers are not cut short AND end where the next channel begins or
   later -- in particular on everything the encoder produces, whose channels
   are contiguous; stated here for single-channel files, where the two
   definitions coincide syntactically *)
Lemma cseg_decode_fixed_same_1 dt g cx cy cz buf :
  cseg_decode_fixed dt 1 g cx cy cz buf = cseg_decode dt 1 g cx cy cz buf.
Proof. reflexivity. Qed.

(* C10-jpeg-load-oserror.diff: a failing pixel load becomes the format error *)
Definition jpeg_decode_fixed (nc cx cy cz : N) (r : pil_result) : outcome arr4 :=
  match r with
  | Opened mode w h LoadFail =>
      if (nc =? 1)%N && negb (list_eqb mode mode_L) then FormatErr
      else if (nc =? 3)%N && negb (list_eqb mode mode_RGB) then FormatErr
      else FormatErr
  | _ => jpeg_decode nc cx cy cz r
  end.

Theorem jpeg_decode_fixed_total nc cx cy cz r :
  jpeg_decode_fixed nc cx cy cz r = FormatErr \/
  exists a, jpeg_decode_fixed nc cx cy cz r = Ok a /\ same_shape a nc cz cy cx.
Proof.
  destruct r as [|mode w h [|bands px]].
  - now left.
  - left. cbn [jpeg_decode_fixed]. destruct (_ && _); [reflexivity|]. destruct (_ && _); reflexivity.
  - apply jpeg_glue_on_guard. reflexivity.
Qed.
