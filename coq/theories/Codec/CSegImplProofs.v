(* (5) The package's own decoder (model CSegDecode.v) recovers the chunk from
   the encoder's output. *)
From Coq Require Import NArith ZArith List Bool Lia ZifyBool ZifyNat ZifyN.
From NGS Require Import Val Ints Words Arr4 CSegEncode CSegSpec CSegDecode WordsProofs Arr4Proofs
     CSegPackProofs CSegSortProofs CSegEncodeProofs CSegSpecProofs CSegDecodeProofs.
Import ListNotations.
Open Scope N_scope.

(* ---------- general list facts ---------- *)

Lemma all_same_repeat (l : list N) v : (forall x, In x l -> x = v) -> l = repeat v (length l).
Proof.
  induction l as [|a r IH]; intros H; [reflexivity|].
  cbn [length repeat]. rewrite (H a) by now left. f_equal. apply IH. intros x Hx. apply H. now right.
Qed.

Lemma Forall2_of_nthN {A B} (R : A -> B -> Prop) (l : list A) (l' : list B) d d' :
  lenN l = lenN l' -> (forall i, i < lenN l -> R (nthN l i d) (nthN l' i d')) -> Forall2 R l l'.
Proof.
  revert l'. induction l as [|a r IH]; intros [|b r'] Hl H.
  - constructor.
  - rewrite lenN_cons, lenN_nil in Hl. lia.
  - rewrite lenN_cons, lenN_nil in Hl. lia.
  - rewrite !lenN_cons in Hl. constructor.
    + specialize (H 0). rewrite !nthN_cons_0 in H. apply H. rewrite lenN_cons. lia.
    + apply IH; [lia|]. intros i Hi. specialize (H (i + 1)).
      rewrite !nthN_cons_pos in H by lia. replace (i + 1 - 1) with i in H by lia.
      apply H. rewrite lenN_cons. lia.
Qed.

Lemma exists_list {A} (P : N -> A -> Prop) (d : A) (n : nat) :
  (forall c, c < N.of_nat n -> exists v, P c v) ->
  exists l, length l = n /\ forall c, c < N.of_nat n -> P c (nthN l c d).
Proof.
  induction n as [|n IH]; intros H.
  - exists []. split; [reflexivity|]. intros c Hc. lia.
  - destruct IH as (l & Hl & Hp); [intros c Hc; apply H; lia|].
    destruct (H (N.of_nat n) ltac:(lia)) as (v & Hv).
    exists (l ++ [v]). split; [rewrite app_length; simpl; lia|].
    intros c Hc. destruct (N.lt_ge_cases c (N.of_nat n)) as [Hlt|Hge].
    + rewrite nthN_app1 by (unfold lenN; lia). now apply Hp.
    + assert (c = N.of_nat n) by lia. subst c.
      rewrite nthN_app2 by (unfold lenN; lia). unfold lenN. rewrite Hl, N.sub_diag. exact Hv.
Qed.

Lemma mapM_nseq_ok {B} (f : N -> outcome B) (d : B) n : forall s (l : list B),
  length l = n -> (forall i, (i < n)%nat -> f (s + N.of_nat i) = Ok (nth i l d)) ->
  mapM f (nseq s n) = Ok l.
Proof.
  induction n as [|n IH]; intros s l Hl H.
  - destruct l; [reflexivity|discriminate].
  - destruct l as [|b r]; [discriminate|]. cbn [nseq mapM].
    specialize (H 0%nat ltac:(lia)) as H0. rewrite N.add_0_r in H0. cbn [nth] in H0. rewrite H0.
    cbn [bind]. rewrite (IH (s + 1) r).
    + reflexivity.
    + simpl in Hl. lia.
    + intros i Hi. specialize (H (S i) ltac:(lia)). cbn [nth] in H. rewrite <- H. f_equal. lia.
Qed.

Lemma mapM_range_ok {B} (f : N -> outcome B) (d : B) n (l : list B) :
  lenN l = n -> (forall k, k < n -> f k = Ok (nthN l k d)) -> mapM f (range n) = Ok l.
Proof.
  intros Hl H. unfold range. apply mapM_nseq_ok with (d := d).
  - unfold lenN in Hl. lia.
  - intros i Hi. rewrite N.add_0_l. specialize (H (N.of_nat i) ltac:(lia)).
    unfold nthN in H. now rewrite Nat2N.id in H.
Qed.

Lemma items_of_nth n cnt (l : list N) i :
  (i < cnt)%nat -> nth i (items_of n cnt l) 0 = le_val (firstn n (skipn (i * n) l)).
Proof.
  revert l i. induction cnt as [|cnt IH]; intros l i Hi; [lia|].
  cbn [items_of]. destruct i; [reflexivity|].
  cbn [nth]. rewrite IH by lia. rewrite skipn_skipn'. reflexivity.
Qed.

(* ---------- reading the serialised words as the decoder does ---------- *)

Lemma zlen_words W : zlen (bytes_of_words W) = (4 * Z.of_N (lenN W))%Z.
Proof. unfold zlen, lenN. rewrite bytes_of_words_length. lia. Qed.

Lemma skipn_nth_cons' {A} (l : list A) n d :
  (n < length l)%nat -> skipn n l = nth n l d :: skipn (S n) l.
Proof.
  revert l. induction n; intros l H; destruct l; simpl in *; try lia; auto.
  apply IHn. lia.
Qed.

Lemma u32_at_words W i :
  w32 W -> i < lenN W -> u32_at (bytes_of_words W) (4 * Z.of_N i) = Z.of_N (nthN W i 0).
Proof.
  intros Hw Hi. unfold u32_at. f_equal.
  replace (Z.to_nat (4 * Z.of_N i)) with (4 * N.to_nat i)%nat by lia.
  rewrite skipn_bytes_of_words.
  rewrite (skipn_nth_cons' W (N.to_nat i) 0) by (unfold lenN in Hi; lia).
  fold (nthN W i 0).
  unfold bytes_of_words. cbn [flat_map]. rewrite firstn4_le32_app.
  apply le_val_le32. unfold w32 in Hw. rewrite Forall_forall in Hw. apply Hw.
  unfold nthN. apply nth_In. unfold lenN in Hi. lia.
Qed.

Lemma py_slice_words W (o n : N) :
  o + n <= lenN W ->
  py_slice (bytes_of_words W) (4 * Z.of_N o) (4 * Z.of_N (o + n)) = bytes_of_words (sub W o n).
Proof.
  intros H.
  replace (4 * Z.of_N o)%Z with (Z.of_N (4 * o)) by lia.
  replace (4 * Z.of_N (o + n))%Z with (Z.of_N (4 * (o + n))) by lia.
  rewrite py_slice_sub by (try rewrite bytes_of_words_lenN; lia).
  replace (4 * (o + n) - 4 * o) with (4 * n) by lia.
  apply sub_bytes_of_words.
Qed.

Lemma frombuffer4_words ws : w32 ws -> frombuffer 4 (bytes_of_words ws) = Ok ws.
Proof.
  intros Hw. unfold frombuffer. rewrite bytes_of_words_lenN.
  replace ((4 * lenN ws) mod 4) with 0 by (symmetry; rewrite N.mul_comm; apply N.mod_mul; lia).
  cbn [N.eqb]. f_equal.
  replace (N.to_nat (4 * lenN ws / 4)) with (length ws).
  - now apply items_of_words.
  - rewrite N.mul_comm, N.div_mul by lia. unfold lenN. lia.
Qed.

(* table entries read through np.frombuffer *)
Lemma sub_lut_words dt lut i :
  i < lenN lut -> sub (lut_words dt lut) (i * wpe dt) (wpe dt) = lut_words dt [nthN lut i 0].
Proof.
  intros Hi. assert (Hl := lut_words_length dt lut).
  destruct dt; cbn [wpe] in *.
  - cbn [lut_words]. apply nthN_ext.
    + rewrite sub_length by lia. reflexivity.
    + intros j Hj. rewrite sub_length in Hj by lia. rewrite sub_nth by lia.
      replace j with 0 by lia. rewrite N.mul_1_r, N.add_0_r. reflexivity.
  - destruct (lut_words_nth64 lut i Hi) as [E1 E2].
    apply nthN_ext.
    + rewrite sub_length by lia. reflexivity.
    + intros j Hj. rewrite sub_length in Hj by lia. rewrite sub_nth by lia.
      destruct (N.eq_dec j 0) as [->|Hne].
      * rewrite N.add_0_r, N.mul_comm, E1. reflexivity.
      * replace j with 1 by lia. rewrite N.mul_comm, E2. reflexivity.
Qed.

Lemma le_val_entry dt v :
  v < dt_bound dt -> le_val (bytes_of_words (lut_words dt [v])) = v.
Proof.
  intros Hv. destruct dt; cbn [lut_words flat_map app dt_bound] in *.
  - unfold bytes_of_words. cbn [flat_map]. rewrite app_nil_r. now apply le_val_le32.
  - unfold bytes_of_words. cbn [flat_map]. rewrite app_nil_r.
    rewrite le_val_app, le32_length.
    assert (H1 : v mod two32 < two32) by (apply N.mod_lt; rewrite two32_val; lia).
    assert (H2 : v / two32 < two32).
    { unfold two64 in Hv. rewrite two32_val. apply N.div_lt_upper_bound; [lia|].
      change (4294967296 * 4294967296) with (2 ^ 64). exact Hv. }
    rewrite !le_val_le32 by assumption.
    change (two8 ^ N.of_nat 4) with two32.
    assert (E := N.div_mod v two32 ltac:(rewrite two32_val; lia)). lia.
Qed.

(* ---------- the lookup table as np.frombuffer sees it ---------- *)

Lemma table_read dt Wc lo lut (P : Z) :
  seg Wc lo (lut_words dt lut) -> Forall (fun v => v < dt_bound dt) lut ->
  (Z.of_N (lenN lut) <= P)%Z ->
  exists table,
    frombuffer (itemsize dt)
      (py_slice (bytes_of_words Wc) (4 * Z.of_N lo)
         (4 * Z.of_N lo + Z.of_N (itemsize dt) *
            Z.min P ((4 * Z.of_N (lenN Wc) - 4 * Z.of_N lo) / Z.of_N (itemsize dt)))) = Ok table /\
    lenN lut <= lenN table /\
    forall i, i < lenN lut -> nthN table i 0 = nthN lut i 0.
Proof.
  intros Hseg Hb HP.
  assert (Hext := seg_extent _ _ _ Hseg). rewrite lut_words_length in Hext.
  set (L := lenN Wc) in *. set (n := lenN lut) in *.
  set (q := ((4 * Z.of_N L - 4 * Z.of_N lo) / Z.of_N (itemsize dt))%Z).
  set (nt := Z.to_N (Z.min P q)).
  assert (Hq : (Z.of_N n <= q)%Z /\ (Z.of_N (wpe dt) * q <= Z.of_N L - Z.of_N lo)%Z).
  { subst q. destruct dt; cbn [itemsize wpe] in *.
    - change (Z.of_N 4) with 4%Z. change (Z.of_N 1) with 1%Z.
      split.
      + apply Z.div_le_lower_bound; lia.
      + assert (H := Z.mul_div_le (4 * Z.of_N L - 4 * Z.of_N lo) 4 ltac:(lia)). lia.
    - change (Z.of_N 8) with 8%Z. change (Z.of_N 2) with 2%Z.
      split.
      + apply Z.div_le_lower_bound; lia.
      + assert (H := Z.mul_div_le (4 * Z.of_N L - 4 * Z.of_N lo) 8 ltac:(lia)). lia. }
  destruct Hq as [Hq1 Hq2].
  assert (Hnt : n <= nt /\ lo + wpe dt * nt <= L /\ Z.of_N nt = Z.min P q).
  { subst nt. split; [lia|]. split; [|lia]. nia. }
  destruct Hnt as (Hnt1 & Hnt2 & Hnt3). fold q. rewrite <- Hnt3.
  replace (4 * Z.of_N lo + Z.of_N (itemsize dt) * Z.of_N nt)%Z
    with (4 * Z.of_N (lo + wpe dt * nt))%Z by (destruct dt; cbn [itemsize wpe]; lia).
  rewrite py_slice_words by exact Hnt2.
  set (S := sub Wc lo (wpe dt * nt)).
  assert (HS : lenN S = wpe dt * nt) by (apply sub_length; exact Hnt2).
  unfold frombuffer. rewrite bytes_of_words_lenN, HS.
  assert (E4 : 4 * (wpe dt * nt) = itemsize dt * nt) by (destruct dt; cbn [itemsize wpe]; lia).
  rewrite E4.
  assert (Hi0 : itemsize dt <> 0) by (destruct dt; discriminate).
  replace ((itemsize dt * nt) mod itemsize dt) with 0
    by (symmetry; rewrite N.mul_comm; apply N.mod_mul; exact Hi0).
  cbn [N.eqb].
  replace (itemsize dt * nt / itemsize dt) with nt
    by (symmetry; rewrite N.mul_comm; apply N.div_mul; exact Hi0).
  eexists. split; [reflexivity|]. split.
  - unfold lenN. rewrite items_of_length. lia.
  - intros i Hi. unfold nthN at 1. rewrite items_of_nth by lia.
    assert (Es : firstn (N.to_nat (itemsize dt)) (skipn (N.to_nat i * N.to_nat (itemsize dt)) (bytes_of_words S))
                 = sub (bytes_of_words S) (4 * (i * wpe dt)) (4 * wpe dt)).
    { unfold sub. f_equal; [destruct dt; cbn [itemsize wpe]; lia|]. f_equal.
      destruct dt; cbn [itemsize wpe]; lia. }
    rewrite Es, sub_bytes_of_words.
    unfold S. rewrite sub_sub by nia.
    destruct Hseg as [_ Hsub]. rewrite lut_words_length in Hsub.
    assert (E2 : sub Wc (lo + i * wpe dt) (wpe dt) = sub (lut_words dt lut) (i * wpe dt) (wpe dt)).
    { rewrite <- Hsub at 1. fold n. rewrite sub_sub by nia. reflexivity. }
    rewrite E2, sub_lut_words by exact Hi.
    apply le_val_entry. rewrite Forall_forall in Hb. apply Hb. unfold nthN. apply nth_In.
    unfold n, lenN in Hi. lia.
Qed.

Lemma bits_ok_allowed bits : In bits allowed_bits -> bits_ok (Z.of_N bits) = true.
Proof.
  unfold allowed_bits. simpl. intros H.
  repeat (destruct H as [<-|H]; [reflexivity|]). destruct H.
Qed.

Lemma header_split lo bits :
  lo < two24 ->
  (Z.of_N (lo + bits * two24) mod 2 ^ 24 = Z.of_N lo)%Z /\
  (Z.of_N (lo + bits * two24) / 2 ^ 24 = Z.of_N bits)%Z.
Proof.
  intros Hlo. change (2 ^ 24)%Z with (Z.of_N two24).
  rewrite <- N2Z.inj_mod, <- N2Z.inj_div by (rewrite two24_val; lia).
  split; f_equal.
  - rewrite N.mod_add by (rewrite two24_val; lia). now apply N.mod_small.
  - rewrite N.div_add by (rewrite two24_val; lia). rewrite N.div_small by exact Hlo. lia.
Qed.

(* ---------- one block ---------- *)

Lemma decode_block_enc dt Wc vals k :
  w32 Wc -> 2 * k + 1 < lenN Wc -> vals <> [] ->
  Forall (fun v => v < dt_bound dt) vals -> blk_enc dt Wc k vals ->
  decode_block dt (bytes_of_words Wc) (lenN vals) k = Ok vals.
Proof.
  intros HW Hk Hne Hbound (lo & vo & bits & B1 & B2 & B3 & B4 & B5 & B6 & B7).
  set (lut := sort_dedup vals) in *.
  set (idxs := map (fun v => index_of v lut) vals) in *.
  destruct (nbits_spec _ _ B1) as [Hle Hallowed].
  unfold decode_block. rewrite zlen_words.
  destruct (Z.ltb_spec (4 * Z.of_N (lenN Wc)) (8 * Z.of_N k + 8)) as [Hbad|_]; [lia|].
  replace (8 * Z.of_N k)%Z with (4 * Z.of_N (2 * k))%Z by lia.
  replace (4 * Z.of_N (2 * k) + 4)%Z with (4 * Z.of_N (2 * k + 1))%Z by lia.
  rewrite !u32_at_words by (try assumption; lia).
  rewrite B2, B3.
  destruct (header_split lo bits B4) as [Em Ed]. rewrite Em, Ed.
  rewrite (bits_ok_allowed bits Hallowed). cbn [negb].
  assert (HP : (Z.of_N (lenN lut) <= 2 ^ Z.of_N bits)%Z).
  { change 2%Z with (Z.of_N 2). rewrite <- N2Z.inj_pow. lia. }
  destruct (table_read dt Wc lo lut (2 ^ Z.of_N bits)%Z B6 (sort_dedup_Forall _ _ Hbound) HP)
    as (table & Et & Htl & Htn).
  rewrite Et. cbn [bind].
  assert (Hlutne : lut <> []) by (apply sort_dedup_nonempty; exact Hne).
  assert (Hvin : forall v, In v vals -> In v lut) by (intros v Hv; now apply sort_dedup_In).
  destruct (Z.eqb_spec (Z.of_N bits) 0) as [Hz|Hnz].
  - (* 0 bits: a single label *)
    assert (bits = 0) by lia. subst bits.
    assert (Hl1 : lenN lut = 1).
    { simpl in Hle. destruct lut; [congruence|]. rewrite lenN_cons in *. lia. }
    destruct table as [|t0 trest]; [rewrite lenN_nil in Htl; lia|].
    f_equal. specialize (Htn 0 ltac:(lia)). rewrite nthN_cons_0 in Htn. subst t0.
    unfold lenN. rewrite Nat2N.id. symmetry. apply all_same_repeat.
    intros x Hx. apply Hvin in Hx.
    destruct lut as [|u r]; [congruence|]. rewrite lenN_cons in Hl1.
    destruct r; [|rewrite lenN_cons in Hl1; lia]. destruct Hx as [<-|[]]. reflexivity.
  - assert (Hnz' : bits <> 0) by lia.
    assert (Hpb : pos_bits bits).
    { unfold allowed_bits in Hallowed. simpl in Hallowed. unfold pos_bits.
      destruct Hallowed as [<-|Ha]; [congruence|].
      repeat (destruct Ha as [<-|Ha]; [auto 10|]). destruct Ha. }
    destruct (pos_bits_vpw bits Hpb) as (Hv & Hm & _).
    assert (Evpw : (32 / Z.of_N bits = Z.of_N (32 / bits))%Z).
    { change 32%Z with (Z.of_N 32). rewrite <- N2Z.inj_div. reflexivity. }
    rewrite Evpw.
    rewrite <- cdiv_py by exact Hv.
    assert (Hidx : Forall (fun i => i < 2 ^ bits) idxs) by (apply index_bound; exact B1).
    assert (Hpl : lenN (pack_values bits idxs) = cdiv (lenN vals) (32 / bits)).
    { rewrite pack_values_length by exact Hpb. unfold idxs. now rewrite lenN_map. }
    assert (Hvext := seg_extent _ _ _ B7). fold idxs in Hvext. rewrite Hpl in Hvext.
    set (np := cdiv (lenN vals) (32 / bits)) in *.
    destruct (Z.ltb_spec (4 * Z.of_N (lenN Wc)) (4 * Z.of_N vo + 4 * Z.of_N np)) as [Hbad|_]; [lia|].
    replace (4 * Z.of_N vo + 4 * Z.of_N np)%Z with (4 * Z.of_N (vo + np))%Z by lia.
    rewrite py_slice_words by exact Hvext.
    destruct B7 as [_ B7s]. fold idxs in B7s. rewrite Hpl in B7s. rewrite B7s.
    rewrite frombuffer4_words by (apply pack_values_bound; exact Hidx).
    cbn [bind]. rewrite N2Z.id.
    assert (Eun : unpack_values (pack_values bits idxs) bits (lenN vals) = idxs).
    { replace (lenN vals) with (lenN idxs) by (unfold idxs; apply lenN_map).
      apply unpack_pack; assumption. }
    rewrite Eun. unfold lookup_all.
    assert (Hfa : forallb (fun i => i <? lenN table) idxs = true).
    { apply forallb_forall. intros i Hi. unfold idxs in Hi. apply in_map_iff in Hi.
      destruct Hi as (v & <- & Hv'). destruct (index_of_spec v lut (Hvin v Hv')) as [Hlt _].
      apply N.ltb_lt. lia. }
    rewrite Hfa. f_equal. unfold idxs. rewrite map_map.
    rewrite <- (map_id vals) at 2. apply map_ext_in. intros v Hv'.
    destruct (index_of_spec v lut (Hvin v Hv')) as [Hlt Hnth].
    rewrite Htn by exact Hlt. exact Hnth.
Qed.

(* ---------- one channel ---------- *)

(* The decoder hands buf[offset:] to the channel loop: the channel's own words
   followed by whatever comes after them in the file. *)
Lemma blk_enc_app dt Wc tail k vals :
  2 * k + 1 < lenN Wc -> blk_enc dt Wc k vals -> blk_enc dt (Wc ++ tail) k vals.
Proof.
  intros Hk (lo & vo & bits & B1 & B2 & B3 & B4 & B5 & B6 & B7).
  exists lo, vo, bits.
  split; [exact B1|]. split; [rewrite nthN_app1 by lia; exact B2|].
  split; [rewrite nthN_app1 by lia; exact B3|]. split; [exact B4|]. split; [exact B5|].
  split; now apply seg_app_r.
Qed.

Lemma decode_channel_enc dt a g c Wc vl tail :
  g_bx g <> 0 -> g_by g <> 0 -> g_bz g <> 0 -> w32 tail ->
  chan_enc dt a g c Wc vl ->
  decode_channel dt (bytes_of_words (Wc ++ tail)) (g_bx g * g_by g * g_bz g)
                 (grid_x a g * grid_y a g * grid_z a g) = Ok vl.
Proof.
  intros Hbx Hby Hbz Htail Hce. unfold chan_enc in Hce. cbv zeta in Hce.
  destruct Hce as (HW & Hl & Hvl & Hblk & _).
  unfold decode_channel. apply mapM_range_ok with (d := []); [exact Hvl|].
  intros k Hk. destruct (Hblk k Hk) as (Hlen & Hbound & Hbe).
  replace (g_bx g * g_by g * g_bz g) with (lenN (nthN vl k [])) by (rewrite Hlen; lia).
  apply decode_block_enc; try assumption.
  - apply Forall_app. now split.
  - rewrite lenN_app. nia.
  - intros E. rewrite E, lenN_nil in Hlen. nia.
  - apply blk_enc_app; [nia|exact Hbe].
Qed.

(* ---------- the channel loop over the file ---------- *)

Lemma decode_channels_layout dt B nblk : forall rest pre vls,
  Forall2 (fun Wc vl => (forall tail, w32 tail ->
                           decode_channel dt (bytes_of_words (Wc ++ tail)) B nblk = Ok vl) /\
                        2 * nblk <= lenN Wc /\ w32 Wc)
          rest vls ->
  decode_channels dt (bytes_of_words (pre ++ concat rest)) B nblk
    (map (fun o => (4 * Z.of_N o)%Z) (offsets_from (lenN pre) rest)) = Ok vls.
Proof.
  induction rest as [|Wc r IH]; intros pre vls HF.
  - inversion HF. reflexivity.
  - inversion HF as [|? vl ? vls' (Hdec & Hlen & Hw) HF']; subst.
    cbn [offsets_from map decode_channels concat].
    rewrite zlen_words, !lenN_app.
    destruct (Z.ltb_spec (4 * Z.of_N (lenN pre + (lenN Wc + lenN (concat r))))
                         (4 * Z.of_N (lenN pre) + 8 * Z.of_N nblk)) as [Hbad|_]; [lia|].
    assert (Ecb : py_slice (bytes_of_words (pre ++ Wc ++ concat r)) (4 * Z.of_N (lenN pre))
                           (4 * Z.of_N (lenN pre + (lenN Wc + lenN (concat r))))
                  = bytes_of_words (Wc ++ concat r)).
    { rewrite py_slice_words by (rewrite !lenN_app; lia).
      rewrite sub_app2 by lia. rewrite N.sub_diag.
      rewrite <- lenN_app. now rewrite sub_all. }
    rewrite Ecb, Hdec. 2:{ apply w32_concat. clear - HF'. induction HF' as [|? ? ? ? (_ & _ & H) _ IH']; constructor; auto. }
    cbn [bind].
    specialize (IH (pre ++ Wc) vls' HF').
    rewrite <- app_assoc in IH. rewrite lenN_app in IH. rewrite IH. reflexivity.
Qed.

Lemma concat_len_ge (chans : list (list N)) m :
  (forall w, In w chans -> m <= lenN w) -> lenN chans * m <= lenN (concat chans).
Proof.
  induction chans as [|w r IH]; intros H; [unfold lenN; cbn [length concat]; lia|].
  cbn [concat]. rewrite lenN_cons, lenN_app.
  specialize (H w (or_introl eq_refl)) as Hw.
  specialize (IH (fun w' Hw' => H w' (or_intror Hw'))). nia.
Qed.

Lemma map_ext_range {A} (f f' : N -> A) n :
  (forall k, k < n -> f k = f' k) -> map f (range n) = map f' (range n).
Proof. intros H. apply map_ext_in. intros k Hk. apply H. now apply range_In. Qed.

Lemma list_map_range (l : list N) n : lenN l = n -> l = map (fun i => nthN l i 0) (range n).
Proof.
  intros Hl. apply nthN_ext.
  - rewrite lenN_map_range. exact Hl.
  - intros i Hi. rewrite nthN_map_range by lia. reflexivity.
Qed.

Lemma channel_offsets_words W C offs :
  w32 W -> lenN offs = C -> (forall c, c < C -> nthN W c 0 = nthN offs c 0) -> C <= lenN W ->
  channel_offsets (bytes_of_words W) C = map (fun o => (4 * Z.of_N o)%Z) offs.
Proof.
  intros HW Hl Hn HC. unfold channel_offsets.
  rewrite (list_map_range offs C Hl) at 1. rewrite map_map.
  apply map_ext_range. intros c Hc.
  rewrite u32_at_words by (try assumption; lia). now rewrite Hn.
Qed.

(* ---------- assembling the chunk ---------- *)

Lemma flat_map_ext_range {A} (f f' : N -> list A) n :
  (forall k, k < n -> f k = f' k) -> flat_map f (range n) = flat_map f' (range n).
Proof.
  intros H. assert (G : forall l, (forall k, In k l -> k < n) -> flat_map f l = flat_map f' l).
  { induction l as [|k l IH]; intros Hl; [reflexivity|]. cbn [flat_map].
    rewrite (H k) by (apply Hl; now left). f_equal. apply IH. intros k' Hk'. apply Hl. now right. }
  apply G. intros k Hk. now apply range_In.
Qed.

Lemma tab4_ext C Z Y X f f' :
  (forall c z y x, c < C -> z < Z -> y < Y -> x < X -> f c z y x = f' c z y x) ->
  tab4 C Z Y X f = tab4 C Z Y X f'.
Proof.
  intros H. unfold tab4. f_equal. unfold tab3.
  apply flat_map_ext_range. intros c Hc.
  apply flat_map_ext_range. intros z Hz.
  apply flat_map_ext_range. intros y Hy.
  apply map_ext_range. intros x Hx. now apply H.
Qed.

Lemma padded_voxel a g c z y x pad :
  g_bx g <> 0 -> g_by g <> 0 -> g_bz g <> 0 ->
  z < a_z a -> y < a_y a -> x < a_x a ->
  nthN (block_padded a g c (z / g_bz g) (y / g_by g) (x / g_bx g) pad)
       (x mod g_bx g + g_bx g * (y mod g_by g + g_by g * (z mod g_bz g))) 0
  = get4 a c z y x.
Proof.
  intros Hbx Hby Hbz Hz Hy Hx.
  assert (Ez := N.div_mod z _ Hbz). assert (Ey := N.div_mod y _ Hby). assert (Ex := N.div_mod x _ Hbx).
  assert (Lz := N.mod_lt z _ Hbz). assert (Ly := N.mod_lt y _ Hby). assert (Lx := N.mod_lt x _ Hbx).
  replace (x mod g_bx g + g_bx g * (y mod g_by g + g_by g * (z mod g_bz g)))
    with ((z mod g_bz g * g_by g + y mod g_by g) * g_bx g + x mod g_bx g) by lia.
  rewrite block_padded_nth; try assumption; try lia.
  f_equal; lia.
Qed.

(* ---------- (5) the round trip through the package's decoder ---------- *)

Theorem encode_impl_roundtrip dt nc g a buf :
  wf_arr (dt_bound dt) a -> cseg_encode dt nc g a = Ok buf ->
  cseg_decode dt nc g (a_x a) (a_y a) (a_z a) buf = Ok a.
Proof.
  intros Hwf E.
  destruct (cseg_encode_file_enc dt nc g a buf Hwf E) as (Hnc & Hbx & Hby & Hbz & W & chans & -> & Hf).
  destruct Hf as (EW & Hlen & HW & Hch). subst nc.
  set (nblk := grid_x a g * grid_y a g * grid_z a g).
  (* the decoded block lists, channel by channel *)
  destruct (exists_list (fun c vl => chan_enc dt a g c (nthN chans c []) vl) [] (N.to_nat (a_c a)))
    as (vls & Hvls_len & Hvls).
  { intros c Hc. apply Hch. lia. }
  assert (Hvls' : forall c, c < a_c a -> chan_enc dt a g c (nthN chans c []) (nthN vls c [])).
  { intros c Hc. apply Hvls. lia. }
  clear Hvls.
  unfold cseg_decode.
  destruct (N.eqb_spec (g_bx g) 0); [contradiction|].
  destruct (N.eqb_spec (g_by g) 0); [contradiction|].
  destruct (N.eqb_spec (g_bz g) 0); [contradiction|]. cbn [orb].
  change (cdiv (a_x a) (g_bx g) * cdiv (a_y a) (g_by g) * cdiv (a_z a) (g_bz g)) with nblk.
  assert (Hchl : forall w, In w chans -> 2 * nblk <= lenN w).
  { intros w Hin. destruct (In_nth _ _ [] Hin) as (i & Hi & <-).
    assert (Hc : N.of_nat i < a_c a) by (unfold lenN in Hlen; lia).
    specialize (Hvls' _ Hc). unfold chan_enc in Hvls'. cbv zeta in Hvls'.
    destruct Hvls' as (_ & Hl2 & _). unfold nthN in Hl2. rewrite Nat2N.id in Hl2. exact Hl2. }
  assert (Hcl := concat_len_ge chans (2 * nblk) Hchl).
  assert (HWl : lenN W = a_c a + lenN (concat chans)).
  { rewrite EW, lenN_app, offsets_from_length. lia. }
  rewrite zlen_words.
  destruct (Z.ltb_spec (4 * Z.of_N (lenN W)) (Z.of_N (a_c a * (4 + 8 * nblk)))) as [Hbad|_]; [nia|].
  rewrite (channel_offsets_words W (a_c a) (offsets_from (a_c a) chans)); try assumption.
  2:{ rewrite offsets_from_length. exact Hlen. }
  2:{ intros c Hc. rewrite EW. rewrite nthN_app1 by (rewrite offsets_from_length; lia). reflexivity. }
  2:{ lia. }
  assert (Edc : decode_channels dt (bytes_of_words W) (g_bx g * g_by g * g_bz g) nblk
                  (map (fun o => (4 * Z.of_N o)%Z) (offsets_from (a_c a) chans)) = Ok vls).
  { rewrite EW.
    replace (a_c a) with (lenN (offsets_from (a_c a) chans)) at 2 by (rewrite offsets_from_length; exact Hlen).
    apply decode_channels_layout.
    apply Forall2_of_nthN with (d := []) (d' := []).
    - unfold lenN at 2. rewrite Hvls_len. lia.
    - intros c Hc. rewrite Hlen in Hc. specialize (Hvls' c Hc). split.
      + intros tail Htail. apply (decode_channel_enc dt a g c); assumption.
      + unfold chan_enc in Hvls'. cbv zeta in Hvls'. destruct Hvls' as (Hw2 & Hl2 & _). split; assumption. }
  rewrite Edc. cbn [bind]. f_equal.
  transitivity (tab4 (a_c a) (a_z a) (a_y a) (a_x a) (get4 a));
    [|apply tab4_get4; destruct Hwf; assumption].
  unfold assemble. apply tab4_ext. intros c z y x Hc Hz Hy Hx.
  specialize (Hvls' c Hc). unfold chan_enc in Hvls'. cbv zeta in Hvls'.
  destruct Hvls' as (_ & _ & _ & _ & Hpad).
  assert (Hxb : x / g_bx g < grid_x a g) by (apply div_lt_cdiv; [lia|exact Hx]).
  assert (Hyb : y / g_by g < grid_y a g) by (apply div_lt_cdiv; [lia|exact Hy]).
  assert (Hzb : z / g_bz g < grid_z a g) by (apply div_lt_cdiv; [lia|exact Hz]).
  destruct (Hpad _ _ _ Hzb Hyb Hxb) as (pad & Epd).
  change (cdiv (a_x a) (g_bx g)) with (grid_x a g). change (cdiv (a_y a) (g_by g)) with (grid_y a g).
  rewrite Epd. now apply padded_voxel.
Qed.

(* ====================================================================== *)
(* Soundness of the package decoder on ARBITRARY bytes: whenever it accepts,
   every voxel it returns is the one the specification decoder reads.       *)
(* ====================================================================== *)

Ltac Zify.zify_post_hook ::= Z.to_euclidean_division_equations.

(* ---------- reading through rd32 / u32_at / frombuffer is le_val of a slice ---------- *)

Lemma sub_len_exact (l : list N) off n : off + n <= lenN l -> length (sub l off n) = N.to_nat n.
Proof. intros H. assert (E := sub_length l off n H). unfold lenN in E. lia. Qed.

Lemma rd32_le_val buf off :
  off + 4 <= lenN buf -> rd32 buf off = Some (le_val (sub buf off 4)).
Proof.
  intros H. assert (L := sub_len_exact buf off 4 H).
  unfold rd32. unfold sub in *. change (N.to_nat 4) with 4%nat in *.
  destruct (firstn 4 (skipn (N.to_nat off) buf)) as [|a [|b [|c [|d [|e r]]]]]; try discriminate.
  f_equal. cbn [le_val]. rewrite two8_val. lia.
Qed.

Lemma rd32_none_short buf off : rd32 buf off <> None -> off + 4 <= lenN buf.
Proof.
  unfold rd32. intros H.
  destruct (firstn 4 (skipn (N.to_nat off) buf)) as [|a [|b [|c [|d [|e r]]]]] eqn:E; try congruence.
  assert (L : length (firstn 4 (skipn (N.to_nat off) buf)) = 4%nat) by (rewrite E; reflexivity).
  rewrite firstn_length, skipn_length in L. unfold lenN. lia.
Qed.

Lemma u32_at_le_val buf off : u32_at buf (Z.of_N off) = Z.of_N (le_val (sub buf off 4)).
Proof. unfold u32_at, sub. do 4 f_equal. lia. Qed.

Lemma rd32_skipn buf b o : rd32 (skipn (N.to_nat b) buf) o = rd32 buf (b + o).
Proof.
  unfold rd32. rewrite skipn_skipn'. replace (N.to_nat b + N.to_nat o)%nat with (N.to_nat (b + o)) by lia.
  reflexivity.
Qed.

Lemma firstn_add {A} n m (l : list A) : firstn (n + m) l = firstn n l ++ firstn m (skipn n l).
Proof.
  revert l. induction n; intros l; [reflexivity|]. destruct l; simpl.
  - now rewrite firstn_nil.
  - f_equal. apply IHn.
Qed.

Lemma sub_split (l : list N) o n m : sub l o (n + m) = sub l o n ++ sub l (o + n) m.
Proof.
  unfold sub. replace (N.to_nat (n + m)) with (N.to_nat n + N.to_nat m)%nat by lia.
  rewrite firstn_add, skipn_skipn'. do 3 f_equal. lia.
Qed.

Lemma frombuffer_items isz l table :
  isz <> 0 -> frombuffer isz l = Ok table ->
  lenN table = lenN l / isz /\
  forall i, i < lenN table -> nthN table i 0 = le_val (sub l (i * isz) isz).
Proof.
  intros Hi. unfold frombuffer. destruct (lenN l mod isz =? 0); [|discriminate].
  intros E. inversion E; subst table. split.
  - unfold lenN at 1. rewrite items_of_length. lia.
  - intros i Hlt. unfold lenN in Hlt at 1. rewrite items_of_length in Hlt.
    unfold nthN. rewrite items_of_nth by lia. unfold sub. do 3 f_equal. lia.
Qed.

(* Python slice with a non-negative start is a [sub] that lies inside the list *)
Lemma py_slice_as_sub (l : list N) s e :
  (0 <= s)%Z -> exists m, py_slice l s e = sub l (Z.to_N s) m /\ (m = 0 \/ Z.to_N s + m <= lenN l).
Proof.
  intros Hs. unfold py_slice.
  assert (H1 := py_norm_range (Z.of_nat (length l)) s ltac:(lia)).
  assert (H2 := py_norm_range (Z.of_nat (length l)) e ltac:(lia)).
  set (a := py_norm (Z.of_nat (length l)) s) in *. set (b := py_norm (Z.of_nat (length l)) e) in *.
  destruct (Z.leb_spec b a).
  - exists 0. split; [reflexivity|now left].
  - assert (Ea0 : a = Z.min s (Z.of_nat (length l))).
    { subst a. unfold py_norm. destruct (Z.ltb_spec s 0); lia. }
    assert (Ea : a = s) by lia.
    exists (Z.to_N (b - a)). split.
    + unfold sub. f_equal; [lia|]. f_equal. lia.
    + right. unfold lenN. lia.
Qed.

(* items read by np.frombuffer from buf[s:e] are the items of buf at s, s+isz, ... *)
Lemma slice_items isz (l : list N) s e table :
  isz <> 0 -> (0 <= s)%Z -> frombuffer isz (py_slice l s e) = Ok table ->
  forall i, i < lenN table ->
    Z.to_N s + (i + 1) * isz <= lenN l /\
    nthN table i 0 = le_val (sub l (Z.to_N s + i * isz) isz).
Proof.
  intros Hi Hs E i Hlt.
  destruct (py_slice_as_sub l s e Hs) as (m & Em & Hm). rewrite Em in E.
  destruct (frombuffer_items isz _ table Hi E) as [Hlen Hnth].
  destruct Hm as [->|Hm].
  - unfold sub in Hlen. change (N.to_nat 0) with 0%nat in Hlen. cbn [firstn] in Hlen.
    change (lenN (@nil N)) with 0 in Hlen. rewrite N.div_0_l in Hlen by exact Hi. lia.
  - rewrite sub_length in Hlen by exact Hm.
    assert (Hq : (i + 1) * isz <= m).
    { assert (Hd := N.mul_div_le m isz Hi). nia. }
    split; [lia|]. rewrite Hnth by exact Hlt. rewrite sub_sub by lia. reflexivity.
Qed.

(* the specification's table entry is le_val of the item's bytes *)
Lemma spec_entry_le_val dt buf tb idx :
  tb + (idx + 1) * itemsize dt <= lenN buf ->
  spec_entry dt buf tb idx = Some (le_val (sub buf (tb + idx * itemsize dt) (itemsize dt))).
Proof.
  intros H. unfold spec_entry. destruct dt; cbn [itemsize] in *.
  - rewrite rd32_le_val by lia. do 3 f_equal. lia.
  - rewrite !rd32_le_val by lia.
    replace (tb + idx * 8) with (tb + 8 * idx) by lia.
    assert (E8 : sub buf (tb + 8 * idx) 8
                 = sub buf (tb + 8 * idx) 4 ++ sub buf (tb + 8 * idx + 4) 4)
      by exact (sub_split buf (tb + 8 * idx) 4 4).
    rewrite E8, le_val_app.
    rewrite sub_len_exact by lia. change (two8 ^ N.of_nat (N.to_nat 4)) with (2 ^ 32). reflexivity.
Qed.

(* ---------- flat_map over an arbitrary list with blocks of uniform length ---------- *)

Lemma lenN_flat_map_list {A B} (g : A -> list B) m (l : list A) :
  (forall w, lenN (g w) = m) -> lenN (flat_map g l) = lenN l * m.
Proof.
  intros H. induction l as [|w r IH]; [reflexivity|].
  cbn [flat_map]. rewrite lenN_app, IH, H, lenN_cons. lia.
Qed.

Lemma nthN_flat_map_list {A B} (g : A -> list B) m (l : list A) i j d0 d :
  (forall w, lenN (g w) = m) -> i < lenN l -> j < m ->
  nthN (flat_map g l) (i * m + j) d = nthN (g (nthN l i d0)) j d.
Proof.
  intros H. revert i. induction l as [|w r IH]; intros i Hi Hj; [rewrite lenN_nil in Hi; lia|].
  cbn [flat_map]. rewrite lenN_cons in Hi.
  destruct (N.eq_dec i 0) as [->|Hne].
  - rewrite nthN_cons_0. rewrite nthN_app1 by (rewrite H; lia). f_equal; lia.
  - rewrite nthN_cons_pos by lia. rewrite nthN_app2 by (rewrite H; nia).
    rewrite H. replace (i * m + j - m) with ((i - 1) * m + j) by nia. apply IH; lia.
Qed.

Lemma unpack_values_nth packed bits B p :
  pos_bits bits -> p < B -> p / (32 / bits) < lenN packed ->
  nthN (unpack_values packed bits B) p 0
  = digit bits (p mod (32 / bits)) (nthN packed (p / (32 / bits)) 0).
Proof.
  intros Hpb Hp Hk. destruct (pos_bits_vpw bits Hpb) as (Hv & _ & _).
  unfold unpack_values. set (vpw := 32 / bits) in *.
  unfold nthN at 1. rewrite nth_firstn' by lia.
  change (nth (N.to_nat p) ?l 0) with (nthN l p 0).
  assert (E := N.div_mod p vpw ltac:(lia)). assert (L := N.mod_lt p vpw ltac:(lia)).
  set (q := p / vpw) in *. set (r := p mod vpw) in *. clearbody q r.
  replace p with (q * vpw + r) by lia.
  rewrite (nthN_flat_map_list _ vpw packed q r 0 0); try assumption.
  - rewrite nthN_map_range by exact L. reflexivity.
  - intros w. apply lenN_map_range.
Qed.

Lemma unpack_values_length packed bits B :
  pos_bits bits -> B <= lenN packed * (32 / bits) -> lenN (unpack_values packed bits B) = B.
Proof.
  intros Hpb H. unfold unpack_values, lenN at 1. rewrite firstn_length.
  assert (E : lenN (flat_map (fun w => map (fun s => (w / 2 ^ (s * bits)) mod 2 ^ bits) (range (32 / bits))) packed)
              = lenN packed * (32 / bits)).
  { apply lenN_flat_map_list. intros w. apply lenN_map_range. }
  unfold lenN in E at 1. unfold lenN in *. lia.
Qed.

Lemma nth_repeat_lt {A} (a d : A) n i : (i < n)%nat -> nth i (repeat a n) d = a.
Proof. revert i. induction n; intros i H; [lia|]. destruct i; simpl; auto. apply IHn. lia. Qed.

Lemma bits_ok_In b : bits_ok (Z.of_N b) = true -> In b allowed_bits.
Proof.
  unfold bits_ok, allowed_bits. intros H. simpl.
  repeat (apply orb_prop in H; destruct H as [H|H]);
    apply Z.eqb_eq in H;
    [ left | right; left | do 2 right; left | do 3 right; left | do 4 right; left
    | do 5 right; left | do 6 right; left ]; lia.
Qed.

(* ---------- the specification read relative to a channel buffer ---------- *)

Definition block_spec (dt : dtype) (cbuf : list N) (k p : N) : option N :=
  match rd32 cbuf (8 * k), rd32 cbuf (8 * k + 4) with
  | Some w0, Some w1 =>
      let lut := w0 mod 2 ^ 24 in
      let bits := w0 / 2 ^ 24 in
      if negb (bits_allowed bits) then None else
      match spec_index cbuf (4 * w1) bits p with
      | None => None
      | Some idx => spec_entry dt cbuf (4 * lut) idx
      end
  | _, _ => None
  end.

(* whenever a block iteration of the decoder succeeds, each of its B values is
   what the specification reads for that position *)
Lemma decode_block_sound dt cbuf B k vals :
  decode_block dt cbuf B k = Ok vals ->
  forall p, p < B -> block_spec dt cbuf k p = Some (nthN vals p 0).
Proof.
  unfold decode_block.
  destruct (Z.ltb_spec (zlen cbuf) (8 * Z.of_N k + 8)) as [|Hhdr]; [discriminate|].
  rewrite <- lenN_zlen in Hhdr.
  replace (8 * Z.of_N k)%Z with (Z.of_N (8 * k)) by lia.
  replace (Z.of_N (8 * k) + 4)%Z with (Z.of_N (8 * k + 4)) by lia.
  rewrite !u32_at_le_val.
  set (w0 := le_val (sub cbuf (8 * k) 4)). set (w1 := le_val (sub cbuf (8 * k + 4) 4)).
  change (2 ^ 24)%Z with (Z.of_N two24).
  rewrite <- N2Z.inj_mod, <- N2Z.inj_div by (rewrite two24_val; lia).
  set (lut := w0 mod two24). set (bits := w0 / two24).
  destruct (bits_ok (Z.of_N bits)) eqn:Hbok; [|discriminate]. cbn [negb].
  assert (Hall := bits_ok_In bits Hbok).
  replace (4 * Z.of_N lut)%Z with (Z.of_N (4 * lut)) by lia.
  destruct (frombuffer (itemsize dt) _) as [table| | | | | |] eqn:Etab; try discriminate. cbn [bind].
  assert (Hisz : itemsize dt <> 0) by (destruct dt; discriminate).
  assert (Htab := slice_items (itemsize dt) cbuf (Z.of_N (4 * lut)) _ table Hisz (N2Z.is_nonneg _) Etab).
  rewrite N2Z.id in Htab.
  (* the two header words as the specification reads them *)
  assert (R0 : rd32 cbuf (8 * k) = Some w0) by (apply rd32_le_val; lia).
  assert (R1 : rd32 cbuf (8 * k + 4) = Some w1) by (apply rd32_le_val; lia).
  assert (Hspec : forall p idx,
            spec_index cbuf (4 * w1) bits p = Some idx -> idx < lenN table ->
            block_spec dt cbuf k p = Some (nthN table idx 0)).
  { intros p idx Hsi Hidx. unfold block_spec. rewrite R0, R1. cbv zeta.
    change (2 ^ 24) with two24. fold lut bits.
    rewrite (bits_allowed_In bits Hall). cbn [negb]. rewrite Hsi.
    destruct (Htab idx Hidx) as [Hext Hv]. rewrite spec_entry_le_val by lia. now rewrite Hv. }
  destruct (Z.eqb_spec (Z.of_N bits) 0) as [Hz|Hnz].
  - (* 0 bits *)
    destruct table as [|v trest]; [discriminate|]. intros E p Hp. inversion E; subst vals.
    rewrite (Hspec p 0).
    + rewrite nthN_cons_0. unfold nthN. rewrite nth_repeat_lt by lia. reflexivity.
    + unfold spec_index. replace bits with 0 by lia. reflexivity.
    + rewrite lenN_cons. lia.
  - assert (Hnz' : bits <> 0) by lia.
    assert (Hpb : pos_bits bits) by (apply allowed_pos_bits; assumption).
    destruct (pos_bits_vpw bits Hpb) as (Hv & Hm & _).
    assert (Evpw : (32 / Z.of_N bits = Z.of_N (32 / bits))%Z).
    { change 32%Z with (Z.of_N 32). rewrite <- N2Z.inj_div. reflexivity. }
    rewrite Evpw. rewrite <- cdiv_py by exact Hv.
    set (vpw := 32 / bits) in *. set (np := cdiv B vpw).
    replace (4 * Z.of_N w1 + 4 * Z.of_N np)%Z with (Z.of_N (4 * w1 + 4 * np)) by lia.
    replace (4 * Z.of_N w1)%Z with (Z.of_N (4 * w1)) by lia.
    destruct (Z.ltb_spec (zlen cbuf) (Z.of_N (4 * w1 + 4 * np))) as [|Hvend]; [discriminate|].
    rewrite <- lenN_zlen in Hvend.
    rewrite py_slice_sub by lia. replace (4 * w1 + 4 * np - 4 * w1) with (4 * np) by lia.
    destruct (frombuffer 4 _) as [packed| | | | | |] eqn:Epk; try discriminate. cbn [bind].
    destruct (frombuffer_items 4 _ packed ltac:(lia) Epk) as [Hpl Hpn].
    rewrite sub_length in Hpl by lia.
    replace (4 * np / 4) with np in Hpl by (rewrite N.mul_comm, N.div_mul; lia).
    rewrite N2Z.id.
    unfold lookup_all.
    destruct (forallb _ _) eqn:Hfa; [|discriminate].
    intros E p Hp. inversion E; subst vals. clear E.
    assert (HB : B <= lenN packed * vpw) by (rewrite Hpl; apply cdiv_le; exact Hv).
    assert (Hul := unpack_values_length packed bits B Hpb HB).
    rewrite nthN_map with (d := 0) by lia.
    assert (Hj : p / vpw < lenN packed) by (rewrite Hpl; apply div_lt_cdiv; assumption).
    assert (Hun := unpack_values_nth packed bits B p Hpb Hp Hj). fold vpw in Hun.
    assert (Hin : nthN (unpack_values packed bits B) p 0 < lenN table).
    { rewrite forallb_forall in Hfa. apply N.ltb_lt. apply Hfa. unfold nthN. apply nth_In.
      unfold lenN in Hul. lia. }
    apply Hspec; [|exact Hin].
    rewrite Hun. unfold spec_index.
    destruct (N.eqb_spec bits 0); [contradiction|].
    destruct (bitpos_split bits p Hpb) as [E1 E2]. fold vpw in E1, E2. rewrite E1, E2.
    set (j := p / vpw) in *. set (sh := p mod vpw) in *. clearbody j sh.
    rewrite rd32_le_val by lia.
    rewrite (Hpn j Hj). rewrite sub_sub by lia.
    replace (4 * w1 + j * 4) with (4 * w1 + 4 * j) by lia. reflexivity.
Qed.

(* ---------- from blocks to channels to the file ---------- *)

Lemma mapM_nseq_inv {B} (f : N -> outcome B) (d : B) n : forall s (l : list B),
  mapM f (nseq s n) = Ok l ->
  length l = n /\ forall i, (i < n)%nat -> f (s + N.of_nat i) = Ok (nth i l d).
Proof.
  induction n as [|n IH]; intros s l E.
  - cbn [nseq mapM] in E. inversion E. split; [reflexivity|]. intros i Hi. lia.
  - cbn [nseq mapM] in E. destruct (f s) as [b| | | | | |] eqn:Ef; try discriminate. cbn [bind] in E.
    destruct (mapM f (nseq (s + 1) n)) as [r| | | | | |] eqn:Er; try discriminate. cbn [bind] in E.
    inversion E; subst l. destruct (IH _ _ Er) as [Hl Hn]. split; [simpl; lia|].
    intros i Hi. destruct i.
    + rewrite N.add_0_r. exact Ef.
    + cbn [nth]. rewrite <- Hn by lia. f_equal. lia.
Qed.

Lemma mapM_range_inv {B} (f : N -> outcome B) (d : B) n (l : list B) :
  mapM f (range n) = Ok l -> lenN l = n /\ forall k, k < n -> f k = Ok (nthN l k d).
Proof.
  unfold range. intros E. destruct (mapM_nseq_inv f d _ _ _ E) as [Hl Hn].
  split; [unfold lenN; lia|]. intros k Hk. specialize (Hn (N.to_nat k) ltac:(lia)).
  rewrite N.add_0_l, N2Nat.id in Hn. exact Hn.
Qed.

Lemma decode_channels_inv dt buf B nblk offs : forall chans,
  decode_channels dt buf B nblk offs = Ok chans ->
  length chans = length offs /\
  forall c, (c < length offs)%nat ->
    (nth c offs 0%Z + 8 * Z.of_N nblk <= zlen buf)%Z /\
    decode_channel dt (py_slice buf (nth c offs 0%Z) (zlen buf)) B nblk = Ok (nth c chans []).
Proof.
  induction offs as [|off rest IH]; intros chans E.
  - cbn [decode_channels] in E. inversion E. split; [reflexivity|]. intros c Hc. simpl in Hc. lia.
  - cbn [decode_channels] in E.
    destruct (Z.ltb_spec (zlen buf) (off + 8 * Z.of_N nblk)) as [|Hlen]; [discriminate|].
    destruct (decode_channel dt _ B nblk) as [blocks| | | | | |] eqn:Ec; try discriminate. cbn [bind] in E.
    destruct (decode_channels dt buf B nblk rest) as [more| | | | | |] eqn:Er; try discriminate.
    cbn [bind] in E. inversion E; subst chans. destruct (IH _ eq_refl) as [Hl Hn].
    split; [simpl; lia|]. intros c Hc. destruct c.
    + cbn [nth]. split; [lia|exact Ec].
    + cbn [nth]. apply Hn. simpl in Hc. lia.
Qed.

Lemma py_slice_tail (l : list N) (o : N) :
  o <= lenN l -> py_slice l (Z.of_N o) (zlen l) = skipn (N.to_nat o) l.
Proof.
  intros H. rewrite <- lenN_zlen. rewrite py_slice_sub by lia.
  unfold sub. apply firstn_all2. rewrite skipn_length. unfold lenN. lia.
Qed.

Lemma spec_index_skipn buf b vb bits p :
  spec_index (skipn (N.to_nat b) buf) vb bits p = spec_index buf (b + vb) bits p.
Proof.
  unfold spec_index. destruct (bits =? 0); [reflexivity|].
  rewrite rd32_skipn. now rewrite N.add_assoc.
Qed.

Lemma spec_entry_skipn dt buf b tb idx :
  spec_entry dt (skipn (N.to_nat b) buf) tb idx = spec_entry dt buf (b + tb) idx.
Proof.
  unfold spec_entry. destruct dt; rewrite !rd32_skipn; now rewrite !N.add_assoc.
Qed.

(* the specification's voxel = its block-relative reading in buf[4*coff:] *)
Lemma spec_value_block dt buf Y X bx by_ bz c z y x coff :
  bx <> 0 -> by_ <> 0 -> bz <> 0 -> rd32 buf (4 * c) = Some coff ->
  spec_value dt buf Y X bx by_ bz c z y x
  = block_spec dt (skipn (N.to_nat (4 * coff)) buf)
      (x / bx + cdiv X bx * (y / by_ + cdiv Y by_ * (z / bz)))
      (x mod bx + bx * (y mod by_ + by_ * (z mod bz))).
Proof.
  intros Hx Hy Hz Hc. unfold spec_value, block_spec.
  destruct (N.eqb_spec bx 0); [contradiction|].
  destruct (N.eqb_spec by_ 0); [contradiction|].
  destruct (N.eqb_spec bz 0); [contradiction|]. cbn [orb].
  rewrite Hc. rewrite !ceil_quot_cdiv by assumption.
  set (k := x / bx + cdiv X bx * (y / by_ + cdiv Y by_ * (z / bz))).
  set (p := x mod bx + bx * (y mod by_ + by_ * (z mod bz))).
  rewrite !rd32_skipn. rewrite N.add_assoc.
  destruct (rd32 buf (4 * coff + 8 * k)) as [w0|]; [|reflexivity].
  destruct (rd32 buf (4 * coff + 8 * k + 4)) as [w1|]; [|reflexivity].
  destruct (negb (bits_allowed (w0 / 2 ^ 24))); [reflexivity|].
  rewrite spec_index_skipn.
  destruct (spec_index buf (4 * coff + 4 * w1) (w0 / 2 ^ 24) p); [|reflexivity].
  now rewrite spec_entry_skipn.
Qed.

(* ---------- the package decoder is sound w.r.t. the specification ---------- *)

Theorem cseg_decode_sound dt nc g cx cy cz buf a :
  cseg_decode dt nc g cx cy cz buf = Ok a ->
  forall c z y x, c < nc -> z < cz -> y < cy -> x < cx ->
    spec_value dt buf cy cx (g_bx g) (g_by g) (g_bz g) c z y x = Some (get4 a c z y x).
Proof.
  unfold cseg_decode.
  destruct (N.eqb_spec (g_bx g) 0) as [|Hbx]; [discriminate|].
  destruct (N.eqb_spec (g_by g) 0) as [|Hby]; [discriminate|].
  destruct (N.eqb_spec (g_bz g) 0) as [|Hbz]; [discriminate|]. cbn [orb].
  set (nblk := (cdiv cx (g_bx g) * cdiv cy (g_by g) * cdiv cz (g_bz g))%N).
  set (B := (g_bx g * g_by g * g_bz g)%N).
  destruct (Z.ltb_spec (zlen buf) (Z.of_N (nc * (4 + 8 * nblk)))) as [|Hlen]; [discriminate|].
  destruct (decode_channels dt buf B nblk (channel_offsets buf nc)) as [chans| | | | | |] eqn:Edc;
    try discriminate. cbn [bind].
  intros E c z y x Hc Hz Hy Hx. inversion E; subst a; clear E.
  unfold assemble. rewrite get4_tab4 by assumption.
  rewrite <- lenN_zlen in Hlen.
  (* channel c *)
  destruct (decode_channels_inv _ _ _ _ _ _ Edc) as [Hcl Hcn].
  assert (Hol : length (channel_offsets buf nc) = N.to_nat nc).
  { unfold channel_offsets. rewrite map_length. unfold range. apply nseq_length. }
  destruct (Hcn (N.to_nat c) ltac:(lia)) as [Hoff Hdc].
  assert (Eoff : nth (N.to_nat c) (channel_offsets buf nc) 0%Z
                 = (4 * u32_at buf (4 * Z.of_N c))%Z).
  { change (nth (N.to_nat c) (channel_offsets buf nc) 0%Z) with (nthN (channel_offsets buf nc) c 0%Z).
    unfold channel_offsets. rewrite nthN_map with (d := 0) by (rewrite range_length; exact Hc).
    now rewrite range_nth. }
  rewrite Eoff in Hoff, Hdc. clear Eoff.
  replace (4 * Z.of_N c)%Z with (Z.of_N (4 * c)) in Hoff, Hdc by lia.
  rewrite u32_at_le_val in Hoff, Hdc.
  set (coff := le_val (sub buf (4 * c) 4)) in *.
  assert (Rc : rd32 buf (4 * c) = Some coff) by (apply rd32_le_val; nia).
  replace (4 * Z.of_N coff)%Z with (Z.of_N (4 * coff)) in Hoff, Hdc by lia.
  rewrite <- lenN_zlen in Hoff.
  rewrite py_slice_tail in Hdc by lia.
  fold (nthN chans c []) in Hdc.
  (* block k *)
  unfold decode_channel in Hdc.
  destruct (mapM_range_inv _ [] _ _ Hdc) as [Hbl Hbn].
  assert (Hxb : x / g_bx g < cdiv cx (g_bx g)) by (apply div_lt_cdiv; [lia|exact Hx]).
  assert (Hyb : y / g_by g < cdiv cy (g_by g)) by (apply div_lt_cdiv; [lia|exact Hy]).
  assert (Hzb : z / g_bz g < cdiv cz (g_bz g)) by (apply div_lt_cdiv; [lia|exact Hz]).
  assert (Hk := grid_index_lt _ _ _ _ _ _ Hxb Hyb Hzb). fold nblk in Hk.
  specialize (Hbn _ Hk).
  assert (Lz := N.mod_lt z _ Hbz). assert (Ly := N.mod_lt y _ Hby). assert (Lx := N.mod_lt x _ Hbx).
  assert (Hp : x mod g_bx g + g_bx g * (y mod g_by g + g_by g * (z mod g_bz g)) < B).
  { subst B. set (xm := x mod g_bx g) in *. set (ym := y mod g_by g) in *. set (zm := z mod g_bz g) in *.
    clearbody xm ym zm. assert (ym + g_by g * zm + 1 <= g_by g * g_bz g) by nia. nia. }
  rewrite (spec_value_block dt buf cy cx _ _ _ c z y x coff Hbx Hby Hbz Rc).
  apply (decode_block_sound dt _ B _ _ Hbn _ Hp).
Qed.
