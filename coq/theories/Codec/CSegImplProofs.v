(* (5) The package's own decoder (model CSegDecode.v) recovers the chunk from
   the encoder's output. *)
From Coq Require Import NArith ZArith List Bool Lia ZifyBool ZifyNat ZifyN.
From NGS Require Import Val Ints Words Arr4 CSegEncode CSegDecode WordsProofs Arr4Proofs
     CSegPackProofs CSegSortProofs CSegEncodeProofs CSegDecodeProofs.
Import ListNotations.
Open Scope N_scope.

(* ---------- general list facts ---------- *)

Lemma all_same_repeat (l : list N) v : (forall x, In x l -> x = v) -> l = repeat v (length l).
Proof.
  induction l as [|a r IH]; intros H; [reflexivity|].
  cbn [length repeat]. rewrite (H a) by now left. f_equal. apply IH. intros x Hx. apply H. now right.
Qed.

Lemma Forall2_of_nthN {A B} (R : A -> B -> Prop) (l : list A) (l' : list B) d d' :
  lenN l = lenN l' -> (forall i, i < lenN l -> R (nthN l i d) (nthN l' i d')) -> Forall2 R l l'.
Proof.
  revert l'. induction l as [|a r IH]; intros [|b r'] Hl H.
  - constructor.
  - rewrite lenN_cons, lenN_nil in Hl. lia.
  - rewrite lenN_cons, lenN_nil in Hl. lia.
  - rewrite !lenN_cons in Hl. constructor.
    + specialize (H 0). rewrite !nthN_cons_0 in H. apply H. rewrite lenN_cons. lia.
    + apply IH; [lia|]. intros i Hi. specialize (H (i + 1)).
      rewrite !nthN_cons_pos in H by lia. replace (i + 1 - 1) with i in H by lia.
      apply H. rewrite lenN_cons. lia.
Qed.

Lemma exists_list {A} (P : N -> A -> Prop) (d : A) (n : nat) :
  (forall c, c < N.of_nat n -> exists v, P c v) ->
  exists l, length l = n /\ forall c, c < N.of_nat n -> P c (nthN l c d).
Proof.
  induction n as [|n IH]; intros H.
  - exists []. split; [reflexivity|]. intros c Hc. lia.
  - destruct IH as (l & Hl & Hp); [intros c Hc; apply H; lia|].
    destruct (H (N.of_nat n) ltac:(lia)) as (v & Hv).
    exists (l ++ [v]). split; [rewrite app_length; simpl; lia|].
    intros c Hc. destruct (N.lt_ge_cases c (N.of_nat n)) as [Hlt|Hge].
    + rewrite nthN_app1 by (unfold lenN; lia). now apply Hp.
    + assert (c = N.of_nat n) by lia. subst c.
      rewrite nthN_app2 by (unfold lenN; lia). unfold lenN. rewrite Hl, N.sub_diag. exact Hv.
Qed.

Lemma mapM_nseq_ok {B} (f : N -> outcome B) (d : B) n : forall s (l : list B),
  length l = n -> (forall i, (i < n)%nat -> f (s + N.of_nat i) = Ok (nth i l d)) ->
  mapM f (nseq s n) = Ok l.
Proof.
  induction n as [|n IH]; intros s l Hl H.
  - destruct l; [reflexivity|discriminate].
  - destruct l as [|b r]; [discriminate|]. cbn [nseq mapM].
    specialize (H 0%nat ltac:(lia)) as H0. rewrite N.add_0_r in H0. cbn [nth] in H0. rewrite H0.
    cbn [bind]. rewrite (IH (s + 1) r).
    + reflexivity.
    + simpl in Hl. lia.
    + intros i Hi. specialize (H (S i) ltac:(lia)). cbn [nth] in H. rewrite <- H. f_equal. lia.
Qed.

Lemma mapM_range_ok {B} (f : N -> outcome B) (d : B) n (l : list B) :
  lenN l = n -> (forall k, k < n -> f k = Ok (nthN l k d)) -> mapM f (range n) = Ok l.
Proof.
  intros Hl H. unfold range. apply mapM_nseq_ok with (d := d).
  - unfold lenN in Hl. lia.
  - intros i Hi. rewrite N.add_0_l. specialize (H (N.of_nat i) ltac:(lia)).
    unfold nthN in H. now rewrite Nat2N.id in H.
Qed.

Lemma items_of_nth n cnt (l : list N) i :
  (i < cnt)%nat -> nth i (items_of n cnt l) 0 = le_val (firstn n (skipn (i * n) l)).
Proof.
  revert l i. induction cnt as [|cnt IH]; intros l i Hi; [lia|].
  cbn [items_of]. destruct i; [reflexivity|].
  cbn [nth]. rewrite IH by lia. rewrite skipn_skipn'. reflexivity.
Qed.

(* ---------- reading the serialised words as the decoder does ---------- *)

Lemma zlen_words W : zlen (bytes_of_words W) = (4 * Z.of_N (lenN W))%Z.
Proof. unfold zlen, lenN. rewrite bytes_of_words_length. lia. Qed.

Lemma skipn_nth_cons' {A} (l : list A) n d :
  (n < length l)%nat -> skipn n l = nth n l d :: skipn (S n) l.
Proof.
  revert l. induction n; intros l H; destruct l; simpl in *; try lia; auto.
  apply IHn. lia.
Qed.

Lemma u32_at_words W i :
  w32 W -> i < lenN W -> u32_at (bytes_of_words W) (4 * Z.of_N i) = Z.of_N (nthN W i 0).
Proof.
  intros Hw Hi. unfold u32_at. f_equal.
  replace (Z.to_nat (4 * Z.of_N i)) with (4 * N.to_nat i)%nat by lia.
  rewrite skipn_bytes_of_words.
  rewrite (skipn_nth_cons' W (N.to_nat i) 0) by (unfold lenN in Hi; lia).
  fold (nthN W i 0).
  unfold bytes_of_words. cbn [flat_map]. rewrite firstn4_le32_app.
  apply le_val_le32. unfold w32 in Hw. rewrite Forall_forall in Hw. apply Hw.
  unfold nthN. apply nth_In. unfold lenN in Hi. lia.
Qed.

Lemma py_slice_words W (o n : N) :
  o + n <= lenN W ->
  py_slice (bytes_of_words W) (4 * Z.of_N o) (4 * Z.of_N (o + n)) = bytes_of_words (sub W o n).
Proof.
  intros H.
  replace (4 * Z.of_N o)%Z with (Z.of_N (4 * o)) by lia.
  replace (4 * Z.of_N (o + n))%Z with (Z.of_N (4 * (o + n))) by lia.
  rewrite py_slice_sub by (try rewrite bytes_of_words_lenN; lia).
  replace (4 * (o + n) - 4 * o) with (4 * n) by lia.
  apply sub_bytes_of_words.
Qed.

Lemma frombuffer4_words ws : w32 ws -> frombuffer 4 (bytes_of_words ws) = Ok ws.
Proof.
  intros Hw. unfold frombuffer. rewrite bytes_of_words_lenN.
  replace ((4 * lenN ws) mod 4) with 0 by (symmetry; rewrite N.mul_comm; apply N.mod_mul; lia).
  cbn [N.eqb]. f_equal.
  replace (N.to_nat (4 * lenN ws / 4)) with (length ws).
  - now apply items_of_words.
  - rewrite N.mul_comm, N.div_mul by lia. unfold lenN. lia.
Qed.

(* table entries read through np.frombuffer *)
Lemma sub_lut_words dt lut i :
  i < lenN lut -> sub (lut_words dt lut) (i * wpe dt) (wpe dt) = lut_words dt [nthN lut i 0].
Proof.
  intros Hi. assert (Hl := lut_words_length dt lut).
  destruct dt; cbn [wpe] in *.
  - cbn [lut_words]. apply nthN_ext.
    + rewrite sub_length by lia. reflexivity.
    + intros j Hj. rewrite sub_length in Hj by lia. rewrite sub_nth by lia.
      replace j with 0 by lia. rewrite N.mul_1_r, N.add_0_r. reflexivity.
  - destruct (lut_words_nth64 lut i Hi) as [E1 E2].
    apply nthN_ext.
    + rewrite sub_length by lia. reflexivity.
    + intros j Hj. rewrite sub_length in Hj by lia. rewrite sub_nth by lia.
      destruct (N.eq_dec j 0) as [->|Hne].
      * rewrite N.add_0_r, N.mul_comm, E1. reflexivity.
      * replace j with 1 by lia. rewrite N.mul_comm, E2. reflexivity.
Qed.

Lemma le_val_entry dt v :
  v < dt_bound dt -> le_val (bytes_of_words (lut_words dt [v])) = v.
Proof.
  intros Hv. destruct dt; cbn [lut_words flat_map app dt_bound] in *.
  - unfold bytes_of_words. cbn [flat_map]. rewrite app_nil_r. now apply le_val_le32.
  - unfold bytes_of_words. cbn [flat_map]. rewrite app_nil_r.
    rewrite le_val_app, le32_length.
    assert (H1 : v mod two32 < two32) by (apply N.mod_lt; rewrite two32_val; lia).
    assert (H2 : v / two32 < two32).
    { unfold two64 in Hv. rewrite two32_val. apply N.div_lt_upper_bound; [lia|].
      change (4294967296 * 4294967296) with (2 ^ 64). exact Hv. }
    rewrite !le_val_le32 by assumption.
    change (two8 ^ N.of_nat 4) with two32.
    assert (E := N.div_mod v two32 ltac:(rewrite two32_val; lia)). lia.
Qed.

(* ---------- the lookup table as np.frombuffer sees it ---------- *)

Lemma table_read dt Wc lo lut (P : Z) :
  seg Wc lo (lut_words dt lut) -> Forall (fun v => v < dt_bound dt) lut ->
  (Z.of_N (lenN lut) <= P)%Z ->
  exists table,
    frombuffer (itemsize dt)
      (py_slice (bytes_of_words Wc) (4 * Z.of_N lo)
         (4 * Z.of_N lo + Z.of_N (itemsize dt) *
            Z.min P ((4 * Z.of_N (lenN Wc) - 4 * Z.of_N lo) / Z.of_N (itemsize dt)))) = Ok table /\
    lenN lut <= lenN table /\
    forall i, i < lenN lut -> nthN table i 0 = nthN lut i 0.
Proof.
  intros Hseg Hb HP.
  assert (Hext := seg_extent _ _ _ Hseg). rewrite lut_words_length in Hext.
  set (L := lenN Wc) in *. set (n := lenN lut) in *.
  set (q := ((4 * Z.of_N L - 4 * Z.of_N lo) / Z.of_N (itemsize dt))%Z).
  set (nt := Z.to_N (Z.min P q)).
  assert (Hq : (Z.of_N n <= q)%Z /\ (Z.of_N (wpe dt) * q <= Z.of_N L - Z.of_N lo)%Z).
  { subst q. destruct dt; cbn [itemsize wpe] in *.
    - change (Z.of_N 4) with 4%Z. change (Z.of_N 1) with 1%Z.
      split.
      + apply Z.div_le_lower_bound; lia.
      + assert (H := Z.mul_div_le (4 * Z.of_N L - 4 * Z.of_N lo) 4 ltac:(lia)). lia.
    - change (Z.of_N 8) with 8%Z. change (Z.of_N 2) with 2%Z.
      split.
      + apply Z.div_le_lower_bound; lia.
      + assert (H := Z.mul_div_le (4 * Z.of_N L - 4 * Z.of_N lo) 8 ltac:(lia)). lia. }
  destruct Hq as [Hq1 Hq2].
  assert (Hnt : n <= nt /\ lo + wpe dt * nt <= L /\ Z.of_N nt = Z.min P q).
  { subst nt. split; [lia|]. split; [|lia]. nia. }
  destruct Hnt as (Hnt1 & Hnt2 & Hnt3). fold q. rewrite <- Hnt3.
  replace (4 * Z.of_N lo + Z.of_N (itemsize dt) * Z.of_N nt)%Z
    with (4 * Z.of_N (lo + wpe dt * nt))%Z by (destruct dt; cbn [itemsize wpe]; lia).
  rewrite py_slice_words by exact Hnt2.
  set (S := sub Wc lo (wpe dt * nt)).
  assert (HS : lenN S = wpe dt * nt) by (apply sub_length; exact Hnt2).
  unfold frombuffer. rewrite bytes_of_words_lenN, HS.
  assert (E4 : 4 * (wpe dt * nt) = itemsize dt * nt) by (destruct dt; cbn [itemsize wpe]; lia).
  rewrite E4.
  assert (Hi0 : itemsize dt <> 0) by (destruct dt; discriminate).
  replace ((itemsize dt * nt) mod itemsize dt) with 0
    by (symmetry; rewrite N.mul_comm; apply N.mod_mul; exact Hi0).
  cbn [N.eqb].
  replace (itemsize dt * nt / itemsize dt) with nt
    by (symmetry; rewrite N.mul_comm; apply N.div_mul; exact Hi0).
  eexists. split; [reflexivity|]. split.
  - unfold lenN. rewrite items_of_length. lia.
  - intros i Hi. unfold nthN at 1. rewrite items_of_nth by lia.
    assert (Es : firstn (N.to_nat (itemsize dt)) (skipn (N.to_nat i * N.to_nat (itemsize dt)) (bytes_of_words S))
                 = sub (bytes_of_words S) (4 * (i * wpe dt)) (4 * wpe dt)).
    { unfold sub. f_equal; [destruct dt; cbn [itemsize wpe]; lia|]. f_equal.
      destruct dt; cbn [itemsize wpe]; lia. }
    rewrite Es, sub_bytes_of_words.
    unfold S. rewrite sub_sub by nia.
    destruct Hseg as [_ Hsub]. rewrite lut_words_length in Hsub.
    assert (E2 : sub Wc (lo + i * wpe dt) (wpe dt) = sub (lut_words dt lut) (i * wpe dt) (wpe dt)).
    { rewrite <- Hsub at 1. fold n. rewrite sub_sub by nia. reflexivity. }
    rewrite E2, sub_lut_words by exact Hi.
    apply le_val_entry. rewrite Forall_forall in Hb. apply Hb. unfold nthN. apply nth_In.
    unfold n, lenN in Hi. lia.
Qed.

Lemma bits_ok_allowed bits : In bits allowed_bits -> bits_ok (Z.of_N bits) = true.
Proof.
  unfold allowed_bits. simpl. intros H.
  repeat (destruct H as [<-|H]; [reflexivity|]). destruct H.
Qed.

Lemma header_split lo bits :
  lo < two24 ->
  (Z.of_N (lo + bits * two24) mod 2 ^ 24 = Z.of_N lo)%Z /\
  (Z.of_N (lo + bits * two24) / 2 ^ 24 = Z.of_N bits)%Z.
Proof.
  intros Hlo. change (2 ^ 24)%Z with (Z.of_N two24).
  rewrite <- N2Z.inj_mod, <- N2Z.inj_div by (rewrite two24_val; lia).
  split; f_equal.
  - rewrite N.mod_add by (rewrite two24_val; lia). now apply N.mod_small.
  - rewrite N.div_add by (rewrite two24_val; lia). rewrite N.div_small by exact Hlo. lia.
Qed.

(* ---------- one block ---------- *)

Lemma decode_block_enc dt Wc vals k :
  w32 Wc -> 2 * k + 1 < lenN Wc -> vals <> [] ->
  Forall (fun v => v < dt_bound dt) vals -> blk_enc dt Wc k vals ->
  decode_block dt (bytes_of_words Wc) (lenN vals) k = Ok vals.
Proof.
  intros HW Hk Hne Hbound (lo & vo & bits & B1 & B2 & B3 & B4 & B5 & B6 & B7).
  set (lut := sort_dedup vals) in *.
  set (idxs := map (fun v => index_of v lut) vals) in *.
  destruct (nbits_spec _ _ B1) as [Hle Hallowed].
  unfold decode_block. rewrite zlen_words.
  destruct (Z.ltb_spec (4 * Z.of_N (lenN Wc)) (8 * Z.of_N k + 8)) as [Hbad|_]; [lia|].
  replace (8 * Z.of_N k)%Z with (4 * Z.of_N (2 * k))%Z by lia.
  replace (4 * Z.of_N (2 * k) + 4)%Z with (4 * Z.of_N (2 * k + 1))%Z by lia.
  rewrite !u32_at_words by (try assumption; lia).
  rewrite B2, B3.
  destruct (header_split lo bits B4) as [Em Ed]. rewrite Em, Ed.
  rewrite (bits_ok_allowed bits Hallowed). cbn [negb].
  assert (HP : (Z.of_N (lenN lut) <= 2 ^ Z.of_N bits)%Z).
  { change 2%Z with (Z.of_N 2). rewrite <- N2Z.inj_pow. lia. }
  destruct (table_read dt Wc lo lut (2 ^ Z.of_N bits)%Z B6 (sort_dedup_Forall _ _ Hbound) HP)
    as (table & Et & Htl & Htn).
  rewrite Et. cbn [bind].
  assert (Hlutne : lut <> []) by (apply sort_dedup_nonempty; exact Hne).
  assert (Hvin : forall v, In v vals -> In v lut) by (intros v Hv; now apply sort_dedup_In).
  destruct (Z.eqb_spec (Z.of_N bits) 0) as [Hz|Hnz].
  - (* 0 bits: a single label *)
    assert (bits = 0) by lia. subst bits.
    assert (Hl1 : lenN lut = 1).
    { simpl in Hle. destruct lut; [congruence|]. rewrite lenN_cons in *. lia. }
    destruct table as [|t0 trest]; [rewrite lenN_nil in Htl; lia|].
    f_equal. specialize (Htn 0 ltac:(lia)). rewrite nthN_cons_0 in Htn. subst t0.
    unfold lenN. rewrite Nat2N.id. symmetry. apply all_same_repeat.
    intros x Hx. apply Hvin in Hx.
    destruct lut as [|u r]; [congruence|]. rewrite lenN_cons in Hl1.
    destruct r; [|rewrite lenN_cons in Hl1; lia]. destruct Hx as [<-|[]]. reflexivity.
  - assert (Hnz' : bits <> 0) by lia.
    assert (Hpb : pos_bits bits).
    { unfold allowed_bits in Hallowed. simpl in Hallowed. unfold pos_bits.
      destruct Hallowed as [<-|Ha]; [congruence|].
      repeat (destruct Ha as [<-|Ha]; [auto 10|]). destruct Ha. }
    destruct (pos_bits_vpw bits Hpb) as (Hv & Hm & _).
    assert (Evpw : (32 / Z.of_N bits = Z.of_N (32 / bits))%Z).
    { change 32%Z with (Z.of_N 32). rewrite <- N2Z.inj_div. reflexivity. }
    rewrite Evpw.
    rewrite <- cdiv_py by exact Hv.
    assert (Hidx : Forall (fun i => i < 2 ^ bits) idxs) by (apply index_bound; exact B1).
    assert (Hpl : lenN (pack_values bits idxs) = cdiv (lenN vals) (32 / bits)).
    { rewrite pack_values_length by exact Hpb. unfold idxs. now rewrite lenN_map. }
    assert (Hvext := seg_extent _ _ _ B7). fold idxs in Hvext. rewrite Hpl in Hvext.
    set (np := cdiv (lenN vals) (32 / bits)) in *.
    destruct (Z.ltb_spec (4 * Z.of_N (lenN Wc)) (4 * Z.of_N vo + 4 * Z.of_N np)) as [Hbad|_]; [lia|].
    replace (4 * Z.of_N vo + 4 * Z.of_N np)%Z with (4 * Z.of_N (vo + np))%Z by lia.
    rewrite py_slice_words by exact Hvext.
    destruct B7 as [_ B7s]. fold idxs in B7s. rewrite Hpl in B7s. rewrite B7s.
    rewrite frombuffer4_words by (apply pack_values_bound; exact Hidx).
    cbn [bind]. rewrite N2Z.id.
    assert (Eun : unpack_values (pack_values bits idxs) bits (lenN vals) = idxs).
    { replace (lenN vals) with (lenN idxs) by (unfold idxs; apply lenN_map).
      apply unpack_pack; assumption. }
    rewrite Eun. unfold lookup_all.
    assert (Hfa : forallb (fun i => i <? lenN table) idxs = true).
    { apply forallb_forall. intros i Hi. unfold idxs in Hi. apply in_map_iff in Hi.
      destruct Hi as (v & <- & Hv'). destruct (index_of_spec v lut (Hvin v Hv')) as [Hlt _].
      apply N.ltb_lt. lia. }
    rewrite Hfa. f_equal. unfold idxs. rewrite map_map.
    rewrite <- (map_id vals) at 2. apply map_ext_in. intros v Hv'.
    destruct (index_of_spec v lut (Hvin v Hv')) as [Hlt Hnth].
    rewrite Htn by exact Hlt. exact Hnth.
Qed.

(* ---------- one channel ---------- *)

(* The decoder hands buf[offset:] to the channel loop: the channel's own words
   followed by whatever comes after them in the file. *)
Lemma blk_enc_app dt Wc tail k vals :
  2 * k + 1 < lenN Wc -> blk_enc dt Wc k vals -> blk_enc dt (Wc ++ tail) k vals.
Proof.
  intros Hk (lo & vo & bits & B1 & B2 & B3 & B4 & B5 & B6 & B7).
  exists lo, vo, bits.
  split; [exact B1|]. split; [rewrite nthN_app1 by lia; exact B2|].
  split; [rewrite nthN_app1 by lia; exact B3|]. split; [exact B4|]. split; [exact B5|].
  split; now apply seg_app_r.
Qed.

Lemma decode_channel_enc dt a g c Wc vl tail :
  g_bx g <> 0 -> g_by g <> 0 -> g_bz g <> 0 -> w32 tail ->
  chan_enc dt a g c Wc vl ->
  decode_channel dt (bytes_of_words (Wc ++ tail)) (g_bx g * g_by g * g_bz g)
                 (grid_x a g * grid_y a g * grid_z a g) = Ok vl.
Proof.
  intros Hbx Hby Hbz Htail Hce. unfold chan_enc in Hce. cbv zeta in Hce.
  destruct Hce as (HW & Hl & Hvl & Hblk & _).
  unfold decode_channel. apply mapM_range_ok with (d := []); [exact Hvl|].
  intros k Hk. destruct (Hblk k Hk) as (Hlen & Hbound & Hbe).
  replace (g_bx g * g_by g * g_bz g) with (lenN (nthN vl k [])) by (rewrite Hlen; lia).
  apply decode_block_enc; try assumption.
  - apply Forall_app. now split.
  - rewrite lenN_app. nia.
  - intros E. rewrite E, lenN_nil in Hlen. nia.
  - apply blk_enc_app; [nia|exact Hbe].
Qed.

(* ---------- the channel loop over the file ---------- *)

Lemma decode_channels_layout dt B nblk : forall rest pre vls,
  Forall2 (fun Wc vl => (forall tail, w32 tail ->
                           decode_channel dt (bytes_of_words (Wc ++ tail)) B nblk = Ok vl) /\
                        2 * nblk <= lenN Wc /\ w32 Wc)
          rest vls ->
  decode_channels dt (bytes_of_words (pre ++ concat rest)) B nblk
    (map (fun o => (4 * Z.of_N o)%Z) (offsets_from (lenN pre) rest)) = Ok vls.
Proof.
  induction rest as [|Wc r IH]; intros pre vls HF.
  - inversion HF. reflexivity.
  - inversion HF as [|? vl ? vls' (Hdec & Hlen & Hw) HF']; subst.
    cbn [offsets_from map decode_channels concat].
    rewrite zlen_words, !lenN_app.
    destruct (Z.ltb_spec (4 * Z.of_N (lenN pre + (lenN Wc + lenN (concat r))))
                         (4 * Z.of_N (lenN pre) + 8 * Z.of_N nblk)) as [Hbad|_]; [lia|].
    assert (Ecb : py_slice (bytes_of_words (pre ++ Wc ++ concat r)) (4 * Z.of_N (lenN pre))
                           (4 * Z.of_N (lenN pre + (lenN Wc + lenN (concat r))))
                  = bytes_of_words (Wc ++ concat r)).
    { rewrite py_slice_words by (rewrite !lenN_app; lia).
      rewrite sub_app2 by lia. rewrite N.sub_diag.
      rewrite <- lenN_app. now rewrite sub_all. }
    rewrite Ecb, Hdec. 2:{ apply w32_concat. clear - HF'. induction HF' as [|? ? ? ? (_ & _ & H) _ IH']; constructor; auto. }
    cbn [bind].
    specialize (IH (pre ++ Wc) vls' HF').
    rewrite <- app_assoc in IH. rewrite lenN_app in IH. rewrite IH. reflexivity.
Qed.

Lemma concat_len_ge (chans : list (list N)) m :
  (forall w, In w chans -> m <= lenN w) -> lenN chans * m <= lenN (concat chans).
Proof.
  induction chans as [|w r IH]; intros H; [unfold lenN; cbn [length concat]; lia|].
  cbn [concat]. rewrite lenN_cons, lenN_app.
  specialize (H w (or_introl eq_refl)) as Hw.
  specialize (IH (fun w' Hw' => H w' (or_intror Hw'))). nia.
Qed.

Lemma map_ext_range {A} (f f' : N -> A) n :
  (forall k, k < n -> f k = f' k) -> map f (range n) = map f' (range n).
Proof. intros H. apply map_ext_in. intros k Hk. apply H. now apply range_In. Qed.

Lemma list_map_range (l : list N) n : lenN l = n -> l = map (fun i => nthN l i 0) (range n).
Proof.
  intros Hl. apply nthN_ext.
  - rewrite lenN_map_range. exact Hl.
  - intros i Hi. rewrite nthN_map_range by lia. reflexivity.
Qed.

Lemma channel_offsets_words W C offs :
  w32 W -> lenN offs = C -> (forall c, c < C -> nthN W c 0 = nthN offs c 0) -> C <= lenN W ->
  channel_offsets (bytes_of_words W) C = map (fun o => (4 * Z.of_N o)%Z) offs.
Proof.
  intros HW Hl Hn HC. unfold channel_offsets.
  rewrite (list_map_range offs C Hl) at 1. rewrite map_map.
  apply map_ext_range. intros c Hc.
  rewrite u32_at_words by (try assumption; lia). now rewrite Hn.
Qed.

(* ---------- assembling the chunk ---------- *)

Lemma flat_map_ext_range {A} (f f' : N -> list A) n :
  (forall k, k < n -> f k = f' k) -> flat_map f (range n) = flat_map f' (range n).
Proof.
  intros H. assert (G : forall l, (forall k, In k l -> k < n) -> flat_map f l = flat_map f' l).
  { induction l as [|k l IH]; intros Hl; [reflexivity|]. cbn [flat_map].
    rewrite (H k) by (apply Hl; now left). f_equal. apply IH. intros k' Hk'. apply Hl. now right. }
  apply G. intros k Hk. now apply range_In.
Qed.

Lemma tab4_ext C Z Y X f f' :
  (forall c z y x, c < C -> z < Z -> y < Y -> x < X -> f c z y x = f' c z y x) ->
  tab4 C Z Y X f = tab4 C Z Y X f'.
Proof.
  intros H. unfold tab4. f_equal. unfold tab3.
  apply flat_map_ext_range. intros c Hc.
  apply flat_map_ext_range. intros z Hz.
  apply flat_map_ext_range. intros y Hy.
  apply map_ext_range. intros x Hx. now apply H.
Qed.

Lemma padded_voxel a g c z y x pad :
  g_bx g <> 0 -> g_by g <> 0 -> g_bz g <> 0 ->
  z < a_z a -> y < a_y a -> x < a_x a ->
  nthN (block_padded a g c (z / g_bz g) (y / g_by g) (x / g_bx g) pad)
       (x mod g_bx g + g_bx g * (y mod g_by g + g_by g * (z mod g_bz g))) 0
  = get4 a c z y x.
Proof.
  intros Hbx Hby Hbz Hz Hy Hx.
  assert (Ez := N.div_mod z _ Hbz). assert (Ey := N.div_mod y _ Hby). assert (Ex := N.div_mod x _ Hbx).
  assert (Lz := N.mod_lt z _ Hbz). assert (Ly := N.mod_lt y _ Hby). assert (Lx := N.mod_lt x _ Hbx).
  replace (x mod g_bx g + g_bx g * (y mod g_by g + g_by g * (z mod g_bz g)))
    with ((z mod g_bz g * g_by g + y mod g_by g) * g_bx g + x mod g_bx g) by lia.
  rewrite block_padded_nth; try assumption; try lia.
  f_equal; lia.
Qed.

(* ---------- (5) the round trip through the package's decoder ---------- *)

Theorem encode_impl_roundtrip dt nc g a buf :
  wf_arr (dt_bound dt) a -> cseg_encode dt nc g a = Ok buf ->
  cseg_decode dt nc g (a_x a) (a_y a) (a_z a) buf = Ok a.
Proof.
  intros Hwf E.
  destruct (cseg_encode_file_enc dt nc g a buf Hwf E) as (Hnc & Hbx & Hby & Hbz & W & chans & -> & Hf).
  destruct Hf as (EW & Hlen & HW & Hch). subst nc.
  set (nblk := grid_x a g * grid_y a g * grid_z a g).
  (* the decoded block lists, channel by channel *)
  destruct (exists_list (fun c vl => chan_enc dt a g c (nthN chans c []) vl) [] (N.to_nat (a_c a)))
    as (vls & Hvls_len & Hvls).
  { intros c Hc. apply Hch. lia. }
  assert (Hvls' : forall c, c < a_c a -> chan_enc dt a g c (nthN chans c []) (nthN vls c [])).
  { intros c Hc. apply Hvls. lia. }
  clear Hvls.
  unfold cseg_decode.
  destruct (N.eqb_spec (g_bx g) 0); [contradiction|].
  destruct (N.eqb_spec (g_by g) 0); [contradiction|].
  destruct (N.eqb_spec (g_bz g) 0); [contradiction|]. cbn [orb].
  change (cdiv (a_x a) (g_bx g) * cdiv (a_y a) (g_by g) * cdiv (a_z a) (g_bz g)) with nblk.
  assert (Hchl : forall w, In w chans -> 2 * nblk <= lenN w).
  { intros w Hin. destruct (In_nth _ _ [] Hin) as (i & Hi & <-).
    assert (Hc : N.of_nat i < a_c a) by (unfold lenN in Hlen; lia).
    specialize (Hvls' _ Hc). unfold chan_enc in Hvls'. cbv zeta in Hvls'.
    destruct Hvls' as (_ & Hl2 & _). unfold nthN in Hl2. rewrite Nat2N.id in Hl2. exact Hl2. }
  assert (Hcl := concat_len_ge chans (2 * nblk) Hchl).
  assert (HWl : lenN W = a_c a + lenN (concat chans)).
  { rewrite EW, lenN_app, offsets_from_length. lia. }
  rewrite zlen_words.
  destruct (Z.ltb_spec (4 * Z.of_N (lenN W)) (Z.of_N (a_c a * (4 + 8 * nblk)))) as [Hbad|_]; [nia|].
  rewrite (channel_offsets_words W (a_c a) (offsets_from (a_c a) chans)); try assumption.
  2:{ rewrite offsets_from_length. exact Hlen. }
  2:{ intros c Hc. rewrite EW. rewrite nthN_app1 by (rewrite offsets_from_length; lia). reflexivity. }
  2:{ lia. }
  assert (Edc : decode_channels dt (bytes_of_words W) (g_bx g * g_by g * g_bz g) nblk
                  (map (fun o => (4 * Z.of_N o)%Z) (offsets_from (a_c a) chans)) = Ok vls).
  { rewrite EW.
    replace (a_c a) with (lenN (offsets_from (a_c a) chans)) at 2 by (rewrite offsets_from_length; exact Hlen).
    apply decode_channels_layout.
    apply Forall2_of_nthN with (d := []) (d' := []).
    - unfold lenN at 2. rewrite Hvls_len. lia.
    - intros c Hc. rewrite Hlen in Hc. specialize (Hvls' c Hc). split.
      + intros tail Htail. apply (decode_channel_enc dt a g c); assumption.
      + unfold chan_enc in Hvls'. cbv zeta in Hvls'. destruct Hvls' as (Hw2 & Hl2 & _). split; assumption. }
  rewrite Edc. cbn [bind]. f_equal.
  transitivity (tab4 (a_c a) (a_z a) (a_y a) (a_x a) (get4 a));
    [|apply tab4_get4; destruct Hwf; assumption].
  unfold assemble. apply tab4_ext. intros c z y x Hc Hz Hy Hx.
  specialize (Hvls' c Hc). unfold chan_enc in Hvls'. cbv zeta in Hvls'.
  destruct Hvls' as (_ & _ & _ & _ & Hpad).
  assert (Hxb : x / g_bx g < grid_x a g) by (apply div_lt_cdiv; [lia|exact Hx]).
  assert (Hyb : y / g_by g < grid_y a g) by (apply div_lt_cdiv; [lia|exact Hy]).
  assert (Hzb : z / g_bz g < grid_z a g) by (apply div_lt_cdiv; [lia|exact Hz]).
  destruct (Hpad _ _ _ Hzb Hyb Hxb) as (pad & Epd).
  change (cdiv (a_x a) (g_bx g)) with (grid_x a g). change (cdiv (a_y a) (g_by g)) with (grid_y a g).
  rewrite Epd. now apply padded_voxel.
Qed.
