(* Executable model of _compressed_segmentation.encode_chunk, _encode_channel,
   pad_block, _pack_encoded_values, number_of_encoding_bits and of
   chunk_encoding.CompressedSegmentationEncoder.encode, as the code is today.
   The buffer is built as a list of 32-bit words (every write of the Python
   code is word aligned: it asserts len(buf) % 4 == 0 before each one) and
   serialised little-endian at the end. *)
From Coq Require Import NArith ZArith List Bool Lia Orders Sorting.Mergesort.
From NGS Require Import Val Ints Words Arr4.
Import ListNotations.
Open Scope N_scope.

(* ---------- np.unique: sort + dedup, with counts ---------- *)

Module NOrd <: TotalLeBool.
  Definition t := N.
  Definition leb := N.leb.
  Theorem leb_total : forall x y, leb x y = true \/ leb y x = true.
  Proof. intros x y. unfold leb. rewrite !N.leb_le. lia. Qed.
End NOrd.
Module NSort := Sort NOrd.

Fixpoint dedup (l : list N) : list N :=
  match l with
  | [] => []
  | a :: r =>
      match r with
      | [] => [a]
      | b :: _ => if a =? b then dedup r else a :: dedup r
      end
  end.

Definition sort_dedup (l : list N) : list N := dedup (NSort.sort l).

(* (value, count) runs of a sorted list = np.unique(..., return_counts=True) *)
Fixpoint runs (l : list N) : list (N * N) :=
  match l with
  | [] => []
  | a :: r =>
      match runs r with
      | (b, n) :: t => if a =? b then (b, n + 1) :: t else (a, 1) :: (b, n) :: t
      | [] => [(a, 1)]
      end
  end.

(* np.argmax: the first maximum *)
Fixpoint first_max (best : N * N) (l : list (N * N)) : N * N :=
  match l with
  | [] => best
  | (v, n) :: t => if snd best <? n then first_max (v, n) t else first_max best t
  end.

(* unique_vals[np.argmax(unique_counts)]; np.argmax of an empty sequence
   raises ValueError *)
Definition most_frequent (l : list N) : outcome N :=
  match runs (NSort.sort l) with
  | [] => Crash ValueError
  | h :: t => Ok (fst (first_max h t))
  end.

(* inverse indices of np.unique(..., return_inverse=True) *)
Fixpoint index_of (v : N) (l : list N) : N :=
  match l with
  | [] => 0
  | a :: r => if a =? v then 0 else 1 + index_of v r
  end.

(* ---------- number_of_encoding_bits ---------- *)

Definition allowed_bits : list N := [0; 1; 2; 4; 8; 16; 32].

Fixpoint first_bits (cands : list N) (elements : N) : outcome N :=
  match cands with
  | [] => Crash AssertionError
  | b :: r => if elements <=? 2 ^ b then Ok b else first_bits r elements
  end.
Definition number_of_encoding_bits (elements : N) : outcome N :=
  first_bits allowed_bits elements.

(* ---------- _pack_encoded_values ---------- *)

(* little-endian base-2^bits digits -> one word; lanes are disjoint, so the
   code's bitwise_or of shifted lanes is this sum (proved: from_digits_lor) *)
Fixpoint from_digits (bits : N) (vs : list N) : N :=
  match vs with [] => 0 | v :: r => v + 2 ^ bits * from_digits bits r end.

Fixpoint pack_n (nwords : nat) (bits : N) (vpw : nat) (l : list N) : list N :=
  match nwords with
  | O => []
  | S k => from_digits bits (firstn vpw l) :: pack_n k bits vpw (skipn vpw l)
  end.

Definition pack_values (bits : N) (idx : list N) : list N :=
  if bits =? 0 then []
  else let vpw := 32 / bits in
       pack_n (N.to_nat (cdiv (lenN idx) vpw)) bits (N.to_nat vpw) idx.

(* ---------- blocks of one channel ---------- *)

Record geom : Type := { g_bx : N; g_by : N; g_bz : N }.

Definition grid_x (a : arr4) (g : geom) : N := cdiv (a_x a) (g_bx g).
Definition grid_y (a : arr4) (g : geom) : N := cdiv (a_y a) (g_by g).
Definition grid_z (a : arr4) (g : geom) : N := cdiv (a_z a) (g_bz g).

(* np.ndindex((gz, gy, gx)) *)
Definition block_coords (gz gy gx : N) : list (N * N * N) :=
  flat_map (fun z => flat_map (fun y => map (fun x => (z, y, x)) (range gx)) (range gy)) (range gz).

(* the clamped slice chunk[zb*bz:(zb+1)*bz, ...] raveled *)
Definition block_real (a : arr4) (g : geom) (c zb yb xb : N) : list N :=
  let nz := N.min (g_bz g) (a_z a - zb * g_bz g) in
  let ny := N.min (g_by g) (a_y a - yb * g_by g) in
  let nx := N.min (g_bx g) (a_x a - xb * g_bx g) in
  tab3 nz ny nx (fun k j i => get4 a c (zb * g_bz g + k) (yb * g_by g + j) (xb * g_bx g + i)).

Definition block_full (a : arr4) (g : geom) (zb yb xb : N) : bool :=
  ((zb + 1) * g_bz g <=? a_z a) && ((yb + 1) * g_by g <=? a_y a) && ((xb + 1) * g_bx g <=? a_x a).

(* the block after pad_block (np.pad at the end of each axis with [pad]) *)
Definition block_padded (a : arr4) (g : geom) (c zb yb xb pad : N) : list N :=
  tab3 (g_bz g) (g_by g) (g_bx g) (fun k j i =>
    let z := zb * g_bz g + k in
    let y := yb * g_by g + j in
    let x := xb * g_bx g + i in
    if (z <? a_z a) && (y <? a_y a) && (x <? a_x a) then get4 a c z y x else pad).

Definition block_vals (a : arr4) (g : geom) (c : N) (zyx : N * N * N) : outcome (list N) :=
  let '(zb, yb, xb) := zyx in
  if block_full a g zb yb xb then Ok (block_padded a g c zb yb xb 0)
  else bind (most_frequent (block_real a g c zb yb xb))
            (fun pad => Ok (block_padded a g c zb yb xb pad)).

(* ---------- _encode_channel ---------- *)

Definition lut_words (dt : dtype) (lut : list N) : list N :=
  match dt with
  | U32 => lut
  | U64 => flat_map (fun v => [v mod two32; v / two32]) lut
  end.

Fixpoint assoc_find (k : list N) (m : list (list N * N)) : option N :=
  match m with
  | [] => None
  | (k', off) :: r => if list_eqb k k' then Some off else assoc_find k r
  end.

(* state while the blocks of a channel are appended: body words (reversed),
   current length of the channel buffer in words, stored_lut_offsets, block
   header words (reversed) *)
Record est : Type := { e_body : list N; e_len : N; e_luts : list (list N * N); e_hdr : list N }.

Definition enc_block (dt : dtype) (vals : list N) (st : est) : outcome est :=
  let lut := sort_dedup vals in
  bind (number_of_encoding_bits (lenN lut)) (fun bits =>
  let lutw := lut_words dt lut in
  let '(lo, body1, len1, luts1) :=
    match assoc_find lutw (e_luts st) with
    | Some off => (off, e_body st, e_len st, e_luts st)
    | None => (e_len st, rev_append lutw (e_body st), e_len st + lenN lutw,
               (lutw, e_len st) :: e_luts st)
    end in
  let vo := len1 in
  let vw := pack_values bits (map (fun v => index_of v lut) vals) in
  if two24 <=? lo then Crash AssertionError       (* assert lookup_table_offset == ... & 0xFFFFFF *)
  else if two32 <=? vo then Crash StructError    (* struct.pack_into("<II", ...) *)
  else Ok {| e_body := rev_append vw body1; e_len := len1 + lenN vw; e_luts := luts1;
             e_hdr := vo :: (lo + bits * two24) :: e_hdr st |}).

Fixpoint enc_blocks (dt : dtype) (a : arr4) (g : geom) (c : N)
         (cs : list (N * N * N)) (st : est) : outcome est :=
  match cs with
  | [] => Ok st
  | zyx :: r =>
      bind (block_vals a g c zyx) (fun v =>
      bind (enc_block dt v st) (enc_blocks dt a g c r))
  end.

Definition init_est (nblk : N) : est :=
  {| e_body := []; e_len := 2 * nblk; e_luts := []; e_hdr := [] |}.

Definition est_words (st : est) : list N := rev (e_hdr st) ++ rev (e_body st).

Definition encode_channel (dt : dtype) (a : arr4) (g : geom) (c : N) : outcome (list N) :=
  let gx := grid_x a g in let gy := grid_y a g in let gz := grid_z a g in
  bind (enc_blocks dt a g c (block_coords gz gy gx) (init_est (gx * gy * gz)))
       (fun st => Ok (est_words st)).

(* ---------- encode_chunk ---------- *)

(* returns (channel offsets, concatenated channel words) *)
Fixpoint enc_channels (dt : dtype) (a : arr4) (g : geom) (cs : list N) (off : N)
  : outcome (list N * list N) :=
  match cs with
  | [] => Ok ([], [])
  | c :: r =>
      if two32 <=? off then Crash StructError     (* struct.pack_into("<I", ...) *)
      else bind (encode_channel dt a g c) (fun w =>
           bind (enc_channels dt a g r (off + lenN w)) (fun '(os, ws) =>
           Ok (off :: os, w ++ ws)))
  end.

Definition encode_words (dt : dtype) (a : arr4) (g : geom) : outcome (list N) :=
  bind (enc_channels dt a g (range (a_c a)) (a_c a)) (fun '(os, ws) => Ok (os ++ ws)).

(* CompressedSegmentationEncoder(dt, num_channels, block).encode(chunk) for a
   4-D chunk whose dtype is the encoder's *)
Definition cseg_encode (dt : dtype) (num_channels : N) (g : geom) (a : arr4) : outcome (list N) :=
  if negb (a_c a =? num_channels) then Crash AssertionError
  else if (g_bx g =? 0) || (g_by g =? 0) || (g_bz g =? 0) then Crash ZeroDivisionError
  else bind (encode_words dt a g) (fun ws => Ok (bytes_of_words ws)).
