(* Executable model of _compressed_segmentation.decode_chunk_into,
   _decode_channel_into, _unpack_encoded_values and of
   CompressedSegmentationEncoder.decode (as of /repo commit a6dbfd3), including
   every point where the Python code can raise.  Offsets are Python integers (Z): the table extent
   formula can produce a negative count.  Also RawChunkEncoder. *)
From Coq Require Import NArith ZArith List Bool Lia.
From NGS Require Import Val Ints Words Arr4 CSegEncode.
Import ListNotations.
Open Scope Z_scope.

Definition zlen (l : list N) : Z := Z.of_nat (length l).

(* struct.unpack_from("<I", buf, off)[0] once the caller has checked that the
   four bytes exist *)
Definition u32_at (buf : list N) (off : Z) : Z :=
  Z.of_N (le_val (firstn 4 (skipn (Z.to_nat off) buf))).

Definition bits_ok (b : Z) : bool :=
  (b =? 0) || (b =? 1) || (b =? 2) || (b =? 4) || (b =? 8) || (b =? 16) || (b =? 32).

(* np.frombuffer(bytes, dtype): ValueError unless the length is a multiple of
   the item size *)
Definition frombuffer (isz : N) (b : list N) : outcome (list N) :=
  if (lenN b mod isz =? 0)%N
  then Ok (items_of (N.to_nat isz) (N.to_nat (lenN b / isz)) b)
  else Crash ValueError.

(* _unpack_encoded_values(packed, bits, num_values) *)
Definition unpack_values (packed : list N) (bits : N) (num : N) : list N :=
  let vpw := (32 / bits)%N in
  firstn (N.to_nat num)
         (flat_map (fun w => map (fun s => ((w / 2 ^ (s * bits)) mod 2 ^ bits)%N) (range vpw)) packed).

(* lookup_table[encoded_values]: IndexError if any index is out of range *)
Definition lookup_all (table : list N) (idx : list N) : option (list N) :=
  if forallb (fun i => (i <? lenN table)%N) idx
  then Some (map (fun i => nthN table i 0%N) idx) else None.

(* one iteration of the loop of _decode_channel_into: block number [k] of the
   channel buffer [cbuf]; returns the decoded block (bz*by*bx values) *)
Definition decode_block (dt : dtype) (cbuf : list N) (B : N) (k : N) : outcome (list N) :=
  let len := zlen cbuf in
  let hoff := 8 * Z.of_N k in
  if len <? hoff + 8 then Crash StructError else      (* struct.unpack_from("<II", buf, 8*k) *)
  let res0 := u32_at cbuf hoff in
  let res1 := u32_at cbuf (hoff + 4) in
  let lut_off := 4 * (res0 mod 2 ^ 24) in
  let bits := res0 / 2 ^ 24 in
  if negb (bits_ok bits) then FormatErr else
  let val_off := 4 * res1 in
  let isz := Z.of_N (itemsize dt) in
  let past_end := lut_off + isz * Z.min (2 ^ bits) ((len - lut_off) / isz) in
  bind (frombuffer (itemsize dt) (py_slice cbuf lut_off past_end)) (fun table =>
  if bits =? 0 then
    match table with
    | [] => FormatErr                                   (* IndexError caught *)
    | v :: _ => Ok (repeat v (N.to_nat B))
    end
  else
    let vpw := 32 / bits in
    let vend := val_off + 4 * py_ceil_div (Z.of_N B) vpw in
    if len <? vend then FormatErr else
    bind (frombuffer 4 (py_slice cbuf val_off vend)) (fun packed =>
    match lookup_all table (unpack_values packed (Z.to_N bits) B) with
    | None => FormatErr                                 (* IndexError caught *)
    | Some vals => Ok vals
    end)).

Definition decode_channel (dt : dtype) (cbuf : list N) (B nblk : N) : outcome (list (list N)) :=
  mapM (decode_block dt cbuf B) (range nblk).

(* the loop of decode_chunk_into over the channel offsets: each channel reads
   buf[offset:] (it is not confined to the next channel's offset) *)
Fixpoint decode_channels (dt : dtype) (buf : list N) (B nblk : N) (offs : list Z)
  : outcome (list (list (list N))) :=
  match offs with
  | [] => Ok []
  | off :: rest =>
      if zlen buf <? off + 8 * Z.of_N nblk then FormatErr else
      let cbuf := py_slice buf off (zlen buf) in                   (* buf[offset:] *)
      bind (decode_channel dt cbuf B nblk) (fun blocks =>
      bind (decode_channels dt buf B nblk rest) (fun more => Ok (blocks :: more)))
  end.

Definition channel_offsets (buf : list N) (nc : N) : list Z :=
  map (fun c => 4 * u32_at buf (4 * Z.of_N c)) (range nc).

(* chunk[channel, z*bz:(z+1)*bz, ...] = block[:zmax, :ymax, :xmax], pointwise *)
Definition assemble (nc cz cy cx : N) (g : geom) (chans : list (list (list N))) : arr4 :=
  let gx := cdiv cx (g_bx g) in
  let gy := cdiv cy (g_by g) in
  tab4 nc cz cy cx (fun c z y x =>
    let blk := nthN (nthN chans c []) (x / g_bx g + gx * (y / g_by g + gy * (z / g_bz g)))%N [] in
    nthN blk (x mod g_bx g + g_bx g * (y mod g_by g + g_by g * (z mod g_bz g)))%N 0%N).

(* CompressedSegmentationEncoder(dt, nc, block).decode(buf, (cx, cy, cz)) *)
Definition cseg_decode (dt : dtype) (nc : N) (g : geom) (cx cy cz : N) (buf : list N)
  : outcome arr4 :=
  if ((g_bx g =? 0) || (g_by g =? 0) || (g_bz g =? 0))%N then Crash ZeroDivisionError else
  let nblk := (cdiv cx (g_bx g) * cdiv cy (g_by g) * cdiv cz (g_bz g))%N in
  let B := (g_bx g * g_by g * g_bz g)%N in
  if zlen buf <? Z.of_N (nc * (4 + 8 * nblk)) then FormatErr else
  bind (decode_channels dt buf B nblk (channel_offsets buf nc)) (fun chans =>
  Ok (assemble nc cz cy cx g chans)).
