(* The append-only buffer invariant of _encode_channel and what it gives for
   the words of an encoded channel and of an encoded file. *)
From Coq Require Import NArith ZArith List Bool Lia ZifyBool ZifyNat ZifyN.
From NGS Require Import Val Ints Words Arr4 CSegEncode WordsProofs Arr4Proofs
     CSegPackProofs CSegSortProofs.
Import ListNotations.
Open Scope N_scope.

Ltac Zify.zify_post_hook ::= Z.to_euclidean_division_equations.

Definition w32 (l : list N) : Prop := Forall (fun w => w < two32) l.

(* [l] sits in [W] at word offset [off] *)
Definition seg (W : list N) (off : N) (l : list N) : Prop :=
  off + lenN l <= lenN W /\ sub W off (lenN l) = l.

Lemma seg_app_r W e off l : seg W off l -> seg (W ++ e) off l.
Proof.
  intros [H1 H2]. split.
  - rewrite lenN_app. lia.
  - rewrite sub_app1 by assumption. exact H2.
Qed.

Lemma seg_shift pre W off l : seg W off l -> seg (pre ++ W) (lenN pre + off) l.
Proof.
  intros [H1 H2]. split.
  - rewrite lenN_app. lia.
  - rewrite sub_app2 by lia. replace (lenN pre + off - lenN pre) with off by lia. exact H2.
Qed.

Lemma seg_end W l e : seg (W ++ l ++ e) (lenN W) l.
Proof.
  split.
  - rewrite !lenN_app. lia.
  - rewrite sub_app2 by lia. replace (lenN W - lenN W) with 0 by lia.
    rewrite sub_app1 by lia. apply sub_all.
Qed.

Lemma seg_nth W off l j : seg W off l -> j < lenN l -> nthN W (off + j) 0 = nthN l j 0.
Proof.
  intros [H1 H2] Hj. rewrite <- (sub_nth W off (lenN l) j 0) by assumption. now rewrite H2.
Qed.

Lemma seg_extent W off l : seg W off l -> off + lenN l <= lenN W.
Proof. now intros [H _]. Qed.

(* ---------- table words ---------- *)

Lemma lut_words_length dt lut : lenN (lut_words dt lut) = wpe dt * lenN lut.
Proof.
  destruct dt; cbn [lut_words wpe]; [lia|].
  induction lut as [|v r IH]; [reflexivity|].
  cbn [flat_map]. rewrite lenN_app, IH, !lenN_cons, lenN_nil. lia.
Qed.

Lemma lut_words_w32 dt lut :
  Forall (fun v => v < dt_bound dt) lut -> w32 (lut_words dt lut).
Proof.
  destruct dt; cbn [lut_words dt_bound]; intros H; [exact H|].
  induction H as [|v r Hv Hr IH]; [constructor|].
  cbn [flat_map]. apply Forall_app. split; [|exact IH].
  unfold two64 in Hv. rewrite two32_val.
  repeat constructor.
  - apply N.mod_lt. lia.
  - apply N.div_lt_upper_bound; [lia|]. change (4294967296 * 4294967296) with (2 ^ 64). exact Hv.
Qed.

Lemma lut_words_nth64 lut i :
  i < lenN lut ->
  nthN (lut_words U64 lut) (2 * i) 0 = nthN lut i 0 mod two32 /\
  nthN (lut_words U64 lut) (2 * i + 1) 0 = nthN lut i 0 / two32.
Proof.
  revert i. induction lut as [|v r IH]; intros i Hi; [rewrite lenN_nil in Hi; lia|].
  cbn [lut_words flat_map]. rewrite lenN_cons in Hi.
  destruct (N.eq_dec i 0) as [->|Hne].
  - split; reflexivity.
  - change ([v mod two32; v / two32] ++ flat_map (fun v0 => [v0 mod two32; v0 / two32]) r)
      with (v mod two32 :: v / two32 :: lut_words U64 r).
    rewrite !nthN_cons_pos by lia.
    replace (2 * i - 1 - 1) with (2 * (i - 1)) by lia.
    replace (2 * i + 1 - 1 - 1) with (2 * (i - 1) + 1) by lia.
    apply IH. lia.
Qed.

(* ---------- the block fold ---------- *)

Fixpoint enc_vlist (dt : dtype) (vl : list (list N)) (st : est) : outcome est :=
  match vl with
  | [] => Ok st
  | v :: r => bind (enc_block dt v st) (enc_vlist dt r)
  end.

Record stinv (H : N) (st : est) : Prop := {
  si_len : e_len st = H + lenN (e_body st);
  si_luts : forall key off, assoc_find key (e_luts st) = Some off ->
                            H <= off /\ seg (rev (e_body st)) (off - H) key }.

(* what the header words h0 h1 of a block promise about the body *)
Definition blk_body (dt : dtype) (H : N) (body : list N) (h0 h1 : N) (vals : list N) : Prop :=
  exists lo vo bits,
    number_of_encoding_bits (lenN (sort_dedup vals)) = Ok bits /\
    h0 = lo + bits * two24 /\ h1 = vo /\ lo < two24 /\ vo < two32 /\ H <= lo /\ H <= vo /\
    seg body (lo - H) (lut_words dt (sort_dedup vals)) /\
    seg body (vo - H) (pack_values bits (map (fun v => index_of v (sort_dedup vals)) vals)).

Lemma blk_body_app dt H body e h0 h1 vals :
  blk_body dt H body h0 h1 vals -> blk_body dt H (body ++ e) h0 h1 vals.
Proof.
  intros (lo & vo & bits & H1 & H2 & H3 & H4 & H5 & H6 & H7 & H8 & H9).
  exists lo, vo, bits. repeat split; auto using seg_app_r; apply seg_app_r; (apply H8 || apply H9).
Qed.

Lemma rev_rev_append (a b : list N) : rev (rev_append a b) = rev b ++ a.
Proof. rewrite rev_append_rev, rev_app_distr, rev_involutive. reflexivity. Qed.

Lemma index_bound vals bits :
  number_of_encoding_bits (lenN (sort_dedup vals)) = Ok bits ->
  Forall (fun i => i < 2 ^ bits) (map (fun v => index_of v (sort_dedup vals)) vals).
Proof.
  intros Hb. apply nbits_spec in Hb. destruct Hb as [Hb _].
  apply Forall_forall. intros i Hi. apply in_map_iff in Hi. destruct Hi as (v & <- & Hv).
  assert (Hin : In v (sort_dedup vals)) by now apply sort_dedup_In.
  destruct (index_of_spec v _ Hin) as [H1 _]. lia.
Qed.

Lemma bits_le_32 n bits : number_of_encoding_bits n = Ok bits -> bits <= 32.
Proof.
  intros H. apply nbits_spec in H. destruct H as [_ H]. unfold allowed_bits in H. simpl in H.
  repeat (destruct H as [H|H]; [lia|]). destruct H.
Qed.

Lemma enc_block_step dt H vals st st1 :
  stinv H st -> Forall (fun v => v < dt_bound dt) vals ->
  enc_block dt vals st = Ok st1 ->
  stinv H st1 /\
  exists ext h0 h1,
    rev (e_body st1) = rev (e_body st) ++ ext /\ w32 ext /\
    e_hdr st1 = h1 :: h0 :: e_hdr st /\ h0 < two32 /\ h1 < two32 /\
    blk_body dt H (rev (e_body st1)) h0 h1 vals.
Proof.
  intros [Hlen Hluts] Hvals. unfold enc_block.
  set (lut := sort_dedup vals).
  destruct (number_of_encoding_bits (lenN lut)) as [bits| | | | | |] eqn:Hbits; try discriminate.
  cbn [bind].
  set (lutw := lut_words dt lut).
  set (vw := pack_values bits (map (fun v => index_of v lut) vals)).
  assert (Hlutw : w32 lutw) by (apply lut_words_w32, sort_dedup_Forall, Hvals).
  assert (Hvw : w32 vw) by (apply pack_values_bound, index_bound, Hbits).
  assert (Hb32 := bits_le_32 _ _ Hbits).
  destruct (assoc_find lutw (e_luts st)) as [off|] eqn:Ef.
  - (* table re-used *)
    cbv beta iota zeta.
    destruct (N.leb_spec two24 off) as [|Hlo]; [discriminate|].
    destruct (N.leb_spec two32 (e_len st)) as [|Hvo]; [discriminate|].
    intros E. inversion E; subst st1; clear E. cbn [e_body e_len e_luts e_hdr].
    destruct (Hluts _ _ Ef) as [HoffH Hseg].
    split.
    + constructor; cbn [e_body e_len e_luts].
      * unfold lenN. rewrite rev_append_rev, app_length, rev_length. unfold lenN in Hlen. lia.
      * intros key o Hk. destruct (Hluts _ _ Hk) as [A B]. split; [exact A|].
        rewrite rev_rev_append. now apply seg_app_r.
    + exists vw, (off + bits * two24), (e_len st).
      rewrite rev_rev_append. repeat split; auto.
      * rewrite two24_val, two32_val in *. nia.
      * exists off, (e_len st), bits. repeat split; auto; try lia.
        -- apply seg_app_r. exact Hseg.
        -- apply seg_app_r. exact Hseg.
        -- replace (e_len st - H) with (lenN (rev (e_body st))) by (rewrite lenN_rev; lia).
           rewrite <- (app_nil_r vw) at 1. rewrite !lenN_app, lenN_rev. rewrite lenN_nil. lia.
        -- replace (e_len st - H) with (lenN (rev (e_body st))) by (rewrite lenN_rev; lia).
           rewrite <- (app_nil_r vw) at 2. apply seg_end.
  - (* new table *)
    cbv beta iota zeta.
    destruct (N.leb_spec two24 (e_len st)) as [|Hlo]; [discriminate|].
    destruct (N.leb_spec two32 (e_len st + lenN lutw)) as [|Hvo]; [discriminate|].
    intros E. inversion E; subst st1; clear E. cbn [e_body e_len e_luts e_hdr].
    assert (Erev : rev (rev_append vw (rev_append lutw (e_body st))) = rev (e_body st) ++ lutw ++ vw).
    { rewrite !rev_rev_append. now rewrite app_assoc. }
    assert (EH : e_len st - H = lenN (rev (e_body st))) by (rewrite lenN_rev; lia).
    split.
    + constructor; cbn [e_body e_len e_luts].
      * unfold lenN. rewrite !rev_append_rev, !app_length, !rev_length. unfold lenN in Hlen. lia.
      * intros key o Hk. rewrite Erev. cbn [assoc_find] in Hk.
        destruct (list_eqb key lutw) eqn:Ek.
        -- apply list_eqb_eq in Ek. subst key. inversion Hk; subst o. split; [lia|].
           rewrite EH. apply seg_end.
        -- destruct (Hluts _ _ Hk) as [A B]. split; [exact A|]. now apply seg_app_r.
    + exists (lutw ++ vw), (e_len st + bits * two24), (e_len st + lenN lutw).
      rewrite Erev. repeat split; auto.
      * apply Forall_app. now split.
      * rewrite two24_val, two32_val in *. nia.
      * exists (e_len st), (e_len st + lenN lutw), bits. repeat split; auto; try lia.
        -- rewrite EH. rewrite !lenN_app. lia.
        -- rewrite EH. apply seg_end.
        -- replace (e_len st + lenN lutw - H) with (lenN (rev (e_body st) ++ lutw))
             by (rewrite lenN_app, lenN_rev; lia).
           rewrite !lenN_app. lia.
        -- replace (e_len st + lenN lutw - H) with (lenN (rev (e_body st) ++ lutw))
             by (rewrite lenN_app, lenN_rev; lia).
           rewrite app_assoc. rewrite <- (app_nil_r vw) at 2. apply seg_end.
Qed.
