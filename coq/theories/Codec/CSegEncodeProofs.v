(* The append-only buffer invariant of _encode_channel and what it gives for
   the words of an encoded channel and of an encoded file. *)
From Coq Require Import NArith ZArith List Bool Lia ZifyBool ZifyNat ZifyN.
From NGS Require Import Val Ints Words Arr4 CSegEncode WordsProofs Arr4Proofs
     CSegPackProofs CSegSortProofs.
Import ListNotations.
Open Scope N_scope.

Ltac Zify.zify_post_hook ::= Z.to_euclidean_division_equations.

Definition w32 (l : list N) : Prop := Forall (fun w => w < two32) l.

(* [l] sits in [W] at word offset [off] *)
Definition seg (W : list N) (off : N) (l : list N) : Prop :=
  off + lenN l <= lenN W /\ sub W off (lenN l) = l.

Lemma seg_app_r W e off l : seg W off l -> seg (W ++ e) off l.
Proof.
  intros [H1 H2]. split.
  - rewrite lenN_app. lia.
  - rewrite sub_app1 by assumption. exact H2.
Qed.

Lemma seg_shift pre W off l : seg W off l -> seg (pre ++ W) (lenN pre + off) l.
Proof.
  intros [H1 H2]. split.
  - rewrite lenN_app. lia.
  - rewrite sub_app2 by lia. replace (lenN pre + off - lenN pre) with off by lia. exact H2.
Qed.

Lemma seg_end W l e : seg (W ++ l ++ e) (lenN W) l.
Proof.
  split.
  - rewrite !lenN_app. lia.
  - rewrite sub_app2 by lia. replace (lenN W - lenN W) with 0 by lia.
    rewrite sub_app1 by lia. apply sub_all.
Qed.

Lemma seg_end0 W l : seg (W ++ l) (lenN W) l.
Proof. rewrite <- (app_nil_r l) at 1. apply seg_end. Qed.

Lemma seg_nth W off l j : seg W off l -> j < lenN l -> nthN W (off + j) 0 = nthN l j 0.
Proof.
  intros [H1 H2] Hj. rewrite <- (sub_nth W off (lenN l) j 0) by assumption. now rewrite H2.
Qed.

Lemma seg_extent W off l : seg W off l -> off + lenN l <= lenN W.
Proof. now intros [H _]. Qed.

(* ---------- table words ---------- *)

Lemma lut_words_length dt lut : lenN (lut_words dt lut) = wpe dt * lenN lut.
Proof.
  destruct dt; cbn [lut_words wpe]; [lia|].
  induction lut as [|v r IH]; [reflexivity|].
  cbn [flat_map]. rewrite lenN_app, IH, !lenN_cons, lenN_nil. lia.
Qed.

Lemma lut_words_w32 dt lut :
  Forall (fun v => v < dt_bound dt) lut -> w32 (lut_words dt lut).
Proof.
  destruct dt; cbn [lut_words dt_bound]; intros H; [exact H|].
  induction H as [|v r Hv Hr IH]; [constructor|].
  cbn [flat_map]. apply Forall_app. split; [|exact IH].
  unfold two64 in Hv. rewrite two32_val.
  repeat constructor.
  - apply N.mod_lt. lia.
  - apply N.div_lt_upper_bound; [lia|]. change (4294967296 * 4294967296) with (2 ^ 64). exact Hv.
Qed.

Lemma lut_words_nth64 lut i :
  i < lenN lut ->
  nthN (lut_words U64 lut) (2 * i) 0 = nthN lut i 0 mod two32 /\
  nthN (lut_words U64 lut) (2 * i + 1) 0 = nthN lut i 0 / two32.
Proof.
  revert i. induction lut as [|v r IH]; intros i Hi; [rewrite lenN_nil in Hi; lia|].
  cbn [lut_words flat_map]. rewrite lenN_cons in Hi.
  destruct (N.eq_dec i 0) as [->|Hne].
  - split; reflexivity.
  - change ([v mod two32; v / two32] ++ flat_map (fun v0 => [v0 mod two32; v0 / two32]) r)
      with (v mod two32 :: v / two32 :: lut_words U64 r).
    rewrite !nthN_cons_pos by lia.
    replace (2 * i - 1 - 1) with (2 * (i - 1)) by lia.
    replace (2 * i + 1 - 1 - 1) with (2 * (i - 1) + 1) by lia.
    apply IH. lia.
Qed.

(* ---------- the block fold ---------- *)

Fixpoint enc_vlist (dt : dtype) (vl : list (list N)) (st : est) : outcome est :=
  match vl with
  | [] => Ok st
  | v :: r => bind (enc_block dt v st) (enc_vlist dt r)
  end.

Record stinv (H : N) (st : est) : Prop := {
  si_len : e_len st = H + lenN (e_body st);
  si_luts : forall key off, assoc_find key (e_luts st) = Some off ->
                            H <= off /\ seg (rev (e_body st)) (off - H) key }.

(* what the header words h0 h1 of a block promise about the body *)
Definition blk_body (dt : dtype) (H : N) (body : list N) (h0 h1 : N) (vals : list N) : Prop :=
  exists lo vo bits,
    number_of_encoding_bits (lenN (sort_dedup vals)) = Ok bits /\
    h0 = lo + bits * two24 /\ h1 = vo /\ lo < two24 /\ vo < two32 /\ H <= lo /\ H <= vo /\
    seg body (lo - H) (lut_words dt (sort_dedup vals)) /\
    seg body (vo - H) (pack_values bits (map (fun v => index_of v (sort_dedup vals)) vals)).

Lemma blk_body_app dt H body e h0 h1 vals :
  blk_body dt H body h0 h1 vals -> blk_body dt H (body ++ e) h0 h1 vals.
Proof.
  intros (lo & vo & bits & H1 & H2 & H3 & H4 & H5 & H6 & H7 & H8 & H9).
  exists lo, vo, bits. repeat split; auto using seg_app_r; apply seg_app_r; (apply H8 || apply H9).
Qed.

Lemma rev_rev_append (a b : list N) : rev (rev_append a b) = rev b ++ a.
Proof. rewrite rev_append_rev, rev_app_distr, rev_involutive. reflexivity. Qed.

Lemma index_bound vals bits :
  number_of_encoding_bits (lenN (sort_dedup vals)) = Ok bits ->
  Forall (fun i => i < 2 ^ bits) (map (fun v => index_of v (sort_dedup vals)) vals).
Proof.
  intros Hb. apply nbits_spec in Hb. destruct Hb as [Hb _].
  apply Forall_forall. intros i Hi. apply in_map_iff in Hi. destruct Hi as (v & <- & Hv).
  assert (Hin : In v (sort_dedup vals)) by now apply sort_dedup_In.
  destruct (index_of_spec v _ Hin) as [H1 _]. lia.
Qed.

Lemma bits_le_32 n bits : number_of_encoding_bits n = Ok bits -> bits <= 32.
Proof.
  intros H. apply nbits_spec in H. destruct H as [_ H]. unfold allowed_bits in H. simpl in H.
  repeat (destruct H as [H|H]; [lia|]). destruct H.
Qed.

Lemma enc_block_step dt H vals st st1 :
  stinv H st -> Forall (fun v => v < dt_bound dt) vals ->
  enc_block dt vals st = Ok st1 ->
  stinv H st1 /\
  exists ext h0 h1,
    rev (e_body st1) = rev (e_body st) ++ ext /\ w32 ext /\
    e_hdr st1 = h1 :: h0 :: e_hdr st /\ h0 < two32 /\ h1 < two32 /\
    blk_body dt H (rev (e_body st1)) h0 h1 vals.
Proof.
  intros [Hlen Hluts] Hvals. unfold enc_block.
  set (lut := sort_dedup vals).
  destruct (number_of_encoding_bits (lenN lut)) as [bits| | | | | |] eqn:Hbits; try discriminate.
  cbn [bind].
  set (lutw := lut_words dt lut).
  set (vw := pack_values bits (map (fun v => index_of v lut) vals)).
  assert (Hlutw : w32 lutw) by (apply lut_words_w32, sort_dedup_Forall, Hvals).
  assert (Hvw : w32 vw) by (apply pack_values_bound, index_bound, Hbits).
  assert (Hb32 := bits_le_32 _ _ Hbits).
  destruct (assoc_find lutw (e_luts st)) as [off|] eqn:Ef.
  - (* table re-used *)
    cbv beta iota zeta.
    destruct (N.leb_spec two24 off) as [|Hlo]; [discriminate|].
    destruct (N.leb_spec two32 (e_len st)) as [|Hvo]; [discriminate|].
    intros E. inversion E; subst st1; clear E. cbn [e_body e_len e_luts e_hdr].
    destruct (Hluts _ _ Ef) as [HoffH Hseg].
    split.
    + constructor; cbn [e_body e_len e_luts].
      * unfold lenN. rewrite rev_append_rev, app_length, rev_length. unfold lenN in Hlen. lia.
      * intros key o Hk. destruct (Hluts _ _ Hk) as [A B]. split; [exact A|].
        rewrite rev_rev_append. now apply seg_app_r.
    + exists vw, (off + bits * two24), (e_len st).
      rewrite rev_rev_append.
      split; [reflexivity|]. split; [exact Hvw|]. split; [reflexivity|].
      split; [rewrite two24_val, two32_val in *; nia|]. split; [exact Hvo|].
      exists off, (e_len st), bits.
      split; [exact Hbits|]. split; [reflexivity|]. split; [reflexivity|].
      split; [exact Hlo|]. split; [exact Hvo|]. split; [exact HoffH|]. split; [lia|]. split.
      * apply seg_app_r. exact Hseg.
      * replace (e_len st - H) with (lenN (rev (e_body st))) by (rewrite lenN_rev; lia).
        apply seg_end0.
  - (* new table *)
    cbv beta iota zeta.
    destruct (N.leb_spec two24 (e_len st)) as [|Hlo]; [discriminate|].
    destruct (N.leb_spec two32 (e_len st + lenN lutw)) as [|Hvo]; [discriminate|].
    intros E. inversion E; subst st1; clear E. cbn [e_body e_len e_luts e_hdr].
    assert (Erev : rev (rev_append vw (rev_append lutw (e_body st))) = rev (e_body st) ++ lutw ++ vw).
    { rewrite !rev_rev_append. now rewrite app_assoc. }
    assert (EH : e_len st - H = lenN (rev (e_body st))) by (rewrite lenN_rev; lia).
    split.
    + constructor; cbn [e_body e_len e_luts].
      * unfold lenN. rewrite !rev_append_rev, !app_length, !rev_length. unfold lenN in Hlen. lia.
      * intros key o Hk. rewrite Erev. cbn [assoc_find] in Hk.
        destruct (list_eqb key lutw) eqn:Ek.
        -- apply list_eqb_eq in Ek. subst key. inversion Hk; subst o. split; [lia|].
           rewrite EH. apply seg_end.
        -- destruct (Hluts _ _ Hk) as [A B]. split; [exact A|]. now apply seg_app_r.
    + exists (lutw ++ vw), (e_len st + bits * two24), (e_len st + lenN lutw).
      rewrite Erev.
      split; [reflexivity|]. split; [apply Forall_app; now split|]. split; [reflexivity|].
      split; [rewrite two24_val, two32_val in *; nia|]. split; [exact Hvo|].
      exists (e_len st), (e_len st + lenN lutw), bits.
      split; [exact Hbits|]. split; [reflexivity|]. split; [reflexivity|].
      split; [exact Hlo|]. split; [exact Hvo|]. split; [lia|]. split; [lia|]. split.
      * rewrite EH. apply seg_end.
      * replace (e_len st + lenN lutw - H) with (lenN (rev (e_body st) ++ lutw))
          by (rewrite lenN_app, lenN_rev; lia).
        rewrite app_assoc. apply seg_end0.
Qed.

Lemma enc_vlist_inv dt H vl : forall st st',
  stinv H st -> Forall (Forall (fun v => v < dt_bound dt)) vl ->
  enc_vlist dt vl st = Ok st' ->
  stinv H st' /\
  exists ext hx,
    rev (e_body st') = rev (e_body st) ++ ext /\ w32 ext /\
    rev (e_hdr st') = rev (e_hdr st) ++ hx /\ w32 hx /\ lenN hx = 2 * lenN vl /\
    forall k, k < lenN vl ->
      blk_body dt H (rev (e_body st')) (nthN hx (2 * k) 0) (nthN hx (2 * k + 1) 0) (nthN vl k []).
Proof.
  induction vl as [|v r IH]; intros st st' Hinv Hb E.
  - cbn [enc_vlist] in E. inversion E; subst st'. split; [exact Hinv|].
    exists [], []. rewrite !app_nil_r. repeat split; try constructor.
    intros k Hk. rewrite lenN_nil in Hk. lia.
  - cbn [enc_vlist] in E.
    destruct (enc_block dt v st) as [st1| | | | | |] eqn:E1; try discriminate. cbn [bind] in E.
    inversion Hb as [|? ? Hv Hr]; subst.
    destruct (enc_block_step dt H v st st1 Hinv Hv E1)
      as (Hinv1 & ext1 & h0 & h1 & Eb1 & Hw1 & Eh1 & Hh0 & Hh1 & Hblk1).
    destruct (IH st1 st' Hinv1 Hr E) as (Hinv' & ext2 & hx2 & Eb2 & Hw2 & Eh2 & Hwh2 & Hl2 & Hblk2).
    split; [exact Hinv'|].
    exists (ext1 ++ ext2), (h0 :: h1 :: hx2).
    split; [rewrite Eb2, Eb1; now rewrite app_assoc|].
    split; [apply Forall_app; now split|].
    split.
    { rewrite Eh2, Eh1. cbn [rev]. rewrite <- !app_assoc. reflexivity. }
    split; [repeat constructor; assumption|].
    split; [rewrite !lenN_cons; lia|].
    intros k Hk. rewrite lenN_cons in Hk.
    destruct (N.eq_dec k 0) as [->|Hne].
    + change (2 * 0) with 0. change (0 + 1) with 1.
      rewrite !nthN_cons_0. rewrite (nthN_cons_pos h0) by lia. rewrite nthN_cons_0.
      rewrite Eb2. apply blk_body_app. exact Hblk1.
    + rewrite (nthN_cons_pos v) by lia.
      rewrite (nthN_cons_pos h0 _ (2 * k)) by lia. rewrite (nthN_cons_pos h1) by lia.
      rewrite (nthN_cons_pos h0 _ (2 * k + 1)) by lia. rewrite (nthN_cons_pos h1) by lia.
      replace (2 * k - 1 - 1) with (2 * (k - 1)) by lia.
      replace (2 * k + 1 - 1 - 1) with (2 * (k - 1) + 1) by lia.
      apply Hblk2. lia.
Qed.

(* ---------- the padded blocks ---------- *)

Lemma tab3_In Z Y X f v : In v (tab3 Z Y X f) -> exists z y x, z < Z /\ y < Y /\ x < X /\ v = f z y x.
Proof.
  unfold tab3. intros H. apply in_flat_map in H. destruct H as (z & Hz & H).
  apply in_flat_map in H. destruct H as (y & Hy & H). apply in_map_iff in H.
  destruct H as (x & <- & Hx). apply range_In in Hz, Hy, Hx. eauto 8.
Qed.

Lemma tab3_Forall (P : N -> Prop) Z Y X f :
  (forall z y x, z < Z -> y < Y -> x < X -> P (f z y x)) -> Forall P (tab3 Z Y X f).
Proof.
  intros H. apply Forall_forall. intros v Hv. apply tab3_In in Hv.
  destruct Hv as (z & y & x & Hz & Hy & Hx & ->). now apply H.
Qed.

Lemma get4_bound bound a c z y x : wf_arr bound a -> 0 < bound -> get4 a c z y x < bound.
Proof.
  intros [_ Hb] Hpos. unfold get4, nthN.
  destruct (Nat.lt_ge_cases (N.to_nat (idx4 a c z y x)) (length (a_data a))) as [Hlt|Hge].
  - rewrite Forall_forall in Hb. apply Hb. now apply nth_In.
  - now rewrite nth_overflow.
Qed.

Lemma dt_bound_pos dt : 0 < dt_bound dt.
Proof. destruct dt; reflexivity. Qed.

Lemma block_vals_form a g c zb yb xb v :
  block_vals a g c (zb, yb, xb) = Ok v ->
  exists pad, v = block_padded a g c zb yb xb pad /\
              (pad = 0 \/ In pad (block_real a g c zb yb xb)).
Proof.
  unfold block_vals. destruct (block_full a g zb yb xb).
  - intros E. inversion E. exists 0. auto.
  - destruct (most_frequent _) as [p| | | | | |] eqn:Em; try discriminate. cbn [bind].
    intros E. inversion E. exists p. split; [reflexivity|]. right. now apply most_frequent_In.
Qed.

Lemma block_vals_bound dt a g c zyx v :
  wf_arr (dt_bound dt) a -> block_vals a g c zyx = Ok v -> Forall (fun x => x < dt_bound dt) v.
Proof.
  intros Hwf E. destruct zyx as [[zb yb] xb].
  apply block_vals_form in E. destruct E as (pad & -> & Hpad).
  assert (Hp : pad < dt_bound dt).
  { destruct Hpad as [->|Hin]; [apply dt_bound_pos|].
    unfold block_real in Hin. apply tab3_In in Hin.
    destruct Hin as (k & j & i & _ & _ & _ & ->). apply get4_bound; [exact Hwf|apply dt_bound_pos]. }
  unfold block_padded. apply tab3_Forall. intros k j i _ _ _.
  destruct (_ && _); [apply get4_bound; [exact Hwf|apply dt_bound_pos]|exact Hp].
Qed.

Lemma block_padded_length a g c zb yb xb pad :
  lenN (block_padded a g c zb yb xb pad) = g_bz g * g_by g * g_bx g.
Proof. apply tab3_length. Qed.

Lemma block_padded_nth a g c zb yb xb pad k j i :
  k < g_bz g -> j < g_by g -> i < g_bx g ->
  zb * g_bz g + k < a_z a -> yb * g_by g + j < a_y a -> xb * g_bx g + i < a_x a ->
  nthN (block_padded a g c zb yb xb pad) ((k * g_by g + j) * g_bx g + i) 0
  = get4 a c (zb * g_bz g + k) (yb * g_by g + j) (xb * g_bx g + i).
Proof.
  intros Hk Hj Hi Hz Hy Hx. unfold block_padded. rewrite tab3_nth by assumption.
  destruct (N.ltb_spec (zb * g_bz g + k) (a_z a)); [|lia].
  destruct (N.ltb_spec (yb * g_by g + j) (a_y a)); [|lia].
  destruct (N.ltb_spec (xb * g_bx g + i) (a_x a)); [|lia]. reflexivity.
Qed.

Lemma enc_blocks_vlist dt a g c cs : forall st st',
  enc_blocks dt a g c cs st = Ok st' ->
  exists vl, Forall2 (fun zyx v => block_vals a g c zyx = Ok v) cs vl /\
             enc_vlist dt vl st = Ok st'.
Proof.
  induction cs as [|zyx r IH]; intros st st' E.
  - cbn [enc_blocks] in E. exists []. split; [constructor|exact E].
  - cbn [enc_blocks] in E.
    destruct (block_vals a g c zyx) as [v| | | | | |] eqn:Ev; try discriminate. cbn [bind] in E.
    destruct (enc_block dt v st) as [st1| | | | | |] eqn:E1; try discriminate. cbn [bind] in E.
    destruct (IH st1 st' E) as (vl & HF & Hvl).
    exists (v :: vl). split; [constructor; assumption|].
    cbn [enc_vlist]. rewrite E1. exact Hvl.
Qed.

Lemma Forall2_nthN {A B} (R : A -> B -> Prop) l l' i d d' :
  Forall2 R l l' -> i < lenN l -> R (nthN l i d) (nthN l' i d').
Proof.
  unfold nthN, lenN. intros H. revert i. induction H; intros i Hi; [simpl in Hi; lia|].
  destruct (N.to_nat i) eqn:E.
  - assumption.
  - specialize (IHForall2 (N.of_nat n)). rewrite Nat2N.id in IHForall2. apply IHForall2.
    simpl in Hi. lia.
Qed.

Lemma Forall2_lenN {A B} (R : A -> B -> Prop) l l' : Forall2 R l l' -> lenN l = lenN l'.
Proof. intros H. unfold lenN. f_equal. induction H; simpl; auto. Qed.

(* ---------- one channel ---------- *)

Definition blk_enc (dt : dtype) (W : list N) (k : N) (vals : list N) : Prop :=
  exists lo vo bits,
    number_of_encoding_bits (lenN (sort_dedup vals)) = Ok bits /\
    nthN W (2 * k) 0 = lo + bits * two24 /\ nthN W (2 * k + 1) 0 = vo /\
    lo < two24 /\ vo < two32 /\
    seg W lo (lut_words dt (sort_dedup vals)) /\
    seg W vo (pack_values bits (map (fun v => index_of v (sort_dedup vals)) vals)).

Lemma block_coords_length gz gy gx : lenN (block_coords gz gy gx) = gz * gy * gx.
Proof.
  unfold block_coords. rewrite lenN_flat_map_range with (m := gy * gx); [lia|].
  intros z _. rewrite lenN_flat_map_range with (m := gx); [lia|].
  intros y _. apply lenN_map_range.
Qed.

Lemma block_coords_nth gz gy gx zb yb xb d :
  zb < gz -> yb < gy -> xb < gx ->
  nthN (block_coords gz gy gx) (xb + gx * (yb + gy * zb)) d = (zb, yb, xb).
Proof.
  intros Hz Hy Hx. unfold block_coords.
  replace (xb + gx * (yb + gy * zb)) with (zb * (gy * gx) + (yb * gx + xb)) by lia.
  assert (Hb : yb * gx + xb < gy * gx) by nia.
  rewrite nthN_flat_map_range; try assumption.
  - rewrite nthN_flat_map_range; try assumption.
    + now apply nthN_map_range.
    + intros k _. apply lenN_map_range.
  - intros k _. rewrite lenN_flat_map_range with (m := gx); [lia|].
    intros y' _. apply lenN_map_range.
Qed.

Lemma stinv_init n : stinv (2 * n) (init_est n).
Proof.
  constructor; cbn [init_est e_len e_body e_luts].
  - rewrite lenN_nil. lia.
  - intros key off H. discriminate.
Qed.

Lemma encode_channel_enc dt a g c W :
  wf_arr (dt_bound dt) a -> encode_channel dt a g c = Ok W ->
  let gx := grid_x a g in let gy := grid_y a g in let gz := grid_z a g in
  w32 W /\ 2 * (gx * gy * gz) <= lenN W /\
  exists vl, Forall2 (fun zyx v => block_vals a g c zyx = Ok v) (block_coords gz gy gx) vl /\
             forall k, k < gx * gy * gz -> blk_enc dt W k (nthN vl k []).
Proof.
  intros Hwf E gx gy gz. unfold encode_channel in E. fold gx gy gz in E.
  destruct (enc_blocks dt a g c (block_coords gz gy gx) (init_est (gx * gy * gz)))
    as [st| | | | | |] eqn:Eb; try discriminate. cbn [bind] in E. inversion E; subst W; clear E.
  destruct (enc_blocks_vlist _ _ _ _ _ _ _ Eb) as (vl & HF & Hvl).
  assert (Hlen : lenN vl = gx * gy * gz).
  { rewrite <- (Forall2_lenN _ _ _ HF), block_coords_length. lia. }
  assert (Hbound : Forall (Forall (fun v => v < dt_bound dt)) vl).
  { apply Forall_forall. intros v Hv.
    destruct (In_nth _ _ [] Hv) as (n & Hn & <-).
    assert (Hn' : N.of_nat n < lenN (block_coords gz gy gx)).
    { rewrite (Forall2_lenN _ _ _ HF). unfold lenN. lia. }
    assert (R := Forall2_nthN _ _ _ (N.of_nat n) (0, 0, 0) [] HF Hn').
    cbv beta in R. unfold nthN in R at 2. rewrite Nat2N.id in R.
    eapply block_vals_bound; eauto. }
  destruct (enc_vlist_inv dt (2 * (gx * gy * gz)) vl _ _ (stinv_init _) Hbound Hvl)
    as (Hinv & ext & hx & Eb' & Hw & Eh & Hwh & Hlh & Hblk).
  cbn [init_est e_body e_hdr rev app] in Eb', Eh.
  unfold est_words. rewrite Eb', Eh.
  split; [apply Forall_app; now split|].
  split; [rewrite lenN_app; lia|].
  exists vl. split; [exact HF|].
  intros k Hk. rewrite <- Hlen in Hk.
  destruct (Hblk k Hk) as (lo & vo & bits & B1 & B2 & B3 & B4 & B5 & B6 & B7 & B8 & B9).
  rewrite Eb' in B8, B9.
  exists lo, vo, bits.
  split; [exact B1|].
  split; [rewrite nthN_app1 by lia; exact B2|].
  split; [rewrite nthN_app1 by lia; exact B3|].
  split; [exact B4|]. split; [exact B5|].
  split.
  - replace lo with (lenN hx + (lo - 2 * (gx * gy * gz))) by lia. now apply seg_shift.
  - replace vo with (lenN hx + (vo - 2 * (gx * gy * gz))) by lia. now apply seg_shift.
Qed.

(* ---------- the whole file ---------- *)

Fixpoint offsets_from (s : N) (chans : list (list N)) : list N :=
  match chans with
  | [] => []
  | w :: r => s :: offsets_from (s + lenN w) r
  end.

Lemma offsets_from_length s chans : lenN (offsets_from s chans) = lenN chans.
Proof.
  revert s. induction chans as [|w r IH]; intros s; [reflexivity|].
  cbn [offsets_from]. rewrite !lenN_cons, IH. reflexivity.
Qed.

Lemma offsets_from_seg s chans c :
  c < lenN chans ->
  s <= nthN (offsets_from s chans) c 0 /\
  seg (concat chans) (nthN (offsets_from s chans) c 0 - s) (nthN chans c []).
Proof.
  revert s c. induction chans as [|w r IH]; intros s c Hc; [rewrite lenN_nil in Hc; lia|].
  cbn [offsets_from concat]. rewrite lenN_cons in Hc.
  destruct (N.eq_dec c 0) as [->|Hne].
  - rewrite !nthN_cons_0. split; [lia|]. replace (s - s) with 0 by lia.
    replace 0 with (lenN (@nil N)) by reflexivity. change (w ++ concat r) with ([] ++ w ++ concat r).
    apply seg_end.
  - rewrite !nthN_cons_pos by lia.
    destruct (IH (s + lenN w) (c - 1) ltac:(lia)) as [H1 H2]. split; [lia|].
    replace (nthN (offsets_from (s + lenN w) r) (c - 1) 0 - s)
      with (lenN w + (nthN (offsets_from (s + lenN w) r) (c - 1) 0 - (s + lenN w))) by lia.
    now apply seg_shift.
Qed.

Lemma offsets_from_next s chans c :
  c + 1 < lenN chans ->
  nthN (offsets_from s chans) (c + 1) 0 = nthN (offsets_from s chans) c 0 + lenN (nthN chans c []).
Proof.
  revert s c. induction chans as [|w r IH]; intros s c Hc; [rewrite lenN_nil in Hc; lia|].
  cbn [offsets_from]. rewrite lenN_cons in Hc.
  destruct (N.eq_dec c 0) as [->|Hne].
  - change (0 + 1) with 1. rewrite nthN_cons_pos by lia. rewrite !nthN_cons_0.
    destruct r as [|w2 r2]; [unfold lenN in Hc; cbn [length] in Hc; lia|]. reflexivity.
  - rewrite !nthN_cons_pos by lia. replace (c + 1 - 1) with (c - 1 + 1) by lia.
    apply IH. lia.
Qed.

Lemma offsets_from_last s chans c :
  c + 1 = lenN chans ->
  nthN (offsets_from s chans) c 0 + lenN (nthN chans c []) = s + lenN (concat chans).
Proof.
  revert s c. induction chans as [|w r IH]; intros s c Hc; [rewrite lenN_nil in Hc; lia|].
  cbn [offsets_from concat]. rewrite lenN_cons in Hc. rewrite lenN_app.
  destruct (N.eq_dec c 0) as [->|Hne].
  - rewrite !nthN_cons_0. destruct r as [|w2 r2]; [cbn [concat]; rewrite lenN_nil; lia|].
    unfold lenN in Hc. cbn [length] in Hc. lia.
  - rewrite !nthN_cons_pos by lia. rewrite IH by lia. lia.
Qed.

Lemma enc_channels_layout dt a g cs : forall off os ws,
  enc_channels dt a g cs off = Ok (os, ws) ->
  exists chans, Forall2 (fun c w => encode_channel dt a g c = Ok w) cs chans /\
                os = offsets_from off chans /\ ws = concat chans /\ w32 os.
Proof.
  induction cs as [|c r IH]; intros off os ws E.
  - cbn [enc_channels] in E. inversion E; subst. exists []. repeat split; constructor.
  - cbn [enc_channels] in E.
    destruct (N.leb_spec two32 off) as [|Hoff]; [discriminate|].
    destruct (encode_channel dt a g c) as [w| | | | | |] eqn:Ec; try discriminate. cbn [bind] in E.
    destruct (enc_channels dt a g r (off + lenN w)) as [[os' ws']| | | | | |] eqn:Er; try discriminate.
    cbn [bind] in E. inversion E; subst os ws; clear E.
    destruct (IH _ _ _ Er) as (chans & HF & -> & -> & Hw).
    exists (w :: chans). split; [constructor; assumption|].
    split; [reflexivity|]. split; [reflexivity|]. constructor; assumption.
Qed.

Lemma w32_concat chans : Forall w32 chans -> w32 (concat chans).
Proof.
  induction 1 as [|w r Hw Hr IH]; [constructor|]. cbn [concat]. apply Forall_app. now split.
Qed.

(* layout of an encoded file: channel offsets, then the channels back to back *)
Lemma encode_words_layout dt a g W :
  wf_arr (dt_bound dt) a -> encode_words dt a g = Ok W ->
  exists chans,
    W = offsets_from (a_c a) chans ++ concat chans /\ lenN chans = a_c a /\ w32 W /\
    forall c, c < a_c a -> encode_channel dt a g c = Ok (nthN chans c []).
Proof.
  intros Hwf E. unfold encode_words in E.
  destruct (enc_channels dt a g (range (a_c a)) (a_c a)) as [[os ws]| | | | | |] eqn:Ec; try discriminate.
  cbn [bind] in E. inversion E; subst W; clear E.
  destruct (enc_channels_layout _ _ _ _ _ _ _ Ec) as (chans & HF & -> & -> & Hw).
  assert (Hlen : lenN chans = a_c a).
  { rewrite <- (Forall2_lenN _ _ _ HF). apply range_length. }
  assert (Hch : forall c, c < a_c a -> encode_channel dt a g c = Ok (nthN chans c [])).
  { intros c Hc.
    assert (R := Forall2_nthN _ _ _ c 0 [] HF ltac:(rewrite range_length; exact Hc)).
    cbv beta in R. now rewrite range_nth in R. }
  exists chans. split; [reflexivity|]. split; [exact Hlen|]. split; [|exact Hch].
  apply Forall_app. split; [exact Hw|].
  apply w32_concat. apply Forall_forall. intros w Hin.
  destruct (In_nth _ _ [] Hin) as (n & Hn & <-).
  assert (Hc : N.of_nat n < a_c a) by (rewrite <- Hlen; unfold lenN; lia).
  specialize (Hch _ Hc). unfold nthN in Hch. rewrite Nat2N.id in Hch.
  now destruct (encode_channel_enc dt a g _ _ Hwf Hch) as [Hw32 _].
Qed.

Lemma layout_chan C chans c :
  lenN chans = C -> c < C ->
  let W := offsets_from C chans ++ concat chans in
  let off := nthN (offsets_from C chans) c 0 in
  nthN W c 0 = off /\ seg W off (nthN chans c []).
Proof.
  intros Hlen Hc W off. subst W off. split.
  - rewrite nthN_app1 by (rewrite offsets_from_length; lia). reflexivity.
  - destruct (offsets_from_seg C chans c ltac:(lia)) as [H1 H2].
    replace (nthN (offsets_from C chans) c 0)
      with (lenN (offsets_from C chans) + (nthN (offsets_from C chans) c 0 - C))
      by (rewrite offsets_from_length; lia).
    now apply seg_shift.
Qed.

(* ---------- summary: what an encoded file looks like ---------- *)

(* [vl] lists the padded blocks of a channel in grid order; every block is
   described by its header words in [Wc]; the block at grid position
   (zb,yb,xb) is the padded slice of the chunk *)
Definition chan_enc (dt : dtype) (a : arr4) (g : geom) (c : N) (Wc : list N) (vl : list (list N)) : Prop :=
  let gx := grid_x a g in let gy := grid_y a g in let gz := grid_z a g in
  w32 Wc /\ 2 * (gx * gy * gz) <= lenN Wc /\ lenN vl = gx * gy * gz /\
  (forall k, k < gx * gy * gz ->
     lenN (nthN vl k []) = g_bz g * g_by g * g_bx g /\
     Forall (fun v => v < dt_bound dt) (nthN vl k []) /\
     blk_enc dt Wc k (nthN vl k [])) /\
  (forall zb yb xb, zb < gz -> yb < gy -> xb < gx ->
     exists pad, nthN vl (xb + gx * (yb + gy * zb)) [] = block_padded a g c zb yb xb pad).

Definition file_enc (dt : dtype) (a : arr4) (g : geom) (W : list N) (chans : list (list N)) : Prop :=
  W = offsets_from (a_c a) chans ++ concat chans /\ lenN chans = a_c a /\ w32 W /\
  forall c, c < a_c a -> exists vl, chan_enc dt a g c (nthN chans c []) vl.

Lemma grid_index_lt gx gy gz xb yb zb :
  xb < gx -> yb < gy -> zb < gz -> xb + gx * (yb + gy * zb) < gx * gy * gz.
Proof. intros. assert (yb + gy * zb + 1 <= gy * gz) by nia. nia. Qed.

Lemma encode_channel_chan_enc dt a g c Wc :
  wf_arr (dt_bound dt) a -> encode_channel dt a g c = Ok Wc -> exists vl, chan_enc dt a g c Wc vl.
Proof.
  intros Hwf Hch.
  destruct (encode_channel_enc dt a g c _ Hwf Hch) as (Hw & Hl & vl & HF & Hblk).
  exists vl. unfold chan_enc. cbv zeta.
  set (gx := grid_x a g) in *. set (gy := grid_y a g) in *. set (gz := grid_z a g) in *.
  assert (Hlen : lenN vl = gx * gy * gz).
  { rewrite <- (Forall2_lenN _ _ _ HF), block_coords_length. lia. }
  split; [exact Hw|]. split; [exact Hl|]. split; [exact Hlen|]. split.
  - intros k Hk.
    assert (Hk' : k < lenN (block_coords gz gy gx)) by (rewrite block_coords_length; lia).
    assert (R := Forall2_nthN _ _ _ _ (0, 0, 0) [] HF Hk'). cbv beta in R.
    assert (Hb := block_vals_bound dt a g c _ _ Hwf R).
    destruct (nthN (block_coords gz gy gx) k (0, 0, 0)) as [[zb yb] xb].
    destruct (block_vals_form _ _ _ _ _ _ _ R) as (pad & Ev & _).
    split; [rewrite Ev; apply block_padded_length|]. split; [exact Hb|]. now apply Hblk.
  - intros zb yb xb Hz Hy Hx.
    assert (Hk := grid_index_lt gx gy gz xb yb zb Hx Hy Hz).
    assert (Hk' : xb + gx * (yb + gy * zb) < lenN (block_coords gz gy gx)).
    { rewrite block_coords_length. lia. }
    assert (R := Forall2_nthN _ _ _ _ (0, 0, 0) [] HF Hk'). cbv beta in R.
    rewrite block_coords_nth in R by assumption.
    destruct (block_vals_form _ _ _ _ _ _ _ R) as (pad & Ev & _).
    exists pad. exact Ev.
Qed.

Lemma encode_words_file_enc dt a g W :
  wf_arr (dt_bound dt) a -> encode_words dt a g = Ok W -> exists chans, file_enc dt a g W chans.
Proof.
  intros Hwf E. destruct (encode_words_layout dt a g W Hwf E) as (chans & EW & Hlen & Hw & Hch).
  exists chans. unfold file_enc.
  split; [exact EW|]. split; [exact Hlen|]. split; [exact Hw|].
  intros c Hc. apply encode_channel_chan_enc; [exact Hwf|]. now apply Hch.
Qed.

Lemma cseg_encode_file_enc dt nc g a buf :
  wf_arr (dt_bound dt) a -> cseg_encode dt nc g a = Ok buf ->
  a_c a = nc /\ g_bx g <> 0 /\ g_by g <> 0 /\ g_bz g <> 0 /\
  exists W chans, buf = bytes_of_words W /\ file_enc dt a g W chans.
Proof.
  intros Hwf E. unfold cseg_encode in E.
  destruct (N.eqb_spec (a_c a) nc) as [Hc|]; [|discriminate]. cbn [negb] in E.
  destruct (N.eqb_spec (g_bx g) 0); [discriminate|].
  destruct (N.eqb_spec (g_by g) 0); [discriminate|].
  destruct (N.eqb_spec (g_bz g) 0); [discriminate|]. cbn [orb] in E.
  destruct (encode_words dt a g) as [W| | | | | |] eqn:EW; try discriminate. cbn [bind] in E.
  inversion E; subst buf.
  destruct (encode_words_file_enc dt a g W Hwf EW) as (chans & Hf).
  repeat (split; [assumption|]). exists W, chans. split; [reflexivity|exact Hf].
Qed.
