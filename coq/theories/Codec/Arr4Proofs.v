(* Lemmas about tabulated lists and 4-D arrays. *)
From Coq Require Import NArith ZArith List Bool Lia ZifyBool ZifyNat ZifyN.
From NGS Require Import Val Ints Words Arr4 WordsProofs.
Import ListNotations.
Open Scope N_scope.

Ltac Zify.zify_post_hook ::= Z.to_euclidean_division_equations.

Section FlatMap.
Context {A : Type}.

Lemma length_flat_map_nseq (g : N -> list A) (m : nat) s n :
  (forall k, s <= k < s + N.of_nat n -> length (g k) = m) ->
  length (flat_map g (nseq s n)) = (n * m)%nat.
Proof.
  revert s. induction n; intros s H; [reflexivity|].
  cbn [nseq flat_map]. rewrite app_length, IHn, H by (try lia; intros; apply H; lia). simpl. lia.
Qed.

Lemma nth_flat_map_nseq (g : N -> list A) (m : nat) s n i j d :
  (forall k, s <= k < s + N.of_nat n -> length (g k) = m) ->
  (i < n)%nat -> (j < m)%nat ->
  nth (i * m + j) (flat_map g (nseq s n)) d = nth j (g (s + N.of_nat i)) d.
Proof.
  revert s i. induction n; intros s i H Hi Hj; [lia|].
  cbn [nseq flat_map]. destruct i.
  - rewrite app_nth1 by (rewrite H; lia). simpl. f_equal. f_equal. lia.
  - rewrite app_nth2 by (rewrite H by lia; simpl; lia).
    rewrite H by lia. replace (S i * m + j - m)%nat with (i * m + j)%nat by (simpl; lia).
    rewrite IHn by (try lia; intros; apply H; lia). f_equal. f_equal. lia.
Qed.

Lemma lenN_flat_map_range (g : N -> list A) m n :
  (forall k, k < n -> lenN (g k) = m) -> lenN (flat_map g (range n)) = n * m.
Proof.
  intros H. unfold lenN, range.
  rewrite length_flat_map_nseq with (m := N.to_nat m).
  - lia.
  - intros k Hk. specialize (H k ltac:(lia)). unfold lenN in H. lia.
Qed.

Lemma nthN_flat_map_range (g : N -> list A) m n i j d :
  (forall k, k < n -> lenN (g k) = m) -> i < n -> j < m ->
  nthN (flat_map g (range n)) (i * m + j) d = nthN (g i) j d.
Proof.
  intros H Hi Hj. unfold nthN, range.
  replace (N.to_nat (i * m + j)) with (N.to_nat i * N.to_nat m + N.to_nat j)%nat by lia.
  rewrite nth_flat_map_nseq; try lia.
  - do 2 f_equal. lia.
  - intros k Hk. specialize (H k ltac:(lia)). unfold lenN in H. lia.
Qed.

Lemma lenN_map_range (f : N -> A) n : lenN (map f (range n)) = n.
Proof. rewrite lenN_map. apply range_length. Qed.

Lemma nthN_map_range (f : N -> A) n i d : i < n -> nthN (map f (range n)) i d = f i.
Proof.
  intros H. rewrite nthN_map with (d := 0) by (rewrite range_length; lia).
  now rewrite range_nth.
Qed.
End FlatMap.

(* ---------- tab3 / tab4 ---------- *)

Lemma tab3_length Z Y X f : lenN (tab3 Z Y X f) = Z * Y * X.
Proof.
  unfold tab3. rewrite lenN_flat_map_range with (m := Y * X); [lia|].
  intros z _. rewrite lenN_flat_map_range with (m := X); [lia|].
  intros y _. apply lenN_map_range.
Qed.

Lemma tab3_nth Z Y X f z y x d :
  z < Z -> y < Y -> x < X -> nthN (tab3 Z Y X f) ((z * Y + y) * X + x) d = f z y x.
Proof.
  intros Hz Hy Hx. unfold tab3.
  replace ((z * Y + y) * X + x) with (z * (Y * X) + (y * X + x)) by lia.
  assert (Hb : y * X + x < Y * X) by nia.
  rewrite nthN_flat_map_range; try assumption.
  - rewrite nthN_flat_map_range; try assumption.
    + now apply nthN_map_range.
    + intros k _. apply lenN_map_range.
  - intros k _. rewrite lenN_flat_map_range with (m := X); [lia|].
    intros y' _. apply lenN_map_range.
Qed.

Lemma tab4_length C Z Y X f : lenN (a_data (tab4 C Z Y X f)) = C * Z * Y * X.
Proof.
  unfold tab4. cbn [a_data]. rewrite lenN_flat_map_range with (m := Z * Y * X); [lia|].
  intros c _. apply tab3_length.
Qed.

Lemma get4_tab4 C Z Y X f c z y x :
  c < C -> z < Z -> y < Y -> x < X -> get4 (tab4 C Z Y X f) c z y x = f c z y x.
Proof.
  intros Hc Hz Hy Hx. unfold get4, idx4, tab4. cbn [a_data a_z a_y a_x].
  replace (((c * Z + z) * Y + y) * X + x) with (c * (Z * Y * X) + ((z * Y + y) * X + x)) by lia.
  assert (Hb : (z * Y + y) * X + x < Z * Y * X).
  { assert ((z * Y + y) + 1 <= Z * Y) by nia. nia. }
  rewrite nthN_flat_map_range; try assumption.
  - now apply tab3_nth.
  - intros k _. apply tab3_length.
Qed.

Lemma tab4_shape C Z Y X f : same_shape (tab4 C Z Y X f) C Z Y X.
Proof. repeat split. Qed.

(* two lists of the same length with the same entries are equal *)
Lemma nthN_ext (l l' : list N) :
  lenN l = lenN l' -> (forall i, i < lenN l -> nthN l i 0 = nthN l' i 0) -> l = l'.
Proof.
  unfold lenN, nthN. intros Hl H. apply nth_ext with (d := 0) (d' := 0); [lia|].
  intros n Hn. specialize (H (N.of_nat n) ltac:(lia)). now rewrite Nat2N.id in H.
Qed.

Lemma tab4_data_nth C Z Y X f c z y x :
  c < C -> z < Z -> y < Y -> x < X ->
  nthN (a_data (tab4 C Z Y X f)) (((c * Z + z) * Y + y) * X + x) 0 = f c z y x.
Proof. exact (get4_tab4 C Z Y X f c z y x). Qed.

(* an array is the tabulation of its own entries *)
Lemma tab4_get4 a :
  lenN (a_data a) = size4 a -> tab4 (a_c a) (a_z a) (a_y a) (a_x a) (get4 a) = a.
Proof.
  destruct a as [C Z Y X data]. unfold size4. cbn [a_c a_z a_y a_x a_data]. intros Hlen.
  set (a0 := {| a_c := C; a_z := Z; a_y := Y; a_x := X; a_data := data |}).
  assert (Hd : a_data (tab4 C Z Y X (get4 a0)) = data).
  { apply nthN_ext.
    - rewrite tab4_length. lia.
    - intros i Hi. rewrite tab4_length in Hi.
      assert (HX : 0 < X) by nia. assert (HY : 0 < Y) by nia. assert (HZ : 0 < Z) by nia.
      set (x := i mod X). set (r1 := i / X). set (y := r1 mod Y). set (r2 := r1 / Y).
      set (z := r2 mod Z). set (c := r2 / Z).
      assert (Ei : i = ((c * Z + z) * Y + y) * X + x).
      { subst x y z c r1 r2.
        pose proof (N.div_mod i X ltac:(lia)) as E1.
        pose proof (N.div_mod (i / X) Y ltac:(lia)) as E2.
        pose proof (N.div_mod (i / X / Y) Z ltac:(lia)) as E3. nia. }
      assert (Hx : x < X) by (subst x; apply N.mod_lt; lia).
      assert (Hy : y < Y) by (subst y; apply N.mod_lt; lia).
      assert (Hz : z < Z) by (subst z; apply N.mod_lt; lia).
      assert (Hc : c < C).
      { subst c r2 r1. apply N.div_lt_upper_bound; [lia|].
        apply N.div_lt_upper_bound; [lia|]. apply N.div_lt_upper_bound; [lia|]. nia. }
      rewrite Ei. rewrite tab4_data_nth by assumption. reflexivity. }
  unfold tab4 in *. cbn [a_data] in Hd. rewrite Hd. reflexivity.
Qed.
