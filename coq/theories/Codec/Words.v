(* Shared byte / word helpers of the chunk codecs: little-endian integers,
   Python-style slicing of byte strings, the two label data types of the
   compressed_segmentation encoding. *)
From Coq Require Import NArith ZArith List Bool Lia.
From NGS Require Import Val Ints.
Import ListNotations.
Open Scope N_scope.

Definition two8 : N := 256.
Definition two24 : N := 2 ^ 24.
Definition two32 : N := 2 ^ 32.

(* n-byte little-endian representation of v (truncating, like struct.pack
   never does: callers check the range first) and its inverse. *)
Fixpoint le_bytes (n : nat) (v : N) : list N :=
  match n with O => [] | S k => v mod two8 :: le_bytes k (v / two8) end.

Fixpoint le_val (l : list N) : N :=
  match l with [] => 0 | b :: r => b + two8 * le_val r end.

Definition le32 (v : N) : list N := le_bytes 4 v.
Definition le64 (v : N) : list N := le_bytes 8 v.

Definition bytes_of_words (ws : list N) : list N := flat_map le32 ws.

(* split a byte string into items of [n] bytes; a trailing partial item is
   dropped (callers check the length first). [cnt] = number of items. *)
Fixpoint items_of (n : nat) (cnt : nat) (l : list N) : list N :=
  match cnt with
  | O => []
  | S k => le_val (firstn n l) :: items_of n k (skipn n l)
  end.

Definition words_of_bytes (l : list N) : list N := items_of 4 (length l / 4) l.

Definition is_byte (b : N) : Prop := b < two8.
Definition bytes_ok (l : list N) : Prop := Forall is_byte l.
Definition all_bytesb (l : list N) : bool := forallb (fun b => b <? two8) l.

(* buf[off : off+len] for natural off, len (clamped like Python) *)
Definition sub (l : list N) (off len : N) : list N :=
  firstn (N.to_nat len) (skipn (N.to_nat off) l).

(* Python's buf[start:stop] for arbitrary integers. *)
Definition py_norm (len i : Z) : Z :=
  if (i <? 0)%Z then Z.max (i + len) 0 else Z.min i len.
Definition py_slice (l : list N) (start stop : Z) : list N :=
  let len := Z.of_nat (length l) in
  let a := py_norm len start in
  let b := py_norm len stop in
  if (b <=? a)%Z then [] else firstn (Z.to_nat (b - a)) (skipn (Z.to_nat a) l).

(* utils.ceil_div on naturals: (a - 1) // b + 1 with Python's floor division *)
Definition cdiv (a b : N) : N := nceil_div a b.
Definition py_ceil_div (a b : Z) : Z := ((a - 1) / b + 1)%Z.

(* label data types of compressed_segmentation *)
Inductive dtype : Type := U32 | U64.
Definition itemsize (dt : dtype) : N := match dt with U32 => 4 | U64 => 8 end.
Definition wpe (dt : dtype) : N := match dt with U32 => 1 | U64 => 2 end.   (* words per entry *)
Definition dt_bound (dt : dtype) : N := match dt with U32 => two32 | U64 => two64 end.

Definition range (n : N) : list N := nseq 0 (N.to_nat n).

Fixpoint list_eqb (a b : list N) : bool :=
  match a, b with
  | [], [] => true
  | x :: a', y :: b' => (x =? y) && list_eqb a' b'
  | _, _ => false
  end.

(* sequential evaluation of a list of outcomes: first failure wins *)
Fixpoint mapM {A B} (f : A -> outcome B) (l : list A) : outcome (list B) :=
  match l with
  | [] => Ok []
  | a :: r => bind (f a) (fun b => bind (mapM f r) (fun bs => Ok (b :: bs)))
  end.
