(* C02: the specification decoder recovers every voxel from the encoder's
   output, and the output is well-formed. *)
From Coq Require Import NArith ZArith List Bool Lia ZifyBool ZifyNat ZifyN.
From NGS Require Import Val Ints Words Arr4 CSegEncode CSegSpec WordsProofs Arr4Proofs
     CSegPackProofs CSegSortProofs CSegEncodeProofs.
Import ListNotations.
Open Scope N_scope.

Ltac Zify.zify_post_hook ::= Z.to_euclidean_division_equations.

(* ---------- reading words back from the serialised buffer ---------- *)

Lemma skipn_nth_cons {A} (l : list A) n d :
  (n < length l)%nat -> skipn n l = nth n l d :: skipn (S n) l.
Proof.
  revert l. induction n; intros l H; destruct l; simpl in *; try lia; auto.
  apply IHn. lia.
Qed.

Lemma rd32_words W i :
  w32 W -> i < lenN W -> rd32 (bytes_of_words W) (4 * i) = Some (nthN W i 0).
Proof.
  intros Hw Hi. unfold rd32.
  replace (N.to_nat (4 * i)) with (4 * N.to_nat i)%nat by lia.
  rewrite skipn_bytes_of_words.
  rewrite (skipn_nth_cons W (N.to_nat i) 0) by (unfold lenN in Hi; lia).
  fold (nthN W i 0).
  assert (Hb : nthN W i 0 < two32).
  { unfold w32 in Hw. rewrite Forall_forall in Hw. apply Hw. unfold nthN. apply nth_In.
    unfold lenN in Hi. lia. }
  set (w := nthN W i 0) in *.
  unfold bytes_of_words. cbn [flat_map]. rewrite firstn4_le32_app.
  unfold le32. cbn [le_bytes]. f_equal. rewrite two8_val, two32_val in *. lia.
Qed.

Lemma chan_read W off Wc j :
  w32 W -> seg W off Wc -> j < lenN Wc ->
  rd32 (bytes_of_words W) (4 * off + 4 * j) = Some (nthN Wc j 0).
Proof.
  intros Hw Hs Hj. replace (4 * off + 4 * j) with (4 * (off + j)) by lia.
  rewrite rd32_words; [|exact Hw|destruct Hs; lia].
  now rewrite (seg_nth W off Wc j Hs Hj).
Qed.

Lemma ceil_quot_cdiv a b : b <> 0 -> ceil_quot a b = cdiv a b.
Proof.
  intros Hb. unfold ceil_quot, cdiv, nceil_div.
  assert (E := N.div_mod a b Hb). assert (L := N.mod_lt a b Hb).
  set (q := a / b) in *. set (r := a mod b) in *. clearbody q r.
  destruct (N.eqb_spec r 0) as [Hr|Hr].
  - apply N.div_unique with (r := b - 1); lia.
  - apply N.div_unique with (r := r - 1); lia.
Qed.

Lemma bits_allowed_In b : In b allowed_bits -> bits_allowed b = true.
Proof.
  unfold allowed_bits. simpl. intros H.
  repeat (destruct H as [<-|H]; [reflexivity|]). destruct H.
Qed.

Lemma allowed_pos_bits b : In b allowed_bits -> b <> 0 -> pos_bits b.
Proof.
  unfold allowed_bits, pos_bits. simpl. intros H Hn.
  destruct H as [<-|H]; [congruence|].
  repeat (destruct H as [<-|H]; [auto 10|]). destruct H.
Qed.

(* ---------- one block: index and table entry ---------- *)

Section Block.
Variables (dt : dtype) (W Wc vals : list N) (off lo vo bits : N).
Hypothesis HW : w32 W.
Hypothesis Hseg : seg W off Wc.
Hypothesis Hbits : number_of_encoding_bits (lenN (sort_dedup vals)) = Ok bits.
Hypothesis Hlut : seg Wc lo (lut_words dt (sort_dedup vals)).
Hypothesis Hval : seg Wc vo (pack_values bits (map (fun v => index_of v (sort_dedup vals)) vals)).
Hypothesis Hbound : Forall (fun v => v < dt_bound dt) vals.

Let lut := sort_dedup vals.
Let buf := bytes_of_words W.

Lemma spec_index_enc p :
  p < lenN vals ->
  spec_index buf (4 * off + 4 * vo) bits p = Some (index_of (nthN vals p 0) lut).
Proof.
  intros Hp. unfold spec_index.
  assert (Hin : In (nthN vals p 0) lut).
  { apply sort_dedup_In. unfold nthN. apply nth_In. unfold lenN in Hp. lia. }
  destruct (index_of_spec _ _ Hin) as [Hidx _].
  destruct (nbits_spec _ _ Hbits) as [Hle Hallowed].
  destruct (N.eqb_spec bits 0) as [Hz|Hnz].
  - f_equal. subst bits. fold lut in Hle. simpl in Hle. lia.
  - assert (Hpb := allowed_pos_bits bits Hallowed Hnz).
    destruct (pos_bits_vpw bits Hpb) as (Hv & Hm & _).
    destruct (bitpos_split bits p Hpb) as [E1 E2].
    set (idxs := map (fun v => index_of v lut) vals) in *.
    assert (Hval' : seg Wc vo (pack_values bits idxs)) by exact Hval.
    assert (Hidxs : Forall (fun i => i < 2 ^ bits) idxs) by (apply index_bound; exact Hbits).
    assert (Hlen : lenN idxs = lenN vals) by (unfold idxs; apply lenN_map).
    assert (Hk : p / (32 / bits) < lenN (pack_values bits idxs)).
    { rewrite pack_values_length by assumption. apply div_lt_cdiv; lia. }
    replace (4 * off + 4 * vo + 4 * (p * bits / 32)) with (4 * off + 4 * (vo + p * bits / 32)) by lia.
    rewrite E1, E2.
    assert (Hd := pack_values_digit bits idxs p Hpb Hidxs ltac:(lia)).
    set (kw := p / (32 / bits)) in *. set (sh := p mod (32 / bits)) in *. clearbody kw sh.
    rewrite (chan_read W off Wc) by (try assumption; destruct Hval'; lia).
    rewrite (seg_nth Wc vo _ _ Hval' Hk).
    f_equal.
    change ((nthN (pack_values bits idxs) kw 0 / 2 ^ (sh * bits)) mod 2 ^ bits)
      with (digit bits sh (nthN (pack_values bits idxs) kw 0)).
    rewrite Hd.
    unfold idxs. now rewrite nthN_map with (d := 0) by assumption.
Qed.

Lemma spec_entry_enc v :
  In v vals ->
  spec_entry dt buf (4 * off + 4 * lo) (index_of v lut) = Some v.
Proof.
  intros Hv. assert (Hin : In v lut) by now apply sort_dedup_In.
  destruct (index_of_spec _ _ Hin) as [Hidx Hnth].
  assert (Hvb : v < dt_bound dt) by (rewrite Forall_forall in Hbound; now apply Hbound).
  assert (Hll := lut_words_length dt lut).
  assert (Hlut' : seg Wc lo (lut_words dt lut)) by exact Hlut.
  assert (Hext := seg_extent _ _ _ Hlut').
  unfold spec_entry. clear Hlut Hval. destruct dt.
  - cbn [wpe lut_words] in *.
    replace (4 * off + 4 * lo + 4 * index_of v lut) with (4 * off + 4 * (lo + index_of v lut)) by lia.
    rewrite (chan_read W off Wc) by (try assumption; lia).
    rewrite (seg_nth Wc lo _ _ Hlut') by lia. now rewrite Hnth.
  - cbn [wpe] in *.
    replace (4 * off + 4 * lo + 8 * index_of v lut) with (4 * off + 4 * (lo + 2 * index_of v lut)) by lia.
    replace (4 * off + 4 * (lo + 2 * index_of v lut) + 4)
      with (4 * off + 4 * (lo + (2 * index_of v lut + 1))) by lia.
    rewrite !(chan_read W off Wc) by (try assumption; lia).
    rewrite !(seg_nth Wc lo _ _ Hlut') by lia.
    destruct (lut_words_nth64 lut _ Hidx) as [E1 E2]. rewrite E1, E2, Hnth.
    f_equal. cbn [dt_bound] in Hvb. unfold two64 in Hvb. rewrite two32_val.
    change (2 ^ 32) with 4294967296. change (2 ^ 64) with 18446744073709551616 in Hvb. lia.
Qed.
End Block.

(* ---------- geometry: a voxel lies in one block at an in-range position ---------- *)

Lemma voxel_geometry z bz : bz <> 0 -> z / bz * bz + z mod bz = z /\ z mod bz < bz.
Proof.
  intros Hb. split; [|apply N.mod_lt; exact Hb].
  assert (E := N.div_mod z bz Hb). lia.
Qed.

(* (2) the specification decoder recovers every voxel *)
Theorem encode_spec_roundtrip dt nc g a buf :
  wf_arr (dt_bound dt) a -> cseg_encode dt nc g a = Ok buf ->
  forall c z y x, in4 a c z y x ->
    spec_value dt buf (a_y a) (a_x a) (g_bx g) (g_by g) (g_bz g) c z y x = Some (get4 a c z y x).
Proof.
  intros Hwf E c z y x (Hc & Hz & Hy & Hx).
  destruct (cseg_encode_file_enc dt nc g a buf Hwf E) as (_ & Hbx & Hby & Hbz & W & chans & -> & Hf).
  unfold file_enc in Hf. cbv zeta in Hf. destruct Hf as (EW & Hlen & HW & Hch).
  destruct (Hch c Hc) as (Hl & Hblk).
  set (gx := grid_x a g) in *. set (gy := grid_y a g) in *. set (gz := grid_z a g) in *.
  set (bx := g_bx g) in *. set (by_ := g_by g) in *. set (bz := g_bz g) in *.
  assert (Hxb : x / bx < gx) by (apply div_lt_cdiv; [lia|exact Hx]).
  assert (Hyb : y / by_ < gy) by (apply div_lt_cdiv; [lia|exact Hy]).
  assert (Hzb : z / bz < gz) by (apply div_lt_cdiv; [lia|exact Hz]).
  destruct (Hblk _ _ _ Hzb Hyb Hxb) as (pad & Hbound & lo & vo & bits & B1 & B2 & B3 & B4 & B5 & B6 & B7).
  destruct (layout_chan (a_c a) chans c Hlen Hc) as [L1 L2]. cbv zeta in L1, L2.
  rewrite <- EW in L1, L2.
  set (off := nthN (offsets_from (a_c a) chans) c 0) in *.
  set (Wc := nthN chans c []) in *.
  set (vals := block_padded a g c (z / bz) (y / by_) (x / bx) pad) in *.
  set (k := x / bx + gx * (y / by_ + gy * (z / bz))) in *.
  assert (Hkb : k < gx * gy * gz).
  { subst k. assert (y / by_ + gy * (z / bz) + 1 <= gy * gz) by nia. nia. }
  destruct (voxel_geometry z bz Hbz) as [Gz Gz'].
  destruct (voxel_geometry y by_ Hby) as [Gy Gy'].
  destruct (voxel_geometry x bx Hbx) as [Gx Gx'].
  set (p := x mod bx + bx * (y mod by_ + by_ * (z mod bz))).
  assert (Hp : p < lenN vals).
  { unfold vals. rewrite block_padded_length. fold bx by_ bz. subst p.
    assert (y mod by_ + by_ * (z mod bz) + 1 <= by_ * bz) by nia. nia. }
  assert (Hpv : nthN vals p 0 = get4 a c z y x).
  { unfold vals, p.
    replace (x mod bx + bx * (y mod by_ + by_ * (z mod bz)))
      with ((z mod bz * by_ + y mod by_) * bx + x mod bx) by lia.
    unfold bx, by_, bz. rewrite block_padded_nth; fold bx by_ bz; try assumption; try lia.
    now rewrite Gz, Gy, Gx. }
  assert (HcW : c < lenN W).
  { rewrite EW, lenN_app, offsets_from_length. lia. }
  (* unfold the specification *)
  unfold spec_value. fold bx by_ bz.
  destruct (N.eqb_spec bx 0); [contradiction|].
  destruct (N.eqb_spec by_ 0); [contradiction|].
  destruct (N.eqb_spec bz 0); [contradiction|]. cbn [orb].
  rewrite !ceil_quot_cdiv by assumption.
  change (cdiv (a_x a) bx) with gx. change (cdiv (a_y a) by_) with gy. fold k. fold p.
  rewrite (rd32_words W c HW HcW), L1.
  replace (4 * off + 8 * k) with (4 * off + 4 * (2 * k)) by lia.
  replace (4 * off + 4 * (2 * k) + 4) with (4 * off + 4 * (2 * k + 1)) by lia.
  rewrite !(chan_read W off Wc) by (try assumption; lia).
  rewrite B2, B3.
  destruct (nbits_spec _ _ B1) as [_ Hallowed].
  change (2 ^ 24) with two24.
  replace ((lo + bits * two24) / two24) with bits
    by (symmetry; rewrite N.div_add by (rewrite two24_val; lia); rewrite N.div_small by exact B4; lia).
  replace ((lo + bits * two24) mod two24) with lo
    by (symmetry; rewrite N.mod_add by (rewrite two24_val; lia); apply N.mod_small; exact B4).
  rewrite (bits_allowed_In bits Hallowed). cbn [negb].
  rewrite (spec_index_enc dt W Wc vals off vo bits HW L2 B1 B7 p Hp).
  rewrite Hpv.
  rewrite (spec_entry_enc dt W Wc vals off lo HW L2 B6 Hbound).
  - reflexivity.
  - rewrite <- Hpv. unfold nthN. apply nth_In. unfold lenN in Hp. lia.
Qed.
